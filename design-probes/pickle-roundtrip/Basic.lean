/-! Throw-away probe: op-level pickle round trip over a flat heap (lists with memo + tuples). -/

inductive Val where
  | none | int (i : Int) | ref (a : Nat)
deriving DecidableEq, Repr

inductive Obj where
  | tuple (xs : List Val) | list (xs : List Val)
deriving DecidableEq, Repr

abbrev Heap := List Obj

inductive Op where
  | none | int (i : Int) | emptyList | memoize | binget (id : Nat) | append | tuple (n : Nat)
deriving DecidableEq, Repr

structure EncSt where
  memo : List (Nat × Nat)   -- addr ↦ id
  next : Nat                -- next address the decoder will allocate
deriving Repr

def lookup (m : List (Nat × Nat)) (a : Nat) : Option Nat :=
  (m.find? (fun p => p.1 == a)).map (·.2)

/-- encode a list of values with `f`, optionally emitting `tail` after each. -/
def encSeq (f : EncSt → Val → Option (EncSt × List Op)) (tail : List Op) :
    EncSt → List Val → Option (EncSt × List Op)
  | st, [] => some (st, [])
  | st, x :: xs =>
    match f st x with
    | Option.none => Option.none
    | some (st1, ops1) =>
      match encSeq f tail st1 xs with
      | Option.none => Option.none
      | some (st2, ops2) => some (st2, ops1 ++ tail ++ ops2)

def encVal (g : Heap) : Nat → EncSt → Val → Option (EncSt × List Op)
  | _, st, .none => some (st, [.none])
  | _, st, .int i => some (st, [.int i])
  | 0, _, .ref _ => Option.none
  | fuel+1, st, .ref a =>
    match lookup st.memo a with
    | some id => some (st, [.binget id])
    | Option.none =>
      match g[a]? with
      | Option.none => Option.none
      | some (.tuple xs) =>
        match encSeq (encVal g fuel) [] st xs with
        | Option.none => Option.none
        | some (st', ops) =>
          if a = st'.next then some ({ st' with next := st'.next + 1 }, ops ++ [.tuple xs.length])
          else Option.none
      | some (.list xs) =>
        if a = st.next then
          match encSeq (encVal g fuel) [.append]
              { memo := (a, st.memo.length) :: st.memo, next := st.next + 1 } xs with
          | Option.none => Option.none
          | some (st', ops) => some (st', [.emptyList, .memoize] ++ ops)
        else Option.none

structure DecSt where
  stack : List Val
  memo  : List Val
  heap  : Heap
deriving Repr

def stepOp (ds : DecSt) : Op → Option DecSt
  | .none => some { ds with stack := .none :: ds.stack }
  | .int i => some { ds with stack := .int i :: ds.stack }
  | .emptyList => some { ds with stack := .ref ds.heap.length :: ds.stack, heap := ds.heap ++ [.list []] }
  | .memoize =>
    match ds.stack with
    | v :: _ => some { ds with memo := ds.memo ++ [v] }
    | [] => Option.none
  | .binget id =>
    match ds.memo[id]? with
    | some v => some { ds with stack := v :: ds.stack }
    | Option.none => Option.none
  | .append =>
    match ds.stack with
    | v :: .ref a :: rest =>
      match ds.heap[a]? with
      | some (.list xs) => some { ds with stack := .ref a :: rest, heap := ds.heap.set a (.list (xs ++ [v])) }
      | _ => Option.none
    | _ => Option.none
  | .tuple n =>
    if n ≤ ds.stack.length then
      some { ds with stack := .ref ds.heap.length :: ds.stack.drop n,
                     heap := ds.heap ++ [.tuple (ds.stack.take n).reverse] }
    else Option.none

def run : DecSt → List Op → Option DecSt
  | ds, [] => some ds
  | ds, op :: ops => match stepOp ds op with
    | Option.none => Option.none
    | some ds' => run ds' ops

-- sanity
def g1 : Heap := [.list [.int 1, .ref 0, .ref 1], .tuple [.int 2, .ref 0]]
#eval encVal g1 10 ⟨[], 0⟩ (.ref 0)
#eval (encVal g1 10 ⟨[], 0⟩ (.ref 0)).bind fun r => run ⟨[], [], []⟩ r.2

import P2.Basic  -- (probe: see ../README.md)

theorem run_append (ds : DecSt) (xs ys : List Op) :
    run ds (xs ++ ys) = (run ds xs).bind (fun d => run d ys) := by
  induction xs generalizing ds with
  | nil => simp [run]
  | cons x xs ih =>
    simp only [List.cons_append, run]
    cases h : stepOp ds x with
    | none => simp
    | some d => simp [ih]

structure Sim (st : EncSt) (ds : DecSt) : Prop where
  hlen : ds.heap.length = st.next
  mlen : ds.memo.length = st.memo.length
  mem  : ∀ a id, lookup st.memo a = some id → ds.memo[id]? = some (.ref a)

structure Post (g : Heap) (st st' : EncSt) (ds ds' : DecSt) : Prop where
  sim   : Sim st' ds'
  mono  : st.next ≤ st'.next
  frame : ∀ a, a < st.next → ds'.heap[a]? = ds.heap[a]?
  fresh : ∀ a, st.next ≤ a → a < st'.next → ds'.heap[a]? = g[a]?

def ValSpec (g : Heap) (f : EncSt → Val → Option (EncSt × List Op)) : Prop :=
  ∀ st v st' ops ds, f st v = some (st', ops) → Sim st ds →
    ∃ ds', run ds ops = some ds' ∧ ds'.stack = v :: ds.stack ∧ Post g st st' ds ds'

theorem Post.refl (g : Heap) {st : EncSt} {ds : DecSt} (h : Sim st ds) : Post g st st ds ds :=
  ⟨h, Nat.le_refl _, fun _ _ => rfl, fun a h1 h2 => by omega⟩

theorem Post.trans {g : Heap} {s1 s2 s3 : EncSt} {d1 d2 d3 : DecSt}
    (p : Post g s1 s2 d1 d2) (q : Post g s2 s3 d2 d3) : Post g s1 s3 d1 d3 := by
  refine ⟨q.sim, Nat.le_trans p.mono q.mono, ?_, ?_⟩
  · intro a ha
    rw [q.frame a (Nat.lt_of_lt_of_le ha p.mono), p.frame a ha]
  · intro a h1 h2
    by_cases h : a < s2.next
    · rw [q.frame a h, p.fresh a h1 h]
    · exact q.fresh a (by omega) h2

/-- tuple elements: values pile up on the stack in reverse. -/
theorem encSeq_tuple {g : Heap} {f} (hf : ValSpec g f) :
    ∀ (xs : List Val) st st' ops ds, encSeq f [] st xs = some (st', ops) → Sim st ds →
      ∃ ds', run ds ops = some ds' ∧ ds'.stack = xs.reverse ++ ds.stack ∧ Post g st st' ds ds' := by
  intro xs
  induction xs with
  | nil =>
    intro st st' ops ds h hs
    simp only [encSeq, Option.some.injEq, Prod.mk.injEq] at h
    obtain ⟨rfl, rfl⟩ := h
    exact ⟨ds, by simp [run], by simp, Post.refl g hs⟩
  | cons x xs ih =>
    intro st st' ops ds h hs
    simp only [encSeq] at h
    split at h
    · cases h
    · rename_i st1 ops1 h1
      split at h
      · cases h
      · rename_i st2 ops2 h2
        simp only [Option.some.injEq, Prod.mk.injEq] at h
        obtain ⟨rfl, rfl⟩ := h
        obtain ⟨d1, r1, s1, p1⟩ := hf st x st1 ops1 ds h1 hs
        obtain ⟨d2, r2, s2, p2⟩ := ih st1 st2 ops2 d1 h2 p1.sim
        refine ⟨d2, ?_, ?_, p1.trans p2⟩
        · simp [run_append, r1, r2]
        · simp [s2, s1]

/-- list elements: each is appended to the list object at address `a`. -/
theorem encSeq_list {g : Heap} {f} (hf : ValSpec g f) (a : Nat) (rest : List Val) :
    ∀ (xs : List Val) (pre : List Val) st st' ops ds,
      encSeq f [.append] st xs = some (st', ops) → Sim st ds →
      a < st.next → ds.stack = .ref a :: rest → ds.heap[a]? = some (.list pre) →
      ∃ ds', run ds ops = some ds' ∧ ds'.stack = .ref a :: rest ∧
        Sim st' ds' ∧ st.next ≤ st'.next ∧
        ds'.heap[a]? = some (.list (pre ++ xs)) ∧
        (∀ b, b < st.next → b ≠ a → ds'.heap[b]? = ds.heap[b]?) ∧
        (∀ b, st.next ≤ b → b < st'.next → ds'.heap[b]? = g[b]?) := by
  intro xs
  induction xs with
  | nil =>
    intro pre st st' ops ds h hs ha hst hh
    simp only [encSeq, Option.some.injEq, Prod.mk.injEq] at h
    obtain ⟨rfl, rfl⟩ := h
    exact ⟨ds, by simp [run], hst, hs, Nat.le_refl _, by simpa using hh, fun _ _ _ => rfl,
      fun b h1 h2 => by omega⟩
  | cons x xs ih =>
    intro pre st st' ops ds h hs ha hst hh
    simp only [encSeq] at h
    split at h
    · cases h
    · rename_i st1 ops1 h1
      split at h
      · cases h
      · rename_i st2 ops2 h2
        simp only [Option.some.injEq, Prod.mk.injEq] at h
        obtain ⟨rfl, rfl⟩ := h
        obtain ⟨d1, r1, s1, p1⟩ := hf st x st1 ops1 ds h1 hs
        -- the append step
        have hha : d1.heap[a]? = some (.list pre) := by rw [p1.frame a ha, hh]
        have halt : a < d1.heap.length := by rw [p1.sim.hlen]; exact Nat.lt_of_lt_of_le ha p1.mono
        let d1' : DecSt := { d1 with stack := .ref a :: rest, heap := d1.heap.set a (.list (pre ++ [x])) }
        have rstep : stepOp d1 .append = some d1' := by
          simp [stepOp, s1, hst, hha, d1']
        have hs1' : Sim st1 d1' := ⟨by simp [d1', p1.sim.hlen], p1.sim.mlen, p1.sim.mem⟩
        have ha1 : a < st1.next := Nat.lt_of_lt_of_le ha p1.mono
        have hh1 : d1'.heap[a]? = some (.list (pre ++ [x])) := by
          simp [d1', halt]
        obtain ⟨d2, r2, s2, sim2, mono2, ha2, fr2, fresh2⟩ :=
          ih (pre ++ [x]) st1 st2 ops2 d1' h2 hs1' ha1 rfl hh1
        refine ⟨d2, ?_, s2, sim2, Nat.le_trans p1.mono mono2, ?_, ?_, ?_⟩
        · simp [run_append, r1, run, rstep, r2]
        · simpa using ha2
        · intro b hb hne
          rw [fr2 b (Nat.lt_of_lt_of_le hb p1.mono) hne]
          simp only [d1']
          rw [List.getElem?_set_ne (Ne.symm hne), p1.frame b hb]
        · intro b h1b h2b
          by_cases hb : b < st1.next
          · have hne : b ≠ a := by omega
            rw [fr2 b hb hne]
            simp only [d1']
            rw [List.getElem?_set_ne (Ne.symm hne), p1.fresh b h1b hb]
          · exact fresh2 b (by omega) h2b

theorem lookup_cons_self (m : List (Nat × Nat)) (a id : Nat) : lookup ((a, id) :: m) a = some id := by
  simp [lookup, List.find?]

theorem lookup_cons_ne (m : List (Nat × Nat)) (a b id : Nat) (h : b ≠ a) :
    lookup ((a, id) :: m) b = lookup m b := by
  have : (a == b) = false := by simpa using (Ne.symm h)
  simp [lookup, List.find?, this]

theorem spec_push {g : Heap} {st : EncSt} {ds : DecSt} (hs : Sim st ds) (op : Op) (v : Val)
    (hstep : stepOp ds op = some { ds with stack := v :: ds.stack }) :
    ∃ ds', run ds [op] = some ds' ∧ ds'.stack = v :: ds.stack ∧ Post g st st ds ds' :=
  ⟨{ ds with stack := v :: ds.stack }, by simp [run, hstep], rfl,
    ⟨⟨hs.hlen, hs.mlen, hs.mem⟩, Nat.le_refl _, fun _ _ => rfl, fun a h1 h2 => by omega⟩⟩

theorem encVal_ref (g : Heap) (fuel : Nat) (ih : ValSpec g (encVal g fuel)) (a : Nat) :
    ∀ st st' ops ds, encVal g (fuel+1) st (.ref a) = some (st', ops) → Sim st ds →
    ∃ ds', run ds ops = some ds' ∧ ds'.stack = .ref a :: ds.stack ∧ Post g st st' ds ds' := by
  intro st st' ops ds h hs
  simp only [encVal] at h
  split at h
  · -- memo hit
    rename_i id hid
    simp only [Option.some.injEq, Prod.mk.injEq] at h; obtain ⟨rfl, rfl⟩ := h
    have := hs.mem a id hid
    exact spec_push hs (.binget id) (.ref a) (by simp [stepOp, this])
  · rename_i hmiss
    split at h
    · cases h
    · -- tuple
      rename_i xs hga
      split at h
      · cases h
      · rename_i st1 ops1 h1
        split at h
        · rename_i haeq
          simp only [Option.some.injEq, Prod.mk.injEq] at h; obtain ⟨rfl, rfl⟩ := h
          obtain ⟨d1, r1, s1, p1⟩ := encSeq_tuple ih xs st st1 ops1 ds h1 hs
          have hlen : xs.length ≤ d1.stack.length := by simp [s1]
          have hl1 : d1.heap.length = st1.next := p1.sim.hlen
          refine ⟨{ d1 with stack := .ref d1.heap.length :: d1.stack.drop xs.length,
                            heap := d1.heap ++ [.tuple (d1.stack.take xs.length).reverse] }, ?_, ?_, ?_⟩
          · simp [run_append, r1, run, stepOp, hlen]
          · simp [s1, hl1, haeq]
          · refine ⟨⟨by simp [hl1], p1.sim.mlen, p1.sim.mem⟩, by have := p1.mono; simp; omega, ?_, ?_⟩
            · intro b hb
              have : b < d1.heap.length := by rw [hl1]; exact Nat.lt_of_lt_of_le hb p1.mono
              simp [List.getElem?_append_left this, p1.frame b hb]
            · intro b h1b h2b
              simp only at h2b
              by_cases hb : b < st1.next
              · have : b < d1.heap.length := by rw [hl1]; exact hb
                simp [List.getElem?_append_left this, p1.fresh b h1b hb]
              · have hbe : b = d1.heap.length := by omega
                subst hbe
                have e : d1.heap.length = a := by omega
                simp [s1, e ▸ hga]
        · cases h
    · -- list
      rename_i xs hga
      split at h
      · rename_i haeq
        split at h
        · cases h
        · rename_i st1 ops1 h1
          simp only [Option.some.injEq, Prod.mk.injEq] at h; obtain ⟨rfl, rfl⟩ := h
          -- after EMPTY_LIST, MEMOIZE
          let d0 : DecSt := { stack := .ref ds.heap.length :: ds.stack, memo := ds.memo ++ [.ref ds.heap.length],
                              heap := ds.heap ++ [.list []] }
          have hl : ds.heap.length = a := by rw [hs.hlen, haeq]
          have r0 : run ds [.emptyList, .memoize] = some d0 := by simp [run, stepOp, d0]
          have sim0 : Sim { memo := (a, st.memo.length) :: st.memo, next := st.next + 1 } d0 := by
            refine ⟨by simp [d0, hs.hlen], by simp [d0, hs.mlen], ?_⟩
            intro b id hb
            by_cases hba : b = a
            · subst hba
              rw [lookup_cons_self] at hb
              cases hb
              simp [d0, ← hs.mlen, hl]
            · rw [lookup_cons_ne _ _ _ _ hba] at hb
              have := hs.mem b id hb
              have hlt : id < ds.memo.length := by
                rcases Nat.lt_or_ge id ds.memo.length with h | h
                · exact h
                · simp [List.getElem?_eq_none h] at this
              simp [d0, List.getElem?_append_left hlt, this]
          have ha0 : a < st.next + 1 := by omega
          have hh0 : d0.heap[a]? = some (.list []) := by simp [d0, ← hl]
          obtain ⟨d2, r2, s2, sim2, mono2, ha2, fr2, fresh2⟩ :=
            encSeq_list ih a ds.stack xs [] _ st1 ops1 d0 h1 sim0 ha0 (by simp [d0, hl]) hh0
          refine ⟨d2, ?_, s2, ⟨sim2, by simp at mono2; omega, ?_, ?_⟩⟩
          · rw [run_append, r0]; simpa using r2
          · intro b hb
            have hne : b ≠ a := by omega
            rw [fr2 b (by simp; omega) hne]
            have : b < ds.heap.length := by rw [hs.hlen]; exact hb
            simp [d0, List.getElem?_append_left this]
          · intro b h1b h2b
            by_cases hba : b = a
            · subst hba; simpa [hga] using ha2
            · exact fresh2 b (by simp; omega) h2b
      · cases h

theorem encVal_spec (g : Heap) : ∀ fuel, ValSpec g (encVal g fuel) := by
  intro fuel
  induction fuel with
  | zero =>
    intro st v st' ops ds h hs
    cases v with
    | none =>
      simp only [encVal, Option.some.injEq, Prod.mk.injEq] at h; obtain ⟨rfl, rfl⟩ := h
      exact spec_push hs .none .none (by simp [stepOp])
    | int i =>
      simp only [encVal, Option.some.injEq, Prod.mk.injEq] at h; obtain ⟨rfl, rfl⟩ := h
      exact spec_push hs (.int i) (.int i) (by simp [stepOp])
    | ref a => simp [encVal] at h
  | succ fuel ih =>
    intro st v st' ops ds h hs
    cases v with
    | none =>
      simp only [encVal, Option.some.injEq, Prod.mk.injEq] at h; obtain ⟨rfl, rfl⟩ := h
      exact spec_push hs .none .none (by simp [stepOp])
    | int i =>
      simp only [encVal, Option.some.injEq, Prod.mk.injEq] at h; obtain ⟨rfl, rfl⟩ := h
      exact spec_push hs (.int i) (.int i) (by simp [stepOp])
    | ref a => exact encVal_ref g fuel ih a st st' ops ds h hs

/-- Round trip: a graph whose every object is allocated by the encoding of its root decodes to itself. -/
theorem roundtrip (g : Heap) (fuel : Nat) (v : Val) (st' : EncSt) (ops : List Op)
    (h : encVal g fuel ⟨[], 0⟩ v = some (st', ops)) (hall : st'.next = g.length) :
    ∃ ds', run ⟨[], [], []⟩ ops = some ds' ∧ ds'.stack = [v] ∧ ds'.heap = g := by
  have hs : Sim ⟨[], 0⟩ ⟨[], [], []⟩ := ⟨rfl, rfl, by intro a id h; simp [lookup] at h⟩
  obtain ⟨ds', r, s, p⟩ := encVal_spec g fuel _ v st' ops _ h hs
  refine ⟨ds', r, s, ?_⟩
  apply List.ext_getElem?
  intro a
  by_cases ha : a < st'.next
  · exact p.fresh a (Nat.zero_le _) ha
  · have h1 : ds'.heap.length ≤ a := by rw [p.sim.hlen]; omega
    have h2 : g.length ≤ a := by omega
    simp [List.getElem?_eq_none h1, List.getElem?_eq_none h2]

#print axioms roundtrip

/-! Throw-away probe: minimal version selection — the build list is "reachable, at the greatest version". -/

structure Node where
  path : Nat
  ver  : Nat
deriving DecidableEq, Repr

variable (req : Node → List Node)

/-- sequential worklist exploration (the third-party BuildList is a parallel version of this);
    `none` = fuel exhausted -/
def explore : Nat → List Node → List Node → Option (List Node)
  | _, [], vis => some vis
  | 0, _ :: _, _ => none
  | fuel + 1, n :: todo, vis =>
    if n ∈ vis then explore fuel todo vis else explore fuel (req n ++ todo) (n :: vis)

/-- greatest version of `p` among a set of nodes (0 = absent; real versions are ≥ 1) -/
def selected (vis : List Node) (p : Nat) : Nat :=
  vis.foldl (fun acc n => if n.path = p then max acc n.ver else acc) 0

inductive Reach (roots : List Node) : Node → Prop where
  | root (n) : n ∈ roots → Reach roots n
  | step (n m) : Reach roots n → m ∈ req n → Reach roots m

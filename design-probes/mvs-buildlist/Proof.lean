import P6.Basic

variable {req : Node → List Node}

/-- invariant of the exploration started from `roots` -/
structure XInv (req : Node → List Node) (roots todo vis : List Node) : Prop where
  sound  : ∀ n ∈ vis, Reach req roots n
  tsound : ∀ n ∈ todo, Reach req roots n
  roots  : ∀ n ∈ roots, n ∈ vis ∨ n ∈ todo
  closed : ∀ n ∈ vis, ∀ m ∈ req n, m ∈ vis ∨ m ∈ todo

theorem explore_inv (roots : List Node) :
    ∀ fuel todo vis out, XInv req roots todo vis → explore req fuel todo vis = some out →
      XInv req roots [] out := by
  intro fuel
  induction fuel with
  | zero =>
    intro todo vis out inv h
    cases todo with
    | nil => simp [explore] at h; subst h; exact inv
    | cons n t => simp [explore] at h
  | succ fuel ih =>
    intro todo vis out inv h
    cases todo with
    | nil => simp [explore] at h; subst h; exact inv
    | cons n t =>
      simp only [explore] at h
      split at h
      · rename_i hn
        apply ih t vis out _ h
        refine ⟨inv.sound, fun m hm => inv.tsound m (List.mem_cons_of_mem _ hm), ?_, ?_⟩
        · intro r hr
          rcases inv.roots r hr with h1 | h1
          · exact Or.inl h1
          · rcases List.mem_cons.mp h1 with rfl | h2
            · exact Or.inl hn
            · exact Or.inr h2
        · intro a ha m hm
          rcases inv.closed a ha m hm with h1 | h1
          · exact Or.inl h1
          · rcases List.mem_cons.mp h1 with rfl | h2
            · exact Or.inl hn
            · exact Or.inr h2
      · rename_i hn
        apply ih (req n ++ t) (n :: vis) out _ h
        have hrn : Reach req roots n := inv.tsound n (List.mem_cons_self)
        refine ⟨?_, ?_, ?_, ?_⟩
        · intro a ha
          rcases List.mem_cons.mp ha with rfl | h1
          · exact hrn
          · exact inv.sound a h1
        · intro a ha
          rcases List.mem_append.mp ha with h1 | h1
          · exact Reach.step n a hrn h1
          · exact inv.tsound a (List.mem_cons_of_mem _ h1)
        · intro r hr
          rcases inv.roots r hr with h1 | h1
          · exact Or.inl (List.mem_cons_of_mem _ h1)
          · rcases List.mem_cons.mp h1 with rfl | h2
            · exact Or.inl (List.mem_cons_self)
            · exact Or.inr (List.mem_append_right _ h2)
        · intro a ha m hm
          rcases List.mem_cons.mp ha with rfl | h1
          · exact Or.inr (List.mem_append_left _ hm)
          · rcases inv.closed a h1 m hm with h2 | h2
            · exact Or.inl (List.mem_cons_of_mem _ h2)
            · rcases List.mem_cons.mp h2 with rfl | h3
              · exact Or.inl (List.mem_cons_self)
              · exact Or.inr (List.mem_append_right _ h3)

/-- C10, set part: the explored set is exactly the set of reachable (path, version) pairs -/
theorem explore_exact (roots : List Node) (fuel : Nat) (out : List Node)
    (h : explore req fuel roots [] = some out) : ∀ n, n ∈ out ↔ Reach req roots n := by
  have inv0 : XInv req roots roots [] :=
    { sound := fun n hn => nomatch hn
      tsound := fun n hn => Reach.root n hn
      roots := fun n hn => Or.inr hn
      closed := fun n hn => nomatch hn }
  have inv := explore_inv roots fuel roots [] out inv0 h
  intro n
  constructor
  · exact inv.sound n
  · intro hr
    induction hr with
    | root n hn =>
      rcases inv.roots n hn with h1 | h1
      · exact h1
      · cases h1
    | step a m _ hm ih =>
      rcases inv.closed a ih m hm with h1 | h1
      · exact h1
      · cases h1

theorem foldl_sel_ge (p : Nat) : ∀ (vis : List Node) (acc : Nat),
    acc ≤ vis.foldl (fun acc n => if n.path = p then max acc n.ver else acc) acc := by
  intro vis
  induction vis with
  | nil => intro acc; exact Nat.le_refl _
  | cons n vis ih =>
    intro acc
    simp only [List.foldl]
    split
    · exact Nat.le_trans (Nat.le_max_left _ _) (ih _)
    · exact ih _

theorem foldl_sel_upper (p : Nat) : ∀ (vis : List Node) (acc : Nat),
    ∀ n ∈ vis, n.path = p → n.ver ≤ vis.foldl (fun acc n => if n.path = p then max acc n.ver else acc) acc := by
  intro vis
  induction vis with
  | nil => intro _ n hn; cases hn
  | cons a vis ih =>
    intro acc n hn hp
    simp only [List.foldl]
    rcases List.mem_cons.mp hn with rfl | h1
    · simp only [hp, if_true]
      exact Nat.le_trans (Nat.le_max_right _ _) (foldl_sel_ge p vis _)
    · exact ih _ n h1 hp

theorem foldl_sel_attained (p : Nat) : ∀ (vis : List Node) (acc : Nat),
    vis.foldl (fun acc n => if n.path = p then max acc n.ver else acc) acc = acc ∨
    ∃ n ∈ vis, n.path = p ∧ n.ver = vis.foldl (fun acc n => if n.path = p then max acc n.ver else acc) acc := by
  intro vis
  induction vis with
  | nil => intro acc; exact Or.inl rfl
  | cons a vis ih =>
    intro acc
    simp only [List.foldl]
    split
    · rename_i hp
      rcases ih (max acc a.ver) with h | ⟨n, hn, h1, h2⟩
      · rw [h]
        rcases Nat.le_total acc a.ver with hle | hle
        · right; exact ⟨a, List.mem_cons_self, hp, by rw [Nat.max_eq_right hle]⟩
        · left; exact Nat.max_eq_left hle
      · right; exact ⟨n, List.mem_cons_of_mem _ hn, h1, h2⟩
    · rcases ih acc with h | ⟨n, hn, h1, h2⟩
      · exact Or.inl h
      · right; exact ⟨n, List.mem_cons_of_mem _ hn, h1, h2⟩

/-- C10: the selected version of every path is an upper bound of, and attained by, the reachable requirements -/
theorem selected_is_max (roots : List Node) (fuel : Nat) (out : List Node)
    (h : explore req fuel roots [] = some out) (p : Nat) :
    (∀ n, Reach req roots n → n.path = p → n.ver ≤ selected out p) ∧
    (selected out p = 0 ∨ ∃ n, Reach req roots n ∧ n.path = p ∧ n.ver = selected out p) := by
  have hx := explore_exact roots fuel out h
  constructor
  · intro n hr hp
    exact foldl_sel_upper p out 0 n ((hx n).mpr hr) hp
  · rcases foldl_sel_attained p out 0 with h0 | ⟨n, hn, h1, h2⟩
    · exact Or.inl h0
    · exact Or.inr ⟨n, (hx n).mp hn, h1, h2⟩

/-- the answer does not depend on declaration order: any two successful explorations of the same
    requirement graph from root lists with the same members select the same versions -/
theorem order_independent (r1 r2 : List Node) (hperm : ∀ n, n ∈ r1 ↔ n ∈ r2)
    (f1 f2 : Nat) (o1 o2 : List Node)
    (h1 : explore req f1 r1 [] = some o1) (h2 : explore req f2 r2 [] = some o2) (p : Nat) :
    selected o1 p = selected o2 p := by
  have reach_eq : ∀ n, Reach req r1 n ↔ Reach req r2 n := by
    intro n
    constructor
    · intro h; induction h with
      | root n hn => exact Reach.root n ((hperm n).mp hn)
      | step a m _ hm ih => exact Reach.step a m ih hm
    · intro h; induction h with
      | root n hn => exact Reach.root n ((hperm n).mpr hn)
      | step a m _ hm ih => exact Reach.step a m ih hm
  obtain ⟨u1, a1⟩ := selected_is_max r1 f1 o1 h1 p
  obtain ⟨u2, a2⟩ := selected_is_max r2 f2 o2 h2 p
  apply Nat.le_antisymm
  · rcases a1 with h0 | ⟨n, hr, hp, hv⟩
    · rw [h0]; exact Nat.zero_le _
    · rw [← hv]; exact u2 n ((reach_eq n).mp hr) hp
  · rcases a2 with h0 | ⟨n, hr, hp, hv⟩
    · rw [h0]; exact Nat.zero_le _
    · rw [← hv]; exact u1 n ((reach_eq n).mpr hr) hp

#print axioms selected_is_max
#print axioms order_independent

/-! Throw-away probe: publish-then-walk cycle detection with a NON-atomic walk (reduced runner model). -/

abbrev Label := Nat

inductive PC where
  | init
  | walking (todo : List Label)
  | blocked
  | failed
  | done
deriving DecidableEq, Repr

structure St where
  pc    : Label → PC
  pub   : Label → Bool
  ptime : Label → Nat
  clock : Nat
  seen  : Label → List Label     -- ghost: nodes this walker has read (published or not)
  expd  : Label → List Label     -- ghost: nodes read as published (their deps were pushed)

def upd {α : Type} (f : Label → α) (l : Label) (v : α) : Label → α := fun x => if x = l then v else f x

@[simp] theorem upd_same {α} (f : Label → α) (l v) : upd f l v l = v := by simp [upd]
@[simp] theorem upd_other {α} (f : Label → α) (l v x) (h : x ≠ l) : upd f l v x = f x := by simp [upd, h]

variable (deps : Label → List Label)

inductive Step : St → St → Prop where
  | publish (s : St) (l : Label) (h : s.pc l = .init) :
      Step s { s with pc := upd s.pc l (.walking (deps l)), pub := upd s.pub l true,
                      ptime := upd s.ptime l s.clock, clock := s.clock + 1,
                      seen := upd s.seen l [], expd := upd s.expd l [] }
  | found (s : St) (l : Label) (rest : List Label) (h : s.pc l = .walking (l :: rest)) :
      Step s { s with pc := upd s.pc l .failed, pub := upd s.pub l false }
  | readPub (s : St) (l d : Label) (rest : List Label) (h : s.pc l = .walking (d :: rest))
      (hd : d ≠ l) (hp : s.pub d = true) :
      Step s { s with pc := upd s.pc l (.walking (deps d ++ rest)),
                      seen := upd s.seen l (d :: s.seen l), expd := upd s.expd l (d :: s.expd l) }
  | readUnpub (s : St) (l d : Label) (rest : List Label) (h : s.pc l = .walking (d :: rest))
      (hd : d ≠ l) (hp : s.pub d = false) :
      Step s { s with pc := upd s.pc l (.walking rest), seen := upd s.seen l (d :: s.seen l) }
  | walkDone (s : St) (l : Label) (h : s.pc l = .walking []) :
      Step s { s with pc := upd s.pc l .blocked }
  | finish (s : St) (l : Label) (h : s.pc l = .blocked)
      (hd : ∀ d ∈ deps l, s.pc d = .failed ∨ s.pc d = .done) :
      Step s { s with pc := upd s.pc l .done, pub := upd s.pub l false }

/-- `x` can still lead walker `l` back to itself through sets published before `l`'s own. -/
inductive Danger (s : St) (l : Label) : Label → Prop where
  | direct (x : Label) : x ≠ l → s.pub x = true → s.ptime x < s.ptime l → l ∈ deps x → Danger s l x
  | step (x y : Label) : x ≠ l → s.pub x = true → s.ptime x < s.ptime l → y ∈ deps x →
      Danger s l y → Danger s l x

def isWalking (p : PC) : Prop := ∃ t, p = .walking t
def active (p : PC) : Prop := isWalking p ∨ p = .blocked

structure RInv (s : St) : Prop where
  g1 : ∀ l, s.pc l = .init → s.pub l = false
  g2 : ∀ l, s.pc l ≠ .init → s.ptime l < s.clock
  g3 : ∀ l, s.pub l = true → active (s.pc l)
  g3' : ∀ l, active (s.pc l) → s.pub l = true
  g4 : ∀ a b, s.pc a ≠ .init → s.pc b ≠ .init → s.ptime a = s.ptime b → a = b
  -- walking
  w1 : ∀ l t, s.pc l = .walking t → ∀ x ∈ s.seen l, x ∈ s.expd l ∨ ¬ Danger deps s l x
  w2 : ∀ l t, s.pc l = .walking t → ∀ x ∈ s.expd l, ∀ y ∈ deps x, y ∈ s.seen l ∨ y ∈ t
  w3 : ∀ l t, s.pc l = .walking t → l ∉ s.seen l
  w4 : ∀ l t, s.pc l = .walking t → ∀ y ∈ deps l, y ∈ s.seen l ∨ y ∈ t
  w5 : ∀ l t, s.pc l = .walking t → ∀ x ∈ s.expd l, x ∈ s.seen l
  -- blocked
  b1 : ∀ l, s.pc l = .blocked → ∀ d ∈ deps l, ¬ Danger deps s l d
  b2 : ∀ l, s.pc l = .blocked → l ∉ deps l

import P3.Basic

variable {deps : Label → List Label}

def Chain (R : Label → Label → Prop) : List Label → Prop
  | [] => True
  | [_] => True
  | a :: b :: t => R a b ∧ Chain R (b :: t)

theorem chain_cons_cons {R : Label → Label → Prop} {a b : Label} {t : List Label} :
    Chain R (a :: b :: t) ↔ R a b ∧ Chain R (b :: t) := Iff.rfl

theorem chain_tail {R : Label → Label → Prop} {a : Label} {t : List Label} (h : Chain R (a :: t)) : Chain R t := by
  cases t with
  | nil => trivial
  | cons b q => exact h.2

theorem Danger.mono {s s' : St} {l : Label}
    (hp : ∀ x, x ≠ l → s'.pub x = true → s'.ptime x < s'.ptime l → (s.pub x = true ∧ s.ptime x < s.ptime l)) :
    ∀ {x}, Danger deps s' l x → Danger deps s l x := by
  intro x h
  induction h with
  | direct x hx hpub hpt hy =>
    obtain ⟨h1, h2⟩ := hp x hx hpub hpt
    exact Danger.direct x hx h1 h2 hy
  | step x y hx hpub hpt hy _ ih =>
    obtain ⟨h1, h2⟩ := hp x hx hpub hpt
    exact Danger.step x y hx h1 h2 hy ih

theorem Danger.pub {s : St} {l x : Label} (h : Danger deps s l x) : s.pub x = true := by
  cases h with
  | direct _ _ hp _ _ => exact hp
  | step _ _ _ hp _ _ _ => exact hp

/-- End of a negative walk: nothing the walker has seen is dangerous. -/
theorem seen_not_danger {s : St} {l : Label} (inv : RInv deps s) (h : s.pc l = .walking []) :
    ∀ x, Danger deps s l x → x ∈ s.seen l → False := by
  intro x hd
  induction hd with
  | direct x hx hpub hpt hy =>
    intro hseen
    have hex : x ∈ s.expd l := by
      cases inv.w1 l [] h x hseen with
      | inl h => exact h
      | inr h => exact absurd (Danger.direct x hx hpub hpt hy) h
    cases inv.w2 l [] h x hex l hy with
    | inl h' => exact inv.w3 l [] h h'
    | inr h' => cases h'
  | step x y hx hpub hpt hy hrec ih =>
    intro hseen
    have hex : x ∈ s.expd l := by
      cases inv.w1 l [] h x hseen with
      | inl h => exact h
      | inr h => exact absurd (Danger.step x y hx hpub hpt hy hrec) h
    cases inv.w2 l [] h x hex y hy with
    | inl h' => exact ih h'
    | inr h' => cases h'

/-- The contradiction used for deadlock freedom: walk the cycle from the latest publisher. -/
theorem path_danger {s : St} (inv : RInv deps s) (r : Label) (hr : s.pc r = .blocked) :
    ∀ (p : List Label), (∀ x ∈ p, s.pc x = .blocked ∧ s.ptime x ≤ s.ptime r) →
      Chain (fun a b => b ∈ deps a) p → (∀ z, p.getLast? = some z → r ∈ deps z) →
      ∀ x ∈ p, x = r ∨ Danger deps s r x := by
  intro p
  induction p with
  | nil => intro _ _ _ x hx; cases hx
  | cons a p ih =>
    intro hall hch hlast x hx
    have hrest : ∀ x ∈ p, x = r ∨ Danger deps s r x := by
      apply ih
      · intro x hx; exact hall x (List.mem_cons_of_mem _ hx)
      · exact chain_tail hch
      · intro z hz
        apply hlast z
        cases p with
        | nil => cases hz
        | cons b q => simpa [List.getLast?_cons_cons] using hz
    cases hx with
    | tail _ hx => exact hrest x hx
    | head =>
      by_cases hxr : a = r
      · exact Or.inl hxr
      · right
        obtain ⟨hb, hle⟩ := hall a (List.mem_cons_self)
        have hpub : s.pub a = true := inv.g3' a (Or.inr hb)
        have hlt : s.ptime a < s.ptime r := by
          rcases Nat.lt_or_ge (s.ptime a) (s.ptime r) with h | h
          · exact h
          · have : s.ptime a = s.ptime r := Nat.le_antisymm hle h
            exact absurd (inv.g4 a r (by rw [hb]; decide) (by rw [hr]; decide) this) hxr
        cases p with
        | nil =>
          have : r ∈ deps a := hlast a (by simp)
          exact Danger.direct a hxr hpub hlt this
        | cons b q =>
          have hab : b ∈ deps a := (chain_cons_cons.mp hch).1
          cases hrest b (List.mem_cons_self) with
          | inl hbr => exact Danger.direct a hxr hpub hlt (hbr ▸ hab)
          | inr hd => exact Danger.step a b hxr hpub hlt hab hd

/-- No cycle of blocked threads: `r` (latest publisher on the cycle) → p → r. -/
theorem no_blocked_cycle {s : St} (inv : RInv deps s) (r : Label) (hr : s.pc r = .blocked)
    (p : List Label) (hall : ∀ x ∈ p, s.pc x = .blocked ∧ s.ptime x ≤ s.ptime r)
    (hch : Chain (fun a b => b ∈ deps a) (r :: p))
    (hlast : ∀ z, (r :: p).getLast? = some z → r ∈ deps z) : False := by
  cases p with
  | nil => exact inv.b2 r hr (hlast r (by simp))
  | cons a q =>
    have ha : a ∈ deps r := (chain_cons_cons.mp hch).1
    have := path_danger inv r hr (a :: q) hall (chain_cons_cons.mp hch).2
      (by intro z hz; apply hlast z; simpa [List.getLast?_cons_cons] using hz) a (List.mem_cons_self)
    cases this with
    | inl h => exact inv.b2 r hr (h ▸ ha)
    | inr h => exact inv.b1 r hr a ha h

theorem active_walking (t : List Label) : active (.walking t) := Or.inl ⟨t, rfl⟩
theorem not_active_init : ¬ active .init := by
  intro h; rcases h with ⟨t, h⟩ | h <;> cases h
theorem not_active_failed : ¬ active .failed := by
  intro h; rcases h with ⟨t, h⟩ | h <;> cases h
theorem not_active_done : ¬ active .done := by
  intro h; rcases h with ⟨t, h⟩ | h <;> cases h

/-- Steps of another thread that leave `pub`/`ptime` alone keep every Danger fact. -/
theorem danger_same {s s' : St} {l x : Label} (h : Danger deps s' l x)
    (hp : s'.pub = s.pub) (ht : s'.ptime = s.ptime) : Danger deps s l x :=
  Danger.mono (by intro x _ h1 h2; rw [hp] at h1; rw [ht] at h2; exact ⟨h1, h2⟩) h

theorem inv_init (s : St) (h0 : ∀ l, s.pc l = .init) (hp : ∀ l, s.pub l = false) : RInv deps s where
  g1 := fun l _ => hp l
  g2 := fun l h => absurd (h0 l) h
  g3 := by intro l h; rw [hp l] at h; cases h
  g3' := by intro l h; rw [h0 l] at h; exact absurd h not_active_init
  g4 := fun a _ h => absurd (h0 a) h
  w1 := by intro l t h; rw [h0 l] at h; cases h
  w2 := by intro l t h; rw [h0 l] at h; cases h
  w3 := by intro l t h; rw [h0 l] at h; cases h
  w4 := by intro l t h; rw [h0 l] at h; cases h
  w5 := by intro l t h; rw [h0 l] at h; cases h
  b1 := by intro l h; rw [h0 l] at h; cases h
  b2 := by intro l h; rw [h0 l] at h; cases h

theorem upd_apply {α} (f : Label → α) (l : Label) (v : α) (x : Label) : upd f l v x = if x = l then v else f x := rfl

theorem publish_hp {s : St} (inv : RInv deps s) (a l : Label) (hl : l ≠ a) (hnl : s.pc l ≠ .init) :
    ∀ z, z ≠ l → (upd s.pub a true) z = true → (upd s.ptime a s.clock) z < (upd s.ptime a s.clock) l →
      s.pub z = true ∧ s.ptime z < s.ptime l := by
  intro z _ h1 h2
  have hlt := inv.g2 l hnl
  by_cases hz : z = a
  · subst hz
    simp [hl] at h2
    omega
  · simp [hz, hl] at h1 h2
    exact ⟨h1, h2⟩

theorem inv_publish {s : St} (inv : RInv deps s) (a : Label) (h : s.pc a = .init) :
    RInv deps { s with pc := upd s.pc a (.walking (deps a)), pub := upd s.pub a true,
                       ptime := upd s.ptime a s.clock, clock := s.clock + 1,
                       seen := upd s.seen a [], expd := upd s.expd a [] } where
  g1 := by
    intro l hl
    by_cases e : l = a
    · subst e; simp at hl
    · simp [e] at hl ⊢; exact inv.g1 l hl
  g2 := by
    intro l hl
    by_cases e : l = a
    · subst e; simp
    · simp [e] at hl ⊢; have := inv.g2 l hl; omega
  g3 := by
    intro l hl
    by_cases e : l = a
    · subst e; simp; exact active_walking _
    · simp [e] at hl ⊢; exact inv.g3 l hl
  g3' := by
    intro l hl
    by_cases e : l = a
    · subst e; simp
    · simp [e] at hl ⊢; exact inv.g3' l hl
  g4 := by
    intro x y hx hy hxy
    by_cases ex : x = a <;> by_cases ey : y = a
    · rw [ex, ey]
    · subst ex; simp [ey] at hy hxy; have := inv.g2 y hy; omega
    · subst ey; simp [ex] at hx hxy; have := inv.g2 x hx; omega
    · simp [ex, ey] at hx hy hxy; exact inv.g4 x y hx hy hxy
  w1 := by
    intro l t hl x hx
    by_cases e : l = a
    · subst e; simp at hx
    · simp [e] at hl hx ⊢
      cases inv.w1 l t hl x hx with
      | inl h' => exact Or.inl h'
      | inr h' =>
        right; intro hd; apply h'
        exact Danger.mono (publish_hp inv a l e (by rw [hl]; intro c; cases c)) hd
  w2 := by
    intro l t hl x hx y hy
    by_cases e : l = a
    · subst e; simp at hx
    · simp [e] at hl hx ⊢; exact inv.w2 l t hl x hx y hy
  w3 := by
    intro l t hl
    by_cases e : l = a
    · subst e; simp
    · simp [e] at hl ⊢; exact inv.w3 l t hl
  w4 := by
    intro l t hl y hy
    by_cases e : l = a
    · subst e; simp at hl ⊢; exact hl ▸ hy
    · simp [e] at hl ⊢; exact inv.w4 l t hl y hy
  w5 := by
    intro l t hl x hx
    by_cases e : l = a
    · subst e; simp at hx
    · simp [e] at hl hx ⊢; exact inv.w5 l t hl x hx
  b1 := by
    intro l hl d hd hdan
    by_cases e : l = a
    · subst e; simp at hl
    · simp [e] at hl
      exact inv.b1 l hl d hd (Danger.mono (publish_hp inv a l e (by rw [hl]; intro c; cases c)) hdan)
  b2 := by
    intro l hl
    by_cases e : l = a
    · subst e; simp at hl
    · simp [e] at hl; exact inv.b2 l hl

theorem inv_readPub {s : St} (inv : RInv deps s) (a d : Label) (rest : List Label)
    (h : s.pc a = .walking (d :: rest)) (hd : d ≠ a) (hp : s.pub d = true) :
    RInv deps { s with pc := upd s.pc a (.walking (deps d ++ rest)),
                       seen := upd s.seen a (d :: s.seen a), expd := upd s.expd a (d :: s.expd a) } where
  g1 := by
    intro l hl
    by_cases e : l = a
    · subst e; simp at hl
    · simp [e] at hl; exact inv.g1 l hl
  g2 := by
    intro l hl
    by_cases e : l = a
    · subst e; exact inv.g2 l (by rw [h]; intro c; cases c)
    · simp [e] at hl; exact inv.g2 l hl
  g3 := by
    intro l hl
    by_cases e : l = a
    · subst e; simp; exact active_walking _
    · simp [e]; exact inv.g3 l hl
  g3' := by
    intro l hl
    by_cases e : l = a
    · subst e; exact inv.g3' l (by rw [h]; exact active_walking _)
    · simp [e] at hl; exact inv.g3' l hl
  g4 := by
    intro x y hx hy hxy
    have hx' : s.pc x ≠ .init := by
      by_cases e : x = a
      · subst e; rw [h]; intro c; cases c
      · simpa [e] using hx
    have hy' : s.pc y ≠ .init := by
      by_cases e : y = a
      · subst e; rw [h]; intro c; cases c
      · simpa [e] using hy
    exact inv.g4 x y hx' hy' hxy
  w1 := by
    intro l t hl x hx
    by_cases e : l = a
    · subst e
      simp at hx ⊢
      cases hx with
      | inl hx => exact Or.inl (Or.inl hx)
      | inr hx =>
        cases inv.w1 l _ h x hx with
        | inl h' => exact Or.inl (Or.inr h')
        | inr h' => exact Or.inr (fun hdan => h' (danger_same (s := s) hdan rfl rfl))
    · simp [e] at hl hx ⊢
      cases inv.w1 l t hl x hx with
      | inl h' => exact Or.inl h'
      | inr h' => exact Or.inr (fun hdan => h' (danger_same (s := s) hdan rfl rfl))
  w2 := by
    intro l t hl x hx y hy
    by_cases e : l = a
    · subst e
      simp at hl hx ⊢
      subst hl
      cases hx with
      | inl hx => subst hx; exact Or.inr (List.mem_append_left _ hy)
      | inr hx =>
        cases inv.w2 l _ h x hx y hy with
        | inl h' => exact Or.inl (Or.inr h')
        | inr h' =>
          cases h' with
          | head => exact Or.inl (Or.inl rfl)
          | tail _ h'' => exact Or.inr (List.mem_append_right _ h'')
    · simp [e] at hl hx ⊢; exact inv.w2 l t hl x hx y hy
  w3 := by
    intro l t hl
    by_cases e : l = a
    · subst e; simp; exact ⟨fun c => hd c.symm, inv.w3 l _ h⟩
    · simp [e] at hl ⊢; exact inv.w3 l t hl
  w4 := by
    intro l t hl y hy
    by_cases e : l = a
    · subst e
      simp at hl ⊢
      subst hl
      cases inv.w4 l _ h y hy with
      | inl h' => exact Or.inl (Or.inr h')
      | inr h' =>
        cases h' with
        | head => exact Or.inl (Or.inl rfl)
        | tail _ h'' => exact Or.inr (List.mem_append_right _ h'')
    · simp [e] at hl ⊢; exact inv.w4 l t hl y hy
  w5 := by
    intro l t hl x hx
    by_cases e : l = a
    · subst e
      simp at hx ⊢
      cases hx with
      | inl hx => exact Or.inl hx
      | inr hx => exact Or.inr (inv.w5 l _ h x hx)
    · simp [e] at hl hx ⊢; exact inv.w5 l t hl x hx
  b1 := by
    intro l hl d' hd' hdan
    by_cases e : l = a
    · subst e; simp at hl
    · simp [e] at hl; exact inv.b1 l hl d' hd' (danger_same (s := s) hdan rfl rfl)
  b2 := by
    intro l hl
    by_cases e : l = a
    · subst e; simp at hl
    · simp [e] at hl; exact inv.b2 l hl

theorem inv_readUnpub {s : St} (inv : RInv deps s) (a d : Label) (rest : List Label)
    (h : s.pc a = .walking (d :: rest)) (hd : d ≠ a) (hp : s.pub d = false) :
    RInv deps { s with pc := upd s.pc a (.walking rest), seen := upd s.seen a (d :: s.seen a) } where
  g1 := by
    intro l hl
    by_cases e : l = a
    · subst e; simp at hl
    · simp [e] at hl; exact inv.g1 l hl
  g2 := by
    intro l hl
    by_cases e : l = a
    · subst e; exact inv.g2 l (by rw [h]; intro c; cases c)
    · simp [e] at hl; exact inv.g2 l hl
  g3 := by
    intro l hl
    by_cases e : l = a
    · subst e; simp; exact active_walking _
    · simp [e]; exact inv.g3 l hl
  g3' := by
    intro l hl
    by_cases e : l = a
    · subst e; exact inv.g3' l (by rw [h]; exact active_walking _)
    · simp [e] at hl; exact inv.g3' l hl
  g4 := by
    intro x y hx hy hxy
    have hx' : s.pc x ≠ .init := by
      by_cases e : x = a
      · subst e; rw [h]; intro c; cases c
      · simpa [e] using hx
    have hy' : s.pc y ≠ .init := by
      by_cases e : y = a
      · subst e; rw [h]; intro c; cases c
      · simpa [e] using hy
    exact inv.g4 x y hx' hy' hxy
  w1 := by
    intro l t hl x hx
    by_cases e : l = a
    · subst e
      simp at hx ⊢
      cases hx with
      | inl hx =>
        subst hx
        right; intro hdan
        have := Danger.pub hdan
        simp [hp] at this
      | inr hx =>
        cases inv.w1 l _ h x hx with
        | inl h' => exact Or.inl h'
        | inr h' => exact Or.inr (fun hdan => h' (danger_same (s := s) hdan rfl rfl))
    · simp [e] at hl hx ⊢
      cases inv.w1 l t hl x hx with
      | inl h' => exact Or.inl h'
      | inr h' => exact Or.inr (fun hdan => h' (danger_same (s := s) hdan rfl rfl))
  w2 := by
    intro l t hl x hx y hy
    by_cases e : l = a
    · subst e
      simp at hl hx ⊢
      subst hl
      cases inv.w2 l _ h x hx y hy with
      | inl h' => exact Or.inl (Or.inr h')
      | inr h' =>
        cases h' with
        | head => exact Or.inl (Or.inl rfl)
        | tail _ h'' => exact Or.inr h''
    · simp [e] at hl hx ⊢; exact inv.w2 l t hl x hx y hy
  w3 := by
    intro l t hl
    by_cases e : l = a
    · subst e; simp; exact ⟨fun c => hd c.symm, inv.w3 l _ h⟩
    · simp [e] at hl ⊢; exact inv.w3 l t hl
  w4 := by
    intro l t hl y hy
    by_cases e : l = a
    · subst e
      simp at hl ⊢
      subst hl
      cases inv.w4 l _ h y hy with
      | inl h' => exact Or.inl (Or.inr h')
      | inr h' =>
        cases h' with
        | head => exact Or.inl (Or.inl rfl)
        | tail _ h'' => exact Or.inr h''
    · simp [e] at hl ⊢; exact inv.w4 l t hl y hy
  w5 := by
    intro l t hl x hx
    by_cases e : l = a
    · subst e; simp at hx ⊢; exact Or.inr (inv.w5 l _ h x hx)
    · simp [e] at hl hx ⊢; exact inv.w5 l t hl x hx
  b1 := by
    intro l hl d' hd' hdan
    by_cases e : l = a
    · subst e; simp at hl
    · simp [e] at hl; exact inv.b1 l hl d' hd' (danger_same (s := s) hdan rfl rfl)
  b2 := by
    intro l hl
    by_cases e : l = a
    · subst e; simp at hl
    · simp [e] at hl; exact inv.b2 l hl

theorem inv_walkDone {s : St} (inv : RInv deps s) (a : Label) (h : s.pc a = .walking []) :
    RInv deps { s with pc := upd s.pc a .blocked } where
  g1 := by
    intro l hl
    by_cases e : l = a
    · subst e; simp at hl
    · simp [e] at hl; exact inv.g1 l hl
  g2 := by
    intro l hl
    by_cases e : l = a
    · subst e; exact inv.g2 l (by rw [h]; intro c; cases c)
    · simp [e] at hl; exact inv.g2 l hl
  g3 := by
    intro l hl
    by_cases e : l = a
    · subst e; simp; exact Or.inr rfl
    · simp [e]; exact inv.g3 l hl
  g3' := by
    intro l hl
    by_cases e : l = a
    · subst e; exact inv.g3' l (by rw [h]; exact active_walking _)
    · simp [e] at hl; exact inv.g3' l hl
  g4 := by
    intro x y hx hy hxy
    have hx' : s.pc x ≠ .init := by
      by_cases e : x = a
      · subst e; rw [h]; intro c; cases c
      · simpa [e] using hx
    have hy' : s.pc y ≠ .init := by
      by_cases e : y = a
      · subst e; rw [h]; intro c; cases c
      · simpa [e] using hy
    exact inv.g4 x y hx' hy' hxy
  w1 := by
    intro l t hl x hx
    by_cases e : l = a
    · subst e; simp at hl
    · simp [e] at hl
      cases inv.w1 l t hl x hx with
      | inl h' => exact Or.inl h'
      | inr h' => exact Or.inr (fun hdan => h' (danger_same (s := s) hdan rfl rfl))
  w2 := by
    intro l t hl x hx y hy
    by_cases e : l = a
    · subst e; simp at hl
    · simp [e] at hl; exact inv.w2 l t hl x hx y hy
  w3 := by
    intro l t hl
    by_cases e : l = a
    · subst e; simp at hl
    · simp [e] at hl; exact inv.w3 l t hl
  w4 := by
    intro l t hl y hy
    by_cases e : l = a
    · subst e; simp at hl
    · simp [e] at hl; exact inv.w4 l t hl y hy
  w5 := by
    intro l t hl x hx
    by_cases e : l = a
    · subst e; simp at hl
    · simp [e] at hl; exact inv.w5 l t hl x hx
  b1 := by
    intro l hl d' hd' hdan
    by_cases e : l = a
    · subst e
      have hseen : d' ∈ s.seen l := by
        cases inv.w4 l [] h d' hd' with
        | inl h' => exact h'
        | inr h' => cases h'
      exact seen_not_danger inv h d' (danger_same (s := s) hdan rfl rfl) hseen
    · simp [e] at hl; exact inv.b1 l hl d' hd' (danger_same (s := s) hdan rfl rfl)
  b2 := by
    intro l hl hself
    by_cases e : l = a
    · subst e
      cases inv.w4 l [] h l hself with
      | inl h' => exact inv.w3 l [] h h'
      | inr h' => cases h'
    · simp [e] at hl; exact inv.b2 l hl hself

/-- un-publishing (cycle found, or finished): `pub` only shrinks, so Danger only shrinks. -/
theorem unpub_hp {s : St} (a l : Label) :
    ∀ z, z ≠ l → (upd s.pub a false) z = true → s.ptime z < s.ptime l → s.pub z = true ∧ s.ptime z < s.ptime l := by
  intro z _ h1 h2
  by_cases hz : z = a
  · subst hz; simp at h1
  · simp [hz] at h1; exact ⟨h1, h2⟩

theorem inv_unpub {s : St} (inv : RInv deps s) (a : Label) (p : PC) (hp : p = .failed ∨ p = .done)
    (ha : s.pc a ≠ .init) :
    RInv deps { s with pc := upd s.pc a p, pub := upd s.pub a false } where
  g1 := by
    intro l hl
    by_cases e : l = a
    · subst e; simp
    · simp [e] at hl ⊢; exact inv.g1 l hl
  g2 := by
    intro l hl
    by_cases e : l = a
    · subst e; exact inv.g2 l ha
    · simp [e] at hl; exact inv.g2 l hl
  g3 := by
    intro l hl
    by_cases e : l = a
    · subst e; simp at hl
    · simp [e] at hl ⊢; exact inv.g3 l hl
  g3' := by
    intro l hl
    by_cases e : l = a
    · subst e
      simp at hl
      rcases hp with rfl | rfl
      · exact absurd hl not_active_failed
      · exact absurd hl not_active_done
    · simp [e] at hl ⊢; exact inv.g3' l hl
  g4 := by
    intro x y hx hy hxy
    have hx' : s.pc x ≠ .init := by
      by_cases e : x = a
      · subst e; exact ha
      · simpa [e] using hx
    have hy' : s.pc y ≠ .init := by
      by_cases e : y = a
      · subst e; exact ha
      · simpa [e] using hy
    exact inv.g4 x y hx' hy' hxy
  w1 := by
    intro l t hl x hx
    by_cases e : l = a
    · subst e; simp at hl; rcases hp with rfl | rfl <;> cases hl
    · simp [e] at hl
      cases inv.w1 l t hl x hx with
      | inl h' => exact Or.inl h'
      | inr h' => exact Or.inr (fun hdan => h' (Danger.mono (unpub_hp a l) hdan))
  w2 := by
    intro l t hl x hx y hy
    by_cases e : l = a
    · subst e; simp at hl; rcases hp with rfl | rfl <;> cases hl
    · simp [e] at hl; exact inv.w2 l t hl x hx y hy
  w3 := by
    intro l t hl
    by_cases e : l = a
    · subst e; simp at hl; rcases hp with rfl | rfl <;> cases hl
    · simp [e] at hl; exact inv.w3 l t hl
  w4 := by
    intro l t hl y hy
    by_cases e : l = a
    · subst e; simp at hl; rcases hp with rfl | rfl <;> cases hl
    · simp [e] at hl; exact inv.w4 l t hl y hy
  w5 := by
    intro l t hl x hx
    by_cases e : l = a
    · subst e; simp at hl; rcases hp with rfl | rfl <;> cases hl
    · simp [e] at hl; exact inv.w5 l t hl x hx
  b1 := by
    intro l hl d' hd' hdan
    by_cases e : l = a
    · subst e; simp at hl; rcases hp with rfl | rfl <;> cases hl
    · simp [e] at hl; exact inv.b1 l hl d' hd' (Danger.mono (unpub_hp a l) hdan)
  b2 := by
    intro l hl
    by_cases e : l = a
    · subst e; simp at hl; rcases hp with rfl | rfl <;> cases hl
    · simp [e] at hl; exact inv.b2 l hl

theorem inv_step {s s' : St} (inv : RInv deps s) (st : Step deps s s') : RInv deps s' := by
  cases st with
  | publish l h => exact inv_publish inv l h
  | found l rest h => exact inv_unpub inv l .failed (Or.inl rfl) (by rw [h]; intro c; cases c)
  | readPub l d rest h hd hp => exact inv_readPub inv l d rest h hd hp
  | readUnpub l d rest h hd hp => exact inv_readUnpub inv l d rest h hd hp
  | walkDone l h => exact inv_walkDone inv l h
  | finish l h hd => exact inv_unpub inv l .done (Or.inr rfl) (by rw [h]; intro c; cases c)

inductive Reach (deps : Label → List Label) (s0 : St) : St → Prop where
  | refl : Reach deps s0 s0
  | step {s s'} : Reach deps s0 s → Step deps s s' → Reach deps s0 s'

theorem inv_reach {s0 s : St} (h0 : ∀ l, s0.pc l = .init) (hp : ∀ l, s0.pub l = false)
    (hr : Reach deps s0 s) : RInv deps s := by
  induction hr with
  | refl => exact inv_init s0 h0 hp
  | step _ st ih => exact inv_step ih st

/-- In every reachable state there is no cycle of threads that all passed their walk and wait on each other. -/
theorem reachable_no_blocked_cycle {s0 s : St} (h0 : ∀ l, s0.pc l = .init) (hp : ∀ l, s0.pub l = false)
    (hr : Reach deps s0 s) (r : Label) (hrb : s.pc r = .blocked) (p : List Label)
    (hall : ∀ x ∈ p, s.pc x = .blocked ∧ s.ptime x ≤ s.ptime r)
    (hch : Chain (fun a b => b ∈ deps a) (r :: p))
    (hlast : ∀ z, (r :: p).getLast? = some z → r ∈ deps z) : False :=
  no_blocked_cycle (inv_reach h0 hp hr) r hrb p hall hch hlast

#print axioms reachable_no_blocked_cycle

/-! Throw-away probe: glob tokens → regular expression, language equivalence, and anchoring of a pattern set. -/

inductive Tok where
  | star      -- `*`  : any run of non-separator characters
  | dstar     -- `**` : any run of characters
  | q         -- `?`  : one character
  | ch (c : Char)
deriving DecidableEq, Repr

/-- anchor-free regular expressions, as far as `CompileGlobs` can emit them -/
inductive RE where
  | eps
  | lit (c : Char)
  | notSlash          -- `[^/]`
  | any               -- `.`  (Go: any character except newline)
  | star (r : RE)
  | seq (a b : RE)
  | alt (a b : RE)
  | none              -- matches nothing (empty alternation)
deriving Repr

/-- language semantics: `L r s` = `r` matches exactly the whole of `s` -/
inductive L : RE → List Char → Prop where
  | eps : L .eps []
  | lit (c) : L (.lit c) [c]
  | notSlash (c) : c ≠ '/' → L .notSlash [c]
  | any (c) : c ≠ '\n' → L .any [c]
  | star_nil (r) : L (.star r) []
  | star_cons (r s₁ s₂) : L r s₁ → L (.star r) s₂ → L (.star r) (s₁ ++ s₂)
  | seq (a b s₁ s₂) : L a s₁ → L b s₂ → L (.seq a b) (s₁ ++ s₂)
  | altL (a b s) : L a s → L (.alt a b) s
  | altR (a b s) : L b s → L (.alt a b) s

def compileTok : Tok → RE
  | .star => .star .notSlash
  | .dstar => .star .any
  | .q => .any
  | .ch c => .lit c

def compile : List Tok → RE
  | [] => .eps
  | t :: ts => .seq (compileTok t) (compile ts)

/-- independent specification of glob matching -/
def globMatch : List Tok → List Char → Prop
  | [], s => s = []
  | .star :: ts, s => ∃ s₁ s₂, s = s₁ ++ s₂ ∧ (∀ c ∈ s₁, c ≠ '/') ∧ globMatch ts s₂
  | .dstar :: ts, s => ∃ s₁ s₂, s = s₁ ++ s₂ ∧ (∀ c ∈ s₁, c ≠ '\n') ∧ globMatch ts s₂
  | .q :: ts, s => ∃ c s₂, s = c :: s₂ ∧ c ≠ '\n' ∧ globMatch ts s₂
  | .ch c :: ts, s => ∃ s₂, s = c :: s₂ ∧ globMatch ts s₂

/-- how Go reads the text `CompileGlobs` produces, for the shapes it can produce -/
inductive Top where
  | both (r : RE)                         -- ^r$
  | pieces (first : RE) (mid : List RE) (last : RE)   -- ^(first)|(mid…)|(last)$  : what the unchanged code emits for ≥ 2 patterns

def altAll : List RE → RE
  | [] => .none
  | r :: rs => .alt r (altAll rs)

/-- `regexp.MatchString` (unanchored search) on those shapes -/
def matchTop : Top → List Char → Prop
  | .both r, s => L r s
  | .pieces f mid l, s =>
      (∃ p rest, s = p ++ rest ∧ L f p) ∨                          -- ^(first)  : some prefix
      (∃ m, m ∈ mid ∧ ∃ a b c, s = a ++ b ++ c ∧ L m b) ∨          -- (mid)     : anywhere
      (∃ rest q, s = rest ++ q ∧ L l q)                            -- (last)$   : some suffix

/-- the repaired translation: `^(?:(g1)|…|(gn))$` -/
def compileSetFixed (gs : List (List Tok)) : Top := .both (altAll (gs.map compile))

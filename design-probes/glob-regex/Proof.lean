import P5.Basic

theorem L_none (s : List Char) : ¬ L .none s := by intro h; cases h
theorem L_eps {s : List Char} : L .eps s ↔ s = [] := ⟨fun h => by cases h; rfl, fun h => h ▸ L.eps⟩
theorem L_lit {c : Char} {s : List Char} : L (.lit c) s ↔ s = [c] := ⟨fun h => by cases h; rfl, fun h => h ▸ L.lit c⟩
theorem L_any {s : List Char} : L .any s ↔ ∃ c, s = [c] ∧ c ≠ '\n' :=
  ⟨fun h => by cases h with | any c hc => exact ⟨c, rfl, hc⟩, fun ⟨c, h, hc⟩ => h ▸ L.any c hc⟩
theorem L_notSlash {s : List Char} : L .notSlash s ↔ ∃ c, s = [c] ∧ c ≠ '/' :=
  ⟨fun h => by cases h with | notSlash c hc => exact ⟨c, rfl, hc⟩, fun ⟨c, h, hc⟩ => h ▸ L.notSlash c hc⟩
theorem L_seq {a b : RE} {s : List Char} : L (.seq a b) s ↔ ∃ s₁ s₂, s = s₁ ++ s₂ ∧ L a s₁ ∧ L b s₂ :=
  ⟨fun h => by cases h with | seq _ _ s₁ s₂ h1 h2 => exact ⟨s₁, s₂, rfl, h1, h2⟩,
   fun ⟨s₁, s₂, h, h1, h2⟩ => h ▸ L.seq a b s₁ s₂ h1 h2⟩
theorem L_alt {a b : RE} {s : List Char} : L (.alt a b) s ↔ L a s ∨ L b s :=
  ⟨fun h => by cases h with | altL _ _ _ h => exact Or.inl h | altR _ _ _ h => exact Or.inr h,
   fun h => h.elim (L.altL a b s) (L.altR a b s)⟩

/-- star of a one-character class = all characters in the class -/
theorem star_class_fwd (P : Char → Prop) (r : RE) (hr : ∀ s, L r s → ∃ c, s = [c] ∧ P c) :
    ∀ r' s, L r' s → r' = .star r → ∀ c ∈ s, P c := by
  intro r' s h
  induction h with
  | star_nil _ => intro _ c hc; cases hc
  | star_cons r₀ s₁ s₂ h1 _ _ ih2 =>
    intro heq c hc
    cases heq
    rcases List.mem_append.mp hc with h | h
    · obtain ⟨c', rfl, hp⟩ := hr s₁ h1
      simp at h; exact h ▸ hp
    · exact ih2 rfl c h
  | _ => intro heq; cases heq

theorem star_class_bwd (P : Char → Prop) (r : RE) (hr : ∀ c, P c → L r [c]) :
    ∀ s, (∀ c ∈ s, P c) → L (.star r) s := by
  intro s
  induction s with
  | nil => intro _; exact L.star_nil r
  | cons c s ih =>
    intro h
    have := L.star_cons r [c] s (hr c (h c (List.mem_cons_self))) (ih (fun d hd => h d (List.mem_cons_of_mem _ hd)))
    simpa using this

theorem L_star_notSlash {s : List Char} : L (.star .notSlash) s ↔ ∀ c ∈ s, c ≠ '/' :=
  ⟨fun h => star_class_fwd (· ≠ '/') .notSlash (fun _ h => L_notSlash.mp h) _ s h rfl,
   star_class_bwd (· ≠ '/') .notSlash (fun c hc => L.notSlash c hc) s⟩

theorem L_star_any {s : List Char} : L (.star .any) s ↔ ∀ c ∈ s, c ≠ '\n' :=
  ⟨fun h => star_class_fwd (· ≠ '\n') .any (fun _ h => L_any.mp h) _ s h rfl,
   star_class_bwd (· ≠ '\n') .any (fun c hc => L.any c hc) s⟩

/-- one pattern: the emitted expression accepts exactly what the glob specification accepts -/
theorem compile_correct : ∀ (ts : List Tok) (s : List Char), L (compile ts) s ↔ globMatch ts s := by
  intro ts
  induction ts with
  | nil => intro s; simp [compile, globMatch, L_eps]
  | cons t ts ih =>
    intro s
    cases t with
    | star =>
      simp only [compile, compileTok, globMatch, L_seq, L_star_notSlash, ih]
    | dstar =>
      simp only [compile, compileTok, globMatch, L_seq, L_star_any, ih]
    | q =>
      simp only [compile, compileTok, globMatch, L_seq, L_any, ih]
      constructor
      · rintro ⟨s₁, s₂, rfl, ⟨c, rfl, hc⟩, h⟩; exact ⟨c, s₂, rfl, hc, h⟩
      · rintro ⟨c, s₂, rfl, hc, h⟩; exact ⟨[c], s₂, rfl, ⟨c, rfl, hc⟩, h⟩
    | ch c =>
      simp only [compile, compileTok, globMatch, L_seq, L_lit, ih]
      constructor
      · rintro ⟨s₁, s₂, rfl, rfl, h⟩; exact ⟨s₂, rfl, h⟩
      · rintro ⟨s₂, rfl, h⟩; exact ⟨[c], s₂, rfl, rfl, h⟩

theorem L_altAll {rs : List RE} {s : List Char} : L (altAll rs) s ↔ ∃ r ∈ rs, L r s := by
  induction rs with
  | nil => simp [altAll, L_none]
  | cons r rs ih => simp [altAll, L_alt, ih]

/-- C17 for the repaired translation: a set matches exactly the union of its patterns (any number, incl. none). -/
theorem union_fixed (gs : List (List Tok)) (s : List Char) :
    matchTop (compileSetFixed gs) s ↔ ∃ g ∈ gs, globMatch g s := by
  simp only [compileSetFixed, matchTop, L_altAll, List.mem_map]
  constructor
  · rintro ⟨r, ⟨g, hg, rfl⟩, h⟩; exact ⟨g, hg, (compile_correct g s).mp h⟩
  · rintro ⟨g, hg, h⟩; exact ⟨compile g, ⟨g, hg, rfl⟩, (compile_correct g s).mpr h⟩

/-- D6: the unchanged shape `^(*.go)|(*.md)$` accepts `a.go/x` although neither pattern does. -/
def goPat : List Tok := [.star, .ch '.', .ch 'g', .ch 'o']
def mdPat : List Tok := [.star, .ch '.', .ch 'm', .ch 'd']

theorem anchor_counterexample :
    matchTop (.pieces (compile goPat) [] (compile mdPat)) "a.go/x".toList ∧
    ¬ (∃ g ∈ [goPat, mdPat], globMatch g "a.go/x".toList) := by
  constructor
  · left
    refine ⟨"a.go".toList, "/x".toList, by decide, ?_⟩
    rw [compile_correct]
    exact ⟨['a'], ['.', 'g', 'o'], by decide, by decide, ['g', 'o'], rfl, ['o'], rfl, [], rfl, rfl⟩
  · rintro ⟨g, hg, h⟩
    simp only [List.mem_cons, List.mem_nil_iff, or_false] at hg
    rcases hg with rfl | rfl
    · -- *.go against a.go/x : the star part may not contain '/', and the rest must be ".go"
      obtain ⟨s₁, s₂, hs, hns, s₃, h3, s₄, h4, s₅, h5, h6⟩ := h
      simp only [globMatch] at h6
      subst h6 h5 h4 h3
      have : s₁.length + 3 = 6 := by
        have := congrArg List.length hs; simp at this; omega
      have h1 : s₁ = "a.g".toList := by
        have := congrArg (List.take 3) hs
        simp [List.take_append_of_le_length (show 3 ≤ s₁.length by omega)] at this
        have hl : s₁.length = 3 := by omega
        rw [List.take_of_length_le (by omega)] at this
        exact this.symm
      subst h1
      revert hs; decide
    · obtain ⟨s₁, s₂, hs, hns, s₃, h3, s₄, h4, s₅, h5, h6⟩ := h
      simp only [globMatch] at h6
      subst h6 h5 h4 h3
      have : s₁.length + 3 = 6 := by
        have := congrArg List.length hs; simp at this; omega
      have h1 : s₁ = "a.g".toList := by
        have := congrArg (List.take 3) hs
        simp [List.take_append_of_le_length (show 3 ≤ s₁.length by omega)] at this
        rw [List.take_of_length_le (by omega)] at this
        exact this.symm
      subst h1
      revert hs; decide

#print axioms union_fixed
#print axioms anchor_counterexample

import P4.Basic

variable {F : Label → Nat → (Src → Nat) → (Label → Val) → Val}

/-- bodies read only their declared inputs -/
def Hermetic (F : Label → Nat → (Src → Nat) → (Label → Val) → Val) (t : Tree) : Prop :=
  ∀ T e c c' o o', (∀ x ∈ t.srcs T, c x = c' x) → (∀ d ∈ t.deps T, o d = o' d) → F T e c o = F T e c' o'

/-- what a from-scratch build would produce for `T`, given the present outputs of its dependencies -/
def Consistent (F : Label → Nat → (Src → Nat) → (Label → Val) → Val) (t : Tree) (s : St) (T : Label) : Prop :=
  s.outs T = F T (t.env T) t.content s.outs

def seenOut (s : St) (r : Rec) : Label → Val :=
  fun d => match r.depStamps d with | some st => s.hist d st.runs | none => 0

structure DInv (F : Label → Nat → (Src → Nat) → (Label → Val) → Val) (t : Tree) (s : St) : Prop where
  rec_out  : ∀ T r, s.recs T = some r → r.ok = true → s.outs T = s.hist T r.runs
  rec_hist : ∀ T r, s.recs T = some r → r.ok = true → s.hist T r.runs = F T r.data r.srcStamps (seenOut s r)
  runs_le  : ∀ T r, s.recs T = some r → ∀ d st, r.depStamps d = some st → st.runs ≤ runsOf (s.recs d)

structure MInv (F : Label → Nat → (Src → Nat) → (Label → Val) → Val) (t : Tree) (s : St) : Prop where
  memo_ok : ∀ d m, s.memo d = some m → m.ok = true →
    ∃ r, s.recs d = some r ∧ r.ok = true ∧ m.stamp = ⟨r.data, r.runs⟩ ∧ Consistent F t s d

theorem runsOf_some (r : Rec) : runsOf (some r) = r.runs := rfl

/-- the stamp a successfully visited dependency shows is its record's, so equal stamps mean "its present output" -/
theorem dep_seen {t : Tree} {s : St} (di : DInv F t s) (mi : MInv F t s) (r : Rec) (d : Label) (m : Res)
    (hm : s.memo d = some m) (hok : m.ok = true) (hst : r.depStamps d = some m.stamp) :
    seenOut s r d = s.outs d := by
  obtain ⟨rd, hrd, hrok, hstamp, _⟩ := mi.memo_ok d m hm hok
  simp only [seenOut, hst, hstamp]
  exact (di.rec_out d rd hrd hrok).symm

theorem all_mem {α} {l : List α} {p : α → Bool} (h : l.all p = true) {x : α} (hx : x ∈ l) : p x = true := by
  exact List.all_eq_true.mp h x hx

/-- Skip decision is sound: an up-to-date target is consistent with a from-scratch build. -/
theorem upToDate_consistent {t : Tree} {s : St} (hF : Hermetic F t) (di : DInv F t s) (mi : MInv F t s)
    (T : Label) (h : upToDate s t T = true) :
    ∃ r, s.recs T = some r ∧ r.ok = true ∧ Consistent F t s T := by
  unfold upToDate at h
  split at h
  · rename_i r hr
    simp only [Bool.and_eq_true, beq_iff_eq] at h
    obtain ⟨⟨⟨hok, hdata⟩, hsrc⟩, hdeps⟩ := h
    refine ⟨r, hr, hok, ?_⟩
    unfold Consistent
    rw [di.rec_out T r hr hok, di.rec_hist T r hr hok, hdata]
    apply hF
    · intro x hx
      have := all_mem hsrc hx
      simpa using this
    · intro d hd
      have hfresh := all_mem hdeps hd
      unfold depFresh at hfresh
      split at hfresh
      · rename_i m hm
        simp only [Bool.and_eq_true, beq_iff_eq, Bool.not_eq_eq_eq_not, Bool.not_true] at hfresh
        exact dep_seen di mi r d m hm hfresh.1.1 hfresh.2
      · cases hfresh
  · cases h

/-- side conditions supplied by the runner (C04): `T` is visited once, after its dependencies,
    and nothing visited so far depends on it. -/
structure Order (t : Tree) (s : St) (T : Label) : Prop where
  fresh : s.memo T = none
  above : ∀ d m, s.memo d = some m → T ∉ t.deps d

theorem depsOk_mem {t : Tree} {s : St} {T : Label} (h : depsOk s t T = true) {d : Label} (hd : d ∈ t.deps T) :
    ∃ m, s.memo d = some m ∧ m.ok = true := by
  have := all_mem h hd
  split at this
  · rename_i m hm; exact ⟨m, hm, this⟩
  · cases this

theorem consistent_frame {t : Tree} {s : St} (hF : Hermetic F t) (T d : Label) (v : Val)
    (hd : d ≠ T) (hnot : T ∉ t.deps d) (h : Consistent F t s d) (s' : St)
    (houts : s'.outs = upd s.outs T v) : Consistent F t s' d := by
  unfold Consistent at *
  rw [houts, upd_other _ _ _ _ hd, h]
  apply hF
  · intro x _; rfl
  · intro e he
    have : e ≠ T := fun c => hnot (c ▸ he)
    simp [this]

theorem visit_inv {t : Tree} {s : St} (hF : Hermetic F t) (fails : Label → Bool) (T : Label)
    (di : DInv F t s) (mi : MInv F t s) (ord : Order t s T) :
    DInv F t (visit F s t fails T) ∧ MInv F t (visit F s t fails T) := by
  unfold visit
  split
  · -- a dependency failed: only the memo changes
    refine ⟨⟨di.rec_out, di.rec_hist, di.runs_le⟩, ⟨?_⟩⟩
    intro d m hm hok
    by_cases e : d = T
    · subst e; simp at hm; subst hm; cases hok
    · simp [e] at hm
      obtain ⟨r, h1, h2, h3, h4⟩ := mi.memo_ok d m hm hok
      exact ⟨r, h1, h2, h3, h4⟩
  · rename_i hdeps0
    have hdeps : depsOk s t T = true := by
      cases h : depsOk s t T
      · simp [h] at hdeps0
      · rfl
    split
    · -- up to date: skip
      rename_i hup
      obtain ⟨r, hr, hok, hcons⟩ := upToDate_consistent hF di mi T hup
      simp only [hr]
      refine ⟨⟨di.rec_out, di.rec_hist, di.runs_le⟩, ⟨?_⟩⟩
      intro d m hm hmok
      by_cases e : d = T
      · subst e; simp at hm; subst hm
        exact ⟨r, hr, hok, rfl, hcons⟩
      · simp [e] at hm
        obtain ⟨r', h1, h2, h3, h4⟩ := mi.memo_ok d m hm hmok
        exact ⟨r', h1, h2, h3, h4⟩
    · split
      · -- body fails: failure record keeps the run counter
        refine ⟨⟨?_, ?_, ?_⟩, ⟨?_⟩⟩
        · intro T' r hr hok
          by_cases e : T' = T
          · subst e; simp at hr; subst hr; cases hok
          · simp [e] at hr; exact di.rec_out T' r hr hok
        · intro T' r hr hok
          by_cases e : T' = T
          · subst e; simp at hr; subst hr; cases hok
          · simp [e] at hr; exact di.rec_hist T' r hr hok
        · intro T' r hr d st hst
          have hrun : ∀ x, runsOf (upd s.recs T (some ⟨curStamp s t T, t.content, 0, runsOf (s.recs T), false⟩) x) = runsOf (s.recs x) := by
            intro x; by_cases ex : x = T
            · subst ex; simp [runsOf]
            · simp [ex]
          rw [hrun]
          by_cases e : T' = T
          · subst e; simp at hr; subst hr
            simp only [curStamp] at hst
            split at hst
            · rename_i hd
              obtain ⟨m, hm, hmok⟩ := depsOk_mem hdeps hd
              rw [hm] at hst
              simp only [Option.map_some, Option.some.injEq] at hst
              subst hst
              obtain ⟨rd, hrd, _, hstamp, _⟩ := mi.memo_ok d m hm hmok
              simp [hstamp, hrd, runsOf]
            · cases hst
          · simp [e] at hr; exact di.runs_le T' r hr d st hst
        · intro d m hm hmok
          by_cases e : d = T
          · subst e; simp at hm; subst hm; cases hmok
          · simp [e] at hm ⊢
            obtain ⟨r', h1, h2, h3, h4⟩ := mi.memo_ok d m hm hmok
            exact ⟨r', h1, h2, h3, h4⟩
      · -- body succeeds: new record, new output, run counter + 1
        have hTnot : T ∉ t.deps T := by
          intro hself
          obtain ⟨m, hm, _⟩ := depsOk_mem hdeps hself
          rw [ord.fresh] at hm; cases hm
        have hdep : ∀ d, d ∈ t.deps T → ∃ m rd, s.memo d = some m ∧ s.recs d = some rd ∧ rd.ok = true ∧
            m.stamp = ⟨rd.data, rd.runs⟩ ∧ d ≠ T := by
          intro d hd
          obtain ⟨m, hm, hmok⟩ := depsOk_mem hdeps hd
          obtain ⟨rd, hrd, hrok, hstamp, _⟩ := mi.memo_ok d m hm hmok
          exact ⟨m, rd, hm, hrd, hrok, hstamp, fun c => hTnot (c ▸ hd)⟩
        -- the value the dependencies' records stand for is their present output
        have hseen : ∀ d, d ∈ t.deps T →
            (match curStamp s t T d with | some st => s.hist d st.runs | none => 0) = s.outs d := by
          intro d hd
          obtain ⟨m, rd, hm, hrd, hrok, hstamp, _⟩ := hdep d hd
          simp only [curStamp, hd, if_true, hm, Option.map_some, hstamp]
          exact (di.rec_out d rd hrd hrok).symm
        refine ⟨⟨?_, ?_, ?_⟩, ⟨?_⟩⟩
        · intro T' r hr hok
          by_cases e : T' = T
          · subst e; simp at hr; subst hr; simp
          · simp [e] at hr ⊢; exact di.rec_out T' r hr hok
        · intro T' r hr hok
          by_cases e : T' = T
          · subst e; simp at hr; subst hr
            simp only [upd_same]
            apply hF
            · intro x _; rfl
            · intro d hd
              obtain ⟨_, _, _, _, _, _, hne⟩ := hdep d hd
              simp only [seenOut, upd_other _ _ _ _ hne]
              exact (hseen d hd).symm
          · simp [e] at hr
            simp only [upd_other _ _ _ _ e]
            rw [di.rec_hist T' r hr hok]
            congr 1
            funext d
            simp only [seenOut]
            cases hst : r.depStamps d with
            | none => rfl
            | some st =>
              by_cases ed : d = T
              · subst ed
                have hle := di.runs_le T' r hr d st hst
                have : st.runs ≠ runsOf (s.recs d) + 1 := by omega
                simp [upd, this]
              · simp [ed]
        · intro T' r hr d st hst
          have hmono : ∀ x, runsOf (s.recs x) ≤ runsOf (upd s.recs T (some ⟨curStamp s t T, t.content, t.env T, runsOf (s.recs T) + 1, true⟩) x) := by
            intro x; by_cases ex : x = T
            · subst ex; simp [runsOf]
            · simp [ex]
          by_cases e : T' = T
          · subst e; simp at hr; subst hr
            simp only [curStamp] at hst
            split at hst
            · rename_i hd
              obtain ⟨m, rd, hm, hrd, _, hstamp, _⟩ := hdep d hd
              rw [hm] at hst
              simp only [Option.map_some, Option.some.injEq] at hst
              subst hst
              refine Nat.le_trans ?_ (hmono d)
              simp [hstamp, hrd, runsOf]
            · cases hst
          · simp [e] at hr
            exact Nat.le_trans (di.runs_le T' r hr d st hst) (hmono d)
        · intro d m hm hmok
          by_cases e : d = T
          · subst e; simp at hm; subst hm
            refine ⟨⟨curStamp s t d, t.content, t.env d, runsOf (s.recs d) + 1, true⟩, by simp, rfl, rfl, ?_⟩
            unfold Consistent
            simp only [upd_same]
            apply hF
            · intro x _; rfl
            · intro e he
              have : e ≠ d := fun c => hTnot (c ▸ he)
              simp [this]
          · simp [e] at hm ⊢
            obtain ⟨r', h1, h2, h3, h4⟩ := mi.memo_ok d m hm hmok
            exact ⟨r', h1, h2, h3, consistent_frame hF T d _ e (ord.above d m hm) h4 _ rfl⟩

/-- A build = visiting targets in an order supplied by the runner (each once, dependencies first). -/
def build (F : Label → Nat → (Src → Nat) → (Label → Val) → Val) (t : Tree) (fails : Label → Bool) :
    St → List Label → St
  | s, [] => s
  | s, T :: rest => build F t fails (visit F s t fails T) rest

def Ordered (F : Label → Nat → (Src → Nat) → (Label → Val) → Val) (t : Tree) (fails : Label → Bool) :
    St → List Label → Prop
  | _, [] => True
  | s, T :: rest => Order t s T ∧ Ordered F t fails (visit F s t fails T) rest

theorem build_inv {t : Tree} (hF : Hermetic F t) (fails : Label → Bool) :
    ∀ (order : List Label) (s : St), DInv F t s → MInv F t s → Ordered F t fails s order →
      DInv F t (build F t fails s order) ∧ MInv F t (build F t fails s order) := by
  intro order
  induction order with
  | nil => intro s di mi _; exact ⟨di, mi⟩
  | cons T rest ih =>
    intro s di mi ho
    obtain ⟨di', mi'⟩ := visit_inv hF fails T di mi ho.1
    exact ih _ di' mi' ho.2

/-- a fresh load forgets the per-build memo and nothing else -/
def freshLoad (s : St) : St := { s with memo := fun _ => none }

theorem dinv_freshLoad {t : Tree} {s : St} (di : DInv F t s) : DInv F t (freshLoad s) :=
  ⟨di.rec_out, di.rec_hist, di.runs_le⟩

theorem minv_freshLoad {t : Tree} (s : St) : MInv F t (freshLoad s) :=
  ⟨by intro d m hm; simp [freshLoad] at hm⟩

/-- edits to fingerprints and source contents do not touch the persisted invariant -/
theorem dinv_edit {t t' : Tree} {s : St} (di : DInv F t s) : DInv F t' s :=
  ⟨di.rec_out, di.rec_hist, di.runs_le⟩

/-- C01, from-scratch form, for one build after ANY earlier history that kept `DInv`
    (full, partial and failed builds all do, by `build_inv`; edits do, by `dinv_edit`):
    every target the build visited successfully is what a clean build would produce
    from the present tree and the present outputs of its dependencies. -/
theorem build_consistent {t : Tree} (hF : Hermetic F t) (fails : Label → Bool) (order : List Label) (s : St)
    (di : DInv F t s) (ho : Ordered F t fails (freshLoad s) order) :
    let s' := build F t fails (freshLoad s) order
    DInv F t s' ∧ ∀ T m, s'.memo T = some m → m.ok = true → Consistent F t s' T := by
  intro s'
  obtain ⟨di', mi'⟩ := build_inv hF fails order (freshLoad s) (dinv_freshLoad di) (minv_freshLoad s) ho
  refine ⟨di', ?_⟩
  intro T m hm hok
  obtain ⟨_, _, _, _, hc⟩ := mi'.memo_ok T m hm hok
  exact hc

theorem dinv_empty (t : Tree) (s : St) (h : ∀ T, s.recs T = none) : DInv F t s where
  rec_out := by intro T r hr; rw [h T] at hr; cases hr
  rec_hist := by intro T r hr; rw [h T] at hr; cases hr
  runs_le := by intro T r hr; rw [h T] at hr; cases hr

#print axioms build_consistent
#print axioms visit_inv

/-! Throw-away probe: the incremental engine with run counters in the stamps (reduced model). -/

abbrev Label := Nat
abbrev Src := Nat
abbrev Val := Nat

structure Stamp where
  data : Nat
  runs : Nat
deriving DecidableEq, Repr

structure Rec where
  depStamps : Label → Option Stamp   -- what the last recorded execution saw for each dependency
  srcStamps : Src → Nat              -- content sums it saw
  data : Nat                         -- fingerprint it ran with
  runs : Nat                         -- successful executions so far
  ok   : Bool                        -- success record (not `rerun`)

/-- what one build remembers about a visited target -/
structure Res where
  ok : Bool
  changed : Bool
  stamp : Stamp

/-- The project as a load sees it. -/
structure Tree where
  deps : Label → List Label
  srcs : Label → List Src
  env  : Label → Nat           -- fingerprint (injective by C07/C08)
  content : Src → Nat          -- content sums (sha256 injective: hypothesis)

structure St where
  recs : Label → Option Rec
  outs : Label → Val
  hist : Label → Nat → Val     -- ghost: output produced by the k-th successful run
  memo : Label → Option Res    -- this build only

def upd {α : Type} (f : Label → α) (l : Label) (v : α) : Label → α := fun x => if x = l then v else f x
@[simp] theorem upd_same {α} (f : Label → α) (l v) : upd f l v l = v := by simp [upd]
@[simp] theorem upd_other {α} (f : Label → α) (l v x) (h : x ≠ l) : upd f l v x = f x := by simp [upd, h]

def runsOf (r : Option Rec) : Nat := match r with | some r => r.runs | none => 0

variable (F : Label → Nat → (Src → Nat) → (Label → Val) → Val)

/-- dependency `d` is unchanged for `T` w.r.t. record `r` and this build's memo -/
def depFresh (s : St) (r : Rec) (d : Label) : Bool :=
  match s.memo d with
  | some m => m.ok && !m.changed && (r.depStamps d == some m.stamp)
  | none => false

def depsOk (s : St) (t : Tree) (T : Label) : Bool :=
  (t.deps T).all fun d => match s.memo d with | some m => m.ok | none => false

def upToDate (s : St) (t : Tree) (T : Label) : Bool :=
  match s.recs T with
  | some r => r.ok && (r.data == t.env T) && (t.srcs T).all (fun x => r.srcStamps x == t.content x) &&
              (t.deps T).all (fun d => depFresh s r d)
  | none => false

/-- the dependency stamps a record lists: exactly the declared dependencies, as visited in this build -/
def curStamp (s : St) (t : Tree) (T : Label) (d : Label) : Option Stamp :=
  if d ∈ t.deps T then (s.memo d).map (·.stamp) else none

/-- visiting `T` once in a build, after its dependencies (C04). `fails T` = the body fails. -/
def visit (s : St) (t : Tree) (fails : Label → Bool) (T : Label) : St :=
  if !depsOk s t T then
    { s with memo := upd s.memo T (some ⟨false, false, ⟨0, 0⟩⟩) }
  else if upToDate s t T then
    match s.recs T with
    | some r => { s with memo := upd s.memo T (some ⟨true, false, ⟨r.data, r.runs⟩⟩) }
    | none => s
  else if fails T then
    { s with recs := upd s.recs T (some ⟨curStamp s t T, t.content, 0, runsOf (s.recs T), false⟩),
             memo := upd s.memo T (some ⟨false, false, ⟨0, 0⟩⟩) }
  else
    let k := runsOf (s.recs T) + 1
    let v := F T (t.env T) t.content s.outs
    { recs := upd s.recs T (some ⟨curStamp s t T, t.content, t.env T, k, true⟩),
      outs := upd s.outs T v,
      hist := upd s.hist T (upd (s.hist T) k v),
      memo := upd s.memo T (some ⟨true, true, ⟨t.env T, k⟩⟩) }

// extractor for label/label.go, sourceFile.go (repoSourcePath, sourceLabel) and project.go (targetInfoPath)
// (C12): regenerates lean/Dawn/Extracted/Label.lean
package main

import (
	"flag"
	"fmt"
	"go/ast"
	"go/token"
	"os"
	"regexp"
	"strconv"
	"strings"

	"verif/extract/lib"
)

// literals returns, in source order, the unquoted string literals, the code points of the char literals and
// the integer literals of a function body.
func literals(fd *ast.FuncDecl) (strs []string, chars []int, ints []int) {
	ast.Inspect(fd.Body, func(n ast.Node) bool {
		if isErrorCtor(n) {
			return false // the wording of an error message is not a fact the model depends on
		}
		bl, ok := n.(*ast.BasicLit)
		if !ok {
			return true
		}
		switch bl.Kind {
		case token.STRING:
			if s, ok := lib.Unquote(bl); ok {
				strs = append(strs, s)
			}
		case token.CHAR:
			if s, ok := lib.Unquote(bl); ok {
				chars = append(chars, int([]rune(s)[0]))
			}
		case token.INT:
			if v, err := strconv.ParseInt(bl.Value, 0, 64); err == nil {
				ints = append(ints, int(v))
			}
		}
		return true
	})
	return
}

// isErrorCtor: a call errors.New(...) or fmt.Errorf(...)
func isErrorCtor(n ast.Node) bool {
	c, ok := n.(*ast.CallExpr)
	if !ok {
		return false
	}
	sel, ok := c.Fun.(*ast.SelectorExpr)
	if !ok {
		return false
	}
	x, ok := sel.X.(*ast.Ident)
	return ok && (x.Name == "errors" && sel.Sel.Name == "New" || x.Name == "fmt" && sel.Sel.Name == "Errorf")
}

// message texts are dropped from the normalised body: `(call (. errors New) "…")` becomes `(call (. errors New) _)`
var msgRe = regexp.MustCompile(`\(call \(\. (errors New|fmt Errorf)\) "(?:[^"\\]|\\.)*"`)

func normBody(fd *ast.FuncDecl) string {
	return msgRe.ReplaceAllString(lib.NormFunc(fd), "(call (. $1) _")
}

// string literals are emitted as byte lists, so that the kernel can compare them with the model's constants
func leanStrings(xs []string) string {
	q := make([]string, len(xs))
	for i, x := range xs {
		var bs []int
		for _, b := range []byte(x) {
			bs = append(bs, int(b))
		}
		q[i] = lib.LeanNatList(bs)
	}
	return "[" + strings.Join(q, ", ") + "]"
}

func main() {
	repo := flag.String("repo", "/repo", "")
	out := flag.String("out", "", "")
	flag.Parse()
	o := lib.NewOut("Label")
	defer func() {
		if err := o.Write(*out); err != nil {
			fmt.Fprintln(os.Stderr, err)
			os.Exit(1)
		}
	}()
	type want struct{ file, fn, name string }
	wants := []want{
		{"label/label.go", "Parse", "parse"},
		{"label/label.go", "New", "new"},
		{"label/label.go", "Label.IsAbs", "isAbs"},
		{"label/label.go", "Label.RelativeTo", "relativeTo"},
		{"label/label.go", "Label.String", "string"},
		{"label/label.go", "lazybuf.index", "lazybufIndex"},
		{"label/label.go", "lazybuf.append", "lazybufAppend"},
		{"label/label.go", "lazybuf.string", "lazybufString"},
		{"label/label.go", "Clean", "clean"},
		{"label/label.go", "Split", "split"},
		{"label/label.go", "Join", "join"},
		{"sourceFile.go", "repoSourcePath", "repoSourcePath"},
		{"sourceFile.go", "sourceLabel", "sourceLabel"},
		{"project.go", "Project.targetInfoPath", "targetInfoPath"},
	}
	files := map[string]*lib.File{}
	for _, w := range wants {
		f, ok := files[w.file]
		if !ok {
			var err error
			f, err = lib.Parse(*repo, w.file)
			if err != nil {
				o.Fail("parse %s: %v", w.file, err)
				files[w.file] = nil
				continue
			}
			files[w.file] = f
		}
		if f == nil {
			continue
		}
		fd := f.Func(w.fn)
		if fd == nil || fd.Body == nil {
			o.Fail("func %s not found in %s", w.fn, w.file)
			continue
		}
		strs, chars, ints := literals(fd)
		o.Def(w.name+"Strings", "List (List Nat)", leanStrings(strs))
		o.Def(w.name+"Chars", "List Nat", lib.LeanNatList(chars))
		o.Def(w.name+"Ints", "List Nat", lib.LeanNatList(ints))
		o.Def(w.name+"Body", "String", lib.LeanLongString(normBody(fd)))
	}
}

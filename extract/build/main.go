// extractor for the incremental engine (C01, C02, C03, C13, C14): regenerates lean/Dawn/Extracted/Build.lean
// from target.go, function.go, sourceFile.go, project.go, project_index.go.
package main

import (
	"flag"
	"fmt"
	"go/ast"
	"go/token"
	"go/types"
	"os"
	"reflect"
	"strings"

	"verif/extract/lib"
)

// mentions: the statement's own text (not nested blocks) refers to one of the names
func mentions(names ...string) func(ast.Stmt) bool {
	return func(s ast.Stmt) bool {
		switch s.(type) {
		case *ast.IfStmt, *ast.ForStmt, *ast.RangeStmt, *ast.SwitchStmt, *ast.TypeSwitchStmt, *ast.BlockStmt, *ast.SelectStmt:
			return false // compound statements are kept when something inside them is
		}
		if _, ok := s.(*ast.ReturnStmt); ok {
			return true
		}
		hit := false
		ast.Inspect(s, func(n ast.Node) bool {
			switch n := n.(type) {
			case *ast.Ident:
				for _, w := range names {
					if n.Name == w {
						hit = true
					}
				}
			case *ast.BasicLit:
				for _, w := range names {
					if n.Kind == token.STRING && strings.Contains(n.Value, w) {
						hit = true
					}
				}
			}
			return !hit
		})
		return hit
	}
}

func main() {
	repo := flag.String("repo", "/repo", "")
	out := flag.String("out", "", "")
	flag.Parse()
	o := lib.NewOut("Build")
	defer func() {
		if err := o.Write(*out); err != nil {
			fmt.Fprintln(os.Stderr, err)
			os.Exit(1)
		}
	}()
	files := map[string]*lib.File{}
	for _, name := range []string{"target.go", "function.go", "sourceFile.go", "project.go", "project_index.go", "project_builtins.go", "builtins.go"} {
		f, err := lib.Parse(*repo, name)
		if err != nil {
			o.Fail("parse %s: %v", name, err)
			return
		}
		files[name] = f
	}
	whole := func(def, file, fn string) {
		fd := files[file].Func(fn)
		if fd == nil {
			o.Fail("func %s not found in %s", fn, file)
			o.Def(def, "String", `""`)
			return
		}
		o.Def(def, "String", lib.LeanLongString(lib.NormFunc(fd)))
	}
	skeleton := func(def, file, fn string, keep func(ast.Stmt) bool) {
		fd := files[file].Func(fn)
		if fd == nil {
			o.Fail("func %s not found in %s", fn, file)
			o.Def(def, "String", `""`)
			return
		}
		o.Def(def, "String", lib.LeanLongString(lib.NormFuncKeep(fd, keep)))
	}

	// the skip decision and what is recorded, line for line
	whole("evaluate", "target.go", "runTarget.Evaluate")
	// function targets: the part of upToDate / load / evaluate the model follows (the environment comparison
	// itself, diffEnv / functionEnv, belongs to C07/C08 and enters the model as an injective `env` value)
	skeleton("fnUpToDate", "function.go", "function.upToDate", mentions("always", "Rerun", "diffEnv", "gens", "Stat", "IsNotExist", "eq"))
	skeleton("fnLoad", "function.go", "function.load", mentions("loadTargetInfo", "saveTargetInfo", "targetInfo", "always", "Rerun"))
	skeleton("fnEvaluate", "function.go", "function.evaluate", mentions("Call", "err", "String"))
	// source targets
	whole("srcUpToDate", "sourceFile.go", "sourceFile.upToDate")
	whole("srcEvaluate", "sourceFile.go", "sourceFile.evaluate")
	whole("srcLoad", "sourceFile.go", "sourceFile.load")
	whole("fileSum", "sourceFile.go", "fileSum")
	whole("dirSum", "sourceFile.go", "dirSum")
	// records
	whole("saveTargetInfo", "project.go", "Project.saveTargetInfo")
	whole("loadTargetInfo", "project.go", "Project.loadTargetInfo")
	whole("targetInfoPath", "project.go", "Project.targetInfoPath")
	whole("gc", "project.go", "Project.GC")
	whole("link", "project.go", "Project.link")
	whole("run", "project.go", "Project.Run")
	// RunOptions.apply: the whole body, and — as a named fact — the fields assigned on the nil-options path and on the
	// other path (the model's `applyOptions` resets BOTH flags for nil options)
	whole("applyOptions", "project.go", "RunOptions.apply")
	var nilAssigns, setAssigns []string
	if fd := files["project.go"].Func("RunOptions.apply"); fd != nil {
		fields := func(b *ast.BlockStmt, into *[]string) {
			for _, st := range b.List {
				if as, ok := st.(*ast.AssignStmt); ok {
					for _, l := range as.Lhs {
						if sel, ok := l.(*ast.SelectorExpr); ok {
							*into = append(*into, lib.LeanString(sel.Sel.Name))
						}
					}
				}
			}
		}
		for _, st := range fd.Body.List {
			if ifs, ok := st.(*ast.IfStmt); ok {
				if be, ok := ifs.Cond.(*ast.BinaryExpr); ok && be.Op == token.EQL {
					if id, ok := be.Y.(*ast.Ident); ok && id.Name == "nil" {
						fields(ifs.Body, &nilAssigns)
					}
				}
			}
		}
		fields(fd.Body, &setAssigns)
	} else {
		o.Fail("func RunOptions.apply not found")
	}
	// the REPL builtin run(label_or_target, always=, dry_run=, callback=): its body, its parameter names in order, and the
	// order in which the generated wrapper (builtins.go) unpacks the keywords and passes them on — the two bools are
	// adjacent and of the same type, so a swap type-checks
	whole("builtinRun", "project_builtins.go", "Project.builtin_run")
	var runParams, wrapperArgs, wrapperKeywords []string
	if fd := files["project_builtins.go"].Func("Project.builtin_run"); fd != nil {
		for _, f := range fd.Type.Params.List {
			for _, n := range f.Names {
				runParams = append(runParams, lib.LeanString(n.Name))
			}
		}
	} else {
		o.Fail("func Project.builtin_run not found")
	}
	if fd := files["builtins.go"].Func("Project.starlark_builtin_run"); fd != nil {
		ast.Inspect(fd.Body, func(n ast.Node) bool {
			c, ok := n.(*ast.CallExpr)
			if !ok {
				return true
			}
			if sel, ok := c.Fun.(*ast.SelectorExpr); ok {
				switch sel.Sel.Name {
				case "builtin_run":
					for _, a := range c.Args {
						if id, ok := a.(*ast.Ident); ok {
							wrapperArgs = append(wrapperArgs, lib.LeanString(id.Name))
						}
					}
				case "UnpackArgs":
					// "keyword", &variable pairs after the first three arguments
					for i := 3; i+1 < len(c.Args); i += 2 {
						kw, _ := c.Args[i].(*ast.BasicLit)
						un, _ := c.Args[i+1].(*ast.UnaryExpr)
						if kw == nil || un == nil {
							continue
						}
						k, _ := lib.Unquote(kw)
						if id, ok := un.X.(*ast.Ident); ok {
							wrapperKeywords = append(wrapperKeywords, lib.LeanString(k+"→"+id.Name))
						}
					}
				}
			}
			return true
		})
	} else {
		o.Fail("func Project.starlark_builtin_run not found")
	}
	o.Def("runParams", "List String", "["+strings.Join(runParams, ", ")+"]")
	o.Def("runWrapperArgs", "List String", "["+strings.Join(wrapperArgs, ", ")+"]")
	o.Def("runWrapperKeywords", "List String", "["+strings.Join(wrapperKeywords, ", ")+"]")
	o.Def("applyNilAssigns", "List String", "["+strings.Join(nilAssigns, ", ")+"]")
	o.Def("applySetAssigns", "List String", "["+strings.Join(setAssigns, ", ")+"]")
	whole("saveIndex", "project_index.go", "Project.saveIndex")
	whole("indexInfo", "project_index.go", "indexTarget.info")
	if fd := files["project.go"].Func("targetInfo.stamp"); fd != nil {
		o.Def("stamp", "String", lib.LeanLongString(lib.NormFunc(fd)))
	} else {
		o.Def("stamp", "String", `"(absent)"`)
	}

	// D27 repair: the keys of the persisted dependencies map are escaped reversibly (absent before the repair: the tie in
	// Dawn/Ties/BuildKeys.lean then breaks, for C02 only)
	optional := func(def, file, fn string) {
		if fd := files[file].Func(fn); fd != nil {
			o.Def(def, "String", lib.LeanLongString(lib.NormFunc(fd)))
		} else {
			o.Def(def, "String", `"(absent)"`)
		}
	}
	optional("escapeLabel", "project.go", "escapeLabel")
	optional("unescapeLabel", "project.go", "unescapeLabel")
	optional("depStampsMarshal", "project.go", "depStamps.MarshalJSON")
	optional("depStampsUnmarshal", "project.go", "depStamps.UnmarshalJSON")
	// D32 repair: the digest of the lists a body sees through `self` (absent before the repair)
	optional("fnAttrs", "function.go", "function.attrs")
	depType := "(not found)"
	for _, d := range files["project.go"].AST.Decls {
		if gd, ok := d.(*ast.GenDecl); ok {
			for _, sp := range gd.Specs {
				if ts, ok := sp.(*ast.TypeSpec); ok && ts.Name.Name == "targetInfo" {
					if st, ok := ts.Type.(*ast.StructType); ok {
						for _, f := range st.Fields.List {
							for _, n := range f.Names {
								if n.Name == "Dependencies" {
									switch t := f.Type.(type) {
									case *ast.Ident:
										depType = t.Name
									case *ast.MapType:
										depType = "map"
									}
								}
							}
						}
					}
				}
			}
		}
	}
	o.Def("dependenciesType", "String", lib.LeanString(depType))

	// targetInfo: field names, Go types, JSON names and omitempty
	var fields []string
	for _, d := range files["project.go"].AST.Decls {
		gd, ok := d.(*ast.GenDecl)
		if !ok {
			continue
		}
		for _, sp := range gd.Specs {
			ts, ok := sp.(*ast.TypeSpec)
			if !ok || ts.Name.Name != "targetInfo" {
				continue
			}
			st, ok := ts.Type.(*ast.StructType)
			if !ok {
				continue
			}
			for _, f := range st.Fields.List {
				tag := ""
				if f.Tag != nil {
					if s, ok := lib.Unquote(f.Tag); ok {
						tag = reflect.StructTag(s).Get("json")
					}
				}
				for _, n := range f.Names {
					fields = append(fields, fmt.Sprintf("(%s, %s)", lib.LeanString(n.Name), lib.LeanString(tag)))
				}
			}
		}
	}
	if len(fields) == 0 {
		o.Fail("type targetInfo not found")
	}
	o.Def("targetInfoFields", "List (String × String)", "["+strings.Join(fields, ", ")+"]")

	// targetInfoPath: the string literals of the kind → directory rule, in source order
	var lits []string
	if fd := files["project.go"].Func("Project.targetInfoPath"); fd != nil {
		ast.Inspect(fd.Body, func(n ast.Node) bool {
			if bl, ok := n.(*ast.BasicLit); ok && bl.Kind == token.STRING {
				if s, ok := lib.Unquote(bl); ok {
					lits = append(lits, lib.LeanString(s))
				}
			}
			return true
		})
	}
	o.Def("pathLiterals", "List String", "["+strings.Join(lits, ", ")+"]")

	// the hook points of the verif: patch, per function, in source order (the crash points the model's steps name)
	var hooks []string
	for _, fn := range []struct{ file, name string }{{"target.go", "runTarget.Evaluate"}, {"project.go", "Project.saveTargetInfo"}, {"project_index.go", "Project.saveIndex"}} {
		if fd := files[fn.file].Func(fn.name); fd != nil {
			ast.Inspect(fd.Body, func(n ast.Node) bool {
				if c, ok := n.(*ast.CallExpr); ok {
					if id, ok := c.Fun.(*ast.Ident); ok && id.Name == "verifPoint" && len(c.Args) > 0 {
						if bl, ok := c.Args[0].(*ast.BasicLit); ok {
							if s, ok := lib.Unquote(bl); ok {
								hooks = append(hooks, lib.LeanString(s))
							}
						}
					}
				}
				return true
			})
		}
	}
	o.Def("hookPoints", "List String", "["+strings.Join(hooks, ", ")+"]")

	// the command layer (C13): which variables the flags of `dawn` and of `dawn build` are bound to, which function the bare
	// command runs, and what the build command passes to loadProject and to run
	cliFlagVars := func(f *lib.File, cmd string) []string {
		var out []string
		ast.Inspect(f.AST, func(n ast.Node) bool {
			call, ok := n.(*ast.CallExpr)
			if !ok || len(call.Args) == 0 {
				return true
			}
			sel, ok := call.Fun.(*ast.SelectorExpr)
			if !ok || !strings.Contains(sel.Sel.Name, "Var") {
				return true
			}
			recv, ok := sel.X.(*ast.CallExpr)
			if !ok {
				return true
			}
			rs, ok := recv.Fun.(*ast.SelectorExpr)
			if !ok || rs.Sel.Name != "Flags" {
				return true
			}
			if id, ok := rs.X.(*ast.Ident); ok && id.Name == cmd && len(call.Args) >= 2 {
				name := "?"
				if lit, ok := call.Args[1].(*ast.BasicLit); ok {
					name = strings.Trim(lit.Value, "\"")
				}
				out = append(out, lib.LeanString(name+"="+types.ExprString(call.Args[0])))
			}
			return true
		})
		return out
	}
	callArgs := func(f *lib.File, recv, method string) []string {
		out := []string{}
		found := false
		ast.Inspect(f.AST, func(n ast.Node) bool {
			call, ok := n.(*ast.CallExpr)
			if !ok || found {
				return true
			}
			if sel, ok := call.Fun.(*ast.SelectorExpr); ok && sel.Sel.Name == method {
				if id, ok := sel.X.(*ast.Ident); ok && id.Name == recv {
					found = true
					for _, a := range call.Args {
						out = append(out, lib.LeanString(types.ExprString(a)))
					}
				}
			}
			return true
		})
		if !found {
			out = append(out, lib.LeanString("(no such call)"))
		}
		return out
	}
	rootF, err1 := lib.Parse(*repo, "cmd/dawn/root.go")
	buildF, err2 := lib.Parse(*repo, "cmd/dawn/build.go")
	if err1 != nil || err2 != nil {
		o.Fail("parse cmd/dawn: %v %v", err1, err2)
		return
	}
	rootRunE := "(not found)"
	ast.Inspect(rootF.AST, func(n ast.Node) bool {
		if vs, ok := n.(*ast.ValueSpec); ok && len(vs.Names) == 1 && vs.Names[0].Name == "rootCmd" && len(vs.Values) == 1 {
			ast.Inspect(vs.Values[0], func(m ast.Node) bool {
				if kv, ok := m.(*ast.KeyValueExpr); ok {
					if k, ok := kv.Key.(*ast.Ident); ok && k.Name == "RunE" {
						rootRunE = types.ExprString(kv.Value)
					}
				}
				return true
			})
		}
		return true
	})
	o.Def("cliRootRunE", "String", lib.LeanString(rootRunE))
	o.Def("cliRootFlagVars", "List String", "["+strings.Join(cliFlagVars(rootF, "rootCmd"), ", ")+"]")
	o.Def("cliBuildFlagVars", "List String", "["+strings.Join(cliFlagVars(buildF, "buildCmd"), ", ")+"]")
	o.Def("cliBuildLoadArgs", "List String", "["+strings.Join(callArgs(buildF, "work", "loadProject"), ", ")+"]")
	o.Def("cliBuildRunArgs", "List String", "["+strings.Join(callArgs(buildF, "work", "run"), ", ")+"]")
}

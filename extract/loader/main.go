// extractor for the module loader (C06): regenerates lean/Dawn/Extracted/Loader.lean
//
// Facts: synchronisation skeletons of (*module).{getLoading,setLoading,done,wait,load}, (*Project).loadModule and
// the goroutine spawn of (*Project).loadPackage (statements touching a mutex, the condition variable, the
// loading/loaded fields, the module registry, calls between these functions, `go` and `return`; verifPoint call
// sites are dropped, so hooks do not change the skeleton), the statement order of `wait` and `done` as tag lists,
// and which version of the chain walk `wait` contains.
package main

import (
	"flag"
	"fmt"
	"go/ast"
	"go/token"
	"os"
	"strings"

	"verif/extract/lib"
)

func hasSel(n ast.Node, sels ...string) bool {
	found := false
	ast.Inspect(n, func(m ast.Node) bool {
		if s, ok := m.(*ast.SelectorExpr); ok {
			for _, x := range sels {
				if s.Sel.Name == x {
					found = true
				}
			}
		}
		return !found
	})
	return found
}

func isHook(s ast.Stmt) bool {
	switch s := s.(type) {
	case *ast.ExprStmt:
		if c, ok := s.X.(*ast.CallExpr); ok {
			if id, ok := c.Fun.(*ast.Ident); ok && id.Name == "verifPoint" {
				return true
			}
		}
	case *ast.DeferStmt:
		if id, ok := s.Call.Fun.(*ast.Ident); ok && id.Name == "verifPoint" {
			return true
		}
	}
	return false
}

var syncSels = []string{"m", "cond", "loading", "loaded", "modules", "Lock", "Unlock", "Wait", "Broadcast", "Signal",
	"setLoading", "getLoading", "wait", "load", "done", "loadModule", "Done", "Add"}

func keep(s ast.Stmt) bool {
	if isHook(s) {
		return false
	}
	switch s.(type) {
	case *ast.ReturnStmt, *ast.GoStmt:
		return true
	case *ast.IfStmt, *ast.ForStmt, *ast.RangeStmt, *ast.SwitchStmt:
		return false
	}
	return hasSel(s, syncSels...)
}

// callOn returns the receiver text and method name of a call statement/expression x.f(…) / x.y.f(…)
func callOn(e ast.Expr) (recv, name string) {
	c, ok := e.(*ast.CallExpr)
	if !ok {
		return "", ""
	}
	s, ok := c.Fun.(*ast.SelectorExpr)
	if !ok {
		return "", ""
	}
	return exprText(s.X), s.Sel.Name
}

func exprText(e ast.Expr) string { return exprTextR(e, func(s string) string { return s }) }

func exprTextR(e ast.Expr, ren func(string) string) string {
	switch e := e.(type) {
	case *ast.Ident:
		return ren(e.Name)
	case *ast.SelectorExpr:
		return exprTextR(e.X, ren) + "." + e.Sel.Name
	case *ast.UnaryExpr:
		return e.Op.String() + exprTextR(e.X, ren)
	case *ast.BinaryExpr:
		return exprTextR(e.X, ren) + e.Op.String() + exprTextR(e.Y, ren)
	case *ast.CallExpr:
		return exprTextR(e.Fun, ren) + "()"
	}
	return "?"
}

// tags of the top-level statements of wait / done, receiver renamed to R, first parameter to W
func tags(fd *ast.FuncDecl) []string {
	recv := ""
	if fd.Recv != nil && len(fd.Recv.List) == 1 && len(fd.Recv.List[0].Names) == 1 {
		recv = fd.Recv.List[0].Names[0].Name
	}
	param := ""
	if fd.Type.Params != nil && len(fd.Type.Params.List) > 0 && len(fd.Type.Params.List[0].Names) > 0 {
		param = fd.Type.Params.List[0].Names[0].Name
	}
	renID := func(s string) string {
		if s == recv {
			return "R"
		} else if s == param {
			return "W"
		}
		return s
	}
	ren := func(s string) string {
		parts := strings.Split(s, ".")
		parts[0] = renID(parts[0])
		return strings.Join(parts, ".")
	}
	text := func(e ast.Expr) string { return exprTextR(e, renID) }
	var out []string
	for _, s := range fd.Body.List {
		if isHook(s) {
			continue
		}
		switch s := s.(type) {
		case *ast.ExprStmt:
			if r, n := callOn(s.X); n != "" {
				out = append(out, ren(r)+"."+n)
			}
		case *ast.DeferStmt:
			if r, n := callOn(s.Call); n != "" {
				out = append(out, "defer "+ren(r)+"."+n)
			}
		case *ast.AssignStmt:
			var l []string
			for _, x := range s.Lhs {
				l = append(l, text(x))
			}
			if hasSel(s, "loaded", "loading", "data", "err") {
				out = append(out, "set "+strings.Join(l, ","))
			}
		case *ast.IfStmt:
			t := "if " + text(s.Cond)
			for _, b := range s.Body.List {
				if f, ok := b.(*ast.ForStmt); ok {
					t += " { for " + text(f.Cond) + " }"
				}
			}
			out = append(out, t)
		case *ast.ForStmt:
			t := "for " + text(s.Cond)
			for _, b := range s.Body.List {
				if e, ok := b.(*ast.ExprStmt); ok {
					if r, n := callOn(e.X); n != "" {
						t += " { " + ren(r) + "." + n + " }"
					}
				}
			}
			out = append(out, t)
		case *ast.ReturnStmt:
			out = append(out, "return")
		}
	}
	return out
}

// walkFacts: inside wait, the loop `for loading != nil { … loading = X.getLoading() }` and how `loading` starts
func walkFacts(fd *ast.FuncDecl) (first, next string) {
	recv := fd.Recv.List[0].Names[0].Name
	first, next = "none", "none"
	ast.Inspect(fd.Body, func(n ast.Node) bool {
		f, ok := n.(*ast.ForStmt)
		if !ok {
			return true
		}
		b, ok := f.Cond.(*ast.BinaryExpr)
		if !ok || b.Op != token.NEQ {
			return true
		}
		v, ok := b.X.(*ast.Ident)
		if !ok || exprText(b.Y) != "nil" {
			return true
		}
		// the advance: an assignment to the loop variable in the body or in the post statement
		adv := func(s ast.Stmt) {
			if a, ok := s.(*ast.AssignStmt); ok && len(a.Lhs) == 1 && len(a.Rhs) == 1 && exprText(a.Lhs[0]) == v.Name {
				if r, nm := callOn(a.Rhs[0]); nm == "getLoading" {
					switch r {
					case recv:
						next = "receiver.getLoading"
					case v.Name:
						next = "loading.getLoading"
					default:
						next = "other.getLoading"
					}
				} else {
					next = "other"
				}
			}
		}
		for _, s := range f.Body.List {
			adv(s)
		}
		if f.Post != nil {
			adv(f.Post)
		}
		if f.Init != nil {
			if a, ok := f.Init.(*ast.AssignStmt); ok && len(a.Rhs) == 1 {
				first = initKind(a.Rhs[0], recv)
			}
		}
		return true
	})
	if first == "none" {
		// `loading := …` before the loop
		ast.Inspect(fd.Body, func(n ast.Node) bool {
			if a, ok := n.(*ast.AssignStmt); ok && a.Tok == token.DEFINE && len(a.Lhs) == 1 && exprText(a.Lhs[0]) == "loading" && len(a.Rhs) == 1 {
				first = initKind(a.Rhs[0], recv)
			}
			return true
		})
	}
	return
}

func initKind(e ast.Expr, recv string) string {
	if r, nm := callOn(e); nm == "getLoading" && r == recv {
		return "receiver.getLoading"
	}
	if exprText(e) == recv+".loading" {
		return "receiver.loading"
	}
	return "other"
}

// envErrorPath: in module.load, what the `if err != nil` block that follows `… := m.env(proj)` returns:
// "done" when it returns m.done(…) (waiters are woken and get the error), "plain" when it returns without done().
func envErrorPath(fd *ast.FuncDecl) string {
	if fd == nil {
		return "missing"
	}
	recv := fd.Recv.List[0].Names[0].Name
	for i, s := range fd.Body.List {
		a, ok := s.(*ast.AssignStmt)
		if !ok || len(a.Rhs) != 1 {
			continue
		}
		if r, n := callOn(a.Rhs[0]); n != "env" || r != recv {
			continue
		}
		for _, nx := range fd.Body.List[i+1:] {
			if isHook(nx) {
				continue
			}
			ifs, ok := nx.(*ast.IfStmt)
			if !ok {
				return "no-error-test"
			}
			for _, b := range ifs.Body.List {
				if ret, ok := b.(*ast.ReturnStmt); ok {
					if len(ret.Results) == 1 {
						if r, n := callOn(ret.Results[0]); n == "done" && r == recv {
							return "done"
						}
					}
					return "plain"
				}
			}
			return "no-return"
		}
	}
	return "no-env-call"
}

// reloadResets: which of the per-load fields of Project (modules, flags, targets, indexOnly) are re-initialised on the way
// from Reload() to the first loadPackage call: assignments `proj.<field> = …` in Reload, in load before it calls
// loadPackage, and in the methods of the receiver those two call before that point (one level, e.g. a reset() helper).
func reloadResets(f *lib.File) []string {
	watch := map[string]bool{"modules": true, "flags": true, "targets": true, "indexOnly": true}
	found := map[string]bool{}
	var scan func(fd *ast.FuncDecl, depth int)
	scan = func(fd *ast.FuncDecl, depth int) {
		if fd == nil || fd.Recv == nil || len(fd.Recv.List) != 1 || len(fd.Recv.List[0].Names) != 1 {
			return
		}
		recv := fd.Recv.List[0].Names[0].Name
		stop := false
		var walk func(n ast.Node) bool
		walk = func(n ast.Node) bool {
			if stop {
				return false
			}
			switch n := n.(type) {
			case *ast.FuncLit:
				return false // deferred closures and goroutines run later
			case *ast.AssignStmt:
				for _, l := range n.Lhs {
					if se, ok := l.(*ast.SelectorExpr); ok {
						if id, ok := se.X.(*ast.Ident); ok && id.Name == recv && watch[se.Sel.Name] {
							found[se.Sel.Name] = true
						}
					}
				}
			case *ast.CallExpr:
				if se, ok := n.Fun.(*ast.SelectorExpr); ok {
					if id, ok := se.X.(*ast.Ident); ok && id.Name == recv {
						switch se.Sel.Name {
						case "loadPackage":
							stop = true // from here on the loader goroutines run
							return false
						case "load":
							if depth == 0 {
								scan(f.Func("Project.load"), 0)
							}
						default:
							if depth == 0 {
								scan(f.Func("Project."+se.Sel.Name), 1)
							}
						}
					}
				}
			}
			return true
		}
		ast.Inspect(fd.Body, walk)
	}
	scan(f.Func("Project.Reload"), 0)
	var out []string
	for _, k := range []string{"flags", "indexOnly", "modules", "targets"} {
		if found[k] {
			out = append(out, k)
		}
	}
	return out
}

// moduleKey: the expressions by which loadModule indexes the module registry `proj.modules[…]` (distinct, in source order;
// receiver printed as P, the label parameter as L). A key expression that is a local variable is followed to its definition.
func moduleKey(fd *ast.FuncDecl) []string {
	if fd == nil || fd.Recv == nil || len(fd.Recv.List[0].Names) != 1 {
		return []string{"missing"}
	}
	recv := fd.Recv.List[0].Names[0].Name
	lbl := ""
	if ps := fd.Type.Params.List; len(ps) >= 2 && len(ps[1].Names) == 1 {
		lbl = ps[1].Names[0].Name
	}
	ren := func(s string) string {
		switch s {
		case recv:
			return "P"
		case lbl:
			return "L"
		}
		return s
	}
	defs := map[string]ast.Expr{}
	ast.Inspect(fd.Body, func(n ast.Node) bool {
		if a, ok := n.(*ast.AssignStmt); ok && a.Tok == token.DEFINE && len(a.Lhs) == 1 && len(a.Rhs) == 1 {
			if id, ok := a.Lhs[0].(*ast.Ident); ok {
				defs[id.Name] = a.Rhs[0]
			}
		}
		return true
	})
	var text func(e ast.Expr) string
	text = func(e ast.Expr) string {
		switch e := e.(type) {
		case *ast.Ident:
			if d, ok := defs[e.Name]; ok && e.Name != recv && e.Name != lbl {
				return text(d)
			}
			return ren(e.Name)
		case *ast.CompositeLit:
			var parts []string
			for _, el := range e.Elts {
				parts = append(parts, text(el))
			}
			return exprTextR(e.Type, ren) + "{" + strings.Join(parts, ",") + "}"
		case *ast.KeyValueExpr:
			return exprTextR(e.Key, ren) + ":" + text(e.Value)
		}
		return exprTextR(e, ren)
	}
	var out []string
	seen := map[string]bool{}
	ast.Inspect(fd.Body, func(n ast.Node) bool {
		if ix, ok := n.(*ast.IndexExpr); ok {
			if se, ok := ix.X.(*ast.SelectorExpr); ok && se.Sel.Name == "modules" {
				if t := text(ix.Index); !seen[t] {
					seen[t] = true
					out = append(out, t)
				}
			}
		}
		return true
	})
	return out
}

func strList(xs []string) string {
	var q []string
	for _, x := range xs {
		q = append(q, lib.LeanString(x))
	}
	return "[" + strings.Join(q, ", ") + "]"
}

func main() {
	repo := flag.String("repo", "/repo", "")
	out := flag.String("out", "", "")
	flag.Parse()
	o := lib.NewOut("Loader")
	defer func() {
		if err := o.Write(*out); err != nil {
			fmt.Fprintln(os.Stderr, err)
			os.Exit(1)
		}
	}()
	mf, err := lib.Parse(*repo, "module.go")
	if err != nil {
		o.Fail("parse module.go: %v", err)
		return
	}
	pf, err := lib.Parse(*repo, "project.go")
	if err != nil {
		o.Fail("parse project.go: %v", err)
		return
	}
	skel := func(f *lib.File, name, def string) *ast.FuncDecl {
		fd := f.Func(name)
		if fd == nil {
			o.Fail("func %s not found", name)
			o.Def(def, "String", `""`)
			return nil
		}
		o.Def(def, "String", lib.LeanLongString(lib.NormFuncKeep(fd, keep)))
		return fd
	}
	skel(mf, "module.getLoading", "getLoadingSkeleton")
	skel(mf, "module.setLoading", "setLoadingSkeleton")
	done := skel(mf, "module.done", "doneSkeleton")
	wait := skel(mf, "module.wait", "waitSkeleton")
	load := skel(mf, "module.load", "loadSkeleton")
	o.Def("envErrorPath", "String", lib.LeanString(envErrorPath(load)))
	skel(pf, "Project.loadModule", "loadModuleSkeleton")
	skel(pf, "Project.loadPackage", "loadPackageSkeleton")
	if pf.Func("Project.Reload") == nil || pf.Func("Project.load") == nil {
		o.Fail("func (*Project).Reload / load not found")
	}
	o.Def("reloadResets", "List String", strList(reloadResets(pf)))
	o.Def("moduleKey", "List String", strList(moduleKey(pf.Func("Project.loadModule"))))
	if done != nil {
		o.Def("doneShape", "List String", strList(tags(done)))
	} else {
		o.Def("doneShape", "List String", "[]")
	}
	if wait != nil {
		o.Def("waitShape", "List String", strList(tags(wait)))
		first, next := walkFacts(wait)
		o.Def("walkFirst", "String", lib.LeanString(first))
		o.Def("walkNext", "String", lib.LeanString(next))
	} else {
		o.Def("waitShape", "List String", "[]")
		o.Def("walkFirst", "String", `""`)
		o.Def("walkNext", "String", `""`)
	}
}

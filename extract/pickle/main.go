// extractor for pickle/{opcodes,encode,decode}.go (C07, C15): regenerates lean/Dawn/Extracted/Pickle.lean
package main

import (
	"flag"
	"fmt"
	"go/ast"
	"go/token"
	"os"
	"strconv"
	"strings"

	"verif/extract/lib"
)

func main() {
	repo := flag.String("repo", "/repo", "")
	out := flag.String("out", "", "")
	flag.Parse()
	o := lib.NewOut("Pickle")
	defer func() {
		if err := o.Write(*out); err != nil {
			fmt.Fprintln(os.Stderr, err)
			os.Exit(1)
		}
	}()
	opf, err1 := lib.Parse(*repo, "pickle/opcodes.go")
	enc, err2 := lib.Parse(*repo, "pickle/encode.go")
	dec, err3 := lib.Parse(*repo, "pickle/decode.go")
	for _, err := range []error{err1, err2, err3} {
		if err != nil {
			o.Fail("parse: %v", err)
			return
		}
	}

	// 1. the opcode table: every `opX = '<char>'` constant, in source order
	var table []string
	for _, d := range opf.AST.Decls {
		gd, ok := d.(*ast.GenDecl)
		if !ok || gd.Tok != token.CONST {
			continue
		}
		for _, s := range gd.Specs {
			vs := s.(*ast.ValueSpec)
			for i, n := range vs.Names {
				if i >= len(vs.Values) {
					o.Fail("constant %s has no value", n.Name)
					continue
				}
				bl, ok := vs.Values[i].(*ast.BasicLit)
				if !ok || bl.Kind != token.CHAR {
					o.Fail("constant %s is not a character literal", n.Name)
					continue
				}
				r, _, _, err := strconv.UnquoteChar(bl.Value[1:len(bl.Value)-1], '\'')
				if err != nil {
					o.Fail("constant %s: %v", n.Name, err)
					continue
				}
				table = append(table, fmt.Sprintf("(%s, %d)", lib.LeanString(n.Name), r))
			}
		}
	}
	o.Def("opcodes", "List (String × Nat)", "["+strings.Join(table, ",\n   ")+"]")

	// 2. the opcodes `decode` has a case for, in source order (and that there is a default arm)
	decode := dec.Func("Decoder.decode")
	if decode == nil {
		o.Fail("func (*Decoder).decode not found")
		return
	}
	var cases []string
	hasDefault := false
	var binint2 *ast.CaseClause
	ast.Inspect(decode.Body, func(n ast.Node) bool {
		cc, ok := n.(*ast.CaseClause)
		if !ok {
			return true
		}
		if cc.List == nil {
			hasDefault = true
		}
		for _, e := range cc.List {
			if id, ok := e.(*ast.Ident); ok && strings.HasPrefix(id.Name, "op") {
				cases = append(cases, lib.LeanString(id.Name))
				if id.Name == "opBININT2" {
					binint2 = cc
				}
			}
		}
		return true
	})
	o.Def("decodeCases", "List String", "["+strings.Join(cases, ", ")+"]")
	o.Def("decodeHasDefault", "Bool", fmt.Sprint(hasDefault))

	// 3. D1: the shift amounts in the BININT2 arm (`int(l) | int(h)<<8`)
	var shifts []int
	if binint2 == nil {
		o.Fail("no case opBININT2 in decode")
	} else {
		for _, s := range binint2.Body {
			ast.Inspect(s, func(n ast.Node) bool {
				if be, ok := n.(*ast.BinaryExpr); ok && be.Op == token.SHL {
					if bl, ok := be.Y.(*ast.BasicLit); ok {
						k, _ := strconv.Atoi(bl.Value)
						shifts = append(shifts, k)
					}
				}
				return true
			})
		}
	}
	o.Def("binint2Shifts", "List Nat", lib.LeanNatList(shifts))

	// 4. the encoder: batch-size literals, integer width thresholds, where it re-encodes the container (D2)
	var batch, widths []int
	var rebatch []string
	for _, name := range []string{"Encoder.encode", "Encoder.encodeComplex", "Encoder.encodeString"} {
		fd := enc.Func(name)
		if fd == nil {
			o.Fail("func %s not found", name)
			continue
		}
		ast.Inspect(fd.Body, func(n ast.Node) bool {
			switch n := n.(type) {
			case *ast.BinaryExpr:
				if bl, ok := n.Y.(*ast.BasicLit); ok && bl.Kind == token.INT {
					k, _ := strconv.Atoi(bl.Value)
					switch n.Op {
					case token.GTR: // `len(batch) > 1000`, `batch > 1000`
						batch = append(batch, k)
					case token.LSS: // `l < 256`, `id < 256`
						widths = append(widths, k)
					}
				}
				if x, ok := n.X.(*ast.BasicLit); ok && n.Op == token.SHL { // `1<<8`, `1<<16`
					if y, ok := n.Y.(*ast.BasicLit); ok {
						a, _ := strconv.Atoi(x.Value)
						b, _ := strconv.Atoi(y.Value)
						widths = append(widths, a<<uint(b))
					}
				}
			case *ast.IfStmt: // `if !first { … }`: what the encoder does before every batch after the first
				if u, ok := n.Cond.(*ast.UnaryExpr); ok && u.Op == token.NOT {
					if id, ok := u.X.(*ast.Ident); ok && id.Name == "first" {
						rebatch = append(rebatch, lib.LeanString(fmt.Sprintf("%s: %d statements", name, len(n.Body.List))))
					}
				}
			}
			return true
		})
	}
	o.Def("batchLiterals", "List Nat", lib.LeanNatList(batch))
	o.Def("widthLiterals", "List Nat", lib.LeanNatList(widths))
	o.Def("rebatchSites", "List String", "["+strings.Join(rebatch, ", ")+"]")
	usesMinMax := 0
	if fd := enc.Func("Encoder.encode"); fd != nil {
		ast.Inspect(fd.Body, func(n ast.Node) bool {
			if se, ok := n.(*ast.SelectorExpr); ok {
				if x, ok := se.X.(*ast.Ident); ok && x.Name == "math" && (se.Sel.Name == "MinInt32" || se.Sel.Name == "MaxInt32") {
					usesMinMax++
				}
			}
			return true
		})
	}
	o.Def("int32Bounds", "Nat", strconv.Itoa(usesMinMax))

	// 5. `type failure error`: an interface type, so recover().(failure) matches every error (incl. runtime.Error)
	failure, shadowed := "", false
	for _, f := range []*lib.File{opf, enc, dec} {
		for _, d := range f.AST.Decls {
			gd, ok := d.(*ast.GenDecl)
			if !ok || gd.Tok != token.TYPE {
				continue
			}
			for _, s := range gd.Specs {
				ts := s.(*ast.TypeSpec)
				if ts.Name.Name == "error" {
					shadowed = true
				}
				if ts.Name.Name == "failure" {
					switch t := ts.Type.(type) {
					case *ast.Ident:
						failure = t.Name
					case *ast.InterfaceType:
						failure = "interface"
					default:
						failure = fmt.Sprintf("%T", t)
					}
				}
			}
		}
	}
	o.Def("failureType", "String", lib.LeanString(failure))
	o.Def("failureIsInterface", "Bool", fmt.Sprint((failure == "error" && !shadowed) || failure == "interface"))

	// 6. normalised bodies of every modelled function
	bodies := []struct {
		f    *lib.File
		name string
		def  string
	}{
		{enc, "writer.Write", "bodyWriterWrite"}, {enc, "Encoder.memoized", "bodyMemoized"}, {enc, "Encoder.memoize", "bodyEncMemoize"},
		{enc, "Encoder.encodeString", "bodyEncodeString"}, {enc, "Encoder.encode", "bodyEncode"},
		{enc, "Encoder.encodeComplex", "bodyEncodeComplex"}, {enc, "Encoder.Encode", "bodyEncodeTop"},
		{dec, "reader.Read", "bodyReaderRead"}, {dec, "Decoder.push", "bodyPush"}, {dec, "Decoder.peek", "bodyPeek"},
		{dec, "Decoder.pop", "bodyPop"}, {dec, "Decoder.memoize", "bodyDecMemoize"}, {dec, "Decoder.get", "bodyGet"},
		{dec, "Decoder.readByte", "bodyReadByte"}, {dec, "Decoder.readUint32", "bodyReadUint32"},
		{dec, "Decoder.readUint64", "bodyReadUint64"}, {dec, "Decoder.decodeString", "bodyDecodeString"},
		{dec, "Decoder.decode", "bodyDecode"}, {dec, "Decoder.Decode", "bodyDecodeTop"},
	}
	// 7. dawn's host unpickler (function.go): the names it switches on, the string keys it writes, that it has no
	// explicit panic (every panic in it is a runtime.Error), and its normalised body
	if fn, err := lib.Parse(*repo, "function.go"); err != nil {
		o.Fail("parse function.go: %v", err)
	} else {
		bytesOf := func(ss []string) string {
			var parts []string
			for _, s := range ss {
				var xs []int
				for _, b := range []byte(s) {
					xs = append(xs, int(b))
				}
				parts = append(parts, lib.LeanNatList(xs))
			}
			return "[" + strings.Join(parts, ",\n   ") + "]"
		}
		var names, keys []string
		panics := 0
		for _, fname := range []string{"envUnpickler", "makeDictFromAssociationList"} {
			fd := fn.Func(fname)
			if fd == nil {
				o.Fail("func %s not found", fname)
				continue
			}
			ast.Inspect(fd.Body, func(n ast.Node) bool {
				switch n := n.(type) {
				case *ast.CaseClause:
					for _, e := range n.List {
						if bl, ok := e.(*ast.BasicLit); ok && bl.Kind == token.STRING {
							if s, ok := lib.Unquote(bl); ok {
								names = append(names, s)
							}
						}
					}
				case *ast.CallExpr:
					if id, ok := n.Fun.(*ast.Ident); ok && id.Name == "panic" {
						panics++
					}
					if se, ok := n.Fun.(*ast.SelectorExpr); ok && se.Sel.Name == "String" && len(n.Args) == 1 {
						if x, ok := se.X.(*ast.Ident); ok && x.Name == "starlark" {
							if bl, ok := n.Args[0].(*ast.BasicLit); ok {
								if s, ok := lib.Unquote(bl); ok {
									keys = append(keys, s)
								}
							}
						}
					}
				}
				return true
			})
			o.Def("body"+strings.ToUpper(fname[:1])+fname[1:], "String", lib.LeanLongString(lib.NormFunc(fd)))
		}
		o.Def("envNames", "List (List Nat)", bytesOf(names))
		o.Def("envStrings", "List (List Nat)", bytesOf(keys))
		o.Def("envExplicitPanics", "Nat", strconv.Itoa(panics))
	}

	// 8. the functions through which a load reads the persisted records (C15, record level)
	for _, x := range []struct{ file, fn, def string }{
		{"project.go", "Project.loadTargetInfo", "bodyLoadTargetInfo"},
		{"project_index.go", "Project.loadIndex", "bodyLoadIndex"},
		{"project.go", "unescapeLabel", "bodyUnescapeLabel"},
		{"project.go", "depStamps.UnmarshalJSON", "bodyDepStampsUnmarshal"},
	} {
		if f, err := lib.Parse(*repo, x.file); err != nil {
			o.Fail("parse %s: %v", x.file, err)
		} else if fd := f.Func(x.fn); fd == nil {
			o.Fail("func %s not found", x.fn)
		} else {
			o.Def(x.def, "String", lib.LeanLongString(lib.NormFunc(fd)))
		}
	}

	for _, b := range bodies {
		fd := b.f.Func(b.name)
		if fd == nil {
			o.Fail("func %s not found", b.name)
			continue
		}
		o.Def(b.def, "String", lib.LeanLongString(lib.NormFunc(fd)))
	}
}

// extractor for the MVS area (C10, C11): regenerates lean/Dawn/Extracted/Mvs.lean from
//   internal/mvs/{reqs,get,query,resolver}.go, internal/project/version.go, project_config.go, cmd/dawn/{get,tidy}.go,
//   go.mod / go.sum (the pinned versions of github.com/pgavlin/mvs and golang.org/x/mod), and — when the module cache
//   is present — the bodies of the third-party algorithms themselves.
package main

import (
	"bufio"
	"flag"
	"fmt"
	"go/ast"
	"go/token"
	"os"
	"path/filepath"
	"strings"

	"verif/extract/lib"
)

type want struct {
	file  string
	funcs []string
}

// functions the build list (C10) depends on
var dawnFuncsC10 = []want{
	{"internal/mvs/reqs.go", []string{"Reqs.Required", "Reqs.Max", "cmpVersion"}},
	{"internal/mvs/get.go", []string{"BuildList"}},
	{"internal/mvs/resolver.go", []string{"Resolver.resolveProject", "Resolver.resolveProjectRevision", "Resolver.FetchProject",
		"versionRequirement", "requirementVersion"}},
	{"internal/project/version.go", []string{"CleanPath", "SplitPathVersion", "TrimPathVersion", "JoinPathVersion"}},
	{"project_config.go", []string{"Project.loadConfigFile"}},
}

// functions only the requirement edits (C11) depend on
var dawnFuncsC11 = []want{
	{"internal/mvs/reqs.go", []string{"Reqs.Upgrade", "Reqs.Previous"}},
	{"internal/mvs/get.go", []string{"transformReqs", "Get", "get", "UpgradeAll", "Tidy"}},
	{"internal/mvs/query.go", []string{"parseVersionQuery", "querier.resolveVersionQuery", "querier.resolveLatestQuery",
		"querier.resolveUpgradeQuery", "querier.resolvePatchQuery", "querier.resolveSemverRangeQuery", "querier.resolveRefQuery", "parseSemverRangeQuery",
		"parseSemverPrefix", "parseSemverGTE", "parseSemverLTE", "majorVersionMatch"}},
	{"internal/mvs/resolver.go", []string{"Resolver.listVersions", "Resolver.findProjectRepository", "taggedVersions"}},
	{"cmd/dawn/get.go", []string{"newGetCommand"}},
}

var thirdFuncsC10 = []want{
	{"mvs.go", []string{"BuildList", "buildList"}},
	{"graph.go", []string{"NewGraph", "Graph.Require", "Graph.Selected", "Graph.BuildList"}},
}

var thirdFuncsC11 = []want{
	{"mvs.go", []string{"Req", "ReqList", "UpgradeAll", "Upgrade", "Downgrade", "override.Required"}},
}

// the version (and go.sum hash) a module is pinned at
func pinned(repo, module string) (version, sum string) {
	f, err := os.Open(filepath.Join(repo, "go.mod"))
	if err == nil {
		sc := bufio.NewScanner(f)
		for sc.Scan() {
			fs := strings.Fields(sc.Text())
			if len(fs) >= 2 && fs[0] == module {
				version = fs[1]
			}
			if len(fs) >= 3 && fs[0] == "require" && fs[1] == module {
				version = fs[2]
			}
		}
		f.Close()
	}
	f, err = os.Open(filepath.Join(repo, "go.sum"))
	if err == nil {
		sc := bufio.NewScanner(f)
		for sc.Scan() {
			fs := strings.Fields(sc.Text())
			if len(fs) == 3 && fs[0] == module && fs[1] == version {
				sum = fs[2]
			}
		}
		f.Close()
	}
	return
}

func modCache() string {
	if d := os.Getenv("GOMODCACHE"); d != "" {
		return d
	}
	if d := os.Getenv("GOPATH"); d != "" {
		return filepath.Join(strings.Split(d, string(os.PathListSeparator))[0], "pkg", "mod")
	}
	h, _ := os.UserHomeDir()
	return filepath.Join(h, "go", "pkg", "mod")
}

// the string literal a local variable is initialised with (`name := "lit"`) inside a function
func initLiteral(fd *ast.FuncDecl, name string) (string, bool) {
	var out string
	found := false
	ast.Inspect(fd.Body, func(n ast.Node) bool {
		as, ok := n.(*ast.AssignStmt)
		if !ok || as.Tok != token.DEFINE || len(as.Lhs) != 1 || len(as.Rhs) != 1 {
			return true
		}
		id, ok := as.Lhs[0].(*ast.Ident)
		if !ok || id.Name != name {
			return true
		}
		if bl, ok := as.Rhs[0].(*ast.BasicLit); ok {
			if s, ok := lib.Unquote(bl); ok && !found {
				out, found = s, true
			}
		}
		return true
	})
	return out, found
}

// every string literal compared (== / !=) with a selector ending in .<field> inside a function, in source order
func comparedWith(fd *ast.FuncDecl, field string) []string {
	var out []string
	ast.Inspect(fd.Body, func(n ast.Node) bool {
		be, ok := n.(*ast.BinaryExpr)
		if !ok || (be.Op != token.EQL && be.Op != token.NEQ) {
			return true
		}
		sel, ok := be.X.(*ast.SelectorExpr)
		if !ok || sel.Sel.Name != field {
			return true
		}
		if bl, ok := be.Y.(*ast.BasicLit); ok {
			if s, ok := lib.Unquote(bl); ok {
				out = append(out, s)
			}
		}
		return true
	})
	return out
}

// the function literal bound to a key of a composite literal assigned to a package-level variable
// (`var tidyCmd = &cobra.Command{ RunE: func… }`), wrapped as a declaration so that NormFunc applies
func varFuncLit(f *lib.File, varName, key string) *ast.FuncDecl {
	var out *ast.FuncDecl
	for _, d := range f.AST.Decls {
		gd, ok := d.(*ast.GenDecl)
		if !ok || gd.Tok != token.VAR {
			continue
		}
		for _, sp := range gd.Specs {
			vs, ok := sp.(*ast.ValueSpec)
			if !ok || len(vs.Names) != 1 || vs.Names[0].Name != varName {
				continue
			}
			ast.Inspect(vs, func(n ast.Node) bool {
				kv, ok := n.(*ast.KeyValueExpr)
				if !ok {
					return true
				}
				if id, ok := kv.Key.(*ast.Ident); ok && id.Name == key {
					if fl, ok := kv.Value.(*ast.FuncLit); ok && out == nil {
						out = &ast.FuncDecl{Name: ast.NewIdent(varName + "." + key), Type: fl.Type, Body: fl.Body}
					}
				}
				return true
			})
		}
	}
	return out
}

func leanPairs(names, bodies []string) string {
	var parts []string
	for i := range names {
		parts = append(parts, "("+lib.LeanString(names[i])+",\n    "+lib.LeanLongString(bodies[i])+")")
	}
	return "[" + strings.Join(parts, ",\n   ") + "]"
}

func main() {
	repo := flag.String("repo", "/repo", "")
	out := flag.String("out", "", "")
	flag.Parse()
	o := lib.NewOut("Mvs")
	defer func() {
		if err := o.Write(*out); err != nil {
			fmt.Fprintln(os.Stderr, err)
			os.Exit(1)
		}
	}()

	// 1. normalised bodies of every modelled function of dawn
	files := map[string]*lib.File{}
	// what cannot be found among the C11-only facts is reported apart, so that it does not un-discharge C10
	var errsC11 []string
	failC11 := false
	fail := func(format string, a ...any) {
		if failC11 {
			errsC11 = append(errsC11, lib.LeanString(fmt.Sprintf(format, a...)))
		} else {
			o.Fail(format, a...)
		}
	}
	collect := func(dir, prefix string, ws []want) (names, bodies []string, fds []*ast.FuncDecl) {
		for _, w := range ws {
			f := files[dir+"/"+w.file]
			if f == nil {
				var err error
				f, err = lib.Parse(dir, w.file)
				if err != nil {
					fail("parse %s%s: %v", prefix, w.file, err)
					continue
				}
				files[dir+"/"+w.file] = f
			}
			for _, fn := range w.funcs {
				fd := f.Func(fn)
				if fd == nil {
					fail("%s%s: func %s not found", prefix, w.file, fn)
					continue
				}
				names = append(names, prefix+w.file+":"+fn)
				bodies = append(bodies, lib.NormFunc(fd))
				fds = append(fds, fd)
			}
		}
		return
	}
	n10, b10, _ := collect(*repo, "", dawnFuncsC10)
	o.Def("bodiesC10", "List (String × String)", leanPairs(n10, b10))
	failC11 = true
	n11, b11, _ := collect(*repo, "", dawnFuncsC11)
	failC11 = false
	if f, err := lib.Parse(*repo, "cmd/dawn/tidy.go"); err != nil {
		o.Fail("parse cmd/dawn/tidy.go: %v", err)
	} else if fd := varFuncLit(f, "tidyCmd", "RunE"); fd == nil {
		o.Fail("cmd/dawn/tidy.go: tidyCmd.RunE not found")
	} else {
		n11 = append(n11, "cmd/dawn/tidy.go:tidyCmd.RunE")
		b11 = append(b11, lib.NormFunc(fd))
	}
	o.Def("bodiesC11", "List (String × String)", leanPairs(n11, b11))

	// 1b. who reads the repository's raw tag list: the model's tag list holds canonical versions only, which is right as
	// long as every choice among tags goes through taggedVersions (the revision lookup matches a canonical requirement
	// exactly, so it may read the raw list)
	var rawTagReaders []string
	for _, rel := range []string{"internal/mvs/get.go", "internal/mvs/query.go", "internal/mvs/reqs.go", "internal/mvs/resolver.go"} {
		f, err := lib.Parse(*repo, rel)
		if err != nil {
			o.Fail("parse %s: %v", rel, err)
			continue
		}
		for _, d := range f.AST.Decls {
			fd, ok := d.(*ast.FuncDecl)
			if !ok || fd.Body == nil {
				continue
			}
			calls := false
			ast.Inspect(fd.Body, func(n ast.Node) bool {
				if ce, ok := n.(*ast.CallExpr); ok {
					if sel, ok := ce.Fun.(*ast.SelectorExpr); ok && sel.Sel.Name == "Versions" {
						calls = true
					}
				}
				return true
			})
			if calls {
				rawTagReaders = append(rawTagReaders, lib.LeanString(rel+":"+fd.Name.Name))
			}
		}
	}
	o.Def("rawTagReaders", "List String", "["+strings.Join(rawTagReaders, ", ")+"]")

	// 2. the sentinel version strings
	if f := files[*repo+"/internal/mvs/reqs.go"]; f != nil {
		if fd := f.Func("Reqs.Previous"); fd != nil {
			if s, ok := initLiteral(fd, "selected"); ok {
				o.Def("previousStart", "String", lib.LeanString(s))
			} else {
				o.Fail("Reqs.Previous: `selected := <string literal>` not found")
			}
		}
		if fd := f.Func("Reqs.Required"); fd != nil {
			ss := comparedWith(fd, "Path")
			if len(ss) == 1 {
				o.Def("rootPath", "String", lib.LeanString(ss[0]))
			} else {
				o.Fail("Reqs.Required: expected one comparison of p.Path with a literal, found %d", len(ss))
			}
		}
	}

	// 3. the pinned third-party modules
	mv, ms := pinned(*repo, "github.com/pgavlin/mvs")
	if mv == "" || ms == "" {
		o.Fail("github.com/pgavlin/mvs is not pinned by go.mod/go.sum")
	}
	o.Def("mvsModule", "String × String", "("+lib.LeanString(mv)+", "+lib.LeanString(ms)+")")
	xv, xs := pinned(*repo, "golang.org/x/mod")
	if xv == "" || xs == "" {
		o.Fail("golang.org/x/mod is not pinned by go.mod/go.sum")
	}
	o.Def("xmodModule", "String × String", "("+lib.LeanString(xv)+", "+lib.LeanString(xs)+")")

	// 4. the third-party algorithms themselves, from the module cache (fixed by the hash above)
	var nones []string
	dir := filepath.Join(modCache(), "github.com", "pgavlin", "mvs@"+mv)
	t10, tb10, fd10 := collect(dir, "pgavlin/mvs/", thirdFuncsC10)
	o.Def("thirdBodiesC10", "List (String × String)", leanPairs(t10, tb10))
	failC11 = true
	t11, tb11, fd11 := collect(dir, "pgavlin/mvs/", thirdFuncsC11)
	failC11 = false
	o.Def("thirdBodiesC11", "List (String × String)", leanPairs(t11, tb11))
	for _, fd := range append(fd10, fd11...) {
		for _, s := range comparedWith(fd, "Version") {
			nones = append(nones, lib.LeanString(s))
		}
	}
	// every literal a module version is compared with in those functions (the "none" sentinel)
	o.Def("thirdVersionSentinels", "List String", "["+strings.Join(nones, ", ")+"]")
	o.Def("extractionErrorsC11", "List String", "["+strings.Join(errsC11, ", ")+"]")
}

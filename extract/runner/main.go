// extractor for runner/runner.go (C04, C05, C09): regenerates lean/Dawn/Extracted/Runner.lean
//
// Facts:
//   skel_<func>   synchronisation skeleton of every function of runner.go (lib.NormFuncKeep): the control-flow
//                 tree restricted to statements that touch a mutex, a condition variable, an atomic, the
//                 WaitGroup, the gate, a status/err/waiting/target field, spawn a goroutine, call another runner
//                 function or the client (LoadTarget/Evaluate), return/branch, or are verifPoint call sites
//   evalOrder     the order of the synchronisation operations at the top level of EvaluateTargets
//   runOrder      the same for (*target).run
//   waitLoops     for every Wait() call: function, receiver field, innermost enclosing for/if
//   gateArg       the argument of newGate(...) in Run
//   statusConsts  the status constants in iota order
//   clientCalls   how the real client uses the runner: runTarget.Evaluate (target.go) calls EvaluateTargets once, with
//                 its dependency list, and fails on any result error; Project.Run (project.go) calls runner.Run once
package main

import (
	"flag"
	"fmt"
	"go/ast"
	"go/token"
	"os"
	"strings"

	"verif/extract/lib"
)

var funcs = []string{"newTarget", "target.start", "target.wait", "target.run", "engine.check", "engine.checkDeps",
	"engine.EvaluateTargets", "newGate", "gate.enter", "gate.exit", "runner.getTarget", "Run"}

// identifiers whose presence makes a statement part of the skeleton
var relevant = map[string]bool{
	"Lock": true, "Unlock": true, "Wait": true, "Broadcast": true, "Signal": true, "NewCond": true,
	"Load": true, "Swap": true, "Store": true, "CompareAndSwap": true, "LoadOrStore": true,
	"Add": true, "Done": true, "running": true,
	"capacity": true, "status": true, "err": true, "waiting": true, "target": true, "gate": true, "cond": true,
	"statusIdle": true, "statusRunning": true, "statusSucceeded": true, "statusFailed": true,
	"enter": true, "exit": true, "start": true, "wait": true, "run": true, "check": true, "checkDeps": true,
	"getTarget": true, "newGate": true, "newTarget": true, "LoadTarget": true, "Evaluate": true,
	"verifPoint": true, "NumCPU": true, "unlock": true, "root": true,
}

func touches(n ast.Node) bool {
	found := false
	ast.Inspect(n, func(x ast.Node) bool {
		if found {
			return false
		}
		switch x := x.(type) {
		case *ast.FuncLit:
			// a closure's body is judged statement by statement when it is printed
			return true
		case *ast.Ident:
			if relevant[x.Name] {
				found = true
			}
		}
		return true
	})
	return found
}

func keep(s ast.Stmt) bool {
	switch s := s.(type) {
	case *ast.ReturnStmt, *ast.BranchStmt, *ast.GoStmt, *ast.DeferStmt:
		return true
	case *ast.IfStmt:
		return touches(s.Cond)
	case *ast.ForStmt:
		return s.Cond != nil && touches(s.Cond)
	case *ast.RangeStmt:
		return false
	default:
		return touches(s)
	}
}

// ops lists, in source order, the synchronisation operations a node performs
func ops(root ast.Node) []string {
	var out []string
	ast.Inspect(root, func(x ast.Node) bool {
		switch x := x.(type) {
		case *ast.AssignStmt:
			if touchesField(x, "status") {
				// evaluated after its right-hand side; none of the right-hand sides here has operations
				out = append(out, "status=")
			}
		case *ast.CallExpr:
			sel, ok := x.Fun.(*ast.SelectorExpr)
			if !ok {
				if id, ok := x.Fun.(*ast.Ident); ok && id.Name == "unlock" {
					out = append(out, "unlock")
				}
				return true
			}
			recv := ""
			if rs, ok := sel.X.(*ast.SelectorExpr); ok {
				recv = rs.Sel.Name
			}
			switch sel.Sel.Name {
			case "enter", "exit":
				out = append(out, "gate."+sel.Sel.Name)
			case "Swap", "Store":
				m := "Swap"
				if len(x.Args) == 1 {
					if id, ok := x.Args[0].(*ast.Ident); ok && id.Name == "nil" {
						m = "Swap(nil)"
					}
				}
				out = append(out, m)
			case "start", "checkDeps", "wait", "LoadTarget", "Evaluate", "Lock", "Unlock", "Broadcast", "Signal", "getTarget", "Load":
				out = append(out, sel.Sel.Name)
			case "Done", "Wait", "Add":
				out = append(out, recv+"."+sel.Sel.Name)
			}
		}
		return true
	})
	return out
}

// order: one entry per top-level statement that performs operations
func order(fd *ast.FuncDecl) []string {
	var out []string
	for _, s := range fd.Body.List {
		if touchesOnlyHook(s) { // hook call sites are not operations of the runner
			continue
		}
		o := ops(s)
		if len(o) == 0 {
			continue
		}
		j := strings.Join(o, ",")
		switch s.(type) {
		case *ast.DeferStmt:
			out = append(out, "defer("+j+")")
		case *ast.RangeStmt:
			out = append(out, "range("+j+")")
		case *ast.ForStmt:
			out = append(out, "for("+j+")")
		case *ast.IfStmt:
			out = append(out, "if("+j+")")
		default:
			if as, ok := s.(*ast.AssignStmt); ok && len(as.Rhs) == 1 {
				if _, ok := as.Rhs[0].(*ast.FuncLit); ok {
					out = append(out, "func("+j+")")
					continue
				}
			}
			out = append(out, j)
		}
	}
	return out
}

func touchesOnlyHook(s ast.Stmt) bool {
	var call *ast.CallExpr
	switch s := s.(type) {
	case *ast.ExprStmt:
		call, _ = s.X.(*ast.CallExpr)
	case *ast.DeferStmt:
		call = s.Call
	}
	if call == nil {
		return false
	}
	id, ok := call.Fun.(*ast.Ident)
	return ok && id.Name == "verifPoint"
}

func touchesField(as *ast.AssignStmt, name string) bool {
	for _, l := range as.Lhs {
		if sel, ok := l.(*ast.SelectorExpr); ok && sel.Sel.Name == name {
			return true
		}
	}
	return false
}

func leanList(xs []string) string {
	qs := make([]string, len(xs))
	for i, x := range xs {
		qs[i] = lib.LeanString(x)
	}
	return "[" + strings.Join(qs, ", ") + "]"
}

func main() {
	repo := flag.String("repo", "/repo", "")
	out := flag.String("out", "", "")
	flag.Parse()
	o := lib.NewOut("Runner")
	defer func() {
		if err := o.Write(*out); err != nil {
			fmt.Fprintln(os.Stderr, err)
			os.Exit(1)
		}
	}()
	f, err := lib.Parse(*repo, "runner/runner.go")
	if err != nil {
		o.Fail("parse runner/runner.go: %v", err)
		return
	}
	// 1. skeletons
	for _, name := range funcs {
		fd := f.Func(name)
		def := "skel_" + strings.ReplaceAll(name, ".", "_")
		if fd == nil || fd.Body == nil {
			o.Fail("func %s not found", name)
			o.Def(def, "String", `""`)
			continue
		}
		o.Def(def, "String", lib.LeanLongString(lib.NormFuncKeep(fd, keep)))
	}
	// functions of runner.go the model does not know about (a new function may add synchronisation)
	var extra []string
	known := map[string]bool{"CyclicDependencyError.Error": true}
	for _, n := range funcs {
		known[n] = true
	}
	for _, d := range f.AST.Decls {
		if fd, ok := d.(*ast.FuncDecl); ok {
			n := fd.Name.Name
			if fd.Recv != nil && len(fd.Recv.List) == 1 {
				t := fd.Recv.List[0].Type
				if s, ok := t.(*ast.StarExpr); ok {
					t = s.X
				}
				if id, ok := t.(*ast.Ident); ok {
					n = id.Name + "." + n
				}
			}
			if !known[n] {
				extra = append(extra, n)
			}
		}
	}
	o.Def("otherFuncs", "List String", leanList(extra))

	// 2. order facts
	if fd := f.Func("engine.EvaluateTargets"); fd != nil {
		o.Def("evalOrder", "List String", leanList(order(fd)))
	} else {
		o.Def("evalOrder", "List String", "[]")
	}
	if fd := f.Func("target.run"); fd != nil {
		o.Def("runOrder", "List String", leanList(order(fd)))
	} else {
		o.Def("runOrder", "List String", "[]")
	}
	if fd := f.Func("Run"); fd != nil {
		o.Def("mainOrder", "List String", leanList(order(fd)))
	} else {
		o.Def("mainOrder", "List String", "[]")
	}

	// 3. every Wait() call and the innermost compound statement around it
	var waits []string
	for _, name := range funcs {
		fd := f.Func(name)
		if fd == nil || fd.Body == nil {
			continue
		}
		var stack []ast.Node
		ast.Inspect(fd.Body, func(x ast.Node) bool {
			if x == nil {
				stack = stack[:len(stack)-1]
				return true
			}
			stack = append(stack, x)
			call, ok := x.(*ast.CallExpr)
			if !ok {
				return true
			}
			sel, ok := call.Fun.(*ast.SelectorExpr)
			if !ok || sel.Sel.Name != "Wait" {
				return true
			}
			recv := "?"
			if rs, ok := sel.X.(*ast.SelectorExpr); ok {
				recv = rs.Sel.Name
			}
			encl := "none"
			for i := len(stack) - 1; i >= 0; i-- {
				switch stack[i].(type) {
				case *ast.ForStmt:
					encl = "for"
				case *ast.IfStmt:
					encl = "if"
				case *ast.RangeStmt:
					encl = "range"
				default:
					continue
				}
				break
			}
			cond := ""
			for i := len(stack) - 1; i >= 0; i-- {
				if fs, ok := stack[i].(*ast.ForStmt); ok && fs.Cond != nil {
					if be, ok := fs.Cond.(*ast.BinaryExpr); ok {
						l, r := "", ""
						if s, ok := be.X.(*ast.SelectorExpr); ok {
							l = s.Sel.Name
						}
						switch y := be.Y.(type) {
						case *ast.Ident:
							r = y.Name
						case *ast.BasicLit:
							r = y.Value
						}
						cond = l + be.Op.String() + r
					}
					break
				}
			}
			waits = append(waits, name+":"+recv+":"+encl+":"+cond)
			return true
		})
	}
	o.Def("waitLoops", "List String", leanList(waits))

	// 4. newGate(runtime.NumCPU())
	gateArg := ""
	if fd := f.Func("Run"); fd != nil {
		ast.Inspect(fd.Body, func(x ast.Node) bool {
			if call, ok := x.(*ast.CallExpr); ok {
				if id, ok := call.Fun.(*ast.Ident); ok && id.Name == "newGate" && len(call.Args) == 1 {
					if c, ok := call.Args[0].(*ast.CallExpr); ok {
						if s, ok := c.Fun.(*ast.SelectorExpr); ok {
							if p, ok := s.X.(*ast.Ident); ok {
								gateArg = p.Name + "." + s.Sel.Name + "()"
							}
						}
					} else if bl, ok := call.Args[0].(*ast.BasicLit); ok {
						gateArg = bl.Value
					} else if id, ok := call.Args[0].(*ast.Ident); ok {
						gateArg = id.Name
					}
				}
			}
			return true
		})
	}
	if gateArg == "" {
		o.Fail("newGate(...) call in Run not found")
	}
	o.Def("gateArg", "String", lib.LeanString(gateArg))

	// 5. status constants in iota order
	var consts []string
	for _, d := range f.AST.Decls {
		gd, ok := d.(*ast.GenDecl)
		if !ok || gd.Tok != token.CONST {
			continue
		}
		for _, sp := range gd.Specs {
			vs := sp.(*ast.ValueSpec)
			for _, id := range vs.Names {
				if strings.HasPrefix(id.Name, "status") {
					v := ""
					if len(vs.Values) > 0 {
						if id2, ok := vs.Values[0].(*ast.Ident); ok {
							v = "=" + id2.Name
						} else {
							v = "=?"
						}
					}
					consts = append(consts, id.Name+v)
				}
			}
		}
	}
	o.Def("statusConsts", "List String", leanList(consts))

	// 6. the client's use of the runner
	var client []string
	countCalls := func(rel, fn, sel string) {
		cf, err := lib.Parse(*repo, rel)
		if err != nil {
			o.Fail("parse %s: %v", rel, err)
			return
		}
		fd := cf.Func(fn)
		if fd == nil || fd.Body == nil {
			o.Fail("func %s not found in %s", fn, rel)
			return
		}
		n, inLoop, variadic := 0, false, false
		var stack []ast.Node
		ast.Inspect(fd.Body, func(x ast.Node) bool {
			if x == nil {
				stack = stack[:len(stack)-1]
				return true
			}
			stack = append(stack, x)
			if call, ok := x.(*ast.CallExpr); ok {
				if se, ok := call.Fun.(*ast.SelectorExpr); ok && se.Sel.Name == sel {
					n++
					variadic = call.Ellipsis.IsValid()
					for _, a := range stack[:len(stack)-1] {
						switch l := a.(type) {
						case *ast.ForStmt:
							inLoop = true
						case *ast.RangeStmt:
							// `for … := range engine.EvaluateTargets(deps...)` evaluates the call once
							if l.X != x {
								inLoop = true
							}
						}
					}
				}
			}
			return true
		})
		client = append(client, fmt.Sprintf("%s:%s:%s:calls=%d:inLoop=%v:variadic=%v", rel, fn, sel, n, inLoop, variadic))
	}
	countCalls("target.go", "runTarget.Evaluate", "EvaluateTargets")
	countCalls("project.go", "Project.Run", "Run")
	o.Def("clientCalls", "List String", leanList(client))
	depRecording(o, *repo)
	// how Project.Run invokes the runner: function and arguments (the limit must stay the runner's own, NumCPU)
	if cf, err := lib.Parse(*repo, "project.go"); err == nil {
		if fd := cf.Func("Project.Run"); fd != nil && fd.Body != nil {
			o.Def("skel_Project_Run", "String", lib.LeanLongString(lib.NormFuncKeep(fd, func(s ast.Stmt) bool {
				switch s.(type) {
				case *ast.IfStmt, *ast.ForStmt, *ast.RangeStmt, *ast.SwitchStmt, *ast.BlockStmt:
					return false
				}
				return mentions(s, "runner")
			})))
		} else {
			o.Fail("Project.Run not found")
			o.Def("skel_Project_Run", "String", `""`)
		}
	} else {
		o.Fail("parse project.go: %v", err)
		o.Def("skel_Project_Run", "String", `""`)
	}
	// every exported entry point of package runner that starts a build
	var entry []string
	for _, d := range f.AST.Decls {
		if fd, ok := d.(*ast.FuncDecl); ok && fd.Recv == nil && fd.Name.IsExported() {
			entry = append(entry, fd.Name.Name)
		}
	}
	o.Def("runnerEntryPoints", "List String", leanList(entry))
	// the dependency-error branch of runTarget.Evaluate: any result error fails the target
	if cf, err := lib.Parse(*repo, "target.go"); err == nil {
		if fd := cf.Func("runTarget.Evaluate"); fd != nil {
			// only the loop over the results: `for i, dep := range engine.EvaluateTargets(deps...) { if dep.Error != nil { … return … } … }`
			var loop ast.Stmt
			for _, st := range fd.Body.List {
				if rs, ok := st.(*ast.RangeStmt); ok && mentions(rs.X, "EvaluateTargets") {
					loop = rs
				}
			}
			if loop == nil {
				o.Fail("runTarget.Evaluate: no `range engine.EvaluateTargets(...)` loop at top level")
				o.Def("skel_client_Evaluate", "String", `""`)
			} else {
				frag := &ast.FuncDecl{Name: fd.Name, Type: &ast.FuncType{}, Body: &ast.BlockStmt{List: []ast.Stmt{loop}}}
				o.Def("skel_client_Evaluate", "String", lib.LeanLongString(lib.NormFuncKeep(frag, func(s ast.Stmt) bool {
					switch s := s.(type) {
					case *ast.IfStmt:
						return mentions(s.Cond, "Error")
					case *ast.ReturnStmt, *ast.BranchStmt:
						return true
					}
					return false
				})))
			}
		}
	}
}

// the `for it.Next(&dep)` loop of builtin_target, restricted to what decides the string under which a dependency
// is recorded (the runner keys its one-record-per-label map by that string)
func depRecording(o *lib.Out, repo string) {
	cf, err := lib.Parse(repo, "project_builtins.go")
	if err != nil {
		o.Fail("parse project_builtins.go: %v", err)
		o.Def("skel_builtin_target_deps", "String", `""`)
		return
	}
	fd := cf.Func("Project.builtin_target")
	var loop ast.Stmt
	if fd != nil && fd.Body != nil {
		ast.Inspect(fd.Body, func(x ast.Node) bool {
			if fs, ok := x.(*ast.ForStmt); ok && loop == nil && fs.Cond != nil && mentions(fs.Cond, "Next") && mentions(fs.Body, "dependencies") {
				loop = fs
			}
			return loop == nil
		})
	}
	if loop == nil {
		o.Fail("builtin_target: dependency loop not found")
		o.Def("skel_builtin_target_deps", "String", `""`)
		return
	}
	frag := &ast.FuncDecl{Name: fd.Name, Type: &ast.FuncType{}, Body: &ast.BlockStmt{List: []ast.Stmt{loop}}}
	o.Def("skel_builtin_target_deps", "String", lib.LeanLongString(lib.NormFuncKeep(frag, func(s ast.Stmt) bool {
		switch s := s.(type) {
		case *ast.AssignStmt, *ast.DeclStmt:
			return mentions(s, "deplabel") || mentions(s, "dependencies") || mentions(s, "RelativeTo") || mentions(s, "Parse")
		case *ast.IfStmt:
			return mentions(s.Cond, "IsAbs") || mentions(s.Cond, "deplabel")
		case *ast.ForStmt:
			return true
		}
		return false
	})))
}

func mentions(n ast.Node, name string) bool {
	found := false
	ast.Inspect(n, func(x ast.Node) bool {
		if id, ok := x.(*ast.Ident); ok && id.Name == name {
			found = true
		}
		return !found
	})
	return found
}

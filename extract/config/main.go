// extractor for internal/project/{config.go,version.go} and the parts of go-toml v2's encoder that
// WriteConfigFile relies on (C19): regenerates lean/Dawn/Extracted/Config.lean
package main

import (
	"flag"
	"fmt"
	"go/ast"
	"go/token"
	"os"
	"path/filepath"
	"regexp"
	"sort"
	"strconv"
	"strings"

	"verif/extract/lib"
)

func isErrorCtor(n ast.Node) bool {
	c, ok := n.(*ast.CallExpr)
	if !ok {
		return false
	}
	sel, ok := c.Fun.(*ast.SelectorExpr)
	if !ok {
		return false
	}
	x, ok := sel.X.(*ast.Ident)
	return ok && (x.Name == "errors" && sel.Sel.Name == "New" || x.Name == "fmt" && sel.Sel.Name == "Errorf")
}

var msgRe = regexp.MustCompile(`\(call \(\. (errors New|fmt Errorf)\) "(?:[^"\\]|\\.)*"`)

func normBody(fd *ast.FuncDecl) string {
	return msgRe.ReplaceAllString(lib.NormFunc(fd), "(call (. $1) _")
}

// literals: unquoted string literals (as byte lists), code points of char literals, int literals, in source order;
// error messages are skipped
func literals(fd *ast.FuncDecl) (strs [][]int, chars []int, ints []int) {
	ast.Inspect(fd.Body, func(n ast.Node) bool {
		if isErrorCtor(n) {
			return false
		}
		bl, ok := n.(*ast.BasicLit)
		if !ok {
			return true
		}
		switch bl.Kind {
		case token.STRING:
			if s, ok := lib.Unquote(bl); ok {
				var bs []int
				for _, b := range []byte(s) {
					bs = append(bs, int(b))
				}
				strs = append(strs, bs)
			}
		case token.CHAR:
			if s, ok := lib.Unquote(bl); ok {
				chars = append(chars, int([]rune(s)[0]))
			}
		case token.INT:
			if v, err := strconv.ParseInt(bl.Value, 0, 64); err == nil {
				ints = append(ints, int(v))
			}
		}
		return true
	})
	return
}

func natLists(xs [][]int) string {
	parts := make([]string, len(xs))
	for i, x := range xs {
		parts[i] = lib.LeanNatList(x)
	}
	return "[" + strings.Join(parts, ",\n   ") + "]"
}

type want struct{ file, fn, name string }

func extract(o *lib.Out, root string, wants []want) {
	files := map[string]*lib.File{}
	for _, w := range wants {
		f, ok := files[w.file]
		if !ok {
			var err error
			f, err = lib.Parse(root, w.file)
			if err != nil {
				o.Fail("parse %s: %v", w.file, err)
				files[w.file] = nil
				continue
			}
			files[w.file] = f
		}
		if f == nil {
			continue
		}
		fd := f.Func(w.fn)
		if fd == nil || fd.Body == nil {
			o.Fail("func %s not found in %s", w.fn, w.file)
			continue
		}
		strs, chars, ints := literals(fd)
		o.Def(w.name+"Strings", "List (List Nat)", natLists(strs))
		o.Def(w.name+"Chars", "List Nat", lib.LeanNatList(chars))
		o.Def(w.name+"Ints", "List Nat", lib.LeanNatList(ints))
		o.Def(w.name+"Body", "String", lib.LeanLongString(normBody(fd)))
	}
}

// runE finds the function literal bound to the key RunE of a cobra.Command literal in a file and wraps it as a
// declaration, so that lib.NormFunc can print it.
func runE(f *lib.File) *ast.FuncDecl {
	var lit *ast.FuncLit
	ast.Inspect(f.AST, func(n ast.Node) bool {
		kv, ok := n.(*ast.KeyValueExpr)
		if !ok || lit != nil {
			return lit == nil
		}
		if id, ok := kv.Key.(*ast.Ident); ok && id.Name == "RunE" {
			if fl, ok := kv.Value.(*ast.FuncLit); ok {
				lit = fl
			}
		}
		return lit == nil
	})
	if lit == nil {
		return nil
	}
	return &ast.FuncDecl{Name: ast.NewIdent("RunE"), Type: lit.Type, Body: lit.Body}
}

// rewriteShape: how a command's RunE treats the configuration between LoadConfigFile and WriteConfigFile.
// loaded: the variable bound by `x, err := project.LoadConfigFile(…)`; fields: the fields of that variable that are
// assigned (in source order); whole: the variable is assigned as a whole somewhere else; written: WriteConfigFile's
// second argument is that variable.
func rewriteShape(fd *ast.FuncDecl) (fields []string, whole bool, written bool, found bool) {
	loaded := ""
	isCall := func(e ast.Expr, name string) *ast.CallExpr {
		c, ok := e.(*ast.CallExpr)
		if !ok {
			return nil
		}
		if sel, ok := c.Fun.(*ast.SelectorExpr); ok && sel.Sel.Name == name {
			return c
		}
		return nil
	}
	ast.Inspect(fd.Body, func(n ast.Node) bool {
		switch n := n.(type) {
		case *ast.AssignStmt:
			if len(n.Rhs) == 1 && isCall(n.Rhs[0], "LoadConfigFile") != nil && len(n.Lhs) >= 1 {
				if id, ok := n.Lhs[0].(*ast.Ident); ok && loaded == "" {
					loaded, found = id.Name, true
					return true
				}
			}
			for _, l := range n.Lhs {
				switch l := l.(type) {
				case *ast.Ident:
					if loaded != "" && l.Name == loaded {
						whole = true
					}
				case *ast.SelectorExpr:
					if id, ok := l.X.(*ast.Ident); ok && loaded != "" && id.Name == loaded {
						fields = append(fields, l.Sel.Name)
					}
				}
			}
		case *ast.CallExpr:
			if c := isCall(n, "WriteConfigFile"); c != nil && len(c.Args) == 2 {
				if id, ok := c.Args[1].(*ast.Ident); ok && id.Name == loaded {
					written = true
				}
			}
		}
		return true
	})
	return
}

// required version of a module in go.mod
func required(repo, mod string) string {
	b, err := os.ReadFile(filepath.Join(repo, "go.mod"))
	if err != nil {
		return ""
	}
	for _, l := range strings.Split(string(b), "\n") {
		f := strings.Fields(l)
		for i := 0; i+1 < len(f); i++ {
			if f[i] == mod {
				return f[i+1]
			}
		}
	}
	return ""
}

func modCache() string {
	if d := os.Getenv("GOMODCACHE"); d != "" {
		return d
	}
	if d := os.Getenv("GOPATH"); d != "" {
		return filepath.Join(strings.Split(d, string(os.PathListSeparator))[0], "pkg", "mod")
	}
	h, _ := os.UserHomeDir()
	return filepath.Join(h, "go", "pkg", "mod")
}

func main() {
	repo := flag.String("repo", "/repo", "")
	out := flag.String("out", "", "")
	flag.Parse()
	o := lib.NewOut("Config")
	defer func() {
		if err := o.Write(*out); err != nil {
			fmt.Fprintln(os.Stderr, err)
			os.Exit(1)
		}
	}()
	extract(o, *repo, []want{
		{"internal/project/config.go", "LoadConfigBytes", "load"},
		{"internal/project/config.go", "WriteConfigFile", "write"},
		{"internal/project/config.go", "encodeValue", "encodeValue"},
		{"internal/project/config.go", "isPlainRune", "isPlainRune"},
		{"internal/project/version.go", "CleanPath", "cleanPath"},
		{"internal/project/version.go", "SplitPathVersion", "splitPathVersion"},
		{"internal/project/version.go", "JoinPathVersion", "joinPathVersion"},
	})
	// how LoadConfigFile gets the bytes it hands to LoadConfigBytes: the call on the right-hand side of the assignment
	// that binds LoadConfigBytes' argument (os.ReadFile reads the whole file; a bounded reader would not)
	if f, err := lib.Parse(*repo, "internal/project/config.go"); err == nil {
		if fd := f.Func("LoadConfigFile"); fd == nil || fd.Body == nil {
			o.Fail("func LoadConfigFile not found")
		} else {
			arg := ""
			ast.Inspect(fd.Body, func(n ast.Node) bool {
				if c, ok := n.(*ast.CallExpr); ok {
					if id, ok := c.Fun.(*ast.Ident); ok && id.Name == "LoadConfigBytes" && len(c.Args) == 1 {
						if a, ok := c.Args[0].(*ast.Ident); ok {
							arg = a.Name
						}
					}
				}
				return true
			})
			var calls []string
			ast.Inspect(fd.Body, func(n ast.Node) bool {
				as, ok := n.(*ast.AssignStmt)
				if !ok || len(as.Lhs) == 0 || len(as.Rhs) != 1 {
					return true
				}
				if id, ok := as.Lhs[0].(*ast.Ident); ok && id.Name == arg && arg != "" {
					if c, ok := as.Rhs[0].(*ast.CallExpr); ok {
						switch fn := c.Fun.(type) {
						case *ast.SelectorExpr:
							if x, ok := fn.X.(*ast.Ident); ok {
								calls = append(calls, x.Name+"."+fn.Sel.Name)
							} else {
								calls = append(calls, "?."+fn.Sel.Name)
							}
						case *ast.Ident:
							calls = append(calls, fn.Name)
						default:
							calls = append(calls, "?")
						}
					} else {
						calls = append(calls, "?")
					}
				}
				return true
			})
			q := make([]string, len(calls))
			for i, t := range calls {
				q[i] = lib.LeanString(t)
			}
			o.Def("loadConfigFileReadCalls", "List String", "["+strings.Join(q, ", ")+"]")
			o.Def("loadConfigFileBody", "String", lib.LeanLongString(normBody(fd)))
		}
	}

	// the struct tags of Config / RequirementConfig: the TOML keys
	if f, err := lib.Parse(*repo, "internal/project/config.go"); err == nil {
		var tags []string
		ast.Inspect(f.AST, func(n ast.Node) bool {
			if fl, ok := n.(*ast.Field); ok && fl.Tag != nil {
				if s, err := strconv.Unquote(fl.Tag.Value); err == nil {
					for _, nm := range fl.Names {
						tags = append(tags, nm.Name+" "+s)
					}
				}
			}
			return true
		})
		q := make([]string, len(tags))
		for i, t := range tags {
			q[i] = lib.LeanString(t)
		}
		o.Def("structTags", "List String", "["+strings.Join(q, ", ")+"]")
	}

	// the command layer: what `dawn get` and `dawn tidy` do between LoadConfigFile and WriteConfigFile
	for _, w := range []struct{ file, name string }{{"cmd/dawn/get.go", "get"}, {"cmd/dawn/tidy.go", "tidy"}} {
		f, err := lib.Parse(*repo, w.file)
		if err != nil {
			o.Fail("parse %s: %v", w.file, err)
			continue
		}
		fd := runE(f)
		if fd == nil {
			o.Fail("RunE literal not found in %s", w.file)
			continue
		}
		fields, whole, written, found := rewriteShape(fd)
		if !found {
			o.Fail("%s: no `x, err := project.LoadConfigFile(…)`", w.file)
		}
		q := make([]string, len(fields))
		for i, t := range fields {
			q[i] = lib.LeanString(t)
		}
		o.Def(w.name+"AssignedFields", "List String", "["+strings.Join(q, ", ")+"]")
		o.Def(w.name+"ReassignsConfig", "Bool", fmt.Sprint(whole))
		o.Def(w.name+"WritesLoadedConfig", "Bool", fmt.Sprint(written))
		o.Def(w.name+"RunBody", "String", lib.LeanLongString(normBody(fd)))
	}

	// go-toml v2: the version the module requires, and the encoder functions the model reproduces
	ver := required(*repo, "github.com/pelletier/go-toml/v2")
	o.Def("goTomlVersion", "String", lib.LeanString(ver))
	o.Def("xModVersion", "String", lib.LeanString(required(*repo, "golang.org/x/mod")))
	dir := filepath.Join(modCache(), "github.com", "pelletier", "go-toml", "v2@"+ver)
	if _, err := os.Stat(dir); err != nil {
		o.Fail("go-toml source not found at %s", dir)
		return
	}
	extract(o, dir, []want{
		{"marshaler.go", "Encoder.encodeString", "tomlEncodeString"},
		{"marshaler.go", "needsQuoting", "tomlNeedsQuoting"},
		{"marshaler.go", "Encoder.encodeLiteralString", "tomlEncodeLiteralString"},
		{"marshaler.go", "Encoder.encodeQuotedString", "tomlEncodeQuotedString"},
		{"marshaler.go", "Encoder.encodeSlice", "tomlEncodeSlice"},
		{"marshaler.go", "Encoder.encodeSliceAsArray", "tomlEncodeSliceAsArray"},
	})
	// characters.invalidAsciiTable: the indices set to true
	if f, err := lib.Parse(dir, "internal/characters/ascii.go"); err != nil {
		o.Fail("parse ascii.go: %v", err)
	} else {
		var idx []int
		found := false
		ast.Inspect(f.AST, func(n ast.Node) bool {
			vs, ok := n.(*ast.ValueSpec)
			if !ok || len(vs.Names) != 1 || vs.Names[0].Name != "invalidAsciiTable" || len(vs.Values) != 1 {
				return true
			}
			cl, ok := vs.Values[0].(*ast.CompositeLit)
			if !ok {
				return true
			}
			found = true
			for _, e := range cl.Elts {
				kv, ok := e.(*ast.KeyValueExpr)
				if !ok {
					continue
				}
				k, ok1 := kv.Key.(*ast.BasicLit)
				v, ok2 := kv.Value.(*ast.Ident)
				if ok1 && ok2 && v.Name == "true" {
					if x, err := strconv.ParseInt(k.Value, 0, 64); err == nil {
						idx = append(idx, int(x))
					}
				}
			}
			return false
		})
		if !found {
			o.Fail("invalidAsciiTable not found")
		}
		sort.Ints(idx)
		o.Def("invalidAsciiTable", "List Nat", lib.LeanNatList(idx))
	}
}

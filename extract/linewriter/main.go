// extractor for C18 (lineWriter.go, events.go, target.go, function.go, project.go): regenerates
// lean/Dawn/Extracted/LineWriter.lean
package main

import (
	"bytes"
	"flag"
	"fmt"
	"go/ast"
	"go/printer"
	"go/token"
	"os"
	"strings"

	"verif/extract/lib"
)

// mentions reports whether the node contains a selector or identifier with one of the given names.
func mentions(n ast.Node, names ...string) bool {
	found := false
	ast.Inspect(n, func(x ast.Node) bool {
		switch x := x.(type) {
		case *ast.SelectorExpr:
			for _, nm := range names {
				if x.Sel.Name == nm {
					found = true
				}
			}
		case *ast.Ident:
			for _, nm := range names {
				if x.Name == nm {
					found = true
				}
			}
		}
		return !found
	})
	return found
}

// exprText prints an expression as source text
func exprText(e ast.Expr) string {
	var b bytes.Buffer
	printer.Fprint(&b, token.NewFileSet(), e)
	return b.String()
}

func main() {
	repo := flag.String("repo", "/repo", "")
	out := flag.String("out", "", "")
	flag.Parse()
	o := lib.NewOut("LineWriter")
	defer func() {
		if err := o.Write(*out); err != nil {
			fmt.Fprintln(os.Stderr, err)
			os.Exit(1)
		}
	}()
	get := func(file, fn string) *ast.FuncDecl {
		f, err := lib.Parse(*repo, file)
		if err != nil {
			o.Fail("parse %s: %v", file, err)
			return nil
		}
		fd := f.Func(fn)
		if fd == nil {
			o.Fail("func %s not found in %s", fn, file)
		}
		return fd
	}

	// 1. the line writer, whole bodies
	if fd := get("lineWriter.go", "lineWriter.Write"); fd != nil {
		o.Def("writeBody", "String", lib.LeanLongString(lib.NormFunc(fd)))
	}
	if fd := get("lineWriter.go", "lineWriter.Flush"); fd != nil {
		o.Def("flushBody", "String", lib.LeanLongString(lib.NormFunc(fd)))
	}
	// 2. where the writer is attached to a target body and flushed (function.go)
	keepOut := func(s ast.Stmt) bool { return mentions(s, "out") }
	if fd := get("function.go", "function.evaluate"); fd != nil {
		o.Def("functionEvaluateOut", "String", lib.LeanLongString(lib.NormFuncKeep(fd, keepOut)))
	}
	if fd := get("function.go", "function.newThread"); fd != nil {
		o.Def("functionNewThreadOut", "String", lib.LeanLongString(lib.NormFuncKeep(fd, keepOut)))
	}
	// 2b. the single-writer hypothesis of C18_lines: one and the same writer is stdout and stderr of a body, and the
	//     builtins that run processes hand exactly those two writers on (no wrapper, no tee), so that os/exec and the
	//     shell interpreter feed the line writer from ONE copying goroutine
	if fd := get("function.go", "function.newThread"); fd != nil {
		var args []string
		ast.Inspect(fd.Body, func(n ast.Node) bool {
			if c, ok := n.(*ast.CallExpr); ok {
				if sel, ok := c.Fun.(*ast.SelectorExpr); ok && sel.Sel.Name == "SetStdio" && len(c.Args) == 3 {
					args = append(args, lib.LeanString(exprText(c.Args[1])), lib.LeanString(exprText(c.Args[2])))
				}
			}
			return true
		})
		o.Def("setStdioArgs", "List String", "["+strings.Join(args, ", ")+"]")
	}
	if fd := get("util/stdio.go", "Stdio"); fd != nil {
		o.Def("utilStdioBody", "String", lib.LeanLongString(lib.NormFunc(fd)))
	}
	keepStd := func(s ast.Stmt) bool {
		return mentions(s, "Stdout", "Stderr", "Stdio", "StdIO", "stdout", "stderr", "threadStdout")
	}
	if fd := get("lib/os/exec.go", "execf"); fd != nil {
		o.Def("osExecStdio", "String", lib.LeanLongString(lib.NormFuncKeep(fd, keepStd)))
	}
	if fd := get("lib/os/exec.go", "output"); fd != nil {
		o.Def("osOutputStdio", "String", lib.LeanLongString(lib.NormFuncKeep(fd, keepStd)))
	}
	if fd := get("lib/sh/exec.go", "exec"); fd != nil {
		o.Def("shExecStdio", "String", lib.LeanLongString(lib.NormFuncKeep(fd, keepStd)))
	}
	if fd := get("lib/sh/exec.go", "output"); fd != nil {
		o.Def("shOutputStdio", "String", lib.LeanLongString(lib.NormFuncKeep(fd, keepStd)))
	}
	// 3. the event-emitting skeleton of runTarget.Evaluate: event calls, the calls that decide the control flow, returns
	keepEv := func(s ast.Stmt) bool {
		if _, ok := s.(*ast.ReturnStmt); ok {
			return true
		}
		return mentions(s, "events", "EvaluateTargets", "upToDate", "evaluate", "saveTargetInfo", "dryrun")
	}
	if fd := get("target.go", "runTarget.Evaluate"); fd != nil {
		o.Def("evaluateSkeleton", "String", lib.LeanLongString(lib.NormFuncKeep(fd, keepEv)))
	}
	// 3b. how Evaluate tells a missing dependency from other failures, and what LoadTarget hands it: the
	//     classification is a type switch on the error's dynamic type, so unknownTarget must return the bare
	//     UnknownTargetError (a wrapped one, e.g. fmt.Errorf("%w; …"), would be classified as "other": no event)
	if fd := get("target.go", "runTarget.Evaluate"); fd != nil {
		var facts []string
		ast.Inspect(fd.Body, func(n ast.Node) bool {
			switch n := n.(type) {
			case *ast.TypeSwitchStmt:
				var types []string
				for _, c := range n.Body.List {
					for _, t := range c.(*ast.CaseClause).List {
						types = append(types, exprText(t))
					}
				}
				on := ""
				switch a := n.Assign.(type) {
				case *ast.AssignStmt:
					on = exprText(a.Rhs[0])
				case *ast.ExprStmt:
					on = exprText(a.X)
				}
				facts = append(facts, lib.LeanString("typeswitch "+on+": "+strings.Join(types, ", ")))
			case *ast.CallExpr:
				if sel, ok := n.Fun.(*ast.SelectorExpr); ok && (sel.Sel.Name == "As" || sel.Sel.Name == "Is") {
					if pkg, ok := sel.X.(*ast.Ident); ok && pkg.Name == "errors" {
						facts = append(facts, lib.LeanString("errors."+sel.Sel.Name))
					}
				}
			}
			return true
		})
		o.Def("depErrorClassification", "List String", "["+strings.Join(facts, ", ")+"]")
	}
	if fd := get("project.go", "Project.unknownTarget"); fd != nil {
		var ctors []string
		ast.Inspect(fd.Body, func(n ast.Node) bool {
			if r, ok := n.(*ast.ReturnStmt); ok && len(r.Results) == 1 {
				c := "?" + exprText(r.Results[0])
				if call, ok := r.Results[0].(*ast.CallExpr); ok {
					c = exprText(call.Fun)
				}
				ctors = append(ctors, lib.LeanString(c))
			}
			return true
		})
		o.Def("unknownTargetReturns", "List String", "["+strings.Join(ctors, ", ")+"]")
	}
	if fd := get("project.go", "Project.LoadTarget"); fd != nil {
		o.Def("loadTargetBody", "String", lib.LeanLongString(lib.NormFunc(fd)))
	}
	// 4. Project.Run and the options it applies, whole bodies
	if fd := get("project.go", "RunOptions.apply"); fd != nil {
		o.Def("runOptionsApplyBody", "String", lib.LeanLongString(lib.NormFunc(fd)))
	}
	if fd := get("project.go", "Project.Run"); fd != nil {
		o.Def("runBody", "String", lib.LeanLongString(lib.NormFunc(fd)))
	}
	// 5. the kind string each runEvents method reports, in source order
	if f, err := lib.Parse(*repo, "events.go"); err != nil {
		o.Fail("parse events.go: %v", err)
	} else {
		var kinds []string
		for _, d := range f.AST.Decls {
			fd, ok := d.(*ast.FuncDecl)
			if !ok || fd.Recv == nil || len(fd.Recv.List) != 1 || fd.Body == nil {
				continue
			}
			t := fd.Recv.List[0].Type
			if s, ok := t.(*ast.StarExpr); ok {
				t = s.X
			}
			if id, ok := t.(*ast.Ident); !ok || id.Name != "runEvents" {
				continue
			}
			ast.Inspect(fd.Body, func(n ast.Node) bool {
				kv, ok := n.(*ast.KeyValueExpr)
				if !ok {
					return true
				}
				k, ok := kv.Key.(*ast.BasicLit)
				if !ok {
					return true
				}
				if ks, ok := lib.Unquote(k); !ok || ks != "kind" {
					return true
				}
				// value: starlark.String("…")
				if call, ok := kv.Value.(*ast.CallExpr); ok && len(call.Args) == 1 {
					if bl, ok := call.Args[0].(*ast.BasicLit); ok {
						if s, ok := lib.Unquote(bl); ok {
							kinds = append(kinds, "("+lib.LeanString(fd.Name.Name)+", "+lib.LeanString(s)+")")
						}
					}
				}
				return true
			})
		}
		if len(kinds) == 0 {
			o.Fail("no runEvents kind strings found in events.go")
		}
		o.Def("eventKinds", "List (String × String)", "["+strings.Join(kinds, ", ")+"]")
	}
}

// Package lib: a tiny go/ast based fact extractor (tie 1, DESIGN.md §2.2).
//
// NormFunc prints a function's body as a normalised S-expression: comments, positions and formatting are
// dropped and local identifiers (parameters, receivers, := / var / range bindings) are alpha-renamed in order
// of first binding, so formatting, comments and local renames do not change the text, while any change
// to control flow, constants, operators, called functions or field names does.
package lib

import (
	"fmt"
	"go/ast"
	"go/parser"
	"go/token"
	"os"
	"path/filepath"
	"sort"
	"strconv"
	"strings"
)

type File struct {
	Fset *token.FileSet
	AST  *ast.File
}

func Parse(repo, rel string) (*File, error) {
	fset := token.NewFileSet()
	f, err := parser.ParseFile(fset, filepath.Join(repo, rel), nil, parser.SkipObjectResolution)
	if err != nil {
		return nil, err
	}
	return &File{fset, f}, nil
}

// Func finds a top-level function or method ("Name" or "Recv.Name", pointer receivers without the star).
func (f *File) Func(name string) *ast.FuncDecl {
	for _, d := range f.AST.Decls {
		fd, ok := d.(*ast.FuncDecl)
		if !ok {
			continue
		}
		n := fd.Name.Name
		if fd.Recv != nil && len(fd.Recv.List) == 1 {
			t := fd.Recv.List[0].Type
			if s, ok := t.(*ast.StarExpr); ok {
				t = s.X
			}
			if ix, ok := t.(*ast.IndexExpr); ok {
				t = ix.X
			}
			if id, ok := t.(*ast.Ident); ok {
				n = id.Name + "." + n
			}
		}
		if n == name {
			return fd
		}
	}
	return nil
}

type normer struct {
	names map[string]string
	keep  func(ast.Stmt) bool // nil: keep everything
}

func (n *normer) bind(id *ast.Ident) {
	if id == nil || id.Name == "_" {
		return
	}
	if _, ok := n.names[id.Name]; !ok {
		n.names[id.Name] = "v" + strconv.Itoa(len(n.names))
	}
}

func (n *normer) bindFields(fl *ast.FieldList) {
	if fl == nil {
		return
	}
	for _, f := range fl.List {
		for _, id := range f.Names {
			n.bind(id)
		}
	}
}

// NormFunc: the whole body.
func NormFunc(fd *ast.FuncDecl) string {
	n := &normer{names: map[string]string{}}
	n.bindFields(fd.Recv)
	n.bindFields(fd.Type.Params)
	n.bindFields(fd.Type.Results)
	return n.block(fd.Body)
}

// NormFuncKeep: only statements for which keep is true are printed (compound statements are printed when they
// contain a kept statement); used for synchronisation skeletons.
func NormFuncKeep(fd *ast.FuncDecl, keep func(ast.Stmt) bool) string {
	n := &normer{names: map[string]string{}, keep: keep}
	n.bindFields(fd.Recv)
	n.bindFields(fd.Type.Params)
	n.bindFields(fd.Type.Results)
	return n.block(fd.Body)
}

func (n *normer) block(b *ast.BlockStmt) string {
	if b == nil {
		return "(block)"
	}
	var parts []string
	for _, s := range b.List {
		if t := n.stmt(s); t != "" {
			parts = append(parts, t)
		}
	}
	return "(block" + join(parts) + ")"
}

func join(parts []string) string {
	if len(parts) == 0 {
		return ""
	}
	return " " + strings.Join(parts, " ")
}

func (n *normer) kept(s ast.Stmt) bool { return n.keep == nil || n.keep(s) }

func (n *normer) stmt(s ast.Stmt) string {
	switch s := s.(type) {
	case nil:
		return ""
	case *ast.BlockStmt:
		t := n.block(s)
		if n.keep != nil && t == "(block)" {
			return ""
		}
		return t
	case *ast.ExprStmt:
		if !n.kept(s) {
			return ""
		}
		return n.expr(s.X)
	case *ast.AssignStmt:
		if s.Tok == token.DEFINE {
			for _, l := range s.Lhs {
				if id, ok := l.(*ast.Ident); ok {
					n.bind(id)
				}
			}
		}
		if !n.kept(s) {
			return ""
		}
		return "(" + s.Tok.String() + " (" + n.exprs(s.Lhs) + ") (" + n.exprs(s.Rhs) + "))"
	case *ast.IncDecStmt:
		if !n.kept(s) {
			return ""
		}
		return "(" + s.Tok.String() + " " + n.expr(s.X) + ")"
	case *ast.DeclStmt:
		gd, ok := s.Decl.(*ast.GenDecl)
		if !ok {
			return "(decl?)"
		}
		var parts []string
		for _, sp := range gd.Specs {
			if vs, ok := sp.(*ast.ValueSpec); ok {
				for _, id := range vs.Names {
					n.bind(id)
				}
				parts = append(parts, "(var ("+n.idents(vs.Names)+") "+n.typ(vs.Type)+" ("+n.exprs(vs.Values)+"))")
			}
		}
		if !n.kept(s) {
			return ""
		}
		return strings.Join(parts, " ")
	case *ast.ReturnStmt:
		if !n.kept(s) {
			return ""
		}
		return "(return" + join(n.exprList(s.Results)) + ")"
	case *ast.BranchStmt:
		if !n.kept(s) {
			return ""
		}
		l := ""
		if s.Label != nil {
			l = " " + s.Label.Name
		}
		return "(" + s.Tok.String() + l + ")"
	case *ast.IfStmt:
		init := n.stmt(s.Init)
		body := n.block(s.Body)
		els := n.stmt(s.Else)
		if n.keep != nil && init == "" && body == "(block)" && els == "" && !n.keep(s) {
			return ""
		}
		return "(if " + orNil(init) + " " + n.expr(s.Cond) + " " + body + " " + orNil(els) + ")"
	case *ast.ForStmt:
		init := n.stmt(s.Init)
		post := n.stmt(s.Post)
		body := n.block(s.Body)
		if n.keep != nil && body == "(block)" && init == "" && post == "" && !n.keep(s) {
			return ""
		}
		return "(for " + orNil(init) + " " + n.expr(s.Cond) + " " + orNil(post) + " " + body + ")"
	case *ast.RangeStmt:
		if s.Tok == token.DEFINE {
			if id, ok := s.Key.(*ast.Ident); ok {
				n.bind(id)
			}
			if id, ok := s.Value.(*ast.Ident); ok {
				n.bind(id)
			}
		}
		body := n.block(s.Body)
		if n.keep != nil && body == "(block)" && !n.keep(s) {
			return ""
		}
		return "(range " + n.expr(s.Key) + " " + n.expr(s.Value) + " " + n.expr(s.X) + " " + body + ")"
	case *ast.SwitchStmt:
		init := n.stmt(s.Init)
		var cs []string
		any := false
		for _, c := range s.Body.List {
			cc := c.(*ast.CaseClause)
			var body []string
			for _, b := range cc.Body {
				if t := n.stmt(b); t != "" {
					body = append(body, t)
				}
			}
			if len(body) > 0 {
				any = true
			}
			if cc.List == nil {
				cs = append(cs, "(default"+join(body)+")")
			} else {
				cs = append(cs, "(case ("+n.exprs(cc.List)+")"+join(body)+")")
			}
		}
		if n.keep != nil && !any && !n.keep(s) {
			return ""
		}
		return "(switch " + orNil(init) + " " + n.expr(s.Tag) + join(cs) + ")"
	case *ast.TypeSwitchStmt:
		init := n.stmt(s.Init)
		asg := n.stmt(s.Assign)
		var cs []string
		any := false
		for _, c := range s.Body.List {
			cc := c.(*ast.CaseClause)
			var body []string
			for _, b := range cc.Body {
				if t := n.stmt(b); t != "" {
					body = append(body, t)
				}
			}
			if len(body) > 0 {
				any = true
			}
			var ts []string
			for _, t := range cc.List {
				ts = append(ts, n.typ(t))
			}
			if cc.List == nil {
				cs = append(cs, "(default"+join(body)+")")
			} else {
				cs = append(cs, "(case ("+strings.Join(ts, " ")+")"+join(body)+")")
			}
		}
		if n.keep != nil && !any && !n.keep(s) {
			return ""
		}
		return "(typeswitch " + orNil(init) + " " + orNil(asg) + join(cs) + ")"
	case *ast.SelectStmt:
		var cs []string
		for _, c := range s.Body.List {
			cc := c.(*ast.CommClause)
			var body []string
			for _, b := range cc.Body {
				if t := n.stmt(b); t != "" {
					body = append(body, t)
				}
			}
			cs = append(cs, "(comm "+orNil(n.stmt(cc.Comm))+join(body)+")")
		}
		return "(select" + join(cs) + ")"
	case *ast.DeferStmt:
		if !n.kept(s) {
			return ""
		}
		return "(defer " + n.expr(s.Call) + ")"
	case *ast.GoStmt:
		if !n.kept(s) {
			return ""
		}
		return "(go " + n.expr(s.Call) + ")"
	case *ast.SendStmt:
		if !n.kept(s) {
			return ""
		}
		return "(send " + n.expr(s.Chan) + " " + n.expr(s.Value) + ")"
	case *ast.LabeledStmt:
		return "(label " + s.Label.Name + " " + n.stmt(s.Stmt) + ")"
	case *ast.EmptyStmt:
		return ""
	}
	return fmt.Sprintf("(stmt? %T)", s)
}

func orNil(s string) string {
	if s == "" {
		return "_"
	}
	return s
}

func (n *normer) idents(ids []*ast.Ident) string {
	var parts []string
	for _, id := range ids {
		parts = append(parts, n.ident(id))
	}
	return strings.Join(parts, " ")
}

func (n *normer) ident(id *ast.Ident) string {
	if r, ok := n.names[id.Name]; ok {
		return r
	}
	return id.Name
}

func (n *normer) exprList(es []ast.Expr) []string {
	var parts []string
	for _, e := range es {
		parts = append(parts, n.expr(e))
	}
	return parts
}

func (n *normer) exprs(es []ast.Expr) string { return strings.Join(n.exprList(es), " ") }

func (n *normer) typ(e ast.Expr) string {
	if e == nil {
		return "_"
	}
	// types are printed without renaming of locals (a type name is never a local here)
	saved := n.names
	n.names = map[string]string{}
	defer func() { n.names = saved }()
	return n.expr(e)
}

func (n *normer) expr(e ast.Expr) string {
	switch e := e.(type) {
	case nil:
		return "_"
	case *ast.Ident:
		return n.ident(e)
	case *ast.BasicLit:
		return e.Value
	case *ast.ParenExpr:
		return n.expr(e.X)
	case *ast.SelectorExpr:
		return "(. " + n.expr(e.X) + " " + e.Sel.Name + ")"
	case *ast.CallExpr:
		d := ""
		if e.Ellipsis.IsValid() {
			d = " ..."
		}
		return "(call " + n.expr(e.Fun) + join(n.exprList(e.Args)) + d + ")"
	case *ast.BinaryExpr:
		return "(" + e.Op.String() + " " + n.expr(e.X) + " " + n.expr(e.Y) + ")"
	case *ast.UnaryExpr:
		return "(u" + e.Op.String() + " " + n.expr(e.X) + ")"
	case *ast.StarExpr:
		return "(* " + n.expr(e.X) + ")"
	case *ast.IndexExpr:
		return "(index " + n.expr(e.X) + " " + n.expr(e.Index) + ")"
	case *ast.IndexListExpr:
		return "(indexl " + n.expr(e.X) + join(n.exprList(e.Indices)) + ")"
	case *ast.SliceExpr:
		return "(slice " + n.expr(e.X) + " " + n.expr(e.Low) + " " + n.expr(e.High) + " " + n.expr(e.Max) + ")"
	case *ast.TypeAssertExpr:
		return "(assert " + n.expr(e.X) + " " + n.typ(e.Type) + ")"
	case *ast.KeyValueExpr:
		k := ""
		if id, ok := e.Key.(*ast.Ident); ok {
			k = id.Name // struct field keys are not locals
		} else {
			k = n.expr(e.Key)
		}
		return "(kv " + k + " " + n.expr(e.Value) + ")"
	case *ast.CompositeLit:
		return "(lit " + n.typ(e.Type) + join(n.exprList(e.Elts)) + ")"
	case *ast.FuncLit:
		// parameters of the literal are bound in the same renaming scope
		n.bindFields(e.Type.Params)
		n.bindFields(e.Type.Results)
		return "(func " + n.block(e.Body) + ")"
	case *ast.ArrayType:
		return "(array " + n.expr(e.Len) + " " + n.expr(e.Elt) + ")"
	case *ast.MapType:
		return "(map " + n.expr(e.Key) + " " + n.expr(e.Value) + ")"
	case *ast.InterfaceType:
		return "(interface)"
	case *ast.StructType:
		return "(struct)"
	case *ast.FuncType:
		return "(functype)"
	case *ast.ChanType:
		return "(chan " + n.expr(e.Value) + ")"
	case *ast.Ellipsis:
		return "(... " + n.expr(e.Elt) + ")"
	}
	return fmt.Sprintf("(expr? %T)", e)
}

// ---------------------------------------------------------------- Lean output helpers

// LeanString renders a Go string as a Lean string literal.
func LeanString(s string) string {
	var b strings.Builder
	b.WriteByte('"')
	for _, r := range s {
		switch {
		case r == '"':
			b.WriteString("\\\"")
		case r == '\\':
			b.WriteString("\\\\")
		case r == '\n':
			b.WriteString("\\n")
		case r == '\t':
			b.WriteString("\\t")
		case r == '\r':
			b.WriteString("\\r")
		case r < 0x20 || r == 0x7f:
			fmt.Fprintf(&b, "\\x%02x", r)
		default:
			b.WriteRune(r)
		}
	}
	b.WriteByte('"')
	return b.String()
}

// LeanLongString splits a long text into a concatenation of short literals (very long literals make Lean slow).
func LeanLongString(s string) string {
	const chunk = 800
	if len(s) <= chunk {
		return LeanString(s)
	}
	var parts []string
	rs := []rune(s)
	for i := 0; i < len(rs); i += chunk {
		j := i + chunk
		if j > len(rs) {
			j = len(rs)
		}
		parts = append(parts, LeanString(string(rs[i:j])))
	}
	return "String.join [\n    " + strings.Join(parts, ",\n    ") + "]"
}

func LeanCharList(rs []rune) string {
	var parts []string
	for _, r := range rs {
		parts = append(parts, fmt.Sprintf("Char.ofNat %d", r))
	}
	return "[" + strings.Join(parts, ", ") + "]"
}

func LeanNatList(xs []int) string {
	var parts []string
	for _, x := range xs {
		parts = append(parts, strconv.Itoa(x))
	}
	return "[" + strings.Join(parts, ", ") + "]"
}

type Out struct {
	Area  string
	lines []string
	Errs  []string
}

func NewOut(area string) *Out { return &Out{Area: area} }

func (o *Out) Def(name, typ, val string) {
	o.lines = append(o.lines, fmt.Sprintf("def %s : %s :=\n  %s", name, typ, val))
}

func (o *Out) Fail(format string, a ...any) { o.Errs = append(o.Errs, fmt.Sprintf(format, a...)) }

func (o *Out) Write(path string) error {
	var b strings.Builder
	fmt.Fprintf(&b, "/- GENERATED by /verif/extract/%s from the repository's working tree on every run. Do not edit. -/\n", strings.ToLower(o.Area))
	fmt.Fprintf(&b, "namespace Dawn.Extracted.%s\n\n", o.Area)
	sort.Strings(o.Errs)
	fmt.Fprintf(&b, "/-- facts the extractor could not find (the code no longer has the shape the model was written against) -/\n")
	var qs []string
	for _, e := range o.Errs {
		qs = append(qs, LeanString(e))
	}
	fmt.Fprintf(&b, "def extractionErrors : List String := [%s]\n\n", strings.Join(qs, ", "))
	for _, l := range o.lines {
		b.WriteString(l)
		b.WriteString("\n\n")
	}
	fmt.Fprintf(&b, "end Dawn.Extracted.%s\n", o.Area)
	return os.WriteFile(path, []byte(b.String()), 0o644)
}

// ---------------------------------------------------------------- small AST queries

// CaseLists returns, for every case clause in the function (in source order), the literal values of its list
// (char and string literals unquoted to runes/strings; other expressions are skipped).
func Unquote(l *ast.BasicLit) (string, bool) {
	switch l.Kind {
	case token.CHAR:
		r, _, _, err := strconv.UnquoteChar(l.Value[1:len(l.Value)-1], '\'')
		if err != nil {
			return "", false
		}
		return string(r), true
	case token.STRING:
		s, err := strconv.Unquote(l.Value)
		return s, err == nil
	}
	return "", false
}

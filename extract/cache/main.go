// extractor for cache.go (C20): regenerates lean/Dawn/Extracted/Cache.lean
//
// Facts: the synchronisation skeletons of (*cache).get and (*cache).once (statements that touch the RWMutex,
// the entries map, call the callable, or return; verifPoint call sites are dropped, so the skeleton is the same
// with and without the harness hooks), and the order of the statements of `once` as a list of tags — the
// shape the model's program counter follows.
package main

import (
	"flag"
	"fmt"
	"go/ast"
	"os"
	"strings"

	"verif/extract/lib"
)

// mentions reports whether the node contains a selector expression x.<sel> (any x) for one of the names.
func mentions(n ast.Node, sels ...string) bool {
	found := false
	ast.Inspect(n, func(m ast.Node) bool {
		if s, ok := m.(*ast.SelectorExpr); ok {
			for _, x := range sels {
				if s.Sel.Name == x {
					found = true
				}
			}
		}
		return !found
	})
	return found
}

func callsFunc(n ast.Node, names ...string) bool {
	found := false
	ast.Inspect(n, func(m ast.Node) bool {
		if c, ok := m.(*ast.CallExpr); ok {
			switch f := c.Fun.(type) {
			case *ast.Ident:
				for _, x := range names {
					if f.Name == x {
						found = true
					}
				}
			case *ast.SelectorExpr:
				for _, x := range names {
					if f.Sel.Name == x {
						found = true
					}
				}
			}
		}
		return !found
	})
	return found
}

func isHook(s ast.Stmt) bool {
	switch s := s.(type) {
	case *ast.ExprStmt:
		if c, ok := s.X.(*ast.CallExpr); ok {
			if id, ok := c.Fun.(*ast.Ident); ok && id.Name == "verifPoint" {
				return true
			}
		}
	case *ast.DeferStmt:
		if id, ok := s.Call.Fun.(*ast.Ident); ok && id.Name == "verifPoint" {
			return true
		}
	}
	return false
}

func keep(s ast.Stmt) bool {
	if isHook(s) {
		return false
	}
	switch s.(type) {
	case *ast.ReturnStmt:
		return true
	case *ast.IfStmt, *ast.ForStmt, *ast.RangeStmt, *ast.SwitchStmt:
		return false // kept when they contain a kept statement
	}
	return mentions(s, "m", "entries", "Lock", "Unlock", "RLock", "RUnlock") || callsFunc(s, "Call", "get")
}

// tag classifies one top-level statement of once / get.
func tag(s ast.Stmt) string {
	if isHook(s) {
		return ""
	}
	switch s := s.(type) {
	case *ast.ExprStmt:
		switch {
		case callsFunc(s, "RLock"):
			return "rlock"
		case callsFunc(s, "Lock"):
			return "lock"
		case callsFunc(s, "Unlock"):
			return "unlock-not-deferred"
		case callsFunc(s, "RUnlock"):
			return "runlock-not-deferred"
		}
	case *ast.DeferStmt:
		switch {
		case callsFunc(s, "RUnlock"):
			return "defer-runlock"
		case callsFunc(s, "Unlock"):
			return "defer-unlock"
		}
	case *ast.AssignStmt:
		switch {
		case callsFunc(s, "Call"):
			return "call"
		case len(s.Lhs) == 1 && mentions(s.Lhs[0], "entries"):
			return "store"
		case mentions(s, "entries"):
			return "read"
		}
	case *ast.IfStmt:
		ret := false
		for _, b := range s.Body.List {
			if _, ok := b.(*ast.ReturnStmt); ok {
				ret = true
			}
		}
		r := ""
		if ret {
			r = "-return"
		}
		switch {
		case s.Else != nil:
			return "if-else"
		case s.Init != nil && callsFunc(s.Init, "get"):
			return "if-get-hit" + r
		case s.Init != nil && mentions(s.Init, "entries"):
			return "if-entries-hit" + r
		case callsFunc(s, "Call"):
			return "if-with-call"
		default:
			if b, ok := s.Cond.(*ast.BinaryExpr); ok {
				if id, ok := b.X.(*ast.Ident); ok && id.Name == "err" && b.Op.String() == "!=" {
					return "if-err" + r
				}
			}
			return "if-other" + r
		}
	case *ast.ReturnStmt:
		return "return"
	case *ast.ForStmt, *ast.RangeStmt:
		return "loop"
	case *ast.GoStmt:
		return "go"
	}
	if mentions(s, "entries", "m") || callsFunc(s, "Call") {
		return "other-sync"
	}
	return ""
}

func shape(fd *ast.FuncDecl) string {
	var tags []string
	for _, s := range fd.Body.List {
		if t := tag(s); t != "" {
			tags = append(tags, lib.LeanString(t))
		}
	}
	return "[" + strings.Join(tags, ", ") + "]"
}

func main() {
	repo := flag.String("repo", "/repo", "")
	out := flag.String("out", "", "")
	flag.Parse()
	o := lib.NewOut("Cache")
	defer func() {
		if err := o.Write(*out); err != nil {
			fmt.Fprintln(os.Stderr, err)
			os.Exit(1)
		}
	}()
	f, err := lib.Parse(*repo, "cache.go")
	if err != nil {
		o.Fail("parse cache.go: %v", err)
		return
	}
	for _, name := range []string{"get", "once"} {
		fd := f.Func("cache." + name)
		if fd == nil {
			o.Fail("func (*cache).%s not found", name)
			o.Def(name+"Shape", "List String", "[]")
			o.Def(name+"Skeleton", "String", `""`)
			continue
		}
		o.Def(name+"Shape", "List String", shape(fd))
		o.Def(name+"Skeleton", "String", lib.LeanLongString(lib.NormFuncKeep(fd, keep)))
	}
	// the mutex is a sync.RWMutex and the map is keyed by string
	mutexType, entriesType := "", ""
	for _, d := range f.AST.Decls {
		gd, ok := d.(*ast.GenDecl)
		if !ok {
			continue
		}
		for _, sp := range gd.Specs {
			ts, ok := sp.(*ast.TypeSpec)
			if !ok || ts.Name.Name != "cache" {
				continue
			}
			st, ok := ts.Type.(*ast.StructType)
			if !ok {
				continue
			}
			for _, fl := range st.Fields.List {
				for _, n := range fl.Names {
					switch n.Name {
					case "m":
						if se, ok := fl.Type.(*ast.SelectorExpr); ok {
							mutexType = fmt.Sprint(se.X) + "." + se.Sel.Name
						}
					case "entries":
						if mt, ok := fl.Type.(*ast.MapType); ok {
							entriesType = "map[" + fmt.Sprint(mt.Key) + "]"
						}
					}
				}
			}
		}
	}
	// Freeze: Starlark freezes a module-level cache when the module has loaded; the model has no frozen flag, so Freeze
	// must do nothing and the struct must not grow state that once could consult
	if fd := f.Func("cache.Freeze"); fd == nil {
		o.Fail("func (*cache).Freeze not found")
		o.Def("freezeBody", "String", `"?"`)
	} else {
		o.Def("freezeBody", "String", lib.LeanString(lib.NormFunc(fd)))
	}
	var fields []string
	for _, d := range f.AST.Decls {
		if gd, ok := d.(*ast.GenDecl); ok {
			for _, sp := range gd.Specs {
				if ts, ok := sp.(*ast.TypeSpec); ok && ts.Name.Name == "cache" {
					if st, ok := ts.Type.(*ast.StructType); ok {
						for _, fl := range st.Fields.List {
							for _, n := range fl.Names {
								fields = append(fields, lib.LeanString(n.Name))
							}
						}
					}
				}
			}
		}
	}
	o.Def("cacheFields", "List String", "["+strings.Join(fields, ", ")+"]")
	// nothing is ever taken out of the cache and nothing besides the struct holds cache state: calls of clear/delete anywhere
	// in cache.go, and the package-level variables and constants of the file
	var removals, vars, consts []string
	ast.Inspect(f.AST, func(n ast.Node) bool {
		if c, ok := n.(*ast.CallExpr); ok {
			if id, ok := c.Fun.(*ast.Ident); ok && (id.Name == "clear" || id.Name == "delete") {
				removals = append(removals, lib.LeanString(id.Name))
			}
		}
		return true
	})
	for _, d := range f.AST.Decls {
		if gd, ok := d.(*ast.GenDecl); ok {
			for _, sp := range gd.Specs {
				if vs, ok := sp.(*ast.ValueSpec); ok {
					for _, n := range vs.Names {
						if gd.Tok.String() == "const" {
							consts = append(consts, lib.LeanString(n.Name))
						} else {
							vars = append(vars, lib.LeanString(n.Name))
						}
					}
				}
			}
		}
	}
	o.Def("entryRemovals", "List String", "["+strings.Join(removals, ", ")+"]")
	o.Def("packageVars", "List String", "["+strings.Join(vars, ", ")+"]")
	o.Def("packageConsts", "List String", "["+strings.Join(consts, ", ")+"]")
	o.Def("mutexType", "String", lib.LeanString(mutexType))
	o.Def("entriesType", "String", lib.LeanString(entriesType))
}

// extractor for the function-environment fingerprint (C08): regenerates lean/Dawn/Extracted/Env.lean from
// function.go, pickle/encode.go and pickle/opcodes.go of the repository's working tree
package main

import (
	"flag"
	"fmt"
	"go/ast"
	"go/printer"
	"go/token"
	"os"
	"sort"
	"strconv"
	"strings"

	"verif/extract/lib"
)

func src(e ast.Node) string {
	var b strings.Builder
	printer.Fprint(&b, token.NewFileSet(), e)
	return b.String()
}

func strList(xs []string) string {
	q := make([]string, len(xs))
	for i, x := range xs {
		q[i] = lib.LeanString(x)
	}
	return "[" + strings.Join(q, ", ") + "]"
}

func boolLit(b bool) string {
	if b {
		return "true"
	}
	return "false"
}

// returnLits: for each `return "a", "b", starlark.Tuple{…}, …` in the node: "a.b/<number of tuple elements>"
func returnLits(n ast.Node) []string {
	var out []string
	ast.Inspect(n, func(n ast.Node) bool {
		if r, ok := n.(*ast.ReturnStmt); ok {
			var ls []string
			for _, e := range r.Results {
				if bl, ok := e.(*ast.BasicLit); ok {
					if s, ok := lib.Unquote(bl); ok {
						ls = append(ls, s)
						continue
					}
				}
				break
			}
			if len(ls) == 2 && ls[0] != "" && len(r.Results) > 2 {
				arity := "?"
				if cl, ok := r.Results[2].(*ast.CompositeLit); ok {
					arity = strconv.Itoa(len(cl.Elts))
				}
				out = append(out, ls[0]+"."+ls[1]+"/"+arity)
			}
		}
		return true
	})
	return out
}

func has2(xs []string, sub string) bool {
	for _, x := range xs {
		if strings.Contains(x, sub) {
			return true
		}
	}
	return false
}

func main() {
	repo := flag.String("repo", "/repo", "")
	out := flag.String("out", "", "")
	flag.Parse()
	o := lib.NewOut("Env")
	defer func() {
		if err := o.Write(*out); err != nil {
			fmt.Fprintln(os.Stderr, err)
			os.Exit(1)
		}
	}()

	fn, err := lib.Parse(*repo, "function.go")
	if err != nil {
		o.Fail("parse function.go: %v", err)
		return
	}
	enc, err := lib.Parse(*repo, "pickle/encode.go")
	if err != nil {
		o.Fail("parse pickle/encode.go: %v", err)
		return
	}
	ops, err := lib.Parse(*repo, "pickle/opcodes.go")
	if err != nil {
		o.Fail("parse pickle/opcodes.go: %v", err)
		return
	}

	// 1. functionEnvKeys
	var keys []string
	foundKeys := false
	for _, d := range fn.AST.Decls {
		gd, ok := d.(*ast.GenDecl)
		if !ok {
			continue
		}
		for _, sp := range gd.Specs {
			vs, ok := sp.(*ast.ValueSpec)
			if !ok || len(vs.Names) != 1 || vs.Names[0].Name != "functionEnvKeys" || len(vs.Values) != 1 {
				continue
			}
			if cl, ok := vs.Values[0].(*ast.CompositeLit); ok {
				foundKeys = true
				for _, e := range cl.Elts {
					if bl, ok := e.(*ast.BasicLit); ok {
						if s, ok := lib.Unquote(bl); ok {
							keys = append(keys, s)
						}
					}
				}
			}
		}
	}
	if !foundKeys {
		o.Fail("var functionEnvKeys not found")
	}
	o.Def("envKeys", "List String", strList(keys))

	// 2. the host pickler: one (Go type, module, name) per case of envPickler's type switch
	var cases []string
	if fd := fn.Func("envPickler"); fd != nil {
		ast.Inspect(fd.Body, func(n ast.Node) bool {
			cc, ok := n.(*ast.CaseClause)
			if !ok {
				return true
			}
			var ts []string
			for _, t := range cc.List {
				ts = append(ts, src(t))
			}
			if cc.List == nil {
				ts = []string{"default"}
			}
			for _, r := range returnLits(cc) {
				cases = append(cases, strings.Join(ts, "|")+" -> "+r)
			}
			return false
		})
		o.Def("envPicklerBody", "String", lib.LeanLongString(lib.NormFunc(fd)))
	} else {
		o.Fail("func envPickler not found")
	}
	o.Def("picklerCases", "List String", strList(cases))

	// 3. the per-encoding pickler of the D3 repair
	fixed := false
	var recCases []string
	if fd := fn.Func("newEnvPickler"); fd != nil {
		fixed = true
		ast.Inspect(fd.Body, func(n ast.Node) bool {
			cc, ok := n.(*ast.CaseClause)
			if !ok || cc.List == nil {
				return true
			}
			var ts []string
			for _, t := range cc.List {
				ts = append(ts, src(t))
			}
			sort.Strings(ts)
			for _, r := range returnLits(cc) {
				recCases = append(recCases, strings.Join(ts, "|")+" -> "+r)
			}
			return true
		})
		o.Def("newEnvPicklerBody", "String", lib.LeanLongString(lib.NormFunc(fd)))
	} else {
		o.Def("newEnvPicklerBody", "String", "\"\"")
	}
	o.Def("recursiveCases", "List String", strList(recCases))
	// which pickler do functionEnv and evaluate hand to the encoder?
	usesNew := 0
	usesOld := 0
	for _, name := range []string{"functionEnv", "function.evaluate"} {
		fd := fn.Func(name)
		if fd == nil {
			o.Fail("func %s not found", name)
			continue
		}
		ast.Inspect(fd.Body, func(n ast.Node) bool {
			if c, ok := n.(*ast.CallExpr); ok && strings.HasSuffix(src(c.Fun), "NewEncoder") && len(c.Args) == 2 {
				switch a := src(c.Args[1]); {
				case a == "newEnvPickler()":
					usesNew++
				case strings.Contains(a, "envPickler"):
					usesOld++
				}
			}
			return true
		})
	}
	fixed = fixed && usesNew == 2 && usesOld == 0
	if usesNew+usesOld != 2 {
		o.Fail("expected two pickle.NewEncoder calls with an environment pickler, found %d", usesNew+usesOld)
	}

	// 4. diffEnv: the limits, and whether equal encodings are accepted before any structural comparison
	var limits []int
	encFirst := false
	eqUpToDate := false // `if eq { return true, … }` after EqualDepth: equal decodings are "up to date" (D25)
	if fd := fn.Func("function.diffEnv"); fd != nil {
		seenCompare := false
		ast.Inspect(fd.Body, func(n ast.Node) bool {
			switch n := n.(type) {
			case *ast.CallExpr:
				f := src(n.Fun)
				if (f == "starlark.EqualDepth" || f == "diff.DiffDepth") && len(n.Args) == 3 {
					seenCompare = true
					if bl, ok := n.Args[2].(*ast.BasicLit); ok {
						v, _ := strconv.Atoi(bl.Value)
						limits = append(limits, v)
					} else {
						o.Fail("depth limit of %s is not a literal", f)
					}
				}
			case *ast.IfStmt:
				c := src(n.Cond)
				if seenCompare && c == "eq" && len(n.Body.List) == 1 {
					if r, ok := n.Body.List[0].(*ast.ReturnStmt); ok && len(r.Results) == 4 && src(r.Results[0]) == "true" {
						eqUpToDate = true
					}
				}
				if !seenCompare && (c == "f.newData == f.oldData" || c == "f.oldData == f.newData") && len(n.Body.List) == 1 {
					if r, ok := n.Body.List[0].(*ast.ReturnStmt); ok && len(r.Results) == 4 && src(r.Results[0]) == "true" && src(r.Results[3]) == "nil" {
						encFirst = true
					}
				}
			}
			return true
		})
		o.Def("diffEnvBody", "String", lib.LeanLongString(lib.NormFunc(fd)))
	} else {
		o.Fail("func (*function).diffEnv not found")
	}
	// the reason switch: is there a case for "no known part differs"?
	reasonCase0 := false
	if fd := fn.Func("function.diffEnv"); fd != nil {
		ast.Inspect(fd.Body, func(n ast.Node) bool {
			if sw, ok := n.(*ast.SwitchStmt); ok && sw.Tag != nil && src(sw.Tag) == "len(reasons)" {
				for _, st := range sw.Body.List {
					if cc, ok := st.(*ast.CaseClause); ok && len(cc.List) == 1 && src(cc.List[0]) == "0" {
						for _, b := range cc.Body {
							if r, ok := b.(*ast.ReturnStmt); ok && len(r.Results) == 4 && src(r.Results[0]) == "false" && src(r.Results[3]) == "nil" {
								reasonCase0 = true
							}
						}
					}
				}
			}
			return true
		})
	}
	o.Def("reasonHandlesNoKnownPart", "Bool", boolLit(reasonCase0))
	if reasonCase0 {
		fmt.Println("reason=safe")
	} else {
		fmt.Println("reason=old")
	}
	// the keys envUnpickler writes into the decoded environment
	var ukeys []string
	if fd := fn.Func("envUnpickler"); fd != nil {
		ast.Inspect(fd.Body, func(n ast.Node) bool {
			if c, ok := n.(*ast.CallExpr); ok && strings.HasSuffix(src(c.Fun), ".SetKey") && len(c.Args) == 2 {
				if k, ok := c.Args[0].(*ast.CallExpr); ok && src(k.Fun) == "starlark.String" && len(k.Args) == 1 {
					if bl, ok := k.Args[0].(*ast.BasicLit); ok {
						if sv, ok := lib.Unquote(bl); ok {
							ukeys = append(ukeys, sv)
						}
					}
				}
			}
			return true
		})
	}
	o.Def("unpicklerKeys", "List String", strList(ukeys))
	o.Def("compareLimits", "List Nat", lib.LeanNatList(limits))
	o.Def("equalEncodingsFirst", "Bool", boolLit(encFirst))
	o.Def("equalDecodingsUpToDate", "Bool", boolLit(eqUpToDate))
	for _, name := range []string{"functionEnv", "function.upToDate", "envUnpickler", "makeDictFromAssociationList"} {
		fd := fn.Func(name)
		if fd == nil {
			o.Fail("func %s not found", name)
			continue
		}
		o.Def(strings.ReplaceAll(strings.TrimPrefix(name, "function."), ".", "")+"Body", "String", lib.LeanLongString(lib.NormFunc(fd)))
	}

	// 4b. target.go: which reason wins when several conditions hold (the cases of the switch in runTarget.Evaluate, in order)
	var precedence []string
	if tg, err := lib.Parse(*repo, "target.go"); err != nil {
		o.Fail("parse target.go: %v", err)
	} else if fd := tg.Func("runTarget.Evaluate"); fd == nil {
		o.Fail("func (*runTarget).Evaluate not found")
	} else {
		ast.Inspect(fd.Body, func(n ast.Node) bool {
			sw, ok := n.(*ast.SwitchStmt)
			if !ok || sw.Tag != nil || precedence != nil {
				return true
			}
			var conds []string
			assignsReason := false
			for _, st := range sw.Body.List {
				cc, ok := st.(*ast.CaseClause)
				if !ok {
					continue
				}
				var cs []string
				for _, e := range cc.List {
					cs = append(cs, src(e))
				}
				if cc.List == nil {
					cs = []string{"default"}
				}
				what := "keep"
				for _, b := range cc.Body {
					if as, ok := b.(*ast.AssignStmt); ok && len(as.Lhs) == 1 && src(as.Lhs[0]) == "reason" {
						assignsReason = true
						what = "set"
						if bl, ok := as.Rhs[0].(*ast.BasicLit); ok {
							if v, ok := lib.Unquote(bl); ok {
								what = "set " + v
							}
						} else if c, ok := as.Rhs[0].(*ast.CallExpr); ok && len(c.Args) > 0 {
							if bl, ok := c.Args[0].(*ast.BasicLit); ok {
								if v, ok := lib.Unquote(bl); ok {
									what = "set " + v
								}
							}
						}
					}
				}
				conds = append(conds, strings.Join(cs, ",")+" => "+what)
			}
			if assignsReason {
				precedence = conds
			}
			return true
		})
		if precedence == nil {
			o.Fail("the switch that chooses the rebuild reason was not found in runTarget.Evaluate")
		}
	}
	o.Def("reasonPrecedence", "List String", strList(precedence))

	// 5. pickle/encode.go: what the traversal model takes from the encoder
	reencode := false
	var batch []int
	var skel []string
	for _, name := range []string{"Encoder.encode", "Encoder.encodeComplex"} {
		fd := enc.Func(name)
		if fd == nil {
			o.Fail("func %s not found", name)
			continue
		}
		skel = append(skel, "func "+name)
		var walk func(n ast.Node, skip bool)
		walk = func(n ast.Node, skip bool) {
			ast.Inspect(n, func(n ast.Node) bool {
				switch n := n.(type) {
				case *ast.IfStmt:
					if src(n.Cond) == "!first" {
						// `if !first { e.encode(x) }`: recorded as the flag `reencode`, not in the skeleton
						ast.Inspect(n.Body, func(m ast.Node) bool {
							if c, ok := m.(*ast.CallExpr); ok && src(c.Fun) == "e.encode" {
								reencode = true
							}
							return true
						})
						return false
					}
					if bl, ok := n.Cond.(*ast.BinaryExpr); ok && bl.Op == token.GTR {
						if lit, ok := bl.Y.(*ast.BasicLit); ok && (src(bl.X) == "len(batch)" || src(bl.X) == "batch") {
							v, _ := strconv.Atoi(lit.Value)
							batch = append(batch, v)
						}
					}
				case *ast.CaseClause:
					var ts []string
					for _, t := range n.List {
						ts = append(ts, src(t))
					}
					if n.List == nil {
						ts = []string{"default"}
					}
					skel = append(skel, "case "+strings.Join(ts, ","))
				case *ast.CallExpr:
					f := src(n.Fun)
					switch {
					case f == "e.w.WriteByte" && len(n.Args) == 1:
						skel = append(skel, "W "+src(n.Args[0]))
					case f == "e.encode" && len(n.Args) == 1:
						skel = append(skel, "E "+src(n.Args[0]))
					case f == "e.memoize":
						skel = append(skel, "M")
					case f == "e.memoized":
						skel = append(skel, "lookup")
					case f == "e.encodeString" && len(n.Args) == 3:
						skel = append(skel, "S "+src(n.Args[0])+" "+src(n.Args[1]))
					case f == "e.encodeComplex":
						skel = append(skel, "X")
					case f == "e.pickler.Pickle":
						skel = append(skel, "P")
					}
				}
				return true
			})
		}
		walk(fd.Body, false)
	}
	o.Def("encodeSkeleton", "List String", "[\n   "+strings.Join(func() []string {
		q := make([]string, len(skel))
		for i, s := range skel {
			q[i] = lib.LeanString(s)
		}
		return q
	}(), ",\n   ")+"]")
	o.Def("batchSizes", "List Nat", lib.LeanNatList(batch))
	counter, lenIds := false, false
	if fd := enc.Func("Encoder.memoize"); fd != nil {
		ast.Inspect(fd.Body, func(n ast.Node) bool {
			switch n := n.(type) {
			case *ast.CallExpr:
				if src(n) == "len(e.memo)" {
					lenIds = true
				}
			case *ast.AssignStmt:
				if len(n.Lhs) == 1 && len(n.Rhs) == 1 && src(n.Lhs[0]) == "e.memo[x]" && src(n.Rhs[0]) == "e.next" {
					counter = true
				}
			}
			return true
		})
		if counter == lenIds {
			o.Fail("Encoder.memoize: cannot tell how memo ids are numbered")
		}
	} else {
		o.Fail("func (*Encoder).memoize not found")
	}
	// the width rules of the byte layer: the literals compared against in encode / encodeString
	has := func(c string) bool {
		for _, x := range cases {
			if x == c {
				return true
			}
		}
		return false
	}
	builtinIdentity := has("*starlark.Builtin -> dawn.Builtin/2") && has2(recCases, "*starlark.Builtin")
	signature := has("*starlark.FunctionCode -> dawn.FunctionCode/4")
	mandatory := has("default -> dawn.Mandatory/0")
	o.Def("cfgBuiltinIdentity", "Bool", boolLit(builtinIdentity))
	o.Def("cfgSignature", "Bool", boolLit(signature))
	o.Def("cfgMandatory", "Bool", boolLit(mandatory))
	o.Def("cfgFixed", "Bool", boolLit(fixed))
	o.Def("cfgReencode", "Bool", boolLit(reencode))
	o.Def("cfgMemoCounter", "Bool", boolLit(counter))

	// 6. opcodes
	want := []string{"opMARK", "opSTOP", "opINT", "opBININT", "opBININT1", "opBININT2", "opNONE", "opBINUNICODE", "opAPPEND", "opEMPTY_DICT",
		"opAPPENDS", "opBINGET", "opLONG_BINGET", "opEMPTY_LIST", "opTUPLE", "opEMPTY_TUPLE", "opSETITEMS", "opBINFLOAT", "opNEWOBJ", "opTUPLE1",
		"opTUPLE2", "opTUPLE3", "opNEWTRUE", "opNEWFALSE", "opBINBYTES", "opSHORT_BINBYTES", "opSHORT_BINUNICODE", "opEMPTY_SET", "opADDITEMS",
		"opSTACK_GLOBAL", "opMEMOIZE"}
	vals := map[string]int{}
	for _, d := range ops.AST.Decls {
		gd, ok := d.(*ast.GenDecl)
		if !ok || gd.Tok != token.CONST {
			continue
		}
		for _, sp := range gd.Specs {
			vs := sp.(*ast.ValueSpec)
			for i, n := range vs.Names {
				if i < len(vs.Values) {
					if bl, ok := vs.Values[i].(*ast.BasicLit); ok {
						if s, ok := lib.Unquote(bl); ok && len([]rune(s)) == 1 {
							vals[n.Name] = int([]rune(s)[0])
						}
					}
				}
			}
		}
	}
	var codes []int
	for _, w := range want {
		v, ok := vals[w]
		if !ok {
			o.Fail("opcode %s not found", w)
		}
		codes = append(codes, v)
	}
	o.Def("opcodes", "List Nat", lib.LeanNatList(codes))

	b2s := map[bool]string{true: "1", false: "0"}
	switch {
	case !encFirst:
		fmt.Println("decide=old")
	case eqUpToDate:
		fmt.Println("decide=d16")
	default:
		fmt.Println("decide=fixed")
	}
	fmt.Printf("cfg=%s%s%s%s%s%s\n", b2s[fixed], b2s[reencode], b2s[counter], b2s[builtinIdentity], b2s[signature], b2s[mandatory])
}

// extractor for C16 (diff/diff.go, diff/diff_slice.go, diff/types.go, function.go): regenerates
// lean/Dawn/Extracted/Diff.lean
package main

import (
	"flag"
	"fmt"
	"go/ast"
	"go/token"
	"os"
	"strconv"
	"strings"

	"verif/extract/lib"
)

func mentions(n ast.Node, names ...string) bool {
	found := false
	ast.Inspect(n, func(x ast.Node) bool {
		if id, ok := x.(*ast.Ident); ok {
			for _, nm := range names {
				if id.Name == nm {
					found = true
				}
			}
		}
		return !found
	})
	return found
}

func main() {
	repo := flag.String("repo", "/repo", "")
	out := flag.String("out", "", "")
	flag.Parse()
	o := lib.NewOut("Diff")
	defer func() {
		if err := o.Write(*out); err != nil {
			fmt.Fprintln(os.Stderr, err)
			os.Exit(1)
		}
	}()
	files := map[string]*lib.File{}
	for _, rel := range []string{"diff/diff.go", "diff/diff_slice.go", "diff/types.go", "function.go"} {
		f, err := lib.Parse(*repo, rel)
		if err != nil {
			o.Fail("parse %s: %v", rel, err)
			continue
		}
		files[rel] = f
	}
	body := func(file, fn, def string) *ast.FuncDecl {
		f := files[file]
		if f == nil {
			return nil
		}
		fd := f.Func(fn)
		if fd == nil {
			o.Fail("func %s not found in %s", fn, file)
			return nil
		}
		if def != "" {
			o.Def(def, "String", lib.LeanLongString(lib.NormFunc(fd)))
		}
		return fd
	}
	// 1. whole bodies of everything the model follows
	body("diff/diff.go", "Diff", "diffBody")
	body("diff/diff.go", "DiffDepth", "diffDepthBody")
	body("diff/diff.go", "diffMapping", "diffMappingBody")
	body("diff/diff_slice.go", "diffSlice", "diffSliceBody")
	body("diff/diff_slice.go", "slice", "sliceBody")
	body("diff/diff_slice.go", "indexReturnsSlice", "indexReturnsSliceBody")
	body("diff/diff_slice.go", "copySliceable", "copySliceableBody")
	body("diff/diff_slice.go", "diffReplacements", "diffReplacementsBody")
	body("diff/diff_slice.go", "differ.compose", "composeBody")
	body("diff/diff_slice.go", "differ.snake", "snakeBody")
	body("diff/diff_slice.go", "differ.recordSeq", "recordSeqBody")
	body("diff/diff_slice.go", "differ.extend", "extendBody")
	body("diff/diff_slice.go", "max", "maxBody")
	body("diff/types.go", "valueDiff.Old", "oldBody")
	body("diff/types.go", "valueDiff.New", "newBody")

	// 2. constants
	if f := files["diff/diff_slice.go"]; f != nil {
		found := false
		var kinds, editKinds []string
		for _, d := range f.AST.Decls {
			gd, ok := d.(*ast.GenDecl)
			if !ok {
				continue
			}
			for _, sp := range gd.Specs {
				vs, ok := sp.(*ast.ValueSpec)
				if !ok {
					continue
				}
				for i, id := range vs.Names {
					switch {
					case id.Name == "defaultRouteSize" && i < len(vs.Values):
						if bl, ok := vs.Values[i].(*ast.BasicLit); ok && bl.Kind == token.INT {
							if n, err := strconv.Atoi(bl.Value); err == nil {
								o.Def("defaultRouteSize", "Nat", strconv.Itoa(n))
								found = true
							}
						}
					case strings.HasPrefix(id.Name, "editKind") && gd.Tok == token.CONST && id.Name != "editKind":
						kinds = append(kinds, lib.LeanString(id.Name)) // iota order
					case id.Name == "editKinds" && i < len(vs.Values):
						if cl, ok := vs.Values[i].(*ast.CompositeLit); ok {
							for _, e := range cl.Elts {
								if id, ok := e.(*ast.Ident); ok {
									editKinds = append(editKinds, lib.LeanString(id.Name))
								}
							}
						}
					}
				}
			}
		}
		if !found {
			o.Fail("const defaultRouteSize not found")
		}
		o.Def("editKindOrder", "List String", "["+strings.Join(kinds, ", ")+"]")
		o.Def("editKinds", "List String", "["+strings.Join(editKinds, ", ")+"]")
	}
	// the depth snake compares elements with
	if fd := body("diff/diff_slice.go", "differ.snake", ""); fd != nil {
		var depths []int
		ast.Inspect(fd.Body, func(n ast.Node) bool {
			if c, ok := n.(*ast.CallExpr); ok {
				if sel, ok := c.Fun.(*ast.SelectorExpr); ok && sel.Sel.Name == "EqualDepth" && len(c.Args) == 3 {
					if bl, ok := c.Args[2].(*ast.BasicLit); ok {
						if n, err := strconv.Atoi(bl.Value); err == nil {
							depths = append(depths, n)
						}
					}
				}
			}
			return true
		})
		o.Def("snakeDepths", "List Nat", lib.LeanNatList(depths))
	}
	// the edit kind strings of types.go
	if f := files["diff/types.go"]; f != nil {
		var ks []string
		for _, d := range f.AST.Decls {
			gd, ok := d.(*ast.GenDecl)
			if !ok || gd.Tok != token.VAR {
				continue
			}
			for _, sp := range gd.Specs {
				vs, ok := sp.(*ast.ValueSpec)
				if !ok {
					continue
				}
				for i, id := range vs.Names {
					if strings.HasPrefix(id.Name, "EditKind") && i < len(vs.Values) {
						if bl, ok := vs.Values[i].(*ast.BasicLit); ok {
							if s, ok := lib.Unquote(bl); ok {
								ks = append(ks, "("+lib.LeanString(id.Name)+", "+lib.LeanString(s)+")")
							}
						}
					}
				}
			}
		}
		o.Def("editKindStrings", "List (String × String)", "["+strings.Join(ks, ", ")+"]")
	}
	// 3. function.go: functionEnvKeys, the depths diffEnv uses, and the skeleton that builds the reason
	if f := files["function.go"]; f != nil {
		var keys []string
		for _, d := range f.AST.Decls {
			gd, ok := d.(*ast.GenDecl)
			if !ok {
				continue
			}
			for _, sp := range gd.Specs {
				vs, ok := sp.(*ast.ValueSpec)
				if !ok || len(vs.Names) != 1 || vs.Names[0].Name != "functionEnvKeys" || len(vs.Values) != 1 {
					continue
				}
				if cl, ok := vs.Values[0].(*ast.CompositeLit); ok {
					for _, e := range cl.Elts {
						if bl, ok := e.(*ast.BasicLit); ok {
							if s, ok := lib.Unquote(bl); ok {
								keys = append(keys, lib.LeanString(s))
							}
						}
					}
				}
			}
		}
		if len(keys) == 0 {
			o.Fail("functionEnvKeys not found")
		}
		o.Def("functionEnvKeys", "List String", "["+strings.Join(keys, ", ")+"]")
		if fd := f.Func("function.diffEnv"); fd == nil {
			o.Fail("func function.diffEnv not found")
		} else {
			var depths []int
			var calls []string
			ast.Inspect(fd.Body, func(n ast.Node) bool {
				c, ok := n.(*ast.CallExpr)
				if !ok {
					return true
				}
				sel, ok := c.Fun.(*ast.SelectorExpr)
				if !ok {
					return true
				}
				pkg, _ := sel.X.(*ast.Ident)
				if pkg == nil || (pkg.Name != "starlark" && pkg.Name != "diff") {
					return true
				}
				// every comparison and diff diffEnv makes, with its depth budget ("default" when the call has none:
				// starlark.Equal and diff.Diff use starlark.CompareLimit)
				switch sel.Sel.Name {
				case "EqualDepth", "DiffDepth":
					budget := "?"
					if len(c.Args) == 3 {
						if bl, ok := c.Args[2].(*ast.BasicLit); ok {
							budget = bl.Value
							if n, err := strconv.Atoi(bl.Value); err == nil {
								depths = append(depths, n)
							}
						}
					}
					calls = append(calls, "("+lib.LeanString(pkg.Name+"."+sel.Sel.Name)+", "+lib.LeanString(budget)+")")
				case "Equal", "Diff", "Compare", "CompareDepth":
					calls = append(calls, "("+lib.LeanString(pkg.Name+"."+sel.Sel.Name)+", \"default\")")
				}
				return true
			})
			o.Def("diffEnvDepths", "List Nat", lib.LeanNatList(depths))
			o.Def("diffEnvCalls", "List (String × String)", "["+strings.Join(calls, ", ")+"]")
			// the outcomes of diffEnv (every return with the condition it sits under) and the part that turns the
			// mapping diff into the reason
			keep := func(s ast.Stmt) bool {
				if _, ok := s.(*ast.ReturnStmt); ok {
					return true // every outcome of diffEnv, with the condition it is returned under
				}
				return mentions(s, "reasons", "reason", "functionEnvKeys", "md")
			}
			o.Def("reasonSkeleton", "String", lib.LeanLongString(lib.NormFuncKeep(fd, keep)))
		}
	}
}

// extractor for util/glob.go (C17): regenerates lean/Dawn/Extracted/Glob.lean
package main

import (
	"flag"
	"fmt"
	"go/ast"
	"os"
	"strings"

	"verif/extract/lib"
)

func main() {
	repo := flag.String("repo", "/repo", "")
	out := flag.String("out", "", "")
	flag.Parse()
	o := lib.NewOut("Glob")
	defer func() {
		if err := o.Write(*out); err != nil {
			fmt.Fprintln(os.Stderr, err)
			os.Exit(1)
		}
	}()
	f, err := lib.Parse(*repo, "util/glob.go")
	if err != nil {
		o.Fail("parse util/glob.go: %v", err)
		return
	}
	fd := f.Func("CompileGlobs")
	if fd == nil {
		o.Fail("func CompileGlobs not found")
		return
	}
	// 1. every literal written to the pattern builder, in source order
	var writes []string
	// 2. every case clause's literal list, in source order
	var cases []string
	ast.Inspect(fd.Body, func(n ast.Node) bool {
		switch n := n.(type) {
		case *ast.CallExpr:
			if sel, ok := n.Fun.(*ast.SelectorExpr); ok && strings.HasPrefix(sel.Sel.Name, "Write") && len(n.Args) == 1 {
				if bl, ok := n.Args[0].(*ast.BasicLit); ok {
					if s, ok := lib.Unquote(bl); ok {
						writes = append(writes, lib.LeanString(s))
					}
				}
			}
		case *ast.CaseClause:
			var rs []rune
			for _, e := range n.List {
				if bl, ok := e.(*ast.BasicLit); ok {
					if s, ok := lib.Unquote(bl); ok {
						rs = append(rs, []rune(s)...)
					}
				}
			}
			if n.List != nil {
				cases = append(cases, lib.LeanCharList(rs))
			}
		}
		return true
	})
	o.Def("writes", "List String", "["+strings.Join(writes, ", ")+"]")
	o.Def("cases", "List (List Char)", "["+strings.Join(cases, ",\n   ")+"]")
	o.Def("body", "String", lib.LeanLongString(lib.NormFunc(fd)))

	// the users of glob sets: both glob() builtins, the ignore test and the package walk that consults it
	for _, u := range []struct{ file, fn, def string }{
		{"project_builtins.go", "Project.builtin_glob", "builtinGlobBody"},
		{"lib/os/glob.go", "glob", "osGlobBody"},
		{"project.go", "Project.ignored", "ignoredBody"},
		{"project.go", "Project.loadPackage", "loadPackageBody"},
		{"project.go", "Project.Watch", "watchBody"},
		{"function.go", "function.newThread", "newThreadBody"},
		{"util/cwd.go", "Getwd", "getwdBody"},
	} {
		uf, err := lib.Parse(*repo, u.file)
		if err != nil {
			o.Fail("parse %s: %v", u.file, err)
			continue
		}
		ufd := uf.Func(u.fn)
		if ufd == nil {
			o.Fail("func %s not found in %s", u.fn, u.file)
			continue
		}
		o.Def(u.def, "String", lib.LeanLongString(lib.NormFunc(ufd)))
	}
}

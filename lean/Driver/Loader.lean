import Driver.Common
import Dawn.Model.Loader
import Std.Data.HashSet
import Std.Data.HashMap
/-! driver for the module-loader model: one request per line, one answer per line

    trace <ver> <graph> <events>   validate an observed trace of the real loader step by step against `Loader.next`
                                   → `ok <final>` | `reject <event index> <event> <why>`
    outcomes <ver> <graph>         every terminal outcome of the model (exhaustive search over all interleavings)
                                   → `ok <n states> <final>|<final>|…` (sorted; contains `DEADLOCK` if a stuck state is reachable)
    deadlock <ver> <graph>         a shortest schedule into a state where no goroutine can move and some has not returned
                                   → `ok none <n states>` | `ok <tid>,<tid>,…` (one entry per observable step)

  ver    = `w` (module.wait as written) | `f` (fixed) | `s`, `u` (regression variants of the fixed code: Signal instead of
           Broadcast; unlocked `if !loaded { Lock; Wait }`)
  graph  = `<roots>/<loads>[/<broken>]`: roots = module ids of the BUILD files, one goroutine each; loads = `;`-separated
           load lists of modules 0,1,2,… (`-` = none); broken = modules whose environment cannot be set up,
           e.g. `0,1/2;2;3;-`; with broken module 2: roots `0,1`, loads `2;2;-`, then `/2`
  events = `t.call.d.new|found` `t.set.x.d|nil` `t.exec.d` `t.get.c.r|nil` `t.wlocked.d` `t.cyclic.d` `t.block.d`
           `t.done.m.ok|fail` `t.woke.d` `t.end`   (comma separated, `-` for none)
  final  = `class=<ok|cyclic|other|mixed> execs=<m:n,…> ok=<m,…> failed=<m,…>` | `DEADLOCK` | `incomplete`
           (class: which errors the finished modules carry — cyclic-dependency, other, or both) -/
open Dawn.Loader Driver

structure Graph where
  roots : List Mod
  loads : List (List Mod)
  broken : List Mod

def Graph.project (g : Graph) : Project :=
  { loads := fun m => g.loads.getD m [], roots := g.roots, broken := fun m => g.broken.contains m }

def parseNats (s : String) : Option (List Nat) :=
  if s == "-" || s == "" then some [] else (s.splitOn ",").mapM String.toNat?

def parseGraph (s : String) : Option Graph :=
  match s.splitOn "/" with
  | [r, l] => do
    let roots ← parseNats r
    let loads ← (l.splitOn ";").mapM parseNats
    some ⟨roots, loads, []⟩
  | [r, l, b] => do
    let roots ← parseNats r
    let loads ← (l.splitOn ";").mapM parseNats
    let broken ← parseNats b
    some ⟨roots, loads, broken⟩
  | _ => none

def parseVer (s : String) : Option Version :=
  if s == "w" then some .asWritten else if s == "f" then some .fixed
  else if s == "s" then some .signalDone else if s == "u" then some .unlockedCheck else none

def commaJoin (xs : List String) : String := if xs.isEmpty then "-" else ",".intercalate xs

def finalStr (g : Graph) (s : State) : String :=
  let ms := List.range g.loads.length
  let anyCyc := ms.any fun m => s.loaded m && s.result m == .cyc
  let anyErr := ms.any fun m => s.loaded m && s.result m == .err
  let cls := if anyCyc && anyErr then "mixed" else if anyCyc then "cyclic" else if anyErr then "other" else "ok"
  let ex := ms.map fun m => s!"{m}:{s.execs m}"
  let ok := (ms.filter fun m => s.loaded m && !failed s m).map toString
  let fl := (ms.filter fun m => s.loaded m && failed s m).map toString
  s!"class={cls} execs={commaJoin ex} ok={commaJoin ok} failed={commaJoin fl}"

/-- steps that have no observable event of their own -/
def silent (v : Version) (s : State) (t : Tid) : Bool :=
  match s.pc t with
  | .run => true
  | .setNew _ | .setFound _ => (top s t).isNone
  | .enter _ => v == .fixed && (top s t).isNone
  | .walk _ none => true
  | .check d => s.loaded d
  | .sleep d => s.loaded d
  | _ => false

inductive Ev where
  | call (d : Mod) (found : Bool)
  | set (x : Mod) (d : Option Mod)
  | exec (d : Mod)
  | get (c : Mod) (r : Option Mod)
  | wlocked (d : Mod)
  | cyclic (d : Mod)
  | block (d : Mod)
  | done (m : Mod) (ok : Bool)
  | woke (d : Mod)
  | fin

def parseOptMod (s : String) : Option (Option Mod) := if s == "nil" then some none else s.toNat?.map some

def parseEv (s : String) : Option (Tid × Ev) :=
  match s.splitOn "." with
  | [t, "call", d, r] => do some (← t.toNat?, .call (← d.toNat?) (r == "found"))
  | [t, "set", x, d] => do some (← t.toNat?, .set (← x.toNat?) (← parseOptMod d))
  | [t, "exec", d] => do some (← t.toNat?, .exec (← d.toNat?))
  | [t, "get", c, r] => do some (← t.toNat?, .get (← c.toNat?) (← parseOptMod r))
  | [t, "wlocked", d] => do some (← t.toNat?, .wlocked (← d.toNat?))
  | [t, "cyclic", d] => do some (← t.toNat?, .cyclic (← d.toNat?))
  | [t, "block", d] => do some (← t.toNat?, .block (← d.toNat?))
  | [t, "done", m, r] => do some (← t.toNat?, .done (← m.toNat?) (r == "ok"))
  | [t, "woke", d] => do some (← t.toNat?, .woke (← d.toNat?))
  | [t, "end"] => do some (← t.toNat?, .fin)
  | _ => none

/-- is the thread at the statement this event is produced by? -/
def accepts (v : Version) (s : State) (t : Tid) : Ev → Bool
  | .call d _ => s.pc t == .call d
  | .set x (some d) => (s.pc t == .setNew d || s.pc t == .setFound d) && top s t == some x
  | .set x none => (match s.pc t with | .unset _ => true | _ => false) && top s t == some x
  | .exec d => s.pc t == .load d
  | .get c _ => v == .fixed && (match s.pc t with
      | .enter d => d == c && (top s t).isSome
      | .walk _ (some c') => c' == c && top s t != some c'
      | _ => false)
  | .wlocked d => (match v with | .asWritten => s.pc t == .enter d | _ => s.pc t == .wlock d)
  | .cyclic d => (match s.pc t with | .walk d' (some c) => d' == d && top s t == some c | _ => false)
  | .block d => (match v with | .asWritten => s.pc t == .check d && !s.loaded d | _ => s.pc t == .sleep d)
  | .done m ok => (match s.pc t with | .fin r => top s t == some m && (r == .ok) == ok | _ => false)
  | .woke d => s.pc t == .sleep d
  | .fin => (match s.pc t with | .unset _ => (s.stack t).isEmpty | _ => false)

/-- after the step: does the model agree with what the code observed? -/
def agrees (v : Version) (s' : State) (t : Tid) : Ev → Bool
  | .call d found => s'.pc t == (if found then .setFound d else .setNew d)
  | .get _ r => (match s'.pc t with | .walk _ cur => cur == r | _ => false)
  | .block d => s'.pc t == .sleep d
  | .fin => s'.pc t == .finished
  | _ => (v == v)

def applyEvent (v : Version) (P : Project) (s : State) (t : Tid) (e : Ev) : Except String State :=
  let rec go (fuel : Nat) (s : State) : Except String State :=
    if accepts v s t e then
      -- in the fixed code the `wlock` step has already gone to sleep (test and Wait are one critical section); the
      -- `block` event only confirms it
      let confirmOnly := match e, v with
        | .block _, .asWritten => false
        | .block _, _ => true
        | _, _ => false
      if confirmOnly then .ok s
      else
        match next v P s t with
        | none => .error "not enabled in the model"
        | some s' => if agrees v s' t e then .ok s' else .error s!"the model observes something else (pc {repr (s'.pc t)})"
    else match fuel with
      | 0 => .error s!"thread is not at that statement in the model (pc {repr (s.pc t)})"
      | fuel + 1 =>
        if silent v s t then
          match next v P s t with
          | some s' => go fuel s'
          | none => .error s!"thread is blocked in the model (pc {repr (s.pc t)})"
        else .error s!"thread is not at that statement in the model (pc {repr (s.pc t)})"
  go 4 s

def settle (v : Version) (P : Project) (n : Nat) (s : State) : State := Id.run do
  let mut s := s
  for _ in [0:4 * n + 4] do
    for t in [0:n] do
      if silent v s t then
        if let some s' := next v P s t then s := s'
  return s

def verdict (v : Version) (g : Graph) (s : State) : String :=
  let P := g.project
  if !unfinished P s then finalStr g s
  else if stuck v P s then "DEADLOCK" else "incomplete"

def runTrace (v : Version) (g : Graph) (evs : List String) : String :=
  let P := g.project
  let rec go (s : State) (i : Nat) : List String → String
    | [] => "ok " ++ verdict v g (settle v P g.roots.length s)
    | e :: es => match parseEv e with
      | none => s!"reject {i} {e} bad event"
      | some (t, ev) => match applyEvent v P s t ev with
        | .ok s' => go s' (i + 1) es
        | .error _ =>
          -- another thread may still have to take a step that has no event of its own (e.g. the deferred Unlock
          -- when `wait` returns at once): let every thread take its unobservable steps, then try again
          match applyEvent v P (settle v P g.roots.length s) t ev with
          | .ok s' => go s' (i + 1) es
          | .error why => s!"reject {i} {e} {why}"
  go (init P) 0 evs

/-- canonical key of a state over the threads and modules of the request (ghost clocks do not influence `next`) -/
def stateKey (g : Graph) (s : State) : String :=
  let ms := List.range g.loads.length
  let ts := List.range g.roots.length
  let m := ms.map fun m => s!"{s.registry m}{s.loading m}{s.loaded m}{repr (s.result m)}{s.mlock m}{s.execs m}{s.asleep m}"
  let t := ts.map fun t => s!"{repr (s.pc t)}{(s.stack t).map fun f => (f.mod, f.todo.length)}"
  s!"{m}{t}"

/-- breadth-first search over all interleavings; returns the number of states, the terminal verdicts, and a shortest
schedule (observable steps only) into a deadlock if there is one -/
partial def explore (v : Version) (g : Graph) : Nat × List String × Option (List Tid) :=
  let P := g.project
  let n := g.roots.length
  let rec go (frontier : List (State × List Tid)) (nextF : List (State × List Tid)) (seen : Std.HashSet String)
      (fin : Std.HashSet String) (dl : Option (List Tid)) : Nat × List String × Option (List Tid) :=
    match frontier with
    | [] => if nextF.isEmpty then (seen.size, fin.toList.mergeSort, dl) else go nextF.reverse [] seen fin dl
    | (s, path) :: rest =>
      let succ := (List.range n).filterMap fun t => (next v P s t).map fun s' => (t, s')
      if succ.isEmpty then
        let vd := verdict v g s
        let dl' := if vd == "DEADLOCK" && dl.isNone then some path.reverse else dl
        go rest nextF seen (fin.insert vd) dl'
      else
        let (nextF', seen') := succ.foldl (fun (acc : List (State × List Tid) × Std.HashSet String) (t, s') =>
          let k := stateKey g s'
          if acc.2.contains k then acc
          else ((s', if silent v s t then path else t :: path) :: acc.1, acc.2.insert k)) (nextF, seen)
        go rest nextF' seen' fin dl
  let s0 := init P
  go [(s0, [])] [] (Std.HashSet.emptyWithCapacity.insert (stateKey g s0)) Std.HashSet.emptyWithCapacity none

def step (line : String) : String :=
  match line.splitOn " " with
  | ["trace", v, g, evs] => match parseVer v, parseGraph g with
    | some v, some g => runTrace v g (if evs == "-" then [] else evs.splitOn ",")
    | _, _ => "bad-input"
  | ["outcomes", v, g] => match parseVer v, parseGraph g with
    | some v, some g => let (n, fs, _) := explore v g; s!"ok {n} {"|".intercalate fs}"
    | _, _ => "bad-input"
  | ["deadlock", v, g] => match parseVer v, parseGraph g with
    | some v, some g =>
      let (n, _, dl) := explore v g
      match dl with
      | some p => s!"ok {commaJoin (p.map toString)}"
      | none => s!"ok none {n}"
    | _, _ => "bad-input"
  | _ => "bad-op"

def main : IO Unit := mainLoop step

import Driver.Common
import Dawn.Model.Diff
/-! driver for the diff model: one request per line, one answer per line

    diff  <depth> <old> <new>              → rendering of `DiffDepth(old, new, depth)`
    diffr <routeSize> <depth> <old> <new>  → the same with `routeSize` instead of `defaultRouteSize` (restart path)
    diffold <depth> <old> <new>            → `DiffDepth` as it was before the repair of D5 (sides after the swap)
    eq    <depth> <a> <b>                  → `true` | `false` | `err depth`
    env   <0|1> <old|none> <new>           1: the two environments have the same encoding
                                           → `never` | `same` | `changed <hex of reason> <diff>` | `changed-opaque` | `error <hex>` | `panic`

  values:  n None, T / F booleans, i<decimal> int, s<hex> string, b<hex> bytes (`s-`, `b-` empty), t(v,…) tuple, l(v,…) list, d(k:v,…) dict
  diffs:   nil | L(old,new) | S(old,new,[e;…]) | M(old,new,{k>e;…})
  edits:   -<values> delete, =<values> common, +<values> add (values as a string, bytes or tuple value),
           ~(d,…) replace with d a diff or N (None)
-/
open Dawn.Diff Driver

partial def parseVal : List Char → Option (Val × List Char)
  | 'n' :: rest => some (.none, rest)
  | 'T' :: rest => some (.bool true, rest)
  | 'F' :: rest => some (.bool false, rest)
  | 'i' :: '-' :: rest =>
    let ds := rest.takeWhile Char.isDigit
    (String.ofList ds).toNat?.map fun n => (.int (-(n : Int)), rest.drop ds.length)
  | 'i' :: rest =>
    let ds := rest.takeWhile Char.isDigit
    (String.ofList ds).toNat?.map fun n => (.int n, rest.drop ds.length)
  | 's' :: rest => parseHex rest fun b => .str b
  | 'b' :: rest => parseHex rest fun b => .bytes b
  | 't' :: '(' :: rest => (parseList rest).map fun (xs, r) => (.tuple xs, r)
  | 'l' :: '(' :: rest => (parseList rest).map fun (xs, r) => (.list xs, r)
  | 'd' :: '(' :: rest => (parsePairs rest).map fun (xs, r) => (.dict xs, r)
  | _ => none
where
  parseHex (cs : List Char) (mk : List UInt8 → Val) : Option (Val × List Char) :=
    match cs with
    | '-' :: rest => some (mk [], rest)
    | _ =>
      let h := cs.takeWhile fun c => (hexVal c).isSome
      match unhex (String.ofList h) with
      | some b => if h.isEmpty then none else some (mk b.toList, cs.drop h.length)
      | none => none
  parseList (cs : List Char) : Option (List Val × List Char) :=
    match cs with
    | ')' :: rest => some ([], rest)
    | _ => match parseVal cs with
      | none => none
      | some (v, ',' :: rest) => (parseList rest).map fun (vs, r) => (v :: vs, r)
      | some (v, ')' :: rest) => some ([v], rest)
      | _ => none
  parsePairs (cs : List Char) : Option (List (Val × Val) × List Char) :=
    match cs with
    | ')' :: rest => some ([], rest)
    | _ => match parseVal cs with
      | some (k, ':' :: rest) => match parseVal rest with
        | some (v, ',' :: rest) => (parsePairs rest).map fun (vs, r) => ((k, v) :: vs, r)
        | some (v, ')' :: rest) => some ([(k, v)], rest)
        | _ => none
      | _ => none

def parseValue (s : String) : Option Val :=
  match parseVal s.toList with
  | some (v, []) => some v
  | _ => none

partial def showVal : Val → String
  | .none => "n"
  | .bool true => "T"
  | .bool false => "F"
  | .int i => "i" ++ toString i
  | .str s => "s" ++ hexBytes s
  | .bytes s => "b" ++ hexBytes s
  | .tuple xs => "t(" ++ ",".intercalate (xs.map showVal) ++ ")"
  | .list xs => "l(" ++ ",".intercalate (xs.map showVal) ++ ")"
  | .dict kvs => "d(" ++ ",".intercalate (kvs.map fun (k, v) => showVal k ++ ":" ++ showVal v) ++ ")"

mutual
partial def showDiff : VDiff → String
  | .lit o n => "L(" ++ showVal o ++ "," ++ showVal n ++ ")"
  | .slice o n es => "S(" ++ showVal o ++ "," ++ showVal n ++ ",[" ++ ";".intercalate (es.map (showEdit o n)) ++ "])"
  | .mapping o n es => "M(" ++ showVal o ++ "," ++ showVal n ++ ",{" ++
      ";".intercalate (es.map fun (k, e) => showVal k ++ ">" ++ showEdit (.tuple []) (.tuple []) e) ++ "})"
/-- the values of a delete or common edit are a slice of the old sequence, those of an add a slice of the new one -/
partial def showEdit (o n : Val) : Edit Val VDiff → String
  | .delete vs => "-" ++ showVal (o.reslice vs)
  | .common vs => "=" ++ showVal (o.reslice vs)
  | .add vs => "+" ++ showVal (n.reslice vs)
  | .replace ds => "~(" ++ ",".intercalate (ds.map fun | none => "N" | some d => showDiff d) ++ ")"
end

def showErr : Err → String
  | .depth => "err depth"
  | .indexPanic => "err panic"
  | .outOfFuel => "err fuel"

def showResult : Except Err (Option VDiff) → String
  | .error e => showErr e
  | .ok none => "nil"
  | .ok (some d) => showDiff d

/-- before the repair of D5 the sides of a slice diff were exchanged; its edits still refer to old and new -/
def step (line : String) : String :=
  match line.splitOn " " with
  | ["diff", d, a, b] => match d.toNat?, parseValue a, parseValue b with
    | some d, some a, some b => showResult (diffDepth d a b)
    | _, _, _ => "bad-input"
  | ["diffr", rs, d, a, b] => match rs.toNat?, d.toNat?, parseValue a, parseValue b with
    | some rs, some d, some a, some b => showResult (diffDepthWith rs false d a b)
    | _, _, _, _ => "bad-input"
  | ["diffold", d, a, b] => match d.toNat?, parseValue a, parseValue b with
    | some d, some a, some b => showResult (diffDepthWith defaultRouteSize true d a b)
    | _, _, _ => "bad-input"
  | ["eq", d, a, b] => match d.toNat?, parseValue a, parseValue b with
    | some d, some a, some b => match equalDepth d a b with
      | .ok true => "true"
      | .ok false => "false"
      | .error e => showErr e
    | _, _, _ => "bad-input"
  | ["env", se, o, n] =>
    let old := if o == "none" then some none else (parseValue o).map some
    match old, parseValue n with
    | some old, some new => match diffEnv old (se == "1") new with
      | .neverRun => "never"
      | .same => "same"
      | .changed r d => "changed " ++ hexStr r ++ " " ++ showDiff d
      | .changedOpaque => "changed-opaque"
      | .error e => "error " ++ hexStr e
      | .panic => "panic"
    | _, _ => "bad-input"
  | _ => "bad-op"

def main : IO Unit := mainLoop step

import Driver.Common
import Dawn.Model.Env
/-! driver for the environment-fingerprint model: one request per line, one answer per line

    fp <cfg> <root> <heap>            → `ok <hex of the bytes>` | `err outOfFuel` | `err badRef`
    ops <cfg> <root> <heap>           → `ok <number of opcodes> <number of MEMOIZE> <number of Recursive markers>`
    eq <limit> <x> <y> <heap>         → `ok 0|1` | `err depth`        (`starlark.EqualDepth`, both values in one heap)
    reason <old|safe> <hex key>,…     → `ok <hex reason>` | `panic`   (reason text of `diffEnv` for a diff with these top-level keys)
    decide <old|d16|fixed> <same 0|1> <x> <y> <heap> → `upToDate` | `rerun` | `buildError`   (`diffEnv`; `-` for x = never run)

  <cfg> is six characters 0/1: per-encoding pickler, batch re-encode, counter memo ids, builtin identity, signature,
  mandatory placeholder (which version of function.go / pickle/encode.go the tree has; from the extractor).
  value:  n | T | F | i<decimal> | d<16 hex digits> | s<hex> | y<hex> | r<address>
  heap:   objects separated by `;`:  t:<v>,… tuple   l:<v>,… list   m:<k>,<v>,… dict   e:<v>,… set
          g:<hex label> target   b:<hex name>,<receiver v> builtin   M mandatory placeholder   x unpicklable
          c:<hex name>,<module v>,<globals v>,<hex bytecode>,<signature v>   f:<hex name>,<defaults v>,<freevars v>,<code v>
          (`-` is the empty byte string, `.` the empty heap) -/
open Dawn.Env Driver

def parseBytes (s : String) : Option Bytes := (unhex s).map (·.toList)

def parseHex64 (s : String) : Option UInt64 := do
  let b ← unhex s
  if b.size ≠ 8 then none else
  some (b.foldl (fun acc x => acc * 256 + x.toUInt64) 0)

def parseVal (s : String) : Option Val :=
  match s.toList with
  | ['n'] => some (.atom .none)
  | ['T'] => some (.atom (.bool true))
  | ['F'] => some (.atom (.bool false))
  | 'i' :: rest => (String.ofList rest).toInt?.map fun i => .atom (.int i)
  | 'd' :: rest => (parseHex64 (String.ofList rest)).map fun b => .atom (.float b)
  | 's' :: rest => (parseBytes (String.ofList rest)).map fun b => .atom (.str b)
  | 'y' :: rest => (parseBytes (String.ofList rest)).map fun b => .atom (.bytes b)
  | 'r' :: rest => (String.ofList rest).toNat?.map .ref
  | _ => none

def parseVals (s : String) : Option (List Val) :=
  if s.isEmpty then some [] else (s.splitOn ",").mapM parseVal

def pairUp : List Val → Option (List (Val × Val))
  | [] => some []
  | k :: v :: rest => (pairUp rest).map ((k, v) :: ·)
  | _ => none

def parseObj (s : String) : Option Obj :=
  if s == "M" then some .mandatory else
  if s == "x" then some .other else
  match s.splitOn ":" with
  | ["t", vs] => (parseVals vs).map .tuple
  | ["l", vs] => (parseVals vs).map .list
  | ["e", vs] => (parseVals vs).map .set
  | ["m", vs] => (parseVals vs).bind pairUp |>.map .dict
  | ["g", l] => (parseBytes l).map .target
  | ["b", rest] => match rest.splitOn "," with
    | [n, r] => do
      let n ← parseBytes n; let r ← parseVal r
      some (.builtin n r)
    | _ => none
  | ["c", rest] => match rest.splitOn "," with
    | [n, m, gl, bc, sg] => do
      let n ← parseBytes n; let m ← parseVal m; let gl ← parseVal gl; let bc ← parseBytes bc; let sg ← parseVal sg
      some (.code n m gl bc sg)
    | _ => none
  | ["f", rest] => match rest.splitOn "," with
    | [n, d, fv, c] => do
      let n ← parseBytes n; let d ← parseVal d; let fv ← parseVal fv; let c ← parseVal c
      some (.func n d fv c)
    | _ => none
  | _ => none

def parseHeap (s : String) : Option Heap :=
  if s == "." then some [] else (s.splitOn ";").mapM parseObj

def parseCfg (s : String) : Option Cfg :=
  match s.toList with
  | [a, b, c, d, e, f] =>
    some { fixed := a == '1', reencode := b == '1', memoCounter := c == '1',
           builtinIdentity := d == '1', signature := e == '1', mandatory := f == '1' }
  | _ => none

def errStr : Err → String
  | .outOfFuel => "err outOfFuel"
  | .badRef => "err badRef"
  | .cannotPickle => "err cannotPickle"

/-- Fuel the driver hands to the model. For the repaired pickler it is the bound of `C08_terminates`. The
original pickler does not return on a function that reaches itself (`C08_recursive_counterexample`: out of
fuel for EVERY fuel), so there the driver stops at a depth no returning walk of the generated graphs needs
(more fuel never turns a result into `outOfFuel`, only the reverse). -/
def fuelFor (cfg : Cfg) (g : Heap) : Nat :=
  if cfg.fixed then fuelBound g else 4 * (g.length + 1) + 100

def fingerprintD (cfg : Cfg) (g : Heap) (root : Val) : Except Err Bytes :=
  (encodeOps cfg g (fuelFor cfg g) root).map serAll

def isRecursive : List Op → Nat
  | .str s :: rest => (if s == nameRecursive then 1 else 0) + isRecursive rest
  | _ :: rest => isRecursive rest
  | [] => 0

def step (line : String) : String :=
  match line.splitOn " " with
  | ["fp", cfg, root, heap] =>
    match parseCfg cfg, parseVal root, parseHeap heap with
    | some cfg, some r, some g =>
      match fingerprintD cfg g r with
      | .ok bs => "ok " ++ hexBytes bs
      | .error e => errStr e
    | _, _, _ => "bad-input"
  | ["ops", cfg, root, heap] =>
    match parseCfg cfg, parseVal root, parseHeap heap with
    | some cfg, some r, some g =>
      match encodeOps cfg g (fuelFor cfg g) r with
      | .ok ops => s!"ok {ops.length} {(ops.filter (· == .memoize)).length} {isRecursive ops}"
      | .error e => errStr e
    | _, _, _ => "bad-input"
  | ["eq", limit, x, y, heap] =>
    match limit.toNat?, parseVal x, parseVal y, parseHeap heap with
    | some l, some x, some y, some g =>
      match equalDepth g g l x y with
      | .ok b => if b then "ok 1" else "ok 0"
      | .error _ => "err depth"
    | _, _, _, _ => "bad-input"
  | ["decide", which, same, x, y, heap] =>
    match parseVal y, parseHeap heap with
    | some y, some g =>
      let new : EnvRec := { data := [1], heap := g, root := y }
      let old : Option (Option EnvRec) :=
        if x == "-" then some none else
        (parseVal x).map fun x => some { data := if same == "1" then [1] else [0], heap := g, root := x }
      match old with
      | none => "bad-input"
      | some old =>
        let d := if which == "fixed" then diffEnvFixed old new
                 else if which == "d16" then diffEnvD16 old new else diffEnvOld old new
        match d with
        | .upToDate => "upToDate"
        | .rerun _ => "rerun"
        | .buildError _ => "buildError"
    | _, _ => "bad-input"
  | ["reason", rule, keys] =>
    match (if keys == "-" then some [] else (keys.splitOn ",").mapM unhexStr) with
    | none => "bad-input"
    | some ks =>
      if rule == "old" then
        match reasonForOld ks with
        | some r => "ok " ++ hexStr r
        | none => "panic"
      else "ok " ++ hexStr (reasonFor ks)
  | _ => "bad-op"

def main : IO Unit := mainLoop step

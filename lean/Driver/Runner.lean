import Driver.Common
import Dawn.Model.Runner
import Std.Data.HashSet
/-! driver for the runner model: one request per line, one answer per line

    trace <params> <events>       → `ok <summary>` when every recorded event of the implementation is the enabled
                                     step of that thread in the model (observed values equal) and the run is complete;
                                     `fail <index> <event> <reason>` otherwise
    final <params> <summary>      → `ok` when a final state reported by the implementation satisfies the conclusions of
                                     the theorems (outcome specification, counts, slots, cycle report), else `bad <reason>`
    bfs <params> <maxstates>      → `ok states=… complete=… stuck=… terminals=…` exhaustive exploration of the model
    sched <params> <maxstates> <maxpaths> → `ok states=… scheds=<s1>;<s2>;…` schedules (thread names joined by `.`)
                                     along the breadth-first tree: shortest traces to the model's states

  params: `<n>;<cap>;<root>;<deps>;<known>;<body>`, deps per label `a.b.c` or `-`, joined by `/`.
  events: comma separated `<thread>/<kind>[:<arg>…]`, thread `m` = the caller of Run, otherwise a label. -/
open Dawn.Runner

namespace RunnerDriver

structure G where
  n : Nat
  P : Params

def parseNat? (s : String) : Option Nat := s.toNat?

def parseBits (s : String) : List Bool := s.toList.map (· == '1')

def parseParams (s : String) : Option G := do
  match s.splitOn ";" with
  | [n, cap, root, deps, known, body] =>
    let n ← parseNat? n
    let cap ← parseNat? cap
    let root ← parseNat? root
    let ds ← (deps.splitOn "/").mapM fun d =>
      if d == "-" then some [] else (d.splitOn ".").mapM parseNat?
    let dsA := ds.toArray
    let kA := (parseBits known).toArray
    let bA := (parseBits body).toArray
    if dsA.size ≠ n ∨ kA.size ≠ n ∨ bA.size ≠ n then none else
    some { n := n, P := { deps := fun l => dsA.getD l [], known := fun l => kA.getD l false,
                          bodyOk := fun l => bA.getD l true, cap := cap, root := root } }
  | _ => none

/-- keep the closures of a state flat: re-tabulate every field over the labels `< n` -/
structure Tab (α : Type) where
  arr : Array α
  dflt : α

def Tab.get {α : Type} (t : Tab α) (x : Label) : α := t.arr.getD x t.dflt

/-- returns a structure (not a function), so the table is built when `mkTab` is called and
    `(mkTab n f d).get` is a closure over the finished table -/
def mkTab {α : Type} (n : Nat) (f : Label → α) (dflt : α) : Tab α := ⟨((List.range n).map f).toArray, dflt⟩

def normalize (n : Nat) (s : State) : State :=
  let status := mkTab n s.status .idle
  let err := mkTab n s.err .none
  let waiting := mkTab n s.waiting none
  let pc := mkTab n s.pc none
  let loads := mkTab n s.loads 0
  let evals := mkTab n s.evals 0
  let holds := mkTab n s.holds false
  let cyc := mkTab n s.cyc false
  let ptime := mkTab n s.ptime 0
  let ftime := mkTab n s.ftime 0
  { s with status := status.get, err := err.get, waiting := waiting.get, pc := pc.get, loads := loads.get,
           evals := evals.get, holds := holds.get, cyc := cyc.get, ptime := ptime.get,
           seen := fun _ => [], expd := fun _ => [], ftime := ftime.get }

def gnormalize (n : Nat) (g : GState) : GState :=
  let asleep := mkTab n g.asleep false
  { core := normalize n g.core, asleep := asleep.get, gateQ := g.gateQ }

def errName : Err → String
  | .none => "none" | .unknown => "unknown" | .depFailed => "depFailed" | .body => "body"

def errCh : Err → Char
  | .none => 'n' | .unknown => 'u' | .depFailed => 'd' | .body => 'b'

def statusName : Status → String
  | .idle => "idle" | .running => "running" | .succeeded => "succeeded" | .failed => "failed"

def statusCh : Status → Char
  | .idle => 'i' | .running => 'r' | .succeeded => 's' | .failed => 'f'

def labels (l : List Label) : String := ".".intercalate (l.map toString)

def pcKey : PC → String
  | .enter1 => "a" | .load => "b" | .evalStart => "c" | .exit1 => "d"
  | .startDeps t => "e" ++ labels t
  | .walk t => "f" ++ labels t
  | .waitDeps t hs => "g" ++ labels t ++ "|" ++ String.ofList (hs.map errCh)
  | .unpubCyc => "h"
  | .enter2 r => "i" ++ (match r with | none => "!" | some hs => String.ofList (hs.map errCh))
  | .evalRest r => "j" ++ (match r with | none => "!" | some hs => String.ofList (hs.map errCh))
  | .finish st e => "k" ++ String.ofList [statusCh st, errCh e]
  | .exit2 => "l" | .wgDone => "m" | .done => "z"

def mainKey : MainPC → String
  | .start => "S" | .wait => "W" | .waitAll e => "A" ++ errName e | .done e => "D" ++ errName e

/-- the non-ghost part of a state (ghost time stamps and read sets are not part of the abstract state) -/
def key (n : Nat) (s : State) : String :=
  let per := (List.range n).map fun l =>
    String.ofList [statusCh (s.status l), errCh (s.err l), if (s.waiting l).isSome then 'p' else '-',
                   if s.cyc l then 'c' else '-'] ++
      (match s.pc l with | none => "_" | some p => pcKey p)
  s!"{mainKey s.main}/{s.capacity}/{s.live}/" ++ ",".intercalate per

def gkey (n : Nat) (g : GState) : String :=
  key n g.core ++ "/" ++ String.ofList ((List.range n).map fun l => if g.asleep l then 'z' else '-') ++ "/" ++ labels g.gateQ

def wnormalize (n : Nat) (w : WState) : WState :=
  let m := w.wsleep .main
  let t := mkTab n (fun l => w.wsleep (.tgt l)) false
  { g := gnormalize n w.g, wsleep := fun x => match x with | .main => m | .tgt l => t.get l, wq := w.wq }

def tidKey : Tid → String
  | .main => "m"
  | .tgt l => toString l

def wkey (n : Nat) (w : WState) : String :=
  gkey n w.g ++ "/" ++ (if w.wsleep .main then "Z" else "-") ++
    String.ofList ((List.range n).map fun l => if w.wsleep (.tgt l) then 'z' else '-') ++ "/" ++ ".".intercalate (w.wq.map tidKey)

def summary (g : G) (s : State) : String :=
  let ls := List.range g.n
  let res := match s.main with | .done e => errName e | .waitAll e => errName e | _ => "?"
  let st := String.ofList (ls.map fun l => statusCh (s.status l))
  let er := String.ofList (ls.map fun l => errCh (s.err l))
  let cy := String.ofList (ls.map fun l => if s.cyc l then '1' else '0')
  let lo := "".intercalate (ls.map fun l => toString (s.loads l))
  let ev := "".intercalate (ls.map fun l => toString (s.evals l))
  let pub := (ls.filter fun l => (s.waiting l).isSome).length
  let ord := if s.order.isEmpty then "-" else labels s.order
  s!"res={res} st={st} err={er} cyc={cy} loads={lo} evals={ev} free={g.P.cap - s.capacity} pub={pub} order={ord}"

def allDone (g : G) (s : State) : Bool :=
  s.isDone && (List.range g.n).all fun l => match s.pc l with | none => true | some p => p == .done

def tidName : Tid → String
  | .main => "m"
  | .tgt l => toString l

/-! ### trace validation -/

def parseErr? : String → Option Err
  | "none" => some .none | "unknown" => some .unknown | "depFailed" => some .depFailed | "body" => some .body
  | _ => none

def kindsOf (res : Results) (k : Nat) : List String :=
  match res with
  | none => List.replicate k "cyclic"
  | some hs => hs.map errName

/-- check one recorded event against the model and return the successor state (`blocked` events leave it unchanged) -/
def applyEvent (g : G) (w : WState) (ev : String) : Except String WState := do
  let P := g.P
  let gs := w.g
  let s := gs.core
  match ev.splitOn "/" with
  | [th, rest] =>
    let f := rest.splitOn ":"
    let advance (t : Tid) : Except String WState :=
      match wstep P w t with
      | some s' => .ok s'
      | none => .error "the model's thread is not enabled"
    let blocked (t : Tid) : Except String WState :=
      match wstep P w t with
      | some _ => .error "implementation blocked where the model is enabled"
      | none => .ok w
    -- goes to sleep in `t.c.Wait()`: a step of the refined model, enabled iff awake and the target is running
    let sleepOn (t : Tid) (d : Label) : Except String WState :=
      if w.wsleep t then .error "sleeps again without having been woken"
      else if s.status d != .running then .error s!"goes to sleep although {d} is not running"
      else advance t
    let awake (t : Tid) (k : Except String WState) : Except String WState :=
      if w.wsleep t then .error "continues, but in the model it sleeps in cond.Wait and nobody has broadcast" else k
    if th == "m" then
      match s.main, f with
      | .start, ["start", sp] =>
        if (sp == "spawn") != (s.status P.root == .idle) then .error "spawn/skip differs" else advance .main
      | .wait, ["block", "mwait"] => sleepOn .main P.root
      | .wait, ["wait", e] =>
        if parseErr? e != some (s.err P.root) then .error s!"Run's wait saw {e}, model {errName (s.err P.root)}"
        else awake .main (advance .main)
      | .waitAll _, ["block", "mwaitall"] => blocked .main
      | .waitAll _, ["waitall"] => advance .main
      | .done _, ["return"] => .ok w
      | _, _ => .error s!"main thread is at {mainKey s.main}"
    else
      let some l := parseNat? th | .error "bad thread"
      if l ≥ g.n then .error "label out of range" else
      let some p := s.pc l | .error "no such thread in the model"
      let t := Tid.tgt l
      let bad : Except String WState := .error s!"model thread {l} is at {pcKey p}"
      match p, f with
      | .enter1, ["enter", c] | .enter2 _, ["enter", c] => do
        -- the thread takes a slot: in the model it must be awake (never asleep, or signalled) and a slot must be free
        if gs.asleep l then .error "takes a slot, but in the model it sleeps in cond.Wait without having been signalled"
        else if s.capacity == 0 then .error "takes a slot, model capacity 0"
        else
          let s' ← advance t
          if parseNat? c != some s'.g.core.capacity then .error s!"capacity {c}, model {s'.g.core.capacity}" else pure s'
      | .enter1, ["block", "gate"] | .enter2 _, ["block", "gate"] =>
        -- goes to sleep in `g.cond.Wait()`: a step of the refined model
        if gs.asleep l then .error "sleeps again without having been signalled"
        else if s.capacity != 0 then .error s!"goes to sleep with {s.capacity} slot(s) free"
        else advance t
      | .load, ["load", r] =>
        if (r == "ok") != P.known l then .error "load result differs" else advance t
      | .evalStart, ["eval"] => advance t
      | .exit1, ["exit", c] | .exit2, ["exit", c] => do
        let s' ← advance t
        if parseNat? c != some s'.g.core.capacity then .error s!"capacity {c}, model {s'.g.core.capacity}" else pure s'
      | .startDeps (d :: _), ["start", d', sp] =>
        if parseNat? d' != some d then .error s!"starts {d'}, model {d}"
        else if (sp == "spawn") != (s.status d == .idle) then .error "spawn/skip differs"
        else advance t
      | .startDeps [], ["pub"] => advance t
      | .walk (d :: _), ["self"] => if d == l then advance t else .error s!"model reads {d}"
      | .walk (d :: _), ["read", d', b] =>
        if d == l then .error "model finds the cycle here"
        else if parseNat? d' != some d then .error s!"reads {d'}, model {d}"
        else if (b == "1") != (s.waiting d).isSome then .error s!"published({d}) observed {b}"
        else advance t
      | .walk [], ["walked"] => advance t
      | .waitDeps (d :: _) _, ["block", "wait", d'] =>
        if parseNat? d' != some d then .error s!"waits for {d'}, model {d}" else sleepOn t d
      | .waitDeps (d :: _) _, ["waited", d', e] =>
        if parseNat? d' != some d then .error s!"waited for {d'}, model {d}"
        else if parseErr? e != some (s.err d) then .error s!"handed {e}, model {errName (s.err d)}"
        else awake t (advance t)
      | .waitDeps [] _, ["unpub"] | .unpubCyc, ["unpub"] => advance t
      | .evalRest res, ["rest", c, ks] =>
        if (c == "1") != res.isNone then .error "cyclic flag differs"
        else
          let want := "+" ++ "+".intercalate (kindsOf res (P.deps l).length)
          let want := if (P.deps l).isEmpty then "" else want
          if ks != want then .error s!"results {ks}, model {want}" else advance t
      | .finish st e, ["set", st', e'] =>
        if st' != statusName st || parseErr? e' != some e then .error s!"sets {st'}:{e'}, model {statusName st}:{errName e}"
        else advance t
      | .wgDone, ["leave"] => advance t
      | _, _ => bad
  | _ => .error "malformed event"

def runTrace (g : G) (evs : List String) : String := Id.run do
  let mut s := winit g.P
  let mut i := 0
  for ev in evs do
    match applyEvent g s ev with
    | .ok s' => s := if i % 16 == 15 then wnormalize g.n s' else s'
    | .error why => return s!"fail {i} {ev} {why}"
    i := i + 1
  if allDone g s.g.core then
    -- the conclusions of the theorems, evaluated on the state the trace ends in
    return "ok " ++ summary g s.g.core
  else return s!"fail {i} end the model has not finished: {wkey g.n s}"

/-! ### checking a final state reported by the implementation -/

def parseStatusCh : Char → Option Status
  | 'i' => some .idle | 'r' => some .running | 's' => some .succeeded | 'f' => some .failed | _ => none
def parseErrCh : Char → Option Err
  | 'n' => some .none | 'u' => some .unknown | 'd' => some .depFailed | 'b' => some .body | _ => none

def edges (P : Params) (l : Label) : List Label := if P.known l then P.deps l else []

/-- labels reachable from `from_` in at least one step (fuel = n rounds of closure) -/
def reachPlus (g : G) (from_ : Label) : List Label := Id.run do
  let mut cur : List Label := (edges g.P from_).eraseDups
  for _ in [0:g.n] do
    let next := (cur ++ cur.flatMap (edges g.P)).eraseDups
    cur := next
  return cur

def field (kv : List (String × String)) (k : String) : Option String := (kv.find? (·.1 == k)).map (·.2)

def checkFinal (g : G) (sum : String) : String :=
  let kv := (sum.splitOn ",").filterMap fun x => match x.splitOn "=" with | [a, b] => some (a, b) | _ => none
  match field kv "res", field kv "st", field kv "err", field kv "cyc", field kv "loads", field kv "evals",
        field kv "free", field kv "pub" with
  | some res, some st, some er, some cy, some lo, some ev, some free, some pub =>
    let n := g.n
    let P := g.P
    match st.toList.mapM parseStatusCh, er.toList.mapM parseErrCh with
    | some sts, some ers =>
      if sts.length ≠ n ∨ ers.length ≠ n ∨ cy.length ≠ n ∨ lo.length ≠ n ∨ ev.length ≠ n then "bad lengths" else
      let stA := sts.toArray
      let erA := ers.toArray
      let cyA := (parseBits cy).toArray
      let loA := (lo.toList.map fun c => c.toNat - '0'.toNat).toArray
      let evA := (ev.toList.map fun c => c.toNat - '0'.toNat).toArray
      let s : State := { init P with status := fun l => stA.getD l .idle, err := fun l => erA.getD l .none,
                                     cyc := fun l => cyA.getD l false }
      let ls := List.range n
      let reachable := (P.root :: reachPlus g P.root).eraseDups
      let onCycle := fun l => (reachPlus g l).contains l
      let problems : List String :=
        (ls.filterMap fun l =>
          let stl := s.status l
          if stl == .running then some s!"{l} still running"
          else if stl == .idle then
            if loA.getD l 0 ≠ 0 ∨ evA.getD l 0 ≠ 0 then some s!"{l} idle but loaded" else none
          else if ¬ decide (OutcomeSpec P s l stl (s.err l)) then some s!"outcome of {l} violates the specification"
          else if loA.getD l 0 ≠ 1 then some s!"{l} loaded {loA.getD l 0} times"
          else if evA.getD l 0 ≠ (if P.known l then 1 else 0) then some s!"{l} evaluated {evA.getD l 0} times"
          else if s.cyc l ∧ ¬ onCycle l then some s!"{l} reported a cycle but lies on none"
          else if ¬ reachable.contains l then some s!"{l} started but not reachable"
          else none) ++
        (if parseErr? res != some (s.err P.root) then [s!"result {res} is not the requested target's"] else []) ++
        (if free != "0" then [s!"{free} slots not returned"] else []) ++
        (if pub != "0" then [s!"{pub} waiting sets still published"] else []) ++
        (let cyclic := reachable.any onCycle
         if cyclic ∧ res == "none" then ["reachable cycle but the build succeeded"]
         else if cyclic ∧ ¬ ls.any (fun l => s.cyc l) then ["reachable cycle but no cycle error reported"]
         else [])
      match problems with
      | [] => "ok"
      | p :: _ => "bad " ++ p
    | _, _ => "bad status/err letters"
  | _, _, _, _, _, _, _, _ => "bad summary"

/-! ### exploration of the model -/

structure Node where
  s : WState
  path : List Tid     -- reversed
  leaf : Bool := true

instance : Inhabited Node := ⟨{ s := winit { deps := fun _ => [], known := fun _ => false, bodyOk := fun _ => false, cap := 0, root := 0 }, path := [] }⟩

/-- breadth-first exploration; returns (visited count, complete?, nodes in visiting order, stuck non-final states) -/
def explore (g : G) (maxStates : Nat) : Nat × Bool × Array Node × Nat := Id.run do
  let s0 := winit g.P
  let mut seen : Std.HashSet String := {}
  seen := seen.insert (wkey g.n s0)
  let mut nodes : Array Node := #[{ s := s0, path := [] }]
  let mut i := 0
  let mut stuck := 0
  let mut complete := true
  while i < nodes.size do
    let nd := nodes[i]!
    let ts := threads nd.s.g.core
    let mut any := false
    let mut child := false
    for t in ts do
      match wstep g.P nd.s t with
      | none => pure ()
      | some s' =>
        any := true
        let s' := wnormalize g.n s'
        let k := wkey g.n s'
        if !seen.contains k then
          if nodes.size < maxStates then
            seen := seen.insert k
            nodes := nodes.push { s := s', path := t :: nd.path }
            child := true
          else complete := false
    if child then nodes := nodes.set! i { nd with leaf := false }
    if !any && !allDone g nd.s.g.core then stuck := stuck + 1
    i := i + 1
  return (nodes.size, complete, nodes, stuck)

def bfs (g : G) (maxStates : Nat) : String :=
  let (n, complete, nodes, stuck) := explore g maxStates
  let terms := (nodes.toList.filter fun nd => allDone g nd.s.g.core).map fun nd => (summary g nd.s.g.core).replace " " ","
  let terms := terms.eraseDups
  let terms := terms.toArray.qsort (· < ·) |>.toList
  s!"ok states={n} complete={if complete then 1 else 0} stuck={stuck} terminals=" ++ "|".intercalate terms

def scheds (g : G) (maxStates maxPaths : Nat) : String :=
  let (n, complete, nodes, stuck) := explore g maxStates
  let leaves := nodes.toList.filter (·.leaf)
  let stride := if maxPaths == 0 then 1 else (leaves.length + maxPaths - 1) / maxPaths
  let stride := if stride == 0 then 1 else stride
  let picked := (List.range leaves.length).filterMap fun i => if i % stride == 0 then leaves[i]? else none
  let ss := picked.map fun nd => ".".intercalate (nd.path.reverse.map tidName)
  s!"ok states={n} complete={if complete then 1 else 0} stuck={stuck} leaves={leaves.length} scheds=" ++ ";".intercalate ss

/-! ### search for fair livelocks: states in which only cycle-walk reads are enabled and every walker spins for ever -/

def isRead (s : State) (t : Tid) : Bool :=
  match t with
  | .main => false
  | .tgt l => match s.pc l with
    | some (.walk (d :: _)) => d != l
    | _ => false

/-- does walker `l` still read after `fuel` steps when nobody else moves? -/
def spins (g : G) (s : State) (l : Label) (fuel : Nat) : Bool := Id.run do
  let mut cur := s
  for _ in [0:fuel] do
    if !isRead cur (.tgt l) then return false
    match step g.P cur (.tgt l) with
    | some s' => cur := { s' with seen := fun _ => [], expd := fun _ => [] }
    | none => return false
  return true

def livelocks (g : G) (maxStates fuel : Nat) : String :=
  let (n, complete, nodes, _) := explore g maxStates
  let cands := nodes.toList.filter fun nd =>
    let nd : Node := nd
    let en := (threads nd.s.g.core).filter fun t => (wstep g.P nd.s t).isSome
    !en.isEmpty && en.all (isRead nd.s.g.core) && en.all fun t => match t with
      | .tgt l =>
        -- when nobody else moves a terminating walk needs at most (length of its work list) x (a bound on the
        -- expansion below one entry) reads: give it 60 reads per entry on top of the requested fuel
        let len := match nd.s.g.core.pc l with | some (.walk t) => t.length | _ => 0
        spins g nd.s.g.core l (fuel + 60 * len)
      | .main => false
  let ex := match cands.head? with
    | some nd => ".".intercalate (nd.path.reverse.map tidName)
    | none => "-"
  s!"ok states={n} complete={if complete then 1 else 0} livelocks={cands.length} example={ex}"

def handle (line : String) : String :=
  match line.splitOn " " with
  | ["trace", ps, evs] => match parseParams ps with
    | none => "bad-params"
    | some g => runTrace g (if evs == "" then [] else evs.splitOn ",")
  | ["final", ps, sum] => match parseParams ps with
    | none => "bad-params"
    | some g => checkFinal g sum
  | ["bfs", ps, m] => match parseParams ps, parseNat? m with
    | some g, some m => bfs g m
    | _, _ => "bad-params"
  | ["live", ps, m, k] => match parseParams ps, parseNat? m, parseNat? k with
    | some g, some m, some k => livelocks g m k
    | _, _, _ => "bad-params"
  | ["sched", ps, m, k] => match parseParams ps, parseNat? m, parseNat? k with
    | some g, some m, some k => scheds g m k
    | _, _, _ => "bad-params"
  | _ => "bad-op"

end RunnerDriver

def main : IO Unit := Driver.mainLoop RunnerDriver.handle

import Driver.Common
import Dawn.Model.Label
/-! driver for the label model (C12): one request per line, one answer per line

    parse  <s>                   → `ok <k>,<p>,<g>,<n> <printed>` | `err <kind>` | `panic` | `fuel`
    print  <k>,<p>,<g>,<n>       → `<hex>`
    rel    <k>,<p>,<g>,<n> <pkg> → `ok <label>` | `err <kind>` | …
    new    <k>,<p>,<g>,<n>       → `ok <label>` | `err <kind>` | …
    clean  <s>                   → `ok <hex>` | `err <kind>` | …   (also cross-checks `cleanGo`, `clean`, `cleanSpec`)
    join   <a>,<b>,…  (`.` = no elements)  → `ok <hex>` | `err <kind>`
    split  <s>                   → `<a>,<b>,…` (`.` = none)
    pclean <s>                   → `<hex>`            (path.Clean)
    pjoin  <a>,<b>,…             → `<hex>`            (path.Join)
    rsp    <pkg> <path>          → `ok <hex>` | `err <kind>` | `panic`      (repoSourcePath)
    slabel <pkg> <path>          → `ok <label>` | `err <kind>` | `panic`    (sourceLabel)
    tip    <work> <k>,<p>,<g>,<n> → `ok <hex>` | `panic`                   (targetInfoPath with proj.work = work)

  all strings hex-encoded bytes, the empty string is `-`. -/
open Dawn.Label Driver

def unhexB (s : String) : Option Bytes := (unhex s).map ByteArray.toList

def errStr : Err → String
  | .projectColon => "projectColon"
  | .absSingle => "absSingle"
  | .pkgColon => "pkgColon"
  | .pkgDot => "pkgDot"
  | .nameSlash => "nameSlash"
  | .projectRel => "projectRel"
  | .kindBad => "kindBad"
  | .projectRelNew => "projectRelNew"
  | .nameBad => "nameBad"
  | .emptyPath => "emptyPath"
  | .outsideRoot => "outsideRoot"

def labelStr (l : Label) : String :=
  hexBytes l.kind ++ "," ++ hexBytes l.project ++ "," ++ hexBytes l.pkg ++ "," ++ hexBytes l.name

def outStr {α : Type} (f : α → String) : Out α → String
  | .ok a => "ok " ++ f a
  | .err e => "err " ++ errStr e
  | .panic => "panic"
  | .fuel => "fuel"

def parseLabel (s : String) : Option Label :=
  match s.splitOn "," with
  | [k, p, g, n] => do
    let k ← unhexB k; let p ← unhexB p; let g ← unhexB g; let n ← unhexB n
    pure ⟨k, p, g, n⟩
  | _ => none

def parseList (s : String) : Option (List Bytes) :=
  if s == "." then some [] else (s.splitOn ",").mapM unhexB

def listStr (l : List Bytes) : String :=
  if l.isEmpty then "." else ",".intercalate (l.map hexBytes)

def exceptToOut {α : Type} : Except Err α → Out α
  | .ok a => .ok a
  | .error e => .err e

def step (line : String) : String :=
  match line.splitOn " " with
  | ["parse", s] => match unhexB s with
    | none => "bad-input"
    | some b => outStr (fun l => labelStr l ++ " " ++ hexBytes (print l)) (parseGo b)
  | ["print", l] => match parseLabel l with
    | none => "bad-input"
    | some l => hexBytes (print l)
  | ["rel", l, pkg] => match parseLabel l, unhexB pkg with
    | some l, some pkg => outStr labelStr (relativeToGo l pkg)
    | _, _ => "bad-input"
  | ["new", l] => match parseLabel l with
    | none => "bad-input"
    | some l => outStr labelStr (newGo l.kind l.project l.pkg l.name)
  | ["clean", s] => match unhexB s with
    | none => "bad-input"
    | some b =>
      let g := cleanGo b
      if g = exceptToOut (clean b) ∧ g = exceptToOut (cleanSpec b) then outStr hexBytes g
      else "MODEL-MISMATCH go=" ++ outStr hexBytes g ++ " scan=" ++ outStr hexBytes (exceptToOut (clean b))
        ++ " spec=" ++ outStr hexBytes (exceptToOut (cleanSpec b))
  | ["join", l] => match parseList l with
    | none => "bad-input"
    | some es => outStr hexBytes (joinGo es)
  | ["split", s] => match unhexB s with
    | none => "bad-input"
    | some b => listStr (splitGo b)
  | ["pclean", s] => match unhexB s with
    | none => "bad-input"
    | some b => hexBytes (pathClean b)
  | ["pjoin", l] => match parseList l with
    | none => "bad-input"
    | some es => hexBytes (pathJoin es)
  | ["rsp", pkg, p] => match unhexB pkg, unhexB p with
    | some pkg, some p => outStr hexBytes (repoSourcePathGo pkg p)
    | _, _ => "bad-input"
  | ["slabel", pkg, p] => match unhexB pkg, unhexB p with
    | some pkg, some p => outStr labelStr (sourceLabelGo pkg p)
    | _, _ => "bad-input"
  | ["tip", w, l] => match unhexB w, parseLabel l with
    | some w, some l => outStr hexBytes (targetInfoPathGo w l)
    | _, _ => "bad-input"
  | _ => "bad-op"

def main : IO Unit := mainLoop step

import Driver.Common
import Dawn.Model.Build
/-! driver for the incremental-engine model: a *stateful* line protocol (one history at a time).

    reset                                              → ok
    cleardefs                                          → ok
    def <l> <f|F|s> <always> <env> <path> <deps> <reads> <gens> <code>   → ok     (lists: `1,2,3` or `-`)
    file <p> m | file <p> f <c> | file <p> d <n:c,n:c,…>        → ok     (an edit of the tree)
    build <root> <always> <dry> <fails>                → <ok|fail> U=… V=… S=… F=… R=… G=… T=… I=…
    crash <root> <always> <fails> <k> <order>          → <crashed|completed> H=… R=… G=… T=… I=…
    crashload <k> <temporaries found>                  → ok R=… G=… T=? I=…   (temporaries in flight: not compared)
    gc <preferIndex>                                   → ok R=… G=… T=… I=…
    load <preferIndex>                                 → ok R=… G=… T=… I=…          (a process that only loads the project)
    temps <n>                                          → ok                            (n stray entries dropped into temp)
    path <kind hex> <pkg hex> <name hex>               → <dir hex> <file hex>      (targetInfoPath)
    sum <d n:c,…> <d n:c,…>                            → eq | ne                    (dirSum: equal sums?)
    key <c<cp>|r|b<byte>,…>                            → <code points of the JSON key> <0|1 read back unchanged>   (depStamps)
    opts <prev always> <prev dry> nil | <always> <dry>  → <always> <dry>             (RunOptions.apply)

  U/V/S/F: labels with a TargetUpToDate / TargetEvaluating / TargetSucceeded / TargetFailed event (sorted).
  R: the non-empty records, `label{dep:stamp.runs,…|stamp|rerun|runs}`; a stamp is `-` (empty) or `e<i>`, the
  index of the stamp value in order of first appearance in this history's answers (the harness numbers the
  real stamps the same way, so the *partition* of stamps is compared, not their spelling).
  G: generated files present.  T: stray temporaries.  I: index.json state (`a`bsent, `t`orn, `g<labels>`).
  H: the hook points passed before the crash, `hook:label`. -/
open Dawn.Build Driver

def M : Nat := 2305843009213693951

/-- not linear in its inputs: file contents are themselves `mix` values, and with a linear hash a change of a code
id in a body and the opposite change in the body of what it reads cancel out systematically -/
def mix (xs : List Nat) : Nat := xs.foldl (fun h x => (h * 1000003 + (x + 1) * (x + 1) + x + 1) % M) 7

def mixVal : SrcVal → Nat
  | .missing => mix [1]
  | .file c => mix [2, c]
  | .dir es => mix (3 :: es.flatMap fun e => [e.1, e.2])

/-- `codes`: what each fingerprint stands for (the identity of the function's code and referenced values, as the
harness generated them). A body's output is a function of its fingerprint only through this meaning, so two
fingerprints of the same code (e.g. shifted constant-pool indices) produce the same files. -/
def drvParams (codes : List (Env × Nat)) (selfs : List Label) : Params where
  sum := id
  -- the harness bodies hash the paths they read and their contents, not the label a path was declared through; a body
  -- that works on `self` (kind `F` of `def`) also hashes self.dependencies / self.sources / self.generates, in order
  out := fun l e a obs g => mix ([l, (codes.lookup e).getD e, g] ++ (if selfs.contains l then [a.1.length] ++ a.1 ++ [a.2.length] ++ a.2 else []) ++
    obs.flatMap fun o => o.2.flatMap fun pv => [pv.1, mixVal pv.2])

structure DSt where
  defs : List (Label × Def) := []
  w : World := ⟨fun _ => .missing, fun _ => none, 0, .absent⟩
  known : List Label := []       -- every label ever defined (records are printed for these)
  gens : List Path := []         -- every path ever declared as generated
  intern : List Data := []       -- stamps in order of first appearance
  codes : List (Env × Nat) := [] -- fingerprint → meaning, first binding wins
  selfs : List Label := []       -- function targets whose body works on the lists it is handed through `self`

def DSt.tree (s : DSt) : Tree :=
  { defs := fun l => s.defs.lookup l, labels := (s.defs.map (·.1)).mergeSort (· ≤ ·) }

def natList (s : String) : Option (List Nat) :=
  if s == "-" then some [] else (s.splitOn ",").mapM String.toNat?

def showList (xs : List Nat) : String := if xs.isEmpty then "-" else ",".intercalate (xs.map toString)

def sortNat (xs : List Nat) : List Nat := (xs.mergeSort (· ≤ ·)).eraseDups

def internData (tab : List Data) (d : Data) : List Data × String :=
  match d with
  | .empty => (tab, "-")
  | d => match tab.idxOf? d with
    | some i => (tab, s!"e{i}")
    | none => (tab ++ [d], s!"e{tab.length}")

def showRecs (s : DSt) (w : World) : List Data × String := Id.run do
  let mut tab := s.intern
  let mut out : List String := []
  for l in sortNat s.known do
    match w.recs l with
    | none => pure ()
    | some r =>
      if r == emptyRec then pure () else
      let mut ds : List String := []
      for (x, st) in r.deps.mergeSort (fun a b => a.1 ≤ b.1) do
        let (tab', tok) := internData tab st.data
        tab := tab'
        ds := ds ++ [s!"{x}:{tok}.{st.runs}"]
      let (tab', tok) := internData tab r.data
      tab := tab'
      out := out ++ [s!"{l}\{{",".intercalate ds}|{tok}|{if r.rerun then 1 else 0}|{r.runs}}"]
  return (tab, if out.isEmpty then "-" else " ".intercalate out |>.replace " " ";")

def showIndex : Index → String
  | .absent => "a"
  | .torn => "t"
  | .good ls => "g" ++ showList (sortNat ls)

def showWorld (s : DSt) (w : World) : DSt × String :=
  let (tab, rs) := showRecs s w
  let g := sortNat ((s.gens).filter fun p => w.files p != .missing)
  ({ s with w := w, intern := tab }, s!"R={rs} G={showList g} T={w.temps} I={showIndex w.index}")

def evLabels (evs : List Ev) (f : Ev → Option Label) : String := showList (sortNat (evs.filterMap f))

def hookName : Hook → String
  | .bodyBefore => "bb" | .bodyWrote => "bw" | .bodyAfter => "ba" | .recordFailure => "rf" | .recordSuccess => "rs"
  | .saveCreated => "sc" | .saveWritten => "sw" | .saveRenamed => "sr" | .indexCreated => "ic" | .indexEncoded => "ie"

def parseEntries (s : String) : Option (List (Nat × Nat)) :=
  if s == "-" then some [] else (s.splitOn ",").mapM fun e => match e.splitOn ":" with
    | [a, b] => do pure ((← a.toNat?), (← b.toNat?))
    | _ => none

def flag (s : String) : Bool := s == "1"

/-- the observed order of effectful visits, completed to a legal visiting order (dependencies first) -/
def expandOrder (t : Tree) (obs : List Label) (root : Label) : List Label :=
  let fuel := 4 * (t.labels.length + 2)
  (obs ++ [root]).foldl (fun acc l => topo t fuel [l] acc) []

def step (s : DSt) (line : String) : DSt × String :=
  match line.splitOn " " with
  | ["reset"] => ({}, "ok")
  | ["cleardefs"] => ({ s with defs := [] }, "ok")
  | ["def", l, k, al, e, p, ds, rs, gs, code] =>
    match l.toNat?, e.toNat?, p.toNat?, natList ds, natList rs, natList gs, code.toNat? with
    | some l, some e, some p, some ds, some rs, some gs, some code =>
      let isFn := k == "f" || k == "F"
      let d : Def := ⟨if isFn then .fn else .src, ds, rs, gs, flag al, e, p⟩
      ({ s with defs := (s.defs.filter (·.1 != l)) ++ [(l, d)], known := if s.known.contains l then s.known else s.known ++ [l],
                gens := (s.gens ++ gs).eraseDups,
                codes := if isFn && (s.codes.lookup e).isNone then s.codes ++ [(e, code)] else s.codes,
                selfs := if k == "F" then (if s.selfs.contains l then s.selfs else s.selfs ++ [l]) else s.selfs.filter (· != l) }, "ok")
    | _, _, _, _, _, _, _ => (s, "bad-input")
  | "file" :: p :: rest =>
    match p.toNat?, rest with
    | some p, ["m"] => ({ s with w := { s.w with files := upd s.w.files p .missing } }, "ok")
    | some p, ["f", c] => match c.toNat? with
      | some c => ({ s with w := { s.w with files := upd s.w.files p (.file c) } }, "ok")
      | none => (s, "bad-input")
    | some p, ["d", es] => match parseEntries es with
      | some es => ({ s with w := { s.w with files := upd s.w.files p (.dir es) } }, "ok")
      | none => (s, "bad-input")
    | _, _ => (s, "bad-input")
  | ["build", root, al, dry, fails] =>
    match root.toNat?, natList fails with
    | some root, some fails =>
      let t := s.tree
      let o : Opts := ⟨flag al, flag dry, fun l => fails.contains l⟩
      let b := runBuild (drvParams s.codes s.selfs) t o (order t root) s.w
      let (s', ws) := showWorld s b.w
      let u := evLabels b.evs fun | .upToDate l => some l | _ => none
      let v := evLabels b.evs fun | .evaluating l => some l | _ => none
      let sc := evLabels b.evs fun | .succeeded l => some l | _ => none
      let f := evLabels b.evs fun | .failed l => some l | _ => none
      (s', s!"{if succeeded b root then "ok" else "fail"} U={u} V={v} S={sc} F={f} {ws}")
    | _, _ => (s, "bad-input")
  | ["crash", root, al, fails, k, obs] =>
    match root.toNat?, natList fails, k.toNat?, natList obs with
    | some root, some fails, some k, some obs =>
      let t := s.tree
      let o : Opts := ⟨flag al, false, fun l => fails.contains l⟩
      let ord := expandOrder t obs root
      let b := runBuild (drvParams s.codes s.selfs) t o ord s.w
      let all := b.steps.reverse
      let w := crashBuild (drvParams s.codes s.selfs) t o ord k s.w
      let (s', ws) := showWorld s w
      let h := (all.take k).map fun st => s!"{hookName st.hook}:{st.label}"
      (s', s!"{if all.length < k then "completed" else "crashed"} H={if h.isEmpty then "-" else ",".intercalate h} {ws}")
    | _, _, _, _ => (s, "bad-input")
  | ["crashload", k, seen] =>
    match k.toNat?, seen.toNat? with
    | some k, some seen =>
      -- packages load concurrently: how many temporaries are in flight at the k-th hook point is not determined
      -- by k; the harness reports the number it found and the model checks that it is possible
      let w := crashLoad s.tree k s.w
      let nfn := (s.tree.labels.filter (isFn s.tree)).length
      if seen < s.w.temps || seen > s.w.temps + nfn then (s, "impossible-temporaries") else
      let (s', ws) := showWorld s { w with temps := 0 }
      ({ s' with w := { w with temps := seen } }, s!"ok {ws.replace "T=0" "T=?"}")
    | _, _ => (s, "bad-input")
  | ["load", pi] =>
    let (s', ws) := showWorld s (loadOp s.tree (flag pi) s.w)
    (s', s!"ok {ws}")
  | ["temps", n] =>
    match n.toNat? with
    | some n => ({ s with w := { s.w with temps := s.w.temps + n } }, "ok")
    | none => (s, "bad-input")
  | ["gc", pi] =>
    let (s', ws) := showWorld s (gc s.tree (flag pi) s.w)
    (s', s!"ok {ws}")
  | ["path", k, p, n] =>
    match unhex k, unhex p, unhex n with
    | some k, some p, some n =>
      let (d, f) := targetInfoPath ⟨k.toList, p.toList, n.toList⟩
      (s, s!"{hexBytes d} {hexBytes f}")
    | _, _, _ => (s, "bad-input")
  | ["opts", pa, pd, "nil"] =>
    let f := applyOptions ⟨flag pa, flag pd⟩ none
    (s, s!"{if f.always then 1 else 0} {if f.dry then 1 else 0}")
  | ["opts", pa, pd, a, d] =>
    let f := applyOptions ⟨flag pa, flag pd⟩ (some ⟨flag a, flag d⟩)
    (s, s!"{if f.always then 1 else 0} {if f.dry then 1 else 0}")
  | ["key", items] =>
    let parsed : Option (List KeyItem) := (items.splitOn ",").mapM fun it =>
      if it == "r" then some .repl
      else if it.startsWith "c" then (it.drop 1).toString.toNat?.map KeyItem.ch
      else if it.startsWith "b" then (it.drop 1).toString.toNat?.map fun n => KeyItem.raw (UInt8.ofNat n)
      else none
    match parsed with
    | some its =>
      let e := escapeKey its
      (s, s!"{",".intercalate (e.map toString)} {if unescapeKey e == its then 1 else 0}")
    | none => (s, "bad-input")
  | ["sum", "d", a, "d", b] =>
    match parseEntries a, parseEntries b with
    | some a, some b => (s, if canon (.dir a) == canon (.dir b) then "eq" else "ne")
    | _, _ => (s, "bad-input")
  | _ => (s, "bad-op")

partial def loopS (i o : IO.FS.Stream) (s : DSt) : IO Unit := do
  let line ← i.getLine
  if line.isEmpty then return ()
  let l := if line.endsWith "\n" then (line.dropEnd 1).toString else line
  let (s', out) := step s l
  o.putStrLn out
  loopS i o s'

def main : IO Unit := do
  let i ← IO.getStdin
  let o ← IO.getStdout
  loopS i o {}
  o.flush

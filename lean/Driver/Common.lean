/-! Line-protocol plumbing shared by the model drivers (core Lean only). -/
namespace Driver

def hexVal (c : Char) : Option Nat :=
  if '0' ≤ c ∧ c ≤ '9' then some (c.toNat - '0'.toNat)
  else if 'a' ≤ c ∧ c ≤ 'f' then some (c.toNat - 'a'.toNat + 10)
  else if 'A' ≤ c ∧ c ≤ 'F' then some (c.toNat - 'A'.toNat + 10)
  else none

/-- decode a hex string to bytes; `-` is the empty byte string -/
def unhex (s : String) : Option ByteArray :=
  if s == "-" then some ByteArray.empty else
  let rec go : List Char → ByteArray → Option ByteArray
    | [], acc => some acc
    | [_], _ => none
    | a :: b :: rest, acc => do
      let x ← hexVal a
      let y ← hexVal b
      go rest (acc.push (UInt8.ofNat (x * 16 + y)))
  go s.toList ByteArray.empty

def hexDigit (n : Nat) : Char := if n < 10 then Char.ofNat (48 + n) else Char.ofNat (87 + n)

def hex (b : ByteArray) : String :=
  if b.size == 0 then "-" else
  String.ofList (b.toList.flatMap fun x => [hexDigit (x.toNat / 16), hexDigit (x.toNat % 16)])

def hexBytes (b : List UInt8) : String := hex ⟨b.toArray⟩

/-- hex → UTF-8 string (none when not valid UTF-8) -/
def unhexStr (s : String) : Option String := do
  let b ← unhex s
  String.fromUTF8? b

def hexStr (s : String) : String := hex s.toUTF8

partial def loop (h : IO.FS.Stream) (out : IO.FS.Stream) (step : String → String) : IO Unit := do
  let line ← h.getLine
  if line.isEmpty then return ()
  let l := if line.endsWith "\n" then (line.dropEnd 1).toString else line
  out.putStrLn (step l)
  loop h out step

def mainLoop (step : String → String) : IO Unit := do
  let i ← IO.getStdin
  let o ← IO.getStdout
  loop i o step
  o.flush

end Driver

import Driver.Common
import Dawn.Model.Pickle
/-! driver for the pickle model: one request per line, one answer per line

    enc <p|n> <graph>        → `ok <hex bytes>` | `err`            p = a host Pickler is installed, n = nil
    encold <p|n> <graph>     → same with the batch re-encode of D2 (regression witness only)
    dec <n|h|H> <hex bytes>  → `ok <graph>` | `err` | `nil` | `either ok` | `either nil`
                               n = nil Unpickler, h = the harness's host (name starting `!` → error, `?` → run-time
                               panic), H = h plus (`#` → panic with a non-error value), E = dawn's envUnpickler (`envHost`)
    decold <n|h|H> <hex>     → same with the BININT2 decoding of D1 (regression witness only)

  graph   := <val> `|` <obj> `;` <obj> …          objects in address order, `r<k>` refers to object k
  val     := N | b0 | b1 | i<decimal> | f<16 hex digits of the IEEE bits> | s<hex> | y<hex> | r<addr> | M
           | g<id>.<hex module>.<hex name>
  obj     := T:<val>,… | L:<val>,… | D:<key>,<value>,… | S:<val>,… | H:<hex module>.<hex name>.<val>
  empty byte string = `-`.  The `ok` graph of `dec` is renumbered canonically (containers when first met, tuples and
  host objects when complete, every tuple occurrence its own object), the same traversal the harness uses on Go values.
  `either`: the input contains an INT whose text is not canonical decimal and might still be accepted by
  `big.Int.UnmarshalText` (sign `+`, base prefixes, `_`): the model does not decide it; Go answers `err` or the named class. -/
open Dawn.Pickle Driver

def hexB (b : Bytes) : String := hexBytes b

def unhexB (s : String) : Option Bytes := (unhex s).map (·.toList)

def hex16 (n : Nat) : String :=
  String.ofList ((List.range 16).map fun i => hexDigit (n / 16 ^ (15 - i) % 16))

def showVal : Val → String
  | .atom .none => "N"
  | .atom (.bool true) => "b1"
  | .atom (.bool false) => "b0"
  | .atom (.int i) => s!"i{i}"
  | .atom (.float w) => "f" ++ hex16 w.toNat
  | .atom (.str s) => "s" ++ hexB s
  | .atom (.bytes s) => "y" ++ hexB s
  | .ref a => s!"r{a}"
  | .mark => "M"
  | .global id m n => s!"g{id}.{hexB m}.{hexB n}"

def showVals (xs : List Val) : String := ",".intercalate (xs.map showVal)

def showObj : Obj → String
  | .tuple xs => "T:" ++ showVals xs
  | .list xs => "L:" ++ showVals xs
  | .dict kvs => "D:" ++ showVals (flattenPairs kvs)
  | .set xs => "S:" ++ showVals xs
  | .host m n a => s!"H:{hexB m}.{hexB n}.{showVal a}"

def showGraph (g : Graph) : String := showVal g.root ++ "|" ++ ";".intercalate (g.heap.map showObj)

def parseHexNat (s : String) : Option Nat :=
  s.toList.foldlM (fun acc c => (hexVal c).map (acc * 16 + ·)) 0

def parseVal (s : String) : Option Val :=
  match s.toList with
  | ['N'] => some (.atom .none)
  | ['M'] => some .mark
  | ['b', '0'] => some (.atom (.bool false))
  | ['b', '1'] => some (.atom (.bool true))
  | 'i' :: r => (String.ofList r).toInt?.map fun i => .atom (.int i)
  | 'f' :: r => if r.length = 16 then (parseHexNat (String.ofList r)).map fun n => .atom (.float (UInt64.ofNat n)) else none
  | 's' :: r => (unhexB (String.ofList r)).map fun b => .atom (.str b)
  | 'y' :: r => (unhexB (String.ofList r)).map fun b => .atom (.bytes b)
  | 'r' :: r => (String.ofList r).toNat?.map .ref
  | 'g' :: r =>
    match (String.ofList r).splitOn "." with
    | [i, m, n] => do
      let i ← i.toNat?
      let m ← unhexB m
      let n ← unhexB n
      pure (.global i m n)
    | _ => none
  | _ => none

def parseVals (s : String) : Option (List Val) :=
  if s.isEmpty then some [] else (s.splitOn ",").mapM parseVal

def parseObj (s : String) : Option Obj :=
  match s.toList with
  | 'T' :: ':' :: r => (parseVals (String.ofList r)).map .tuple
  | 'L' :: ':' :: r => (parseVals (String.ofList r)).map .list
  | 'S' :: ':' :: r => (parseVals (String.ofList r)).map .set
  | 'D' :: ':' :: r => do
    let vs ← parseVals (String.ofList r)
    if vs.length % 2 ≠ 0 then none else pure (.dict (pairUp vs))
  | 'H' :: ':' :: r =>
    match (String.ofList r).splitOn "." with
    | m :: n :: rest => do
      let m ← unhexB m
      let n ← unhexB n
      let a ← parseVal (".".intercalate rest)
      pure (.host m n a)
    | _ => none
  | _ => none

def parseGraph (s : String) : Option Graph :=
  match s.splitOn "|" with
  | [r, os] => do
    let root ← parseVal r
    let heap ← if os.isEmpty then some [] else (os.splitOn ";").mapM parseObj
    pure ⟨heap, root⟩
  | _ => none

/-! canonical renumbering of a decoded heap (driver only; not part of the verified model) -/

structure CSt where
  out : Array Obj := #[]
  map : Array (Option Nat)
  gmap : List (Nat × Nat) := []

partial def canonVal (h : Array Obj) (v : Val) : StateM CSt Val := do
  match v with
  | .atom _ | .mark => pure v
  | .global id m n =>
    let st ← get
    match st.gmap.find? (·.1 == id) with
    | some p => pure (.global p.2 m n)
    | none =>
      let k := st.gmap.length
      set { st with gmap := (id, k) :: st.gmap }
      pure (.global k m n)
  | .ref a =>
    match h[a]? with
    | none => pure (.ref 4000000000)
    | some o =>
      let st ← get
      match st.map[a]? with
      | some (some k) => pure (.ref k)
      | _ =>
        let reserve (ph : Obj) : StateM CSt Nat := do
          let st ← get
          let k := st.out.size
          set { st with out := st.out.push ph, map := st.map.set! a (some k) }
          pure k
        match o with
        | .tuple xs =>
          let xs' ← xs.mapM (canonVal h)
          let st ← get
          set { st with out := st.out.push (.tuple xs') }
          pure (.ref st.out.size)
        | .host m n args =>
          let args' ← canonVal h args
          let k ← reserve (.host m n args')
          pure (.ref k)
        | .list xs =>
          let k ← reserve (.list [])
          let xs' ← xs.mapM (canonVal h)
          modify fun st => { st with out := st.out.set! k (.list xs') }
          pure (.ref k)
        | .set xs =>
          let k ← reserve (.set [])
          let xs' ← xs.mapM (canonVal h)
          modify fun st => { st with out := st.out.set! k (.set xs') }
          pure (.ref k)
        | .dict kvs =>
          let k ← reserve (.dict [])
          let xs' ← (flattenPairs kvs).mapM (canonVal h)
          modify fun st => { st with out := st.out.set! k (.dict (pairUp xs')) }
          pure (.ref k)

def canon (heap : Heap) (root : Val) : Graph :=
  let h := heap.toArray
  let (r, st) := (canonVal h root).run { map := Array.replicate h.size none }
  ⟨st.out.toList, r⟩

/-- the unpickler of the harness (`harness/pickle`): decided by the first byte of the name -/
def testHost (insane : Bool) (_h : Heap) (_a : Nat) (_module name : Bytes) (_args : List Val) : HostVerdict :=
  match name with
  | 0x21 :: _ => .error
  | 0x3f :: _ => .runtimePanic
  | 0x23 :: _ => if insane then .otherPanic else .construct
  | _ => .construct

/-- INT text that `UnmarshalText` certainly rejects: empty, or a byte outside `[0-9A-Za-z_+-]` -/
def definitelyBadInt (t : Bytes) : Bool :=
  t.isEmpty || t.any fun c =>
    !(isDigit c || (65 ≤ c.toNat && c.toNat ≤ 90) || (97 ≤ c.toNat && c.toNat ≤ 122) || c == 0x5f || c == 0x2b || c == 0x2d)

/-- `parseDecimal`, except that text the model does not decide is accepted as a marker value -/
def markerInt : Int := 424242424242424242424242

def decCfg (old : Bool) (flag : String) (undecided : Bool) : Option DecCfg :=
  let pi : Bytes → Option Int := fun t =>
    match parseDecimal t with
    | some i => some i
    | none => if undecided && !definitelyBadInt t then some markerInt else none
  match flag with
  | "n" => some { oldBinint2 := old, parseInt := pi, host := none }
  | "h" => some { oldBinint2 := old, parseInt := pi, host := some (testHost false) }
  | "H" => some { oldBinint2 := old, parseInt := pi, host := some (testHost true) }
  | "E" => some { oldBinint2 := old, parseInt := pi, host := some envHost }      -- dawn's envUnpickler
  | _ => none

def showOutcome : Outcome → String
  | .ok h v => "ok " ++ showGraph (canon h v)
  | .err _ => "err"
  | .nilNoErr => "nil"
  | .outOfFuel => "hang"

def doDec (old : Bool) (flag hx : String) : String :=
  match unhexB hx, decCfg old flag false, decCfg old flag true with
  | some bs, some cfg, some cfgU =>
    let strict := showOutcome (decode cfg bs)
    -- if treating undecided INT text as accepted changes nothing, the answer does not depend on it
    if strict == "err" then
      match decode cfgU bs with
      | .err _ => strict
      | .ok _ _ => "either ok"
      | .nilNoErr => "either nil"
      | .outOfFuel => "hang"
    else strict
  | _, _, _ => "bad-input"

def doEnc (old : Bool) (flag gs : String) : String :=
  match parseGraph gs with
  | none => "bad-input"
  | some g =>
    -- the hypotheses of C07_roundtrip are re-checked on every graph the harness generates
    if !(g.heap.keysOK && g.sizesOK) then "outside-hypotheses-of-C07_roundtrip" else
    -- and so is the harness's canonicalisation target, by the encoder-independent test of C07_total
    if !g.canonical then "not-canonical" else
    match encode { rebatch := old, pickler := flag == "p" } g with
    | some bs => "ok " ++ hexB bs
    | none => "err"

/-! several values through one Encoder / Decoder: `encs <p|n> <roots>|<objs>` with the roots separated by `&`;
`decs <host> <k> <hex>` reads k values -/

def parseMGraph (s : String) : Option MGraph :=
  match s.splitOn "|" with
  | [r, os] => do
    let roots ← (r.splitOn "&").mapM parseVal
    let heap ← if os.isEmpty then some [] else (os.splitOn ";").mapM parseObj
    pure ⟨heap, roots⟩
  | _ => none

def showMGraph (g : MGraph) : String :=
  "&".intercalate (g.roots.map showVal) ++ "|" ++ ";".intercalate (g.heap.map showObj)

def canonMany (heap : Heap) (roots : List Val) : MGraph :=
  let h := heap.toArray
  let (rs, st) := (roots.mapM (canonVal h)).run { map := Array.replicate h.size none }
  ⟨st.out.toList, rs⟩

def doEncs (flag gs : String) : String :=
  match parseMGraph gs with
  | none => "bad-input"
  | some g =>
    if !(g.heap.keysOK && g.heap.all Obj.sizeOK && g.roots.all Val.sizeOK) then "outside-hypotheses-of-C07_roundtrip" else
    match encodeStream { pickler := flag == "p" } g with
    | some bs => "ok " ++ hexB bs
    | none => "err"

def doDecs (flag k hx : String) : String :=
  match unhexB hx, decCfg false flag false, k.toNat? with
  | some bs, some cfg, some n =>
    match decodeStream cfg n {} bs [] with
    | .ok vals h => "ok " ++ showMGraph (canonMany h vals)
    | .err i _ => s!"err {i}"
    | .nilNoErr i => s!"nil {i}"
    | .outOfFuel => "hang"
  | _, _, _ => "bad-input"

/-- `decn <host> <n> <hex>`: n Decode calls on one Decoder, each answered `ok <graph>` | `err` | `nil`, joined by ` ## ` -/
def doDecn (flag k hx : String) : String :=
  match unhexB hx, decCfg false flag false, decCfg false flag true, k.toNat? with
  | some bs, some cfg, some cfgU, some n =>
    let show1 (os : List Outcome) : String := " ## ".intercalate (os.map showOutcome)
    let strict := show1 (decodeCalls cfg n {} bs)
    if strict == show1 (decodeCalls cfgU n {} bs) then strict else "either multi"
  | _, _, _, _ => "bad-input"

def step (line : String) : String :=
  match line.splitOn " " with
  | ["enc", f, g] => doEnc false f g
  | ["encold", f, g] => doEnc true f g
  | ["dec", f, h] => doDec false f h
  | ["decold", f, h] => doDec true f h
  | ["encs", f, g] => doEncs f g
  | ["decs", f, k, h] => doDecs f k h
  | ["decn", f, k, h] => doDecn f k h
  | _ => "bad-op"

def main : IO Unit := mainLoop step

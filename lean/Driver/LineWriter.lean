import Driver.Common
import Dawn.Model.LineWriter
/-! driver for the C18 models: one request per line, one answer per line

    lw  <new|old> <line> <op>,<op>,…   ops: `w<hex>` (Write of these bytes; `w-` = empty) or `f` (Flush); `line` is the
                                       initial builder content (hex, `-` empty); `old` uses Flush before the D10 repair
                                       → `<builder hex> <line hex>,<line hex>,…` (`.` when no line was printed)
    split <hex>                        → the specification's lines of a complete output
    ev  <deps> <flags>                 deps: string over o m c x (ok missing cyclic other), `.` = none;
                                       flags: 10 chars 0/1 = upToDateErr always depsUpToDate upToDate rerun dryRun isTarget preSaveOk bodyOk saveOk
                                       → `<events> <0|1 error>` events: string over U E S F, `.` = none
    evq <deps> <flags>                 → the events only
    evo <deps> <flags> <line> <chunk>,…  the same with the body writing these chunks (hex; `.` = none) to a line
                                       writer whose builder holds <line> → `<item>,<item>,… <builder afterwards>`,
                                       items `U E S F` and `P<hex of line>` in delivery order (`.` = none)
    kind <method>                      → the kind string `runEvents.<method>` reports
-/
open Dawn Driver

def showLines (ls : List (List UInt8)) : String :=
  if ls.isEmpty then "." else ",".intercalate (ls.map hexBytes)

def parseOp (s : String) : Option LineWriter.Op :=
  if s == "f" then some .flush
  else if s.startsWith "w" then (unhex (s.drop 1).toString).map fun b => .write b.toList
  else none

def parseDeps (s : String) : Option (List Events.Dep) :=
  if s == "." then some [] else s.toList.mapM fun c =>
    if c == 'o' then some .ok else if c == 'm' then some .missing else if c == 'c' then some .cyclic
    else if c == 'x' then some .other else none

def showEvs (es : List Events.Ev) : String :=
  if es.isEmpty then "." else String.ofList (es.map fun
    | .upToDate => 'U' | .evaluating => 'E' | .succeeded => 'S' | .failed => 'F')

def step (line : String) : String :=
  match line.splitOn " " with
  | ["lw", mode, init, ops] =>
    match unhex init, (if ops == "." then some [] else (ops.splitOn ",").mapM parseOp) with
    | some b, some os =>
      let r := if mode == "old" then LineWriter.runOld b.toList os else LineWriter.run b.toList os
      hexBytes r.1 ++ " " ++ showLines r.2
    | _, _ => "bad-input"
  | ["split", h] => match unhex h with
    | some b => showLines (LineWriter.splitLines b.toList)
    | none => "bad-input"
  | ["ev", deps, flags] =>
    match parseDeps deps, flags.toList.map (· == '1') with
    | some ds, [a, b, c, d, e, f, t, p, g, h] =>
      let r := Events.evaluate { deps := ds, upToDateErr := a, always := b, depsUpToDate := c, upToDate := d,
                                 rerun := e, dryRun := f, isTarget := t, preSaveOk := p, bodyOk := g, saveOk := h }
      showEvs r.1 ++ " " ++ (if r.2 then "1" else "0")
    | _, _ => "bad-input"
  | ["evq", deps, flags] =>
    match parseDeps deps, flags.toList.map (· == '1') with
    | some ds, [a, b, c, d, e, f, t, p, g, h] =>
      showEvs (Events.evaluate { deps := ds, upToDateErr := a, always := b, depsUpToDate := c, upToDate := d,
                                 rerun := e, dryRun := f, isTarget := t, preSaveOk := p, bodyOk := g, saveOk := h }).1
    | _, _ => "bad-input"
  | ["evo", deps, flags, init, chunks] =>
    match parseDeps deps, flags.toList.map (· == '1'), unhex init,
        (if chunks == "." then some [] else (chunks.splitOn ",").mapM fun h => (unhex h).map (·.toList)) with
    | some ds, [a, b, c, d, e, f, t, p, g, h], some line, some cs =>
      let r := Events.evaluateOut { deps := ds, upToDateErr := a, always := b, depsUpToDate := c, upToDate := d,
                                    rerun := e, dryRun := f, isTarget := t, preSaveOk := p, bodyOk := g, saveOk := h } line.toList cs
      let items := r.1.map fun
        | .ev .upToDate => "U" | .ev .evaluating => "E" | .ev .succeeded => "S" | .ev .failed => "F"
        | .print l => "P" ++ hexBytes l
      (if items.isEmpty then "." else ",".intercalate items) ++ " " ++ hexBytes r.2.2
    | _, _, _, _ => "bad-input"
  | ["kind", m] =>
    if m == "Print" then Events.printKind
    else if m == "RunDone" then Events.runDoneKind
    else if m == "TargetUpToDate" then Events.Ev.upToDate.kind
    else if m == "TargetEvaluating" then Events.Ev.evaluating.kind
    else if m == "TargetSucceeded" then Events.Ev.succeeded.kind
    else if m == "TargetFailed" then Events.Ev.failed.kind
    else "unknown-method"
  | _ => "bad-op"

def main : IO Unit := mainLoop step

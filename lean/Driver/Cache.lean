import Driver.Common
import Dawn.Model.Cache
import Std.Data.HashSet
/-! driver for the `cache.once` model: one request per line, one answer per line

    trace <progs> <events>   validate an observed trace of the real code step by step against `Cache.next`
                             → `ok <final>` | `reject <event index> <why>`
    outcomes <progs>         all terminal outcomes of the model for these caller programs (exhaustive search)
                             → `ok <final>|<final>|…` (sorted)

  progs  = thread programs separated by `;`, a program is `-` or `key:out,key:out,…`, out = `f` (callable fails) | value
  events = `t.read.m` `t.read.h<v>` (get: RLock, read, RUnlock) `t.locked` `t.recheck.m` `t.recheck.h<v>`
           `t.callok.<v>` `t.callfail` `t.store` `t.unlock` `t.ret.e` `t.ret.<v>`, comma separated, `-` for none
  final  = `e=<k:v,…> ok=<k:n,…> fail=<k:n,…> r=<t:k:v|e,…> <done|pending>`; in `trace` answers `r` is in time order,
           in `outcomes` answers it is grouped by thread -/
open Dawn.Cache Driver

def parseOp (s : String) : Option Op :=
  match s.splitOn ":" with
  | [k, o] => do
    let k ← k.toNat?
    if o == "f" then some ⟨k, .fail⟩ else do
      let v ← o.toNat?
      some ⟨k, .ok v⟩
  | _ => none

def parseProgs (s : String) : Option (List (List Op)) :=
  (s.splitOn ";").mapM fun p => if p == "-" then some [] else (p.splitOn ",").mapM parseOp

def progFn (ps : List (List Op)) : Tid → List Op := fun t => ps.getD t []

def keysOf (ps : List (List Op)) : List Key :=
  (ps.flatMap fun p => p.map Op.key).eraseDups.mergeSort

def showOpt : Option Val → String
  | some v => toString v
  | none => "e"

def commaJoin (xs : List String) : String := if xs.isEmpty then "-" else ",".intercalate xs

def finalStr (ps : List (List Op)) (s : State) (rets : List (Tid × Key × Option Val)) : String :=
  let ks := keysOf ps
  let e := ks.filterMap fun k => (s.entries k).map fun v => s!"{k}:{v}"
  let c := ks.map fun k => s!"{k}:{(s.okCalls k).length}"
  let f := ks.map fun k => s!"{k}:{s.failCalls k}"
  let r := rets.map fun (t, k, v) => s!"{t}:{k}:{showOpt v}"
  let fin := (List.range ps.length).all fun t => (s.prog t).isEmpty
  s!"e={commaJoin e} ok={commaJoin c} fail={commaJoin f} r={commaJoin r} {if fin then "done" else "pending"}"

/-- the model steps one observed event stands for, with the check of the observed value -/
def applyEvent (s : State) (ev : String) : Except String State :=
  let stepT (s : State) (t : Tid) (want : PC → Bool) (what : String) : Except String State :=
    if want (s.pc t) then
      match next s t with
      | some s' => .ok s'
      | none => .error s!"{what}: not enabled in the model"
    else .error s!"{what}: thread is not at that statement in the model"
  let parseRes (a : String) : Option (Option Val) :=
    if a == "m" then some none
    else if a.startsWith "h" then (a.drop 1).toNat?.map some else none
  match ev.splitOn "." with
  | [t, "read", a] => match t.toNat?, parseRes a with
    | some t, some r => do
      let s ← stepT s t (· == .start) "RLock"
      let s ← stepT s t (· == .rheld) "read"
      if s.pc t != .rdone r then .error s!"read: the model reads {showOpt (match s.pc t with | .rdone x => x | _ => none)}"
      else stepT s t (fun _ => true) "RUnlock"
    | _, _ => .error "bad event"
  | [t, "locked"] => match t.toNat? with
    | some t => stepT s t (· == .wlock) "Lock"
    | none => .error "bad event"
  | [t, "recheck", a] => match t.toNat?, parseRes a with
    | some t, some r => do
      let s ← stepT s t (· == .wheld) "recheck"
      if s.pc t != afterRecheck r then .error "recheck: the model sees a different entry" else .ok s
    | _, _ => .error "bad event"
  | [t, "callok", v] => match t.toNat?, v.toNat? with
    | some t, some v => do
      let s ← stepT s t (· == .miss) "call"
      if s.pc t != .callok v then .error "call: the model's callable does not return that" else .ok s
    | _, _ => .error "bad event"
  | [t, "callfail"] => match t.toNat? with
    | some t => do
      let s ← stepT s t (· == .miss) "call"
      if s.pc t != .holding none then .error "call: the model's callable does not fail" else .ok s
    | none => .error "bad event"
  | [t, "store"] => match t.toNat? with
    | some t => stepT s t (fun p => match p with | .callok _ => true | _ => false) "store"
    | none => .error "bad event"
  | [t, "unlock"] => match t.toNat? with
    | some t => stepT s t (fun p => match p with | .holding _ => true | _ => false) "Unlock"
    | none => .error "bad event"
  | [t, "ret", a] => match t.toNat? with
    | some t =>
      let r : Option (Option Val) := if a == "e" then some none else a.toNat?.map some
      match r with
      | some r => if s.pc t != .retv r then .error "return: the model returns something else" else stepT s t (fun _ => true) "return"
      | none => .error "bad event"
    | none => .error "bad event"
  | _ => .error "bad event"

def runTrace (ps : List (List Op)) (evs : List String) : String :=
  let rec go (s : State) (i : Nat) : List String → String
    | [] => "ok " ++ finalStr ps s s.rets.reverse
    | e :: es => match applyEvent s e with
      | .ok s' => go s' (i + 1) es
      | .error why => s!"reject {i} {e} {why}"
  go (init (progFn ps)) 0 evs

/-- canonical key of a state over the finite set of threads and keys of the request -/
def stateKey (n : Nat) (ks : List Key) (s : State) : String :=
  let pcs := (List.range n).map fun t => s!"{repr (s.pc t)}/{(s.prog t).length}"
  let es := ks.map fun k => s!"{showOpt (s.entries k)}/{s.okCalls k}/{s.failCalls k}"
  let rs := (List.range n).map fun t => (s.rets.filter (·.1 == t)).map fun (_, k, v) => s!"{k}:{showOpt v}"
  s!"{s.readers} {s.writer} {pcs} {es} {rs}"

partial def explore (ps : List (List Op)) : Nat × List String :=
  let n := ps.length
  let ks := keysOf ps
  let rec go (todo : List State) (seen : Std.HashSet String) (fin : Std.HashSet String) : Std.HashSet String × Std.HashSet String :=
    match todo with
    | [] => (seen, fin)
    | s :: rest =>
      let succ := (List.range n).filterMap fun t => next s t
      if succ.isEmpty then
        let byThread := (List.range n).flatMap fun t => s.rets.reverse.filter (·.1 == t)
        go rest seen (fin.insert (finalStr ps s byThread))
      else
        let (todo', seen') := succ.foldl (fun (acc : List State × Std.HashSet String) s' =>
          let k := stateKey n ks s'
          if acc.2.contains k then acc else (s' :: acc.1, acc.2.insert k)) (rest, seen)
        go todo' seen' fin
  let s0 := init (progFn ps)
  let (seen, fin) := go [s0] (Std.HashSet.emptyWithCapacity.insert (stateKey n ks s0)) Std.HashSet.emptyWithCapacity
  (seen.size, fin.toList.mergeSort)

def step (line : String) : String :=
  match line.splitOn " " with
  | ["trace", ps, evs] => match parseProgs ps with
    | none => "bad-input"
    | some ps => runTrace ps (if evs == "-" then [] else evs.splitOn ",")
  | ["outcomes", ps] => match parseProgs ps with
    | none => "bad-input"
    | some ps => let (_, fs) := explore ps; s!"ok {"|".intercalate fs}"
  | _ => "bad-op"

def main : IO Unit := mainLoop step

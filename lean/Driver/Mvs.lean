import Driver.Common
import Dawn.Model.MvsRef
/-! driver for the MVS model (C10, C11): one request per line, one answer per line

    seq <repo> <nodes> <tags> <refs> <root> <ops>
        nodes : path#version#name>req,req|…        (`-` = none; requirement lists in declared order; req = path#version)
        tags  : path#version!revision,…            (`-` = none; canonical tags in `repo.Versions()` order, with the revision each points at)
        refs  : default;r=<ref>=<revision>;…;h=<revision>=<yyyymmddhhmmss>=<pseudo id>=<rev.rev.…>;…
                (the commit history: what each ref names, and for every such revision its time stamp, pseudo id and the
                 ids `History()` yields, itself first — ref queries are resolved by the model, `resolveRefQuery`)
        root  : name=path#version,…                (`-` = none)
        ops   : bl | tidy | upall | get:<query>, separated by `;` — applied in sequence, every successful edit
                replaces the requirements
      → one answer per op, separated by `;`
        bl            ok:path#version,…            (sorted by path, without the root entry)
        tidy, upall   ok:name=path#version,…       (sorted by name)
        get           ok:<requirements>|<add/same/up/down>|<resolved path#version>|<landed 0/1/e>|<query resolves to the same version against the new build list 0/1/e>
        errors        err:buildlist | err:other | panic | hang
    sv  <hex>          → `ok <canonical> <major> <major.minor> [<prerelease>]` | `invalid`
    cmp <hex> <hex>    → `<semver.Compare> <cmpVersion>` as -1/0/1
-/
open Dawn.Mvs Driver

def fuel : Nat := 200000

def parseMod (s : String) : Option Mod :=
  match s.splitOn "#" with
  | [p, v] => some ⟨p, Ver.ofString v⟩
  | _ => none

def parseList (s : String) (sep : String) : List String := if s == "-" || s == "" then [] else s.splitOn sep

def parseNode (s : String) : Option (Mod × Summary) :=
  match s.splitOn ">" with
  | [hd, rs] =>
    match hd.splitOn "#" with
    | [p, v, name] => do
      let reqs ← (parseList rs ",").mapM parseMod
      some (⟨p, Ver.ofString v⟩, ⟨name, reqs⟩)
    | _ => none
  | _ => none

def parseTag (s : String) : Option (Mod × String) :=
  match s.splitOn "!" with
  | [m, r] => (parseMod m).map fun m => (m, r)
  | [m] => (parseMod m).map fun m => (m, "")
  | _ => none

/-- default ref, ref ↦ revision, revision ↦ (stamp, pseudo id, history) -/
def parseRefs (s : String) : Option (String × List (String × String) × List (String × Revision × List String)) :=
  match s.splitOn ";" with
  | [] => none
  | dflt :: rest => do
    let es := rest.filter (· ≠ "")
    let rs ← (es.filter (·.startsWith "r=")).mapM fun e =>
      match e.splitOn "=" with
      | [_, r, rev] => some (r, rev)
      | _ => none
    let hs ← (es.filter (·.startsWith "h=")).mapM fun e =>
      match e.splitOn "=" with
      | [_, id, stamp, pid, anc] => some (id, (⟨id, stamp, pid⟩ : Revision), anc.splitOn ".")
      | _ => none
    some (dflt, rs, hs)

def parseRoot (s : String) : Option Config :=
  (parseList s ",").mapM fun e =>
    match e.splitOn "=" with
    | [n, m] => (parseMod m).map fun m => (n, m)
    | _ => none

def mkEnv (repo : String) (nodes : List (Mod × Summary)) (tags : List (Mod × String)) (dflt : String)
    (refs : List (String × String)) (hist : List (String × Revision × List String)) : Env :=
  let h : History :=
    { refs := fun r => refs.lookup r
      revision := fun id => (hist.lookup id).map (·.1)
      ancestors := fun id => ((hist.lookup id).map (·.2)).getD []
      tagRevs := tags }
  { repo := repo
    summary := fun m => nodes.lookup m
    tags := tags.map (·.1)
    defaultRef := dflt
    refs := refsOf h }

def showMod (m : Mod) : String := m.path ++ "#" ++ m.ver.render
def showList (xs : List String) : String := if xs.isEmpty then "-" else ",".intercalate xs
def showBL (l : List Mod) : String := showList ((l.filter (·.path ≠ "")).map showMod)
def showCfg (c : Config) : String := showList (c.map fun nm => nm.1 ++ "=" ++ showMod nm.2)

def showErr : Err → String
  | .buildList => "err:buildlist"
  | .other => "err:other"
  | .panic => "panic"
  | .fuel => "hang"

/-- what the harness observes next to a `get`: the branch taken and whether the result landed on the resolved version -/
def observeGet (e : Env) (c c' : Config) (q : String) : String :=
  match BuildList fuel e c with
  | .error _ => "?"
  | .ok bl =>
    match resolveVersionQuery e bl (parseVersionQuery q) with
    | .error _ => "?"
    | .ok v =>
      let branch := match bl.find? (·.path = v.path) with
        | none => "add"
        | some cur => match semverCompare cur.ver v.ver with
          | .lt => "up"
          | .gt => "down"
          | .eq => "same"
      let landed := match BuildList fuel e c' with
        | .error _ => "e"
        | .ok bl' => if (bl'.find? (·.path = v.path)).map (·.ver) = some v.ver then "1" else "0"
      let stable := match BuildList fuel e c' with
        | .error _ => "e"
        | .ok bl' => match resolveVersionQuery e bl' (parseVersionQuery q) with
          | .error _ => "e"
          | .ok v' => if v' = v then "1" else "0"
      branch ++ "|" ++ showMod v ++ "|" ++ landed ++ "|" ++ stable

def runOps (e : Env) : Config → List String → List String
  | _, [] => []
  | c, op :: ops =>
    if op == "bl" then
      (match BuildList fuel e c with
        | .ok l => "ok:" ++ showBL l
        | .error err => showErr err) :: runOps e c ops
    else
      let r : Option (Except Err Config) :=
        if op == "tidy" then some (Tidy fuel e c)
        else if op == "upall" then some (UpgradeAll fuel e c)
        else if op.startsWith "get:" then some (Get fuel e c (op.drop 4).toString)
        else none
      match r with
      | none => "bad-op" :: runOps e c ops
      | some (.error err) => showErr err :: runOps e c ops
      | some (.ok c') =>
        let extra := if op.startsWith "get:" then "|" ++ observeGet e c c' (op.drop 4).toString else ""
        ("ok:" ++ showCfg c' ++ extra) :: runOps e c' ops

def ordStr : Ordering → String
  | .lt => "-1"
  | .eq => "0"
  | .gt => "1"

/-- `semver.Compare` on arbitrary strings: valid non-canonical versions compare by their canonical form -/
def cmpStrings (a b : String) : Ordering × Ordering :=
  let pa := parseSem a.toList
  let pb := parseSem b.toList
  let va : Ver := match pa with | some p => .sv p.sv | none => .none
  let vb : Ver := match pb with | some p => .sv p.sv | none => .none
  let sc := semverCompare va vb
  -- cmpVersion looks at the raw strings for ""
  let cv := if b == "" then (if a == "" then .eq else .lt) else if a == "" then .gt else sc
  (sc, cv)

def step (line : String) : String :=
  match line.splitOn " " with
  | ["seq", repo, nodes, tags, refs, root, ops] =>
    match (parseList nodes "|").mapM parseNode, (parseList tags ",").mapM parseTag, parseRefs refs, parseRoot root with
    | some ns, some ts, some (dflt, rs, hs), some c =>
      ";".intercalate (runOps (mkEnv repo ns ts dflt rs hs) c (ops.splitOn ";"))
    | _, _, _, _ => "bad-input"
  | ["sv", h] =>
    match unhexStr h with
    | none => "bad-input"
    | some s =>
      match parseSem s.toList with
      | none => "invalid"
      | some p =>
        let mm := "v" ++ toString p.sv.major ++ "." ++ toString p.sv.minor
        let pre := if p.sv.pre = [] then "" else "-" ++ String.ofList (renderPre p.sv.pre)
        "ok " ++ String.ofList p.sv.render ++ " v" ++ toString p.sv.major ++ " " ++ mm ++ " [" ++ pre ++ "]"
  | ["cmp", ha, hb] =>
    match unhexStr ha, unhexStr hb with
    | some a, some b => let (x, y) := cmpStrings a b; ordStr x ++ " " ++ ordStr y
    | _, _ => "bad-input"
  | _ => "bad-op"

def main : IO Unit := mainLoop step

import Driver.Common
import Dawn.Model.Config
/-! driver for the project-configuration model (C19): one request per line, one answer per line

    emit      <name> <version> <ignore> <reqs>   → `<hex of the file WriteConfigFile writes>`
    emitold   <name> <version> <ignore> <reqs>   → the same with the quoting rule before the repair of D12
    load      <hex text>                         → `ok <name> <version> <ignore> <reqs>` | `err badVersion` | `outside`
    cleanpath <hex>                              → `<hex>`
    semver    <hex>                              → `0` | `1`     (IsValid && Canonical(v) == v)
    valid     <name> <version> <ignore> <reqs>   → `0` | `1`     (inside C19's quantifier: `Config.valid`, requirements in key order)
    rewrite   <hex text> <reqs>                  → `ok <hex of the file get/tidy write>` | `err badVersion` | `outside`

  strings are hex, `-` is the empty string; `<ignore>` is `.` or `h,h,…`; `<reqs>` is `.` or `k:p:v,k:p:v,…`. -/
open Dawn.Config Driver

def unhexB (s : String) : Option Bytes := (unhex s).map ByteArray.toList

def parseIgnore (s : String) : Option (List Bytes) :=
  if s == "." then some [] else (s.splitOn ",").mapM unhexB

def parseReqs (s : String) : Option (List Req) :=
  if s == "." then some [] else (s.splitOn ",").mapM fun r =>
    match r.splitOn ":" with
    | [k, p, v] => do
      let k ← unhexB k; let p ← unhexB p; let v ← unhexB v
      pure ⟨k, p, v⟩
    | _ => none

def parseCfg (n v ig rq : String) : Option Config := do
  let n ← unhexB n; let v ← unhexB v; let ig ← parseIgnore ig; let rq ← parseReqs rq
  pure ⟨n, v, ig, rq⟩

def cfgStr (c : Config) : String :=
  hexBytes c.name ++ " " ++ hexBytes c.version ++ " " ++
  (if c.ignore.isEmpty then "." else ",".intercalate (c.ignore.map hexBytes)) ++ " " ++
  (if c.reqs.isEmpty then "." else ",".intercalate (c.reqs.map fun r =>
    hexBytes r.key ++ ":" ++ hexBytes r.path ++ ":" ++ hexBytes r.version))

def step (line : String) : String :=
  match line.splitOn " " with
  | ["emit", n, v, ig, rq] => match parseCfg n v ig rq with
    | some c => hexBytes (emit c)
    | none => "bad-input"
  | ["emitold", n, v, ig, rq] => match parseCfg n v ig rq with
    | some c => hexBytes (emitOld c)
    | none => "bad-input"
  | ["load", t] => match unhexB t with
    | some t => match parseSub t with
      | .ok c => "ok " ++ cfgStr c
      | .error .badVersion => "err badVersion"
      | .error .outside => "outside"
    | none => "bad-input"
  | ["valid", n, v, ig, rq] => match parseCfg n v ig rq with
    | some c => if ({ c with reqs := sortReqs c.reqs } : Config).valid then "1" else "0"
    | none => "bad-input"
  | ["rewrite", t, rq] => match unhexB t, parseReqs rq with
    | some t, some rq => match rewriteFile t rq with
      | .ok b => "ok " ++ hexBytes b
      | .error .badVersion => "err badVersion"
      | .error .outside => "outside"
    | _, _ => "bad-input"
  | ["cleanpath", p] => match unhexB p with
    | some p => hexBytes (cleanPath p)
    | none => "bad-input"
  | ["semver", v] => match unhexB v with
    | some v => if canonicalSemver v then "1" else "0"
    | none => "bad-input"
  | _ => "bad-op"

def main : IO Unit := mainLoop step

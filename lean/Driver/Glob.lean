import Driver.Common
import Dawn.Model.Glob
/-! driver for the glob model: one request per line, one answer per line

    text  <p1>,<p2>,…          → `ok <hex of emitted regexp text>` | `err trailing|bad`
    tree  <p1>,<p2>,…          → `ok <s-expression>`               | `err …`
    match <p1>,<p2>,… <path>   → `ok <0|1 set matches> <0|1 union of the patterns by the specification>` | `err …`

    select <inc> <exc> <f1>;<f2>;…   → `ok <selected files>`   (the filter of the glob() builtins)
    loaded <ignore> <d1>;<d2>;…      → `ok <package dirs that load>` (Project.loadPackage + ignore list)

  patterns and path are hex-encoded UTF-8; an empty list is `.`; an empty string is `-`. -/
open Dawn.Glob Driver

def parsePats (s : String) : Option (List (List Char)) :=
  if s == "." then some [] else (s.splitOn ",").mapM fun h => (unhexStr h).map String.toList

def parseList (s : String) : Option (List (List Char)) :=
  if s == "." then some [] else (s.splitOn ";").mapM fun h => (unhexStr h).map String.toList

def showList (l : List (List Char)) : String :=
  if l.isEmpty then "." else ";".intercalate (l.map fun p => hexStr (String.ofList p))

/-- components of a package directory path below the root (`""` is the root itself) -/
def splitDirs (d : List Char) : List (List Char) :=
  if d.isEmpty then [] else (String.ofList d).splitOn "/" |>.map String.toList

def errStr : Err → String
  | .trailingEscape => "err trailing"
  | .badEscape => "err bad"

def step (line : String) : String :=
  match line.splitOn " " with
  | ["text", ps] => match parsePats ps with
    | none => "bad-input"
    | some gs => match render gs with
      | .ok t => "ok " ++ hexStr t
      | .error e => errStr e
  | ["tree", ps] => match parsePats ps with
    | none => "bad-input"
    | some gs => match compileGlobs gs with
      | .ok r => "ok " ++ r.sexp
      | .error e => errStr e
  | ["match", ps, path] => match parsePats ps, unhexStr path with
    | some gs, some p => match compileGlobs gs, lexAll gs with
      | .ok r, .ok tss =>
        let m := matchString r p.toList
        let u := tss.any fun ts => globMatchB ts p.toList
        s!"ok {if m then 1 else 0} {if u then 1 else 0}"
      | .error e, _ => errStr e
      | _, .error e => errStr e
    | _, _ => "bad-input"
  | ["select", inc, exc, files] => match parsePats inc, parsePats exc, parseList files with
    | some gi, some ge, some fs => match compileGlobs gi, compileGlobs ge with
      | .ok ri, .ok re => "ok " ++ showList (globSelect ri re fs)
      | .error e, _ => errStr e
      | _, .error e => errStr e
    | _, _, _ => "bad-input"
  | ["loaded", ign, dirs] => match parsePats ign, parseList dirs with
    | some gi, some ds => match compileGlobs gi with
      | .ok r => "ok " ++ showList (ds.filter fun d => packageLoaded (some r) (splitDirs d))
      | .error e => errStr e
    | _, _ => "bad-input"
  | _ => "bad-op"

def main : IO Unit := mainLoop step

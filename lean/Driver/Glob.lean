import Driver.Common
import Dawn.Model.Glob
/-! driver for the glob model: one request per line, one answer per line

    text  <p1>,<p2>,…          → `ok <hex of emitted regexp text>` | `err trailing|bad`
    tree  <p1>,<p2>,…          → `ok <s-expression>`               | `err …`
    match <p1>,<p2>,… <path>   → `ok <0|1 set matches> <0|1 union of the patterns by the specification>` | `err …`

  patterns and path are hex-encoded UTF-8; an empty list is `.`; an empty string is `-`. -/
open Dawn.Glob Driver

def parsePats (s : String) : Option (List (List Char)) :=
  if s == "." then some [] else (s.splitOn ",").mapM fun h => (unhexStr h).map String.toList

def errStr : Err → String
  | .trailingEscape => "err trailing"
  | .badEscape => "err bad"

def step (line : String) : String :=
  match line.splitOn " " with
  | ["text", ps] => match parsePats ps with
    | none => "bad-input"
    | some gs => match render gs with
      | .ok t => "ok " ++ hexStr t
      | .error e => errStr e
  | ["tree", ps] => match parsePats ps with
    | none => "bad-input"
    | some gs => match compileGlobs gs with
      | .ok r => "ok " ++ r.sexp
      | .error e => errStr e
  | ["match", ps, path] => match parsePats ps, unhexStr path with
    | some gs, some p => match compileGlobs gs, lexAll gs with
      | .ok r, .ok tss =>
        let m := matchString r p.toList
        let u := tss.any fun ts => globMatchB ts p.toList
        s!"ok {if m then 1 else 0} {if u then 1 else 0}"
      | .error e, _ => errStr e
      | _, .error e => errStr e
    | _, _ => "bad-input"
  | _ => "bad-op"

def main : IO Unit := mainLoop step

-- root of the library: property theorems of every area
import Dawn.Props.Glob

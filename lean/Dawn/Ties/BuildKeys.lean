import Dawn.Model.Build
import Dawn.Extracted.Build
import Dawn.Ties.BuildExpected
/-!
Tie 1 for the D27 repair (C02): the persisted dependencies map has the type whose JSON methods escape its keys
reversibly, and those functions are the ones `escapeKey` / `unescapeKey` model (compared value by value in the
stream `build.keys`). Kept apart from `Dawn/Ties/Build.lean` because these facts exist only after the repair.
-/
namespace Dawn.Ties.BuildKeys
open Dawn

theorem dependencies_type_ok : Extracted.Build.dependenciesType = "depStamps" := by decide
theorem escapeLabel_ok : Extracted.Build.escapeLabel = Expected.Build.escapeLabel := rfl
theorem unescapeLabel_ok : Extracted.Build.unescapeLabel = Expected.Build.unescapeLabel := rfl
theorem depStampsMarshal_ok : Extracted.Build.depStampsMarshal = Expected.Build.depStampsMarshal := rfl
theorem depStampsUnmarshal_ok : Extracted.Build.depStampsUnmarshal = Expected.Build.depStampsUnmarshal := rfl
end Dawn.Ties.BuildKeys

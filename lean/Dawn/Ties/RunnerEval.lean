import Dawn.Model.Runner
import Dawn.Extracted.Runner
import Dawn.Ties.RunnerExpected
/-! Tie 1, `EvaluateTargets` and the cycle walk (C04, C05). -/
namespace Dawn.Ties.Runner
open Dawn

/-- `EvaluateTargets` performs its operations in the order of the model's program counters -/
theorem eval_order_ok : Extracted.Runner.evalOrder = Runner.evalOrder := by decide

/-- deadlock freedom (the walk invariant) needs: the waiting set is published *before* the cycle walk,
    and the walk precedes the wait -/
theorem publish_before_walk :
    Extracted.Runner.evalOrder.idxOf "Swap" < Extracted.Runner.evalOrder.idxOf "if(checkDeps)" ∧
    Extracted.Runner.evalOrder.idxOf "if(checkDeps)" < Extracted.Runner.evalOrder.idxOf "range(wait)" ∧
    "Swap" ∈ Extracted.Runner.evalOrder ∧ "if(checkDeps)" ∈ Extracted.Runner.evalOrder ∧
    "range(wait)" ∈ Extracted.Runner.evalOrder := by decide

/-- every dependency is started before the waiting set is published (so a waited-for target is never idle) -/
theorem start_before_publish :
    Extracted.Runner.evalOrder.idxOf "range(getTarget,start)" < Extracted.Runner.evalOrder.idxOf "Swap" ∧
    "range(getTarget,start)" ∈ Extracted.Runner.evalOrder := by decide

/-- the waiting set is withdrawn when `EvaluateTargets` returns (deferred right after publication) -/
theorem unpublish_deferred :
    Extracted.Runner.evalOrder.idxOf "defer(Swap(nil))" = Extracted.Runner.evalOrder.idxOf "Swap" + 1 := by decide

theorem skel_check_ok : Extracted.Runner.skel_engine_check = Expected.Runner.skel_engine_check := rfl
theorem skel_checkDeps_ok : Extracted.Runner.skel_engine_checkDeps = Expected.Runner.skel_engine_checkDeps := rfl
theorem skel_EvaluateTargets_ok :
    Extracted.Runner.skel_engine_EvaluateTargets = Expected.Runner.skel_engine_EvaluateTargets := rfl

end Dawn.Ties.Runner

/- Snapshot of Dawn/Extracted/Glob.lean taken by bin/accept-extracted: the facts the models and
   theorems of this area were written against. Compared with the regenerated file in Dawn/Ties/Glob.lean. -/
namespace Dawn.Expected.Glob

/-- facts the extractor could not find (the code no longer has the shape the model was written against) -/
def extractionErrors : List String := []

def writes : List String :=
  ["(?s)^(?:", "|", "(", ".*", "[^/]*", ".", "\\", ")", ")$"]

def cases : List (List Char) :=
  [[Char.ofNat 92],
   [Char.ofNat 92, Char.ofNat 42, Char.ofNat 63, Char.ofNat 91, Char.ofNat 93],
   [Char.ofNat 42],
   [Char.ofNat 63],
   [Char.ofNat 46, Char.ofNat 43, Char.ofNat 40, Char.ofNat 41, Char.ofNat 124, Char.ofNat 123, Char.ofNat 125, Char.ofNat 94, Char.ofNat 36, Char.ofNat 91, Char.ofNat 93]]

def body : String :=
  String.join [
    "(block (var (v1) (. strings Builder) ()) (call (. v1 WriteString) \"(?s)^(?:\") (range v2 v3 v0 (block (if _ (> v2 0) (block (call (. v1 WriteRune) '|')) _) (call (. v1 WriteRune) '(') (for (:= (v2) (0)) (< v2 (call len v3)) _ (block (switch (:= (v4) ((index v3 v2))) v4 (case ('\\\\') (if _ (== v2 (- (call len v3) 1)) (block (return nil (call (. errors New) \"invalid escape sequence\"))) _) (switch (:= (v5) ((index v3 (+ v2 1)))) v5 (case ('\\\\' '*' '?' '[' ']') (call (. v1 WriteByte) v4) (call (. v1 WriteByte) v5) (++ v2)) (default (return nil (call (. errors New) \"invalid escape sequence\"))))) (case ('*') (if _ (&& (< v2 (- (call len v3) 1)) (== (index v3 (+ v2 1)) '*')) (block (call (. v1 WriteString) \".*\") (++ v2)) (block (call (. v1 WriteString) \"[^/]*\")))) (case ('?') (call (. v1 WriteByte)",
    " '.')) (case ('.' '+' '(' ')' '|' '{' '}' '^' '$' '[' ']') (call (. v1 WriteByte) '\\\\') (call (. v1 WriteByte) v4)) (default (call (. v1 WriteByte) v4))) (++ v2))) (call (. v1 WriteRune) ')'))) (call (. v1 WriteString) \")$\") (return (call (. regexp Compile) (call (. v1 String)))))"]

end Dawn.Expected.Glob

/- Snapshot of Dawn/Extracted/Glob.lean taken by bin/accept-extracted: the facts the models and
   theorems of this area were written against. Compared with the regenerated file in Dawn/Ties/Glob.lean. -/
namespace Dawn.Expected.Glob

/-- facts the extractor could not find (the code no longer has the shape the model was written against) -/
def extractionErrors : List String := []

def writes : List String :=
  ["(?s)^(?:", "|", "(", ".*", "[^/]*", ".", "\\", ")", ")$"]

def cases : List (List Char) :=
  [[Char.ofNat 92],
   [Char.ofNat 92, Char.ofNat 42, Char.ofNat 63, Char.ofNat 91, Char.ofNat 93],
   [Char.ofNat 42],
   [Char.ofNat 63],
   [Char.ofNat 46, Char.ofNat 43, Char.ofNat 40, Char.ofNat 41, Char.ofNat 124, Char.ofNat 123, Char.ofNat 125, Char.ofNat 94, Char.ofNat 36, Char.ofNat 91, Char.ofNat 93]]

def body : String :=
  String.join [
    "(block (var (v1) (. strings Builder) ()) (call (. v1 WriteString) \"(?s)^(?:\") (range v2 v3 v0 (block (if _ (> v2 0) (block (call (. v1 WriteRune) '|')) _) (call (. v1 WriteRune) '(') (for (:= (v2) (0)) (< v2 (call len v3)) _ (block (switch (:= (v4) ((index v3 v2))) v4 (case ('\\\\') (if _ (== v2 (- (call len v3) 1)) (block (return nil (call (. errors New) \"invalid escape sequence\"))) _) (switch (:= (v5) ((index v3 (+ v2 1)))) v5 (case ('\\\\' '*' '?' '[' ']') (call (. v1 WriteByte) v4) (call (. v1 WriteByte) v5) (++ v2)) (default (return nil (call (. errors New) \"invalid escape sequence\"))))) (case ('*') (if _ (&& (< v2 (- (call len v3) 1)) (== (index v3 (+ v2 1)) '*')) (block (call (. v1 WriteString) \".*\") (++ v2)) (block (call (. v1 WriteString) \"[^/]*\")))) (case ('?') (call (. v1 WriteByte)",
    " '.')) (case ('.' '+' '(' ')' '|' '{' '}' '^' '$' '[' ']') (call (. v1 WriteByte) '\\\\') (call (. v1 WriteByte) v4)) (default (call (. v1 WriteByte) v4))) (++ v2))) (call (. v1 WriteRune) ')'))) (call (. v1 WriteString) \")$\") (return (call (. regexp Compile) (call (. v1 String)))))"]

def builtinGlobBody : String :=
  String.join [
    "(block (:= (v5 v6) ((call (. util CompileGlobs) (call (array _ string) v3)))) (if _ (!= v6 nil) (block (return nil (call (. fmt Errorf) \"%s: %w\" (call (. v2 Name)) v6))) _) (:= (v7 v6) ((call (. util CompileGlobs) (call (array _ string) v4)))) (if _ (!= v6 nil) (block (return nil (call (. fmt Errorf) \"%s: %w\" (call (. v2 Name)) v6))) _) (:= (v8) ((assert (call (. v1 Local) \"module\") (* module)))) (:= (v9) ((call (. filepath Dir) (. v8 path)))) (:= (v10) ((call (. starlark NewList) nil))) (= (v6) ((call (. filepath WalkDir) v9 (func (block (if _ (!= v6 nil) (block (return v6)) _) (= (v11) ((slice v11 (call len v9) _ _))) (if _ (== (call len v11) 0) (block (return nil)) _) (= (v11) ((call (. filepath ToSlash) v11))) (if _ (== v11 \"/.dawn/build\") (block (return (. fs SkipDir))) _) (if _ (call",
    " (. v12 IsDir)) (block (return nil)) _) (= (v11) ((slice v11 1 _ _))) (if _ (&& (call (. v5 MatchString) v11) (u! (call (. v7 MatchString) v11))) (block (call (. v10 Append) (call (. starlark String) v11))) _) (return nil)))))) (if _ (!= v6 nil) (block (return nil v6)) _) (return v10 nil))"]

def osGlobBody : String :=
  String.join [
    "(block (:= (v4 v5) ((call (. util CompileGlobs) (call (array _ string) v2)))) (if _ (!= v5 nil) (block (return nil (call (. fmt Errorf) \"%s: %w\" (call (. v1 Name)) v5))) _) (:= (v6 v5) ((call (. util CompileGlobs) (call (array _ string) v3)))) (if _ (!= v5 nil) (block (return nil (call (. fmt Errorf) \"%s: %w\" (call (. v1 Name)) v5))) _) (:= (v7) ((call (. util Getwd) v0))) (var (v8) (array _ (. starlark Value)) ()) (= (v5) ((call (. filepath WalkDir) v7 (func (block (if _ (!= v5 nil) (block (return v5)) _) (switch _ _ (case ((== v9 v7)) (return nil)) (case ((&& (&& (> (call len v9) (call len v7)) (== (slice v9 _ (call len v7) _) v7)) (== (index v9 (call len v7)) (. os PathSeparator)))) (= (v9) ((slice v9 (+ (call len v7) 1) _ _))))) (if _ (&& (call (. v4 MatchString) v9) (u! (call (. v6 Ma",
    "tchString) v9))) (block (= (v8) ((call append v8 (call (. starlark String) v9))))) _) (return nil)))))) (if _ (!= v5 nil) (block (return nil v5)) _) (return (call (. starlark NewList) v8) nil))"]

def ignoredBody : String :=
  "(block (return (&& (!= (. v0 ignore) nil) (call (. (. v0 ignore) MatchString) v1))))"

def loadPackageBody : String :=
  String.join [
    "(block (if _ (call (. v0 ignored) (slice v2 2 _ _)) (block (return nil)) _) (if _ (== v1 nil) (block (= (v1) ((u& (lit (. sync WaitGroup))))) (defer (call (. v1 Wait)))) _) (:= (v3) ((call (. filepath Join) (. v0 root) (slice v2 2 _ _)))) (:= (v4 v5) ((call (. os ReadDir) v3))) (if _ (!= v5 nil) (block (return v5)) _) (range _ v6 v4 (block (switch _ _ (case ((call (. v6 IsDir))) (if _ (!= (call (. v6 Name)) \".dawn\") (block (:= (v7 _) ((call (. label Join) v2 (call (. v6 Name))))) (if (:= (v5) ((call (. v0 loadPackage) v1 v7))) (!= v5 nil) (block (return v5)) _)) _)) (case ((== (call (. v6 Name)) \"BUILD.dawn\")) (call (. v1 Add) 1) (go (call (func (block (call verifPoint \"loader.thread.begin\" v2) (call (. v0 loadModule) nil (u& (lit (. label Label) (kv Kind \"module\") (kv Package v2) (kv Name",
    " \"BUILD.dawn\")))) (call verifPoint \"loader.thread.end\" v2) (call (. v1 Done)))))))))) (return nil))"]

def watchBody : String :=
  String.join [
    "(block (:= (v2) ((call make (chan (. notify EventInfo)) 1000))) (:= (v3) ((call make (chan (struct))))) (go (call (func (block (:= (v4) ((call make (chan (struct))))) (:= (v5) ((call make (chan (struct))))) (go (call (func (block (range _ _ v4 (block (if (:= (v6) ((call (. v0 Reload)))) (!= v6 nil) (block (continue)) _) (call (. v0 Run) v1 nil))) (call close v5))))) (:= (v7) (false)) (:= (v8) ((call (. time NewTicker) (* 500 (. time Millisecond))))) (for _ _ _ (block (select (comm (:= (v10 v11) ((u<- v2))) (if _ (u! ok) (block (call close v4) (u<- v5) (call close v3) (return)) _) (:= (v9 v6) ((call (. filepath Rel) (. v0 root) (call (. event Path))))) (if _ (!= v6 nil) (block (continue)) _) (if _ (&& (u! (call (. strings HasPrefix) (call (. event Path)) (. v0 work))) (u! (call (. v0 ignore",
    "d) v9))) (block (= (v7) (true)) (:= (v1 v6) ((call sourceLabel \"//\" v9))) (if _ (!= v6 nil) (block (continue)) _) (call (. (. v0 events) FileChanged) v1)) _)) (comm (u<- (. v8 C)) (if _ v7 (block (select (comm (send v4 (lit (struct))) (= (v7) (false))) (comm _))) _))))))))) (if (:= (v6) ((call (. notify Watch) (call (. filepath Join) (. v0 root) \"...\") v2 (. notify All)))) (!= v6 nil) (block (call close v2) (u<- v3) (return v6)) _) (u<- v3) (return nil))"]

def newThreadBody : String :=
  "(block (:= (v1) ((u& (lit (. starlark Thread) (kv Name (call (. (. v0 label) String))) (kv Print (func (block (call (. (. (. v0 proj) events) Print) (. v0 label) v2)))) (kv Load (func (block (return nil (call (. errors New) \"targets cannot load modules\"))))))))) (:= (v4) ((slice (call (. label Split) (. (. v0 label) Package)) 1 _ _))) (:= (v5) ((call (. filepath Join) (. (. v0 proj) root) (call (. filepath Join) v4 ...)))) (call (. util Chdir) v1 v5) (call (. util SetStdio) v1 (. v0 out) (. v0 out)) (call (. v1 SetLocal) \"root\" (. (. v0 proj) root)) (call (. v1 SetLocal) \"module\" (. v0 module)) (return v1))"

def getwdBody : String :=
  "(block (:= (v1 v2) ((assert (call (. v0 Local) \"wd\") string))) (if _ (u! v2) (block (:= (v3 v4) ((call (. os Getwd)))) (if _ (== v4 nil) (block (= (v1) (v3))) _)) _) (return v1))"

end Dawn.Expected.Glob

import Dawn.Model.Build
import Dawn.Extracted.Build
import Dawn.Ties.BuildExpected
/-!
Tie 1 for C01, C02, C03, C13, C14: the facts regenerated from `target.go`, `function.go`, `sourceFile.go`,
`project.go`, `project_index.go` on this run are the ones `Dawn/Model/Build.lean` is written against.
Each theorem is re-checked by the kernel on every run; a change to the source that alters a fact breaks the
corresponding obligation (formatting, comments and local renames do not).
-/
namespace Dawn.Ties.Build
open Dawn

theorem extraction_complete : Extracted.Build.extractionErrors = [] := by decide

/-- `targetInfo`: the fields of a record, their JSON names, all `omitempty` (so an empty record is `{}` and a
missing field decodes to the zero value; an empty `Attrs` is the model's `attrs = none`); `Runs` is the D8 repair, `Attrs`
the D32 repair -/
theorem fields_ok : Extracted.Build.targetInfoFields =
    [("Doc", "doc,omitempty"), ("Dependencies", "dependencies,omitempty"), ("Data", "stamp,omitempty"),
     ("Rerun", "rerun,omitempty"), ("Runs", "runs,omitempty"), ("Attrs", "attrs,omitempty")] := by decide

/-- the kind → directory rule of `targetInfoPath`: kind `""` is `target`, an empty name is `BUILD.dawn`,
the file is `PathEscape(pkg[2:] + "/" + name)` in the directory `kind + "s"` -/
theorem path_literals_ok : Extracted.Build.pathLiterals = ["", "target", "", "BUILD.dawn", "/", "s"] := by decide

/-- the model's `targetInfoPath` uses exactly those literals -/
theorem path_model_ok :
    (Extracted.Build.pathLiterals.map fun l => l.toList.map Char.toNat) =
      [[], Build.kindTarget.map UInt8.toNat, [], Build.nameBuild.map UInt8.toNat, Build.slash.map UInt8.toNat,
       Build.pluralS.map UInt8.toNat] := by
  decide

/-- the crash points: the hook call sites, per function in source order, are the model's `Hook` points
(`bodyWrote` is hit by the harness's own body builtin) -/
theorem hooks_ok : Extracted.Build.hookPoints =
    ["target.body.before", "target.body.after", "target.record.failure", "target.record.success",
     "saveTargetInfo.created", "saveTargetInfo.written", "saveTargetInfo.renamed",
     "saveIndex.created", "saveIndex.encoded"] := by decide

/-! everything else about the modelled functions (control flow, operators, calls, field names): unchanged
since the model was written -/
theorem evaluate_ok : Extracted.Build.evaluate = Expected.Build.evaluate := rfl
theorem fnUpToDate_ok : Extracted.Build.fnUpToDate = Expected.Build.fnUpToDate := rfl
theorem fnLoad_ok : Extracted.Build.fnLoad = Expected.Build.fnLoad := rfl
theorem fnEvaluate_ok : Extracted.Build.fnEvaluate = Expected.Build.fnEvaluate := rfl
theorem srcUpToDate_ok : Extracted.Build.srcUpToDate = Expected.Build.srcUpToDate := rfl
theorem srcEvaluate_ok : Extracted.Build.srcEvaluate = Expected.Build.srcEvaluate := rfl
theorem srcLoad_ok : Extracted.Build.srcLoad = Expected.Build.srcLoad := rfl
theorem fileSum_ok : Extracted.Build.fileSum = Expected.Build.fileSum := rfl
theorem dirSum_ok : Extracted.Build.dirSum = Expected.Build.dirSum := rfl
theorem saveTargetInfo_ok : Extracted.Build.saveTargetInfo = Expected.Build.saveTargetInfo := rfl
theorem loadTargetInfo_ok : Extracted.Build.loadTargetInfo = Expected.Build.loadTargetInfo := rfl
theorem targetInfoPath_ok : Extracted.Build.targetInfoPath = Expected.Build.targetInfoPath := rfl
theorem stamp_ok : Extracted.Build.stamp = Expected.Build.stamp := rfl
/-- `function.attrs()`: the digest of `f.deps`, `len(f.sources)` and the generated files relative to the root, in order
(the model's `attrsOf`); compared with `info.Attrs` in `Evaluate` (`evaluate_ok`), written by the success record only -/
theorem fnAttrs_ok : Extracted.Build.fnAttrs = Expected.Build.fnAttrs := rfl
theorem gc_ok : Extracted.Build.gc = Expected.Build.gc := rfl
theorem link_ok : Extracted.Build.link = Expected.Build.link := rfl
theorem run_ok : Extracted.Build.run = Expected.Build.run := rfl
theorem applyOptions_ok : Extracted.Build.applyOptions = Expected.Build.applyOptions := rfl
/-- `RunOptions.apply` assigns BOTH flags on the nil-options path (the reset `applyOptions … none = ⟨false, false⟩`
models) and both on the other path -/
theorem applyOptions_nil_resets_ok : Extracted.Build.applyNilAssigns = ["always", "dryrun"] := by decide
theorem applyOptions_sets_ok : Extracted.Build.applySetAssigns = ["always", "dryrun"] := by decide
theorem builtinRun_ok : Extracted.Build.builtinRun = Expected.Build.builtinRun := rfl
/-- the REPL builtin `run`: the generated wrapper passes its variables in the order of `builtin_run`'s parameters, and
each keyword is unpacked into the variable of the same meaning (`always` / `dry_run` are adjacent bools: a swap would
type-check) -/
theorem run_wrapper_order_ok : Extracted.Build.runWrapperArgs = Extracted.Build.runParams := by decide
theorem run_params_ok : Extracted.Build.runParams = ["thread", "fn", "labelOrTarget", "always", "dryRun", "callback"] := by decide
theorem run_keywords_ok : Extracted.Build.runWrapperKeywords =
    ["label_or_target→labelOrTarget", "always??→always", "dry_run??→dryRun", "callback??→callback"] := by decide
theorem saveIndex_ok : Extracted.Build.saveIndex = Expected.Build.saveIndex := rfl
theorem indexInfo_ok : Extracted.Build.indexInfo = Expected.Build.indexInfo := rfl

end Dawn.Ties.Build

import Dawn.Model.Pickle
import Dawn.Extracted.Pickle
import Dawn.Ties.PickleExpected
/-!
Tie 1 for C07 / C15: the facts regenerated from `pickle/{opcodes,encode,decode}.go` on this run are the ones the
model is written against. Each theorem is re-checked by the kernel on every run; a change to the source that alters
a fact breaks the corresponding obligation.
-/
namespace Dawn.Ties.Pickle
open Dawn Dawn.Pickle

theorem extraction_complete : Extracted.Pickle.extractionErrors = [] := by decide

/-- every opcode the model implements has, in `opcodes.go`, the byte the model uses -/
theorem opcodes_ok : ∀ p ∈ decodedOpcodes, (p.1, p.2.toNat) ∈ Extracted.Pickle.opcodes := by decide

/-- no two opcode constants share a byte (so the `switch` arms are disjoint) -/
theorem opcodes_distinct : (Extracted.Pickle.opcodes.map (·.2)).Nodup := by decide

/-- `decode` has a `case` for exactly the opcodes of the model, in the model's order, and a `default` arm -/
theorem decode_cases_ok :
    Extracted.Pickle.decodeCases = decodedOpcodes.map (·.1) ∧ Extracted.Pickle.decodeHasDefault = true := by decide

/-- the dispatch table of the byte layer lists the same opcodes, in the same order -/
theorem arm_table_ok : armTable.map (·.1) = decodedOpcodes.map (·.2) := by decide

/-- D1: the BININT2 arm shifts the high byte by 8 (`DecCfg.oldBinint2 = false`) -/
theorem binint2_ok : Extracted.Pickle.binint2Shifts = [8] ∧ ({} : DecCfg).oldBinint2 = false := by decide

/-- the four batch loops cut at `batchSize` -/
theorem batch_ok : Extracted.Pickle.batchLiterals.filter (· ≠ 0) = List.replicate 4 batchSize := by decide

/-- D2: no batch loop re-encodes the container (`EncCfg.rebatch = false`) -/
theorem rebatch_ok : Extracted.Pickle.rebatchSites = [] ∧ ({} : EncCfg).rebatch = false := by decide

/-- memo ids and lengths switch to the 4-byte form at 256; BININT1 / BININT2 / BININT at 2^8, 2^16, int32 bounds -/
theorem widths_ok : Extracted.Pickle.widthLiterals = [256, 256, 65536, 256] ∧ Extracted.Pickle.int32Bounds = 2 := by decide

/-- `type failure error`: an interface, so `recover().(failure)` matches every `error` including `runtime.Error` -/
theorem failure_ok : Extracted.Pickle.failureType = "error" ∧
    Extracted.Pickle.failureIsInterface = ({} : DecCfg).failureIsInterface := by decide

/-- `envUnpickler` switches on exactly the names of the model `envHost`, in its order -/
theorem env_names_ok : Extracted.Pickle.envNames =
    [bTarget, bBuiltin, bRecursive, bMandatory, bFunctionCode, bFunction].map (·.map UInt8.toNat) := by decide

/-- the strings it produces: the Mandatory marker and the dict keys, in source order -/
theorem env_strings_ok : Extracted.Pickle.envStrings =
    [bMandatoryText, kNames, kConstants, kPredeclared, kUniversal, kFunctions, kGlobals, kCode, kParameters, kDefaults,
     kFreeVars].map (·.map UInt8.toNat) := by decide

/-- `envUnpickler` and `makeDictFromAssociationList` contain no explicit `panic`: whatever panics in them is a
`runtime.Error` (the model's `runtimePanic`), never the `otherPanic` that `C15_env_host_sane` excludes; and their
bodies are the ones `envHost` was written against -/
theorem env_body_ok : Extracted.Pickle.envExplicitPanics = 0 ∧
    Extracted.Pickle.bodyEnvUnpickler = Expected.Pickle.bodyEnvUnpickler ∧
    Extracted.Pickle.bodyMakeDictFromAssociationList = Expected.Pickle.bodyMakeDictFromAssociationList :=
  ⟨by decide, rfl, rfl⟩

/-- everything else about the modelled functions (control flow, operators, calls): unchanged since the model was written -/
theorem bodies_ok :
    Extracted.Pickle.bodyWriterWrite = Expected.Pickle.bodyWriterWrite ∧
    Extracted.Pickle.bodyMemoized = Expected.Pickle.bodyMemoized ∧
    Extracted.Pickle.bodyEncMemoize = Expected.Pickle.bodyEncMemoize ∧
    Extracted.Pickle.bodyEncodeString = Expected.Pickle.bodyEncodeString ∧
    Extracted.Pickle.bodyEncode = Expected.Pickle.bodyEncode ∧
    Extracted.Pickle.bodyEncodeComplex = Expected.Pickle.bodyEncodeComplex ∧
    Extracted.Pickle.bodyEncodeTop = Expected.Pickle.bodyEncodeTop ∧
    Extracted.Pickle.bodyReaderRead = Expected.Pickle.bodyReaderRead ∧
    Extracted.Pickle.bodyPush = Expected.Pickle.bodyPush ∧
    Extracted.Pickle.bodyPeek = Expected.Pickle.bodyPeek ∧
    Extracted.Pickle.bodyPop = Expected.Pickle.bodyPop ∧
    Extracted.Pickle.bodyDecMemoize = Expected.Pickle.bodyDecMemoize ∧
    Extracted.Pickle.bodyGet = Expected.Pickle.bodyGet ∧
    Extracted.Pickle.bodyReadByte = Expected.Pickle.bodyReadByte ∧
    Extracted.Pickle.bodyReadUint32 = Expected.Pickle.bodyReadUint32 ∧
    Extracted.Pickle.bodyReadUint64 = Expected.Pickle.bodyReadUint64 ∧
    Extracted.Pickle.bodyDecodeString = Expected.Pickle.bodyDecodeString ∧
    Extracted.Pickle.bodyDecode = Expected.Pickle.bodyDecode ∧
    Extracted.Pickle.bodyDecodeTop = Expected.Pickle.bodyDecodeTop :=
  ⟨rfl, rfl, rfl, rfl, rfl, rfl, rfl, rfl, rfl, rfl, rfl, rfl, rfl, rfl, rfl, rfl, rfl, rfl, rfl⟩

end Dawn.Ties.Pickle

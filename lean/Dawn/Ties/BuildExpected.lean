/- Snapshot of Dawn/Extracted/Build.lean taken by bin/accept-extracted: the facts the models and
   theorems of this area were written against. Compared with the regenerated file in Dawn/Ties/Build.lean. -/
namespace Dawn.Expected.Build

/-- facts the extractor could not find (the code no longer has the shape the model was written against) -/
def extractionErrors : List String := []

def evaluate : String :=
  String.join [
    "(block (:= (v2 v3 v4) ((call (. (. v0 target) Project)) (call (. (. v0 target) Label)) (call (. (. v0 target) info)))) (= ((. v0 data)) ((call (. v4 stamp)))) (:= (v5) (true)) (:= (v6) ((call (. (. v0 target) dependencies)))) (:= (v7) ((lit (map string string)))) (var (v8) (array _ string) ()) (range v9 v10 (call (. v1 EvaluateTargets) v6 ...) (block (if _ (!= (. v10 Error) nil) (block (typeswitch _ (:= (v11) ((assert (. v10 Error) _))) (case (UnknownTargetError) (call (. (. v2 events) TargetFailed) v3 (call (. fmt Errorf) \"missing dependency: %w\" (. v10 Error)))) (case ((. runner CyclicDependencyError)) (call (. (. v2 events) TargetFailed) v3 v11))) (return (call (. fmt Errorf) \"dependency %v failed\" (index v6 v9)))) _) (:= (v3) ((index v6 v9))) (:= (v12) ((. (assert (. v10 Target) (* run",
    "Target)) data))) (= ((index v7 v3)) (v12)) (:= (v13 v14) ((index (. v4 Dependencies) v3))) (if _ (|| (|| (u! v14) (. (assert (. v10 Target) (* runTarget)) changed)) (!= v12 v13)) (block (= (v8) ((call append v8 v3))) (= (v5) (false))) _))) (if _ (&& v5 (!= (call len (. v4 Dependencies)) (call len v7))) (block (= (v8) ((call append v8 \"(removed dependencies)\"))) (= (v5) (false))) _) (:= (v15) (\"\")) (if (:= (v16 v14) ((assert (. v0 target) (* function)))) v14 (block (= (v15) ((call (. v16 attrs)))) (if _ (&& (&& v5 (!= (. v4 Attrs) \"\")) (!= (. v4 Attrs) v15)) (block (= (v8) ((call append v8 \"(order of dependencies, sources or generated files)\"))) (= (v5) (false))) _)) _) (:= (v17 v18 v19 v11) ((call (. (. v0 target) upToDate)))) (if _ (!= v11 nil) (block (call (. (. v2 events) TargetFailed) ",
    "v3 v11) (return v11)) _) (if _ (&& (&& (&& (u! (. v2 always)) v5) v17) (u! (. v4 Rerun))) (block (call (. (. v2 events) TargetUpToDate) v3) (return nil)) _) (switch _ _ (case ((u! v17))) (case ((. v2 always)) (= (v18) (\"always\"))) (case ((u! v5)) (= (v18) ((call (. fmt Sprintf) \"out-of-date dependencies: %v\" (call (. strings Join) v8 \", \"))))) (case ((. v4 Rerun)) (= (v18) (\"failed during last run\")))) (call (. (. v2 events) TargetEvaluating) v3 v18 v19) (if _ (. v2 dryrun) (block (= ((. v0 changed)) (true)) (call (. (. v2 events) TargetSucceeded) v3 true) (return nil)) _) (if _ (call IsTarget v3) (block (:= (v20) (v4)) (= ((. v20 Rerun)) (true)) (if (:= (v11) ((call (. v2 saveTargetInfo) v3 v20))) (!= v11 nil) (block (call (. (. v2 events) TargetFailed) v3 v11) (return v11)) _)) _) (call ",
    "verifPoint \"target.body.before\" (call (. v3 String))) (:= (v21 v22 v11) ((call (. (. v0 target) evaluate)))) (call verifPoint \"target.body.after\" (call (. v3 String))) (if _ (!= v11 nil) (block (call (. (. v2 events) TargetFailed) v3 v11) (call verifPoint \"target.record.failure\" (call (. v3 String))) (call (. v2 saveTargetInfo) v3 (lit targetInfo (kv Doc (call (. (. v0 target) Doc))) (kv Dependencies v7) (kv Rerun true) (kv Runs (. v4 Runs)))) (return v11)) _) (:= (v23) ((lit targetInfo (kv Doc (call (. (. v0 target) Doc))) (kv Dependencies v7) (kv Data (. v4 Data)) (kv Runs (. v4 Runs)) (kv Attrs v15)))) (= ((. v0 changed)) (v22)) (if _ v22 (block (= ((. v23 Data)) (v21)) (if _ (call IsTarget v3) (block (++ (. v23 Runs))) _)) _) (= ((. v0 data)) ((call (. v23 stamp)))) (call verifPoint \"t",
    "arget.record.success\" (call (. v3 String))) (= (v11) ((call (. v2 saveTargetInfo) v3 v23))) (if _ (!= v11 nil) (block (call (. (. v2 events) TargetFailed) v3 v11) (return v11)) _) (call (. (. v2 events) TargetSucceeded) v3 v22) (return nil))"]

def fnUpToDate : String :=
  "(block (if _ (!= v3 nil) (block (return false \"\" nil (call (. fmt Errorf) \"computing function environment: %w\" v3))) _) (if _ (. v0 always) (block (= ((. (. v0 targetInfo) Rerun)) (true)) (return true \"\" nil nil)) _) (:= (v4 v5 v6 v3) ((call (. v0 diffEnv)))) (if _ (|| (!= v3 nil) (u! v4)) (block (return false v5 v6 v3)) _) (range _ v7 (. v0 gens) (block (if (= (_ v3) ((call (. os Stat) v7))) (!= v3 nil) (block (if _ (call (. os IsNotExist) v3) (block (return false v5 nil nil)) _) (return false \"\" nil (call (. fmt Errorf) \"checking generated files: %w\" v3))) _))) (return true \"\" nil nil))"

def fnLoad : String :=
  "(block (:= (v1 v2) ((call (. (. v0 proj) loadTargetInfo) (. v0 label)))) (if _ (!= v2 nil) (block (return (call (. fmt Errorf) \"loading prior function environment: %w\" v2))) _) (= ((. v0 targetInfo)) (v1)) (if _ (. v0 always) (block (= ((. (. v0 targetInfo) Rerun)) (true))) _) (if (= (v2) ((call (. (. v0 proj) saveTargetInfo) (. v0 label) v1))) (!= v2 nil) (block (return (call (. fmt Errorf) \"refreshing target info: %w\" v2))) _) (if _ (== (call len (. v1 Data)) 0) (block) (block (if _ (!= v2 nil) (block (return (call (. fmt Errorf) \"loading prior function environment: %w\" v2))) _))) (return nil))"

def fnEvaluate : String :=
  "(block (= (_ v3) ((call (. starlark Call) (call (. v0 newThread)) (. v0 function) v4 nil))) (if _ (!= v3 nil) (block (return \"\" false v3)) _) (if (:= (v3) ((call (. (call (. pickle NewEncoder) v8 (call newEnvPickler)) Encode) (. v0 function)))) (!= v3 nil) (block (return \"\" false v3)) _) (= ((. v0 oldEnv) (. v0 oldData)) ((. v0 newEnv) (call (. v7 String)))) (return (. v0 oldData) true nil))"

def srcUpToDate : String :=
  "(block (:= (v1 v2) ((call fileSum (. v0 path)))) (if _ (&& (!= v2 nil) (u! (call (. os IsNotExist) v2))) (block (return false \"\" nil v2)) _) (= ((. v0 sum)) (v1)) (if _ (== (. v0 oldSum) (. v0 sum)) (block (return true \"\" nil nil)) _) (return false \"file contents changed\" nil nil))"

def srcEvaluate : String :=
  "(block (= ((. v0 oldSum)) ((. v0 sum))) (return (. v0 sum) true nil))"

def srcLoad : String :=
  "(block (:= (v1 v2) ((call (. (. v0 proj) loadTargetInfo) (. v0 label)))) (if _ (!= v2 nil) (block (return v2)) _) (= ((. v0 targetInfo)) (v1)) (= ((. v0 oldSum)) ((. v1 Data))) (return nil))"

def fileSum : String :=
  "(block (:= (v1 v2) ((call (. os Open) v0))) (if _ (!= v2 nil) (block (return \"\" v2)) _) (defer (call (. v1 Close))) (:= (v3 v2) ((call (. v1 Stat)))) (if _ (!= v2 nil) (block (return \"\" v2)) _) (if _ (call (. v3 IsDir)) (block (return (call dirSum v0 v1))) _) (return (call (. util SHA256) v1)))"

def dirSum : String :=
  "(block (:= (v2 v3) ((call (. v1 ReadDir) 0))) (if _ (!= v3 nil) (block (return \"\" v3)) _) (call (. sort Slice) v2 (func (block (return (< (call (. (index v2 v4) Name)) (call (. (index v2 v5) Name))))))) (:= (v6) ((call (. sha256 New)))) (range _ v7 v2 (block (:= (v8 v3) ((call fileSum (call (. filepath Join) v0 (call (. v7 Name)))))) (if _ (!= v3 nil) (block (return \"\" v3)) _) (if (:= (_ v3) ((call (. fmt Fprintf) v6 \"%s\\x00%s\\n\" (call (. v7 Name)) v8))) (!= v3 nil) (block (return \"\" v3)) _))) (return (call (. hex EncodeToString) (call (. v6 Sum) nil)) nil))"

def saveTargetInfo : String :=
  "(block (:= (v3) ((call (. v0 targetInfoPath) v1))) (if (:= (v4) ((call (. os MkdirAll) (call (. filepath Dir) v3) 0755))) (!= v4 nil) (block (return v4)) _) (:= (v5 v4) ((call (. os CreateTemp) (. v0 temp) \"\"))) (if _ (!= v4 nil) (block (return v4)) _) (:= (v6) ((call (. v5 Name)))) (call verifPoint \"saveTargetInfo.created\" (call (. v1 String))) (if (= (v4) ((call (. (call (. json NewEncoder) v5) Encode) v2))) (!= v4 nil) (block (return v4)) _) (if (= (v4) ((call (. v5 Close)))) (!= v4 nil) (block (return v4)) _) (call verifPoint \"saveTargetInfo.written\" (call (. v1 String))) (defer (call (func (block (call verifPoint \"saveTargetInfo.renamed\" (call (. v1 String))))))) (return (call (. os Rename) v6 v3)))"

def loadTargetInfo : String :=
  "(block (:= (v2) ((call (. v0 targetInfoPath) v1))) (:= (v3 v4) ((call (. os Open) v2))) (if _ (!= v4 nil) (block (if _ (call (. os IsNotExist) v4) (block (return (lit targetInfo) nil)) _) (return (lit targetInfo) v4)) _) (defer (call (. v3 Close))) (var (v5) targetInfo ()) (if (:= (v4) ((call (. (call (. json NewDecoder) v3) Decode) (u& v5)))) (!= v4 nil) (block (return (lit targetInfo) v4)) _) (return v5 nil))"

def targetInfoPath : String :=
  "(block (:= (v2) ((. v1 Kind))) (if _ (== v2 \"\") (block (= (v2) (\"target\"))) _) (:= (v3) ((. v1 Name))) (if _ (== v3 \"\") (block (= (v3) (\"BUILD.dawn\"))) _) (:= (v4) ((call (. url PathEscape) (+ (+ (slice (. v1 Package) 2 _ _) \"/\") v3)))) (return (call (. filepath Join) (. v0 work) (+ v2 \"s\") v4)))"

def gc : String :=
  String.join [
    "(block (if _ (. v0 indexOnly) (block (if (:= (v1) ((call (. v0 Reload)))) (!= v1 nil) (block (return v1)) _)) _) (:= (v2) ((lit (map string (struct))))) (:= (v3) ((func (block (for _ _ _ (block (= ((index v2 v4)) ((lit (struct)))) (:= (v5) ((call (. filepath Dir) v4))) (if _ (|| (== v5 (. v0 root)) (== v5 v4)) (block (break)) _) (= (v4) (v5)))))))) (call v3 (call (. filepath Join) (. v0 work) \"index.json\")) (call v3 (call (. filepath Join) (. v0 work) \"temp\")) (range _ v6 (. v0 targets) (block (call v3 (call (. v0 targetInfoPath) (call (. (. v6 target) Label)))))) (return (call (. filepath WalkDir) (. v0 work) (func (block (if _ (call (. os IsNotExist) v1) (block (return (. fs SkipDir))) _) (if _ (!= v1 nil) (block (return v1)) _) (if (:= (_ v9) ((index v2 v7))) (u! v9) (block (:= (v1) ((c",
    "all (. os RemoveAll) v7))) (if _ (&& (!= v1 nil) (u! (call (. os IsNotExist) v1))) (block (return v1)) _)) _) (return nil))))))"]

def link : String :=
  "(block (range _ v1 (. v0 targets) (block (range _ v2 (call (. (. v1 target) generates)) (block (= (v2) ((slice v2 (+ (call len (. v0 root)) 1) _ _))) (:= (v3 v4) ((call sourceLabel \"//\" v2))) (if _ (!= v4 nil) (block (return v4)) _) (:= (v5 v6) ((index (. v0 targets) (call (. v3 String))))) (if _ (u! v6) (block (continue)) _) (:= (v7) ((assert (. v5 target) (* sourceFile)))) (if _ (!= (. v7 generator) nil) (block (return (call (. fmt Errorf) \"multiple generators for %v: %v, %v\" v3 (call (. (. v1 target) Label)) (. v7 generator)))) _) (= ((. v7 generator)) ((call (. (. v1 target) Label)))))))) (return nil))"

def run : String :=
  "(block (call (. v2 apply) v0) (:= (v3) ((call (. runner Run) v0 (call (. v1 String))))) (call (. (. v0 events) RunDone) v3) (return v3))"

def applyOptions : String :=
  "(block (if _ (== v0 nil) (block (= ((. v1 always)) (false)) (= ((. v1 dryrun)) (false)) (return)) _) (= ((. v1 always)) ((. v0 Always))) (= ((. v1 dryrun)) ((. v0 DryRun))))"

def builtinRun : String :=
  String.join [
    "(block (:= (v8) ((assert (call (. v1 Local) \"module\") (* module)))) (var (v9) (* (. label Label)) ()) (typeswitch _ (:= (v3) ((assert v3 _))) (case ((. starlark String)) (= (v9 v7) ((call (. label Parse) (call string v3)))) (if _ (!= v7 nil) (block (return nil v7)) _) (= (v9 v7) ((call (. v9 RelativeTo) (. (. v8 label) Package)))) (if _ (!= v7 nil) (block (return nil v7)) _)) (case (Target) (= (v9) ((call (. v3 Label))))) (default (return nil (call (. fmt Errorf) \"%v: label_or_target must be a string or a target\" (call (. v2 Name)))))) (if _ (!= v6 nil) (block (:= (v10) ((u& (lit runEvents (kv c (call make (chan (. starlark Value)))) (kv callback v6) (kv done (call make (chan bool))))))) (go (call (. v10 process) v1)) (defer (call (. v10 Close))) (:= (v11) ((. v0 events))) (= ((. v0 events",
    ")) (v10)) (defer (call (func (block (= ((. v0 events)) (v11))))))) _) (:= (v12) ((lit RunOptions (kv Always v4) (kv DryRun v5)))) (return (. starlark None) (call (. v0 Run) v9 (u& v12))))"]

def runParams : List String :=
  ["thread", "fn", "labelOrTarget", "always", "dryRun", "callback"]

def runWrapperArgs : List String :=
  ["thread", "fn", "labelOrTarget", "always", "dryRun", "callback"]

def runWrapperKeywords : List String :=
  ["label_or_target→labelOrTarget", "always??→always", "dry_run??→dryRun", "callback??→callback"]

def applyNilAssigns : List String :=
  ["always", "dryrun"]

def applySetAssigns : List String :=
  ["always", "dryrun"]

def saveIndex : String :=
  String.join [
    "(block (:= (v1 v2) ((call (. os Create) (call (. filepath Join) (. v0 work) \"index.json\")))) (if _ (!= v2 nil) (block (return v2)) _) (defer (call (. v1 Close))) (call verifPoint \"saveIndex.created\" nil) (:= (v3) ((lit index (kv Flags (call make (array _ (* Flag)) 0 (call len (. v0 args)))) (kv Targets (call make (array _ TargetSummary) 0 (call len (. v0 targets))))))) (range _ v4 (. v0 flags) (block (= ((. v3 Flags)) ((call append (. v3 Flags) v4))))) (call (. sort Slice) (. v3 Flags) (func (block (return (< (. (index (. v3 Flags) v5) Name) (. (index (. v3 Flags) v6) Name)))))) (range _ v7 (. v0 targets) (block (= ((. v3 Targets)) ((call append (. v3 Targets) (lit TargetSummary (kv Label (call (. (. v7 target) Label))) (kv Summary (call DocSummary (. v7 target))))))))) (call (. sort Slice",
    ") (. v3 Targets) (func (block (return (< (call (. (. (index (. v3 Targets) v5) Label) String)) (call (. (. (index (. v3 Targets) v6) Label) String))))))) (:= (v8) ((call (. json NewEncoder) v1))) (call (. v8 SetIndent) \"\" \"    \") (defer (call (func (block (call verifPoint \"saveIndex.encoded\" nil))))) (return (call (. v8 Encode) v3)))"]

def indexInfo : String :=
  "(block (return (lit targetInfo (kv Doc (. v0 doc)) (kv Dependencies (. v0 depData)) (kv Data (. v0 data)) (kv Runs (. v0 runs)))))"

def stamp : String :=
  "(block (if _ (== (. v0 Runs) 0) (block (return (. v0 Data))) _) (return (call (. fmt Sprintf) \"%s@%d\" (. v0 Data) (. v0 Runs))))"

def escapeLabel : String :=
  "(block (if _ (&& (call (. utf8 ValidString) v0) (u! (call (. strings ContainsRune) v0 (. utf8 RuneError)))) (block (return v0)) _) (var (v1) (. strings Builder) ()) (for (:= (v2) (0)) (< v2 (call len v0)) _ (block (:= (v3 v4) ((call (. utf8 DecodeRuneInString) (slice v0 v2 _ _)))) (switch _ _ (case ((&& (== v3 (. utf8 RuneError)) (== v4 1))) (call (. fmt Fprintf) (u& v1) \"\\uFFFD%02x\" (index v0 v2))) (case ((== v3 (. utf8 RuneError))) (call (. v1 WriteString) \"\\uFFFD--\")) (default (call (. v1 WriteString) (slice v0 v2 (+ v2 v4) _)))) (+= (v2) (v4)))) (return (call (. v1 String))))"

def unescapeLabel : String :=
  "(block (if _ (u! (call (. strings ContainsRune) v0 (. utf8 RuneError))) (block (return v0)) _) (var (v1) _ (\"\\uFFFD\")) (var (v2) (. strings Builder) ()) (for (:= (v3) (0)) (< v3 (call len v0)) _ (block (if _ (&& (call (. strings HasPrefix) (slice v0 v3 _ _) v1) (<= (+ (+ v3 (call len v1)) 2) (call len v0))) (block (:= (v4) ((slice v0 (+ v3 (call len v1)) (+ (+ v3 (call len v1)) 2) _))) (if _ (== v4 \"--\") (block (call (. v2 WriteString) v1) (+= (v3) ((+ (call len v1) 2))) (continue)) _) (if (:= (v5 v6) ((call (. strconv ParseUint) v4 16 8))) (== v6 nil) (block (call (. v2 WriteByte) (call byte v5)) (+= (v3) ((+ (call len v1) 2))) (continue)) _)) _) (call (. v2 WriteByte) (index v0 v3)) (++ v3))) (return (call (. v2 String))))"

def depStampsMarshal : String :=
  "(block (:= (v1) ((call make (map string string) (call len v0)))) (range v2 v3 v0 (block (= ((index v1 (call escapeLabel v2))) (v3)))) (return (call (. json Marshal) v1)))"

def depStampsUnmarshal : String :=
  "(block (var (v2) (map string string) ()) (if (:= (v3) ((call (. json Unmarshal) v1 (u& v2)))) (!= v3 nil) (block (return v3)) _) (if _ (== v2 nil) (block (= ((* v0)) (nil)) (return nil)) _) (= ((* v0)) ((call make depStamps (call len v2)))) (range v4 v5 v2 (block (= ((index (* v0) (call unescapeLabel v4))) (v5)))) (return nil))"

def fnAttrs : String :=
  "(block (:= (v1) ((call (. sha256 New)))) (call (. fmt Fprintf) v1 \"%q %d\" (. v0 deps) (call len (. v0 sources))) (range _ v2 (. v0 gens) (block (call (. fmt Fprintf) v1 \" %q\" (call (. strings TrimPrefix) v2 (. (. v0 proj) root))))) (return (call (. hex EncodeToString) (call (. v1 Sum) nil))))"

def dependenciesType : String :=
  "depStamps"

def targetInfoFields : List (String × String) :=
  [("Doc", "doc,omitempty"), ("Dependencies", "dependencies,omitempty"), ("Data", "stamp,omitempty"), ("Rerun", "rerun,omitempty"), ("Runs", "runs,omitempty"), ("Attrs", "attrs,omitempty")]

def pathLiterals : List String :=
  ["", "target", "", "BUILD.dawn", "/", "s"]

def hookPoints : List String :=
  ["target.body.before", "target.body.after", "target.record.failure", "target.record.success", "saveTargetInfo.created", "saveTargetInfo.written", "saveTargetInfo.renamed", "saveIndex.created", "saveIndex.encoded"]

def cliRootRunE : String :=
  "buildCmd.RunE"

def cliRootFlagVars : List String :=
  ["always=&buildOptions.Always", "dry-run=&buildOptions.DryRun", "dot=&buildDOT", "json=&buildJSON"]

def cliBuildFlagVars : List String :=
  ["always=&buildOptions.Always", "dry-run=&buildOptions.DryRun", "json=&buildJSON", "dot=&buildDOT"]

def cliBuildLoadArgs : List String :=
  ["args", "false", "false"]

def cliBuildRunArgs : List String :=
  ["label", "buildOptions"]

end Dawn.Expected.Build

/- Snapshot of Dawn/Extracted/Config.lean taken by bin/accept-extracted: the facts the models and
   theorems of this area were written against. Compared with the regenerated file in Dawn/Ties/Config.lean. -/
namespace Dawn.Expected.Config

/-- facts the extractor could not find (the code no longer has the shape the model was written against) -/
def extractionErrors : List String := []

def loadStrings : List (List Nat) :=
  []

def loadChars : List Nat :=
  []

def loadInts : List Nat :=
  [0]

def loadBody : String :=
  "(block (var (v1) Config ()) (if (:= (v2) ((call (. toml Unmarshal) v0 (u& v1)))) (!= v2 nil) (block (return nil v2)) _) (var (v3) (array _ error) ()) (range _ v4 (call (. slices Sorted) (call (. maps Keys) (. v1 Requirements))) (block (:= (v5) ((index (. v1 Requirements) v4))) (if _ (|| (u! (call (. semver IsValid) (. v5 Version))) (!= (call (. semver Canonical) (. v5 Version)) (. v5 Version))) (block (= (v3) ((call append v3 (call (. fmt Errorf) _ (. v5 Version) v4))))) _) (= ((. v5 Path)) ((call CleanPath (. v5 Path)))) (= ((index (. v1 Requirements) v4)) (v5)))) (if _ (!= (call len v3) 0) (block (return nil (call (. errors Join) v3 ...))) _) (return (u& v1) nil))"

def writeStrings : List (List Nat) :=
  [[],
   [110, 97, 109, 101, 32, 61, 32, 37, 118, 10],
   [],
   [118, 101, 114, 115, 105, 111, 110, 32, 61, 32, 37, 118, 10],
   [105, 103, 110, 111, 114, 101, 32, 61, 32, 37, 118, 10],
   [91, 114, 101, 113, 117, 105, 114, 101, 109, 101, 110, 116, 115, 93, 10],
   [],
   [37, 118, 32, 61, 32, 123, 112, 97, 116, 104, 32, 61, 32, 37, 118, 44, 32, 118, 101, 114, 115, 105, 111, 110, 32, 61, 32, 37, 118, 125, 10]]

def writeChars : List Nat :=
  []

def writeInts : List Nat :=
  [0, 0]

def writeBody : String :=
  String.join [
    "(block (:= (v2 v3) ((call (. os Create) v0))) (if _ (!= v3 nil) (block (return v3)) _) (defer (call (. v2 Close))) (:= (v4) (false)) (:= (v5) ((func (block (call (. fmt Fprintf) v2 v6 v7 ...) (= (v4) (true)))))) (:= (v8) ((func (block (if _ v4 (block (call (. fmt Fprintln) v2)) _) (call v5 v6 v7 ...))))) (if _ (!= (. v1 Name) \"\") (block (call v5 \"name = %v\\n\" (call encodeValue (. v1 Name)))) _) (if _ (!= (. v1 Version) \"\") (block (call v5 \"version = %v\\n\" (call encodeValue (. v1 Version)))) _) (if _ (!= (call len (. v1 Ignore)) 0) (block (call v8 \"ignore = %v\\n\" (call encodeValue (. v1 Ignore)))) _) (if _ (!= (call len (. v1 Requirements)) 0) (block (call v8 \"[requirements]\\n\") (range _ v9 (call (. slices Sorted) (call (. maps Keys) (. v1 Requirements))) (block (:= (v10) ((index (. v1 Requ",
    "irements) v9))) (:= (v11) ((|| (== v9 \"\") (call (. strings ContainsFunc) v9 (func (block (return (u! (call isPlainRune v12))))))))) (if _ v11 (block (= (v9) ((call encodeValue v9)))) _) (call v5 \"%v = {path = %v, version = %v}\\n\" v9 (call encodeValue (. v10 Path)) (call encodeValue (. v10 Version)))))) _) (return nil))"]

def encodeValueStrings : List (List Nat) :=
  [[60, 105, 110, 118, 97, 108, 105, 100, 62]]

def encodeValueChars : List Nat :=
  []

def encodeValueInts : List Nat :=
  []

def encodeValueBody : String :=
  "(block (var (v1) (. strings Builder) ()) (:= (v2) ((call (. (call (. (call (. toml NewEncoder) (u& v1)) SetTablesInline) true) Encode) v0))) (if _ (!= v2 nil) (block (return \"<invalid>\")) _) (return (call (. v1 String))))"

def isPlainRuneStrings : List (List Nat) :=
  []

def isPlainRuneChars : List Nat :=
  [65, 90, 97, 122, 48, 57, 95, 45]

def isPlainRuneInts : List Nat :=
  []

def isPlainRuneBody : String :=
  "(block (return (|| (|| (|| (|| (&& (>= v0 'A') (<= v0 'Z')) (&& (>= v0 'a') (<= v0 'z'))) (&& (>= v0 '0') (<= v0 '9'))) (== v0 '_')) (== v0 '-'))))"

def cleanPathStrings : List (List Nat) :=
  []

def cleanPathChars : List Nat :=
  []

def cleanPathInts : List Nat :=
  []

def cleanPathBody : String :=
  "(block (:= (v0 v1) ((call SplitPathVersion v0))) (return (call JoinPathVersion (call (. path Clean) v0) v1)))"

def splitPathVersionStrings : List (List Nat) :=
  [[]]

def splitPathVersionChars : List Nat :=
  [47, 64]

def splitPathVersionInts : List Nat :=
  [1, 0, 1]

def splitPathVersionBody : String :=
  "(block (for (:= (v1) ((- (call len v0) 1))) (&& (>= v1 0) (!= (index v0 v1) '/')) (-- v1) (block (if _ (== (index v0 v1) '@') (block (return (slice v0 _ v1 _) (slice v0 (+ v1 1) _ _))) _))) (return v0 \"\"))"

def joinPathVersionStrings : List (List Nat) :=
  [[],
   [118, 48],
   [118, 49],
   [37, 118, 64, 37, 118]]

def joinPathVersionChars : List Nat :=
  []

def joinPathVersionInts : List Nat :=
  []

def joinPathVersionBody : String :=
  "(block (if _ (|| (|| (== v1 \"\") (== v1 \"v0\")) (== v1 \"v1\")) (block (return v0)) _) (return (call (. fmt Sprintf) \"%v@%v\" v0 v1)))"

def loadConfigFileReadCalls : List String :=
  ["os.ReadFile"]

def loadConfigFileBody : String :=
  "(block (:= (v1 v2) ((call (. os ReadFile) v0))) (if _ (!= v2 nil) (block (return nil v2)) _) (return (call LoadConfigBytes v1)))"

def structTags : List String :=
  ["Path toml:\"path,inline\"", "Version toml:\"version,inline\"", "Name toml:\"name,omitempty\"", "Version toml:\"version,omitempty\"", "Ignore toml:\"ignore,omitempty\"", "Requirements toml:\"requirements,omitempty\""]

def getAssignedFields : List String :=
  ["Requirements"]

def getReassignsConfig : Bool :=
  false

def getWritesLoadedConfig : Bool :=
  true

def getRunBody : String :=
  String.join [
    "(block (:= (v2) ((call (. filepath Join) (. work root) (. work configFile)))) (:= (v3 v4) ((call (. project LoadConfigFile) v2))) (if _ (!= v4 nil) (block (return (call (. fmt Errorf) _ v4))) _) (:= (v5 v4) ((call (. homedir Dir)))) (if _ (!= v4 nil) (block (return (call (. fmt Errorf) _ v4))) _) (:= (v6) ((call (. filepath Join) v5 \".dawn\" \"modules\" \"cache\"))) (:= (v7 v4) ((call newRenderer (. work verbose) (. work diff) (func (block))))) (if _ (!= v4 nil) (block (return v4)) _) (defer (call (. v7 Close))) (:= (v8) ((call (. mvs NewResolver) v6 (. mvs DefaultDialer) (lit resolveEvents (kv events v7))))) (var (v9) (map string (. project RequirementConfig)) ()) (if _ updateAll (block (if _ (!= (call len v1) 0) (block (return (call (. errors New) _))) _) (= (v9 v4) ((call (. mvs UpgradeAll) ",
    "(call (. context TODO)) v3 v8)))) (block (if _ (!= (call len v1) 1) (block (return (call (. errors New) _))) _) (= (v9 v4) ((call (. mvs Get) (call (. context TODO)) v3 v8 (index v1 0)))))) (if _ (!= v4 nil) (block (return v4)) _) (= ((. v3 Requirements)) (v9)) (return (call (. project WriteConfigFile) v2 v3)))"]

def tidyAssignedFields : List String :=
  ["Requirements"]

def tidyReassignsConfig : Bool :=
  false

def tidyWritesLoadedConfig : Bool :=
  true

def tidyRunBody : String :=
  "(block (:= (v2) ((call (. filepath Join) (. work root) (. work configFile)))) (:= (v3 v4) ((call (. project LoadConfigFile) v2))) (if _ (!= v4 nil) (block (return (call (. fmt Errorf) _ v4))) _) (:= (v5 v4) ((call (. homedir Dir)))) (if _ (!= v4 nil) (block (return (call (. fmt Errorf) _ v4))) _) (:= (v6) ((call (. filepath Join) v5 \".dawn\" \"modules\" \"cache\"))) (:= (v7 v4) ((call newRenderer (. work verbose) (. work diff) (func (block))))) (if _ (!= v4 nil) (block (return v4)) _) (defer (call (. v7 Close))) (:= (v8) ((call (. mvs NewResolver) v6 (. mvs DefaultDialer) (lit resolveEvents (kv events v7))))) (:= (v9 v4) ((call (. mvs Tidy) (call (. context TODO)) v3 v8))) (if _ (!= v4 nil) (block (return v4)) _) (= ((. v3 Requirements)) (v9)) (return (call (. project WriteConfigFile) v2 v3)))"

def goTomlVersion : String :=
  "v2.2.0"

def xModVersion : String :=
  "v0.17.0"

def tomlEncodeStringStrings : List (List Nat) :=
  []

def tomlEncodeStringChars : List Nat :=
  []

def tomlEncodeStringInts : List Nat :=
  []

def tomlEncodeStringBody : String :=
  "(block (if _ (call needsQuoting v2) (block (return (call (. v0 encodeQuotedString) (. v3 multiline) v1 v2))) _) (return (call (. v0 encodeLiteralString) v1 v2)))"

def tomlNeedsQuotingStrings : List (List Nat) :=
  []

def tomlNeedsQuotingChars : List Nat :=
  [39, 13, 10]

def tomlNeedsQuotingInts : List Nat :=
  []

def tomlNeedsQuotingBody : String :=
  "(block (range _ v1 (call (array _ byte) v0) (block (if _ (|| (|| (|| (== v1 '\\'') (== v1 '\\r')) (== v1 '\\n')) (call (. characters InvalidAscii) v1)) (block (return true)) _))) (return false))"

def tomlEncodeLiteralStringStrings : List (List Nat) :=
  []

def tomlEncodeLiteralStringChars : List Nat :=
  []

def tomlEncodeLiteralStringInts : List Nat :=
  []

def tomlEncodeLiteralStringBody : String :=
  "(block (= (v1) ((call append v1 literalQuote))) (= (v1) ((call append v1 v2 ...))) (= (v1) ((call append v1 literalQuote))) (return v1))"

def tomlEncodeQuotedStringStrings : List (List Nat) :=
  [[34],
   [34, 34, 34],
   [48, 49, 50, 51, 52, 53, 54, 55, 56, 57, 65, 66, 67, 68, 69, 70],
   [92, 92],
   [92, 34],
   [92, 98],
   [92, 102],
   [92, 110],
   [92, 114],
   [92, 116],
   [92, 117, 48, 48]]

def tomlEncodeQuotedStringChars : List Nat :=
  [10, 92, 34, 8, 12, 10, 13, 9]

def tomlEncodeQuotedStringInts : List Nat :=
  [0, 8, 10, 31, 127, 4, 15]

def tomlEncodeQuotedStringBody : String :=
  String.join [
    "(block (:= (v4) (`\"`)) (if _ v1 (block (= (v4) (`\"\"\"`))) _) (= (v2) ((call append v2 v4 ...))) (if _ v1 (block (= (v2) ((call append v2 '\\n')))) _) (var (v5) _ (\"0123456789ABCDEF\")) (var (v6) _ (0x0)) (var (v7) _ (0x8)) (var (v8) _ (0xa)) (var (v9) _ (0x1f)) (var (v10) _ (0x7f)) (range _ v11 (call (array _ byte) v3) (block (switch _ v11 (case ('\\\\') (= (v2) ((call append v2 `\\\\` ...)))) (case ('\"') (= (v2) ((call append v2 `\\\"` ...)))) (case ('\\b') (= (v2) ((call append v2 `\\b` ...)))) (case ('\\f') (= (v2) ((call append v2 `\\f` ...)))) (case ('\\n') (if _ v1 (block (= (v2) ((call append v2 v11)))) (block (= (v2) ((call append v2 `\\n` ...)))))) (case ('\\r') (= (v2) ((call append v2 `\\r` ...)))) (case ('\\t') (= (v2) ((call append v2 `\\t` ...)))) (default (switch _ _ (case ((&& (>= v11 v6) (<=",
    " v11 v7)) (&& (>= v11 v8) (<= v11 v9)) (== v11 v10)) (= (v2) ((call append v2 `\\u00` ...))) (= (v2) ((call append v2 (index v5 (>> v11 4))))) (= (v2) ((call append v2 (index v5 (& v11 0x0f)))))) (default (= (v2) ((call append v2 v11))))))))) (= (v2) ((call append v2 v4 ...))) (return v2))"]

def tomlEncodeSliceStrings : List (List Nat) :=
  [[91, 93]]

def tomlEncodeSliceChars : List Nat :=
  []

def tomlEncodeSliceInts : List Nat :=
  [0]

def tomlEncodeSliceBody : String :=
  "(block (if _ (== (call (. v3 Len)) 0) (block (= (v1) ((call append v1 \"[]\" ...))) (return v1 nil)) _) (if _ (call willConvertToTableOrArrayTable v2 v3) (block (return (call (. v0 encodeSliceAsArrayTable) v1 v2 v3))) _) (return (call (. v0 encodeSliceAsArray) v1 v2 v3)))"

def tomlEncodeSliceAsArrayStrings : List (List Nat) :=
  [[44, 32],
   [44, 10]]

def tomlEncodeSliceAsArrayChars : List Nat :=
  [91, 10, 10, 93]

def tomlEncodeSliceAsArrayInts : List Nat :=
  [0]

def tomlEncodeSliceAsArrayBody : String :=
  "(block (:= (v4) ((|| (. (. v2 options) multiline) (. v0 arraysMultiline)))) (:= (v5) (\", \")) (= (v1) ((call append v1 '['))) (:= (v6) (v2)) (= ((. v6 options)) ((lit valueOptions))) (if _ v4 (block (= (v5) (\",\\n\")) (= (v1) ((call append v1 '\\n'))) (++ (. v6 indent))) _) (var (v7) error ()) (:= (v8) (true)) (for (:= (v9) (0)) (< v9 (call (. v3 Len))) (++ v9) (block (if _ v8 (block (= (v8) (false))) (block (= (v1) ((call append v1 v5 ...))))) (if _ v4 (block (= (v1) ((call (. v0 indent) (. v6 indent) v1)))) _) (= (v1 v7) ((call (. v0 encode) v1 v6 (call (. v3 Index) v9)))) (if _ (!= v7 nil) (block (return nil v7)) _))) (if _ v4 (block (= (v1) ((call append v1 '\\n'))) (= (v1) ((call (. v0 indent) (. v2 indent) v1)))) _) (= (v1) ((call append v1 ']'))) (return v1 nil))"

def invalidAsciiTable : List Nat :=
  [0, 1, 2, 3, 4, 5, 6, 7, 8, 11, 12, 14, 15, 16, 17, 18, 19, 20, 21, 22, 23, 24, 25, 26, 27, 28, 29, 30, 31, 127]

end Dawn.Expected.Config

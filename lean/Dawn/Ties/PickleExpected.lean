/- Snapshot of Dawn/Extracted/Pickle.lean taken by bin/accept-extracted: the facts the models and
   theorems of this area were written against. Compared with the regenerated file in Dawn/Ties/Pickle.lean. -/
namespace Dawn.Expected.Pickle

/-- facts the extractor could not find (the code no longer has the shape the model was written against) -/
def extractionErrors : List String := []

def opcodes : List (String × Nat) :=
  [("opMARK", 40),
   ("opSTOP", 46),
   ("opPOP", 48),
   ("opPOP_MARK", 49),
   ("opDUP", 50),
   ("opFLOAT", 70),
   ("opINT", 73),
   ("opBININT", 74),
   ("opBININT1", 75),
   ("opLONG", 76),
   ("opBININT2", 77),
   ("opNONE", 78),
   ("opPERSID", 80),
   ("opBINPERSID", 81),
   ("opREDUCE", 82),
   ("opSTRING", 83),
   ("opBINSTRING", 84),
   ("opSHORT_BINSTRING", 85),
   ("opUNICODE", 86),
   ("opBINUNICODE", 88),
   ("opAPPEND", 97),
   ("opBUILD", 98),
   ("opGLOBAL", 99),
   ("opDICT", 100),
   ("opEMPTY_DICT", 125),
   ("opAPPENDS", 101),
   ("opGET", 103),
   ("opBINGET", 104),
   ("opINST", 105),
   ("opLONG_BINGET", 106),
   ("opLIST", 108),
   ("opEMPTY_LIST", 93),
   ("opOBJ", 111),
   ("opPUT", 112),
   ("opBINPUT", 113),
   ("opLONG_BINPUT", 114),
   ("opSETITEM", 115),
   ("opTUPLE", 116),
   ("opEMPTY_TUPLE", 41),
   ("opSETITEMS", 117),
   ("opBINFLOAT", 71),
   ("opPROTO", 128),
   ("opNEWOBJ", 129),
   ("opEXT1", 130),
   ("opEXT2", 131),
   ("opEXT4", 132),
   ("opTUPLE1", 133),
   ("opTUPLE2", 134),
   ("opTUPLE3", 135),
   ("opNEWTRUE", 136),
   ("opNEWFALSE", 137),
   ("opLONG1", 138),
   ("opLONG4", 139),
   ("opBINBYTES", 66),
   ("opSHORT_BINBYTES", 67),
   ("opSHORT_BINUNICODE", 140),
   ("opBINUNICODE8", 141),
   ("opBINBYTES8", 142),
   ("opEMPTY_SET", 143),
   ("opADDITEMS", 144),
   ("opFROZENSET", 145),
   ("opNEWOBJ_EX", 146),
   ("opSTACK_GLOBAL", 147),
   ("opMEMOIZE", 148),
   ("opFRAME", 149),
   ("opBYTEARRAY8", 150),
   ("opNEXT_BUFFER", 151),
   ("opREADONLY_BUFFER", 152)]

def decodeCases : List String :=
  ["opMARK", "opMEMOIZE", "opBINGET", "opLONG_BINGET", "opSTOP", "opNONE", "opNEWTRUE", "opNEWFALSE", "opINT", "opBININT1", "opBININT2", "opBININT", "opBINFLOAT", "opSHORT_BINUNICODE", "opBINUNICODE", "opSHORT_BINBYTES", "opBINBYTES", "opEMPTY_LIST", "opAPPEND", "opAPPENDS", "opEMPTY_TUPLE", "opTUPLE1", "opTUPLE2", "opTUPLE3", "opTUPLE", "opEMPTY_DICT", "opSETITEMS", "opEMPTY_SET", "opADDITEMS", "opSTACK_GLOBAL", "opNEWOBJ"]

def decodeHasDefault : Bool :=
  true

def binint2Shifts : List Nat :=
  [8]

def batchLiterals : List Nat :=
  [0, 1000, 0, 1000, 1000, 0, 0, 1000]

def widthLiterals : List Nat :=
  [256, 256, 65536, 256]

def rebatchSites : List String :=
  []

def int32Bounds : Nat :=
  2

def failureType : String :=
  "error"

def failureIsInterface : Bool :=
  true

def bodyEnvUnpickler : String :=
  String.join [
    "(block (if _ (!= v0 \"dawn\") (block (return nil (call (. fmt Errorf) \"cannot unpickle value of type %s.%s\" v0 v1))) _) (switch _ v1 (case (\"Target\") (if _ (!= (call len v2) 1) (block (return nil (call (. fmt Errorf) \"expcted 1 arg, got %v\" (call len v2)))) _) (return (index v2 0) nil)) (case (\"Builtin\") (if _ (&& (!= (call len v2) 0) (!= (call len v2) 2)) (block (return nil (call (. fmt Errorf) \"expected 0 or 2 args, got %v\" (call len v2)))) _) (return v2 nil)) (case (\"Recursive\") (if _ (!= (call len v2) 2) (block (return nil (call (. fmt Errorf) \"expected 2 args, got %v\" (call len v2)))) _) (return v2 nil)) (case (\"Mandatory\") (if _ (!= (call len v2) 0) (block (return nil (call (. fmt Errorf) \"expected 0 args, got %v\" (call len v2)))) _) (return (call (. starlark String) \"mandatory paramet",
    "er\") nil)) (case (\"FunctionCode\") (if _ (&& (!= (call len v2) 3) (!= (call len v2) 4)) (block (return nil (call (. fmt Errorf) \"expected 3 or 4 args, got %v\" (call len v2)))) _) (:= (v0 v3 v4) ((assert (index v2 0) (. starlark Tuple)) (index v2 1) (index v2 2))) (:= (v5 v6 v7 v8 v9) ((index v0 0) (index v0 1) (index v0 2) (index v0 3) (index v0 4))) (:= (v10) ((call (. starlark NewDict) 7))) (call (. v10 SetKey) (call (. starlark String) \"names\") v5) (call (. v10 SetKey) (call (. starlark String) \"constant values\") v6) (call (. v10 SetKey) (call (. starlark String) \"predeclared values\") (call makeDictFromAssociationList v7)) (call (. v10 SetKey) (call (. starlark String) \"universal values\") (call makeDictFromAssociationList v8)) (call (. v10 SetKey) (call (. starlark String) \"function valu",
    "es\") v9) (call (. v10 SetKey) (call (. starlark String) \"global values\") (call makeDictFromAssociationList v3)) (call (. v10 SetKey) (call (. starlark String) \"code\") v4) (if _ (== (call len v2) 4) (block (call (. v10 SetKey) (call (. starlark String) \"parameters\") (index v2 3))) _) (return v10 nil)) (case (\"Function\") (if _ (!= (call len v2) 3) (block (return nil (call (. fmt Errorf) \"expcted 3 args, got %v\" (call len v2)))) _) (:= (v11 v12 v13) ((index v2 0) (index v2 1) (assert (index v2 2) (* (. starlark Dict))))) (call (. v13 SetKey) (call (. starlark String) \"default parameter values\") (call makeDictFromAssociationList v11)) (call (. v13 SetKey) (call (. starlark String) \"free variables\") (call makeDictFromAssociationList v12)) (return v13 nil)) (default (return nil (call (. fmt Erro",
    "rf) \"cannot unpickle value of type %s.%s\" v0 v1)))))"]

def bodyMakeDictFromAssociationList : String :=
  "(block (:= (v1 v2) ((assert v0 (. starlark Tuple)))) (if _ (u! v2) (block (return (. starlark None))) _) (:= (v3) ((call (. starlark NewDict) (call len v1)))) (range _ v4 v1 (block (:= (v5) ((assert v4 (. starlark Tuple)))) (call (. v3 SetKey) (assert (index v5 0) (. starlark String)) (index v5 1)))) (return v3))"

def envNames : List (List Nat) :=
  [[84, 97, 114, 103, 101, 116],
   [66, 117, 105, 108, 116, 105, 110],
   [82, 101, 99, 117, 114, 115, 105, 118, 101],
   [77, 97, 110, 100, 97, 116, 111, 114, 121],
   [70, 117, 110, 99, 116, 105, 111, 110, 67, 111, 100, 101],
   [70, 117, 110, 99, 116, 105, 111, 110]]

def envStrings : List (List Nat) :=
  [[109, 97, 110, 100, 97, 116, 111, 114, 121, 32, 112, 97, 114, 97, 109, 101, 116, 101, 114],
   [110, 97, 109, 101, 115],
   [99, 111, 110, 115, 116, 97, 110, 116, 32, 118, 97, 108, 117, 101, 115],
   [112, 114, 101, 100, 101, 99, 108, 97, 114, 101, 100, 32, 118, 97, 108, 117, 101, 115],
   [117, 110, 105, 118, 101, 114, 115, 97, 108, 32, 118, 97, 108, 117, 101, 115],
   [102, 117, 110, 99, 116, 105, 111, 110, 32, 118, 97, 108, 117, 101, 115],
   [103, 108, 111, 98, 97, 108, 32, 118, 97, 108, 117, 101, 115],
   [99, 111, 100, 101],
   [112, 97, 114, 97, 109, 101, 116, 101, 114, 115],
   [100, 101, 102, 97, 117, 108, 116, 32, 112, 97, 114, 97, 109, 101, 116, 101, 114, 32, 118, 97, 108, 117, 101, 115],
   [102, 114, 101, 101, 32, 118, 97, 114, 105, 97, 98, 108, 101, 115]]

def envExplicitPanics : Nat :=
  0

def bodyLoadTargetInfo : String :=
  "(block (:= (v2) ((call (. v0 targetInfoPath) v1))) (:= (v3 v4) ((call (. os Open) v2))) (if _ (!= v4 nil) (block (if _ (call (. os IsNotExist) v4) (block (return (lit targetInfo) nil)) _) (return (lit targetInfo) v4)) _) (defer (call (. v3 Close))) (var (v5) targetInfo ()) (if (:= (v4) ((call (. (call (. json NewDecoder) v3) Decode) (u& v5)))) (!= v4 nil) (block (return (lit targetInfo) v4)) _) (return v5 nil))"

def bodyLoadIndex : String :=
  String.join [
    "(block (:= (v1 v2) ((call (. os Open) (call (. filepath Join) (. v0 work) \"index.json\")))) (if _ (!= v2 nil) (block (return v2)) _) (defer (call (. v1 Close))) (var (v3) index ()) (if (:= (v2) ((call (. (call (. json NewDecoder) v1) Decode) (u& v3)))) (!= v2 nil) (block (return v2)) _) (range _ v4 (. v3 Flags) (block (if _ (== v4 nil) (block (return (call (. errors New) \"malformed index: null flag\"))) _) (= ((index (. v0 flags) (. v4 Name))) (v4)))) (range _ v5 (. v3 Targets) (block (:= (v6) ((. v5 Label))) (if _ (== v6 nil) (block (return (call (. errors New) \"malformed index: target without a label\"))) _) (:= (v7 v2) ((call (. v0 loadTargetInfo) v6))) (if _ (!= v2 nil) (block (return v2)) _) (var (v8) Target ()) (if _ (call IsSource v6) (block (:= (v9) ((slice (call (. label Split) (. v6",
    " Package)) 1 _ _))) (:= (v10) ((call (. filepath Join) (. v0 root) (call (. filepath Join) v9 ...) (. v6 Name)))) (= (v8) ((u& (lit sourceFile (kv proj v0) (kv label v6) (kv path v10)))))) (block (:= (v11) ((call make (array _ string) 0 (call len (. v7 Dependencies))))) (range v12 _ (. v7 Dependencies) (block (= (v11) ((call append v11 v12))))) (call (. sort Strings) v11) (= (v8) ((u& (lit indexTarget (kv proj v0) (kv label v6) (kv doc (. v7 Doc)) (kv deps v11) (kv depData (. v7 Dependencies)) (kv data (. v7 Data)) (kv runs (. v7 Runs)))))))) (= ((index (. v0 targets) (call (. v6 String)))) ((u& (lit runTarget (kv target v8))))))) (return nil))"]

def bodyUnescapeLabel : String :=
  "(block (if _ (u! (call (. strings ContainsRune) v0 (. utf8 RuneError))) (block (return v0)) _) (var (v1) _ (\"\\uFFFD\")) (var (v2) (. strings Builder) ()) (for (:= (v3) (0)) (< v3 (call len v0)) _ (block (if _ (&& (call (. strings HasPrefix) (slice v0 v3 _ _) v1) (<= (+ (+ v3 (call len v1)) 2) (call len v0))) (block (:= (v4) ((slice v0 (+ v3 (call len v1)) (+ (+ v3 (call len v1)) 2) _))) (if _ (== v4 \"--\") (block (call (. v2 WriteString) v1) (+= (v3) ((+ (call len v1) 2))) (continue)) _) (if (:= (v5 v6) ((call (. strconv ParseUint) v4 16 8))) (== v6 nil) (block (call (. v2 WriteByte) (call byte v5)) (+= (v3) ((+ (call len v1) 2))) (continue)) _)) _) (call (. v2 WriteByte) (index v0 v3)) (++ v3))) (return (call (. v2 String))))"

def bodyDepStampsUnmarshal : String :=
  "(block (var (v2) (map string string) ()) (if (:= (v3) ((call (. json Unmarshal) v1 (u& v2)))) (!= v3 nil) (block (return v3)) _) (if _ (== v2 nil) (block (= ((* v0)) (nil)) (return nil)) _) (= ((* v0)) ((call make depStamps (call len v2)))) (range v4 v5 v2 (block (= ((index (* v0) (call unescapeLabel v4))) (v5)))) (return nil))"

def bodyWriterWrite : String :=
  "(block (if (:= (_ v2) ((call (. (. v0 w) Write) v1))) (!= v2 nil) (block (call panic (call failure v2))) _) (return (call len v1) nil))"

def bodyMemoized : String :=
  "(block (if _ (call (. (call (. reflect TypeOf) v1) Comparable)) (block (:= (v2 v3) ((index (. v0 memo) v1))) (return v2 v3)) _) (return 0 false))"

def bodyEncMemoize : String :=
  "(block (if _ (call (. (call (. reflect TypeOf) v1) Comparable)) (block (= ((index (. v0 memo) v1)) ((. v0 next))) (++ (. v0 next)) (call (. (. v0 w) WriteByte) opMEMOIZE)) _))"

def bodyEncodeString : String :=
  "(block (var (v4) (array 5 byte) ()) (:= (v5) ((call len v3))) (if _ (< v5 256) (block (= ((index v4 0) (index v4 1)) (v1 (call byte v5))) (call (. (. v0 w) Write) (slice v4 _ 2 _))) (block (= ((index v4 0) (index v4 1) (index v4 2) (index v4 3) (index v4 4)) (v2 (call byte v5) (call byte (>> v5 8)) (call byte (>> v5 16)) (call byte (>> v5 24)))) (call (. (. v0 w) Write) (slice v4 _ 5 _)))) (call (. (. v0 w) WriteString) v3))"

def bodyEncode : String :=
  String.join [
    "(block (if (:= (v2 v3) ((call (. v0 memoized) v1))) v3 (block (var (v4) (array 5 byte) ()) (if _ (< v2 256) (block (= ((index v4 0) (index v4 1)) (opBINGET (call byte v2))) (call (. (. v0 w) Write) (slice v4 _ 2 _))) (block (= ((index v4 0) (index v4 1) (index v4 2) (index v4 3) (index v4 4)) (opLONG_BINGET (call byte v2) (call byte (>> v2 8)) (call byte (>> v2 16)) (call byte (>> v2 24)))) (call (. (. v0 w) Write) (slice v4 _ 5 _)))) (return)) _) (typeswitch _ (:= (v1) ((assert v1 _))) (case ((. starlark NoneType)) (call (. (. v0 w) WriteByte) opNONE)) (case ((. starlark Bool)) (if _ v1 (block (call (. (. v0 w) WriteByte) opNEWTRUE)) (block (call (. (. v0 w) WriteByte) opNEWFALSE)))) (case ((. starlark Int)) (:= (v5 v3) ((call (. v1 Int64)))) (if _ (|| (|| (u! v3) (< v5 (. math MinInt32))",
    ") (> v5 (. math MaxInt32))) (block (call (. (. v0 w) WriteByte) opINT) (:= (v6 v7) ((call (. (call (. v1 BigInt)) MarshalText)))) (if _ (!= v7 nil) (block (call panic (call failure v7))) _) (call (. (. v0 w) Write) v6) (call (. (. v0 w) WriteByte) '\\n') (return)) _) (var (v4) (array 5 byte) ()) (switch _ _ (case ((&& (>= v5 0) (< v5 (<< 1 8)))) (= ((index v4 0) (index v4 1)) (opBININT1 (call byte v5))) (call (. (. v0 w) Write) (slice v4 _ 2 _))) (case ((&& (>= v5 0) (< v5 (<< 1 16)))) (= ((index v4 0) (index v4 1) (index v4 2)) (opBININT2 (call byte v5) (call byte (>> v5 8)))) (call (. (. v0 w) Write) (slice v4 _ 3 _))) (default (= ((index v4 0) (index v4 1) (index v4 2) (index v4 3) (index v4 4)) (opBININT (call byte v5) (call byte (>> v5 8)) (call byte (>> v5 16)) (call byte (>> v5 24)))",
    ") (call (. (. v0 w) Write) (slice v4 _ 5 _))))) (case ((. starlark Float)) (:= (v8) ((call (. math Float64bits) (call float64 v1)))) (var (v4) (array 9 byte) ()) (= ((index v4 0)) (opBINFLOAT)) (= ((index v4 1) (index v4 2) (index v4 3) (index v4 4) (index v4 5) (index v4 6) (index v4 7) (index v4 8)) ((call byte v8) (call byte (>> v8 8)) (call byte (>> v8 16)) (call byte (>> v8 24)) (call byte (>> v8 32)) (call byte (>> v8 40)) (call byte (>> v8 48)) (call byte (>> v8 56)))) (call (. (. v0 w) Write) (slice v4 _ _ _))) (case ((. starlark String)) (call (. v0 encodeString) opSHORT_BINUNICODE opBINUNICODE (call string v1))) (case ((. starlark Bytes)) (call (. v0 encodeString) opSHORT_BINBYTES opBINBYTES (call string v1))) (case ((. starlark Tuple)) (switch _ (call len v1) (case (0) (call (. ",
    "(. v0 w) WriteByte) opEMPTY_TUPLE)) (case (1) (call (. v0 encode) (index v1 0)) (call (. (. v0 w) WriteByte) opTUPLE1)) (case (2) (call (. v0 encode) (index v1 0)) (call (. v0 encode) (index v1 1)) (call (. (. v0 w) WriteByte) opTUPLE2)) (case (3) (call (. v0 encode) (index v1 0)) (call (. v0 encode) (index v1 1)) (call (. v0 encode) (index v1 2)) (call (. (. v0 w) WriteByte) opTUPLE3)) (default (call (. (. v0 w) WriteByte) opMARK) (range _ v9 v1 (block (call (. v0 encode) v9))) (call (. (. v0 w) WriteByte) opTUPLE))) (call (. v0 memoize) v1)) (case ((* (. starlark Set))) (call (. (. v0 w) WriteByte) opEMPTY_SET) (call (. v0 memoize) v1) (:= (v10) ((call (. v1 Elems)))) (for _ (> (call len v10) 0) _ (block (:= (v11) (v10)) (if _ (> (call len v11) 1000) (block (= (v11) ((slice v11 _ 1000 _)",
    "))) _) (= (v10) ((slice v10 (call len v11) _ _))) (call (. (. v0 w) WriteByte) opMARK) (range _ v9 v11 (block (call (. v0 encode) v9))) (call (. (. v0 w) WriteByte) opADDITEMS)))) (default (call (. v0 encodeComplex) v1))))"]

def bodyEncodeComplex : String :=
  String.join [
    "(block (if _ (!= (. v0 pickler) nil) (block (:= (v2 v3 v4 v5) ((call (. (. v0 pickler) Pickle) v1))) (switch _ v5 (case (nil) (call (. v0 encodeString) opSHORT_BINUNICODE opBINUNICODE v2) (call (. v0 encodeString) opSHORT_BINUNICODE opBINUNICODE v3) (call (. (. v0 w) WriteByte) opSTACK_GLOBAL) (call (. v0 encode) v4) (call (. (. v0 w) WriteByte) opNEWOBJ) (call (. v0 memoize) v1) (return)) (case (ErrCannotPickle)) (default (call panic (call failure v5))))) _) (typeswitch _ (:= (v1) ((assert v1 _))) (case ((. starlark IterableMapping)) (call (. (. v0 w) WriteByte) opEMPTY_DICT) (call (. v0 memoize) v1) (:= (v6) ((call (. v1 Items)))) (for _ (> (call len v6) 0) _ (block (:= (v7) (v6)) (if _ (> (call len v7) 1000) (block (= (v7) ((slice v7 _ 1000 _)))) _) (= (v6) ((slice v6 (call len v7) _ _)",
    ")) (call (. (. v0 w) WriteByte) opMARK) (range _ v8 v7 (block (call (. v0 encode) (index v8 0)) (call (. v0 encode) (index v8 1)))) (call (. (. v0 w) WriteByte) opSETITEMS)))) (case ((. starlark Sequence)) (call (. (. v0 w) WriteByte) opEMPTY_LIST) (call (. v0 memoize) v1) (:= (v9) ((call (. v1 Iterate)))) (defer (call (. v9 Done))) (var (v10) (. starlark Value) ()) (switch (:= (v11) ((call (. v1 Len)))) v11 (case (0)) (case (1) (call (. v9 Next) (u& v10)) (call (. v0 encode) v10) (call (. (. v0 w) WriteByte) opAPPEND)) (default (for (:= (v12) (0)) (< v12 v11) _ (block (:= (v7) ((- v11 v12))) (if _ (> v7 1000) (block (= (v7) (1000))) _) (call (. (. v0 w) WriteByte) opMARK) (for _ (> v7 0) (= (v12 v7) ((+ v12 1) (- v7 1))) (block (call (. v9 Next) (u& v10)) (call (. v0 encode) v10))) (call ",
    "(. (. v0 w) WriteByte) opAPPENDS)))))) (case ((. starlark HasAttrs)) (call (. (. v0 w) WriteByte) opEMPTY_DICT) (call (. v0 memoize) v1) (:= (v13) ((call (. v1 AttrNames)))) (for _ (> (call v11 v13) 0) _ (block (:= (v7) (v13)) (if _ (> (call v11 v7) 1000) (block (= (v7) ((slice v7 _ 1000 _)))) _) (= (v13) ((slice v13 (call v11 v7) _ _))) (call (. (. v0 w) WriteByte) opMARK) (range _ v14 v7 (block (call (. v0 encode) (call (. starlark String) v14)) (:= (v15 v5) ((call (. v1 Attr) v14))) (if _ (!= v5 nil) (block (call panic (call failure v5))) _) (call (. v0 encode) v15))) (call (. (. v0 w) WriteByte) opSETITEMS)))) (default (call panic (call failure (call (. fmt Errorf) \"cannot pickle value of type %T\" v1))))))"]

def bodyEncodeTop : String :=
  "(block (defer (call (func (block (if (:= (v3 v4) ((assert (call recover) failure))) v4 (block (= (v2) ((call error v3)))) _))))) (call (. v0 encode) v1) (call (. (. v0 w) WriteByte) opSTOP) (return nil))"

def bodyReaderRead : String :=
  "(block (:= (v2 v3) ((call (. io ReadFull) (. v0 r) v1))) (if _ (!= v3 nil) (block (call panic (call failure v3))) _) (return v2 nil))"

def bodyPush : String :=
  "(block (= ((. v0 stack)) ((call append (. v0 stack) v1))))"

def bodyPeek : String :=
  "(block (if _ (== (call len (. v0 stack)) 0) (block (call panic (call failure (call (. errors New) \"stack underflow\")))) _) (return (index (. v0 stack) (- (call len (. v0 stack)) 1))))"

def bodyPop : String :=
  "(block (:= (v1) ((call (. v0 peek)))) (= ((. v0 stack)) ((slice (. v0 stack) _ (- (call len (. v0 stack)) 1) _))) (return v1))"

def bodyDecMemoize : String :=
  "(block (= ((. v0 memo)) ((call append (. v0 memo) v1))))"

def bodyGet : String :=
  "(block (if _ (>= v1 (call len (. v0 memo))) (block (call panic (call failure (call (. fmt Errorf) \"invalid object ID %v\" v1)))) _) (return (index (. v0 memo) v1)))"

def bodyReadByte : String :=
  "(block (var (v1) (array 1 byte) ()) (call (. (. v0 r) Read) (slice v1 _ _ _)) (return (index v1 0)))"

def bodyReadUint32 : String :=
  "(block (var (v1) (array 4 byte) ()) (call (. (. v0 r) Read) (slice v1 _ _ _)) (return (| (| (| (call uint32 (index v1 0)) (<< (call uint32 (index v1 1)) 8)) (<< (call uint32 (index v1 2)) 16)) (<< (call uint32 (index v1 3)) 24))))"

def bodyReadUint64 : String :=
  "(block (var (v1) (array 8 byte) ()) (call (. (. v0 r) Read) (slice v1 _ _ _)) (return (| (| (| (| (| (| (| (call uint64 (index v1 0)) (<< (call uint64 (index v1 1)) 8)) (<< (call uint64 (index v1 2)) 16)) (<< (call uint64 (index v1 3)) 24)) (<< (call uint64 (index v1 4)) 32)) (<< (call uint64 (index v1 5)) 40)) (<< (call uint64 (index v1 6)) 48)) (<< (call uint64 (index v1 7)) 56))))"

def bodyDecodeString : String :=
  "(block (var (v2) (. strings Builder) ()) (call (. v2 Grow) v1) (if (:= (_ v3) ((call (. io CopyN) (u& v2) (. v0 r) (call int64 v1)))) (!= v3 nil) (block (call panic (call failure v3))) _) (return (call (. v2 String))))"

def bodyDecode : String :=
  String.join [
    "(block (for _ _ _ (block (switch (:= (v1) ((call (. v0 readByte)))) v1 (case (opMARK) (call (. v0 push) mark)) (case (opMEMOIZE) (call (. v0 memoize) (call (. v0 peek)))) (case (opBINGET) (call (. v0 push) (call (. v0 get) (call int (call (. v0 readByte)))))) (case (opLONG_BINGET) (call (. v0 push) (call (. v0 get) (call int (call (. v0 readUint32)))))) (case (opSTOP) (return (call (. v0 pop)))) (case (opNONE) (call (. v0 push) (. starlark None))) (case (opNEWTRUE) (call (. v0 push) (. starlark True))) (case (opNEWFALSE) (call (. v0 push) (. starlark False))) (case (opINT) (var (v2) (. bytes Buffer) ()) (for (:= (v3) ((call (. v0 readByte)))) (!= v3 '\\n') (= (v3) ((call (. v0 readByte)))) (block (call (. v2 WriteByte) v3))) (var (v4) (. big Int) ()) (if (:= (v5) ((call (. v4 UnmarshalText)",
    " (call (. v2 Bytes))))) (!= v5 nil) (block (call panic (call failure v5))) _) (call (. v0 push) (call (. starlark MakeBigInt) (u& v4)))) (case (opBININT1) (call (. v0 push) (call (. starlark MakeInt) (call int (call (. v0 readByte)))))) (case (opBININT2) (:= (v6 v7) ((call (. v0 readByte)) (call (. v0 readByte)))) (call (. v0 push) (call (. starlark MakeInt) (| (call int v6) (<< (call int v7) 8))))) (case (opBININT) (call (. v0 push) (call (. starlark MakeInt) (call int (call int32 (call (. v0 readUint32))))))) (case (opBINFLOAT) (call (. v0 push) (call (. starlark Float) (call (. math Float64frombits) (call (. v0 readUint64)))))) (case (opSHORT_BINUNICODE) (call (. v0 push) (call (. starlark String) (call (. v0 decodeString) (call int (call (. v0 readByte))))))) (case (opBINUNICODE) (call",
    " (. v0 push) (call (. starlark String) (call (. v0 decodeString) (call int (call (. v0 readUint32))))))) (case (opSHORT_BINBYTES) (call (. v0 push) (call (. starlark Bytes) (call (. v0 decodeString) (call int (call (. v0 readByte))))))) (case (opBINBYTES) (call (. v0 push) (call (. starlark Bytes) (call (. v0 decodeString) (call int (call (. v0 readUint32))))))) (case (opEMPTY_LIST) (call (. v0 push) (call (. starlark NewList) nil))) (case (opAPPEND) (:= (v8) ((call (. v0 pop)))) (:= (v6 v9) ((assert (call (. v0 peek)) (* (. starlark List))))) (if _ (u! v9) (block (call panic (call failure (call (. fmt Errorf) \"APPEND expects a list, not a %s\" (call (. (call (. v0 peek)) Type)))))) _) (call (. v6 Append) v8)) (case (opAPPENDS) (if _ (== (call len (. v0 stack)) 0) (block (call panic (call f",
    "ailure (call (. errors New) \"stack underflow\")))) _) (:= (v4) ((- (call len (. v0 stack)) 1))) (for _ (&& (> v4 0) (!= (index (. v0 stack) v4) mark)) (-- v4) (block)) (if _ (== v4 0) (block (call panic (call failure (call (. errors New) \"stack underflow\")))) _) (:= (v6 v9) ((assert (index (. v0 stack) (- v4 1)) (* (. starlark List))))) (if _ (u! v9) (block (call panic (call failure (call (. fmt Errorf) \"APPENDS expects a list, not a %s\" (call (. (index (. v0 stack) (- v4 1)) Type)))))) _) (range _ v8 (slice (. v0 stack) (+ v4 1) _ _) (block (call (. v6 Append) v8))) (= ((. v0 stack)) ((slice (. v0 stack) _ v4 _)))) (case (opEMPTY_TUPLE) (call (. v0 push) (lit (. starlark Tuple)))) (case (opTUPLE1) (call (. v0 push) (lit (. starlark Tuple) (call (. v0 pop))))) (case (opTUPLE2) (:= (v2 v10) ",
    "((call (. v0 pop)) (call (. v0 pop)))) (call (. v0 push) (lit (. starlark Tuple) v10 v2))) (case (opTUPLE3) (:= (v3 v2 v10) ((call (. v0 pop)) (call (. v0 pop)) (call (. v0 pop)))) (call (. v0 push) (lit (. starlark Tuple) v10 v2 v3))) (case (opTUPLE) (if _ (== (call len (. v0 stack)) 0) (block (call panic (call failure (call (. errors New) \"stack underflow\")))) _) (:= (v4) ((- (call len (. v0 stack)) 1))) (for _ (!= (index (. v0 stack) v4) mark) (-- v4) (block (if _ (== v4 0) (block (call panic (call failure (call (. errors New) \"stack underflow\")))) _))) (:= (v11) ((call make (. starlark Tuple) (- (- (call len (. v0 stack)) v4) 1)))) (call copy v11 (slice (. v0 stack) (+ v4 1) _ _)) (= ((. v0 stack)) ((slice (. v0 stack) _ v4 _))) (call (. v0 push) v11)) (case (opEMPTY_DICT) (call (. v0 ",
    "push) (call (. starlark NewDict) 0))) (case (opSETITEMS) (if _ (== (call len (. v0 stack)) 0) (block (call panic (call failure (call (. errors New) \"stack underflow\")))) _) (:= (v4) ((- (call len (. v0 stack)) 1))) (for _ (&& (> v4 0) (!= (index (. v0 stack) v4) mark)) (-- v4) (block)) (if _ (== v4 0) (block (call panic (call failure (call (. errors New) \"stack underflow\")))) _) (:= (v12 v9) ((assert (index (. v0 stack) (- v4 1)) (* (. starlark Dict))))) (if _ (u! v9) (block (call panic (call failure (call (. fmt Errorf) \"SETITEMS expects a dict, not a %s\" (call (. (index (. v0 stack) (- v4 1)) Type)))))) _) (if _ (!= (% (- (- (call len (. v0 stack)) v4) 1) 2) 0) (block (call panic (call failure (call (. errors New) \"SETITEMS expects an even number of values\")))) _) (for (:= (v13) ((+ v4 1",
    "))) (< v13 (call len (. v0 stack))) (+= (v13) (2)) (block (:= (v14 v15) ((index (. v0 stack) v13) (index (. v0 stack) (+ v13 1)))) (call (. v12 SetKey) v14 v15))) (= ((. v0 stack)) ((slice (. v0 stack) _ v4 _)))) (case (opEMPTY_SET) (call (. v0 push) (call (. starlark NewSet) 0))) (case (opADDITEMS) (if _ (== (call len (. v0 stack)) 0) (block (call panic (call failure (call (. errors New) \"stack underflow\")))) _) (:= (v4) ((- (call len (. v0 stack)) 1))) (for _ (&& (> v4 0) (!= (index (. v0 stack) v4) mark)) (-- v4) (block)) (if _ (== v4 0) (block (call panic (call failure (call (. errors New) \"stack underflow\")))) _) (:= (v16 v9) ((assert (index (. v0 stack) (- v4 1)) (* (. starlark Set))))) (if _ (u! v9) (block (call panic (call failure (call (. fmt Errorf) \"ADDITEMS expects a set, not a",
    " %s\" (call (. (index (. v0 stack) (- v4 1)) Type)))))) _) (range _ v8 (slice (. v0 stack) (+ v4 1) _ _) (block (call (. v16 Insert) v8))) (= ((. v0 stack)) ((slice (. v0 stack) _ v4 _)))) (case (opSTACK_GLOBAL) (:= (v17) ((call (. v0 pop)))) (:= (v18 v9) ((assert v17 (. starlark String)))) (if _ (u! v9) (block (call panic (call failure (call (. fmt Errorf) \"STACK_GLOBAL expects a string, not a %s\" (call (. v17 Type)))))) _) (:= (v19) ((call (. v0 pop)))) (:= (v20 v9) ((assert v19 (. starlark String)))) (if _ (u! v9) (block (call panic (call failure (call (. fmt Errorf) \"STACK_GLOBAL expects a string, not a %s\" (call (. v19 Type)))))) _) (call (. v0 push) (u& (lit global (kv module (call string v20)) (kv name (call string v18)))))) (case (opNEWOBJ) (:= (v21) ((call (. v0 pop)))) (:= (v22 v9",
    ") ((assert v21 (. starlark Tuple)))) (if _ (u! v9) (block (call panic (call failure (call (. fmt Errorf) \"NEWOBJ expects a tuple, not a %s\" (call (. v21 Type)))))) _) (:= (v23) ((call (. v0 pop)))) (:= (v24 v9) ((assert v23 (* global)))) (if _ (u! v9) (block (call panic (call failure (call (. fmt Errorf) \"NEWOBJ expects a global, not a %s\" (call (. v23 Type)))))) _) (if _ (== (. v0 unpickler) nil) (block (call panic (call failure (call (. errors New) \"cannot decode NEWOBJ: no unpickler\")))) _) (:= (v8 v5) ((call (. (. v0 unpickler) Unpickle) (. v24 module) (. v24 name) v22))) (if _ (!= v5 nil) (block (call panic (call failure v5))) _) (call (. v0 push) v8)) (default (call panic (call failure (call (. fmt Errorf) \"unimplemented opcode: 0x%02x\" v1))))))))"]

def bodyDecodeTop : String :=
  "(block (defer (call (func (block (if (:= (v3 v4) ((assert (call recover) failure))) v4 (block (= (v2) ((call error v3)))) _))))) (return (call (. v0 decode)) nil))"

end Dawn.Expected.Pickle

import Dawn.Model.Runner
import Dawn.Extracted.Runner
import Dawn.Ties.RunnerExpected
/-! Tie 1, targets (C04, C05): status, `start`, `wait`, `run`, `getTarget`, `Run`. -/
namespace Dawn.Ties.Runner
open Dawn

/-- `(*target).run`: enter, load, evaluate, set the status under the lock, broadcast, exit, Done -/
theorem run_order_ok : Extracted.Runner.runOrder = Runner.runOrder := by decide

/-- `Run`: start the requested target, wait for it, wait for every started target (D17) -/
theorem main_order_ok : Extracted.Runner.mainOrder = Runner.mainOrder := by decide

/-- `wait` is a `for` loop re-testing `status == statusRunning` (the model's guard of `waitDeps`);
    `running.Wait()` in `Run` is the only other blocking call -/
theorem status_wait_is_loop :
    Extracted.Runner.waitLoops[0]? = Runner.waitLoops[0]? ∧ Extracted.Runner.waitLoops[2]? = Runner.waitLoops[2]? ∧
    Extracted.Runner.waitLoops.length = 3 := by decide

/-- `Status`: idle is the zero value of a fresh target -/
theorem status_order : Extracted.Runner.statusConsts =
    ["statusIdle=iota", "statusRunning", "statusSucceeded", "statusFailed"] := by decide

theorem skel_newTarget_ok : Extracted.Runner.skel_newTarget = Expected.Runner.skel_newTarget := rfl
theorem skel_start_ok : Extracted.Runner.skel_target_start = Expected.Runner.skel_target_start := rfl
theorem skel_wait_ok : Extracted.Runner.skel_target_wait = Expected.Runner.skel_target_wait := rfl
theorem skel_run_ok : Extracted.Runner.skel_target_run = Expected.Runner.skel_target_run := rfl
theorem skel_getTarget_ok : Extracted.Runner.skel_runner_getTarget = Expected.Runner.skel_runner_getTarget := rfl
theorem skel_Run_ok : Extracted.Runner.skel_Run = Expected.Runner.skel_Run := rfl

end Dawn.Ties.Runner

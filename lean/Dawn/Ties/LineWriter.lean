import Dawn.Model.LineWriter
import Dawn.Extracted.LineWriter
import Dawn.Ties.LineWriterExpected
/-!
Tie 1 for C18: the facts regenerated from `lineWriter.go`, `events.go`, `target.go`, `function.go` and
`project.go` on this run are the ones the models are written against. Each theorem is re-checked by the kernel
on every run; a change to the source that alters a fact breaks the corresponding obligation.
-/
namespace Dawn.Ties.LineWriter
open Dawn

theorem extraction_complete : Extracted.LineWriter.extractionErrors = [] := by decide

/-- `(*lineWriter).Write`: control flow, operators, calls unchanged since `LineWriter.write` was written -/
theorem write_body_ok : Extracted.LineWriter.writeBody = Expected.LineWriter.writeBody := rfl

/-- `(*lineWriter).Flush` (with the `Reset` of the D10 repair) is what `LineWriter.flush` models -/
theorem flush_body_ok : Extracted.LineWriter.flushBody = Expected.LineWriter.flushBody := rfl

/-- the writer is attached as stdout and stderr of the body's thread and flushed when the body returns -/
theorem attach_ok :
    Extracted.LineWriter.functionEvaluateOut = Expected.LineWriter.functionEvaluateOut ∧
    Extracted.LineWriter.functionNewThreadOut = Expected.LineWriter.functionNewThreadOut := ⟨rfl, rfl⟩

/-- the event-emitting skeleton of `runTarget.Evaluate` is the control flow `Events.evaluate` follows -/
theorem evaluate_skeleton_ok : Extracted.LineWriter.evaluateSkeleton = Expected.LineWriter.evaluateSkeleton := rfl

/-- `Project.Run` is `runner.Run`, then `RunDone(err)`, then `return err` (`Events.projectRun`) -/
theorem run_body_ok : Extracted.LineWriter.runBody = Expected.LineWriter.runBody := rfl

/-- every `runEvents` method reports the kind string the model uses for that event — which is the method's own name -/
theorem event_kinds_ok : Extracted.LineWriter.eventKinds =
    [("Print", Events.printKind),
     ("TargetUpToDate", Events.Ev.upToDate.kind),
     ("TargetEvaluating", Events.Ev.evaluating.kind),
     ("TargetFailed", Events.Ev.failed.kind),
     ("TargetSucceeded", Events.Ev.succeeded.kind),
     ("RunDone", Events.runDoneKind)] ∧
    ∀ p ∈ Extracted.LineWriter.eventKinds, p.1 = p.2 := by decide

end Dawn.Ties.LineWriter

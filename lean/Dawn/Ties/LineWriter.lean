import Dawn.Model.LineWriter
import Dawn.Extracted.LineWriter
import Dawn.Ties.LineWriterExpected
/-!
Tie 1 for C18: the facts regenerated from `lineWriter.go`, `events.go`, `target.go`, `function.go` and
`project.go` on this run are the ones the models are written against. Each theorem is re-checked by the kernel
on every run; a change to the source that alters a fact breaks the corresponding obligation.
-/
namespace Dawn.Ties.LineWriter
open Dawn

theorem extraction_complete : Extracted.LineWriter.extractionErrors = [] := by decide

/-- `(*lineWriter).Write`: control flow, operators, calls unchanged since `LineWriter.write` was written -/
theorem write_body_ok : Extracted.LineWriter.writeBody = Expected.LineWriter.writeBody := rfl

/-- `(*lineWriter).Flush` (with the `Reset` of the D10 repair) is what `LineWriter.flush` models -/
theorem flush_body_ok : Extracted.LineWriter.flushBody = Expected.LineWriter.flushBody := rfl

/-- the writer is attached as stdout and stderr of the body's thread and flushed when the body returns -/
theorem attach_ok :
    Extracted.LineWriter.functionEvaluateOut = Expected.LineWriter.functionEvaluateOut ∧
    Extracted.LineWriter.functionNewThreadOut = Expected.LineWriter.functionNewThreadOut := ⟨rfl, rfl⟩

/-- The single-writer hypothesis of `C18_lines` (one sequence of `Write` calls on one builder): the body's thread
gets ONE writer as both its stdout and its stderr (`util.SetStdio(thread, f.out, f.out)`), `util.Stdio` returns
those two unchanged, and the builtins that run processes (`os.exec`, `os.output`, `sh.exec`, `sh.output`) hand
them to `os/exec` / the shell interpreter as they are — no wrapper, no tee. Because the two are the identical
writer, `os/exec` feeds it from a single pipe and a single copying goroutine. A change that wraps one of them
(e.g. `io.MultiWriter(stderr, …)`) makes two goroutines write to the unsynchronised builder, and breaks this tie. -/
theorem single_writer_ok :
    Extracted.LineWriter.setStdioArgs = ["f.out", "f.out"] ∧
    (∀ a ∈ Extracted.LineWriter.setStdioArgs, ∀ b ∈ Extracted.LineWriter.setStdioArgs, a = b) ∧
    Extracted.LineWriter.utilStdioBody = Expected.LineWriter.utilStdioBody ∧
    Extracted.LineWriter.osExecStdio = Expected.LineWriter.osExecStdio ∧
    Extracted.LineWriter.osOutputStdio = Expected.LineWriter.osOutputStdio ∧
    Extracted.LineWriter.shExecStdio = Expected.LineWriter.shExecStdio ∧
    Extracted.LineWriter.shOutputStdio = Expected.LineWriter.shOutputStdio :=
  ⟨by decide, by decide, rfl, rfl, rfl, rfl, rfl⟩

/-- the event-emitting skeleton of `runTarget.Evaluate` is the control flow `Events.evaluate` follows -/
theorem evaluate_skeleton_ok : Extracted.LineWriter.evaluateSkeleton = Expected.LineWriter.evaluateSkeleton := rfl

/-- How `Evaluate` recognises a missing dependency (model: `Dep.missing` ⇒ a lone `failed`): by a type switch on
the dynamic type of the dependency's error, with the cases `UnknownTargetError` and `runner.CyclicDependencyError`
— so what `LoadTarget` returns for an unknown label must BE an `UnknownTargetError`, not wrap one: every `return`
of `unknownTarget` is the bare conversion `UnknownTargetError(…)`, and `LoadTarget` passes it on unchanged. -/
theorem missing_dependency_classification_ok :
    Extracted.LineWriter.depErrorClassification =
      ["typeswitch dep.Error.(type): UnknownTargetError, runner.CyclicDependencyError"] ∧
    (∀ c ∈ Extracted.LineWriter.unknownTargetReturns, c = "UnknownTargetError") ∧
    Extracted.LineWriter.unknownTargetReturns ≠ [] ∧
    Extracted.LineWriter.loadTargetBody = Expected.LineWriter.loadTargetBody := ⟨by decide, by decide, by decide, rfl⟩

/-- `Project.Run` applies the options OF THIS RUN first — `RunOptions.apply` sets `always` and `dryrun` from the
options, and resets both when there are none — so the facts `always` / `dryRun` of `Events.evaluate` are those of
the run, never left over from an earlier one -/
theorem run_options_ok : Extracted.LineWriter.runOptionsApplyBody = Expected.LineWriter.runOptionsApplyBody := rfl

/-- `Project.Run` is `runner.Run`, then `RunDone(err)`, then `return err` (`Events.projectRun`) -/
theorem run_body_ok : Extracted.LineWriter.runBody = Expected.LineWriter.runBody := rfl

/-- every `runEvents` method reports the kind string the model uses for that event — which is the method's own name -/
theorem event_kinds_ok : Extracted.LineWriter.eventKinds =
    [("Print", Events.printKind),
     ("TargetUpToDate", Events.Ev.upToDate.kind),
     ("TargetEvaluating", Events.Ev.evaluating.kind),
     ("TargetFailed", Events.Ev.failed.kind),
     ("TargetSucceeded", Events.Ev.succeeded.kind),
     ("RunDone", Events.runDoneKind)] ∧
    ∀ p ∈ Extracted.LineWriter.eventKinds, p.1 = p.2 := by decide

end Dawn.Ties.LineWriter

import Dawn.Model.Mvs
import Dawn.Extracted.Mvs
import Dawn.Ties.MvsExpected
/-!
Tie 1 for C11: the facts about the requirement edits (`get`, `tidy`, upgrade-all, queries, `Reqs.Upgrade`,
`Reqs.Previous`, the third-party `Req`/`ReqList`/`Upgrade`/`UpgradeAll`/`Downgrade`) regenerated on this run are the ones
the model was written against. Kept apart from `Dawn/Ties/Mvs.lean` so that a change to an edit operation does not
un-discharge the build-list obligations of C10.
-/
namespace Dawn.Ties.MvsEdit
open Dawn

/-- every C11-only fact was found in the sources -/
theorem extraction_complete_c11 : Extracted.Mvs.extractionErrorsC11 = [] := by decide

/-- `Reqs.Previous` starts its search from `"none"`, the model's `previous` from `Ver.none` (D13: it used to be `""`) -/
theorem previous_start_ok : Extracted.Mvs.previousStart = Mvs.Ver.none.render := by decide

/-- control flow, operators, calls and constants of the requirement edits (`transformReqs`, `Get`/`get`, `UpgradeAll`, `Tidy`, `Reqs.Upgrade`, `Reqs.Previous`,
query parsing and resolution, `listVersions`, `findProjectRepository`, the `get` and `tidy` commands) -/
theorem bodies_c11_ok : Extracted.Mvs.bodiesC11 = Expected.Mvs.bodiesC11 := rfl

/-- `Req`, `ReqList`, `UpgradeAll`, `Upgrade`, `Downgrade`, `override.Required` of `github.com/pgavlin/mvs` -/
theorem third_bodies_c11_ok : Extracted.Mvs.thirdBodiesC11 = Expected.Mvs.thirdBodiesC11 := rfl

/-- the model's `Env.tags` holds canonical versions only (non-canonical tags are dropped at the boundary: D30). That is what
the code does as long as the only functions of `internal/mvs` that read the repository's raw tag list are the filter
`taggedVersions` itself and the revision lookup of a (canonical) requirement, which matches its tag exactly -/
theorem raw_tag_readers_ok : Extracted.Mvs.rawTagReaders =
    ["internal/mvs/resolver.go:resolveProjectRevision", "internal/mvs/resolver.go:taggedVersions"] := by decide

end Dawn.Ties.MvsEdit

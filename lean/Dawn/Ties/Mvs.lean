import Dawn.Model.Mvs
import Dawn.Extracted.Mvs
import Dawn.Ties.MvsExpected
/-!
Tie 1 for C10 (the C11-only facts are in `Dawn/Ties/MvsEdit.lean`): the facts regenerated on this run from `internal/mvs/*.go`, `internal/project/version.go`,
`project_config.go`, `cmd/dawn/{get,tidy}.go`, `go.mod`/`go.sum` and the pinned `github.com/pgavlin/mvs` sources are
the ones the model (`Dawn/Model/Mvs.lean`) was written against. Re-checked by the kernel on every run.
-/
namespace Dawn.Ties.Mvs
open Dawn

theorem extraction_complete : Extracted.Mvs.extractionErrors = [] := by decide

/-- the main project is recognised by the path `""` -/
theorem root_path_ok : Extracted.Mvs.rootPath = Mvs.rootMod.path := by decide

/-- every literal the third-party algorithms compare a module version with is `"none"` -/
theorem third_sentinels_ok : ∀ s ∈ Extracted.Mvs.thirdVersionSentinels, s = Mvs.Ver.none.render := by decide

/-- the third-party MVS algorithms are the pinned ones (module version and go.sum hash) -/
theorem mvs_module_ok : Extracted.Mvs.mvsModule = Expected.Mvs.mvsModule := rfl

/-- so is `golang.org/x/mod` (semver, module.Sort, pseudo-versions) -/
theorem xmod_module_ok : Extracted.Mvs.xmodModule = Expected.Mvs.xmodModule := rfl

/-- control flow, operators, calls and constants of the functions the build list depends on (`Reqs.Required`, `Reqs.Max`,
`cmpVersion`, dawn's `BuildList`, `resolveProject`, the path helpers, `loadConfigFile`): unchanged since the model was written -/
theorem bodies_c10_ok : Extracted.Mvs.bodiesC10 = Expected.Mvs.bodiesC10 := rfl

/-- `BuildList`, `buildList` and the `Graph` methods of `github.com/pgavlin/mvs` as found in the module cache -/
theorem third_bodies_c10_ok : Extracted.Mvs.thirdBodiesC10 = Expected.Mvs.thirdBodiesC10 := rfl

end Dawn.Ties.Mvs

import Dawn.Model.Glob
import Dawn.Extracted.Glob
import Dawn.Ties.GlobExpected
/-!
Tie 1 for C17: the facts regenerated from `util/glob.go` on this run are the ones the model is written
against. Each theorem is re-checked by the kernel on every run; a change to the source that alters a fact
breaks the corresponding obligation.
-/
namespace Dawn.Ties.Glob
open Dawn

theorem extraction_complete : Extracted.Glob.extractionErrors = [] := by decide

/-- the text written around and between the patterns: `(?s)^(?:` … `|` … `(`…`)` … `)$`, and per token -/
theorem writes_ok : Extracted.Glob.writes = ["(?s)^(?:", "|", "(", ".*", "[^/]*", ".", "\\", ")", ")$"] := by decide

/-- the five `case` lists: backslash; the escapable characters; `*`; `?`; the characters written with a backslash -/
theorem cases_ok : Extracted.Glob.cases =
    [['\\'], Glob.escapable, ['*'], ['?'], Glob.quoted.take 11] := by decide

/-- model constants agree with the extracted texts -/
theorem emit_ok :
    Glob.emitTok .dstar = (Extracted.Glob.writes[3]!).toList ∧
    Glob.emitTok .star = (Extracted.Glob.writes[4]!).toList ∧
    Glob.emitTok .q = (Extracted.Glob.writes[5]!).toList := by decide

/-- everything else about the function (control flow, operators, calls): unchanged since the model was written -/
theorem body_ok : Extracted.Glob.body = Expected.Glob.body := rfl

/-- the users of glob sets (`glob()` in project_builtins.go and lib/os, `Project.ignored`, `Project.loadPackage`)
are the functions `globSelect` / `packageLoaded` were written against -/
theorem users_ok :
    Extracted.Glob.builtinGlobBody = Expected.Glob.builtinGlobBody ∧
    Extracted.Glob.osGlobBody = Expected.Glob.osGlobBody ∧
    Extracted.Glob.ignoredBody = Expected.Glob.ignoredBody ∧
    Extracted.Glob.loadPackageBody = Expected.Glob.loadPackageBody := ⟨rfl, rfl, rfl, rfl⟩

/-- watch mode consults the ignore list on the changed file's whole project-relative path, and a target body's
`os.glob` walks the thread's working directory (`function.newThread`, `util.Getwd`) -/
theorem watch_and_wd_ok :
    Extracted.Glob.watchBody = Expected.Glob.watchBody ∧
    Extracted.Glob.newThreadBody = Expected.Glob.newThreadBody ∧
    Extracted.Glob.getwdBody = Expected.Glob.getwdBody := ⟨rfl, rfl, rfl⟩

end Dawn.Ties.Glob

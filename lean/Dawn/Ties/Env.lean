import Dawn.Model.Env
import Dawn.Extracted.Env
import Dawn.Ties.EnvExpected
/-!
Tie 1 for C08: the facts regenerated from `function.go`, `pickle/encode.go` and `pickle/opcodes.go` on this
run are the ones the model `Dawn.Env` is written against. Each theorem is re-checked by the kernel on every
run; a change to the source that alters a fact breaks the corresponding obligation.
-/
namespace Dawn.Ties.Env
open Dawn

theorem extraction_complete : Extracted.Env.extractionErrors = [] := by decide

/-- `functionEnvKeys` -/
theorem envKeys_ok : Extracted.Env.envKeys = Env.envKeys := by decide

/-- the cases of `envPickler`: which Go type is pickled under which module / name with how many arguments -/
theorem picklerCases_ok : Extracted.Env.picklerCases =
    ["*function -> " ++ Env.hostModuleS ++ "." ++ Env.nameTargetS ++ "/1",
     "*starlark.Builtin -> " ++ Env.hostModuleS ++ "." ++ Env.nameBuiltinS ++ "/2",
     "*starlark.FunctionCode -> " ++ Env.hostModuleS ++ "." ++ Env.nameCodeS ++ "/4",
     "*starlark.Function -> " ++ Env.hostModuleS ++ "." ++ Env.nameFuncS ++ "/3",
     "default -> " ++ Env.hostModuleS ++ "." ++ Env.nameMandatoryS ++ "/0"] := by decide

/-- `newEnvPickler` answers with the marker `(name, index)` for exactly builtins, functions and function code -/
theorem recursiveCases_ok : Extracted.Env.recursiveCases =
    ["*starlark.Builtin|*starlark.Function|*starlark.FunctionCode -> " ++ Env.hostModuleS ++ "." ++ Env.nameRecursiveS ++ "/2"] := by
  decide

/-- the code is the repaired one the theorems of `Props/Env.lean` speak about: `functionEnv` and `evaluate`
encode with `newEnvPickler()`, the batch loops do not re-encode the container, memo ids count MEMOIZE ops,
builtins carry name and receiver, function code carries its signature, the `mandatory` placeholder is pickled -/
theorem cfg_ok : ({ fixed := Extracted.Env.cfgFixed, reencode := Extracted.Env.cfgReencode,
                    memoCounter := Extracted.Env.cfgMemoCounter, builtinIdentity := Extracted.Env.cfgBuiltinIdentity,
                    signature := Extracted.Env.cfgSignature, mandatory := Extracted.Env.cfgMandatory } : Env.Cfg)
    = Env.Cfg.current := by decide

/-- every batch loop of the encoder uses the model's batch size -/
theorem batch_ok : Extracted.Env.batchSizes = List.replicate 4 Env.Cfg.current.batch := by decide

/-- `diffEnv` passes the model's limit to `EqualDepth` and to `DiffDepth` -/
theorem limits_ok : Extracted.Env.compareLimits = [Env.compareLimit, Env.compareLimit] := by decide

/-- `diffEnv` returns "up to date" for equal encodings before it compares anything structurally -/
theorem equalEncodingsFirst_ok : Extracted.Env.equalEncodingsFirst = true := by decide

/-- … and for differing encodings it never answers "up to date", whatever the structural comparison says (D25) -/
theorem equalDecodingsNotUpToDate_ok : Extracted.Env.equalDecodingsUpToDate = false := by decide

/-- the reason switch of `diffEnv` has the case "the environments differ in no part that is listed" (D28) -/
theorem reasonHandlesNoKnownPart_ok : Extracted.Env.reasonHandlesNoKnownPart = true := by decide

/-- every key `envUnpickler` writes into a decoded environment is listed in `functionEnvKeys`, and every listed key
is written: a difference between two decoded environments always has a name -/
theorem unpicklerKeys_ok :
    (Extracted.Env.unpicklerKeys.all (Extracted.Env.envKeys.contains ·) &&
     Extracted.Env.envKeys.all (Extracted.Env.unpicklerKeys.contains ·)) = true := by decide

/-- the opcode bytes -/
theorem opcodes_ok : Extracted.Env.opcodes = Env.opcodeList := by decide

/-- order of lookups, writes, recursive calls and memoisations in `Encoder.encode` / `encodeComplex` (memo lookup
first; containers memoised before their contents; host objects after their arguments) -/
theorem encodeSkeleton_ok : Extracted.Env.encodeSkeleton = Expected.Env.encodeSkeleton := by decide

/-- everything else about the modelled functions: unchanged since the model was written -/
theorem envPickler_ok : Extracted.Env.envPicklerBody = Expected.Env.envPicklerBody := rfl
theorem newEnvPickler_ok : Extracted.Env.newEnvPicklerBody = Expected.Env.newEnvPicklerBody := rfl
theorem envUnpickler_ok : Extracted.Env.envUnpicklerBody = Expected.Env.envUnpicklerBody := rfl
theorem functionEnv_ok : Extracted.Env.functionEnvBody = Expected.Env.functionEnvBody := rfl
theorem diffEnv_ok : Extracted.Env.diffEnvBody = Expected.Env.diffEnvBody := rfl
theorem upToDate_ok : Extracted.Env.upToDateBody = Expected.Env.upToDateBody := rfl
theorem assocList_ok : Extracted.Env.makeDictFromAssociationListBody = Expected.Env.makeDictFromAssociationListBody := rfl

end Dawn.Ties.Env

/- Snapshot of Dawn/Extracted/Diff.lean taken by bin/accept-extracted: the facts the models and
   theorems of this area were written against. Compared with the regenerated file in Dawn/Ties/Diff.lean. -/
namespace Dawn.Expected.Diff

/-- facts the extractor could not find (the code no longer has the shape the model was written against) -/
def extractionErrors : List String := []

def diffBody : String :=
  "(block (return (call DiffDepth v0 v1 (. starlark CompareLimit))))"

def diffDepthBody : String :=
  "(block (:= (v3 v4) ((call (. starlark EqualDepth) v0 v1 v2))) (if _ (!= v4 nil) (block (return nil v4)) _) (if _ v3 (block (return nil nil)) _) (:= (v5 v6) ((assert v0 (. starlark Sliceable)))) (:= (v7 v8) ((assert v1 (. starlark Sliceable)))) (if _ (&& v6 v8) (block (return (call diffSlice v5 v7 (- v2 1)))) _) (:= (v9 v10) ((assert v0 (. starlark IterableMapping)))) (:= (v11 v12) ((assert v1 (. starlark IterableMapping)))) (if _ (&& v10 v12) (block (return (call diffMapping v9 v11 (- v2 1)))) _) (return (u& (lit LiteralDiff (kv valueDiff (lit valueDiff (kv old v0) (kv new v1))))) nil))"

def diffMappingBody : String :=
  String.join [
    "(block (:= (v3) ((call (. starlark NewDict) 0))) (:= (v4) ((call (. v0 Iterate)))) (defer (call (. v4 Done))) (var (v5) (. starlark Value) ()) (for _ (call (. v4 Next) (u& v5)) _ (block (:= (v6 _ _) ((call (. v0 Get) v5))) (:= (v7 v8 _) ((call (. v1 Get) v5))) (if _ (u! v8) (block (call (. v3 SetKey) v5 (u& (lit Edit (kv Sliceable (lit (. starlark Tuple) v6)) (kv kind EditKindDelete)))) (continue)) _) (:= (v9 v10) ((call DiffDepth v6 v7 v2))) (if _ (!= v10 nil) (block (return nil v10)) _) (if _ (!= v9 nil) (block (call (. v3 SetKey) v5 (u& (lit Edit (kv Sliceable (lit (. starlark Tuple) v9)) (kv kind EditKindReplace))))) _))) (:= (v11) ((call (. v1 Iterate)))) (defer (call (. v11 Done))) (for _ (call (. v11 Next) (u& v5)) _ (block (if (:= (_ v8 _) ((call (. v0 Get) v5))) (u! v8) (block (:=",
    " (v7 _ _) ((call (. v1 Get) v5))) (call (. v3 SetKey) v5 (u& (lit Edit (kv Sliceable (lit (. starlark Tuple) v7)) (kv kind EditKindAdd))))) _))) (return (u& (lit MappingDiff (kv valueDiff (lit valueDiff (kv old v0) (kv new v1))) (kv edits v3))) nil))"]

def diffSliceBody : String :=
  "(block (:= (v3 v4) (v0 v1)) (:= (v5 v6) ((call (. v0 Len)) (call (. v1 Len)))) (:= (v7) (false)) (if _ (>= v5 v6) (block (= (v0 v1) (v1 v0)) (= (v5 v6) (v6 v5)) (= (v7) (true))) _) (:= (v8) ((lit differ (kv a v0) (kv b v1) (kv m v5) (kv n v6) (kv reverse v7) (kv depth v2) (kv routeSize defaultRouteSize)))) (:= (v9 v10) ((call (. v8 compose)))) (if _ (!= v10 nil) (block (return nil v10)) _) (return (u& (lit SliceableDiff (kv valueDiff (lit valueDiff (kv old v3) (kv new v4))) (kv edits v9))) nil))"

def sliceBody : String :=
  "(block (return (assert (call (. v0 Slice) v1 v2 1) (. starlark Sliceable))))"

def indexReturnsSliceBody : String :=
  "(block (typeswitch _ (assert v0 _) (case ((. starlark String) (. starlark Bytes)) (return true)) (default (return false))))"

def copySliceableBody : String :=
  "(block (if _ (call indexReturnsSlice v0) (block (return v0)) _) (:= (v1) ((call make (. starlark Tuple) (call (. v0 Len))))) (range v2 _ v1 (block (= ((index v1 v2)) ((call (. v0 Index) v2))))) (return v1))"

def diffReplacementsBody : String :=
  "(block (if _ (&& (call indexReturnsSlice v0) (call indexReturnsSlice v1)) (block (return (lit (. starlark Tuple) (u& (lit LiteralDiff (kv valueDiff (lit valueDiff (kv old v0) (kv new v1)))))) nil)) _) (:= (v3) ((call make (. starlark Tuple) (call (. v0 Len))))) (range v4 _ v3 (block (:= (v5 v6) ((call DiffDepth (call (. v0 Index) v4) (call (. v1 Index) v4) v2))) (if _ (!= v6 nil) (block (return nil v6)) _) (if _ (== v5 nil) (block (= ((index v3 v4)) ((. starlark None)))) (block (= ((index v3 v4)) (v5)))))) (return v3 nil))"

def composeBody : String :=
  String.join [
    "(block (:= (v1) ((call make (array _ int) (+ (+ (. v0 m) (. v0 n)) 3)))) (= ((. v0 path)) ((call make (array _ int) (+ (+ (. v0 m) (. v0 n)) 3)))) (var (v2) (array _ point) ()) (for _ _ _ (block (= ((. v0 pointWithRoute)) ((slice (. v0 pointWithRoute) _ 0 _))) (range v3 _ v1 (block (= ((index v1 v3)) ((u- 1))) (= ((index (. v0 path) v3)) ((u- 1))))) (:= (v4) ((+ (. v0 m) 1))) (:= (v5) ((- (. v0 n) (. v0 m)))) (for (:= (v6) (0)) _ (++ v6) (block (for (:= (v7) ((u- v6))) (<= v7 (- v5 1)) (++ v7) (block (:= (v8 v9) ((call (. v0 snake) v7 (+ (index v1 (+ (- v7 1) v4)) 1) (index v1 (+ (+ v7 1) v4)) v4))) (if _ (!= v9 nil) (block (return nil v9)) _) (= ((index v1 (+ v7 v4))) (v8)))) (for (:= (v7) ((+ v5 v6))) (>= v7 (+ v5 1)) (-- v7) (block (:= (v8 v9) ((call (. v0 snake) v7 (+ (index v1 (+ (- v",
    "7 1) v4)) 1) (index v1 (+ (+ v7 1) v4)) v4))) (if _ (!= v9 nil) (block (return nil v9)) _) (= ((index v1 (+ v7 v4))) (v8)))) (:= (v8 v9) ((call (. v0 snake) v5 (+ (index v1 (+ (- v5 1) v4)) 1) (index v1 (+ (+ v5 1) v4)) v4))) (if _ (!= v9 nil) (block (return nil v9)) _) (= ((index v1 (+ v5 v4))) (v8)) (if _ (|| (>= (index v1 (+ v5 v4)) (. v0 n)) (> (call len (. v0 pointWithRoute)) (. v0 routeSize))) (block (break)) _))) (:= (v10) ((index (. v0 path) (+ v5 v4)))) (:= (v2) ((slice v2 _ 0 _))) (for _ (!= v10 (u- 1)) _ (block (= (v2) ((call append v2 (lit point (kv x (. (index (. v0 pointWithRoute) v10) x)) (kv y (. (index (. v0 pointWithRoute) v10) y)))))) (= (v10) ((. (index (. v0 pointWithRoute) v10) r))))) (if _ (call (. v0 recordSeq) v2) (block (break)) _))) (:= (v11) ((call make (. starl",
    "ark Tuple) 0 (call len (. v0 edits))))) (range _ v12 (. v0 edits) (block (:= (v13) ((u& (lit Edit (kv Sliceable (call copySliceable (. v12 values))) (kv kind (index editKinds (call int (. v12 kind)))))))) (if _ (== (call len v11) 0) (block (= (v11) ((call append v11 v13))) (continue)) _) (:= (v14) ((assert (index v11 (- (call len v11) 1)) (* Edit)))) (if _ (|| (!= (. v12 kind) editKindAdd) (!= (. v14 kind) EditKindDelete)) (block (= (v11) ((call append v11 v13))) (continue)) _) (:= (v15 v16) ((. v14 Sliceable) (. v13 Sliceable))) (if _ (< (call (. v15 Len)) (call (. v16 Len))) (block (:= (v17 v9) ((call diffReplacements v15 (call slice v16 0 (call (. v15 Len))) (. v0 depth)))) (if _ (!= v9 nil) (block (return nil v9)) _) (= ((. v14 Sliceable) (. v14 kind)) (v17 EditKindReplace)) (= ((. v13",
    " Sliceable)) ((call slice v16 (call (. v15 Len)) (call (. v16 Len))))) (= (v11) ((call append v11 v13)))) (if _ (> (call (. v15 Len)) (call (. v16 Len))) (block (:= (v17 v9) ((call diffReplacements (call slice v15 0 (call (. v16 Len))) v16 (. v0 depth)))) (if _ (!= v9 nil) (block (return nil v9)) _) (= ((. v14 Sliceable) (. v14 kind)) (v17 EditKindReplace)) (= ((. v13 Sliceable) (. v13 kind)) ((call slice v15 (call (. v16 Len)) (call (. v15 Len))) EditKindDelete)) (= (v11) ((call append v11 v13)))) (block (:= (v17 v9) ((call diffReplacements v15 v16 (. v0 depth)))) (if _ (!= v9 nil) (block (return nil v9)) _) (= ((. v14 Sliceable) (. v14 kind)) (v17 EditKindReplace))))))) (return v11 nil))"]

def snakeBody : String :=
  "(block (:= (v5) (0)) (if _ (> v2 v3) (block (= (v5) ((index (. v0 path) (+ (- v1 1) v4))))) (block (= (v5) ((index (. v0 path) (+ (+ v1 1) v4)))))) (:= (v6) ((call max v2 v3))) (:= (v7) ((- v6 v1))) (for _ (&& (< v7 (. v0 m)) (< v6 (. v0 n))) _ (block (:= (v8 v9) ((call (. starlark EqualDepth) (call (. (. v0 a) Index) v7) (call (. (. v0 b) Index) v6) 1000))) (if _ (!= v9 nil) (block (return 0 v9)) _) (if _ (u! v8) (block (break)) _) (++ v7) (++ v6))) (= ((index (. v0 path) (+ v1 v4))) ((call len (. v0 pointWithRoute)))) (= ((. v0 pointWithRoute)) ((call append (. v0 pointWithRoute) (lit pointWithRoute (kv x v7) (kv y v6) (kv r v5))))) (return v6 nil))"

def recordSeqBody : String :=
  String.join [
    "(block (:= (v2 v3) (1 1)) (:= (v4 v5) (0 0)) (for (:= (v6) ((- (call len v1) 1))) (>= v6 0) (-- v6) (block (for _ (|| (< v4 (. (index v1 v6) x)) (< v5 (. (index v1 v6) y))) _ (block (if _ (> (- (. (index v1 v6) y) (. (index v1 v6) x)) (- v5 v4)) (block (:= (v7) (editKindAdd)) (if _ (. v0 reverse) (block (= (v7) (editKindDelete))) _) (call (. v0 extend) v7 (. v0 b) v5) (++ v3) (++ v5)) (if _ (< (- (. (index v1 v6) y) (. (index v1 v6) x)) (- v5 v4)) (block (:= (v7) (editKindDelete)) (if _ (. v0 reverse) (block (= (v7) (editKindAdd))) _) (call (. v0 extend) v7 (. v0 a) v4) (++ v2) (++ v4)) (block (:= (v8 v9) (v4 (. v0 a))) (if _ (. v0 reverse) (block (= (v8 v9) (v5 (. v0 b)))) _) (call (. v0 extend) editKindCommon v9 v8) (++ v2) (++ v3) (++ v4) (++ v5)))))))) (if _ (&& (> v2 (. v0 m)) (> v3 (",
    ". v0 n))) (block) (block (= ((. v0 a)) ((call slice (. v0 a) (- v2 1) (call (. (. v0 a) Len))))) (= ((. v0 b)) ((call slice (. v0 b) (- v3 1) (call (. (. v0 b) Len))))) (= ((. v0 m)) ((call (. (. v0 a) Len)))) (= ((. v0 n)) ((call (. (. v0 b) Len)))) (= ((. v0 ox)) ((- v2 1))) (= ((. v0 oy)) ((- v3 1))) (return false))) (return true))"]

def extendBody : String :=
  "(block (if _ (!= (call len (. v0 edits)) 0) (block (:= (v4) ((u& (index (. v0 edits) (- (call len (. v0 edits)) 1))))) (if _ (&& (== (. v4 kind) v1) (== (+ (. v4 start) (call (. (. v4 values) Len))) v3)) (block (= ((. v4 values)) ((call slice v2 (. v4 start) (+ v3 1)))) (return)) _)) _) (= ((. v0 edits)) ((call append (. v0 edits) (lit edit (kv kind v1) (kv start v3) (kv values (assert (call (. v2 Slice) v3 (+ v3 1) 1) (. starlark Sliceable))))))))"

def maxBody : String :=
  "(block (if _ (< v0 v1) (block (return v1)) _) (return v0))"

def oldBody : String :=
  "(block (return (. v0 old)))"

def newBody : String :=
  "(block (return (. v0 new)))"

def defaultRouteSize : Nat :=
  2000000

def editKindOrder : List String :=
  ["editKindDelete", "editKindCommon", "editKindAdd"]

def editKinds : List String :=
  ["EditKindDelete", "EditKindCommon", "EditKindAdd"]

def snakeDepths : List Nat :=
  [1000]

def editKindStrings : List (String × String) :=
  [("EditKindDelete", "delete"), ("EditKindCommon", "common"), ("EditKindAdd", "add"), ("EditKindReplace", "replace")]

def functionEnvKeys : List String :=
  ["names", "constant values", "predeclared values", "universal values", "function values", "global values", "default parameter values", "free variables", "parameters", "code"]

def diffEnvDepths : List Nat :=
  [1000, 1000]

def diffEnvCalls : List (String × String) :=
  [("starlark.EqualDepth", "1000"), ("diff.DiffDepth", "1000")]

def reasonSkeleton : String :=
  String.join [
    "(block (if _ (== (. v0 oldEnv) (. starlark None)) (block (return false \"target has never been run\" nil nil)) _) (if _ (== (. v0 newData) (. v0 oldData)) (block (return true \"\" nil nil)) _) (if _ (|| (!= v2 nil) v1) (block (return false \"environment changed\" nil nil)) _) (if _ (u! v4) (block (return false \"\" nil (call (. fmt Errorf) \"old environment is not a dict (%v)\" (call (. v3 Type))))) _) (if _ (u! v4) (block (return false \"\" nil (call (. fmt Errorf) \"new environment is not a dict (%v)\" (call (. v5 Type))))) _) (if _ (!= v2 nil) (block (return false \"environment changed\" nil nil)) _) (:= (v7 v4) ((assert v6 (* (. diff MappingDiff))))) (var (v8) (array _ string) ()) (range _ v9 functionEnvKeys (block (if _ (call (. v7 Has) v9) (block (= (v8) ((call append v8 (call string v9))))) _))) (v",
    "ar (v10) string ()) (switch _ (call len v8) (case (0) (return false \"environment changed\" v6 nil)) (case (1) (= (v10) ((index v8 0)))) (case (2) (= (v10) ((+ (+ (index v8 0) \" and \") (index v8 1))))) (default (= (v10) ((+ (+ (call (. strings Join) (slice v8 _ (- (call len v8) 1) _) \", \") \", and \") (index v8 (- (call len v8) 1))))))) (return false (+ v10 \" changed\") v6 nil))"]

end Dawn.Expected.Diff

import Dawn.Extracted.Build
/-!
Tie 1 for the command layer of C13 (`cmd/dawn/root.go`, `cmd/dawn/build.go`). The engine's model takes the options of a
run as given (`Opts.dry`, `Opts.always`); the command layer decides what they are. These facts say that it hands the
flags the user typed to the engine, for `dawn build` and for the bare `dawn` alike, and that a dry run loads the project
the way a real build does:

* the bare command runs the build command's function (`RunE: buildCmd.RunE`), and that function reads the variable
  `buildOptions` (`work.run(label, buildOptions)`);
* the flags `-B` / `-n` of BOTH commands are bound to the fields of that same variable — a flag bound to any other
  variable would be parsed and ignored;
* the build command loads with `loadProject(args, false, false)`: never the index-only load (whose targets are always
  "up to date" and whose sources have no recorded sum), whatever the flags say.

Compared behaviourally by the stream `build.cli.judge` (the real commands in processes of their own).
-/
namespace Dawn.Ties.BuildCli
open Dawn

theorem root_runs_build_ok : Extracted.Build.cliRootRunE = "buildCmd.RunE" := by decide

theorem root_flags_ok : Extracted.Build.cliRootFlagVars =
    ["always=&buildOptions.Always", "dry-run=&buildOptions.DryRun", "dot=&buildDOT", "json=&buildJSON"] := by decide

theorem build_flags_ok : Extracted.Build.cliBuildFlagVars =
    ["always=&buildOptions.Always", "dry-run=&buildOptions.DryRun", "json=&buildJSON", "dot=&buildDOT"] := by decide

theorem build_load_args_ok : Extracted.Build.cliBuildLoadArgs = ["args", "false", "false"] := by decide

theorem build_run_args_ok : Extracted.Build.cliBuildRunArgs = ["label", "buildOptions"] := by decide

end Dawn.Ties.BuildCli

import Dawn.Model.Config
import Dawn.Extracted.Config
import Dawn.Ties.ConfigExpected
/-!
Tie 1 for C19: the facts regenerated from `internal/project/{config.go,version.go}`, from `go.mod` and from the
go-toml v2 sources the module requires are the ones the model is written against. Re-checked by the kernel on
every run.
-/
namespace Dawn.Ties.Config
open Dawn

def nats (b : List UInt8) : List Nat := b.map UInt8.toNat

theorem extraction_complete : Extracted.Config.extractionErrors = [] := by decide

/-- the `print` formats of `WriteConfigFile`, in source order: `""` (the three emptiness tests), `name = %v\n`,
`version = %v\n`, `ignore = %v\n`, `[requirements]\n`, `""` (the empty-name test of `mustQuote`),
`%v = {path = %v, version = %v}\n` -/
theorem write_formats_ok : Extracted.Config.writeStrings =
    [[], nats Config.tName ++ [37, 118, 10], [], nats Config.tVersion ++ [37, 118, 10],
     nats Config.tIgnore ++ [37, 118, 10], nats Config.tHeader ++ [10], [],
     [37, 118] ++ nats Config.tReqOpen ++ [37, 118] ++ nats Config.tReqMid ++ [37, 118] ++ nats Config.tReqClose ++ [10]] := by
  decide

/-- `isPlainRune`: `A`–`Z`, `a`–`z`, `0`–`9`, `_`, `-` — the bounds `isPlainByte` uses -/
theorem plain_rune_ok : Extracted.Config.isPlainRuneChars = [65, 90, 97, 122, 48, 57, 95, 45] ∧
    (∀ b : UInt8, Config.isPlainByte b =
      ((65 ≤ b ∧ b ≤ 90) ∨ (97 ≤ b ∧ b ≤ 122) ∨ (48 ≤ b ∧ b ≤ 57) ∨ b = 95 ∨ b = 45 : Bool)) :=
  ⟨by decide, fun _ => rfl⟩

/-- the TOML keys of the configuration (struct tags) are the ones `parseSub` recognises -/
theorem struct_tags_ok : Extracted.Config.structTags =
    ["Path toml:\"path,inline\"", "Version toml:\"version,inline\"", "Name toml:\"name,omitempty\"",
     "Version toml:\"version,omitempty\"", "Ignore toml:\"ignore,omitempty\"",
     "Requirements toml:\"requirements,omitempty\""] := by decide

/-- `SplitPathVersion` looks for `@` up to the last `/`; `JoinPathVersion` drops `""`, `v0`, `v1` and joins with `@` -/
theorem path_version_lits_ok : Extracted.Config.splitPathVersionChars = [47, 64] ∧
    Extracted.Config.joinPathVersionStrings = [[], [118, 48], [118, 49], [37, 118, 64, 37, 118]] := by decide

/-- the encoder modelled is the one the module requires -/
theorem go_toml_version_ok : Extracted.Config.goTomlVersion = "v2.2.0" ∧ Extracted.Config.xModVersion = "v0.17.0" := by
  decide

/-- go-toml's `characters.invalidAsciiTable` is `invalidAscii` -/
theorem invalid_ascii_ok : Extracted.Config.invalidAsciiTable =
    (List.range 256).filter (fun n => Config.invalidAscii (UInt8.ofNat n)) := by decide

/-- `needsQuoting`: `'`, CR, LF (and `InvalidAscii`) -/
theorem needs_quoting_lits_ok : Extracted.Config.tomlNeedsQuotingChars = [39, 13, 10] := by decide

/-- the escapes of `encodeQuotedString`, in source order -/
theorem quoted_string_lits_ok : Extracted.Config.tomlEncodeQuotedStringChars = [10, 92, 34, 8, 12, 10, 13, 9] ∧
    Extracted.Config.tomlEncodeQuotedStringStrings =
      [[34], [34, 34, 34], [48, 49, 50, 51, 52, 53, 54, 55, 56, 57, 65, 66, 67, 68, 69, 70],
       [92, 92], [92, 34], [92, 98], [92, 102], [92, 110], [92, 114], [92, 116], [92, 117, 48, 48]] ∧
    Extracted.Config.tomlEncodeQuotedStringInts = [0, 8, 10, 31, 127, 4, 15] := by decide

/-- `encodeSlice` / `encodeSliceAsArray`: `[]`, `[`, `, `, `]` -/
theorem array_lits_ok : Extracted.Config.tomlEncodeSliceStrings = [[91, 93]] ∧
    Extracted.Config.tomlEncodeSliceAsArrayStrings = [nats Config.commaSpace, [44, 10]] ∧
    Extracted.Config.tomlEncodeSliceAsArrayChars = [91, 10, 10, 93] := by decide

/-- `LoadConfigFile` hands `LoadConfigBytes` the whole file: its argument is bound once, by `os.ReadFile` (no bounded
or partial read between the file and `parseSub`'s input), and the rest of the function is unchanged -/
theorem load_file_reads_whole_file : Extracted.Config.loadConfigFileReadCalls = ["os.ReadFile"] ∧
    Extracted.Config.loadConfigFileBody = Expected.Config.loadConfigFileBody := ⟨by decide, rfl⟩

/-- `dawn get` and `dawn tidy` are `Config.rewrite`: between `LoadConfigFile` and `WriteConfigFile` the only thing
assigned is the field `Requirements` of the loaded configuration, that variable is never replaced as a whole, and
it is what `WriteConfigFile` receives -/
theorem rewrite_shape_ok :
    Extracted.Config.getAssignedFields = ["Requirements"] ∧ Extracted.Config.getReassignsConfig = false ∧
    Extracted.Config.getWritesLoadedConfig = true ∧
    Extracted.Config.tidyAssignedFields = ["Requirements"] ∧ Extracted.Config.tidyReassignsConfig = false ∧
    Extracted.Config.tidyWritesLoadedConfig = true := by decide

/-- the two `RunE` bodies (flag handling, resolver construction, error paths): unchanged -/
theorem command_bodies_ok :
    Extracted.Config.getRunBody = Expected.Config.getRunBody ∧
    Extracted.Config.tidyRunBody = Expected.Config.tidyRunBody := ⟨rfl, rfl⟩

/-- everything else about the modelled functions: unchanged since the model was written -/
theorem bodies_ok :
    Extracted.Config.loadBody = Expected.Config.loadBody ∧
    Extracted.Config.writeBody = Expected.Config.writeBody ∧
    Extracted.Config.encodeValueBody = Expected.Config.encodeValueBody ∧
    Extracted.Config.isPlainRuneBody = Expected.Config.isPlainRuneBody ∧
    Extracted.Config.cleanPathBody = Expected.Config.cleanPathBody ∧
    Extracted.Config.splitPathVersionBody = Expected.Config.splitPathVersionBody ∧
    Extracted.Config.joinPathVersionBody = Expected.Config.joinPathVersionBody ∧
    Extracted.Config.tomlEncodeStringBody = Expected.Config.tomlEncodeStringBody ∧
    Extracted.Config.tomlNeedsQuotingBody = Expected.Config.tomlNeedsQuotingBody ∧
    Extracted.Config.tomlEncodeLiteralStringBody = Expected.Config.tomlEncodeLiteralStringBody ∧
    Extracted.Config.tomlEncodeQuotedStringBody = Expected.Config.tomlEncodeQuotedStringBody ∧
    Extracted.Config.tomlEncodeSliceBody = Expected.Config.tomlEncodeSliceBody ∧
    Extracted.Config.tomlEncodeSliceAsArrayBody = Expected.Config.tomlEncodeSliceAsArrayBody :=
  ⟨rfl, rfl, rfl, rfl, rfl, rfl, rfl, rfl, rfl, rfl, rfl, rfl, rfl⟩

end Dawn.Ties.Config

/- Snapshot of Dawn/Extracted/Runner.lean taken by bin/accept-extracted: the facts the models and
   theorems of this area were written against. Compared with the regenerated file in Dawn/Ties/Runner.lean. -/
namespace Dawn.Expected.Runner

/-- facts the extractor could not find (the code no longer has the shape the model was written against) -/
def extractionErrors : List String := []

def skel_newTarget : String :=
  "(block (:= (v1) ((u& (lit target (kv label v0))))) (= ((. v1 c)) ((call (. sync NewCond) (u& (. v1 m))))) (return v1))"

def skel_target_start : String :=
  "(block (call (. (. v0 m) Lock)) (if _ (!= (. v0 status) statusIdle) (block (call verifPoint \"start.skip\" v0) (call (. (. v0 m) Unlock)) (return)) _) (= ((. v0 status)) (statusRunning)) (call (. (. v1 running) Add) 1) (call verifPoint \"start.spawn\" v0) (call (. (. v0 m) Unlock)) (go (call (. v0 run) v1)))"

def skel_target_wait : String :=
  "(block (call (. (. v0 m) Lock)) (defer (call (. (. v0 m) Unlock))) (if _ (== (. v0 status) statusRunning) (block (for _ (== (. v0 status) statusRunning) _ (block (call verifPoint \"wait.block\" v0) (call (. (. v0 c) Wait)) (call verifPoint \"wait.woke\" v0)))) _) (call verifPoint \"wait.done\" v0) (return (. v0 err)))"

def skel_target_run : String :=
  String.join [
    "(block (:= (v2) ((func (block (call verifPoint \"status.broadcast\" v0) (call (. (. v0 m) Unlock)) (call (. (. v0 c) Broadcast)))))) (call verifPoint \"run.begin\" v0) (defer (call verifPoint \"run.end\" v0)) (defer (call (. (. v1 running) Done))) (defer (call verifPoint \"run.leave\" v0)) (call (. (. v1 gate) enter)) (defer (call (. (. v1 gate) exit))) (defer (call verifPoint \"run.exit\" v0)) (:= (v3 v4) ((call (. (. v1 targetLoader) LoadTarget) (. v0 label)))) (if _ (!= v4 nil) (block (call verifPoint \"status.lock\" v0) (call (. (. v0 m) Lock)) (defer (call v2)) (= ((. v0 status) (. v0 err)) (statusFailed v4)) (call verifPoint \"status.set\" v0) (return)) _) (= ((. v0 target)) (v3)) (:= (v5) (statusSucceeded)) (if (= (v4) ((call (. (. v0 target) Evaluate) (u& (lit engine (kv root v0) (kv runner v1))",
    ")))) (!= v4 nil) (block (= (v5) (statusFailed))) _) (call verifPoint \"status.lock\" v0) (call (. (. v0 m) Lock)) (defer (call v2)) (= ((. v0 status) (. v0 err)) (v5 v4)) (call verifPoint \"status.set\" v0))"]

def skel_engine_check : String :=
  "(block (if _ (== v1 (. v0 root)) (block (call verifPoint \"walk.self\" v1) (return (call CyclicDependencyError (call (. fmt Sprintf) \"cyclic dependency on %v\" (. v1 label))))) _) (call verifPoint \"walk.read\" v1) (if (:= (v2) ((call (. (. v1 waiting) Load)))) (!= v2 nil) (block (call verifPoint \"walk.saw\" v1) (return (call (. v0 checkDeps) (* v2)))) _) (call verifPoint \"walk.nil\" v1) (return nil))"

def skel_engine_checkDeps : String :=
  "(block (range _ v2 v1 (block (if (:= (v3) ((call (. v0 check) v2))) (!= v3 nil) (block (return v3)) _))) (return nil))"

def skel_engine_EvaluateTargets : String :=
  String.join [
    "(block (call verifPoint \"eval.exit\" (. v0 root)) (call (. (. (. v0 runner) gate) exit)) (defer (call (. (. (. v0 runner) gate) enter))) (defer (call verifPoint \"eval.reenter\" (. v0 root))) (:= (v2) ((call make (array _ (* target)) (call len v1)))) (range v3 v4 v1 (block (call verifPoint \"eval.start\" v4) (= ((index v2 v3)) ((call (. (. v0 runner) getTarget) v4))) (call (. (index v2 v3) start) (. v0 runner)))) (call verifPoint \"eval.publish\" (. v0 root)) (call (. (. (. v0 root) waiting) Swap) (u& v2)) (call verifPoint \"eval.published\" (. v0 root)) (defer (call verifPoint \"eval.unpublished\" (. v0 root))) (defer (call (. (. (. v0 root) waiting) Swap) nil)) (defer (call verifPoint \"eval.unpublish\" (. v0 root))) (if (:= (v6) ((call (. v0 checkDeps) v2))) (!= v6 nil) (block (range v3 _ v5 (block ",
    "(= ((. (index v5 v3) Error)) (v6)))) (return v5)) _) (call verifPoint \"eval.walked\" (. v0 root)) (range v3 v7 v2 (block (call verifPoint \"eval.wait\" v7) (= ((. (index v5 v3) Error)) ((call (. v7 wait)))) (= ((. (index v5 v3) Target)) ((. v7 target))))) (return v5))"]

def skel_newGate : String :=
  "(block (:= (v1) ((u& (lit gate (kv capacity v0))))) (= ((. v1 cond)) ((call (. sync NewCond) (u& (. v1 m))))) (return v1))"

def skel_gate_enter : String :=
  "(block (call (. (. v0 m) Lock)) (defer (call (. (. v0 m) Unlock))) (for _ (== (. v0 capacity) 0) _ (block (call verifPoint \"gate.block\" v0) (call (. (. v0 cond) Wait)) (call verifPoint \"gate.woke\" v0))) (-- (. v0 capacity)) (call verifPoint \"gate.entered\" v0))"

def skel_gate_exit : String :=
  "(block (call (. (. v0 m) Lock)) (defer (call (. (. v0 m) Unlock))) (++ (. v0 capacity)) (call verifPoint \"gate.exited\" v0) (call (. (. v0 cond) Signal)))"

def skel_runner_getTarget : String :=
  "(block (:= (v2 _) ((call (. (. v0 targetMap) LoadOrStore) v1 (call newTarget v1)))) (return (assert v2 (* target))))"

def skel_Run : String :=
  "(block (:= (v2) ((lit runner (kv targetLoader v0) (kv gate (call newGate (call (. runtime NumCPU))))))) (call verifPoint \"run.init\" (u& v2)) (:= (v3) ((call (. v2 getTarget) v1))) (call verifPoint \"main.start\" v3) (call (. v3 start) (u& v2)) (call verifPoint \"main.wait\" v3) (:= (v4) ((call (. v3 wait)))) (call verifPoint \"main.waitall\" (u& v2)) (call (. (. v2 running) Wait)) (call verifPoint \"main.waitedall\" (u& v2)) (return v4))"

def otherFuncs : List String :=
  []

def evalOrder : List String :=
  ["gate.exit", "defer(gate.enter)", "range(getTarget,start)", "Swap", "defer(Swap(nil))", "if(checkDeps)", "range(wait)"]

def runOrder : List String :=
  ["func(Unlock,Broadcast)", "defer(running.Done)", "gate.enter", "defer(gate.exit)", "LoadTarget", "if(Lock,unlock,status=)", "if(Evaluate)", "Lock", "defer(unlock)", "status="]

def mainOrder : List String :=
  ["getTarget", "start", "wait", "running.Wait"]

def waitLoops : List String :=
  ["target.wait:c:for:status==statusRunning", "gate.enter:cond:for:capacity==0", "Run:running:none:"]

def gateArg : String :=
  "runtime.NumCPU()"

def statusConsts : List String :=
  ["statusIdle=iota", "statusRunning", "statusSucceeded", "statusFailed"]

def clientCalls : List String :=
  ["target.go:runTarget.Evaluate:EvaluateTargets:calls=1:inLoop=false:variadic=true", "project.go:Project.Run:Run:calls=1:inLoop=false:variadic=false"]

def skel_builtin_target_deps : String :=
  "(block (for _ (call (. it Next) (u& v1)) _ (block (var (v0) (* (. label Label)) ()) (typeswitch _ _ (case ((. starlark String)) (:= (v2 v3) ((call (. label Parse) (call string v1)))) (= (v2 v3) ((call (. v2 RelativeTo) (. (. m label) Package)))) (= (v0) (v2))) (case (Target) (= (v0) ((call (. v1 Label))))) (default)) (= (dependencies) ((call append dependencies (call (. v0 String))))))))"

def skel_Project_Run : String :=
  "(block (:= (v3) ((call (. runner Run) v0 (call (. v1 String))))))"

def runnerEntryPoints : List String :=
  ["Run"]

def skel_client_Evaluate : String :=
  "(block (range v0 v1 (call (. engine EvaluateTargets) deps ...) (block (if _ (!= (. v1 Error) nil) (block (return (call (. fmt Errorf) \"dependency %v failed\" (index deps v0)))) _))))"

end Dawn.Expected.Runner

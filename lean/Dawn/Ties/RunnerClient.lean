import Dawn.Model.Runner
import Dawn.Extracted.Runner
import Dawn.Ties.RunnerExpected
/-! Tie 1, the client protocol the model assumes (C04, C05): `runTarget.Evaluate` (target.go) calls
`EvaluateTargets` exactly once, outside any loop, with its whole dependency list, and fails when any result
carries an error; `Project.Run` (project.go) calls `runner.Run` exactly once. -/
namespace Dawn.Ties.Runner
open Dawn

theorem client_calls_once : Extracted.Runner.clientCalls =
    ["target.go:runTarget.Evaluate:EvaluateTargets:calls=1:inLoop=false:variadic=true",
     "project.go:Project.Run:Run:calls=1:inLoop=false:variadic=false"] := by decide

/-- `localOutcome`: any result error fails the target before its body runs -/
theorem client_fails_on_result_error :
    Extracted.Runner.skel_client_Evaluate = Expected.Runner.skel_client_Evaluate := rfl

end Dawn.Ties.Runner

import Dawn.Model.Runner
import Dawn.Extracted.Runner
import Dawn.Ties.RunnerExpected
/-! Tie 1, the client protocol the model assumes (C04, C05): `runTarget.Evaluate` (target.go) calls
`EvaluateTargets` exactly once, outside any loop, with its whole dependency list, and fails when any result
carries an error; `Project.Run` (project.go) calls `runner.Run` exactly once. -/
namespace Dawn.Ties.Runner
open Dawn

theorem client_calls_once : Extracted.Runner.clientCalls =
    ["target.go:runTarget.Evaluate:EvaluateTargets:calls=1:inLoop=false:variadic=true",
     "project.go:Project.Run:Run:calls=1:inLoop=false:variadic=false"] := by decide

/-- `localOutcome`: any result error fails the target before its body runs -/
theorem client_fails_on_result_error :
    Extracted.Runner.skel_client_Evaluate = Expected.Runner.skel_client_Evaluate := rfl

/-- one runner record per PROJECT target: `builtin_target` records every dependency — string or target object,
    relative or absolute — as the `String()` of its resolved label, the same canonical key `Project.LoadTarget` and
    `proj.targets` use (the runner keys its registry by the raw string it is given) -/
theorem deps_recorded_canonically :
    Extracted.Runner.skel_builtin_target_deps = Expected.Runner.skel_builtin_target_deps := rfl

end Dawn.Ties.Runner

/- Snapshot of Dawn/Extracted/Env.lean taken by bin/accept-extracted: the facts the models and
   theorems of this area were written against. Compared with the regenerated file in Dawn/Ties/Env.lean. -/
namespace Dawn.Expected.Env

/-- facts the extractor could not find (the code no longer has the shape the model was written against) -/
def extractionErrors : List String := []

def envKeys : List String :=
  ["names", "constant values", "predeclared values", "universal values", "function values", "global values", "default parameter values", "free variables", "parameters", "code"]

def envPicklerBody : String :=
  String.join [
    "(block (typeswitch _ (:= (v0) ((assert v0 _))) (case ((* function)) (return \"dawn\" \"Target\" (lit (. starlark Tuple) (call (. starlark String) (call (. (. v0 label) String)))) nil)) (case ((* (. starlark Builtin))) (:= (v5) ((call (. v0 Receiver)))) (if _ (== v5 nil) (block (= (v5) ((. starlark None)))) _) (return \"dawn\" \"Builtin\" (lit (. starlark Tuple) (call (. starlark String) (call (. v0 Name))) v5) nil)) (case ((* (. starlark FunctionCode))) (:= (v1 v6) ((call (. v0 ModuleEnv)))) (:= (v7) ((call make (. starlark Tuple) (call (. v0 NumParams))))) (range v8 _ v7 (block (:= (v2 _) ((call (. v0 Param) v8))) (= ((index v7 v8)) ((call (. starlark String) v2))))) (:= (v9) ((lit (. starlark Tuple) v7 (call (. starlark MakeInt) (call (. v0 NumKwonlyParams))) (call (. starlark Bool) (call (. v0 ",
    "HasVarargs))) (call (. starlark Bool) (call (. v0 HasKwargs)))))) (return \"dawn\" \"FunctionCode\" (lit (. starlark Tuple) v1 v6 (call (. starlark Bytes) (call (. v0 Bytecode))) v9) nil)) (case ((* (. starlark Function))) (:= (v10 v11) ((call (. v0 Env)))) (return \"dawn\" \"Function\" (lit (. starlark Tuple) v10 v11 (call (. v0 Code))) nil)) (default (if _ (== (call (. v0 Type)) \"mandatory\") (block (return \"dawn\" \"Mandatory\" (lit (. starlark Tuple)) nil)) _) (return \"\" \"\" nil (. pickle ErrCannotPickle)))))"]

def picklerCases : List String :=
  ["*function -> dawn.Target/1", "*starlark.Builtin -> dawn.Builtin/2", "*starlark.FunctionCode -> dawn.FunctionCode/4", "*starlark.Function -> dawn.Function/3", "default -> dawn.Mandatory/0"]

def newEnvPicklerBody : String :=
  "(block (:= (v0) ((lit (map (. starlark Value) int)))) (return (func (block (typeswitch _ (assert v1 _) (case ((* (. starlark Builtin)) (* (. starlark FunctionCode)) (* (. starlark Function))) (if (:= (v6 v7) ((index v0 v1))) v7 (block (:= (v3) ((call (. (assert v1 (interface)) Name)))) (return \"dawn\" \"Recursive\" (lit (. starlark Tuple) (call (. starlark String) v3) (call (. starlark MakeInt) v6)) nil)) _) (= ((index v0 v1)) ((call len v0))))) (return (call envPickler v1))))))"

def recursiveCases : List String :=
  ["*starlark.Builtin|*starlark.Function|*starlark.FunctionCode -> dawn.Recursive/2"]

def diffEnvBody : String :=
  String.join [
    "(block (if _ (== (. v0 oldEnv) (. starlark None)) (block (return false \"target has never been run\" nil nil)) _) (if _ (== (. v0 newData) (. v0 oldData)) (block (return true \"\" nil nil)) _) (:= (v1 v2) ((call (. starlark EqualDepth) (. v0 oldEnv) (. v0 newEnv) 1000))) (if _ (|| (!= v2 nil) v1) (block (return false \"environment changed\" nil nil)) _) (:= (v3 v4) ((assert (. v0 oldEnv) (* (. starlark Dict))))) (if _ (u! v4) (block (return false \"\" nil (call (. fmt Errorf) \"old environment is not a dict (%v)\" (call (. v3 Type))))) _) (:= (v5 v4) ((assert (. v0 newEnv) (* (. starlark Dict))))) (if _ (u! v4) (block (return false \"\" nil (call (. fmt Errorf) \"new environment is not a dict (%v)\" (call (. v5 Type))))) _) (:= (v6 v2) ((call (. diff DiffDepth) (. v0 oldEnv) (. v0 newEnv) 1000))) (if _ ",
    "(!= v2 nil) (block (return false \"environment changed\" nil nil)) _) (:= (v7 v4) ((assert v6 (* (. diff MappingDiff))))) (if _ (u! v4) (block (call panic (call (. fmt Errorf) \"expected a diff in unequal environments\"))) _) (var (v8) (array _ string) ()) (range _ v9 functionEnvKeys (block (if _ (call (. v7 Has) v9) (block (= (v8) ((call append v8 (call string v9))))) _))) (var (v10) string ()) (switch _ (call len v8) (case (0) (return false \"environment changed\" v6 nil)) (case (1) (= (v10) ((index v8 0)))) (case (2) (= (v10) ((+ (+ (index v8 0) \" and \") (index v8 1))))) (default (= (v10) ((+ (+ (call (. strings Join) (slice v8 _ (- (call len v8) 1) _) \", \") \", and \") (index v8 (- (call len v8) 1))))))) (return false (+ v10 \" changed\") v6 nil))"]

def reasonHandlesNoKnownPart : Bool :=
  true

def unpicklerKeys : List String :=
  ["names", "constant values", "predeclared values", "universal values", "function values", "global values", "code", "parameters", "default parameter values", "free variables"]

def compareLimits : List Nat :=
  [1000, 1000]

def equalEncodingsFirst : Bool :=
  true

def equalDecodingsUpToDate : Bool :=
  false

def functionEnvBody : String :=
  "(block (var (v1) (. bytes Buffer) ()) (if (:= (v2) ((call (. (call (. pickle NewEncoder) (u& v1) (call newEnvPickler)) Encode) v0))) (!= v2 nil) (block (return nil \"\" v2)) _) (:= (v3) ((call (. (. base64 StdEncoding) EncodeToString) (call (. v1 Bytes))))) (:= (v4 v2) ((call (. (call (. pickle NewDecoder) (u& v1) (call (. pickle UnpicklerFunc) envUnpickler)) Decode)))) (return v4 v3 v2))"

def upToDateBody : String :=
  "(block (:= (v1 v2 v3) ((call functionEnv (. v0 function)))) (if _ (!= v3 nil) (block (return false \"\" nil (call (. fmt Errorf) \"computing function environment: %w\" v3))) _) (= ((. v0 newEnv) (. v0 newData)) (v1 v2)) (if _ (. v0 always) (block (= ((. (. v0 targetInfo) Rerun)) (true)) (return true \"\" nil nil)) _) (:= (v4 v5 v6 v3) ((call (. v0 diffEnv)))) (if _ (|| (!= v3 nil) (u! v4)) (block (return false v5 v6 v3)) _) (range _ v7 (. v0 gens) (block (if (= (_ v3) ((call (. os Stat) v7))) (!= v3 nil) (block (if _ (call (. os IsNotExist) v3) (block (:= (v5) ((call (. fmt Sprintf) \"generated file %v does not exist\" v7))) (return false v5 nil nil)) _) (return false \"\" nil (call (. fmt Errorf) \"checking generated files: %w\" v3))) _))) (return true \"\" nil nil))"

def envUnpicklerBody : String :=
  String.join [
    "(block (if _ (!= v0 \"dawn\") (block (return nil (call (. fmt Errorf) \"cannot unpickle value of type %s.%s\" v0 v1))) _) (switch _ v1 (case (\"Target\") (if _ (!= (call len v2) 1) (block (return nil (call (. fmt Errorf) \"expcted 1 arg, got %v\" (call len v2)))) _) (return (index v2 0) nil)) (case (\"Builtin\") (if _ (&& (!= (call len v2) 0) (!= (call len v2) 2)) (block (return nil (call (. fmt Errorf) \"expected 0 or 2 args, got %v\" (call len v2)))) _) (return v2 nil)) (case (\"Recursive\") (if _ (!= (call len v2) 2) (block (return nil (call (. fmt Errorf) \"expected 2 args, got %v\" (call len v2)))) _) (return v2 nil)) (case (\"Mandatory\") (if _ (!= (call len v2) 0) (block (return nil (call (. fmt Errorf) \"expected 0 args, got %v\" (call len v2)))) _) (return (call (. starlark String) \"mandatory paramet",
    "er\") nil)) (case (\"FunctionCode\") (if _ (&& (!= (call len v2) 3) (!= (call len v2) 4)) (block (return nil (call (. fmt Errorf) \"expected 3 or 4 args, got %v\" (call len v2)))) _) (:= (v0 v3 v4) ((assert (index v2 0) (. starlark Tuple)) (index v2 1) (index v2 2))) (:= (v5 v6 v7 v8 v9) ((index v0 0) (index v0 1) (index v0 2) (index v0 3) (index v0 4))) (:= (v10) ((call (. starlark NewDict) 7))) (call (. v10 SetKey) (call (. starlark String) \"names\") v5) (call (. v10 SetKey) (call (. starlark String) \"constant values\") v6) (call (. v10 SetKey) (call (. starlark String) \"predeclared values\") (call makeDictFromAssociationList v7)) (call (. v10 SetKey) (call (. starlark String) \"universal values\") (call makeDictFromAssociationList v8)) (call (. v10 SetKey) (call (. starlark String) \"function valu",
    "es\") v9) (call (. v10 SetKey) (call (. starlark String) \"global values\") (call makeDictFromAssociationList v3)) (call (. v10 SetKey) (call (. starlark String) \"code\") v4) (if _ (== (call len v2) 4) (block (call (. v10 SetKey) (call (. starlark String) \"parameters\") (index v2 3))) _) (return v10 nil)) (case (\"Function\") (if _ (!= (call len v2) 3) (block (return nil (call (. fmt Errorf) \"expcted 3 args, got %v\" (call len v2)))) _) (:= (v11 v12 v13) ((index v2 0) (index v2 1) (assert (index v2 2) (* (. starlark Dict))))) (call (. v13 SetKey) (call (. starlark String) \"default parameter values\") (call makeDictFromAssociationList v11)) (call (. v13 SetKey) (call (. starlark String) \"free variables\") (call makeDictFromAssociationList v12)) (return v13 nil)) (default (return nil (call (. fmt Erro",
    "rf) \"cannot unpickle value of type %s.%s\" v0 v1)))))"]

def makeDictFromAssociationListBody : String :=
  "(block (:= (v1 v2) ((assert v0 (. starlark Tuple)))) (if _ (u! v2) (block (return (. starlark None))) _) (:= (v3) ((call (. starlark NewDict) (call len v1)))) (range _ v4 v1 (block (:= (v5) ((assert v4 (. starlark Tuple)))) (call (. v3 SetKey) (assert (index v5 0) (. starlark String)) (index v5 1)))) (return v3))"

def reasonPrecedence : List String :=
  ["!upToDate => keep", "proj.always => set always", "!depsUpToDate => set out-of-date dependencies: %v", "info.Rerun => set failed during last run"]

def encodeSkeleton : List String :=
  [
   "func Encoder.encode",
   "lookup",
   "case starlark.NoneType",
   "W opNONE",
   "case starlark.Bool",
   "W opNEWTRUE",
   "W opNEWFALSE",
   "case starlark.Int",
   "W opINT",
   "W '\\n'",
   "case i64 >= 0 && i64 < 1<<8",
   "case i64 >= 0 && i64 < 1<<16",
   "case default",
   "case starlark.Float",
   "case starlark.String",
   "S opSHORT_BINUNICODE opBINUNICODE",
   "case starlark.Bytes",
   "S opSHORT_BINBYTES opBINBYTES",
   "case starlark.Tuple",
   "case 0",
   "W opEMPTY_TUPLE",
   "case 1",
   "E x[0]",
   "W opTUPLE1",
   "case 2",
   "E x[0]",
   "E x[1]",
   "W opTUPLE2",
   "case 3",
   "E x[0]",
   "E x[1]",
   "E x[2]",
   "W opTUPLE3",
   "case default",
   "W opMARK",
   "E elem",
   "W opTUPLE",
   "M",
   "case *starlark.Set",
   "W opEMPTY_SET",
   "M",
   "W opMARK",
   "E elem",
   "W opADDITEMS",
   "case default",
   "X",
   "func Encoder.encodeComplex",
   "P",
   "case nil",
   "S opSHORT_BINUNICODE opBINUNICODE",
   "S opSHORT_BINUNICODE opBINUNICODE",
   "W opSTACK_GLOBAL",
   "E args",
   "W opNEWOBJ",
   "M",
   "case ErrCannotPickle",
   "case default",
   "case starlark.IterableMapping",
   "W opEMPTY_DICT",
   "M",
   "W opMARK",
   "E kvp[0]",
   "E kvp[1]",
   "W opSETITEMS",
   "case starlark.Sequence",
   "W opEMPTY_LIST",
   "M",
   "case 0",
   "case 1",
   "E el",
   "W opAPPEND",
   "case default",
   "W opMARK",
   "E el",
   "W opAPPENDS",
   "case starlark.HasAttrs",
   "W opEMPTY_DICT",
   "M",
   "W opMARK",
   "E starlark.String(attr)",
   "E v",
   "W opSETITEMS",
   "case default"]

def batchSizes : List Nat :=
  [1000, 1000, 1000, 1000]

def cfgBuiltinIdentity : Bool :=
  true

def cfgSignature : Bool :=
  true

def cfgMandatory : Bool :=
  true

def cfgFixed : Bool :=
  true

def cfgReencode : Bool :=
  false

def cfgMemoCounter : Bool :=
  true

def opcodes : List Nat :=
  [40, 46, 73, 74, 75, 77, 78, 88, 97, 125, 101, 104, 106, 93, 116, 41, 117, 71, 129, 133, 134, 135, 136, 137, 66, 67, 140, 143, 144, 147, 148]

end Dawn.Expected.Env

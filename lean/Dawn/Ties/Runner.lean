import Dawn.Model.Runner
import Dawn.Extracted.Runner
import Dawn.Ties.RunnerExpected
/-!
Tie 1 for C04, C05, C09: the facts regenerated from `runner/runner.go` on this run are the ones the model
`Dawn/Model/Runner.lean` is written against. Each theorem is re-checked by the kernel on every run.

The ties are split over five modules so that a change to one mechanism leaves the obligations about the
others discharged: this one (completeness of the extraction), `RunnerGate` (the gate and where it is entered
and left: C09, C05), `RunnerTarget` (status, start, wait, run, Run: C04, C05), `RunnerEval`
(`EvaluateTargets` and the cycle walk: C04, C05) and `RunnerClient` (how target.go / project.go use the runner). The order facts the proofs rely on are stated on their own
(a change that breaks one names the argument it invalidates); the rest of every function — its
synchronisation skeleton, hook call sites included — is compared with the snapshot taken when the model was
written (`RunnerExpected.lean`, `bin/accept-extracted Runner`).
-/
namespace Dawn.Ties.Runner
open Dawn

theorem extraction_complete : Extracted.Runner.extractionErrors = [] := by decide

/-- no function with synchronisation of its own has been added to `runner.go` -/
theorem no_other_funcs : Extracted.Runner.otherFuncs = [] := by decide

end Dawn.Ties.Runner

import Dawn.Model.Runner
import Dawn.Extracted.Runner
import Dawn.Ties.RunnerExpected
/-!
Tie 1 for C04, C05, C09: the facts regenerated from `runner/runner.go` on this run are the ones the model
`Dawn/Model/Runner.lean` is written against. Each theorem is re-checked by the kernel on every run.

The order facts the proofs rely on are stated on their own (a change that breaks one of them names the
argument it invalidates), the rest of every function — its synchronisation skeleton, hook call sites
included — is compared with the snapshot taken when the model was written.
-/
namespace Dawn.Ties.Runner
open Dawn

theorem extraction_complete : Extracted.Runner.extractionErrors = [] := by decide

/-- no function with synchronisation of its own has been added to `runner.go` -/
theorem no_other_funcs : Extracted.Runner.otherFuncs = [] := by decide

/-- `EvaluateTargets` performs its operations in the order of the model's program counters -/
theorem eval_order_ok : Extracted.Runner.evalOrder = Runner.evalOrder := by decide

/-- deadlock freedom (the walk invariant) needs: the waiting set is published *before* the cycle walk -/
theorem publish_before_walk :
    Extracted.Runner.evalOrder.idxOf "Swap" < Extracted.Runner.evalOrder.idxOf "if(checkDeps)" ∧
    Extracted.Runner.evalOrder.idxOf "if(checkDeps)" < Extracted.Runner.evalOrder.idxOf "range(wait)" ∧
    "Swap" ∈ Extracted.Runner.evalOrder ∧ "if(checkDeps)" ∈ Extracted.Runner.evalOrder ∧
    "range(wait)" ∈ Extracted.Runner.evalOrder := by decide

/-- C09 (a waiting target holds no slot) and deadlock freedom with limit one need: the slot is released before
    the dependency wait and re-acquired (deferred) after it -/
theorem exit_before_wait :
    Extracted.Runner.evalOrder.idxOf "gate.exit" < Extracted.Runner.evalOrder.idxOf "range(wait)" ∧
    Extracted.Runner.evalOrder.idxOf "gate.exit" < Extracted.Runner.evalOrder.idxOf "range(getTarget,start)" ∧
    "gate.exit" ∈ Extracted.Runner.evalOrder ∧ "defer(gate.enter)" ∈ Extracted.Runner.evalOrder := by decide

/-- every dependency is started before the waiting set is published (so a waited-for target is never idle) -/
theorem start_before_publish :
    Extracted.Runner.evalOrder.idxOf "range(getTarget,start)" < Extracted.Runner.evalOrder.idxOf "Swap" ∧
    "range(getTarget,start)" ∈ Extracted.Runner.evalOrder := by decide

/-- the waiting set is withdrawn when `EvaluateTargets` returns (deferred right after publication) -/
theorem unpublish_deferred :
    Extracted.Runner.evalOrder.idxOf "defer(Swap(nil))" = Extracted.Runner.evalOrder.idxOf "Swap" + 1 := by decide

/-- `(*target).run`: enter, load, evaluate, set the status under the lock, broadcast, exit, Done -/
theorem run_order_ok : Extracted.Runner.runOrder = Runner.runOrder := by decide

/-- `Run`: start the requested target, wait for it, wait for every started target (D17) -/
theorem main_order_ok : Extracted.Runner.mainOrder = Runner.mainOrder := by decide

/-- both condition waits are `for` loops re-testing the model's guard (`status == running`, `capacity == 0`) -/
theorem wait_is_loop : Extracted.Runner.waitLoops = Runner.waitLoops := by decide

/-- C09: the limit is the number of CPUs -/
theorem gate_is_numcpu : Extracted.Runner.gateArg = "runtime.NumCPU()" := by decide

/-- `Status`: idle is the zero value of a fresh target -/
theorem status_order : Extracted.Runner.statusConsts =
    ["statusIdle=iota", "statusRunning", "statusSucceeded", "statusFailed"] := by decide

/-! the synchronisation skeleton of every function: unchanged since the model was written -/

theorem skel_newTarget_ok : Extracted.Runner.skel_newTarget = Expected.Runner.skel_newTarget := rfl
theorem skel_start_ok : Extracted.Runner.skel_target_start = Expected.Runner.skel_target_start := rfl
theorem skel_wait_ok : Extracted.Runner.skel_target_wait = Expected.Runner.skel_target_wait := rfl
theorem skel_run_ok : Extracted.Runner.skel_target_run = Expected.Runner.skel_target_run := rfl
theorem skel_check_ok : Extracted.Runner.skel_engine_check = Expected.Runner.skel_engine_check := rfl
theorem skel_checkDeps_ok : Extracted.Runner.skel_engine_checkDeps = Expected.Runner.skel_engine_checkDeps := rfl
theorem skel_EvaluateTargets_ok :
    Extracted.Runner.skel_engine_EvaluateTargets = Expected.Runner.skel_engine_EvaluateTargets := rfl
theorem skel_newGate_ok : Extracted.Runner.skel_newGate = Expected.Runner.skel_newGate := rfl
theorem skel_enter_ok : Extracted.Runner.skel_gate_enter = Expected.Runner.skel_gate_enter := rfl
theorem skel_exit_ok : Extracted.Runner.skel_gate_exit = Expected.Runner.skel_gate_exit := rfl
theorem skel_getTarget_ok : Extracted.Runner.skel_runner_getTarget = Expected.Runner.skel_runner_getTarget := rfl
theorem skel_Run_ok : Extracted.Runner.skel_Run = Expected.Runner.skel_Run := rfl

end Dawn.Ties.Runner

import Dawn.Model.Diff
import Dawn.Extracted.Diff
import Dawn.Ties.DiffExpected
/-!
Tie 1 for C16: the facts regenerated from `diff/diff.go`, `diff/diff_slice.go`, `diff/types.go` and
`function.go` on this run are the ones the model is written against. Each theorem is re-checked by the kernel
on every run; a change to the source that alters a fact breaks the corresponding obligation.
-/
namespace Dawn.Ties.Diff
open Dawn

theorem extraction_complete : Extracted.Diff.extractionErrors = [] := by decide

/-- `Diff`, `DiffDepth` and `diffMapping` (diff.go) -/
theorem diff_bodies_ok :
    Extracted.Diff.diffBody = Expected.Diff.diffBody ∧
    Extracted.Diff.diffDepthBody = Expected.Diff.diffDepthBody ∧
    Extracted.Diff.diffMappingBody = Expected.Diff.diffMappingBody := ⟨rfl, rfl, rfl⟩

/-- `diffSlice` (with the sides taken before the swap: the repair of D5) and its small helpers -/
theorem diff_slice_ok :
    Extracted.Diff.diffSliceBody = Expected.Diff.diffSliceBody ∧
    Extracted.Diff.sliceBody = Expected.Diff.sliceBody ∧
    Extracted.Diff.indexReturnsSliceBody = Expected.Diff.indexReturnsSliceBody ∧
    Extracted.Diff.copySliceableBody = Expected.Diff.copySliceableBody ∧
    Extracted.Diff.diffReplacementsBody = Expected.Diff.diffReplacementsBody ∧
    Extracted.Diff.maxBody = Expected.Diff.maxBody := ⟨rfl, rfl, rfl, rfl, rfl, rfl⟩

/-- the search: `compose` (rounds, route extraction, restart, the delete+add → replace merge) and `snake` -/
theorem compose_ok :
    Extracted.Diff.composeBody = Expected.Diff.composeBody ∧
    Extracted.Diff.snakeBody = Expected.Diff.snakeBody := ⟨rfl, rfl⟩

/-- recording the route as edits: `recordSeq` and `extend` -/
theorem record_ok :
    Extracted.Diff.recordSeqBody = Expected.Diff.recordSeqBody ∧
    Extracted.Diff.extendBody = Expected.Diff.extendBody := ⟨rfl, rfl⟩

/-- `Old()` and `New()` return the fields `diffSlice`, `diffMapping` and `DiffDepth` fill in -/
theorem sides_ok :
    Extracted.Diff.oldBody = Expected.Diff.oldBody ∧ Extracted.Diff.newBody = Expected.Diff.newBody := ⟨rfl, rfl⟩

/-- constants: the route limit, the order of the raw edit kinds and their translation, the kind strings,
the depth `snake` compares elements with -/
theorem constants_ok :
    Extracted.Diff.defaultRouteSize = Diff.defaultRouteSize ∧
    Extracted.Diff.editKindOrder = ["editKindDelete", "editKindCommon", "editKindAdd"] ∧
    Extracted.Diff.editKinds = ["EditKindDelete", "EditKindCommon", "EditKindAdd"] ∧
    Extracted.Diff.editKindStrings =
      [("EditKindDelete", "delete"), ("EditKindCommon", "common"), ("EditKindAdd", "add"), ("EditKindReplace", "replace")] ∧
    Extracted.Diff.snakeDepths = [Diff.snakeDepth] := by decide

/-- the rebuild reason: the key list; the one comparison and the one diff `diffEnv` makes, both with the depth
budget 1000 the model uses (`envDepth`; a call without a budget would use `CompareLimit = 10`); and the code that joins the reasons -/
theorem reason_ok :
    Extracted.Diff.functionEnvKeys = Diff.functionEnvKeys ∧
    Extracted.Diff.diffEnvDepths = [Diff.envDepth, Diff.envDepth] ∧
    Extracted.Diff.diffEnvCalls = [("starlark.EqualDepth", "1000"), ("diff.DiffDepth", "1000")] ∧
    Extracted.Diff.reasonSkeleton = Expected.Diff.reasonSkeleton := ⟨by decide, by decide, by decide, rfl⟩

end Dawn.Ties.Diff

import Dawn.Model.Label
import Dawn.Extracted.Label
import Dawn.Ties.LabelExpected
/-!
Tie 1 for C12: the facts regenerated from `label/label.go`, `sourceFile.go` and `project.go` on this run are the
ones the model is written against. Each theorem is re-checked by the kernel on every run; a change to the
source that alters a fact breaks the corresponding obligation. (The wording of error messages is not a fact:
the extractor drops the arguments of `errors.New` / `fmt.Errorf`.)
-/
namespace Dawn.Ties.Label
open Dawn

def nats (b : List UInt8) : List Nat := b.map UInt8.toNat

theorem extraction_complete : Extracted.Label.extractionErrors = [] := by decide

/-- the bytes `Clean` compares with, in source order (`//` root test, single-slash test, the five `case`s, the
copy loop), are the model's `slash`, `colon`, `dot` -/
theorem clean_chars_ok : Extracted.Label.cleanChars =
    ([Label.slash, Label.slash, Label.slash, Label.slash, Label.slash, Label.colon, Label.slash,
      Label.dot, Label.slash, Label.dot, Label.dot, Label.slash, Label.slash, Label.slash, Label.colon].map UInt8.toNat) := by
  decide

/-- the offsets `Clean` uses (`len(pkg) >= 2`, `pkg[0]`, `pkg[1]`, `r = 2`, `r+1`, `r+2`, `out.w != 2`, `out.w != 0`) -/
theorem clean_ints_ok : Extracted.Label.cleanInts = [2, 0, 1, 0, 2, 1, 1, 1, 2, 2, 2, 0] := by decide

/-- `Parse`: separators `:` (last / first), `"//"`, `":"` for the project, `/` for the name; offsets `+1` -/
theorem parse_lits_ok : Extracted.Label.parseChars = [Label.colon, Label.colon, Label.slash].map UInt8.toNat ∧
    Extracted.Label.parseStrings = [[], [], [], [47, 47], [58], [], []] ∧
    Extracted.Label.parseInts = [1, 1, 1, 1, 1] := by decide

theorem new_lits_ok : Extracted.Label.newStrings = [[58, 47], [58], [], [47, 47], [58, 47]] := by decide

theorem string_lits_ok : Extracted.Label.stringChars = [Label.colon, Label.colon].map UInt8.toNat ∧
    Extracted.Label.stringStrings = [[], [], []] := by decide

theorem split_join_lits_ok : Extracted.Label.splitStrings = [[47, 47], [47, 47]] ∧ Extracted.Label.splitChars = [47, 47] ∧
    Extracted.Label.splitInts = [0, 2] ∧ Extracted.Label.joinChars = [47] ∧ Extracted.Label.isAbsStrings = [[47, 47]] := by decide

/-- `repoSourcePath`: empty test, `pkg[2:]`, `".."`, `"../"` -/
theorem repo_source_path_lits_ok : Extracted.Label.repoSourcePathStrings = [[], [], nats Label.dotdot, nats Label.dotdotSlash, []] ∧
    Extracted.Label.repoSourcePathInts = [2] := by decide

/-- `sourceLabel`: root package `//`, kind `source`, empty project -/
theorem source_label_lits_ok : Extracted.Label.sourceLabelStrings = [[47, 47], [47, 47], nats Label.sourceKind, []] ∧
    Extracted.Label.sourceLabelChars = [47] ∧ Extracted.Label.sourceLabelInts = [1, 1] := by decide

/-- the kind → directory rule of `targetInfoPath` -/
theorem target_info_path_lits_ok : Extracted.Label.targetInfoPathStrings =
    [[], nats Label.defaultKind, [], nats Label.defaultTarget, [47], nats Label.kindSuffix] ∧
    Extracted.Label.targetInfoPathInts = [2] := by decide

/-- everything else about the modelled functions (control flow, operators, calls, guards): unchanged since the
model was written -/
theorem bodies_ok :
    Extracted.Label.parseBody = Expected.Label.parseBody ∧
    Extracted.Label.newBody = Expected.Label.newBody ∧
    Extracted.Label.isAbsBody = Expected.Label.isAbsBody ∧
    Extracted.Label.relativeToBody = Expected.Label.relativeToBody ∧
    Extracted.Label.stringBody = Expected.Label.stringBody ∧
    Extracted.Label.lazybufIndexBody = Expected.Label.lazybufIndexBody ∧
    Extracted.Label.lazybufAppendBody = Expected.Label.lazybufAppendBody ∧
    Extracted.Label.lazybufStringBody = Expected.Label.lazybufStringBody ∧
    Extracted.Label.cleanBody = Expected.Label.cleanBody ∧
    Extracted.Label.splitBody = Expected.Label.splitBody ∧
    Extracted.Label.joinBody = Expected.Label.joinBody ∧
    Extracted.Label.repoSourcePathBody = Expected.Label.repoSourcePathBody ∧
    Extracted.Label.sourceLabelBody = Expected.Label.sourceLabelBody ∧
    Extracted.Label.targetInfoPathBody = Expected.Label.targetInfoPathBody :=
  ⟨rfl, rfl, rfl, rfl, rfl, rfl, rfl, rfl, rfl, rfl, rfl, rfl, rfl, rfl⟩

end Dawn.Ties.Label

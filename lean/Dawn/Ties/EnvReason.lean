import Dawn.Extracted.Env
/-!
Tie for the reason shown for a rebuild (property C16, stream `env.reason` of `checks/env_reason.py`): which reason wins
when several conditions hold. `runTarget.Evaluate` (target.go) chooses it in a switch whose cases are tried in order;
the first case — the environment differs: keep the reason `diffEnv` computed — is what gives the parts of the
environment precedence over "always", "out-of-date dependencies" and "failed during last run". The ground-truth table
of the stream is written against exactly this order.
-/
namespace Dawn.Ties.EnvReason
open Dawn

theorem reasonPrecedence_ok : Extracted.Env.reasonPrecedence =
    ["!upToDate => keep",
     "proj.always => set always",
     "!depsUpToDate => set out-of-date dependencies: %v",
     "info.Rerun => set failed during last run"] := by decide

end Dawn.Ties.EnvReason

import Dawn.Model.Runner
import Dawn.Extracted.Runner
import Dawn.Ties.RunnerExpected
/-! Tie 1, the gate (C09, C05): its two operations, its limit, and where it is entered and left. -/
namespace Dawn.Ties.Runner
open Dawn

theorem skel_newGate_ok : Extracted.Runner.skel_newGate = Expected.Runner.skel_newGate := rfl
theorem skel_enter_ok : Extracted.Runner.skel_gate_enter = Expected.Runner.skel_gate_enter := rfl
theorem skel_exit_ok : Extracted.Runner.skel_gate_exit = Expected.Runner.skel_gate_exit := rfl

/-- C09: the limit is the number of CPUs -/
theorem gate_is_numcpu : Extracted.Runner.gateArg = "runtime.NumCPU()" := by decide

/-- `enter` waits in a `for` loop that re-tests `capacity == 0` (the model's guard of `enter1` / `enter2`) -/
theorem gate_wait_is_loop : Extracted.Runner.waitLoops[1]? = Runner.waitLoops[1]? := by decide

/-- C09 (a waiting target holds no slot) and deadlock freedom with limit one: in `EvaluateTargets` the slot is
    released first — before the dependencies are started and waited for — and re-acquired (deferred) on return -/
theorem exit_before_wait :
    Extracted.Runner.evalOrder.idxOf "gate.exit" = 0 ∧ Extracted.Runner.evalOrder.idxOf "defer(gate.enter)" = 1 ∧
    Extracted.Runner.evalOrder.idxOf "gate.exit" < Extracted.Runner.evalOrder.idxOf "range(wait)" ∧
    "range(wait)" ∈ Extracted.Runner.evalOrder ∧
    (Extracted.Runner.evalOrder.filter fun x => x == "gate.exit" || x == "defer(gate.enter)").length = 2 := by decide

/-- C09: `run` acquires a slot before it loads the target and releases it (deferred) when it returns -/
theorem run_holds_slot :
    Extracted.Runner.runOrder.idxOf "gate.enter" < Extracted.Runner.runOrder.idxOf "LoadTarget" ∧
    Extracted.Runner.runOrder.idxOf "defer(gate.exit)" = Extracted.Runner.runOrder.idxOf "gate.enter" + 1 ∧
    "LoadTarget" ∈ Extracted.Runner.runOrder ∧
    (Extracted.Runner.runOrder.filter fun x => x == "gate.enter" || x == "defer(gate.exit)").length = 2 := by decide

/-- the gate is used nowhere else -/
theorem main_no_gate : "gate.enter" ∉ Extracted.Runner.mainOrder ∧ "gate.exit" ∉ Extracted.Runner.mainOrder ∧
    "defer(gate.enter)" ∉ Extracted.Runner.mainOrder ∧ "defer(gate.exit)" ∉ Extracted.Runner.mainOrder := by decide

/-- C09: `Project.Run` starts the build through `runner.Run(proj, label)` — no parallelism argument, for real and dry
    runs alike — and `Run` is the package's only entry point, so the limit is always `newGate(runtime.NumCPU())` -/
theorem project_run_call_ok : Extracted.Runner.skel_Project_Run = Expected.Runner.skel_Project_Run := rfl

theorem single_entry_point : Extracted.Runner.runnerEntryPoints = ["Run"] := by decide

end Dawn.Ties.Runner

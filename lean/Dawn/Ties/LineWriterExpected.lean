/- Snapshot of Dawn/Extracted/LineWriter.lean taken by bin/accept-extracted: the facts the models and
   theorems of this area were written against. Compared with the regenerated file in Dawn/Ties/LineWriter.lean. -/
namespace Dawn.Expected.LineWriter

/-- facts the extractor could not find (the code no longer has the shape the model was written against) -/
def extractionErrors : List String := []

def writeBody : String :=
  "(block (:= (v2) (0)) (for _ (> (call len v1) 0) _ (block (:= (v3) ((call (. bytes IndexByte) v1 '\\n'))) (if _ (== v3 (u- 1)) (block (call (. (. v0 line) Write) v1) (+= (v2) ((call len v1))) (break)) _) (if _ (== (call (. (. v0 line) Len)) 0) (block (call (. (. v0 events) Print) (. v0 label) (call string (slice v1 _ v3 _)))) (block (call (. (. v0 line) Write) (slice v1 _ v3 _)) (call (. (. v0 events) Print) (. v0 label) (call (. (. v0 line) String))) (call (. (. v0 line) Reset)))) (= (v1) ((slice v1 (+ v3 1) _ _))) (+= (v2) ((+ v3 1))))) (return v2 nil))"

def flushBody : String :=
  "(block (if _ (!= (call (. (. v0 line) Len)) 0) (block (call (. (. v0 events) Print) (. v0 label) (call (. (. v0 line) String))) (call (. (. v0 line) Reset))) _) (return nil))"

def functionEvaluateOut : String :=
  "(block (defer (call (. (. v0 out) Flush))))"

def functionNewThreadOut : String :=
  "(block (call (. util SetStdio) v1 (. v0 out) (. v0 out)))"

def setStdioArgs : List String :=
  ["f.out", "f.out"]

def utilStdioBody : String :=
  "(block (:= (v1 v2) ((assert (call (. v0 Local) \"stdout\") (. io Writer)))) (if _ (u! v2) (block (= (v1) ((. os Stdout)))) _) (:= (v3 v2) ((assert (call (. v0 Local) \"stderr\") (. io Writer)))) (if _ (u! v2) (block (= (v3) ((. os Stderr)))) _) (return v1 v3))"

def osExecStdio : String :=
  "(block (= ((. v6 Stdout) (. v6 Stderr)) ((call (. util Stdio) v0))))"

def osOutputStdio : String :=
  "(block (var (v8) (. strings Builder) ()) (= ((. v6 Stdout)) ((u& v8))) (= (_ (. v6 Stderr)) ((call (. util Stdio) v0))) (return (call (. starlark String) (call (. v8 String))) nil))"

def shExecStdio : String :=
  "(block (:= (v9 v10) ((call (. util Stdio) v0))) (= (v7) ((call append v7 (call (. interp StdIO) nil v9 v10)))) (call (. fmt Fprintln) v9 v2))"

def shOutputStdio : String :=
  "(block (var (v9) (. strings Builder) ()) (:= (v10 v11) ((call (. util Stdio) v0))) (if _ v5 (block (= (v11) ((. io Discard)))) _) (= (v7) ((call append v7 (call (. interp StdIO) nil (u& v9) v11)))) (call (. fmt Fprintln) v10 v2) (:= (v12) ((call (. starlark String) (call (. v9 String))))))"

def evaluateSkeleton : String :=
  String.join [
    "(block (range v9 v10 (call (. v1 EvaluateTargets) v6 ...) (block (if _ (!= (. v10 Error) nil) (block (typeswitch _ _ (case (UnknownTargetError) (call (. (. v2 events) TargetFailed) v3 (call (. fmt Errorf) \"missing dependency: %w\" (. v10 Error)))) (case ((. runner CyclicDependencyError)) (call (. (. v2 events) TargetFailed) v3 v11))) (return (call (. fmt Errorf) \"dependency %v failed\" (index v6 v9)))) _))) (:= (v17 v18 v19 v11) ((call (. (. v0 target) upToDate)))) (if _ (!= v11 nil) (block (call (. (. v2 events) TargetFailed) v3 v11) (return v11)) _) (if _ (&& (&& (&& (u! (. v2 always)) v5) v17) (u! (. v4 Rerun))) (block (call (. (. v2 events) TargetUpToDate) v3) (return nil)) _) (switch _ _ (case ((u! v17))) (case ((. v2 always))) (case ((u! v5))) (case ((. v4 Rerun)))) (call (. (. v2 even",
    "ts) TargetEvaluating) v3 v18 v19) (if _ (. v2 dryrun) (block (call (. (. v2 events) TargetSucceeded) v3 true) (return nil)) _) (if _ (call IsTarget v3) (block (if (:= (v11) ((call (. v2 saveTargetInfo) v3 v20))) (!= v11 nil) (block (call (. (. v2 events) TargetFailed) v3 v11) (return v11)) _)) _) (:= (v21 v22 v11) ((call (. (. v0 target) evaluate)))) (if _ (!= v11 nil) (block (call (. (. v2 events) TargetFailed) v3 v11) (call (. v2 saveTargetInfo) v3 (lit targetInfo (kv Doc (call (. (. v0 target) Doc))) (kv Dependencies v7) (kv Rerun true) (kv Runs (. v4 Runs)))) (return v11)) _) (= (v11) ((call (. v2 saveTargetInfo) v3 v23))) (if _ (!= v11 nil) (block (call (. (. v2 events) TargetFailed) v3 v11) (return v11)) _) (call (. (. v2 events) TargetSucceeded) v3 v22) (return nil))"]

def depErrorClassification : List String :=
  ["typeswitch dep.Error.(type): UnknownTargetError, runner.CyclicDependencyError"]

def unknownTargetReturns : List String :=
  ["UnknownTargetError", "UnknownTargetError", "UnknownTargetError"]

def loadTargetBody : String :=
  "(block (:= (v2 v3) ((call (. label Parse) v1))) (if _ (!= v3 nil) (block (return nil v3)) _) (call (. (. v0 m) Lock)) (defer (call (. (. v0 m) Unlock))) (:= (v4 v5) ((index (. v0 targets) (call (. v2 String))))) (if _ (u! v5) (block (return nil (call (. v0 unknownTarget) (call (. v2 String))))) _) (return v4 nil))"

def runOptionsApplyBody : String :=
  "(block (if _ (== v0 nil) (block (= ((. v1 always)) (false)) (= ((. v1 dryrun)) (false)) (return)) _) (= ((. v1 always)) ((. v0 Always))) (= ((. v1 dryrun)) ((. v0 DryRun))))"

def runBody : String :=
  "(block (call (. v2 apply) v0) (:= (v3) ((call (. runner Run) v0 (call (. v1 String))))) (call (. (. v0 events) RunDone) v3) (return v3))"

def eventKinds : List (String × String) :=
  [("Print", "Print"), ("TargetUpToDate", "TargetUpToDate"), ("TargetEvaluating", "TargetEvaluating"), ("TargetFailed", "TargetFailed"), ("TargetSucceeded", "TargetSucceeded"), ("RunDone", "RunDone")]

end Dawn.Expected.LineWriter

/- Snapshot of Dawn/Extracted/Label.lean taken by bin/accept-extracted: the facts the models and
   theorems of this area were written against. Compared with the regenerated file in Dawn/Ties/Label.lean. -/
namespace Dawn.Expected.Label

/-- facts the extractor could not find (the code no longer has the shape the model was written against) -/
def extractionErrors : List String := []

def parseStrings : List (List Nat) :=
  [[], [], [], [47, 47], [58], [], []]

def parseChars : List Nat :=
  [58, 58, 47]

def parseInts : List Nat :=
  [1, 1, 1, 1, 1]

def parseBody : String :=
  String.join [
    "(block (:= (v1) ((call (. strings LastIndexByte) v0 ':'))) (if _ (== v1 (u- 1)) (block (= (v1) ((call len v0)))) _) (:= (v2) ((slice v0 _ v1 _))) (:= (v3 v4) (\"\" \"\")) (if (:= (v5) ((call (. strings IndexByte) v2 ':'))) (!= v5 (u- 1)) (block (= (v3 v4) ((slice v2 _ v5 _) (slice v2 (+ v5 1) _ _)))) (block (= (v4) (v2)))) (:= (v6 v7) (\"\" v4)) (if (:= (v8) ((call (. strings Index) v4 \"//\"))) (!= v8 (u- 1)) (block (= (v6 v7) ((slice v4 _ v8 _) (slice v4 v8 _ _)))) _) (if _ (call (. strings ContainsAny) v6 \":\") (block (return nil (call (. errors New) _))) _) (:= (v7 v9) ((call Clean v7))) (if _ (!= v9 nil) (block (return nil v9)) _) (:= (v10) (\"\")) (if _ (< v1 (call len v0)) (block (= (v10) ((slice v0 (+ v1 1) _ _))) (if _ (call (. strings ContainsRune) v10 '/') (block (return nil (call (. error",
    "s New) _))) _)) _) (:= (v11) ((u& (lit Label (kv Kind v3) (kv Project v6) (kv Package v7) (kv Name v10))))) (if _ (&& (!= v6 \"\") (u! (call (. v11 IsAbs)))) (block (return nil (call (. errors New) _))) _) (return v11 nil))"]

def newStrings : List (List Nat) :=
  [[58, 47], [58], [], [47, 47], [58, 47]]

def newChars : List Nat :=
  []

def newInts : List Nat :=
  []

def newBody : String :=
  "(block (if _ (call (. strings ContainsAny) v0 \":/\") (block (return nil (call (. errors New) _))) _) (if _ (call (. strings ContainsAny) v1 \":\") (block (return nil (call (. errors New) _))) _) (:= (v2 v4) ((call Clean v2))) (if _ (!= v4 nil) (block (return nil v4)) _) (if _ (&& (!= v1 \"\") (u! (call (. strings HasPrefix) v2 \"//\"))) (block (return nil (call (. errors New) _))) _) (if _ (call (. strings ContainsAny) v3 \":/\") (block (return nil (call (. errors New) _))) _) (return (u& (lit Label (kv Kind v0) (kv Project v1) (kv Package v2) (kv Name v3))) nil))"

def isAbsStrings : List (List Nat) :=
  [[47, 47]]

def isAbsChars : List Nat :=
  []

def isAbsInts : List Nat :=
  []

def isAbsBody : String :=
  "(block (return (call (. strings HasPrefix) (. v0 Package) \"//\")))"

def relativeToStrings : List (List Nat) :=
  []

def relativeToChars : List Nat :=
  []

def relativeToInts : List Nat :=
  []

def relativeToBody : String :=
  "(block (if _ (call (. v0 IsAbs)) (block (return v0 nil)) _) (:= (v1 v2) ((call Join v1 (. v0 Package)))) (if _ (!= v2 nil) (block (return nil v2)) _) (return (u& (lit Label (kv Kind (. v0 Kind)) (kv Project (. v0 Project)) (kv Package v1) (kv Name (. v0 Name)))) nil))"

def stringStrings : List (List Nat) :=
  [[], [], []]

def stringChars : List Nat :=
  [58, 58]

def stringInts : List Nat :=
  []

def stringBody : String :=
  "(block (var (v1) (. strings Builder) ()) (if _ (!= (. v0 Kind) \"\") (block (call (. v1 WriteString) (. v0 Kind)) (call (. v1 WriteRune) ':')) _) (if _ (!= (. v0 Project) \"\") (block (call (. v1 WriteString) (. v0 Project))) _) (call (. v1 WriteString) (. v0 Package)) (if _ (!= (. v0 Name) \"\") (block (call (. v1 WriteRune) ':') (call (. v1 WriteString) (. v0 Name))) _) (return (call (. v1 String))))"

def lazybufIndexStrings : List (List Nat) :=
  []

def lazybufIndexChars : List Nat :=
  []

def lazybufIndexInts : List Nat :=
  []

def lazybufIndexBody : String :=
  "(block (if _ (!= (. v0 buf) nil) (block (return (index (. v0 buf) v1))) _) (return (index (. v0 s) v1)))"

def lazybufAppendStrings : List (List Nat) :=
  []

def lazybufAppendChars : List Nat :=
  []

def lazybufAppendInts : List Nat :=
  []

def lazybufAppendBody : String :=
  "(block (if _ (== (. v0 buf) nil) (block (if _ (&& (< (. v0 w) (call len (. v0 s))) (== (index (. v0 s) (. v0 w)) v1)) (block (++ (. v0 w)) (return)) _) (= ((. v0 buf)) ((call make (array _ byte) (call len (. v0 s))))) (call copy (. v0 buf) (slice (. v0 s) _ (. v0 w) _))) _) (= ((index (. v0 buf) (. v0 w))) (v1)) (++ (. v0 w)))"

def lazybufStringStrings : List (List Nat) :=
  []

def lazybufStringChars : List Nat :=
  []

def lazybufStringInts : List Nat :=
  []

def lazybufStringBody : String :=
  "(block (if _ (== (. v0 buf) nil) (block (return (slice (. v0 s) _ (. v0 w) _))) _) (return (call string (slice (. v0 buf) _ (. v0 w) _))))"

def cleanStrings : List (List Nat) :=
  [[], [], [], [], [], []]

def cleanChars : List Nat :=
  [47, 47, 47, 47, 47, 58, 47, 46, 47, 46, 46, 47, 47, 47, 58]

def cleanInts : List Nat :=
  [2, 0, 1, 0, 2, 1, 1, 1, 2, 2, 2, 0]

def cleanBody : String :=
  String.join [
    "(block (if _ (== v0 \"\") (block (return \"\" nil)) _) (:= (v1) ((&& (&& (>= (call len v0) 2) (== (index v0 0) '/')) (== (index v0 1) '/')))) (:= (v2) ((call len v0))) (:= (v3) ((lit lazybuf (kv s v0)))) (:= (v4) (0)) (if _ v1 (block (call (. v3 append) '/') (call (. v3 append) '/') (= (v4) (2))) _) (if _ (&& (u! v1) (== (index v0 v4) '/')) (block (return \"\" (call (. errors New) _))) _) (for _ (< v4 v2) _ (block (switch _ _ (case ((== (index v0 v4) ':')) (return \"\" (call (. errors New) _))) (case ((== (index v0 v4) '/')) (++ v4)) (case ((&& (== (index v0 v4) '.') (|| (== (+ v4 1) v2) (== (index v0 (+ v4 1)) '/')))) (return \"\" (call (. errors New) _))) (case ((&& (&& (== (index v0 v4) '.') (== (index v0 (+ v4 1)) '.')) (|| (== (+ v4 2) v2) (== (index v0 (+ v4 2)) '/')))) (return \"\" (call (. err",
    "ors New) _))) (default (if _ (|| (&& v1 (!= (. v3 w) 2)) (&& (u! v1) (!= (. v3 w) 0))) (block (call (. v3 append) '/')) _) (for _ (&& (&& (< v4 v2) (!= (index v0 v4) '/')) (!= (index v0 v4) ':')) (++ v4) (block (call (. v3 append) (index v0 v4)))))))) (return (call (. v3 string)) nil))"]

def splitStrings : List (List Nat) :=
  [[47, 47], [47, 47]]

def splitChars : List Nat :=
  [47, 47]

def splitInts : List Nat :=
  [0, 2]

def splitBody : String :=
  "(block (var (v1) (array _ string) ()) (:= (v2) (0)) (if _ (call (. strings HasPrefix) v0 \"//\") (block (= (v1 v0) ((call append v1 \"//\") (slice v0 2 _ _)))) _) (for _ (< v2 (call len v0)) _ (block (switch _ _ (case ((== (index v0 v2) '/')) (++ v2)) (default (:= (v3) (v2)) (for _ (&& (< v2 (call len v0)) (!= (index v0 v2) '/')) (++ v2) (block)) (= (v1) ((call append v1 (slice v0 v3 v2 _)))))))) (return v1))"

def joinStrings : List (List Nat) :=
  [[], []]

def joinChars : List Nat :=
  [47]

def joinInts : List Nat :=
  [0, 0, 0, 1, 0, 0]

def joinBody : String :=
  "(block (:= (v1) (0)) (range _ v2 v0 (block (+= (v1) ((call len v2))))) (if _ (== v1 0) (block (return \"\" nil)) _) (:= (v3) ((call make (array _ byte) 0 (- (+ v1 (call len v0)) 1)))) (range _ v2 v0 (block (if _ (|| (> (call len v3) 0) (!= v2 \"\")) (block (if _ (> (call len v3) 0) (block (= (v3) ((call append v3 '/')))) _) (= (v3) ((call append v3 v2 ...)))) _))) (return (call Clean (call string v3))))"

def repoSourcePathStrings : List (List Nat) :=
  [[], [], [46, 46], [46, 46, 47], []]

def repoSourcePathChars : List Nat :=
  []

def repoSourcePathInts : List Nat :=
  [2]

def repoSourcePathBody : String :=
  "(block (if _ (== v1 \"\") (block (return \"\" (call (. errors New) _))) _) (if _ (u! (call (. path IsAbs) v1)) (block (= (v1) ((call (. path Join) (slice v0 2 _ _) v1)))) _) (= (v1) ((call (. path Clean) v1))) (if _ (|| (== v1 \"..\") (call (. strings HasPrefix) v1 \"../\")) (block (return \"\" (call (. fmt Errorf) _ v1))) _) (return v1 nil))"

def sourceLabelStrings : List (List Nat) :=
  [[47, 47], [47, 47], [115, 111, 117, 114, 99, 101], []]

def sourceLabelChars : List Nat :=
  [47]

def sourceLabelInts : List Nat :=
  [1, 1]

def sourceLabelBody : String :=
  "(block (:= (v1 v2) ((call repoSourcePath v0 v1))) (if _ (!= v2 nil) (block (return nil v2)) _) (= (v1) ((call (. filepath ToSlash) v1))) (:= (v0 v3) (\"//\" v1)) (if (:= (v4) ((call (. strings LastIndexByte) v1 '/'))) (!= v4 (u- 1)) (block (= (v0 v3) ((+ \"//\" (slice v1 _ v4 _)) (slice v1 (+ v4 1) _ _)))) _) (return (call (. label New) \"source\" \"\" v0 v3)))"

def targetInfoPathStrings : List (List Nat) :=
  [[], [116, 97, 114, 103, 101, 116], [], [66, 85, 73, 76, 68, 46, 100, 97, 119, 110], [47], [115]]

def targetInfoPathChars : List Nat :=
  []

def targetInfoPathInts : List Nat :=
  [2]

def targetInfoPathBody : String :=
  "(block (:= (v2) ((. v1 Kind))) (if _ (== v2 \"\") (block (= (v2) (\"target\"))) _) (:= (v3) ((. v1 Name))) (if _ (== v3 \"\") (block (= (v3) (\"BUILD.dawn\"))) _) (:= (v4) ((call (. url PathEscape) (+ (+ (slice (. v1 Package) 2 _ _) \"/\") v3)))) (return (call (. filepath Join) (. v0 work) (+ v2 \"s\") v4)))"

end Dawn.Expected.Label

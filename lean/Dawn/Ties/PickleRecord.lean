import Dawn.Extracted.Pickle
import Dawn.Ties.PickleExpected
/-!
Tie 1 for the record level of C15 only (kept apart from `Dawn/Ties/Pickle.lean` so that a change to how records are
read breaks C15's obligations and not C07's).
-/
namespace Dawn.Ties.Pickle
open Dawn

/-- the functions through which a load reads persisted records (file, index, the custom unmarshaler of dependency keys and its unescaping): a change to how a record file or the index is read
must be re-examined against the record-level stream of C15 (file-level faults) -/
theorem record_loaders_ok :
    Extracted.Pickle.bodyLoadTargetInfo = Expected.Pickle.bodyLoadTargetInfo ∧
    Extracted.Pickle.bodyLoadIndex = Expected.Pickle.bodyLoadIndex ∧
    Extracted.Pickle.bodyUnescapeLabel = Expected.Pickle.bodyUnescapeLabel ∧
    Extracted.Pickle.bodyDepStampsUnmarshal = Expected.Pickle.bodyDepStampsUnmarshal := ⟨rfl, rfl, rfl, rfl⟩

end Dawn.Ties.Pickle

import Dawn.Model.Cache
import Dawn.Extracted.Cache
import Dawn.Ties.CacheExpected
/-!
Tie 1 for C20: the facts regenerated from `cache.go` on this run are the ones the model is written against.
Each theorem is re-checked by the kernel on every run; a change to the source that alters a fact breaks the
corresponding obligation (moving the call out of the locked region, dropping the re-check, storing before the
error test, replacing the deferred unlocks, changing the mutex type, …).
-/
namespace Dawn.Ties.Cache
open Dawn

theorem extraction_complete : Extracted.Cache.extractionErrors = [] := by decide

/-- `get`: RLock, deferred RUnlock, read of the map, return — the steps `start → rheld → rdone → …` -/
theorem get_shape_ok : Extracted.Cache.getShape = Cache.getShape := by decide

/-- `once`: fast path through `get`; Lock with deferred Unlock; re-check; call; error test; store; return -/
theorem once_shape_ok : Extracted.Cache.onceShape = Cache.onceShape := by decide

/-- the facts the proofs use, stated on the extracted shape itself: the callable is called after `Lock` (whose
`Unlock` is deferred, so it is held until the function returns) and after the re-check of the map; the store
comes after the error test of the call -/
theorem call_under_writer_lock_after_recheck :
    Extracted.Cache.onceShape.idxOf "lock" < Extracted.Cache.onceShape.idxOf "if-entries-hit-return" ∧
    Extracted.Cache.onceShape.idxOf "lock" + 1 = Extracted.Cache.onceShape.idxOf "defer-unlock" ∧
    Extracted.Cache.onceShape.idxOf "if-entries-hit-return" < Extracted.Cache.onceShape.idxOf "call" ∧
    Extracted.Cache.onceShape.idxOf "call" + 1 = Extracted.Cache.onceShape.idxOf "if-err-return" ∧
    Extracted.Cache.onceShape.idxOf "if-err-return" < Extracted.Cache.onceShape.idxOf "store" ∧
    Extracted.Cache.onceShape.count "call" = 1 ∧ Extracted.Cache.onceShape.count "store" = 1 ∧
    Extracted.Cache.onceShape.count "lock" = 1 := by decide

/-- the lock is a `sync.RWMutex` (reader count + writer flag in the model), the map is keyed by the string key -/
theorem mutex_ok : Extracted.Cache.mutexType = "sync.RWMutex" ∧ Extracted.Cache.entriesType = "map[string]" := by decide

/-- `Freeze` does nothing, and the struct has no state besides the mutex, the map and the bound method: a frozen cache
behaves like a fresh one (`C20_freeze_irrelevant`) -/
theorem freeze_is_noop_ok : Extracted.Cache.freezeBody = Cache.freezeBody := by decide
theorem cache_fields_ok : Extracted.Cache.cacheFields = Cache.cacheFields := by decide

/-- nothing is evicted (no `clear`/`delete`, no capacity constant) and no cache state lives outside the cache value (the
only package-level variable is the builtin): the cache never forgets a key and two caches share nothing
(`C20_entries_monotone`) -/
theorem no_eviction_ok : Extracted.Cache.entryRemovals = Cache.entryRemovals ∧
    Extracted.Cache.packageConsts = Cache.packageConsts := by decide
theorem no_shared_state_ok : Extracted.Cache.packageVars = Cache.packageVars := by decide

/-- everything else about the two functions' synchronisation skeletons: unchanged since the model was written -/
theorem get_skeleton_ok : Extracted.Cache.getSkeleton = Expected.Cache.getSkeleton := rfl
theorem once_skeleton_ok : Extracted.Cache.onceSkeleton = Expected.Cache.onceSkeleton := rfl

end Dawn.Ties.Cache

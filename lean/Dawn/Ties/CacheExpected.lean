/- Snapshot of Dawn/Extracted/Cache.lean taken by bin/accept-extracted: the facts the models and
   theorems of this area were written against. Compared with the regenerated file in Dawn/Ties/Cache.lean. -/
namespace Dawn.Expected.Cache

/-- facts the extractor could not find (the code no longer has the shape the model was written against) -/
def extractionErrors : List String := []

def getShape : List String :=
  ["rlock", "defer-runlock", "read", "return"]

def getSkeleton : String :=
  "(block (call (. (. v0 m) RLock)) (defer (call (. (. v0 m) RUnlock))) (:= (v2 v3) ((index (. v0 entries) v1))) (return v2 v3))"

def onceShape : List String :=
  ["if-get-hit-return", "lock", "defer-unlock", "if-entries-hit-return", "call", "if-err-return", "store", "return"]

def onceSkeleton : String :=
  "(block (if (:= (v5 v6) ((call (. v0 get) v3))) v6 (block (return v5 nil)) _) (call (. (. v0 m) Lock)) (defer (call (. (. v0 m) Unlock))) (if (:= (v5 v6) ((index (. v0 entries) v3))) v6 (block (return v5 nil)) _) (:= (v5 v7) ((call (. starlark Call) v1 v4 nil nil))) (if _ (!= v7 nil) (block (return nil v7)) _) (= ((index (. v0 entries) v3)) (v5)) (return v5 nil))"

def freezeBody : String :=
  "(block)"

def cacheFields : List String :=
  ["m", "entries", "onceM"]

def entryRemovals : List String :=
  []

def packageVars : List String :=
  ["builtin_cache"]

def packageConsts : List String :=
  []

def mutexType : String :=
  "sync.RWMutex"

def entriesType : String :=
  "map[string]"

end Dawn.Expected.Cache

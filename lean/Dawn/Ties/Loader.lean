import Dawn.Model.Loader
import Dawn.Model.LoaderReload
import Dawn.Extracted.Loader
import Dawn.Ties.LoaderExpected
/-!
Tie 1 for C06: the facts regenerated from `module.go` / `project.go` on this run are the ones the model
(`Version.fixed`) is written against. Each theorem is re-checked by the kernel on every run; a change to the source
that alters a fact breaks the corresponding obligation: walking the chain with the receiver's lock again (D4), returning
from `load` without `done()` (D24), taking
`m.m` before the walk, turning the `for` around `cond.Wait` into an `if`, setting `loaded` outside the lock or after
the `Broadcast`, publishing `loading` after the wait instead of before it, …
-/
namespace Dawn.Ties.Loader
open Dawn

theorem extraction_complete : Extracted.Loader.extractionErrors = [] := by decide

/-- `wait`: the chain walk comes first and holds no lock of the receiver; `m.m` is taken (Unlock deferred) only for
`for !m.loaded { m.cond.Wait() }` — a `for`, so a wake-up re-checks the condition -/
theorem wait_shape_ok : Extracted.Loader.waitShape = Loader.waitShape .fixed := by decide

/-- the walk starts with `m.getLoading()` and advances with `loading.getLoading()`: every read of a `loading` field is
made under that module's own mutex, none while holding the receiver's -/
theorem walk_ok : Extracted.Loader.walkFirst = Loader.walkFirst .fixed ∧
    Extracted.Loader.walkNext = Loader.walkNext .fixed := by decide

/-- `done`: result stored, then `loaded = true` under `m.m`, then `Broadcast` (not `Signal`: every sleeper is woken) -/
theorem done_shape_ok : Extracted.Loader.doneShape = Loader.doneShape .fixed := by decide

/-- `load`: when the module's environment cannot be set up the error is returned through `m.done(nil, err)`, so waiters
are woken and receive it (D24: it used to be a plain `return nil, err`) -/
theorem env_error_done_ok : Extracted.Loader.envErrorPath = Loader.envErrorPath .fixed := by decide

/-- `Reload` (directly, through `load`, or through a helper they call before the goroutines start) re-creates the module
registry together with the flag and target tables and the index-only marker: every load starts from an empty registry,
which is what lets the model treat a reload as a fresh run (`C06_reload_is_fresh_load`) -/
theorem reload_resets_ok : Extracted.Loader.reloadResets = Loader.reloadResets := by decide

/-- the module registry is indexed by the whole label (project included): a module of the model is a full label -/
theorem module_key_ok : Extracted.Loader.moduleKey = Loader.moduleKey := by decide

/-- everything else about the synchronisation skeletons: unchanged since the model was written -/
theorem getLoading_skeleton_ok : Extracted.Loader.getLoadingSkeleton = Expected.Loader.getLoadingSkeleton := rfl
theorem setLoading_skeleton_ok : Extracted.Loader.setLoadingSkeleton = Expected.Loader.setLoadingSkeleton := rfl
theorem done_skeleton_ok : Extracted.Loader.doneSkeleton = Expected.Loader.doneSkeleton := rfl
theorem wait_skeleton_ok : Extracted.Loader.waitSkeleton = Expected.Loader.waitSkeleton := rfl
theorem load_skeleton_ok : Extracted.Loader.loadSkeleton = Expected.Loader.loadSkeleton := rfl
theorem loadModule_skeleton_ok : Extracted.Loader.loadModuleSkeleton = Expected.Loader.loadModuleSkeleton := rfl
theorem loadPackage_skeleton_ok : Extracted.Loader.loadPackageSkeleton = Expected.Loader.loadPackageSkeleton := rfl

end Dawn.Ties.Loader

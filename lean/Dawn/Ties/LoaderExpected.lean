/- Snapshot of Dawn/Extracted/Loader.lean taken by bin/accept-extracted: the facts the models and
   theorems of this area were written against. Compared with the regenerated file in Dawn/Ties/Loader.lean. -/
namespace Dawn.Expected.Loader

/-- facts the extractor could not find (the code no longer has the shape the model was written against) -/
def extractionErrors : List String := []

def getLoadingSkeleton : String :=
  "(block (call (. (. v0 m) Lock)) (defer (call (. (. v0 m) Unlock))) (return (. v0 loading)))"

def setLoadingSkeleton : String :=
  "(block (call (. (. v0 m) Lock)) (= ((. v0 loading)) (v1)) (call (. (. v0 m) Unlock)))"

def doneSkeleton : String :=
  "(block (call (. (. v0 m) Lock)) (= ((. v0 loaded)) (true)) (call (. (. v0 m) Unlock)) (call (. (. v0 cond) Broadcast)) (return v1 v2))"

def waitSkeleton : String :=
  "(block (if _ (!= v1 nil) (block (:= (v2) ((call (. v0 getLoading)))) (for _ (!= v2 nil) _ (block (if _ (== v2 v1) (block (return nil (call (. fmt Errorf) \"cyclic dependency on %v\" (. v0 label)))) _) (= (v2) ((call (. v2 getLoading))))))) _) (call (. (. v0 m) Lock)) (defer (call (. (. v0 m) Unlock))) (for _ (u! (. v0 loaded)) _ (block (call (. (. v0 cond) Wait)))) (return (. v0 data) (. v0 err)))"

def loadSkeleton : String :=
  "(block (if _ (!= v4 nil) (block (return (call (. v0 done) nil v4))) _) (:= (v5 v4) ((call (. v0 done) (call (. starlark ExecFile) v2 (. v0 path) nil v3)))) (if _ (!= v4 nil) (block (return nil v4)) _) (return v5 nil))"

def envErrorPath : String :=
  "done"

def loadModuleSkeleton : String :=
  "(block (call (. (. v0 m) Lock)) (if (:= (v3 v4) ((index (. v0 modules) (call (. v2 String))))) v4 (block (call (. (. v0 m) Unlock)) (if _ (!= v1 nil) (block (call (. v1 setLoading) v3) (defer (call (. v1 setLoading) nil))) _) (return (call (. v3 wait) v1))) _) (= ((. v3 cond)) ((call (. sync NewCond) (u& (. v3 m))))) (= ((index (. v0 modules) (call (. v2 String)))) (v3)) (call (. (. v0 m) Unlock)) (if _ (!= v1 nil) (block (call (. v1 setLoading) v3) (defer (call (. v1 setLoading) nil))) _) (return (call (. v3 load) v0)))"

def loadPackageSkeleton : String :=
  "(block (if _ (call (. v0 ignored) (slice v2 2 _ _)) (block (return nil)) _) (if _ (== v1 nil) (block (defer (call (. v1 Wait)))) _) (if _ (!= v5 nil) (block (return v5)) _) (range _ v6 v4 (block (switch _ _ (case ((call (. v6 IsDir))) (if _ (!= (call (. v6 Name)) \".dawn\") (block (if _ (!= v5 nil) (block (return v5)) _)) _)) (case ((== (call (. v6 Name)) \"BUILD.dawn\")) (call (. v1 Add) 1) (go (call (func (block (call (. v0 loadModule) nil (u& (lit (. label Label) (kv Kind \"module\") (kv Package v2) (kv Name \"BUILD.dawn\")))) (call (. v1 Done)))))))))) (return nil))"

def reloadResets : List String :=
  ["flags", "indexOnly", "modules", "targets"]

def moduleKey : List String :=
  ["L.String()"]

def doneShape : List String :=
  ["set R.data,R.err", "R.m.Lock", "set R.loaded", "R.m.Unlock", "R.cond.Broadcast", "return"]

def waitShape : List String :=
  ["if W!=nil { for loading!=nil }", "R.m.Lock", "defer R.m.Unlock", "for !R.loaded { R.cond.Wait }", "return"]

def walkFirst : String :=
  "receiver.getLoading"

def walkNext : String :=
  "loading.getLoading"

end Dawn.Expected.Loader

import Dawn.Proofs.BuildCrash
import Dawn.Proofs.BuildSim
/-!
# No spurious rebuilds (C02)

`Settled`: a target a real build visited successfully is left with a record that (1) is not marked `rerun`, (2) lists,
for every dependency, exactly the stamp that dependency shows, and nothing else (as many entries as dependencies),
and (3) passes its own `upToDate` test against the files as they are. Every visit keeps this for the targets visited before it. A second build of the same tree from
the state the first one left (fresh process, fresh load) therefore skips every one of them.
-/
namespace Dawn.Build

def Settled (P : Params) (t : Tree) (s : BSt) (x : Label) (m : Res) : Prop :=
  ∃ d, t.defs x = some d ∧
    (semRec (s.w.recs x)).rerun = false ∧ m.data = stampOf P (semRec (s.w.recs x)) ∧
    upToDate P s.w d (semRec (s.w.recs x)) = true ∧
    (∀ y ∈ depsOf t x d, ∃ my, s.memo y = some my ∧ my.ok = true ∧ (semRec (s.w.recs x)).deps.lookup y = some my.data) ∧
    (!P.depCount || (semRec (s.w.recs x)).deps.length == (depsOf t x d).length) = true ∧
    attrsOK P d (semRec (s.w.recs x)) = true

def SInv (P : Params) (t : Tree) (s : BSt) : Prop := ∀ x m, s.memo x = some m → m.ok = true → Settled P t s x m

/-- no target of the tree is declared `always` (such targets are out of date by declaration) -/
def NoAlways (t : Tree) : Prop := ∀ l d, t.defs l = some d → d.always = false

theorem loadedInfo_noAlways {w : World} {l : Label} {d : Def} (h : d.always = false) : loadedInfo w l d = semRec (w.recs l) := by
  unfold loadedInfo semRec; simp [h]

/-- the effects of a visit: temporaries, the visited label's own record, files that label generates -/
theorem visitSteps_local (P : Params) (t : Tree) (o : Opts) (s : BSt) (l : Label) (d : Def) (hd : t.defs l = some d) :
    ∀ st ∈ visitSteps P t o s l, st.eff = none ∨ st.eff = some .tempCreate ∨ st.eff = some .tempWrite ∨
      (∃ r, st.eff = some (.tempRename l r)) ∨ (∃ g c, st.eff = some (.genWrite g c) ∧ d.kind = .fn ∧ g ∈ d.gens) := by
  intro st hst
  unfold visitSteps at hst
  simp only [hd] at hst
  cases hp : plan P t o s l d with
  | run info dd =>
    simp only [hp] at hst
    unfold execSteps at hst
    have hsave : ∀ r, st ∈ saveSteps l r → st.eff = some .tempCreate ∨ st.eff = some .tempWrite ∨ ∃ r', st.eff = some (.tempRename l r') := by
      intro r h
      simp only [saveSteps, List.mem_cons, List.not_mem_nil, or_false] at h
      rcases h with e | e | e
      · left; rw [e]
      · right; left; rw [e]
      · right; right; exact ⟨r, by rw [e]⟩
    have fromSave : ∀ r, st ∈ saveSteps l r → st.eff = none ∨ st.eff = some .tempCreate ∨ st.eff = some .tempWrite ∨
      (∃ r, st.eff = some (.tempRename l r)) ∨ (∃ g c, st.eff = some (.genWrite g c) ∧ d.kind = .fn ∧ g ∈ d.gens) := by
      intro r h
      rcases hsave r h with e | e | e
      · right; left; exact e
      · right; right; left; exact e
      · right; right; right; left; exact e
    obtain ⟨k, hk⟩ : ∃ k, d.kind = k := ⟨_, rfl⟩
    cases k with
    | src =>
      simp only [hk, List.mem_append, List.mem_cons, List.not_mem_nil, or_false] at hst
      rcases hst with (e | e | e) | h
      · left; rw [e]
      · left; rw [e]
      · left; rw [e]
      · exact fromSave _ h
    | fn =>
      simp only [hk] at hst
      have hmark : st ∈ (if P.marker = true then saveSteps l { info with rerun := true } else []) →
          st.eff = none ∨ st.eff = some .tempCreate ∨ st.eff = some .tempWrite ∨
          (∃ r, st.eff = some (.tempRename l r)) ∨ (∃ g c, st.eff = some (.genWrite g c) ∧ d.kind = .fn ∧ g ∈ d.gens) := by
        intro h
        split at h
        · exact fromSave _ h
        · cases h
      split at hst
      · simp only [List.mem_append, List.mem_cons, List.not_mem_nil, or_false] at hst
        rcases hst with (((h | e) | h) | e | e) | h
        · exact hmark h
        · left; rw [e]
        · cases hg : d.gens with
          | nil => rw [hg] at h; cases h
          | cons g rest =>
            rw [hg] at h
            simp only [List.mem_singleton] at h
            right; right; right; right
            exact ⟨g, 0, by rw [h], hk, List.mem_cons_self⟩
        · left; rw [e]
        · left; rw [e]
        · exact fromSave _ h
      · simp only [List.mem_append, List.mem_cons, List.not_mem_nil, or_false, List.mem_map] at hst
        rcases hst with (((h | e) | ⟨gc, hgc, e⟩) | e | e) | h
        · exact hmark h
        · left; rw [e]
        · right; right; right; right
          refine ⟨gc.1, gc.2, by rw [← e], hk, ?_⟩
          have := List.mem_map_of_mem (f := (·.1)) hgc
          rwa [bodyWrites_fst] at this
        · left; rw [e]
        · left; rw [e]
        · exact fromSave _ h
  | depFailed _ => simp [hp] at hst
  | skip _ => simp [hp] at hst
  | dry _ => simp [hp] at hst

theorem applySteps_local (l : Label) (gens : List Path) (ss : List Step) (w : World)
    (h : ∀ st ∈ ss, st.eff = none ∨ st.eff = some .tempCreate ∨ st.eff = some .tempWrite ∨
      (∃ r, st.eff = some (.tempRename l r)) ∨ (∃ g c, st.eff = some (.genWrite g c) ∧ g ∈ gens)) :
    (∀ y, y ≠ l → (applySteps w ss).recs y = w.recs y) ∧ (∀ p, p ∉ gens → (applySteps w ss).files p = w.files p) := by
  induction ss generalizing w with
  | nil => exact ⟨fun _ _ => rfl, fun _ _ => rfl⟩
  | cons st rest ih =>
    obtain ⟨i1, i2⟩ := ih (st.apply w) (fun x hx => h x (List.mem_cons_of_mem _ hx))
    simp only [applySteps_cons]
    rcases h st List.mem_cons_self with e | e | e | ⟨r, e⟩ | ⟨g, c, e, hg⟩
    all_goals
      refine ⟨fun y hy => ?_, fun p hp => ?_⟩
      · rw [i1 y hy]; simp only [Step.apply, e, Eff.apply]
        try exact upd_other _ _ _ _ hy
      · rw [i2 p hp]; simp only [Step.apply, e, Eff.apply]
        try exact upd_other _ _ _ _ (fun e' => hp (e' ▸ hg))

/-- a visit of `l` leaves other labels' records alone and touches only files `l` owns -/
theorem visit_frame {S : Shape} {t : Tree} (hc : Conforms S t) (P : Params) (o : Opts) (s : BSt) (l : Label) :
    (∀ y, y ≠ l → (visit P t o s l).w.recs y = s.w.recs y) ∧
    (∀ p, S.owner p ≠ some l → (visit P t o s l).w.files p = s.w.files p) := by
  rw [(visit_steps P t o s l).2]
  cases hd : t.defs l with
  | none => simp [visitSteps, hd]
  | some d =>
    cases hk : d.kind with
    | src =>
      obtain ⟨h1, h2⟩ := applySteps_local l [] (visitSteps P t o s l) s.w (by
        intro st hst
        rcases visitSteps_local P t o s l d hd st hst with e | e | e | e | ⟨g, c, _, hfn, _⟩
        · exact Or.inl e
        · exact Or.inr (Or.inl e)
        · exact Or.inr (Or.inr (Or.inl e))
        · exact Or.inr (Or.inr (Or.inr (Or.inl e)))
        · rw [hk] at hfn; cases hfn)
      exact ⟨h1, fun p _ => h2 p (by simp)⟩
    | fn =>
      obtain ⟨h1, h2⟩ := applySteps_local l d.gens (visitSteps P t o s l) s.w (by
        intro st hst
        rcases visitSteps_local P t o s l d hd st hst with e | e | e | e | ⟨g, c, e, _, hg⟩
        · exact Or.inl e
        · exact Or.inr (Or.inl e)
        · exact Or.inr (Or.inr (Or.inl e))
        · exact Or.inr (Or.inr (Or.inr (Or.inl e)))
        · exact Or.inr (Or.inr (Or.inr (Or.inr ⟨g, c, e, hg⟩))))
      refine ⟨h1, fun p hp => h2 p ?_⟩
      intro hg
      apply hp
      rw [hc.gens l d hd hk] at hg
      exact S.owned l d.env p hg

end Dawn.Build

namespace Dawn.Build

theorem visit_memo (P : Params) (t : Tree) (o : Opts) (s : BSt) (l : Label) :
    ∃ res, (visit P t o s l).memo = upd s.memo l (some res) := by
  unfold visit
  cases t.defs l with
  | none => exact ⟨_, rfl⟩
  | some d =>
    simp only
    cases plan P t o s l d <;> exact ⟨_, rfl⟩

theorem all_congr_mem {α} {l : List α} {p q : α → Bool} (h : ∀ x ∈ l, p x = q x) : l.all p = l.all q := by
  induction l with
  | nil => rfl
  | cons a rest ih =>
    simp only [List.all_cons]
    rw [h a List.mem_cons_self, ih (fun x hx => h x (List.mem_cons_of_mem _ hx))]

theorem upToDate_frame {S : Shape} {t : Tree} (hc : Conforms S t) (P : Params) {w w' : World} {x l : Label} {dx : Def}
    (hdx : t.defs x = some dx) (hxl : x ≠ l) (hl : (t.defs l).isSome) (habove : l ∉ depsOf t x dx)
    (hfiles : ∀ p, S.owner p ≠ some l → w'.files p = w.files p) (info : Rec) :
    upToDate P w' dx info = upToDate P w dx info := by
  unfold upToDate
  cases hk : dx.kind with
  | src =>
    simp only
    rw [hfiles dx.path]
    intro ho
    exact habove (hc.link x dx hdx hk l ho hl)
  | fn =>
    simp only
    have : (dx.gens.all fun g => w'.files g != .missing) = (dx.gens.all fun g => w.files g != .missing) := by
      apply all_congr_mem
      intro g hg
      rw [hfiles g]
      rw [hc.gens x dx hdx hk] at hg
      rw [S.owned x dx.env g hg]
      intro e; exact hxl (Option.some.inj e)
    rw [this]

theorem settled_frame {P : Params} {S : Shape} {t : Tree} {o : Opts} {s : BSt} {l : Label} (hc : Conforms S t)
    (ord : Order t s l) (hl : (t.defs l).isSome) {x : Label} {m : Res} (hx : s.memo x = some m) (hok : m.ok = true)
    (h : Settled P t s x m) : Settled P t (visit P t o s l) x m := by
  have hxl : x ≠ l := by intro e; subst e; rw [ord.fresh] at hx; cases hx
  obtain ⟨dx, hdx, h1, h2, h3, h4, h5, h6⟩ := h
  obtain ⟨f1, f2⟩ := visit_frame hc P o s l
  obtain ⟨res, hmemo⟩ := visit_memo P t o s l
  refine ⟨dx, hdx, ?_, ?_, ?_, ?_, ?_, by rw [f1 x hxl]; exact h6⟩
  · rw [f1 x hxl]; exact h1
  · rw [f1 x hxl]; exact h2
  · rw [f1 x hxl, upToDate_frame hc P hdx hxl hl (ord.above x m dx hx hok hdx) f2]; exact h3
  · intro y hy
    obtain ⟨my, a, b, c⟩ := h4 y hy
    refine ⟨my, ?_, b, by rw [f1 x hxl]; exact c⟩
    rw [hmemo]; exact memo_fresh_mono ord.fresh a
  · rw [f1 x hxl]; exact h5

theorem visit_settled {P : Params} {S : Shape} {t : Tree} {o : Opts} {s : BSt} {l : Label}
    (hc : Conforms S t) (hdry : o.dry = false) (si : SInv P t s) (ord : Order t s l) :
    SInv P t (visit P t o s l) := by
  intro x m hx hok
  by_cases hxl : x = l
  · subst hxl
    -- the entry the visit itself made
    cases hd : t.defs x with
    | none => simp [visit, hd] at hx; subst hx; cases hok
    | some d =>
      cases hp : plan P t o s x d with
      | depFailed r => simp [visit, hd, hp] at hx; subst hx; cases hok
      | dry info => exact absurd hp (plan_not_dry hdry info)
      | skip info =>
        obtain ⟨hinfo, _, hrr, hup, hdeps⟩ := plan_skip hp
        have hw : (visit P t o s x).w = s.w := by simp [visit, hd, hp]
        have hmemo : (visit P t o s x).memo = upd s.memo x (some ⟨true, false, stampOf P info, false⟩) := by simp [visit, hd, hp]
        rw [hmemo] at hx; simp at hx; subst hx
        have hsem : info = semRec (s.w.recs x) := by
          rw [hinfo]; exact loadedInfo_rerun_false (hinfo ▸ hrr)
        refine ⟨d, hd, by rw [hw, ← hsem]; exact hrr, by rw [hw, ← hsem], by rw [hw, ← hsem]; exact hup, ?_,
          by rw [hw, ← hsem]; exact plan_skip_length hp, by rw [hw, ← hsem]; exact plan_skip_attrs hp⟩
        intro y hy
        obtain ⟨my, a, b, _, c⟩ := hdeps y hy
        exact ⟨my, by rw [hmemo]; exact memo_fresh_mono ord.fresh a, b, by rw [hw, ← hsem]; exact c⟩
      | run info dd =>
        obtain ⟨_, hdd, _, hdepsok⟩ := plan_run hp
        obtain ⟨hw, hmemo⟩ := visit_run_eq hd hp
        have hdeps : ∀ y ∈ depsOf t x d, ∃ my, (visit P t o s x).memo y = some my ∧ my.ok = true ∧ dd.lookup y = some my.data := by
          intro y hy
          obtain ⟨my, a, b⟩ := hdepsok y hy
          refine ⟨my, by rw [hmemo]; exact memo_fresh_mono ord.fresh a, b, ?_⟩
          rw [hdd, lookup_map_self _ _ _ hy]
          simp [memoData, a]
        have hlen : dd.length = (depsOf t x d).length := by rw [hdd, List.length_map]
        cases hk : d.kind with
        | src =>
          obtain ⟨he, hwa⟩ := applySteps_exec_src P t o s.w x d info dd hk
          rw [hwa] at hw
          rw [hmemo, he] at hx; simp at hx; subst hx
          refine ⟨d, hd, ?_, ?_, ?_, ?_, ?_, ?_⟩ <;> rw [hw] <;> simp [semRec, upToDate, hk, attrsOK]
          · exact hdeps
          · exact Or.inr hlen
        | fn =>
          cases hf : o.fails x with
          | true =>
            obtain ⟨he, _⟩ := applySteps_exec_fn_fail P t o s.w x d info dd hk hf
            rw [hmemo, he] at hx; simp [failedRes] at hx; subst hx; cases hok
          | false =>
            obtain ⟨he, hwa⟩ := applySteps_exec_fn_ok P t o s.w x d info dd hk hf
            rw [hwa] at hw
            rw [hmemo, he] at hx; simp at hx; subst hx
            refine ⟨d, hd, ?_, ?_, ?_, ?_, ?_, by rw [hw]; simp [semRec, attrsOK]⟩
            · rw [hw]; simp [semRec]
            · rw [hw]; simp [semRec]
            · rw [hw]
              simp only [semRec, upd_same, Option.getD_some, upToDate, hk]
              split
              · rfl
              simp only [beq_self_eq_true, Bool.true_and, List.all_eq_true, bne_iff_ne, ne_eq]
              intro g hg
              have hnd : ((bodyWrites P t s.w x d).map (·.1)).Nodup := by
                rw [bodyWrites_fst, hc.gens x d hd hk]; exact S.gensNodup x d.env
              rw [writeAll_mem _ _ g _ hnd (mem_bodyWrites P t s.w x d g hg)]
              simp
            · rw [hw]; simpa [semRec] using hdeps
            · rw [hw]; simp [semRec, hlen]
  · obtain ⟨res, hmemo⟩ := visit_memo P t o s l
    rw [hmemo, upd_other _ _ _ _ hxl] at hx
    cases hd : t.defs l with
    | none =>
      -- nothing changes but the memo
      obtain ⟨dx, hdx, h1, h2, h3, h4, h5, h6⟩ := si x m hx hok
      have hw : (visit P t o s l).w = s.w := by simp [visit, hd]
      refine ⟨dx, hdx, by rw [hw]; exact h1, by rw [hw]; exact h2, by rw [hw]; exact h3, ?_, by rw [hw]; exact h5, by rw [hw]; exact h6⟩
      intro y hy
      obtain ⟨my, a, b, c⟩ := h4 y hy
      exact ⟨my, by rw [hmemo]; exact memo_fresh_mono ord.fresh a, b, by rw [hw]; exact c⟩
    | some d => exact settled_frame hc ord (by simp [hd]) hx hok (si x m hx hok)

end Dawn.Build

namespace Dawn.Build

theorem sinv_init (P : Params) (t : Tree) (w : World) : SInv P t (BSt.init w) := by
  intro x m h; simp [BSt.init] at h

theorem build_settled {P : Params} {S : Shape} {t : Tree} {o : Opts} (hc : Conforms S t) (hdry : o.dry = false) :
    ∀ (ord : List Label) (s : BSt), SInv P t s → Ordered P t o s ord → SInv P t (build P t o s ord) := by
  intro ord
  induction ord with
  | nil => intro s si _; exact si
  | cons l rest ih => intro s si ho; exact ih _ (visit_settled hc hdry si ho.1) ho.2

/-- when the skip test passes, the plan is to skip -/
theorem plan_skip_of {P : Params} {t : Tree} {o : Opts} {s : BSt} {l : Label} {d : Def}
    (hal : o.always = false)
    (hdeps : ∀ y ∈ depsOf t l d, ∃ m, s.memo y = some m ∧ m.ok = true ∧ m.changed = false ∧
      (loadedInfo s.w l d).deps.lookup y = some m.data)
    (hlen : (!P.depCount || (loadedInfo s.w l d).deps.length == (depsOf t l d).length) = true)
    (hattrs : attrsOK P d (loadedInfo s.w l d) = true)
    (hup : upToDate P s.w d (loadedInfo s.w l d) = true) (hrr : (loadedInfo s.w l d).rerun = false) :
    plan P t o s l d = .skip (loadedInfo s.w l d) := by
  unfold plan
  simp only
  split
  · rename_i x hx
    have hmem := List.mem_of_find?_eq_some hx
    have hpred := List.find?_some hx
    obtain ⟨m, hm, hok, _, _⟩ := hdeps x hmem
    simp [hm, hok] at hpred
  · split
    · rfl
    · rename_i hcond
      exfalso
      apply hcond
      simp only [Bool.and_eq_true, Bool.not_eq_eq_eq_not, Bool.not_true]
      refine ⟨⟨⟨hal, ⟨?_, hlen⟩, hattrs⟩, hup⟩, hrr⟩
      apply List.all_eq_true.mpr
      intro y hy
      obtain ⟨m, hm, _, hch, hl⟩ := hdeps y hy
      simp [hm, hl, hch]

/-- the state of a second build while it has skipped everything so far -/
structure Quiet (P : Params) (w1 : World) (s : BSt) (seen : List Label) : Prop where
  files : s.w.files = w1.files
  recs : ∀ l, semRec (s.w.recs l) = semRec (w1.recs l)
  execs : s.execs = []
  steps : s.steps = []
  evs : ∀ e ∈ s.evs, ∃ l, e = .upToDate l
  memo : ∀ y ∈ seen, s.memo y = some ⟨true, false, stampOf P (semRec (w1.recs y)), false⟩

/-- the remaining targets come dependencies-first -/
def DepsFirst (t : Tree) : List Label → List Label → Prop
  | _, [] => True
  | seen, x :: rest => (∀ d, t.defs x = some d → ∀ y ∈ depsOf t x d, y ∈ seen) ∧ DepsFirst t (x :: seen) rest

theorem rebuild_quiet {P : Params} {t : Tree} {o2 : Opts} (hna : NoAlways t) (hal : o2.always = false)
    {s1 : BSt} (si : SInv P t s1) :
    ∀ (ord : List Label) (seen : List Label) (s : BSt),
      (∀ x ∈ ord, ∃ m, s1.memo x = some m ∧ m.ok = true) → (∀ x ∈ seen, ∃ m, s1.memo x = some m ∧ m.ok = true) →
      DepsFirst t seen ord → Quiet P s1.w s seen →
      Quiet P s1.w (build P t o2 s ord) (ord.reverse ++ seen) := by
  intro ord
  induction ord with
  | nil => intro seen s _ _ _ q; simpa [build] using q
  | cons x rest ih =>
    intro seen s hok hseen hdf q
    obtain ⟨mx, hmx, hmxok⟩ := hok x List.mem_cons_self
    obtain ⟨d, hd, hrr, _, hup, hdeps, hlen, hattrs⟩ := si x mx hmx hmxok
    have hinfo : loadedInfo s.w x d = semRec (s1.w.recs x) := by
      rw [loadedInfo_noAlways (hna x d hd)]; exact q.recs x
    have hplan : plan P t o2 s x d = .skip (semRec (s1.w.recs x)) := by
      rw [← hinfo]
      apply plan_skip_of hal
      · intro y hy
        have hys := hdf.1 d hd y hy
        obtain ⟨my, hmy, hmyok, hl⟩ := hdeps y hy
        obtain ⟨_, _, _, hdata, _, _⟩ := si y my hmy hmyok
        refine ⟨_, q.memo y hys, rfl, rfl, ?_⟩
        rw [hinfo, hl, hdata]
      · rw [hinfo]; exact hlen
      · rw [hinfo]; exact hattrs
      · rw [hinfo, upToDate_congr P d _ q.files]; exact hup
      · rw [hinfo]; exact hrr
    have hv : visit P t o2 s x = { s with memo := upd s.memo x (some ⟨true, false, stampOf P (semRec (s1.w.recs x)), false⟩),
                                          evs := .upToDate x :: s.evs } := by
      simp [visit, hd, hplan]
    simp only [build]
    have := ih (x :: seen) (visit P t o2 s x) (fun y hy => hok y (List.mem_cons_of_mem _ hy))
      (by intro y hy; rcases List.mem_cons.mp hy with e | e; exact e ▸ ⟨mx, hmx, hmxok⟩; exact hseen y e)
      hdf.2
      (by
        rw [hv]
        refine ⟨q.files, q.recs, q.execs, q.steps, ?_, ?_⟩
        · intro e he
          rcases List.mem_cons.mp he with h | h
          · exact ⟨x, h⟩
          · exact q.evs e h
        · intro y hy
          simp only
          by_cases e : y = x
          · subst e; simp
          · rw [upd_other _ _ _ _ e]
            rcases List.mem_cons.mp hy with h | h
            · exact absurd h e
            · exact q.memo y h)
    simpa [List.reverse_cons, List.append_assoc] using this

end Dawn.Build

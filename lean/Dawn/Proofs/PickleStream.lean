import Dawn.Proofs.PickleTop
/-! Several values through one Encoder and one Decoder (both keep their memo across calls): the values read back are
the values written, with the sharing across them. -/
namespace Dawn.Pickle

theorem decodeNext_steps (cfg : DecCfg) : ∀ (ops : List Op) (ds ds' : DecSt) (fuel : Nat) (rest : Bytes),
    (∀ op ∈ ops, op.wf) → steps cfg ds ops = some ds' →
    decodeNext cfg (ops.length + fuel) ds (serAll ops ++ rest) = decodeNext cfg fuel ds' rest := by
  intro ops
  induction ops with
  | nil =>
    intro ds ds' fuel rest _ h
    simp only [steps, Option.some.injEq] at h; subst h
    simp [serAll]
  | cons op ops ih =>
    intro ds ds' fuel rest hw h
    simp only [steps] at h
    split at h
    · rename_i d1 hs
      rw [serAll_cons, List.append_assoc]
      have : (op :: ops).length + fuel = (ops.length + fuel) + 1 := by simp; omega
      rw [this, decodeNext, parseOp_ser op _ (hw op (by simp))]
      simp only [hs]
      exact ih d1 ds' fuel rest (fun o ho => hw o (by simp [ho])) h
    · cases h

theorem decodeNext_stop (cfg : DecCfg) (fuel : Nat) (ds : DecSt) (v : Val) (stk : List Val) (rest : Bytes)
    (hs : ds.stack = v :: stk) :
    decodeNext cfg (fuel + 1) ds (ser .stop ++ rest) = .value v { ds with stack := stk } rest := by
  rw [decodeNext, parseOp_ser .stop rest trivial]
  simp [stepOp, hs]

theorem stream_spec {cfgD : DecCfg} (cfgE : EncCfg) (hre : cfgE.rebatch = false) (g : Heap) (hG : GraphOK cfgD g) (fuel : Nat) :
    ∀ (vs : List Val) (st st' : EncSt) (ops : List Op) (ds : DecSt) (rest : Bytes) (acc : List Val),
      encStream cfgE g fuel st vs = some (st', ops) → Sim g st ds → (∀ v ∈ vs, v.sizeOK = true) →
      ∃ ds', decodeStream cfgD vs.length ds (serAll ops ++ rest) acc = .ok (acc ++ vs) ds'.heap ∧ Post g st st' ds ds' := by
  intro vs
  induction vs with
  | nil =>
    intro st st' ops ds rest acc h hs _
    simp only [encStream, Option.some.injEq, Prod.mk.injEq] at h
    obtain ⟨rfl, rfl⟩ := h
    exact ⟨ds, by simp [decodeStream], Post.refl g hs⟩
  | cons v vs ih =>
    intro st st' ops ds rest acc h hs hsz
    simp only [encStream] at h
    cases h1 : encVal cfgE g fuel st v with
    | none => simp [h1] at h
    | some p1 =>
      obtain ⟨st1, ops1⟩ := p1
      simp only [h1] at h
      cases h2 : encStream cfgE g fuel st1 vs with
      | none => simp [h2] at h
      | some p2 =>
        obtain ⟨st2, ops2⟩ := p2
        simp only [h2, Option.some.injEq, Prod.mk.injEq] at h
        obtain ⟨rfl, rfl⟩ := h
        obtain ⟨d1, r1, s1, p1, _, w1⟩ := encVal_spec cfgE hre hG fuel st v st1 ops1 ds h1 hs (hsz v (by simp))
        -- the state after STOP: the value popped
        let d1' : DecSt := { d1 with stack := ds.stack }
        have sim1' : Sim g st1 d1' := p1.sim.restack ds.stack (fun x hx => p1.sim.closed.stack x (by rw [s1]; simp [hx]))
        have p1' : Post g st st1 ds d1' := ⟨sim1', p1.mono, p1.frame, p1.fresh⟩
        obtain ⟨ds', e2, p2⟩ := ih st1 st2 ops2 d1' rest (acc ++ [v]) h2 sim1' (fun x hx => hsz x (by simp [hx]))
        refine ⟨ds', ?_, p1'.trans p2⟩
        have hser : serAll (ops1 ++ [Op.stop] ++ ops2) ++ rest = serAll ops1 ++ (ser .stop ++ (serAll ops2 ++ rest)) := by
          simp [serAll, List.append_assoc]
        rw [hser]
        simp only [List.length_cons, decodeStream]
        have hl := serAll_length_ge ops1
        have hfuel : (serAll ops1 ++ (ser Op.stop ++ (serAll ops2 ++ rest))).length + 1 =
            ops1.length + (((serAll ops1 ++ (ser Op.stop ++ (serAll ops2 ++ rest))).length - ops1.length) + 1) := by
          simp only [List.length_append]; omega
        rw [hfuel, decodeNext_steps cfgD ops1 ds d1 _ _ w1 r1, decodeNext_stop cfgD _ d1 v ds.stack _ s1]
        simp only
        rw [e2]
        simp

/-- the byte-level round trip of a stream -/
theorem roundtrip_stream {cfgD : DecCfg} (cfgE : EncCfg) (hre : cfgE.rebatch = false) (g : MGraph) (hG : GraphOK cfgD g.heap)
    (hroots : ∀ v ∈ g.roots, v.sizeOK = true) (bs : Bytes) (h : encodeStream cfgE g = some bs) :
    decodeStream cfgD g.roots.length {} bs [] = .ok g.roots g.heap := by
  simp only [encodeStream] at h
  split at h
  · rename_i st ops henc
    split at h
    · rename_i hall
      simp only [Option.some.injEq] at h; subst h
      obtain ⟨ds', e, p⟩ := stream_spec cfgE hre g.heap hG _ g.roots ⟨[], 0⟩ st ops {} [] [] henc (sim_init g.heap) hroots
      simp only [List.append_nil, List.nil_append] at e
      rw [e]
      congr 1
      apply List.ext_getElem?
      intro a
      by_cases ha : a < st.next
      · exact p.fresh a (Nat.zero_le _) ha
      · have h1 : ds'.heap.length ≤ a := by rw [p.sim.hlen]; omega
        have h2 : g.heap.length ≤ a := by omega
        simp [List.getElem?_eq_none h1, List.getElem?_eq_none h2]
    · cases h
  · cases h

end Dawn.Pickle

import Dawn.Model.Pickle
/-! Byte layer of the pickle model: every parsed op consumes at least one byte; `parseOp` inverts `ser`. -/
namespace Dawn.Pickle

theorem readLine_length : ∀ (bs l r : Bytes), readLine bs = some (l, r) → r.length < bs.length := by
  intro bs
  induction bs with
  | nil => intro l r h; simp [readLine] at h
  | cons c rest ih =>
    intro l r h
    simp only [readLine] at h
    split at h
    · simp only [Option.some.injEq, Prod.mk.injEq] at h; obtain ⟨_, rfl⟩ := h; simp
    · split at h
      · rename_i l' r' h'
        simp only [Option.some.injEq, Prod.mk.injEq] at h; obtain ⟨_, rfl⟩ := h
        have := ih l' r' h'
        simp only [List.length_cons]; omega
      · cases h

theorem parseStr_length (mk : Bytes → Op) (n : Nat) (bs : Bytes) (o : Op) (rest : Bytes)
    (h : parseStr mk n bs = .op o rest) : rest.length ≤ bs.length := by
  simp only [parseStr, readN] at h
  split at h
  · rename_i s r hs
    split at hs
    · simp only [Option.some.injEq, Prod.mk.injEq] at hs
      simp only [Parsed.op.injEq] at h
      obtain ⟨_, rfl⟩ := hs; obtain ⟨_, rfl⟩ := h
      simp
    · cases hs
  · cases h

theorem parseArm_length (arm : Op) (bs : Bytes) (o : Op) (rest : Bytes) (h : parseArm arm bs = .op o rest) :
    rest.length ≤ bs.length := by
  unfold parseArm at h
  split at h
  all_goals first
    | (simp only [Parsed.op.injEq] at h; obtain ⟨_, rfl⟩ := h; (try simp only [List.length_cons]); omega)
    | (cases h; done)
    | (have := parseStr_length _ _ _ _ _ h; simp only [List.length_cons]; omega)
    | (split at h
       · rename_i hl; simp only [Parsed.op.injEq] at h; obtain ⟨_, rfl⟩ := h
         have := readLine_length _ _ _ hl; omega
       · cases h)

/-- every iteration of the decoder loop consumes at least one byte -/
theorem parseOp_length (bs : Bytes) (o : Op) (rest : Bytes) (h : parseOp bs = .op o rest) :
    rest.length < bs.length := by
  cases bs with
  | nil => simp [parseOp] at h
  | cons b bs =>
    simp only [parseOp] at h
    split at h
    · have := parseArm_length _ _ _ _ h; simp only [List.length_cons]; omega
    · cases h

/-! ### `parseOp` inverts `ser` -/

theorem byte_toNat (n : Nat) : (byte n).toNat = n % 256 := by
  simp [byte]

theorem rd32_le32 (n : Nat) (h : n < 4294967296) :
    rd32 (byte n) (byte (n / 256)) (byte (n / 65536)) (byte (n / 16777216)) = n := by
  simp only [rd32, byte_toNat]; omega

theorem readN_append (s rest : Bytes) : readN s.length (s ++ rest) = some (s, rest) := by
  simp [readN]

theorem readLine_append : ∀ (text rest : Bytes), newline ∉ text → readLine (text ++ newline :: rest) = some (text, rest) := by
  intro text
  induction text with
  | nil => intro rest _; simp [readLine]
  | cons c t ih =>
    intro rest h
    simp only [List.mem_cons, not_or] at h
    simp only [List.cons_append, readLine, if_neg (Ne.symm h.1), ih rest h.2]

theorem parseOp_cons (b : UInt8) (bs : Bytes) (arm : Op) (h : armOf b = some arm) : parseOp (b :: bs) = parseArm arm bs := by
  simp only [parseOp, h]

theorem ser_le32 (b : UInt8) (n : Nat) (rest : Bytes) : b :: (le32 n ++ rest) =
    b :: byte n :: byte (n / 256) :: byte (n / 65536) :: byte (n / 16777216) :: rest := by simp [le32]

theorem parse_longBinget (id : Nat) (rest : Bytes) (hw : id < 4294967296) :
    parseOp (opLONG_BINGET :: byte id :: byte (id / 256) :: byte (id / 65536) :: byte (id / 16777216) :: rest) =
      .op (.longBinget id) rest := by
  rw [parseOp_cons _ _ (.longBinget 0) (by decide)]
  simp only [parseArm]
  rw [rd32_le32 _ hw]

theorem parse_binint (w : Nat) (rest : Bytes) (hw : w < 4294967296) :
    parseOp (opBININT :: byte w :: byte (w / 256) :: byte (w / 65536) :: byte (w / 16777216) :: rest) =
      .op (.binint w) rest := by
  rw [parseOp_cons _ _ (.binint 0) (by decide)]
  simp only [parseArm]
  rw [rd32_le32 _ hw]

theorem parse_binunicode (s rest : Bytes) (hw : s.length < 4294967296) :
    parseOp (opBINUNICODE :: byte s.length :: byte (s.length / 256) :: byte (s.length / 65536) :: byte (s.length / 16777216) :: (s ++ rest)) =
      .op (.binunicode s) rest := by
  rw [parseOp_cons _ _ (.binunicode []) (by decide)]
  simp only [parseArm]
  rw [rd32_le32 _ hw]
  simp only [parseStr, readN_append]

theorem parse_binbytes (s rest : Bytes) (hw : s.length < 4294967296) :
    parseOp (opBINBYTES :: byte s.length :: byte (s.length / 256) :: byte (s.length / 65536) :: byte (s.length / 16777216) :: (s ++ rest)) =
      .op (.binbytes s) rest := by
  rw [parseOp_cons _ _ (.binbytes []) (by decide)]
  simp only [parseArm]
  rw [rd32_le32 _ hw]
  simp only [parseStr, readN_append]

theorem parse_short (op : UInt8) (mk : Bytes → Op) (arm : Op) (harm : armOf op = some arm)
    (hp : ∀ x r, parseArm arm (x :: r) = parseStr mk x.toNat r) (s rest : Bytes) (hw : s.length < 256) :
    parseOp (op :: byte s.length :: (s ++ rest)) = .op (mk s) rest := by
  rw [parseOp_cons _ _ arm harm, hp, byte_toNat, Nat.mod_eq_of_lt hw]
  simp only [parseStr, readN_append]

theorem parse_binfloat (w : Nat) (rest : Bytes) (hw : w < 18446744073709551616) :
    parseOp (opBINFLOAT :: byte w :: byte (w / 256) :: byte (w / 65536) :: byte (w / 16777216) ::
        byte (w / 4294967296) :: byte (w / 4294967296 / 256) :: byte (w / 4294967296 / 65536) :: byte (w / 4294967296 / 16777216) :: rest) =
      .op (.binfloat w) rest := by
  rw [parseOp_cons _ _ (.binfloat 0) (by decide)]
  have h1 : rd32 (byte w) (byte (w / 256)) (byte (w / 65536)) (byte (w / 16777216)) = w % 4294967296 := by
    simp only [rd32, byte_toNat]; omega
  have h2 := rd32_le32 (w / 4294967296) (by omega)
  simp only [parseArm, h1, h2]
  congr 2
  omega

theorem ser_binfloat (w : Nat) (rest : Bytes) : ser (.binfloat w) ++ rest =
    opBINFLOAT :: byte w :: byte (w / 256) :: byte (w / 65536) :: byte (w / 16777216) ::
        byte (w / 4294967296) :: byte (w / 4294967296 / 256) :: byte (w / 4294967296 / 65536) :: byte (w / 4294967296 / 16777216) :: rest := by
  simp [ser, le64, le32]

theorem ser_binunicode (s rest : Bytes) : ser (.binunicode s) ++ rest =
    opBINUNICODE :: byte s.length :: byte (s.length / 256) :: byte (s.length / 65536) :: byte (s.length / 16777216) :: (s ++ rest) := by
  simp [ser, le32]

theorem ser_binbytes (s rest : Bytes) : ser (.binbytes s) ++ rest =
    opBINBYTES :: byte s.length :: byte (s.length / 256) :: byte (s.length / 65536) :: byte (s.length / 16777216) :: (s ++ rest) := by
  simp [ser, le32]

theorem ser_longBinget (id : Nat) (rest : Bytes) : ser (.longBinget id) ++ rest =
    opLONG_BINGET :: byte id :: byte (id / 256) :: byte (id / 65536) :: byte (id / 16777216) :: rest := by
  simp [ser, le32]

theorem ser_binint (w : Nat) (rest : Bytes) : ser (.binint w) ++ rest =
    opBININT :: byte w :: byte (w / 256) :: byte (w / 65536) :: byte (w / 16777216) :: rest := by
  simp [ser, le32]

theorem ser_int (text rest : Bytes) : ser (.int text) ++ rest = opINT :: (text ++ newline :: rest) := by simp [ser]

/-- C07_bytes: reading back what was written for one op yields that op and leaves the rest of the input -/
theorem parseOp_ser (op : Op) (rest : Bytes) (hw : op.wf) : parseOp (ser op ++ rest) = .op op rest := by
  cases op
  case binget id =>
    simp only [Op.wf] at hw
    show parseOp (opBINGET :: byte id :: rest) = _
    rw [parseOp_cons _ _ (.binget 0) (by decide)]
    simp only [parseArm, byte_toNat, Nat.mod_eq_of_lt hw]
  case longBinget id => rw [ser_longBinget]; exact parse_longBinget id rest hw
  case int text =>
    simp only [Op.wf] at hw
    rw [ser_int, parseOp_cons _ _ (.int []) (by decide)]
    simp only [parseArm, readLine_append text rest hw]
  case binint1 n =>
    simp only [Op.wf] at hw
    show parseOp (opBININT1 :: byte n :: rest) = _
    rw [parseOp_cons _ _ (.binint1 0) (by decide)]
    simp only [parseArm, byte_toNat, Nat.mod_eq_of_lt hw]
  case binint2 l h =>
    simp only [Op.wf] at hw
    show parseOp (opBININT2 :: byte l :: byte h :: rest) = _
    rw [parseOp_cons _ _ (.binint2 0 0) (by decide)]
    simp only [parseArm, byte_toNat, Nat.mod_eq_of_lt hw.1, Nat.mod_eq_of_lt hw.2]
  case binint w => rw [ser_binint]; exact parse_binint w rest hw
  case binfloat w => rw [ser_binfloat]; exact parse_binfloat w rest hw
  case shortBinunicode s =>
    show parseOp (opSHORT_BINUNICODE :: byte s.length :: (s ++ rest)) = _
    exact parse_short _ .shortBinunicode (.shortBinunicode []) (by decide) (fun x r => by simp only [parseArm]) s rest hw
  case binunicode s => rw [ser_binunicode]; exact parse_binunicode s rest hw
  case shortBinbytes s =>
    show parseOp (opSHORT_BINBYTES :: byte s.length :: (s ++ rest)) = _
    exact parse_short _ .shortBinbytes (.shortBinbytes []) (by decide) (fun x r => by simp only [parseArm]) s rest hw
  case binbytes s => rw [ser_binbytes]; exact parse_binbytes s rest hw
  case mark => exact parseOp_cons _ _ .mark (by decide)
  case stop => exact parseOp_cons _ _ .stop (by decide)
  case memoize => exact parseOp_cons _ _ .memoize (by decide)
  case none => exact parseOp_cons _ _ .none (by decide)
  case newtrue => exact parseOp_cons _ _ .newtrue (by decide)
  case newfalse => exact parseOp_cons _ _ .newfalse (by decide)
  case emptyList => exact parseOp_cons _ _ .emptyList (by decide)
  case append => exact parseOp_cons _ _ .append (by decide)
  case appends => exact parseOp_cons _ _ .appends (by decide)
  case emptyTuple => exact parseOp_cons _ _ .emptyTuple (by decide)
  case tuple1 => exact parseOp_cons _ _ .tuple1 (by decide)
  case tuple2 => exact parseOp_cons _ _ .tuple2 (by decide)
  case tuple3 => exact parseOp_cons _ _ .tuple3 (by decide)
  case tuple => exact parseOp_cons _ _ .tuple (by decide)
  case emptyDict => exact parseOp_cons _ _ .emptyDict (by decide)
  case setitems => exact parseOp_cons _ _ .setitems (by decide)
  case emptySet => exact parseOp_cons _ _ .emptySet (by decide)
  case additems => exact parseOp_cons _ _ .additems (by decide)
  case stackGlobal => exact parseOp_cons _ _ .stackGlobal (by decide)
  case newobj => exact parseOp_cons _ _ .newobj (by decide)

theorem ser_length_pos (op : Op) : 0 < (ser op).length := by
  cases op <;> simp [ser]

end Dawn.Pickle

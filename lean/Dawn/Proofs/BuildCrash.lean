import Dawn.Proofs.BuildInv
/-!
# Crash prefixes (C03)

A build is its list of steps (`buildSteps`); a crash at the `k`-th hook point leaves the world reached by the first `k`
steps. Every such world satisfies the persisted-state invariant `DInv`: a record is only ever replaced whole, a
function target's record is marked `rerun` before its body writes anything, and a body writes only paths its label owns.
-/
namespace Dawn.Build

/-- the steps of one visit -/
def visitSteps (P : Params) (t : Tree) (o : Opts) (s : BSt) (l : Label) : List Step :=
  match t.defs l with
  | none => []
  | some d => match plan P t o s l d with
    | .run info dd => (execSteps P t o s.w l d info dd).1
    | _ => []

theorem visit_steps (P : Params) (t : Tree) (o : Opts) (s : BSt) (l : Label) :
    (visit P t o s l).steps = (visitSteps P t o s l).reverse ++ s.steps ∧
    (visit P t o s l).w = applySteps s.w (visitSteps P t o s l) := by
  unfold visit visitSteps
  cases hd : t.defs l with
  | none => simp
  | some d =>
    simp only
    cases hp : plan P t o s l d <;> simp

/-- the steps of a build, in the order they happen -/
def buildSteps (P : Params) (t : Tree) (o : Opts) : BSt → List Label → List Step
  | _, [] => []
  | s, l :: rest => visitSteps P t o s l ++ buildSteps P t o (visit P t o s l) rest

theorem build_steps (P : Params) (t : Tree) (o : Opts) (ord : List Label) (s : BSt) :
    (build P t o s ord).steps.reverse = s.steps.reverse ++ buildSteps P t o s ord := by
  induction ord generalizing s with
  | nil => simp [build, buildSteps]
  | cons l rest ih =>
    simp only [build, buildSteps]
    rw [ih, (visit_steps P t o s l).1]
    simp

theorem crashBuild_eq (P : Params) (t : Tree) (o : Opts) (ord : List Label) (k : Nat) (w : World) :
    crashBuild P t o ord k w = applySteps (load t w) ((buildSteps P t o (BSt.init (load t w)) ord).take k) := by
  unfold crashBuild
  simp only
  rw [build_steps]
  simp [BSt.init]

/-- same records, same files (temporaries and the index may differ) -/
def SameState (w w' : World) : Prop := w'.recs = w.recs ∧ w'.files = w.files

theorem dinv_same {P : Params} {S : Shape} {w w' : World} {G : Ghost} (di : DInv P S w G) (h : SameState w w') : DInv P S w' G :=
  dinv_of_sem di (fun l => by rw [h.1]) h.2

/-- a prefix of `saveTargetInfo`: nothing visible yet, or the whole record -/
theorem save_prefix (w : World) (l : Label) (r : Rec) (j : Nat) :
    SameState w (applySteps w ((saveSteps l r).take j)) ∨
    ((saveSteps l r).take j = saveSteps l r ∧ applySteps w ((saveSteps l r).take j) = { w with recs := upd w.recs l (some r) }) := by
  rcases j with _ | _ | _ | j
  · left; exact ⟨rfl, rfl⟩
  · left; exact ⟨rfl, rfl⟩
  · left; exact ⟨rfl, rfl⟩
  · right
    have : (saveSteps l r).take (j + 3) = saveSteps l r := by simp [saveSteps]
    rw [this]
    exact ⟨rfl, applySteps_save w l r⟩

/-- steps that at most write generated files of `d` -/
def OnlyWrites (d : Def) (ss : List Step) : Prop :=
  ∀ st ∈ ss, st.eff = none ∨ ∃ g c, st.eff = some (.genWrite g c) ∧ g ∈ d.gens

theorem onlyWrites_apply (d : Def) (ss : List Step) (h : OnlyWrites d ss) (w : World) :
    (applySteps w ss).recs = w.recs ∧ (∀ p, p ∉ d.gens → (applySteps w ss).files p = w.files p) := by
  induction ss generalizing w with
  | nil => exact ⟨rfl, fun _ _ => rfl⟩
  | cons st rest ih =>
    have hrest : OnlyWrites d rest := fun x hx => h x (List.mem_cons_of_mem _ hx)
    obtain ⟨i1, i2⟩ := ih hrest (st.apply w)
    rcases h st List.mem_cons_self with he | ⟨g, c, he, hg⟩
    · have hw : st.apply w = w := by simp [Step.apply, he]
      simp only [applySteps_cons]
      rw [hw] at i1 i2 ⊢
      exact ⟨i1, i2⟩
    · simp only [applySteps_cons]
      refine ⟨by rw [i1]; simp [Step.apply, he, Eff.apply], ?_⟩
      intro p hp
      rw [i2 p hp]
      simp only [Step.apply, he, Eff.apply]
      exact upd_other _ _ _ _ (fun e => hp (e ▸ hg))

theorem onlyWrites_take {d : Def} {ss : List Step} (h : OnlyWrites d ss) (j : Nat) : OnlyWrites d (ss.take j) :=
  fun st hst => h st (List.mem_of_mem_take hst)

theorem take_append_cases {α} (a b : List α) (j : Nat) :
    ((a ++ b).take j = a.take j) ∨ (∃ i, (a ++ b).take j = a ++ b.take i) := by
  by_cases h : j ≤ a.length
  · left
    rw [List.take_append]
    have : j - a.length = 0 := Nat.sub_eq_zero_of_le h
    simp [this]
  · right
    refine ⟨j - a.length, ?_⟩
    rw [List.take_append]
    have : a.take j = a := List.take_of_length_le (Nat.le_of_not_le h)
    rw [this]

end Dawn.Build

namespace Dawn.Build

theorem applySteps_noEff (w : World) (ss : List Step) (h : ∀ st ∈ ss, st.eff = none) : applySteps w ss = w := by
  induction ss generalizing w with
  | nil => rfl
  | cons st rest ih =>
    simp only [applySteps_cons]
    have : st.apply w = w := by simp [Step.apply, h st List.mem_cons_self]
    rw [this]
    exact ih w (fun x hx => h x (List.mem_cons_of_mem _ hx))

theorem loadedInfo_deps (w : World) (l : Label) (d : Def) : (loadedInfo w l d).deps = ((w.recs l).getD emptyRec).deps := by
  unfold loadedInfo
  split <;> rfl

/-- the record of a function target is marked `rerun`, and only files it owns differ: the invariant holds -/
theorem dinv_marked {P : Params} {S : Shape} {t : Tree} {w w' : World} {G : Ghost} {l : Label} {d : Def}
    (hc : Conforms S t) (hd : t.defs l = some d) (hk : d.kind = .fn) (di : DInv P S w G) (hlr : ¬ G.retired l)
    (hrecs : w'.recs = upd w.recs l (some { loadedInfo w l d with rerun := true }))
    (hfiles : ∀ p, p ∉ d.gens → w'.files p = w.files p) : DInv P S w' G := by
  apply dinv_step (T := l) di (r' := { loadedInfo w l d with rerun := true })
  · exact hlr
  · intro x h; exact h
  · intro y hy; rw [hrecs]; simp [upd, hy]
  · rw [hrecs]; simp
  · intro p hp
    apply hfiles
    intro hg
    apply hp
    rw [hc.gens l d hd hk] at hg
    exact S.owned l d.env p hg
  · intro _ _ _ _; rfl
  · intro _ _ _ _; rfl
  · simp [loadedInfo_runs]
  · intro x st h
    simp only [loadedInfo_deps] at h
    have h1 : st.runs ≤ runsOf (w.recs x) ∨ G.retired x := by
      cases hr : w.recs l with
      | none => rw [hr] at h; simp [emptyRec] at h
      | some r => rw [hr] at h; exact di.runs_le l r hr x st h
    rcases h1 with h1 | h1
    · left
      refine Nat.le_trans h1 ?_
      rw [hrecs]
      by_cases e : x = l
      · subst e; simp [runsOf, loadedInfo_runs]
      · simp [upd, e]
    · exact Or.inr h1
  · intro h; rw [← hc.kind l d hd, hk] at h; cases h
  · intro h; cases h

/-- the step list of an executing function target: mark, then steps that only write its generated files, then the record -/
theorem execSteps_fn_shape (P : Params) (t : Tree) (o : Opts) (w : World) (l : Label) (d : Def) (info : Rec)
    (dd : List (Label × Stamp)) (hm : P.marker = true) (hk : d.kind = .fn) :
    ∃ mid r, OnlyWrites d mid ∧
      (execSteps P t o w l d info dd).1 = saveSteps l { info with rerun := true } ++ (mid ++ saveSteps l r) := by
  cases hf : o.fails l with
  | true =>
    refine ⟨[⟨none, .bodyBefore, l⟩] ++ (match d.gens with | g :: _ => [Step.mk (some (.genWrite g 0)) .bodyWrote l] | [] => []) ++
        [⟨none, .bodyAfter, l⟩, ⟨none, .recordFailure, l⟩], ⟨dd, .empty, true, info.runs, none⟩, ?_, ?_⟩
    · intro st hst
      simp only [List.mem_append, List.mem_singleton, List.mem_cons, List.not_mem_nil, or_false] at hst
      rcases hst with (hst | hst) | hst | hst
      · left; rw [hst]
      · cases hg : d.gens with
        | nil => rw [hg] at hst; cases hst
        | cons g rest =>
          rw [hg] at hst
          simp only [List.mem_singleton] at hst
          right; exact ⟨g, 0, by rw [hst], List.mem_cons_self⟩
      · left; rw [hst]
      · left; rw [hst]
    · simp only [execSteps, hk, hf, hm, if_true, List.append_assoc]
      cases d.gens <;> rfl
  | false =>
    refine ⟨[⟨none, .bodyBefore, l⟩] ++ ((bodyWrites P t w l d).map fun gc => Step.mk (some (.genWrite gc.1 gc.2)) .bodyWrote l) ++
        [⟨none, .bodyAfter, l⟩, ⟨none, .recordSuccess, l⟩], ⟨dd, .env d.env, false, info.runs + 1, some (attrsOf d)⟩, ?_, ?_⟩
    · intro st hst
      simp only [List.mem_append, List.mem_singleton, List.mem_cons, List.not_mem_nil, or_false, List.mem_map] at hst
      rcases hst with (hst | ⟨gc, hgc, hst⟩) | hst | hst
      · left; rw [hst]
      · right
        refine ⟨gc.1, gc.2, by rw [← hst], ?_⟩
        have := List.mem_map_of_mem (f := (·.1)) hgc
        rwa [bodyWrites_fst] at this
      · left; rw [hst]
      · left; rw [hst]
    · simp [execSteps, hk, hf, hm, List.append_assoc]

theorem execSteps_src_shape (P : Params) (t : Tree) (o : Opts) (w : World) (l : Label) (d : Def) (info : Rec)
    (dd : List (Label × Stamp)) (hk : d.kind = .src) :
    ∃ r, (execSteps P t o w l d info dd).1 =
      [⟨none, .bodyBefore, l⟩, ⟨none, .bodyAfter, l⟩, ⟨none, .recordSuccess, l⟩] ++ saveSteps l r := by
  exact ⟨⟨dd, srcData P (w.files d.path), false, info.runs, none⟩, by simp [execSteps, hk]⟩

/-- every prefix of the effects of one visit leaves a state that satisfies the persisted invariant -/
theorem visit_prefix_dinv {P : Params} {S : Shape} {t : Tree} {o : Opts} {s : BSt} {G : Ghost} {l : Label}
    (hc : Conforms S t) (hinj : SumInj P) (hsr : P.stampRuns = true) (hlc : P.listCheck = true) (hmk : P.marker = true) (hdry : o.dry = false)
    (di : DInv P S s.w G) (mi : MInv P S t s G) (ord : Order t s l) (hret : ∀ x, G.retired x → t.defs x = none) (j : Nat) :
    ∃ G', DInv P S (applySteps s.w ((visitSteps P t o s l).take j)) G' ∧ G'.retired = G.retired := by
  obtain ⟨Gv, div, _, hrv⟩ := visit_inv hc hinj hsr hlc hdry di mi ord hret
  have hfull := (visit_steps P t o s l).2
  unfold visitSteps at *
  cases hd : t.defs l with
  | none => exact ⟨G, by simpa using di, rfl⟩
  | some d =>
    have hlr : ¬ G.retired l := by
      intro h; have := hret l h; rw [hd] at this; cases this
    simp only [hd] at hfull ⊢
    cases hp : plan P t o s l d with
    | depFailed _ => exact ⟨G, by simpa using di, rfl⟩
    | skip _ => exact ⟨G, by simpa using di, rfl⟩
    | dry _ => exact ⟨G, by simpa using di, rfl⟩
    | run info dd =>
      simp only [hp] at hfull ⊢
      obtain ⟨hinfo, _, _, _⟩ := plan_run hp
      cases hk : d.kind with
      | src =>
        obtain ⟨r, hshape⟩ := execSteps_src_shape P t o s.w l d info dd hk
        rw [hshape] at hfull ⊢
        rcases take_append_cases [⟨none, .bodyBefore, l⟩, ⟨none, .bodyAfter, l⟩, ⟨none, .recordSuccess, l⟩] (saveSteps l r) j with h | ⟨i, h⟩
        · rw [h, applySteps_noEff]
          · exact ⟨G, di, rfl⟩
          · intro st hst
            have := List.mem_of_mem_take hst
            simp only [List.mem_cons, List.not_mem_nil, or_false] at this
            rcases this with e | e | e <;> rw [e]
        · rw [h, applySteps_append, applySteps_noEff s.w _ (by
            intro st hst
            simp only [List.mem_cons, List.not_mem_nil, or_false] at hst
            rcases hst with e | e | e <;> rw [e])]
          rcases save_prefix s.w l r i with hs | ⟨he, _⟩
          · exact ⟨G, dinv_same di hs, rfl⟩
          · rw [he]
            rw [applySteps_append, applySteps_noEff s.w _ (by
              intro st hst
              simp only [List.mem_cons, List.not_mem_nil, or_false] at hst
              rcases hst with e | e | e <;> rw [e])] at hfull
            rw [← hfull]; exact ⟨Gv, div, hrv⟩
      | fn =>
        obtain ⟨mid, r, hmid, hshape⟩ := execSteps_fn_shape P t o s.w l d info dd hmk hk
        rw [hshape] at hfull ⊢
        have hminfo : ({ info with rerun := true } : Rec) = { loadedInfo s.w l d with rerun := true } := by rw [hinfo]
        rcases take_append_cases (saveSteps l { info with rerun := true }) (mid ++ saveSteps l r) j with h | ⟨i, h⟩
        · rw [h]
          rcases save_prefix s.w l { info with rerun := true } j with hs | ⟨_, he⟩
          · exact ⟨G, dinv_same di hs, rfl⟩
          · rw [he]
            exact ⟨G, dinv_marked hc hd hk di hlr (by simp [hminfo]) (fun _ _ => rfl), rfl⟩
        · rw [h, applySteps_append, applySteps_save]
          rcases take_append_cases mid (saveSteps l r) i with h2 | ⟨i2, h2⟩
          · rw [h2]
            obtain ⟨o1, o2⟩ := onlyWrites_apply d _ (onlyWrites_take hmid i)
              ({ s.w with recs := upd s.w.recs l (some { info with rerun := true }) })
            exact ⟨G, dinv_marked hc hd hk di hlr (by rw [o1, hminfo]) (fun p hp => by rw [o2 p hp]), rfl⟩
          · rw [h2, applySteps_append]
            obtain ⟨o1, o2⟩ := onlyWrites_apply d _ hmid
              ({ s.w with recs := upd s.w.recs l (some { info with rerun := true }) })
            rcases save_prefix (applySteps { s.w with recs := upd s.w.recs l (some { info with rerun := true }) } mid) l r i2 with hs | ⟨he, _⟩
            · exact ⟨G, dinv_marked hc hd hk di hlr (by rw [hs.1, o1, hminfo]) (fun p hp => by rw [hs.2, o2 p hp]), rfl⟩
            · rw [he]
              rw [applySteps_append, applySteps_save, applySteps_append] at hfull
              rw [← hfull]; exact ⟨Gv, div, hrv⟩

end Dawn.Build

namespace Dawn.Build

theorem build_prefix_dinv {P : Params} {S : Shape} {t : Tree} {o : Opts}
    (hc : Conforms S t) (hinj : SumInj P) (hsr : P.stampRuns = true) (hlc : P.listCheck = true) (hmk : P.marker = true) (hdry : o.dry = false) :
    ∀ (ord : List Label) (s : BSt) (G : Ghost), DInv P S s.w G → MInv P S t s G → Ordered P t o s ord →
      (∀ x, G.retired x → t.defs x = none) →
      ∀ k, ∃ G', DInv P S (applySteps s.w ((buildSteps P t o s ord).take k)) G' ∧ G'.retired = G.retired := by
  intro ord
  induction ord with
  | nil => intro s G di _ _ _ k; exact ⟨G, by simpa [buildSteps] using di, rfl⟩
  | cons l rest ih =>
    intro s G di mi ho hret k
    simp only [buildSteps]
    rcases take_append_cases (visitSteps P t o s l) (buildSteps P t o (visit P t o s l) rest) k with h | ⟨i, h⟩
    · rw [h]
      exact visit_prefix_dinv hc hinj hsr hlc hmk hdry di mi ho.1 hret k
    · rw [h, applySteps_append, ← (visit_steps P t o s l).2]
      obtain ⟨G1, di1, mi1, hr1⟩ := visit_inv hc hinj hsr hlc hdry di mi ho.1 hret
      obtain ⟨G2, di2, hr2⟩ := ih _ G1 di1 mi1 ho.2 (by rw [hr1]; exact hret) i
      exact ⟨G2, di2, by rw [hr2, hr1]⟩

/-- C03: whatever hook point a build dies at, the persisted state satisfies the invariant -/
theorem crash_dinv {P : Params} {S : Shape} {t : Tree} {o : Opts}
    (hc : Conforms S t) (hinj : SumInj P) (hsr : P.stampRuns = true) (hlc : P.listCheck = true) (hmk : P.marker = true) (hdry : o.dry = false)
    (ord : List Label) (w : World) (G : Ghost) (di : DInv P S w G) (ho : Ordered P t o (BSt.init (load t w)) ord)
    (hret : ∀ x, G.retired x → t.defs x = none) (k : Nat) :
    ∃ G', DInv P S (crashBuild P t o ord k w) G' ∧ G'.retired = G.retired := by
  rw [crashBuild_eq]
  exact build_prefix_dinv hc hinj hsr hlc hmk hdry ord (BSt.init (load t w)) G (dinv_load t di) (minv_init t _ G) ho hret k

/-- the load-time refresh and index rewrite, cut anywhere, keep the invariant too -/
theorem crashLoad_dinv {P : Params} {S : Shape} (t : Tree) (w : World) (G : Ghost) (di : DInv P S w G) (k : Nat) :
    DInv P S (crashLoad t k w) G := by
  unfold crashLoad
  -- every step of a load rewrites a record with its own semantic content or touches temporaries / the index
  have key : ∀ (ss : List Step) (w' : World),
      (∀ st ∈ ss, st.eff = some .tempCreate ∨ st.eff = some .tempWrite ∨ st.eff = some .indexCreate ∨
        (∃ ls, st.eff = some (.indexEncode ls)) ∨ ∃ x, st.eff = some (.tempRename x ((w.recs x).getD emptyRec))) →
      (∀ x, semRec (w'.recs x) = semRec (w.recs x)) → w'.files = w.files →
      (∀ x, semRec ((applySteps w' ss).recs x) = semRec (w.recs x)) ∧ (applySteps w' ss).files = w.files := by
    intro ss
    induction ss with
    | nil => intro w' _ h1 h2; exact ⟨h1, h2⟩
    | cons st rest ih =>
      intro w' hall h1 h2
      simp only [applySteps_cons]
      apply ih _ (fun x hx => hall x (List.mem_cons_of_mem _ hx))
      · intro x
        rcases hall st List.mem_cons_self with e | e | e | ⟨ls, e⟩ | ⟨y, e⟩ <;> simp only [Step.apply, e, Eff.apply]
        · exact h1 x
        · exact h1 x
        · exact h1 x
        · exact h1 x
        · by_cases hxy : x = y
          · subst hxy; simp [semRec]
          · simp only [upd, hxy, if_false]; exact h1 x
      · rcases hall st List.mem_cons_self with e | e | e | ⟨ls, e⟩ | ⟨y, e⟩ <;> simp only [Step.apply, e, Eff.apply] <;> exact h2
  have hsteps : ∀ st ∈ (loadSteps t w).take k, st.eff = some .tempCreate ∨ st.eff = some .tempWrite ∨ st.eff = some .indexCreate ∨
        (∃ ls, st.eff = some (.indexEncode ls)) ∨ ∃ x, st.eff = some (.tempRename x ((w.recs x).getD emptyRec)) := by
    intro st hst
    have hm := List.mem_of_mem_take hst
    unfold loadSteps at hm
    simp only [List.mem_append, List.mem_flatMap, List.mem_cons, List.not_mem_nil, or_false] at hm
    rcases hm with ⟨x, _, hx⟩ | hm | hm
    · simp only [saveSteps, List.mem_cons, List.not_mem_nil, or_false] at hx
      rcases hx with e | e | e
      · left; rw [e]
      · right; left; rw [e]
      · right; right; right; right; exact ⟨x, by rw [e]⟩
    · right; right; left; rw [hm]
    · right; right; right; left; exact ⟨t.labels, by rw [hm]⟩
  obtain ⟨h1, h2⟩ := key _ w hsteps (fun _ => rfl) rfl
  exact dinv_of_sem di h1 h2

end Dawn.Build

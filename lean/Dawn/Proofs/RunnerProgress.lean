import Dawn.Proofs.RunnerCycle
/-!
# Runner: the progress measure (group F)

`mu` sums, over a finite set of labels closed under dependencies, how many steps other than reads of the cycle
walk each thread still has to take. Every step except a walk read strictly decreases it. Together with deadlock
freedom this gives termination under weak fairness (a walk read can repeat only while two other targets sit
between publishing and un-publishing a cycle — DESIGN.md §4).
-/
namespace Dawn.Runner

def rank (P : Params) (l : Label) : Option PC → Nat
  | none => 2 * (P.deps l).length + 16
  | some .enter1 => 2 * (P.deps l).length + 15
  | some .load => 2 * (P.deps l).length + 14
  | some .evalStart => 2 * (P.deps l).length + 13
  | some .exit1 => 2 * (P.deps l).length + 12
  | some (.startDeps todo) => (P.deps l).length + 11 + todo.length
  | some (.walk _) => (P.deps l).length + 10
  | some (.waitDeps todo _) => 9 + todo.length
  | some .unpubCyc => 9
  | some (.enter2 _) => 8
  | some (.evalRest _) => 7
  | some (.finish _ _) => 6
  | some .exit2 => 5
  | some .wgDone => 4
  | some .done => 0

def mainRank : MainPC → Nat
  | .start => 3
  | .wait => 2
  | .waitAll _ => 1
  | .done _ => 0

def mu (P : Params) (nodes : List Label) (s : State) : Nat :=
  mainRank s.main + (nodes.map fun l => rank P l (s.pc l)).sum

theorem sum_map_le (nodes : List Label) (f g : Label → Nat) (h : ∀ x ∈ nodes, g x ≤ f x) :
    (nodes.map g).sum ≤ (nodes.map f).sum := by
  induction nodes with
  | nil => simp
  | cons a t ih =>
    have h1 := h a (by simp)
    have h2 := ih (fun x hx => h x (List.mem_cons_of_mem _ hx))
    simp only [List.map_cons, List.sum_cons]
    omega

theorem sum_map_lt (nodes : List Label) (f g : Label → Nat) (l : Label) (h : ∀ x ∈ nodes, g x ≤ f x)
    (hl : l ∈ nodes) (hlt : g l < f l) : (nodes.map g).sum < (nodes.map f).sum := by
  induction nodes with
  | nil => cases hl
  | cons a t ih =>
    simp only [List.map_cons, List.sum_cons]
    have h2 := sum_map_le t f g (fun x hx => h x (List.mem_cons_of_mem _ hx))
    cases hl with
    | head => omega
    | tail _ hl' =>
      have := ih (fun x hx => h x (List.mem_cons_of_mem _ hx)) hl'
      have := h a (by simp)
      omega

/-- every label reachable from the root lies in a set that contains the root and is closed under dependencies -/
theorem reach_in_nodes {P : Params} {nodes : List Label} (hroot : P.root ∈ nodes)
    (hclosed : ∀ l ∈ nodes, ∀ d ∈ P.deps l, d ∈ nodes) {x : Label} (h : ReachRT P P.root x) : x ∈ nodes := by
  have path : ∀ a b, Path P a b → a ∈ nodes → b ∈ nodes := by
    intro a b hp
    induction hp with
    | single h1 => intro ha; exact hclosed _ ha _ (known_of_mem_edges h1).2
    | cons h1 _ ih => intro ha; exact ih (hclosed _ ha _ (known_of_mem_edges h1).2)
  rcases h with rfl | h
  · exact hroot
  · exact path _ _ h hroot

theorem rank_startTarget_le {P : Params} {s : State} (inv : Inv P s) (d x : Label) :
    rank P x ((startTarget s d).pc x) ≤ rank P x (s.pc x) := by
  unfold startTarget
  split
  next hidle =>
    by_cases e : x = d
    · subst e
      have hnone : s.pc x = none := by
        cases h : s.pc x with
        | none => rfl
        | some q =>
          have := inv.status x; rw [h] at this
          simp only [statusOk] at this
          split at this <;> simp_all [Status.final]
      simp only [upd_same, hnone, rank]
      omega
    · simp [e]
  · exact Nat.le_refl _

/-- one thread moved from `p` to `p'` with smaller rank, nobody else's rank grew -/
theorem mu_lt_of_local {P : Params} {nodes : List Label} {s s' : State} (l : Label) (hl : l ∈ nodes)
    (hmain : mainRank s'.main ≤ mainRank s.main)
    (hle : ∀ x, rank P x (s'.pc x) ≤ rank P x (s.pc x))
    (hlt : rank P l (s'.pc l) < rank P l (s.pc l)) : mu P nodes s' < mu P nodes s := by
  unfold mu
  have := sum_map_lt nodes (fun x => rank P x (s.pc x)) (fun x => rank P x (s'.pc x)) l (fun x _ => hle x) hl hlt
  omega

theorem progress {P : Params} {nodes : List Label} (hroot : P.root ∈ nodes)
    (hclosed : ∀ l ∈ nodes, ∀ d ∈ P.deps l, d ∈ nodes)
    {s s' : State} {t : Tid} (hr : Reachable P s) (h : step P s t = some s') :
    (∃ l d rest, t = .tgt l ∧ s.pc l = some (.walk (d :: rest)) ∧ d ≠ l) ∨ mu P nodes s' < mu P nodes s := by
  rcases step_cases h with ⟨_, hm⟩ | ⟨l, p, ht, hp, hts⟩
  · right
    cases hm with
    | start hm =>
      unfold mu
      have := sum_map_le nodes (fun x => rank P x (s.pc x)) (fun x => rank P x ((startTarget s P.root).pc x))
        (fun x _ => rank_startTarget_le hr.inv P.root x)
      simp only [hm, mainRank]
      show 2 + (nodes.map fun x => rank P x ((startTarget s P.root).pc x)).sum < _
      omega
    | wait hm hr' =>
      unfold mu; simp only [hm, mainRank]; omega
    | waitAll e hm hl =>
      unfold mu; simp only [hm, mainRank]; omega
  · have hln : l ∈ nodes := reach_in_nodes hroot hclosed (hr.inv3.reach l (by rw [hp]; simp))
    -- the generic argument for a step that rewrites only `pc l`
    have loc : ∀ (p' : PC) (s'' : State), s''.pc = upd s.pc l (some p') → s''.main = s.main →
        rank P l (some p') < rank P l (some p) → mu P nodes s'' < mu P nodes s := by
      intro p' s'' hpc hmn hlt
      apply mu_lt_of_local l hln (by rw [hmn]; exact Nat.le_refl _)
      · intro x
        rw [hpc]
        by_cases e : x = l
        · subst e; simp only [upd_same]; rw [hp]; exact Nat.le_of_lt hlt
        · simp [e]
      · rw [hpc]; simp only [upd_same]; rw [hp]; exact hlt
    cases hts with
    | readPub d rest ds hd hw => exact Or.inl ⟨l, d, rest, ht, hp, hd⟩
    | readNil d rest hd hw => exact Or.inl ⟨l, d, rest, ht, hp, hd⟩
    | start d rest =>
      right
      apply mu_lt_of_local l hln
      · show mainRank (startTarget s d).main ≤ _
        have : (startTarget s d).main = s.main := by unfold startTarget; split <;> rfl
        rw [this]; exact Nat.le_refl _
      · intro x
        show rank P x (upd (startTarget s d).pc l (some (.startDeps rest)) x) ≤ _
        by_cases e : x = l
        · subst e; simp only [upd_same]; rw [hp]; simp [rank]
        · simp only [upd_other _ _ _ _ e]; exact rank_startTarget_le hr.inv d x
      · show rank P l (upd (startTarget s d).pc l (some (.startDeps rest)) l) < _
        simp only [upd_same]; rw [hp]; simp [rank]
    | enter1 hc => exact Or.inr (loc _ _ rfl rfl (by simp [rank]))
    | load => exact Or.inr (loc _ _ rfl rfl (by split <;> simp [rank] <;> omega))
    | evalStart => exact Or.inr (loc _ _ rfl rfl (by simp [rank]))
    | exit1 => exact Or.inr (loc _ _ rfl rfl (by simp [rank]; omega))
    | publish => exact Or.inr (loc _ _ rfl rfl (by simp [rank]))
    | found rest => exact Or.inr (loc _ _ rfl rfl (by simp [rank]))
    | walked => exact Or.inr (loc _ _ rfl rfl (by simp [rank]; omega))
    | waited d rest hs hr' => exact Or.inr (loc _ _ rfl rfl (by simp [rank]))
    | unpub hs => exact Or.inr (loc _ _ rfl rfl (by simp [rank]))
    | unpubCyc => exact Or.inr (loc _ _ rfl rfl (by simp [rank]))
    | enter2 res hc => exact Or.inr (loc _ _ rfl rfl (by simp [rank]))
    | evalRest res => exact Or.inr (loc _ _ rfl rfl (by simp [rank]))
    | finish st e => exact Or.inr (loc _ _ rfl rfl (by simp [rank]))
    | exit2 => exact Or.inr (loc _ _ rfl rfl (by simp [rank]))
    | wgDone => exact Or.inr (loc _ _ rfl rfl (by simp [rank]))

end Dawn.Runner

import Dawn.Proofs.MvsReqList
/-!
# Requirement edits (C11): `transformReqs`, and why a `ReqList` result has the build list it was computed from
-/
namespace Dawn.Mvs

/-! ### `ReqList` preserves the build list -/

theorem dawnReqs_required_of_ok (e : Env) (root : List Mod) {a : Mod} (h : okReq a) :
    (dawnReqs e root).required a = (e.summary a).map (·.reqs) := by
  simp [dawnReqs, h.1]

/-- the requirements `ReqList` extracts are entries of the list, and modules of the set the list was computed from -/
theorem reqList_min_ok {e : Env} {anyroot list min : List Mod} {fuel : Nat}
    (A : Mod → Prop) (hA1 : ∀ m, A m → okReq m)
    (hA2 : ∀ n s m, A n → e.summary n = some s → m ∈ s.reqs → A m)
    (hnd : (list.map (·.path)).Nodup)
    (hL : ∀ m ∈ list, m ≠ rootMod → A m)
    (hreq : reqList fuel (dawnReqs e anyroot) rootMod list = .ok min) :
    ∀ x ∈ min, x ∈ list ∧ A x := by
  obtain ⟨s1, _, s3⟩ := reqList_sound hnd hreq
  have hminA : ∀ x ∈ min, A x := by
    intro x hx
    have hP := s3 (fun m => m = rootMod ∨ A m) (Or.inl rfl)
      (fun m hm => by
        by_cases hmr : m = rootMod
        · exact Or.inl hmr
        · exact Or.inr (hL m hm hmr))
      (fun a r b ha hne hr hb => by
        right
        rcases ha with ha | ha
        · exact absurd ha hne
        · rw [dawnReqs_required_of_ok e anyroot (hA1 a ha)] at hr
          cases hs : e.summary a with
          | none => simp [hs] at hr
          | some s =>
            simp only [hs, Option.map_some, Option.some.injEq] at hr
            subst hr
            exact hA2 a s b ha hs hb) x hx
    rcases hP with h1 | h1
    · exact absurd h1 (s1 x hx).1
    · exact h1
  intro x hx
  refine ⟨?_, hminA x hx⟩
  obtain ⟨_, sv, hsv⟩ := hA1 x (hminA x hx)
  have h2 := (s1 x hx).2
  cases hl : (listMap list).lookup x.path with
  | none => rw [hl, hsv] at h2; simp at h2
  | some v =>
    rw [hl] at h2
    simp only [Option.getD_some] at h2
    subst h2
    exact (lookup_listMap_some list hnd x.path _).mp hl

/-- Let `list` be the per-path maximum of a set `A` of well-formed modules closed under requirements (the build
list of some exploration). Then the requirements `ReqList` extracts from `list` resolve to `list` again. -/
theorem reqList_preserves {e : Env} {anyroot list min roots' bl' : List Mod} {fuel fuel' : Nat}
    (henv : ∀ n s, e.summary n = some s → ∀ m ∈ s.reqs, okReq m)
    (A : Mod → Prop) (hA1 : ∀ m, A m → okReq m)
    (hA2 : ∀ n s m, A n → e.summary n = some s → m ∈ s.reqs → A m)
    (hnd : (list.map (·.path)).Nodup) (hroot : rootMod ∈ list)
    (hL : ∀ m ∈ list, m ≠ rootMod → A m ∧ ∀ w, A ⟨m.path, w⟩ → Ver.le w m.ver)
    (hcov : ∀ m, A m → ∃ v, (⟨m.path, v⟩ : Mod) ∈ list)
    (hreq : reqList fuel (dawnReqs e anyroot) rootMod list = .ok min)
    (hsame : ∀ m, m ∈ roots' ↔ m ∈ min)
    (hbl : buildList fuel' (dawnReqs e roots') rootMod = .ok bl') :
    (∀ m, m ∈ bl' ↔ m ∈ list) ∧ (∀ x ∈ min, x ∈ list ∧ okReq x) := by
  obtain ⟨s1, s2, s3⟩ := reqList_sound hnd hreq
  -- the extracted requirements are modules of A
  have hminA : ∀ x ∈ min, A x := by
    intro x hx
    have hP := s3 (fun m => m = rootMod ∨ A m) (Or.inl rfl)
      (fun m hm => by
        by_cases hmr : m = rootMod
        · exact Or.inl hmr
        · exact Or.inr (hL m hm hmr).1)
      (fun a r b ha hne hr hb => by
        right
        rcases ha with ha | ha
        · exact absurd ha hne
        · rw [dawnReqs_required_of_ok e anyroot (hA1 a ha)] at hr
          cases hs : e.summary a with
          | none => simp [hs] at hr
          | some s =>
            simp only [hs, Option.map_some, Option.some.injEq] at hr
            subst hr
            exact hA2 a s b ha hs hb) x hx
    rcases hP with h1 | h1
    · exact absurd h1 (s1 x hx).1
    · exact h1
  have hminList : ∀ x ∈ min, x ∈ list := by
    intro x hx
    obtain ⟨_, sv, hsv⟩ := hA1 x (hminA x hx)
    have h2 := (s1 x hx).2
    cases hl : (listMap list).lookup x.path with
    | none => rw [hl, hsv] at h2; simp at h2
    | some v =>
      rw [hl] at h2
      simp only [Option.getD_some] at h2
      subst h2
      exact (lookup_listMap_some list hnd x.path _).mp hl
  have hwf : WellFormed e roots' := ⟨fun m hm => hA1 m (hminA m ((hsame m).mp hm)), henv⟩
  have hUA : ∀ m, UReach e roots' m → A m := by
    intro m hm
    induction hm with
    | root m hm => exact hminA m ((hsame m).mp hm)
    | step a b s _ hs hb ih => exact hA2 a s b ih hs hb
  have hRU : ∀ s ∈ min, ∀ m, RReach (dawnReqs e anyroot) rootMod s m → UReach e roots' m := by
    intro s hs m hr
    induction hr with
    | refl => exact UReach.root s ((hsame s).mpr hs)
    | step a b r _ hne' hr hb ih =>
      have hAa := hUA a ih
      rw [dawnReqs_required_of_ok e anyroot (hA1 a hAa)] at hr
      cases hsm : e.summary a with
      | none => simp [hsm] at hr
      | some sm =>
        simp only [hsm, Option.map_some, Option.some.injEq] at hr
        subst hr
        exact UReach.step a b sm ih hsm hb
  have hLU : ∀ m ∈ list, m ≠ rootMod → UReach e roots' m := by
    intro m hm hne
    obtain ⟨s, hs, hr⟩ := s2 m hm hne
    exact hRU s hs m hr
  refine ⟨?_, fun x hx => ⟨hminList x hx, hA1 x (hminA x hx)⟩⟩
  intro m
  obtain ⟨p, v⟩ := m
  unfold buildList at hbl
  rw [buildListWith_exact hbl]
  by_cases hp : p = ""
  · subst hp
    have hr : ∀ w, Reach (dawnReqs e roots') .none rootMod ⟨"", w⟩ ↔ w = .root := by
      intro w
      rw [reach_dawn_iff hwf]
      constructor
      · rintro (h1 | h1)
        · simp only [rootMod, Mod.mk.injEq, true_and] at h1; exact h1
        · exact absurd rfl (ureach_ok hwf h1).1
      · rintro rfl; exact Or.inl rfl
    constructor
    · rintro ⟨_, h1, _⟩
      rw [(hr v).mp h1]; exact hroot
    · intro hm
      by_cases hne : (⟨"", v⟩ : Mod) = rootMod
      · simp only [rootMod, Mod.mk.injEq, true_and] at hne
        subst hne
        exact ⟨by simp, (hr _).mpr rfl, fun w hw => by rw [(hr w).mp hw]; exact Ver.le_refl _⟩
      · exact absurd rfl (hA1 _ (hL _ hm hne).1).1
  · have hr : ∀ w, Reach (dawnReqs e roots') .none rootMod ⟨p, w⟩ ↔ UReach e roots' ⟨p, w⟩ := by
      intro w
      rw [reach_dawn_iff hwf]
      constructor
      · rintro (h1 | h1)
        · simp only [rootMod, Mod.mk.injEq] at h1; exact absurd h1.1 hp
        · exact h1
      · exact Or.inr
    have hne : ∀ w, (⟨p, w⟩ : Mod) ≠ rootMod := by
      intro w h; simp only [rootMod, Mod.mk.injEq] at h; exact hp h.1
    constructor
    · rintro ⟨_, h1, h2⟩
      have hA := hUA _ ((hr v).mp h1)
      obtain ⟨v', hv'⟩ := hcov _ hA
      have h3 : Ver.le v' v := h2 v' ((hr v').mpr (hLU _ hv' (hne v')))
      have h4 : Ver.le v v' := (hL _ hv' (hne v')).2 v hA
      rw [Ver.le_antisymm h4 h3]
      exact hv'
    · intro hm
      refine ⟨okReq_ver_ne_none (hA1 _ (hL _ hm (hne v)).1), (hr v).mpr (hLU _ hm (hne v)), ?_⟩
      intro w hw
      exact (hL _ hm (hne v)).2 w (hUA _ ((hr w).mp hw))

/-! ### `transformReqs` -/

theorem pickFor_exact (r : Mod) (hr : r.path ≠ "") : ∀ (vs : List Mod) (best : Option Mod), r ∈ vs →
    pickFor r vs best = some r := by
  intro vs
  induction vs with
  | nil => intro _ h; cases h
  | cons v vs ih =>
    intro best hm
    simp only [pickFor]
    split
    · rename_i hskip
      rcases List.mem_cons.mp hm with rfl | h1
      · rcases hskip with h2 | h2
        · exact absurd h2 hr
        · exact absurd rfl h2
      · exact ih best h1
    · rename_i hskip
      have hvp : v.path = r.path := by
        by_cases h : v.path = r.path
        · exact h
        · exact absurd (Or.inr h) hskip
      split
      · rename_i hver
        obtain ⟨vp, vv⟩ := v
        obtain ⟨rp, rv⟩ := r
        simp only at hvp hver
        subst hvp hver
        rfl
      · rename_i hver
        have hrv : r ∈ vs := by
          rcases List.mem_cons.mp hm with rfl | h1
          · exact absurd rfl hver
          · exact h1
        split
        · exact ih _ hrv
        · split
          · exact ih _ hrv
          · exact ih _ hrv

theorem pickFor_spec (r : Mod) : ∀ (vs : List Mod) (best : Option Mod) (v : Mod), pickFor r vs best = some v →
    best = some v ∨ (v ∈ vs ∧ v.path = r.path ∧ v.path ≠ "") := by
  intro vs
  induction vs with
  | nil => intro best v h; simp only [pickFor] at h; exact Or.inl h
  | cons x vs ih =>
    intro best v h
    simp only [pickFor] at h
    split at h
    · rcases ih best v h with h1 | ⟨h1, h2, h3⟩
      · exact Or.inl h1
      · exact Or.inr ⟨List.mem_cons_of_mem _ h1, h2, h3⟩
    · rename_i hskip
      have hx : x.path = r.path ∧ x.path ≠ "" := by
        constructor
        · by_cases h : x.path = r.path
          · exact h
          · exact absurd (Or.inr h) hskip
        · intro h; exact hskip (Or.inl h)
      split at h
      · cases h; exact Or.inr ⟨List.mem_cons_self, hx.1, hx.2⟩
      · have hfin : ∀ b, pickFor r vs b = some v → (b = some x ∨ b = best) →
            best = some v ∨ (v ∈ x :: vs ∧ v.path = r.path ∧ v.path ≠ "") := by
          intro b hb hbb
          rcases ih b v hb with h1 | ⟨h1, h2, h3⟩
          · rcases hbb with rfl | rfl
            · cases h1; exact Or.inr ⟨List.mem_cons_self, hx.1, hx.2⟩
            · exact Or.inl h1
          · exact Or.inr ⟨List.mem_cons_of_mem _ h1, h2, h3⟩
        split at h
        · exact hfin _ h (Or.inl rfl)
        · split at h
          · exact hfin _ h (Or.inl rfl)
          · exact hfin _ h (Or.inr rfl)

theorem pickFor_isSome (r : Mod) : ∀ (vs : List Mod) (best : Option Mod),
    (best.isSome ∨ ∃ v ∈ vs, v.path = r.path ∧ v.path ≠ "") → (pickFor r vs best).isSome := by
  intro vs
  induction vs with
  | nil =>
    intro best h
    rcases h with h | ⟨v, hv, _⟩
    · simpa [pickFor] using h
    · cases hv
  | cons x vs ih =>
    intro best h
    simp only [pickFor]
    split
    · rename_i hskip
      apply ih
      rcases h with h | ⟨v, hv, h2, h3⟩
      · exact Or.inl h
      · rcases List.mem_cons.mp hv with rfl | h1
        · rcases hskip with h4 | h4
          · exact absurd h4 h3
          · exact absurd h2 h4
        · exact Or.inr ⟨v, h1, h2, h3⟩
    · split
      · rfl
      · split
        · exact ih _ (Or.inl rfl)
        · split
          · exact ih _ (Or.inl rfl)
          · rename_i b _ _
            exact ih _ (Or.inl rfl)

theorem insertByName_perm (x : String × Mod) (l : Config) : (insertByName x l).Perm (x :: l) := by
  induction l with
  | nil => exact List.Perm.refl _
  | cons y ys ih =>
    simp only [insertByName]
    split
    · exact List.Perm.refl _
    · exact (List.Perm.cons y ih).trans (List.Perm.swap x y ys)

theorem sortByName_perm (l : Config) : (sortByName l).Perm l := by
  induction l with
  | nil => exact List.Perm.refl _
  | cons x xs ih =>
    simp only [sortByName, List.foldr] at ih ⊢
    exact (insertByName_perm x _).trans (List.Perm.cons x ih)

theorem candidate_of_find {taken : List String} {name n : String} (h : freshName taken name = some n) : n ∉ taken := by
  unfold freshName at h
  obtain ⟨k, hk, rfl⟩ := Option.map_eq_some_iff.mp h
  have := List.find?_some hk
  simpa using this

theorem filterMap_fst_sublist (f : Mod → Option Mod) : ∀ c : Config,
    ((c.filterMap fun nr => (f nr.2).map fun v => (nr.1, v)).map (·.1)).Sublist (c.map (·.1))
  | [] => by simp
  | x :: xs => by
    simp only [List.filterMap_cons]
    cases hx : f x.2 with
    | none =>
      simp only [Option.map_none]
      exact List.Sublist.cons _ (filterMap_fst_sublist f xs)
    | some v =>
      simp only [Option.map_some, List.map_cons]
      exact List.Sublist.cons_cons _ (filterMap_fst_sublist f xs)

/-- what the second loop of `transformReqs` adds -/
theorem nameNew_spec (e : Env) (old : Config) : ∀ (vs : List Mod) (acc all : Config),
    nameNew e old vs acc = .ok all →
      ∃ added : Config, all = acc ++ added ∧
        (∀ x ∈ added, x.2 ∈ vs ∧ x.2.path ≠ "" ∧ ¬ (∃ o ∈ old, o.2.path = x.2.path)) ∧
        (∀ v ∈ vs, v.path ≠ "" → ¬ (∃ o ∈ old, o.2.path = v.path) → ∃ n, (n, v) ∈ added) ∧
        ((acc.map (·.1)).Nodup → (all.map (·.1)).Nodup) := by
  intro vs
  induction vs with
  | nil =>
    intro acc all h
    simp only [nameNew, Except.ok.injEq] at h; subst h
    exact ⟨[], by simp, (fun _ h => nomatch h), (fun _ h => nomatch h), fun h => h⟩
  | cons v vs ih =>
    intro acc all h
    simp only [nameNew] at h
    have lift : ∀ added : Config, all = acc ++ added →
        (∀ x ∈ added, x.2 ∈ vs ∧ x.2.path ≠ "" ∧ ¬ (∃ o ∈ old, o.2.path = x.2.path)) →
        (∀ x ∈ added, x.2 ∈ v :: vs ∧ x.2.path ≠ "" ∧ ¬ (∃ o ∈ old, o.2.path = x.2.path)) :=
      fun added _ hh x hx => ⟨List.mem_cons_of_mem _ (hh x hx).1, (hh x hx).2⟩
    split at h
    · rename_i hp
      obtain ⟨added, h1, h2, h3, h4⟩ := ih acc all h
      refine ⟨added, h1, lift added h1 h2, ?_, h4⟩
      intro w hw hwp hwo
      rcases List.mem_cons.mp hw with rfl | hw'
      · exact absurd hp hwp
      · exact h3 w hw' hwp hwo
    · split at h
      · rename_i hp hold
        have hold' : ∃ o ∈ old, o.2.path = v.path := by
          simpa [List.any_eq_true] using hold
        obtain ⟨added, h1, h2, h3, h4⟩ := ih acc all h
        refine ⟨added, h1, lift added h1 h2, ?_, h4⟩
        intro w hw hwp hwo
        rcases List.mem_cons.mp hw with rfl | hw'
        · exact absurd hold' hwo
        · exact h3 w hw' hwp hwo
      · rename_i hp hold
        have hold' : ¬ ∃ o ∈ old, o.2.path = v.path := by
          simpa [List.any_eq_true] using hold
        split at h
        · cases h
        · rename_i proj _
          split at h
          · cases h
          · rename_i n hn
            obtain ⟨added, h1, h2, h3, h4⟩ := ih (acc ++ [(n, v)]) all h
            refine ⟨(n, v) :: added, by rw [h1]; simp, ?_, ?_, ?_⟩
            · intro x hx
              rcases List.mem_cons.mp hx with rfl | hx'
              · exact ⟨List.mem_cons_self, hp, hold'⟩
              · exact ⟨List.mem_cons_of_mem _ (h2 x hx').1, (h2 x hx').2⟩
            · intro w hw hwp hwo
              rcases List.mem_cons.mp hw with rfl | hw'
              · exact ⟨n, List.mem_cons_self⟩
              · obtain ⟨n', hn'⟩ := h3 w hw' hwp hwo
                exact ⟨n', List.mem_cons_of_mem _ hn'⟩
            · intro hnd
              apply h4
              rw [List.map_append, List.nodup_append]
              refine ⟨hnd, by simp, ?_⟩
              intro a ha b hb
              simp only [List.map_cons, List.map_nil, List.mem_singleton] at hb
              subst hb
              intro hab; subst hab
              exact candidate_of_find hn ha

/-- what `transformReqs` returns, in terms of what the operation returned -/
theorem transformReqs_spec {e : Env} {c c' : Config} {tx : List Mod → Except Err (List Mod)}
    (h : transformReqs e c tx = .ok c') :
    ∃ nv kept added, tx (c.map (·.2)) = .ok nv ∧
      kept = c.filterMap (fun nr => (pickFor nr.2 nv .none).map fun v => (nr.1, v)) ∧
      c'.Perm (kept ++ added) ∧
      (∀ x ∈ added, x.2 ∈ nv ∧ x.2.path ≠ "" ∧ ¬ (∃ o ∈ c, o.2.path = x.2.path)) ∧
      (∀ v ∈ nv, v.path ≠ "" → ¬ (∃ o ∈ c, o.2.path = v.path) → ∃ n, (n, v) ∈ added) ∧
      ((kept.map (·.1)).Nodup → (c'.map (·.1)).Nodup) := by
  unfold transformReqs at h
  split at h
  · cases h
  · rename_i nv htx
    dsimp only at h
    split at h
    · cases h
    · rename_i all hall
      cases h
      obtain ⟨added, h1, h2, h3, h4⟩ := nameNew_spec e c nv _ all hall
      refine ⟨nv, _, added, htx, rfl, ?_, h2, h3, ?_⟩
      · rw [← h1]; exact sortByName_perm all
      · intro hnd
        exact ((sortByName_perm all).map (·.1)).nodup_iff.mpr (h4 hnd)

/-- names: the result's names are pairwise different when the project file's were -/
theorem transformReqs_names_nodup {e : Env} {c c' : Config} {tx : List Mod → Except Err (List Mod)}
    (h : transformReqs e c tx = .ok c') (hnd : (c.map (·.1)).Nodup) : (c'.map (·.1)).Nodup := by
  obtain ⟨nv, kept, added, _, hk, _, _, _, h6⟩ := transformReqs_spec h
  apply h6
  subst hk
  have hsub := filterMap_fst_sublist (fun r => pickFor r nv .none) c
  exact hsub.nodup hnd

/-! ### the requirements `transformReqs` writes, as a set -/

theorem mem_values_iff {c' : Config} {l : Config} (hp : c'.Perm l) (m : Mod) :
    m ∈ c'.map (·.2) ↔ ∃ x ∈ l, x.2 = m := by
  constructor
  · intro h
    obtain ⟨x, hx, rfl⟩ := List.mem_map.mp h
    exact ⟨x, hp.mem_iff.mp hx, rfl⟩
  · rintro ⟨x, hx, rfl⟩
    exact List.mem_map.mpr ⟨x, hp.mem_iff.mpr hx, rfl⟩

/-- when the operation returned one entry per path (a `ReqList` result), the new requirements are exactly those -/
theorem transformReqs_values_functional {e : Env} {c c' : Config} {tx : List Mod → Except Err (List Mod)} {nv : List Mod}
    (h : transformReqs e c tx = .ok c') (htx : tx (c.map (·.2)) = .ok nv)
    (hf : PathFunctional nv) (hne : ∀ v ∈ nv, v.path ≠ "") (m : Mod) : m ∈ c'.map (·.2) ↔ m ∈ nv := by
  obtain ⟨nv', kept, added, htx', hk, hperm, h4, h5, _⟩ := transformReqs_spec h
  rw [htx] at htx'; cases htx'
  rw [mem_values_iff hperm]
  constructor
  · rintro ⟨x, hx, rfl⟩
    rcases List.mem_append.mp hx with h1 | h1
    · subst hk
      obtain ⟨nr, _, hnr⟩ := List.mem_filterMap.mp h1
      cases hp : pickFor nr.2 nv .none with
      | none => simp [hp] at hnr
      | some v =>
        simp only [hp, Option.map_some, Option.some.injEq] at hnr
        subst hnr
        rcases pickFor_spec nr.2 nv .none v hp with h2 | h2
        · cases h2
        · exact h2.1
    · exact (h4 x h1).1
  · intro hm
    by_cases hold : ∃ o ∈ c, o.2.path = m.path
    · obtain ⟨o, ho, hop⟩ := hold
      have hsome := pickFor_isSome o.2 nv .none (Or.inr ⟨m, hm, hop.symm, hne m hm⟩)
      cases hp : pickFor o.2 nv .none with
      | none => simp [hp] at hsome
      | some v =>
        rcases pickFor_spec o.2 nv .none v hp with h2 | h2
        · cases h2
        · have : v = m := hf v h2.1 m hm (by rw [h2.2.1, hop])
          subst this
          refine ⟨(o.1, v), List.mem_append_left _ ?_, rfl⟩
          subst hk
          exact List.mem_filterMap.mpr ⟨o, ho, by simp [hp]⟩
    · obtain ⟨n, hn⟩ := h5 m hm (hne m hm) hold
      exact ⟨(n, m), List.mem_append_right _ hn, rfl⟩

theorem filterMap_id_of_forall {α : Type} (f : α → Option α) : ∀ (l : List α), (∀ x ∈ l, f x = some x) → l.filterMap f = l
  | [], _ => rfl
  | x :: xs, h => by
    simp only [List.filterMap_cons, h x List.mem_cons_self]
    rw [filterMap_id_of_forall f xs (fun y hy => h y (List.mem_cons_of_mem _ hy))]

/-- when every old requirement is still among the returned entries (the operation passed the root requirements
through), every name keeps exactly its requirement; only projects without a name get one -/
theorem transformReqs_passthrough {e : Env} {c c' : Config} {tx : List Mod → Except Err (List Mod)} {nv : List Mod}
    (h : transformReqs e c tx = .ok c') (htx : tx (c.map (·.2)) = .ok nv)
    (hold : ∀ r ∈ c.map (·.2), r ∈ nv ∧ r.path ≠ "") :
    ∃ added : Config, c'.Perm (c ++ added) ∧
      (∀ x ∈ added, x.2 ∈ nv ∧ x.2.path ≠ "" ∧ ¬ (∃ o ∈ c, o.2.path = x.2.path)) ∧
      (∀ v ∈ nv, v.path ≠ "" → ¬ (∃ o ∈ c, o.2.path = v.path) → ∃ n, (n, v) ∈ added) := by
  obtain ⟨nv', kept, added, htx', hk, hperm, h4, h5, _⟩ := transformReqs_spec h
  rw [htx] at htx'; cases htx'
  have hkc : kept = c := by
    subst hk
    apply filterMap_id_of_forall
    intro x hx
    have := hold x.2 (List.mem_map.mpr ⟨x, hx, rfl⟩)
    rw [pickFor_exact x.2 this.2 nv .none this.1]
    rfl
  rw [hkc] at hperm
  exact ⟨added, hperm, h4, h5⟩

/-! ### build lists of equivalent requirement sets -/

/-- same requirements (as sets), same build list -/
theorem buildList_congr_roots {e : Env} {r1 r2 : List Mod} {f1 f2 : Nat} {b1 b2 : List Mod}
    (hroots : ∀ m, m ∈ r1 ↔ m ∈ r2)
    (h1 : buildList f1 (dawnReqs e r1) rootMod = .ok b1) (h2 : buildList f2 (dawnReqs e r2) rootMod = .ok b2) : b1 = b2 := by
  unfold buildList at h1 h2
  have hedges : ∀ n m, m ∈ edges (dawnReqs e r1) .none n ↔ m ∈ edges (dawnReqs e r2) .none n := by
    intro n m
    rw [edges_plain, edges_plain]
    by_cases hv : n.ver ≠ .none
    · rw [if_pos hv, if_pos hv]
      simp only [dawnReqs]
      by_cases hp : n.path = ""
      · simp only [hp, ↓reduceIte, Option.getD_some]; exact hroots m
      · simp only [hp, ↓reduceIte]
    · simp [hv]
  apply buildListWith_ext h1 h2
  intro m
  obtain ⟨p, v⟩ := m
  rw [buildListWith_exact h1, buildListWith_exact h2]
  have hr : ∀ x, Reach (dawnReqs e r1) .none rootMod x ↔ Reach (dawnReqs e r2) .none rootMod x :=
    fun x => ⟨reach_congr (fun n m => (hedges n m).mp), reach_congr (fun n m => (hedges n m).mpr)⟩
  constructor
  · rintro ⟨a, b, d⟩; exact ⟨a, (hr _).mp b, fun w hw => d w ((hr _).mpr hw)⟩
  · rintro ⟨a, b, d⟩; exact ⟨a, (hr _).mpr b, fun w hw => d w ((hr _).mp hw)⟩

/-- facts about a successful plain build list of a well-formed project file, in the shape `reqList_preserves` wants -/
theorem buildList_facts {e : Env} {roots bl : List Mod} {fuel : Nat} (hwf : WellFormed e roots)
    (h : buildList fuel (dawnReqs e roots) rootMod = .ok bl) :
    (bl.map (·.path)).Nodup ∧ rootMod ∈ bl ∧
    (∀ m ∈ bl, m ≠ rootMod → UReach e roots m ∧ ∀ w, UReach e roots ⟨m.path, w⟩ → Ver.le w m.ver) ∧
    (∀ m, UReach e roots m → ∃ v, (⟨m.path, v⟩ : Mod) ∈ bl ∧ Ver.le m.ver v) := by
  unfold buildList at h
  have hhead := buildListWith_head h
  have hroot : rootMod ∈ bl := by
    cases bl with
    | nil => simp at hhead
    | cons x xs => simp only [List.take_succ_cons, List.take_zero, List.cons.injEq, and_true] at hhead; rw [hhead]; exact List.mem_cons_self
  refine ⟨buildListWith_nodup h, hroot, ?_, ?_⟩
  · intro m hm hne
    obtain ⟨p, v⟩ := m
    have hex := (buildListWith_exact h p v).mp hm
    have hp : p ≠ "" := by
      rintro rfl
      have := (reach_dawn_iff hwf _).mp hex.2.1
      rcases this with h1 | h1
      · exact hne h1
      · exact (ureach_ok hwf h1).1 rfl
    have hr : ∀ w, Reach (dawnReqs e roots) .none rootMod ⟨p, w⟩ ↔ UReach e roots ⟨p, w⟩ := by
      intro w
      rw [reach_dawn_iff hwf]
      constructor
      · rintro (h1 | h1)
        · simp only [rootMod, Mod.mk.injEq] at h1; exact absurd h1.1 hp
        · exact h1
      · exact Or.inr
    exact ⟨(hr v).mp hex.2.1, fun w hw => hex.2.2 w ((hr w).mpr hw)⟩
  · intro m hm
    obtain ⟨p, v⟩ := m
    exact buildListWith_covers h p v ((reach_dawn_iff hwf _).mpr (Or.inr hm)) (okReq_ver_ne_none (ureach_ok hwf hm))

/-! ### operation, then `ReqList`, then write the file: the file resolves to the operation's build list -/

/-- the core of every "operation followed by ReqList" step: if `list` is a successful build list computed from a
closed, well-formed set `A`, the project file written from `reqList list` resolves to `list` -/
theorem edit_via_reqList {e : Env} {c c' : Config} {tx : List Mod → Except Err (List Mod)} {list nv bl' : List Mod}
    {fuel fuel' f0 : Nat} {rq0 : Reqs} {up0 : Option (Mod → Option Mod)}
    (henv : ∀ n s, e.summary n = some s → ∀ m ∈ s.reqs, okReq m)
    (A : Mod → Prop) (hA1 : ∀ m, A m → okReq m)
    (hA2 : ∀ n s m, A n → e.summary n = some s → m ∈ s.reqs → A m)
    (hlist : buildListWith f0 rq0 up0 rootMod = .ok list)
    (hL : ∀ m ∈ list, m ≠ rootMod → A m ∧ ∀ w, A ⟨m.path, w⟩ → Ver.le w m.ver)
    (hcov : ∀ m, A m → ∃ v, (⟨m.path, v⟩ : Mod) ∈ list)
    (h : transformReqs e c tx = .ok c') (htx : tx (c.map (·.2)) = .ok nv)
    (hreq : reqList fuel (dawnReqs e (c.map (·.2))) rootMod list = .ok nv)
    (hbl' : BuildList fuel' e c' = .ok bl') : bl' = list := by
  have hnd := buildListWith_nodup hlist
  have hroot : rootMod ∈ list := by
    have hhead := buildListWith_head hlist
    cases list with
    | nil => simp at hhead
    | cons x xs =>
      simp only [List.take_succ_cons, List.take_zero, List.cons.injEq, and_true] at hhead
      rw [hhead]; exact List.mem_cons_self
  have hmin := reqList_min_ok A hA1 hA2 hnd (fun m hm hne => (hL m hm hne).1) hreq
  have hsame : ∀ m, m ∈ c'.map (·.2) ↔ m ∈ nv :=
    transformReqs_values_functional h htx (reqList_functional hnd hreq) (fun v hv => (hA1 v (hmin v hv).2).1)
  unfold BuildList at hbl'
  have := (reqList_preserves henv A hA1 hA2 hnd hroot hL hcov hreq hsame hbl').1
  exact buildListWith_ext hbl' hlist this

theorem tidy_preserves (e : Env) (c c' : Config) (fuel fuel0 fuel' : Nat) (bl bl' : List Mod)
    (hwf : WellFormed e (c.map (·.2))) (ht : Tidy fuel e c = .ok c')
    (hbl : BuildList fuel0 e c = .ok bl) (hbl' : BuildList fuel' e c' = .ok bl') : bl' = bl := by
  unfold Tidy at ht
  obtain ⟨nv, _, _, htx, _⟩ := transformReqs_spec ht
  simp only [req] at htx
  split at htx
  · cases htx
  · rename_i list hlist
    have hf := buildList_facts hwf hlist
    have h1 : bl' = list :=
      edit_via_reqList hwf.reqs_ok (UReach e (c.map (·.2))) (fun m hm => ureach_ok hwf hm)
        (fun n s m hn hs hm => UReach.step n m s hn hs hm) hlist hf.2.2.1
        (fun m hm => let ⟨v, hv, _⟩ := hf.2.2.2 m hm; ⟨v, hv⟩) ht (by simp only [req, hlist, htx]) htx hbl'
    rw [h1]
    unfold BuildList at hbl
    exact buildList_congr_roots (fun _ => Iff.rfl) hlist hbl

/-! ### `Upgrade` / `UpgradeAll` -/

/-- a module an upgrade exploration may meet: a project at a canonical version or at `"none"` -/
def weakOk (m : Mod) : Prop := m.path ≠ "" ∧ (m.ver = .none ∨ ∃ s, m.ver = .sv s)

theorem weakOk_of_ok {m : Mod} (h : okReq m) : weakOk m := ⟨h.1, Or.inr h.2⟩

/-- the setting shared by `mvs.Upgrade` and `mvs.UpgradeAll` as dawn calls them: the requirement graph of the project
file, possibly with extra entries for the main module, explored with an upgrade function that leaves the main module alone -/
structure UpSetting (keeps : Prop) (e : Env) (roots : List Mod) (rq' : Reqs) (upf : Mod → Option Mod) : Prop where
  env_ok : ∀ n s, e.summary n = some s → ∀ m ∈ s.reqs, okReq m
  roots_ok : ∀ m ∈ roots, okReq m
  other : ∀ n, n ≠ rootMod → rq'.required n = (dawnReqs e roots).required n
  main : ∃ list', rq'.required rootMod = some list' ∧ (keeps → ∀ m ∈ roots, m ∈ list') ∧ ∀ x ∈ list', x = rootMod ∨ weakOk x
  up_main : upf rootMod = some rootMod ∨ upf rootMod = .none
  up_ok : ∀ n m, n ≠ rootMod → n.path ≠ "" → upf n = some m → m ≠ n → weakOk m

theorem mem_edges_up (rq' : Reqs) (upf : Mod → Option Mod) (n m : Mod) :
    m ∈ edges rq' (some upf) n ↔
      (upf n = some m ∧ m ≠ n) ∨ (n.ver ≠ .none ∧ ∃ r, rq'.required n = some r ∧ m ∈ r) := by
  simp only [edges, workItem]
  by_cases hv : n.ver ≠ .none
  · simp only [hv, ↓reduceIte, ne_eq, not_false_eq_true, true_and]
    cases hr : rq'.required n with
    | none =>
      cases hu : upf n with
      | none => simp
      | some u =>
        by_cases hun : u = n
        · simp [hun]
          intro h; exact h.symm
        · simp [hun]
          constructor
          · rintro rfl; exact ⟨rfl, hun⟩
          · rintro ⟨rfl, _⟩; rfl
    | some r =>
      cases hu : upf n with
      | none => simp
      | some u =>
        by_cases hun : u = n
        · subst hun; simp
          intro h1 h2; exact absurd h1.symm h2
        · simp [hun]
          constructor
          · rintro (rfl | h1)
            · exact Or.inl ⟨rfl, hun⟩
            · exact Or.inr h1
          · rintro (⟨rfl, _⟩ | h1)
            · exact Or.inl rfl
            · exact Or.inr h1
  · have hv' : n.ver = .none := by simpa using hv
    simp only [hv', ne_eq, not_true_eq_false, ↓reduceIte, false_and, or_false]
    cases hu : upf n with
    | none => simp
    | some u =>
      by_cases hun : u = n
      · simp [hun]
        intro h; exact h.symm
      · simp [hun]
        constructor
        · rintro rfl; exact ⟨rfl, hun⟩
        · rintro ⟨rfl, _⟩; rfl


theorem reach_up_weakOk {keeps : Prop} {e : Env} {roots : List Mod} {rq' : Reqs} {upf : Mod → Option Mod}
    (G : UpSetting keeps e roots rq' upf) {m : Mod} (h : Reach rq' (some upf) rootMod m) : m = rootMod ∨ weakOk m := by
  induction h with
  | root => exact Or.inl rfl
  | step n m _ hm ih =>
    rcases (mem_edges_up rq' upf n m).mp hm with ⟨hu, hne⟩ | ⟨hv, r, hr, hmr⟩
    · right
      rcases ih with rfl | ih
      · rcases G.up_main with h1 | h1
        · rw [h1] at hu; cases hu; exact absurd rfl hne
        · rw [h1] at hu; cases hu
      · have hnr : n ≠ rootMod := by rintro rfl; exact ih.1 rfl
        exact G.up_ok n m hnr ih.1 hu hne
    · rcases ih with rfl | ih
      · obtain ⟨list', hl, _, hok⟩ := G.main
        rw [hl] at hr; cases hr
        exact hok m hmr
      · right
        have hnr : n ≠ rootMod := by rintro rfl; exact ih.1 rfl
        rw [G.other n hnr] at hr
        simp only [dawnReqs, ih.1, ↓reduceIte] at hr
        cases hs : e.summary n with
        | none => simp [hs] at hr
        | some s =>
          simp only [hs, Option.map_some, Option.some.injEq] at hr
          subst hr
          exact weakOk_of_ok (G.env_ok n s hs m hmr)

theorem reach_up_of_reach {keeps : Prop} {e : Env} {roots : List Mod} {rq' : Reqs} {upf : Mod → Option Mod}
    (G : UpSetting keeps e roots rq' upf) (hk : keeps) {m : Mod} (h : Reach (dawnReqs e roots) .none rootMod m) :
    Reach rq' (some upf) rootMod m := by
  induction h with
  | root => exact Reach.root
  | step n m _ hm ih =>
    apply Reach.step n m ih
    rw [edges_plain] at hm
    apply (mem_edges_up rq' upf n m).mpr
    right
    split at hm
    · rename_i hv
      refine ⟨hv, ?_⟩
      by_cases hnr : n = rootMod
      · subst hnr
        obtain ⟨list', hl, hsub, _⟩ := G.main
        simp only [dawnReqs, rootMod, ↓reduceIte, Option.getD_some] at hm
        exact ⟨list', hl, hsub hk m hm⟩
      · rw [G.other n hnr]
        cases hr : (dawnReqs e roots).required n with
        | none => simp [hr] at hm
        | some r => simp only [hr, Option.getD_some] at hm; exact ⟨r, rfl, hm⟩
    · cases hm

/-- `Upgrade` / `UpgradeAll`, then `ReqList`, then the file: the file resolves to the upgraded build list, which has
every module the upgraded exploration reached (in particular everything the old build list had, and every upgrade
target) at the same or a higher version -/
theorem upgrade_general {keeps : Prop} {e : Env} {c c' : Config} {tx : List Mod → Except Err (List Mod)} {list nv bl' : List Mod}
    {fuel fuel' f0 : Nat} {rq' : Reqs} {upf : Mod → Option Mod}
    (G : UpSetting keeps e (c.map (·.2)) rq' upf)
    (hlist : buildListWith f0 rq' (some upf) rootMod = .ok list)
    (h : transformReqs e c tx = .ok c') (htx : tx (c.map (·.2)) = .ok nv)
    (hreq : reqList fuel (dawnReqs e (c.map (·.2))) rootMod list = .ok nv)
    (hbl' : BuildList fuel' e c' = .ok bl') :
    bl' = list ∧ ∀ m, Reach rq' (some upf) rootMod m → m.ver ≠ .none → ∃ v', (⟨m.path, v'⟩ : Mod) ∈ bl' ∧ Ver.le m.ver v' := by
  let A : Mod → Prop := fun m => Reach rq' (some upf) rootMod m ∧ m ≠ rootMod ∧ m.ver ≠ .none
  have hA1 : ∀ m, A m → okReq m := by
    rintro m ⟨hr, hne, hv⟩
    rcases reach_up_weakOk G hr with h1 | ⟨h1, h2⟩
    · exact absurd h1 hne
    · rcases h2 with h2 | h2
      · exact absurd h2 hv
      · exact ⟨h1, h2⟩
  have hA2 : ∀ n s m, A n → e.summary n = some s → m ∈ s.reqs → A m := by
    intro n s m hn hs hm
    have hok := G.env_ok n s hs m hm
    refine ⟨?_, ?_, okReq_ver_ne_none hok⟩
    · apply Reach.step n m hn.1
      apply (mem_edges_up rq' upf n m).mpr
      right
      refine ⟨hn.2.2, s.reqs, ?_, hm⟩
      rw [G.other n hn.2.1]
      simp [dawnReqs, (hA1 n hn).1, hs]
    · rintro rfl; exact hok.1 rfl
  have hL : ∀ m ∈ list, m ≠ rootMod → A m ∧ ∀ w, A ⟨m.path, w⟩ → Ver.le w m.ver := by
    intro m hm hne
    obtain ⟨p, v⟩ := m
    have hex := (buildListWith_exact hlist p v).mp hm
    exact ⟨⟨hex.2.1, hne, hex.1⟩, fun w hw => hex.2.2 w hw.1⟩
  have hcov : ∀ m, A m → ∃ v, (⟨m.path, v⟩ : Mod) ∈ list := by
    rintro ⟨p, v⟩ ⟨hr, _, hv⟩
    obtain ⟨v', hv', _⟩ := buildListWith_covers hlist p v hr hv
    exact ⟨v', hv'⟩
  have heq : bl' = list := edit_via_reqList G.env_ok A hA1 hA2 hlist hL hcov h htx hreq hbl'
  refine ⟨heq, ?_⟩
  intro m hr hv
  obtain ⟨p, v⟩ := m
  rw [heq]
  exact buildListWith_covers hlist p v hr hv

/-! ### `get` -/

/-- the branches of `get` -/
theorem get_cases {fuel : Nat} {e : Env} {prev : Mod → Option Mod} {roots nv : List Mod} {vq : VersionQuery}
    (h : get fuel e prev roots vq = .ok nv) :
    ∃ bl version, buildList fuel (dawnReqs e roots) rootMod = .ok bl ∧ resolveVersionQuery e bl vq = .ok version ∧
      ((bl.find? (·.path = version.path) = .none ∧ nv = version :: roots) ∨
       (∃ cur, bl.find? (·.path = version.path) = some cur ∧
          ((semverCompare cur.ver version.ver = .eq ∧ nv = roots) ∨
           (semverCompare cur.ver version.ver = .lt ∧ ∃ blu, mvsUpgrade fuel (dawnReqs e roots) rootMod version = .ok blu ∧
              reqList fuel (dawnReqs e roots) rootMod blu = .ok nv) ∨
           (semverCompare cur.ver version.ver = .gt ∧ ∃ bld, mvsDowngrade fuel (dawnReqs e roots) prev rootMod version = .ok bld ∧
              reqList fuel (dawnReqs e roots) rootMod bld = .ok nv)))) := by
  unfold get at h
  dsimp only at h
  split at h
  · cases h
  · rename_i bl0 hbl0
    split at h
    · cases h
    · rename_i version hres
      dsimp only at h
      refine ⟨bl0, version, hbl0, hres, ?_⟩
      split at h
      · rename_i hfind
        cases h
        exact Or.inl ⟨hfind, rfl⟩
      · rename_i cur hfind
        right
        refine ⟨cur, hfind, ?_⟩
        split at h
        · rename_i hc; cases h; exact Or.inl ⟨hc, rfl⟩
        · rename_i hc
          split at h
          · cases h
          · rename_i blu hup
            exact Or.inr (Or.inl ⟨hc, blu, hup, h⟩)
        · rename_i hc
          split at h
          · cases h
          · rename_i bld hdown
            exact Or.inr (Or.inr ⟨hc, bld, hdown, h⟩)

theorem ureach_mono {e : Env} {r1 r2 : List Mod} (h : ∀ m ∈ r1, m ∈ r2) {m : Mod} (hm : UReach e r1 m) : UReach e r2 m := by
  induction hm with
  | root m hm => exact UReach.root m (h m hm)
  | step a b s _ hs hb ih => exact UReach.step a b s ih hs hb

theorem semverCompare_eq_sv {a : Ver} {s : SemVer} (h : semverCompare a (.sv s) = .eq) : a = .sv s := by
  cases a with
  | root => simp [semverCompare] at h
  | none => simp [semverCompare] at h
  | sv t => simp only [semverCompare] at h; rw [(lawful_semver.eq_iff t s).mp h]

theorem semverCompare_lt_le {a : Ver} {s : SemVer} (h : semverCompare a (.sv s) = .lt) (ha : a ≠ .root) : Ver.le a (.sv s) := by
  cases a with
  | root => exact absurd rfl ha
  | none => exact Ver.none_le _
  | sv t => simp [Ver.le, cmpVersion, h]

/-- the override list and upgrade function `mvs.Upgrade` builds for one upgraded module -/
def upList (roots : List Mod) (u : Mod) : List Mod :=
  if roots.any (·.path = u.path) then roots else roots ++ [⟨u.path, .none⟩]

def upFn (u : Mod) : Mod → Option Mod := fun m => if m.path = u.path then some ⟨m.path, u.ver⟩ else some m

theorem mvsUpgrade_eq (fuel : Nat) (e : Env) (roots : List Mod) (u : Mod) :
    mvsUpgrade fuel (dawnReqs e roots) rootMod u =
      buildListWith fuel (override rootMod (upList roots u) (dawnReqs e roots)) (some (upFn u)) rootMod := by
  simp only [mvsUpgrade, dawnReqs, rootMod, upList, ↓reduceIte]
  rfl

theorem upSetting_get {e : Env} {roots : List Mod} {u : Mod} (hwf : WellFormed e roots) (hu : okReq u) :
    UpSetting True e roots (override rootMod (upList roots u) (dawnReqs e roots)) (upFn u) where
  env_ok := hwf.reqs_ok
  roots_ok := hwf.roots_ok
  other n hn := by simp [override, hn]
  main := by
    refine ⟨upList roots u, by simp [override], ?_, ?_⟩
    · intro _ m hm
      unfold upList; split
      · exact hm
      · exact List.mem_append_left _ hm
    · intro x hx
      unfold upList at hx
      split at hx
      · exact Or.inr (weakOk_of_ok (hwf.roots_ok x hx))
      · rcases List.mem_append.mp hx with h1 | h1
        · exact Or.inr (weakOk_of_ok (hwf.roots_ok x h1))
        · rw [List.mem_singleton.mp h1]; exact Or.inr ⟨hu.1, Or.inl rfl⟩
  up_main := by
    left
    have : ¬ rootMod.path = u.path := fun h => hu.1 h.symm
    simp [upFn, this]
  up_ok n m _ hnp hup hne := by
    simp only [upFn] at hup
    split at hup
    · cases hup; exact ⟨hnp, Or.inr hu.2⟩
    · cases hup; exact absurd rfl hne

/-- the upgraded module is reached by the exploration of `mvs.Upgrade` -/
theorem reach_up_target {e : Env} {roots : List Mod} {u : Mod} (hu : okReq u) :
    Reach (override rootMod (upList roots u) (dawnReqs e roots)) (some (upFn u)) rootMod u := by
  have hroot : ∀ x ∈ upList roots u, Reach (override rootMod (upList roots u) (dawnReqs e roots)) (some (upFn u)) rootMod x := by
    intro x hx
    apply Reach.step rootMod x Reach.root
    apply (mem_edges_up _ _ _ _).mpr
    right
    exact ⟨by simp [rootMod], upList roots u, by simp [override], hx⟩
  have hstep : ∀ x, x.path = u.path → Reach (override rootMod (upList roots u) (dawnReqs e roots)) (some (upFn u)) rootMod x →
      Reach (override rootMod (upList roots u) (dawnReqs e roots)) (some (upFn u)) rootMod u := by
    intro x hxp hx
    by_cases hxu : x = u
    · subst hxu; exact hx
    · apply Reach.step x u hx
      apply (mem_edges_up _ _ _ _).mpr
      left
      obtain ⟨up, uv⟩ := u
      simp only at hxp
      subst hxp
      exact ⟨by simp [upFn], fun h => hxu h.symm⟩
  by_cases hany : roots.any (·.path = u.path) = true
  · obtain ⟨r, hr, hrp⟩ := List.any_eq_true.mp hany
    have hrp' : r.path = u.path := by simpa using hrp
    exact hstep r hrp' (hroot r (by unfold upList; rw [if_pos hany]; exact hr))
  · exact hstep ⟨u.path, .none⟩ rfl (hroot _ (by unfold upList; rw [if_neg hany]; exact List.mem_append_right _ List.mem_cons_self))


theorem find?_path_none {bl : List Mod} {p : String} (h : bl.find? (·.path = p) = .none) : ∀ m ∈ bl, m.path ≠ p := by
  intro m hm
  have := List.find?_eq_none.mp h m hm
  simpa using this

theorem find?_path_some {bl : List Mod} {p : String} {cur : Mod} (h : bl.find? (·.path = p) = some cur) :
    cur ∈ bl ∧ cur.path = p := by
  refine ⟨List.mem_of_find?_eq_some h, ?_⟩
  have := List.find?_some h
  simpa using this

/-- `get` as add / no-op / upgrade: the new project file's build list has the resolved version (or a higher one) and
everything the old build list had at the same or a higher version -/
theorem get_upgrade {e : Env} {c c' : Config} {q : String} {fuel fuel' : Nat} {bl bl' : List Mod} {version : Mod}
    {prev : Mod → Option Mod}
    (hwf : WellFormed e (c.map (·.2)))
    (hget : transformReqs e c (fun root => get fuel e prev root (parseVersionQuery q)) = .ok c')
    (hbl : BuildList fuel e c = .ok bl)
    (hres : resolveVersionQuery e bl (parseVersionQuery q) = .ok version) (hver : okReq version)
    (hup : ∀ cur ∈ bl, cur.path = version.path → semverCompare cur.ver version.ver ≠ .gt)
    (hbl' : BuildList fuel' e c' = .ok bl') :
    (∃ v, (⟨version.path, v⟩ : Mod) ∈ bl' ∧ Ver.le version.ver v) ∧
    (∀ m ∈ bl, ∃ v, (⟨m.path, v⟩ : Mod) ∈ bl' ∧ Ver.le m.ver v) := by
  obtain ⟨nv, _, _, htx, _⟩ := transformReqs_spec hget
  obtain ⟨bl0, version0, hbl0, hres0, hcase⟩ := get_cases htx
  unfold BuildList at hbl
  rw [hbl] at hbl0; cases hbl0
  rw [hres] at hres0; cases hres0
  have hf := buildList_facts hwf hbl
  -- a uniform way to conclude in the branches that pass the root requirements through
  have pass : (∀ r ∈ c.map (·.2), r ∈ nv) → (∀ v ∈ nv, v = version ∨ v ∈ c.map (·.2)) →
      (∃ x, UReach e (c'.map (·.2)) x ∧ x.path = version.path ∧ Ver.le version.ver x.ver) →
      (∃ v, (⟨version.path, v⟩ : Mod) ∈ bl' ∧ Ver.le version.ver v) ∧
      (∀ m ∈ bl, ∃ v, (⟨m.path, v⟩ : Mod) ∈ bl' ∧ Ver.le m.ver v) := by
    intro hsub hsup hx
    obtain ⟨added, hperm, hadd, _⟩ := transformReqs_passthrough hget htx
      (fun r hr => ⟨hsub r hr, (hwf.roots_ok r hr).1⟩)
    have hvals : ∀ m ∈ c.map (·.2), m ∈ c'.map (·.2) := by
      intro m hm
      obtain ⟨x, hx, rfl⟩ := List.mem_map.mp hm
      exact List.mem_map.mpr ⟨x, hperm.mem_iff.mpr (List.mem_append_left _ hx), rfl⟩
    have hwf' : WellFormed e (c'.map (·.2)) := by
      refine ⟨?_, hwf.reqs_ok⟩
      intro m hm
      obtain ⟨x, hx, rfl⟩ := List.mem_map.mp hm
      rcases List.mem_append.mp (hperm.mem_iff.mp hx) with h1 | h1
      · exact hwf.roots_ok _ (List.mem_map.mpr ⟨x, h1, rfl⟩)
      · rcases hsup x.2 (hadd x h1).1 with h2 | h2
        · rw [h2]; exact hver
        · exact hwf.roots_ok _ h2
    unfold BuildList at hbl'
    have hf' := buildList_facts hwf' hbl'
    refine ⟨?_, ?_⟩
    · obtain ⟨x, hxr, hxp, hxv⟩ := hx
      obtain ⟨v, hv, hle⟩ := hf'.2.2.2 x hxr
      rw [hxp] at hv
      exact ⟨v, hv, Ver.le_trans hxv hle⟩
    · intro m hm
      by_cases hmr : m = rootMod
      · subst hmr; exact ⟨.root, hf'.2.1, Ver.le_refl _⟩
      · exact hf'.2.2.2 m (ureach_mono hvals (hf.2.2.1 m hm hmr).1)
  rcases hcase with ⟨hfind, rfl⟩ | ⟨cur, hfind, hbr⟩
  · -- add
    apply pass (fun r hr => List.mem_cons_of_mem _ hr) (fun v hv => by
      rcases List.mem_cons.mp hv with h1 | h1
      · exact Or.inl h1
      · exact Or.inr h1)
    refine ⟨version, ?_, rfl, Ver.le_refl _⟩
    -- the new project gets a name: its path is not an old one (every old path is in the build list)
    obtain ⟨added, hperm, _, hnew⟩ := transformReqs_passthrough hget htx
      (fun r hr => ⟨List.mem_cons_of_mem _ hr, (hwf.roots_ok r hr).1⟩)
    have hnot : ¬ ∃ o ∈ c, o.2.path = version.path := by
      rintro ⟨o, ho, hop⟩
      obtain ⟨v, hv, _⟩ := hf.2.2.2 o.2 (UReach.root _ (List.mem_map.mpr ⟨o, ho, rfl⟩))
      exact find?_path_none hfind _ hv hop
    obtain ⟨n, hn⟩ := hnew version List.mem_cons_self hver.1 hnot
    exact UReach.root _ (List.mem_map.mpr ⟨(n, version), hperm.mem_iff.mpr (List.mem_append_right _ hn), rfl⟩)
  · obtain ⟨hcur, hcurp⟩ := find?_path_some hfind
    obtain ⟨sv, hsv⟩ := hver.2
    rcases hbr with ⟨hc, rfl⟩ | ⟨hc, blu, hupg, hreq⟩ | ⟨hc, _⟩
    · -- the resolved version is the selected one
      apply pass (fun r hr => hr) (fun v hv => Or.inr hv)
      rw [hsv] at hc
      have hcv : cur.ver = version.ver := by rw [hsv]; exact semverCompare_eq_sv hc
      have hcne : cur ≠ rootMod := by
        rintro rfl; exact hver.1 hcurp.symm
      have hcr := (hf.2.2.1 cur hcur hcne).1
      obtain ⟨added, hperm, _, _⟩ := transformReqs_passthrough hget htx
        (fun r hr => ⟨hr, (hwf.roots_ok r hr).1⟩)
      have hvals : ∀ m ∈ c.map (·.2), m ∈ c'.map (·.2) := by
        intro m hm
        obtain ⟨x, hx, rfl⟩ := List.mem_map.mp hm
        exact List.mem_map.mpr ⟨x, hperm.mem_iff.mpr (List.mem_append_left _ hx), rfl⟩
      exact ⟨cur, ureach_mono hvals hcr, hcurp, by rw [hcv]; exact Ver.le_refl _⟩
    · -- upgrade
      rw [mvsUpgrade_eq] at hupg
      have G := upSetting_get (u := version) hwf hver
      obtain ⟨heq, hdom⟩ := upgrade_general G hupg hget htx hreq hbl'
      refine ⟨?_, ?_⟩
      · obtain ⟨v, hv, hle⟩ := hdom version (reach_up_target hver) (okReq_ver_ne_none hver)
        exact ⟨v, hv, hle⟩
      · intro m hm
        by_cases hmr : m = rootMod
        · subst hmr
          have hhead := buildListWith_head hupg
          have : rootMod ∈ blu := by
            cases blu with
            | nil => simp at hhead
            | cons x xs =>
              simp only [List.take_succ_cons, List.take_zero, List.cons.injEq, and_true] at hhead
              rw [hhead]; exact List.mem_cons_self
          exact ⟨.root, by rw [heq]; exact this, Ver.le_refl _⟩
        · have hmu := (hf.2.2.1 m hm hmr).1
          exact hdom m (reach_up_of_reach G trivial ((reach_dawn_iff hwf m).mpr (Or.inr hmu)))
            (okReq_ver_ne_none (ureach_ok hwf hmu))
    · exact absurd hc (hup cur hcur hcurp)

/-! ### `UpgradeAll` -/

/-- the upgrade function `mvs.UpgradeAll` hands to `buildList` -/
def upAllFn (e : Env) : Mod → Option Mod := fun m => if m.path = rootMod.path then some rootMod else upgradeLatest e m

theorem mvsUpgradeAll_eq (fuel : Nat) (rq : Reqs) (e : Env) :
    mvsUpgradeAll fuel rq (upgradeLatest e) rootMod = buildListWith fuel rq (some (upAllFn e)) rootMod := rfl

/-- a fold that either keeps the selected version or replaces it by the version of the current element ends on the
starting value or on the version of some element -/
theorem foldl_pick_spec (g : Ver → Mod → Prop) [∀ a b, Decidable (g a b)] : ∀ (vs : List Mod) (start : Ver),
    vs.foldl (fun sel v => if g sel v then v.ver else sel) start = start ∨
      ∃ v ∈ vs, v.ver = vs.foldl (fun sel v => if g sel v then v.ver else sel) start := by
  intro vs
  induction vs with
  | nil => intro start; exact Or.inl rfl
  | cons v vs ih =>
    intro start
    simp only [List.foldl]
    split
    · rcases ih v.ver with h1 | ⟨w, hw, h1⟩
      · exact Or.inr ⟨v, List.mem_cons_self, h1.symm⟩
      · exact Or.inr ⟨w, List.mem_cons_of_mem _ hw, h1⟩
    · rcases ih start with h1 | ⟨w, hw, h1⟩
      · exact Or.inl h1
      · exact Or.inr ⟨w, List.mem_cons_of_mem _ hw, h1⟩

theorem listVersions_spec {e : Env} {p : Mod} {versions : List Mod} (h : listVersions e p = some versions) :
    ∀ v ∈ versions, v ∈ e.tags ∧ v.path = p.path := by
  intro v hv
  unfold listVersions at h
  split at h
  · cases h
    have := List.mem_filter.mp hv
    exact ⟨this.1, by simpa using this.2⟩
  · cases h

/-- `Reqs.Upgrade` answers the module itself or a tag of its path -/
theorem upgradeLatest_spec {e : Env} {p u : Mod} (h : upgradeLatest e p = some u) (hp : p.path ≠ "") :
    u.path = p.path ∧ (u.ver = p.ver ∨ (⟨p.path, u.ver⟩ : Mod) ∈ e.tags) := by
  unfold upgradeLatest at h
  rw [if_neg hp] at h
  cases hl : listVersions e p with
  | none => simp [hl] at h
  | some versions =>
    simp only [hl, Option.some.injEq] at h
    subst h
    refine ⟨rfl, ?_⟩
    rcases foldl_pick_spec (fun sel v => v.ver.majorStr = p.ver.majorStr ∧ semverCompare v.ver sel = .gt) versions p.ver with h1 | ⟨v, hv, h1⟩
    · exact Or.inl h1
    · right
      have := listVersions_spec hl v hv
      dsimp only
      rw [← h1, ← this.2]
      exact this.1

theorem upSetting_all {e : Env} {roots : List Mod} (hwf : WellFormed e roots) (htags : ∀ t ∈ e.tags, okReq t) :
    UpSetting True e roots (dawnReqs e roots) (upAllFn e) where
  env_ok := hwf.reqs_ok
  roots_ok := hwf.roots_ok
  other _ _ := rfl
  main := ⟨roots, by simp [dawnReqs, rootMod], fun _ _ h => h, fun x hx => Or.inr (weakOk_of_ok (hwf.roots_ok x hx))⟩
  up_main := Or.inl (by simp [upAllFn])
  up_ok n m hnr hnp hup hne := by
    have : ¬ n.path = rootMod.path := hnp
    simp only [upAllFn, this, ↓reduceIte] at hup
    obtain ⟨h1, h2⟩ := upgradeLatest_spec hup hnp
    refine ⟨by rw [h1]; exact hnp, ?_⟩
    rcases h2 with h2 | h2
    · exfalso
      apply hne
      obtain ⟨mp, mv⟩ := m
      obtain ⟨np, nv⟩ := n
      simp only at h1 h2
      subst h1 h2
      rfl
    · exact Or.inr (htags _ h2).2

/-- upgrade-all: the new project file's build list has every project of the old one at the version `Reqs.Upgrade`
proposes for it, or higher — in particular nothing is lowered -/
theorem upgradeAll_dominates {e : Env} {c c' : Config} {fuel fuel' : Nat} {bl bl' : List Mod}
    (hwf : WellFormed e (c.map (·.2))) (htags : ∀ t ∈ e.tags, okReq t)
    (h : UpgradeAll fuel e c = .ok c') (hbl : BuildList fuel e c = .ok bl) (hbl' : BuildList fuel' e c' = .ok bl') :
    ∀ m ∈ bl, ∃ v, (⟨m.path, v⟩ : Mod) ∈ bl' ∧ Ver.le m.ver v ∧
      ∀ u, upgradeLatest e m = some u → Ver.le u.ver v := by
  unfold UpgradeAll at h
  obtain ⟨nv, _, _, htx, _⟩ := transformReqs_spec h
  dsimp only at htx
  split at htx
  · cases htx
  · rename_i blu hupg
    rw [mvsUpgradeAll_eq] at hupg
    have G := upSetting_all hwf htags
    obtain ⟨heq, hdom⟩ := upgrade_general G hupg h (by dsimp only; rw [mvsUpgradeAll_eq, hupg]; exact htx) htx hbl'
    unfold BuildList at hbl
    have hf := buildList_facts hwf hbl
    intro m hm
    by_cases hmr : m = rootMod
    · subst hmr
      have hhead := buildListWith_head hupg
      have hin : rootMod ∈ blu := by
        cases blu with
        | nil => simp at hhead
        | cons x xs =>
          simp only [List.take_succ_cons, List.take_zero, List.cons.injEq, and_true] at hhead
          rw [hhead]; exact List.mem_cons_self
      refine ⟨.root, by rw [heq]; exact hin, Ver.le_refl _, ?_⟩
      intro u hu
      simp [upgradeLatest, rootMod] at hu
      rw [← hu]; exact Ver.le_refl _
    · have hmu := (hf.2.2.1 m hm hmr).1
      have hok := ureach_ok hwf hmu
      have hreach := reach_up_of_reach G trivial ((reach_dawn_iff hwf m).mpr (Or.inr hmu))
      obtain ⟨v, hv, hle⟩ := hdom m hreach (okReq_ver_ne_none hok)
      refine ⟨v, hv, hle, ?_⟩
      intro u hu
      obtain ⟨hup, _⟩ := upgradeLatest_spec hu hok.1
      by_cases hum : u = m
      · rw [hum]; exact hle
      · have hru : Reach (dawnReqs e (c.map (·.2))) (some (upAllFn e)) rootMod u := by
          apply Reach.step m u hreach
          apply (mem_edges_up _ _ _ _).mpr
          left
          have : ¬ m.path = rootMod.path := hok.1
          exact ⟨by simp [upAllFn, this, hu], hum⟩
        have huw := reach_up_weakOk G hru
        have hune : u.ver ≠ .none := by
          rcases huw with h1 | ⟨_, h1⟩
          · rw [h1]; simp [rootMod]
          · rcases h1 with h1 | ⟨s, hs⟩
            · -- an upgrade never selects "none": it starts from m's version and only moves up
              exfalso
              obtain ⟨_, h2⟩ := upgradeLatest_spec hu hok.1
              rcases h2 with h2 | h2
              · rw [h1] at h2; exact okReq_ver_ne_none hok h2.symm
              · exact okReq_ver_ne_none (htags _ h2) h1
            · rw [hs]; simp
        obtain ⟨v', hv', hle'⟩ := hdom u hru hune
        rw [hup] at hv'
        -- one version per path in bl'
        have hnd : (bl'.map (·.path)).Nodup := by unfold BuildList at hbl'; exact buildListWith_nodup hbl'
        have : (⟨m.path, v'⟩ : Mod) = ⟨m.path, v⟩ := inj_of_nodup_map (·.path) hnd hv' hv rfl
        simp only [Mod.mk.injEq, true_and] at this
        rw [← this]; exact hle'

/-! ### a project file listed by name: `transformReqs` leaves it alone when nothing changes -/

def nameLT (a b : String × Mod) : Prop := a.1 < b.1

theorem insertByName_head (x : String × Mod) : ∀ (l : Config), (∀ y ∈ l, x.1 < y.1) → insertByName x l = x :: l
  | [], _ => rfl
  | y :: ys, h => by simp [insertByName, h y List.mem_cons_self]

theorem sortByName_of_sorted : ∀ (l : Config), l.Pairwise nameLT → sortByName l = l
  | [], _ => rfl
  | x :: xs, h => by
    have hx := List.pairwise_cons.mp h
    have ih := sortByName_of_sorted xs hx.2
    simp only [sortByName, List.foldr] at ih ⊢
    rw [ih]
    exact insertByName_head x xs hx.1

theorem insertByName_sorted_le (x : String × Mod) (l : Config) (h : l.Pairwise (fun a b => a.1 ≤ b.1)) :
    (insertByName x l).Pairwise (fun a b => a.1 ≤ b.1) := by
  induction l with
  | nil => simp [insertByName]
  | cons y ys ih =>
    have hy := List.pairwise_cons.mp h
    simp only [insertByName]
    split
    · rename_i hlt
      apply List.pairwise_cons.mpr
      refine ⟨?_, h⟩
      intro b hb
      have hxy : x.1 ≤ y.1 := String.not_lt.mp (String.lt_asymm hlt)
      rcases List.mem_cons.mp hb with rfl | hb'
      · exact hxy
      · exact String.le_trans hxy (hy.1 b hb')
    · rename_i hnlt
      apply List.pairwise_cons.mpr
      refine ⟨?_, ih hy.2⟩
      intro b hb
      rcases List.mem_cons.mp ((insertByName_perm x ys).mem_iff.mp hb) with rfl | hb'
      · exact String.not_lt.mp hnlt
      · exact hy.1 b hb'

theorem sortByName_sorted_le (l : Config) : (sortByName l).Pairwise (fun a b => a.1 ≤ b.1) := by
  induction l with
  | nil => simp [sortByName]
  | cons x xs ih =>
    simp only [sortByName, List.foldr] at ih ⊢
    exact insertByName_sorted_le x _ ih

/-- a project file written by `transformReqs` is listed by strictly increasing name -/
theorem sortByName_strict (l : Config) (hnd : (l.map (·.1)).Nodup) : (sortByName l).Pairwise nameLT := by
  have h1 := sortByName_sorted_le l
  have h2 : ((sortByName l).map (·.1)).Nodup := ((sortByName_perm l).map (·.1)).nodup_iff.mpr hnd
  have h3 : (sortByName l).Pairwise (fun a b => a.1 ≠ b.1) := by
    rw [List.Nodup, List.pairwise_map] at h2
    exact h2
  refine (h1.and h3).imp ?_
  rintro a b ⟨hle, hne⟩
  show a.1 < b.1
  by_cases hlt : a.1 < b.1
  · exact hlt
  · exact absurd (String.le_antisymm hle (String.not_lt.mp hlt)) hne

theorem nameNew_none_new (e : Env) (old : Config) : ∀ (vs : List Mod) (acc : Config),
    (∀ v ∈ vs, v.path = "" ∨ ∃ o ∈ old, o.2.path = v.path) → nameNew e old vs acc = .ok acc
  | [], _, _ => rfl
  | v :: vs, acc, h => by
    simp only [nameNew]
    have ih := nameNew_none_new e old vs acc (fun w hw => h w (List.mem_cons_of_mem _ hw))
    rcases h v List.mem_cons_self with h1 | h1
    · rw [if_pos h1]; exact ih
    · by_cases hp : v.path = ""
      · rw [if_pos hp]; exact ih
      · rw [if_neg hp]
        have : (old.any (·.2.path = v.path)) = true := by
          obtain ⟨o, ho, hop⟩ := h1
          exact List.any_eq_true.mpr ⟨o, ho, by simpa using hop⟩
        rw [if_pos this]; exact ih

/-- when the operation hands back requirements that contain every old one and name no new project, a project file
listed by name is returned unchanged -/
theorem transformReqs_stable {e : Env} {c : Config} {tx : List Mod → Except Err (List Mod)} {nv : List Mod}
    (hs : c.Pairwise nameLT) (hroots : ∀ r ∈ c.map (·.2), r.path ≠ "") (htx : tx (c.map (·.2)) = .ok nv)
    (hsub : ∀ r ∈ c.map (·.2), r ∈ nv) (hold : ∀ v ∈ nv, v.path = "" ∨ ∃ o ∈ c, o.2.path = v.path) :
    transformReqs e c tx = .ok c := by
  unfold transformReqs
  rw [htx]
  dsimp only
  have hkc : (c.filterMap fun nr => (pickFor nr.2 nv .none).map fun v => (nr.1, v)) = c := by
    apply filterMap_id_of_forall
    intro x hx
    have hm : x.2 ∈ c.map (·.2) := List.mem_map.mpr ⟨x, hx, rfl⟩
    rw [pickFor_exact x.2 (hroots _ hm) nv .none (hsub _ hm)]
    rfl
  rw [hkc, nameNew_none_new e c nv c hold]
  dsimp only
  rw [sortByName_of_sorted c hs]

/-- the output of `transformReqs` is listed by strictly increasing name -/
theorem transformReqs_sorted {e : Env} {c c' : Config} {tx : List Mod → Except Err (List Mod)}
    (h : transformReqs e c tx = .ok c') (hnd : (c.map (·.1)).Nodup) : c'.Pairwise nameLT := by
  have hnd' := transformReqs_names_nodup h hnd
  unfold transformReqs at h
  split at h
  · cases h
  · dsimp only at h
    split at h
    · cases h
    · rename_i all _
      cases h
      apply sortByName_strict
      exact ((sortByName_perm all).map (·.1)).nodup_iff.mp hnd'

/-! ### repeating an edit -/

/-- the second application of an "operation, then ReqList" edit, when the operation's build list is the same both
times: the project file does not change -/
theorem edit_again {e : Env} {c c' c'' : Config} {tx1 tx2 : List Mod → Except Err (List Mod)}
    {list nv nv2 : List Mod} {fuel fuel' f0 : Nat} {rq0 : Reqs} {up0 : Option (Mod → Option Mod)}
    (hnames : (c.map (·.1)).Nodup)
    (A : Mod → Prop) (hA1 : ∀ m, A m → okReq m)
    (hA2 : ∀ n s m, A n → e.summary n = some s → m ∈ s.reqs → A m)
    (hlist : buildListWith f0 rq0 up0 rootMod = .ok list)
    (hL : ∀ m ∈ list, m ≠ rootMod → A m)
    (h1 : transformReqs e c tx1 = .ok c') (htx1 : tx1 (c.map (·.2)) = .ok nv)
    (hreq1 : reqList fuel (dawnReqs e (c.map (·.2))) rootMod list = .ok nv)
    (h2 : transformReqs e c' tx2 = .ok c'') (htx2 : tx2 (c'.map (·.2)) = .ok nv2)
    (hreq2 : reqList fuel' (dawnReqs e (c'.map (·.2))) rootMod list = .ok nv2) : c'' = c' := by
  have hnd := buildListWith_nodup hlist
  have hmin := reqList_min_ok A hA1 hA2 hnd hL hreq1
  have hvals : ∀ m, m ∈ c'.map (·.2) ↔ m ∈ nv :=
    transformReqs_values_functional h1 htx1 (reqList_functional hnd hreq1) (fun v hv => (hA1 v (hmin v hv).2).1)
  -- ReqList answers the same for both project files
  have hnv : nv = nv2 := by
    apply reqList_congr (fun a => a = rootMod ∨ A a) _ _ _ hreq1 hreq2
    · intro a r b ha hne hr hb
      right
      rcases ha with rfl | ha
      · exact absurd rfl hne
      · rw [dawnReqs_required_of_ok e _ (hA1 a ha)] at hr
        cases hs : e.summary a with
        | none => simp [hs] at hr
        | some s =>
          simp only [hs, Option.map_some, Option.some.injEq] at hr
          subst hr
          exact hA2 a s b ha hs hb
    · intro a ha hne
      rcases ha with rfl | ha
      · exact absurd rfl hne
      · rw [dawnReqs_required_of_ok e _ (hA1 a ha), dawnReqs_required_of_ok e _ (hA1 a ha)]
    · intro m hm
      by_cases hmr : m = rootMod
      · exact Or.inl hmr
      · exact Or.inr (hL m hm hmr)
  subst hnv
  have hsorted := transformReqs_sorted h1 hnames
  have hstable := transformReqs_stable (e := e) hsorted
    (fun r hr => (hA1 r (hmin r ((hvals r).mp hr)).2).1) htx2
    (fun r hr => (hvals r).mp hr)
    (fun v hv => by
      right
      obtain ⟨x, hx, hxv⟩ := List.mem_map.mp ((hvals v).mpr hv)
      exact ⟨x, hx, by rw [hxv]⟩)
  rw [hstable] at h2
  cases h2
  rfl


/-- tidy twice = tidy once -/
theorem tidy_idem {e : Env} {c c' c'' : Config} {fuel fuel' : Nat}
    (hwf : WellFormed e (c.map (·.2))) (hnames : (c.map (·.1)).Nodup)
    (h1 : Tidy fuel e c = .ok c') (h2 : Tidy fuel' e c' = .ok c'') : c'' = c' := by
  have h1' := h1; have h2' := h2
  unfold Tidy at h1 h2
  obtain ⟨nv, _, _, htx1, _⟩ := transformReqs_spec h1
  obtain ⟨nv2, _, _, htx2, _⟩ := transformReqs_spec h2
  have htx1' := htx1; have htx2' := htx2
  simp only [req] at htx1 htx2
  split at htx1
  · cases htx1
  · rename_i list hlist
    split at htx2
    · cases htx2
    · rename_i list2 hlist2
      have hf := buildList_facts hwf hlist
      have heq : list2 = list := tidy_preserves e c c' fuel fuel fuel' list list2 hwf h1' hlist hlist2
      subst heq
      exact edit_again hnames (UReach e (c.map (·.2))) (fun m hm => ureach_ok hwf hm)
        (fun n s m hn hs hm => UReach.step n m s hn hs hm) hlist (fun m hm hne => (hf.2.2.1 m hm hne).1)
        h1 htx1' htx1 h2 htx2' htx2

/-- upgrade-all twice = upgrade-all once -/
theorem upgradeAll_idem {e : Env} {c c' c'' : Config} {fuel fuel' : Nat}
    (hwf : WellFormed e (c.map (·.2))) (htags : ∀ t ∈ e.tags, okReq t) (hnames : (c.map (·.1)).Nodup)
    (h1 : UpgradeAll fuel e c = .ok c') (h2 : UpgradeAll fuel' e c' = .ok c'') : c'' = c' := by
  unfold UpgradeAll at h1 h2
  obtain ⟨nv, _, _, htx1, _⟩ := transformReqs_spec h1
  obtain ⟨nv2, _, _, htx2, _⟩ := transformReqs_spec h2
  have htx1' := htx1; have htx2' := htx2
  dsimp only at htx1 htx2
  split at htx1
  · cases htx1
  · rename_i blu hupg
    split at htx2
    · cases htx2
    · rename_i blu2 hupg2
      rw [mvsUpgradeAll_eq] at hupg hupg2
      have G := upSetting_all hwf htags
      let A : Mod → Prop := fun m => Reach (dawnReqs e (c.map (·.2))) (some (upAllFn e)) rootMod m ∧ m ≠ rootMod ∧ m.ver ≠ .none
      have hA1 : ∀ m, A m → okReq m := by
        rintro m ⟨hr, hne, hv⟩
        rcases reach_up_weakOk G hr with h | ⟨h, h'⟩
        · exact absurd h hne
        · rcases h' with h' | h'
          · exact absurd h' hv
          · exact ⟨h, h'⟩
      have hA2 : ∀ n s m, A n → e.summary n = some s → m ∈ s.reqs → A m := by
        intro n s m hn hs hm
        have hok := G.env_ok n s hs m hm
        refine ⟨?_, ?_, okReq_ver_ne_none hok⟩
        · apply Reach.step n m hn.1
          apply (mem_edges_up _ _ n m).mpr
          right
          exact ⟨hn.2.2, s.reqs, by simp [dawnReqs, (hA1 n hn).1, hs], hm⟩
        · rintro rfl; exact hok.1 rfl
      have hL : ∀ m ∈ blu, m ≠ rootMod → A m := by
        rintro ⟨p, v⟩ hm hne
        have hex := (buildListWith_exact hupg p v).mp hm
        exact ⟨hex.2.1, hne, hex.1⟩
      have hnd := buildListWith_nodup hupg
      have hmin := reqList_min_ok A hA1 hA2 hnd hL htx1
      have hvals : ∀ m, m ∈ c'.map (·.2) ↔ m ∈ nv :=
        transformReqs_values_functional h1 htx1' (reqList_functional hnd htx1) (fun v hv => (hA1 v (hmin v hv).2).1)
      -- (i) the second exploration stays inside the first
      have hsub : ∀ m, Reach (dawnReqs e (c'.map (·.2))) (some (upAllFn e)) rootMod m →
          Reach (dawnReqs e (c.map (·.2))) (some (upAllFn e)) rootMod m := by
        intro m hm
        induction hm with
        | root => exact Reach.root
        | step n m _ hnm ih =>
          rcases (mem_edges_up _ _ n m).mp hnm with ⟨hu, hne⟩ | ⟨hv, r, hr, hmr⟩
          · exact Reach.step n m ih ((mem_edges_up _ _ n m).mpr (Or.inl ⟨hu, hne⟩))
          · by_cases hnr : n = rootMod
            · subst hnr
              simp only [dawnReqs, rootMod, ↓reduceIte, Option.some.injEq] at hr
              subst hr
              exact (hmin m ((hvals m).mp hmr)).2.1
            · rcases reach_up_weakOk G ih with h | ⟨h, _⟩
              · exact absurd h hnr
              · apply Reach.step n m ih
                apply (mem_edges_up _ _ n m).mpr
                right
                refine ⟨hv, r, ?_, hmr⟩
                simp only [dawnReqs, h, ↓reduceIte] at hr ⊢
                exact hr
      -- (ii) everything in the first list is reached by the second exploration
      obtain ⟨_, s2, _⟩ := reqList_sound hnd htx1
      have hchain : ∀ s ∈ nv, ∀ m, RReach (dawnReqs e (c.map (·.2))) rootMod s m →
          A m ∧ Reach (dawnReqs e (c'.map (·.2))) (some (upAllFn e)) rootMod m := by
        intro s hs m hr
        induction hr with
        | refl =>
          refine ⟨(hmin s hs).2, ?_⟩
          apply Reach.step rootMod s Reach.root
          apply (mem_edges_up _ _ _ _).mpr
          right
          exact ⟨by simp [rootMod], c'.map (·.2), by simp [dawnReqs, rootMod], (hvals s).mpr hs⟩
        | step a b r _ hne hr hb ih =>
          have hok := hA1 a ih.1
          rw [dawnReqs_required_of_ok e _ hok] at hr
          cases hsm : e.summary a with
          | none => simp [hsm] at hr
          | some sm =>
            simp only [hsm, Option.map_some, Option.some.injEq] at hr
            subst hr
            refine ⟨hA2 a sm b ih.1 hsm hb, ?_⟩
            apply Reach.step a b ih.2
            apply (mem_edges_up _ _ a b).mpr
            right
            exact ⟨okReq_ver_ne_none hok, sm.reqs, by simp [dawnReqs, hok.1, hsm], hb⟩
      have hsup : ∀ m ∈ blu, Reach (dawnReqs e (c'.map (·.2))) (some (upAllFn e)) rootMod m := by
        intro m hm
        by_cases hmr : m = rootMod
        · rw [hmr]; exact Reach.root
        · obtain ⟨s, hs, hr⟩ := s2 m hm hmr
          exact (hchain s hs m hr).2
      have heq : blu2 = blu := by
        apply buildListWith_ext hupg2 hupg
        rintro ⟨p, v⟩
        rw [buildListWith_exact hupg2]
        constructor
        · rintro ⟨hv, hr, hmax⟩
          obtain ⟨v1, hv1, hle⟩ := buildListWith_covers hupg p v (hsub _ hr) hv
          have : Ver.le v1 v := hmax v1 (hsup _ hv1)
          rw [Ver.le_antisymm hle this]; exact hv1
        · intro hm
          have hex := (buildListWith_exact hupg p v).mp hm
          exact ⟨hex.1, hsup _ hm, fun w hw => hex.2.2 w (hsub _ hw)⟩
      subst heq
      exact edit_again hnames A hA1 hA2 hupg hL h1 htx1' htx1 h2 htx2' htx2

theorem semverCompare_refl_sv (s : SemVer) : semverCompare (.sv s) (.sv s) = .eq := by
  simp [semverCompare, lawful_semver.refl]

/-- `get` on a project file whose build list already has the resolved version returns the file unchanged -/
theorem get_landed_noop {e : Env} {c : Config} {q : String} {fuel : Nat} {bl : List Mod} {version : Mod}
    (hwf : WellFormed e (c.map (·.2))) (hsorted : c.Pairwise nameLT)
    (hbl : BuildList fuel e c = .ok bl)
    (hres : resolveVersionQuery e bl (parseVersionQuery q) = .ok version) (hver : okReq version)
    (hland : version ∈ bl) : Get fuel e c q = .ok c := by
  unfold Get
  apply transformReqs_stable hsorted (fun r hr => (hwf.roots_ok r hr).1) (nv := c.map (·.2))
  · -- `get` takes the "already selected" branch and hands the root requirements back
    unfold BuildList at hbl
    unfold get
    dsimp only
    rw [hbl]
    dsimp only
    rw [hres]
    dsimp only
    have hnd := buildListWith_nodup hbl
    cases hfind : bl.find? (·.path = version.path) with
    | none => exact absurd rfl (find?_path_none hfind version hland)
    | some cur =>
      dsimp only
      obtain ⟨hcur, hcurp⟩ := find?_path_some hfind
      have : cur = version := inj_of_nodup_map (·.path) hnd hcur hland hcurp
      subst this
      obtain ⟨s, hs⟩ := hver.2
      rw [hs, semverCompare_refl_sv]
  · intro r hr; exact hr
  · intro v hv
    right
    obtain ⟨x, hx, rfl⟩ := List.mem_map.mp hv
    exact ⟨x, hx, rfl⟩


/-! ### names -/

/-- what `transformReqs` does to names: surviving projects keep every one of their names, every entry of the result is
either an old name on its old project or a name for a project that had none, and no name is used twice -/
theorem transformReqs_names {e : Env} {c c' : Config} {tx : List Mod → Except Err (List Mod)} {nv : List Mod}
    (h : transformReqs e c tx = .ok c') (htx : tx (c.map (·.2)) = .ok nv) (hnd : (c.map (·.1)).Nodup) :
    (c'.map (·.1)).Nodup ∧
    (∀ n r, (n, r) ∈ c → (∃ v ∈ nv, v.path = r.path ∧ v.path ≠ "") → ∃ v, (n, v) ∈ c' ∧ v.path = r.path) ∧
    (∀ n v, (n, v) ∈ c' → (∃ r, (n, r) ∈ c ∧ r.path = v.path) ∨ (v ∈ nv ∧ ¬ ∃ o ∈ c, o.2.path = v.path)) := by
  refine ⟨transformReqs_names_nodup h hnd, ?_, ?_⟩
  · obtain ⟨nv', kept, added, htx', hk, hperm, _, _, _⟩ := transformReqs_spec h
    rw [htx] at htx'; cases htx'
    intro n r hnr hex
    have hsome := pickFor_isSome r nv .none (Or.inr hex)
    cases hp : pickFor r nv .none with
    | none => simp [hp] at hsome
    | some v =>
      rcases pickFor_spec r nv .none v hp with h1 | h1
      · cases h1
      · refine ⟨v, hperm.mem_iff.mpr (List.mem_append_left _ ?_), h1.2.1⟩
        subst hk
        exact List.mem_filterMap.mpr ⟨(n, r), hnr, by simp [hp]⟩
  · obtain ⟨nv', kept, added, htx', hk, hperm, hadd, _, _⟩ := transformReqs_spec h
    rw [htx] at htx'; cases htx'
    intro n v hnv
    rcases List.mem_append.mp (hperm.mem_iff.mp hnv) with h1 | h1
    · left
      subst hk
      obtain ⟨nr, hnr, hpick⟩ := List.mem_filterMap.mp h1
      cases hp : pickFor nr.2 nv .none with
      | none => simp [hp] at hpick
      | some w =>
        simp only [hp, Option.map_some, Option.some.injEq, Prod.mk.injEq] at hpick
        obtain ⟨rfl, rfl⟩ := hpick
        rcases pickFor_spec nr.2 nv .none w hp with h2 | h2
        · cases h2
        · exact ⟨nr.2, hnr, h2.2.1.symm⟩
    · right
      exact ⟨(hadd _ h1).1, (hadd _ h1).2.2⟩

end Dawn.Mvs

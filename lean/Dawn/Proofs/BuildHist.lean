import Dawn.Proofs.BuildCrash
import Dawn.Proofs.BuildSettle
/-!
# Histories

`Reach P S R w`: `w` is a persisted state some finite history of operations leads to, starting without build state —
edits of the tree by the user, real builds of any requested target list (full or partial, with any bodies failing),
dry runs, builds or loads killed at any hook point, and garbage collections. Every build follows a fresh load
(`runBuild`, `crashBuild`). `R` is the set of labels a collection has retired: a build after a collection must not
define them again (C14's own exclusion — the run counter of D8's repair restarts with the record).
Every reachable state satisfies the persisted invariant.
-/
namespace Dawn.Build

inductive Reach (P : Params) (S : Shape) : (Label → Prop) → World → Prop
  | init (w : World) (h : ∀ l, w.recs l = none) : Reach P S (fun _ => False) w
  | edit {R : Label → Prop} {w w' : World} : Reach P S R w → EditOK S w w' → Reach P S R w'
  | build {R : Label → Prop} {w : World} (t : Tree) (o : Opts) (ord : List Label) : Reach P S R w → Conforms S t → o.dry = false →
      Ordered P t o (BSt.init (load t w)) ord → (∀ x, R x → t.defs x = none) → Reach P S R (runBuild P t o ord w).w
  | dry {R : Label → Prop} {w : World} (t : Tree) (o : Opts) (ord : List Label) : Reach P S R w → o.dry = true →
      Reach P S R (runBuild P t o ord w).w
  | crash {R : Label → Prop} {w : World} (t : Tree) (o : Opts) (ord : List Label) (k : Nat) : Reach P S R w → Conforms S t →
      o.dry = false → Ordered P t o (BSt.init (load t w)) ord → (∀ x, R x → t.defs x = none) →
      Reach P S R (crashBuild P t o ord k w)
  | crashLoad {R : Label → Prop} {w : World} (t : Tree) (k : Nat) : Reach P S R w → Reach P S R (crashLoad t k w)
  | gc {R : Label → Prop} {w : World} (t : Tree) (pi : Bool) : Reach P S R w →
      Reach P S (fun x => R x ∨ x ∉ t.labels) (gc t pi w)

/-- a collection: the live records stay, the dead labels are retired -/
theorem dinv_sweep {P : Params} {S : Shape} {w : World} {G : Ghost} (live : List Label) (di : DInv P S w G) :
    DInv P S (sweep live w) { G with retired := fun x => G.retired x ∨ x ∉ live } := by
  have hrec : ∀ l r, (sweep live w).recs l = some r → w.recs l = some r ∧ l ∈ live := by
    intro l r h
    by_cases hl : l ∈ live
    · rw [sweep_recs_live live w l hl] at h; exact ⟨h, hl⟩
    · rw [sweep_recs_dead live w l hl] at h; cases h
  constructor
  · intro l r e h hrr hd g hg
    exact di.rec_out l r e (hrec l r h).1 hrr hd g hg
  · intro l r e h hrr hd
    exact di.rec_attrs l r e (hrec l r h).1 hrr hd
  · intro l r e a h hrr hd hat g hg
    exact di.rec_hist l r e a (hrec l r h).1 hrr hd hat g hg
  · intro l r e a h hrr hd hat x hx
    have := di.rec_seen l r e a (hrec l r h).1 hrr hd hat x hx
    unfold SeenOK at this ⊢
    exact this
  · intro l r h x st hst
    by_cases hx : x ∈ live
    · rcases di.runs_le l r (hrec l r h).1 x st hst with h1 | h1
      · left; rw [sweep_recs_live live w x hx]; exact h1
      · right; exact Or.inl h1
    · right; exact Or.inr hx
  · intro l r h hk
    exact di.src_runs l r (hrec l r h).1 hk

theorem reach_dinv {P : Params} {S : Shape} (hinj : SumInj P) (hsr : P.stampRuns = true) (hlc : P.listCheck = true) (hmk : P.marker = true)
    {R : Label → Prop} {w : World} (h : Reach P S R w) : ∃ G, DInv P S w G ∧ G.retired = R := by
  induction h with
  | init w h => exact ⟨⟨fun _ _ _ => 0, fun _ _ _ => [], fun _ => False⟩, dinv_empty P S w _ h, rfl⟩
  | edit _ he ih => obtain ⟨G, di, hr⟩ := ih; exact ⟨G, dinv_edit di he, hr⟩
  | build t o ord _ hc hdry ho hret ih =>
    obtain ⟨G, di, hr⟩ := ih
    obtain ⟨G', di', hr', _⟩ := build_consistent hc hinj hsr hlc hdry ord _ G di ho (by rw [hr]; exact hret)
    exact ⟨G', di', by rw [hr', hr]⟩
  | dry t o ord _ hdry ih =>
    obtain ⟨G, di, hr⟩ := ih
    refine ⟨G, ?_, hr⟩
    unfold runBuild
    rw [(build_dry P t o hdry ord _).1]
    exact dinv_load t di
  | crash t o ord k _ hc hdry ho hret ih =>
    obtain ⟨G, di, hr⟩ := ih
    obtain ⟨G', di', hr'⟩ := crash_dinv hc hinj hsr hlc hmk hdry ord _ G di ho (by rw [hr]; exact hret) k
    exact ⟨G', di', by rw [hr', hr]⟩
  | crashLoad t k _ ih =>
    obtain ⟨G, di, hr⟩ := ih
    exact ⟨G, crashLoad_dinv t _ G di k, hr⟩
  | gc t pi _ ih =>
    obtain ⟨G, di, hr⟩ := ih
    refine ⟨{ G with retired := fun x => G.retired x ∨ x ∉ t.labels }, ?_, by simp [hr]⟩
    unfold gc gcLive
    exact dinv_sweep t.labels (dinv_load t di)

end Dawn.Build

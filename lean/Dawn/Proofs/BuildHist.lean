import Dawn.Proofs.BuildCrash
import Dawn.Proofs.BuildSettle
/-!
# Histories

`Reach P S w`: `w` is a persisted state some finite history of operations leads to, starting without build state —
edits of the tree by the user, real builds of any requested target list (full or partial, with any bodies failing),
dry runs, and builds or loads killed at any hook point. Every build follows a fresh load (`runBuild`, `crashBuild`).
Every reachable state satisfies the persisted invariant.
-/
namespace Dawn.Build

inductive Reach (P : Params) (S : Shape) : World → Prop
  | init (w : World) (h : ∀ l, w.recs l = none) : Reach P S w
  | edit {w w' : World} : Reach P S w → EditOK S w w' → Reach P S w'
  | build {w : World} (t : Tree) (o : Opts) (ord : List Label) : Reach P S w → Conforms S t → o.dry = false →
      Ordered P t o (BSt.init (load t w)) ord → Reach P S (runBuild P t o ord w).w
  | dry {w : World} (t : Tree) (o : Opts) (ord : List Label) : Reach P S w → o.dry = true → Reach P S (runBuild P t o ord w).w
  | crash {w : World} (t : Tree) (o : Opts) (ord : List Label) (k : Nat) : Reach P S w → Conforms S t → o.dry = false →
      Ordered P t o (BSt.init (load t w)) ord → Reach P S (crashBuild P t o ord k w)
  | crashLoad {w : World} (t : Tree) (k : Nat) : Reach P S w → Reach P S (crashLoad t k w)

theorem reach_dinv {P : Params} {S : Shape} (hinj : SumInj P) (hsr : P.stampRuns = true) (hmk : P.marker = true)
    {w : World} (h : Reach P S w) : ∃ G, DInv P S w G := by
  induction h with
  | init w h => exact ⟨⟨fun _ _ _ => 0, fun _ _ _ => []⟩, dinv_empty P S w _ h⟩
  | edit _ he ih => obtain ⟨G, di⟩ := ih; exact ⟨G, dinv_edit di he⟩
  | build t o ord _ hc hdry ho ih =>
    obtain ⟨G, di⟩ := ih
    obtain ⟨G', di', _⟩ := build_consistent hc hinj hsr hdry ord _ G di ho
    exact ⟨G', di'⟩
  | dry t o ord _ hdry ih =>
    obtain ⟨G, di⟩ := ih
    refine ⟨G, ?_⟩
    unfold runBuild
    rw [(build_dry P t o hdry ord _).1]
    exact dinv_load t di
  | crash t o ord k _ hc hdry ho ih =>
    obtain ⟨G, di⟩ := ih
    exact crash_dinv hc hinj hsr hmk hdry ord _ G di ho k
  | crashLoad t k _ ih =>
    obtain ⟨G, di⟩ := ih
    exact ⟨G, crashLoad_dinv t _ G di k⟩

end Dawn.Build

import Dawn.Proofs.RunnerGate
/-!
# Runner: the status wait at the level of `cond.Wait` / `cond.Broadcast` (group I)

`WState` refines `GState` by who sleeps in `target.wait`. Every `wstepV` (any mode) is a `gstep` or leaves the
gate-level state unchanged, so all safety theorems transfer. With `Broadcast` on both exits of `run` a sleeper exists
only while its target is running (`InvW`), which gives deadlock freedom again; the two seeded defects (`WMode`) break
exactly that invariant.
-/
namespace Dawn.Runner

/-! ## refinement -/

theorem wwake_g (mode : WMode) (P : Params) (l : Label) (e : Err) (w : WState) : (wwake mode P l e w).g = w.g := by
  cases mode
  · rfl
  · simp only [wwake]; split <;> rfl
  · simp only [wwake, wsignal]; split <;> rfl

theorem wstepV_g {mode : WMode} {P : Params} {w w' : WState} {t : Tid} (h : wstepV mode P w t = some w') :
    w'.g = w.g ∨ gstep P w.g t = some w'.g := by
  unfold wstepV at h
  split at h
  · split at h
    · cases h
    · split at h
      · injection h with h; subst h; exact Or.inl rfl
      · cases hs : gstep P w.g t with
        | none => rw [hs] at h; cases h
        | some g' => rw [hs] at h; simp at h; subst h; exact Or.inr rfl
  · split at h
    · cases hs : gstep P w.g t with
      | none => rw [hs] at h; cases h
      | some g' => rw [hs] at h; simp at h; subst h; right; rw [wwake_g]
    · cases hs : gstep P w.g t with
      | none => rw [hs] at h; cases h
      | some g' => rw [hs] at h; simp at h; subst h; exact Or.inr rfl

theorem WReachableV.g {mode : WMode} {P : Params} {w : WState} (h : WReachableV mode P w) : GReachable P w.g := by
  induction h with
  | init => exact .init
  | step t _ hs ih =>
    rcases wstepV_g hs with h | h
    · rw [h]; exact ih
    · exact .step t ih h

theorem WReachableV.core {mode : WMode} {P : Params} {w : WState} (h : WReachableV mode P w) :
    Reachable P w.g.core := h.g.core

/-! ## how a core step affects the other threads' waits -/

theorem tstep_main {P : Params} {s s' : State} {l : Label} {p : PC} (h : TStep P s l p s') : s'.main = s.main := by
  cases h with
  | start d rest => show (startTarget s d).main = s.main; unfold startTarget; split <;> rfl
  | _ => rfl

/-- a running target stays running across a step, unless the step is that target's own `finish` -/
theorem status_frame {P : Params} {s s' : State} {t : Tid} (h : step P s t = some s') (d : Label)
    (hr : s.status d = .running) :
    s'.status d = .running ∨ (t = .tgt d ∧ ∃ st e, s.pc d = some (.finish st e)) := by
  have hst : ∀ x, (startTarget s x).status d = .running := by
    intro x; unfold startTarget; split
    next hi => by_cases e : d = x
               · subst e; simp
               · simp [e, hr]
    · exact hr
  rcases step_cases h with ⟨_, hm⟩ | ⟨l, p, ht, hp, hts⟩
  · left
    cases hm with
    | start hm => exact hst _
    | wait hm hr' => exact hr
    | waitAll e hm hl => exact hr
  · cases hts with
    | start x rest => left; exact hst x
    | finish st e =>
      by_cases c : d = l
      · subst c; right; exact ⟨ht, st, e, hp⟩
      · left; show upd s.status l st d = _; simp [c, hr]
    | _ => left; exact hr

/-- the wait a sleeping thread stands in does not move when another thread steps -/
theorem sleepsOn_frame {P : Params} {s s' : State} {t x : Tid} (inv : Inv P s) (h : step P s t = some s')
    (hx : x ≠ t) {d : Label} (hs : sleepsOn P s x = some d) : sleepsOn P s' x = some d := by
  rcases step_cases h with ⟨ht, hm⟩ | ⟨l, p, ht, hp, hts⟩
  · subst ht
    cases x with
    | main => exact absurd rfl hx
    | tgt y =>
      obtain ⟨fr, _⟩ := mstep_frame inv hm
      simp only [sleepsOn] at hs ⊢
      rcases fr.pc y (by simp) with e | ⟨e, _⟩
      · rw [e]; exact hs
      · rw [e] at hs; cases hs
  · subst ht
    cases x with
    | main =>
      simp only [sleepsOn] at hs ⊢
      rw [tstep_main hts]; exact hs
    | tgt y =>
      have hyl : y ≠ l := fun e => hx (by rw [e])
      obtain ⟨fr, _⟩ := tstep_frame inv hp hts
      simp only [sleepsOn] at hs ⊢
      rcases fr.pc y (by simpa using hyl) with e | ⟨e, _⟩
      · rw [e]; exact hs
      · rw [e] at hs; cases hs

/-! ## the invariant: a sleeper's target is running -/

/-- `C04_no_lost_wakeup_status` as an invariant of the code's mode -/
def InvW (P : Params) (w : WState) : Prop :=
  ∀ t, w.wsleep t = true → ∃ d, sleepsOn P w.g.core t = some d ∧ w.g.core.status d = .running

theorem invW_init (P : Params) : InvW P (winit P) := by
  intro t h; simp [winit] at h

/-- a `gstep` by an awake thread `t` that is not the `finish` of a slept-on target keeps every sleeper's wait -/
theorem invW_gstep {P : Params} {w : WState} {g' : GState} {t : Tid} (hr : Reachable P w.g.core) (iw : InvW P w)
    (hg : gstep P w.g t = some g') (hawake : w.wsleep t = false) :
    ∀ x, w.wsleep x = true → ∃ d, sleepsOn P g'.core x = some d ∧
      (g'.core.status d = .running ∨ (t = .tgt d ∧ ∃ st e, w.g.core.pc d = some (.finish st e))) := by
  intro x hx
  obtain ⟨d, hd, hrun⟩ := iw x hx
  have hxt : x ≠ t := by intro e; subst e; rw [hawake] at hx; cases hx
  rcases gstepV_core hg with e | e
  · rw [e]; exact ⟨d, hd, Or.inl hrun⟩
  · exact ⟨d, sleepsOn_frame hr.inv e hxt hd, status_frame e d hrun⟩

theorem invW_step {P : Params} {w w' : WState} {t : Tid} (hr : Reachable P w.g.core) (iw : InvW P w)
    (h : wstep P w t = some w') : InvW P w' := by
  unfold wstep wstepV at h
  split at h
  next d hd =>
    split at h
    · cases h
    next hns =>
      have hawake : w.wsleep t = false := by simpa using hns
      split at h
      next hrun =>
        injection h with h; subst h
        intro x hx
        by_cases e : x = t
        · subst e; exact ⟨d, hd, hrun⟩
        · simp [updT, e] at hx; exact iw x hx
      next hnrun =>
        cases hs : gstep P w.g t with
        | none => rw [hs] at h; cases h
        | some g' =>
          rw [hs] at h; simp at h; subst h
          intro x hx
          obtain ⟨d', hd', h2⟩ := invW_gstep hr iw hs hawake x hx
          rcases h2 with h2 | ⟨ht, st, e, hpc⟩
          · exact ⟨d', hd', h2⟩
          · -- `t` waits, it is not finishing anything
            subst ht
            simp only [sleepsOn, hpc] at hd; cases hd
  next hnone =>
    have hawake : w.wsleep t = false := by
      cases hsl : w.wsleep t with
      | false => rfl
      | true => obtain ⟨d, hd, _⟩ := iw t hsl; rw [hd] at hnone; cases hnone
    split at h
    next l e hfin =>
      cases hs : gstep P w.g t with
      | none => rw [hs] at h; cases h
      | some g' =>
        rw [hs] at h; simp at h; subst h
        intro x hx
        simp only [wwake, wbroadcast] at hx ⊢
        split at hx
        · cases hx
        next hnl =>
          obtain ⟨d', hd', h2⟩ := invW_gstep hr iw hs hawake x hx
          rcases h2 with h2 | ⟨ht, st, e', hpc⟩
          · exact ⟨d', hd', h2⟩
          · -- the finishing thread is `tgt d'`, so `l = d'`, and `x` was woken
            subst ht
            simp only [finishing, hpc] at hfin
            injection hfin with hfin; injection hfin with h1 _
            subst h1
            exact absurd hd' hnl
    next hnf =>
      cases hs : gstep P w.g t with
      | none => rw [hs] at h; cases h
      | some g' =>
        rw [hs] at h; simp at h; subst h
        intro x hx
        obtain ⟨d', hd', h2⟩ := invW_gstep hr iw hs hawake x hx
        rcases h2 with h2 | ⟨ht, st, e, hpc⟩
        · exact ⟨d', hd', h2⟩
        · subst ht
          simp [finishing, hpc] at hnf

theorem WReachable.invW {P : Params} {w : WState} (h : WReachable P w) : InvW P w := by
  induction h with
  | init => exact invW_init P
  | step t hr hs ih => exact invW_step hr.core ih hs

/-! ## deadlock freedom with `Broadcast` -/

theorem w_stuck_all_done {P : Params} (hcap : 1 ≤ P.cap) {w : WState} (hr : WReachable P w)
    (hstuck : ∀ t, wstep P w t = none) :
    w.g.core.isDone = true ∧ ∀ l p, w.g.core.pc l = some p → p = .done := by
  have iw := hr.invW
  apply g_stuck_all_done hcap hr.g
  intro t
  have h := hstuck t
  unfold wstep wstepV at h
  split at h
  next d hd =>
    -- a waiter: in a stuck state it sleeps, so its target is running and the gate-level step is disabled too
    have hrun : w.g.core.status d = .running := by
      by_cases hsl : w.wsleep t = true
      · obtain ⟨d', hd', hr'⟩ := iw t hsl
        rw [hd] at hd'; injection hd' with hd'; subst hd'; exact hr'
      · rw [if_neg hsl] at h
        by_cases hrun : w.g.core.status d = .running
        · exact hrun
        · rw [if_neg hrun] at h
          cases hs : gstep P w.g t with
          | none =>
            -- not running, yet the core cannot step: impossible for a wait
            exfalso
            have : gstep P w.g t ≠ none := by
              cases t with
              | main =>
                simp only [sleepsOn] at hd
                split at hd
                next hm =>
                  injection hd with hd; subst hd
                  simp [gstep, gstepV, step, stepMain, hm, hrun]
                · cases hd
              | tgt x =>
                simp only [sleepsOn] at hd
                split at hd
                next d' rest hs' hp =>
                  injection hd with hd; subst hd
                  simp [gstep, gstepV, hp, PC.atGate, PC.isExit, step, stepTgt, hrun]
                · cases hd
            exact this hs
          | some g' => rw [hs] at h; simp at h
    cases t with
    | main =>
      simp only [sleepsOn] at hd
      split at hd
      next hm => injection hd with hd; subst hd; simp [gstep, gstepV, step, stepMain, hm, hrun]
      · cases hd
    | tgt x =>
      simp only [sleepsOn] at hd
      split at hd
      next d' rest hs' hp =>
        injection hd with hd; subst hd
        simp [gstep, gstepV, hp, PC.atGate, PC.isExit, step, stepTgt, hrun]
      · cases hd
  · split at h
    · cases hs : gstep P w.g t with
      | none => rfl
      | some g' => rw [hs] at h; simp at h
    · cases hs : gstep P w.g t with
      | none => rfl
      | some g' => rw [hs] at h; simp at h

theorem w_deadlock_free {P : Params} (hcap : 1 ≤ P.cap) {w : WState} (hr : WReachable P w)
    (hnd : w.g.core.isDone = false) : ∃ t w', wstep P w t = some w' := by
  apply Classical.byContradiction
  intro hno
  have hstuck : ∀ t, wstep P w t = none := by
    intro t
    cases h : wstep P w t with
    | none => rfl
    | some w' => exact absurd ⟨t, w', h⟩ hno
  have := (w_stuck_all_done hcap hr hstuck).1
  rw [hnd] at this; cases this

theorem wreachableV_of_wrunSched {mode : WMode} {P : Params} (ts : List Tid) {w0 w : WState}
    (h0 : WReachableV mode P w0) (h : wrunSched mode P w0 ts = some w) : WReachableV mode P w := by
  induction ts generalizing w0 with
  | nil => simp [wrunSched] at h; subst h; exact h0
  | cons t ts ih =>
    simp only [wrunSched] at h
    split at h
    next w1 hw1 => exact ih (WReachableV.step t h0 hw1) h
    · cases h

end Dawn.Runner

import Dawn.Proofs.RunnerCycle
import Dawn.Proofs.RunnerDeadlock
import Dawn.Proofs.RunnerProgress
import Dawn.Proofs.RunnerOrder
import Dawn.Proofs.RunnerGate
import Dawn.Proofs.RunnerStatusWait
/-!
# Runner: remaining helper facts — stability of finished targets, schedules as witnesses of reachability
-/
namespace Dawn.Runner

/-- a finished target's status and error never change again -/
theorem step_stable {P : Params} {s s' : State} {t : Tid} (inv : Inv P s) (h : step P s t = some s') :
    Stable s s' := by
  rcases step_cases h with ⟨_, hm⟩ | ⟨l, p, _, hp, ht⟩
  · cases hm with
    | start hm => exact stable_startTarget s P.root
    | wait hm hr => exact Stable.refl s
    | waitAll e hm hl => exact Stable.refl s
  · cases ht with
    | start d rest => exact stable_startTarget s d
    | finish st e =>
      have hrun := inv.running_of hp rfl
      intro x
      constructor
      · intro hx
        have : x ≠ l := by intro c; subst c; rw [hrun] at hx; cases hx
        simp [this]
      · intro hx
        by_cases c : x = l
        · subst c; simp; intro hi; have := inv.fin x st e hp; rw [hi] at this; cases this
        · simpa [c] using hx
    | _ => exact Stable.refl s

theorem reachable_of_runSched {P : Params} (ts : List Tid) {s0 s : State} (h0 : Reachable P s0)
    (h : runSched (step P) s0 ts = some s) : Reachable P s := by
  induction ts generalizing s0 with
  | nil => simp [runSched] at h; subst h; exact h0
  | cons t ts ih =>
    simp only [runSched] at h
    split at h
    next s1 hs1 => exact ih (Reachable.step t h0 hs1) h
    · cases h

theorem reachableOld_of_runSched {P : Params} (ts : List Tid) {s0 s : State} (h0 : ReachableOld P s0)
    (h : runSched (stepOld P) s0 ts = some s) : ReachableOld P s := by
  induction ts generalizing s0 with
  | nil => simp [runSched] at h; subst h; exact h0
  | cons t ts ih =>
    simp only [runSched] at h
    split at h
    next s1 hs1 => exact ih (ReachableOld.step t h0 hs1) h
    · cases h

/-- every slot holder is executing and vice versa, so the two sets coincide -/
theorem executing_eq_holders {P : Params} {s : State} (inv : Inv P s) : executingSet s = holders s := by
  unfold executingSet holders
  apply List.filter_congr
  intro x _
  rw [inv.holds x]
  unfold State.executing expHolds
  cases s.pc x <;> rfl

end Dawn.Runner

import Dawn.Proofs.LoaderInv5
namespace Dawn.Loader

/-- a module whose environment cannot be set up executes nothing and finishes with that error -/
structure InvB (P : Project) (s : State) : Prop where
  top : ∀ t f rest, s.stack t = f :: rest → P.broken f.mod = true → s.pc t = .run ∨ s.pc t = .fin .err
  lower : ∀ t f rest g, s.stack t = f :: rest → g ∈ rest → P.broken g.mod = false
  res : ∀ m, s.loaded m = true → P.broken m = true → s.result m = .err

theorem invB_init (P : Project) : InvB P (init P) := by
  constructor <;> intros <;> simp_all [init]

set_option maxHeartbeats 1000000 in
theorem invB_fstep {P : Project} {s s' : State} {t : Tid} (inv2 : Inv2 s) (inv : InvB P s) (st : FStep P s t s') :
    InvB P s' := by
  have ⟨b1, b2, b3⟩ := inv
  have ⟨j1,j2,j3,j4,j5,j6,j7,j8,j9⟩ := inv2
  cases st <;> constructor <;> simp only [setPc, publish, goSleep, upd] at * <;> first | grind | skip
  case load.lower d hpc =>
    intro t1 f rest g hs hg
    by_cases ht : t1 = t
    · subst ht
      simp only [↓reduceIte, List.cons.injEq] at hs
      obtain ⟨_, rfl⟩ := hs
      cases hst : s.stack t1 with
      | nil => rw [hst] at hg; simp at hg
      | cons f0 rest0 =>
        rw [hst] at hg
        simp only [List.mem_cons] at hg
        rcases hg with rfl | hg
        · cases hb : P.broken g.mod with
          | false => rfl
          | true => rcases b1 t1 g rest0 hst hb with h | h <;> rw [hpc] at h <;> cases h
        · exact b2 t1 f0 rest0 g hst hg
    · simp only [ht, ↓reduceIte] at hs
      exact b2 t1 f rest g hs hg

theorem invB_reachable {P : Project} {s : State} (h : Reachable .fixed P s) : InvB P s :=
  reachable_induction (I := InvB P) (invB_init P)
    (fun _ _ _ hr ih st => invB_fstep (inv2_reachable hr) ih st) h

end Dawn.Loader

import Dawn.Proofs.LoaderInv4
/-!
Completion invariant of the fixed loader model: what has been loaded successfully has all its `load` targets loaded
successfully, earlier; in an acyclic project nothing ever fails.
-/
namespace Dawn.Loader

/-- the module finished loading without error -/
def okLoaded (s : State) (m : Mod) : Prop := s.loaded m = true ∧ s.result m = .ok

structure Inv5 (P : Project) (s : State) : Prop where
  /-- the `load`s of a body that have been executed succeeded -/
  done_prefix : ∀ t f, f ∈ s.stack t → ∀ pre, P.loads f.mod = pre ++ f.todo → ∀ d ∈ pre, okLoaded s d
  unset_ok : ∀ t f rest d, s.pc t = .unset .ok → s.stack t = f :: rest → f.todo.head? = some d → okLoaded s d
  fin_ok : ∀ t f rest, s.pc t = .fin .ok → s.stack t = f :: rest → f.todo = []
  /-- a module that loaded successfully: so did everything it loads, and earlier -/
  ok_closed : ∀ m, okLoaded s m → ∀ d ∈ P.loads m, okLoaded s d ∧ s.ftime d < s.ftime m
  ftime_lt : ∀ m, s.loaded m = true → s.ftime m < s.clock
  /-- the outermost frame of a goroutine is its package's BUILD file -/
  bottom : ∀ t pre f, s.stack t = pre ++ [f] → P.roots[t]? = some f.mod
  /-- a goroutine returns only after its BUILD file finished loading -/
  root_done : ∀ t r, P.roots[t]? = some r → (s.pc t = .finished ∨ (∃ x, s.pc t = .unset x) ∧ s.stack t = []) →
      s.loaded r = true

theorem inv5_init (P : Project) : Inv5 P (init P) := by
  constructor
  · intro t f h; simp [init] at h
  · intro t f rest d _ h; simp [init] at h
  · intro t f rest _ h; simp [init] at h
  · intro m h; simp [okLoaded, init] at h
  · intro m h; simp [init] at h
  · intro t pre f h; simp [init] at h
  · intro t r hr h
    rcases init_pc P t with ⟨h1, _⟩ | ⟨r', _, h2⟩
    · rw [h1] at hr; cases hr
    · rw [h2] at h; simp at h

set_option maxHeartbeats 2000000 in
theorem inv5_fstep {P : Project} {s s' : State} {t : Tid} (inv1 : Inv1 P s) (inv2 : Inv2 s) (inv : Inv5 P s)
    (st : FStep P s t s') : Inv5 P s' := by
  have ⟨i1,i2,i3,i4,i5,i6,i7,i8,i9,i10,i11,i12⟩ := inv1
  have ⟨j1,j2,j3,j4,j5,j6,j7,j8,j9⟩ := inv2
  have ⟨m1,m2,m3,m4,m5,m6,m7⟩ := inv
  cases st <;> constructor <;> simp only [setPc, publish, goSleep, upd, okLoaded, resOf] at * <;> first | grind [target] | skip
  case load.done_prefix d hpc =>
    intro t1 f hf pre hp d1 hd1
    by_cases ht : t1 = t
    · subst ht
      simp only [↓reduceIte, List.mem_cons] at hf
      rcases hf with rfl | hf
      · simp only at hp
        have : pre = [] := List.append_left_eq_self.mp hp.symm
        subst this; simp at hd1
      · exact m1 t1 f hf pre hp d1 hd1
    · simp only [ht, ↓reduceIte] at hf
      exact m1 t1 f hf pre hp d1 hd1
  case load.bottom d hpc =>
    intro t1 pre f h
    by_cases ht : t1 = t
    · subst ht
      simp only [↓reduceIte] at h
      cases hs : s.stack t1 with
      | nil =>
        rw [hs] at h
        cases pre with
        | nil =>
          simp only [List.nil_append, List.cons.injEq, and_true] at h
          subst h
          exact i5 t1 d hs (by simp [hpc, target])
        | cons p pre' =>
          simp only [List.cons_append, List.cons.injEq] at h
          have := h.2
          simp at this
      | cons g rest =>
        rw [hs] at h
        cases pre with
        | nil => simp at h
        | cons p pre' =>
          simp only [List.cons_append, List.cons.injEq] at h
          exact m6 t1 pre' f (by rw [hs]; exact h.2)
    · simp only [ht, ↓reduceIte] at h
      exact m6 t1 pre f h
  case walkCyc.root_done d c hpc htop =>
    intro t1 r hr h
    by_cases ht : t1 = t
    · subst ht
      simp only [↓reduceIte, reduceCtorEq, false_or] at h
      simp [top, h.2] at htop
    · simp only [ht, ↓reduceIte] at h
      exact m7 t1 r hr h
  case unsetOk.done_prefix f rest hpc hst =>
    intro t1 g hg pre hp d1 hd1
    by_cases ht : t1 = t
    · subst ht
      simp only [↓reduceIte, List.mem_cons] at hg
      rcases hg with rfl | hg
      · simp only at hp
        have hne := i6 t1 f rest .ok hst hpc
        cases htd : f.todo with
        | nil => exact absurd htd hne
        | cons d ds =>
          rw [htd] at hp
          simp only [List.tail_cons] at hp
          obtain ⟨pre0, hp0⟩ := i7 t1 f (by simp [hst])
          rw [htd] at hp0
          have e : pre = pre0 ++ [d] := by
            have : pre ++ ds = (pre0 ++ [d]) ++ ds := by rw [← hp, ← hp0]; simp
            exact List.append_cancel_right this
          subst e
          simp only [List.mem_append, List.mem_cons, List.not_mem_nil, or_false] at hd1
          rcases hd1 with hd1 | rfl
          · exact m1 t1 f (by simp [hst]) pre0 (by rw [htd]; exact hp0.symm) d1 hd1
          · exact m2 t1 f rest d1 hpc hst (by simp [htd])
      · exact m1 t1 g (by simp [hst, hg]) pre hp d1 hd1
    · simp only [ht, ↓reduceIte] at hg
      exact m1 t1 g hg pre hp d1 hd1
  case unsetOk.bottom f rest hpc hst =>
    intro t1 pre g h
    by_cases ht : t1 = t
    · subst ht
      simp only [↓reduceIte] at h
      cases pre with
      | nil =>
        simp only [List.nil_append, List.cons.injEq] at h
        obtain ⟨rfl, hr⟩ := h
        exact m6 t1 [] f (by simp [hst, hr])
      | cons p pre' =>
        simp only [List.cons_append, List.cons.injEq] at h
        exact m6 t1 (f :: pre') g (by simp [hst, h.2])
    · simp only [ht, ↓reduceIte] at h
      exact m6 t1 pre g h
  case fin.unset_ok r f rest hpc hst =>
    have hlive := j5 t f (by simp [hst])
    intro t1 g rest1 d hp hs hd
    by_cases ht : t1 = t
    · subst ht
      simp only [↓reduceIte, PC.unset.injEq] at hp hs
      subst hp
      have := i8 t1 f g rest1 [] (by simp [hst, hs])
      rw [this] at hd
      cases hd
      simp
    · simp only [ht, ↓reduceIte] at hp hs
      have := m2 t1 g rest1 d hp hs hd
      by_cases hdm : d = f.mod
      · subst hdm; rw [hlive.1] at this; simp at this
      · simpa [hdm] using this
  case fin.root_done r f rest hpc hst =>
    have hlive := j5 t f (by simp [hst])
    intro t1 r1 hr h
    by_cases ht : t1 = t
    · subst ht
      simp only [↓reduceIte, reduceCtorEq, false_or] at h
      have := m6 t1 [] f (by simp [hst, h.2])
      rw [hr] at this
      cases this
      simp
    · simp only [ht, ↓reduceIte] at h
      have := m7 t1 r1 hr h
      by_cases e : r1 = f.mod <;> simp [e, this]

theorem inv5_reachable {P : Project} {s : State} (h : Reachable .fixed P s) : Inv5 P s :=
  reachable_induction (I := Inv5 P) (inv5_init P)
    (fun _ _ _ hr ih st => inv5_fstep (inv1_reachable hr) (inv2_reachable hr) ih st) h

/-- every module the project can reach has an environment (its project is in the build list, …) -/
def NoBroken (P : Project) : Prop := ∀ m, Reach P m → P.broken m = false

/-- in an acyclic project without unfetchable modules no goroutine ever holds an error and no module fails -/
structure NoFail (s : State) : Prop where
  no_unset : ∀ t r, s.pc t = .unset r → r = .ok
  no_fin : ∀ t r, s.pc t = .fin r → r = .ok
  no_failed : ∀ m, s.result m = .ok

theorem nofail_init (P : Project) : NoFail (init P) := by
  constructor
  · intro t r h
    rcases init_pc P t with ⟨_, h2⟩ | ⟨r', _, h2⟩ <;> rw [h2] at h <;> cases h
  · intro t r h
    rcases init_pc P t with ⟨_, h2⟩ | ⟨r', _, h2⟩ <;> rw [h2] at h <;> cases h
  · intro m; rfl

theorem nofail_fstep {P : Project} {s s' : State} {t : Tid} (hac : Acyclic P) (hnb : NoBroken P) (inv1 : Inv1 P s)
    (inv4 : Inv4 P s) (inv : NoFail s) (st : FStep P s t s') : NoFail s' := by
  have ⟨n1, n2, n3⟩ := inv
  cases st
  case walkCyc d c hpc htop =>
    have := verdict_cycle inv1 inv4 hpc htop
    exact absurd this.2 (hac c this.1)
  case runBroken f rest hpc hst hb =>
    have := hnb f.mod (inv4.reg_reach f.mod (inv1.frame_reg t f (by simp [hst])))
    rw [this] at hb; cases hb
  all_goals
    constructor <;> simp only [setPc, publish, goSleep, upd, resOf] at * <;> grind

theorem nofail_reachable {P : Project} (hac : Acyclic P) (hnb : NoBroken P) {s : State} (h : Reachable .fixed P s) :
    NoFail s :=
  reachable_induction (I := NoFail) (nofail_init P)
    (fun _ _ _ hr ih st => nofail_fstep hac hnb (inv1_reachable hr) (inv4_reachable hr) ih st) h

/-- without unfetchable modules the only error there is is the cyclic-dependency error -/
structure OnlyCyc (s : State) : Prop where
  no_unset : ∀ t, s.pc t ≠ .unset .err
  no_fin : ∀ t, s.pc t ≠ .fin .err
  no_err : ∀ m, s.result m ≠ .err

theorem onlycyc_init (P : Project) : OnlyCyc (init P) := by
  constructor
  · intro t h
    rcases init_pc P t with ⟨_, h2⟩ | ⟨r', _, h2⟩ <;> rw [h2] at h <;> cases h
  · intro t h
    rcases init_pc P t with ⟨_, h2⟩ | ⟨r', _, h2⟩ <;> rw [h2] at h <;> cases h
  · intro m h; cases h

theorem onlycyc_fstep {P : Project} {s s' : State} {t : Tid} (hnb : NoBroken P) (inv1 : Inv1 P s)
    (inv4 : Inv4 P s) (inv : OnlyCyc s) (st : FStep P s t s') : OnlyCyc s' := by
  have ⟨n1, n2, n3⟩ := inv
  cases st
  case runBroken f rest hpc hst hb =>
    have := hnb f.mod (inv4.reg_reach f.mod (inv1.frame_reg t f (by simp [hst])))
    rw [this] at hb; cases hb
  all_goals
    constructor <;> simp only [setPc, publish, goSleep, upd, resOf] at * <;> grind

theorem onlycyc_reachable {P : Project} (hnb : NoBroken P) {s : State} (h : Reachable .fixed P s) : OnlyCyc s :=
  reachable_induction (I := OnlyCyc) (onlycyc_init P)
    (fun _ _ _ hr ih st => onlycyc_fstep hnb (inv1_reachable hr) (inv4_reachable hr) ih st) h

end Dawn.Loader

import Dawn.Model.Diff
/-! helper lemmas for C16: values, equality, mapping diffs -/
namespace Dawn.Diff

mutual
theorem Val.beq_refl : ∀ a : Val, a.beq a = true
  | .none => by simp [Val.beq]
  | .bool _ => by simp [Val.beq]
  | .int _ => by simp [Val.beq]
  | .str s => by simp [Val.beq]
  | .bytes s => by simp [Val.beq]
  | .tuple xs => by simp [Val.beq, Val.beqList_refl xs]
  | .list xs => by simp [Val.beq, Val.beqList_refl xs]
  | .dict kvs => by simp [Val.beq, Val.beqPairs_refl kvs]
theorem Val.beqList_refl : ∀ xs : List Val, Val.beqList xs xs = true
  | [] => by simp [Val.beqList]
  | x :: xs => by simp [Val.beqList, Val.beq_refl x, Val.beqList_refl xs]
theorem Val.beqPairs_refl : ∀ xs : List (Val × Val), Val.beqPairs xs xs = true
  | [] => by simp [Val.beqPairs]
  | (k, v) :: xs => by simp [Val.beqPairs, Val.beq_refl k, Val.beq_refl v, Val.beqPairs_refl xs]
end

mutual
theorem Val.eq_of_beq : ∀ a b : Val, a.beq b = true → a = b
  | .none, b => by cases b <;> simp [Val.beq]
  | .bool _, b => by cases b <;> simp [Val.beq]
  | .int _, b => by cases b <;> simp [Val.beq]
  | .str s, b => by cases b <;> simp [Val.beq]
  | .bytes s, b => by cases b <;> simp [Val.beq]
  | .tuple xs, b => by
    cases b <;> simp only [Val.beq, Bool.false_eq_true, false_implies]
    intro h; rw [Val.eqList_of_beq _ _ h]
  | .list xs, b => by
    cases b <;> simp only [Val.beq, Bool.false_eq_true, false_implies]
    intro h; rw [Val.eqList_of_beq _ _ h]
  | .dict xs, b => by
    cases b <;> simp only [Val.beq, Bool.false_eq_true, false_implies]
    intro h; rw [Val.eqPairs_of_beq _ _ h]
theorem Val.eqList_of_beq : ∀ xs ys : List Val, Val.beqList xs ys = true → xs = ys
  | [], ys => by cases ys <;> simp [Val.beqList]
  | x :: xs, ys => by
    cases ys with
    | nil => simp [Val.beqList]
    | cons y ys =>
      simp only [Val.beqList, Bool.and_eq_true]
      intro ⟨h1, h2⟩
      rw [Val.eq_of_beq _ _ h1, Val.eqList_of_beq _ _ h2]
theorem Val.eqPairs_of_beq : ∀ xs ys : List (Val × Val), Val.beqPairs xs ys = true → xs = ys
  | [], ys => by cases ys <;> simp [Val.beqPairs]
  | (k, v) :: xs, ys => by
    cases ys with
    | nil => simp [Val.beqPairs]
    | cons y ys =>
      obtain ⟨k', v'⟩ := y
      simp only [Val.beqPairs, Bool.and_eq_true]
      intro ⟨⟨h1, h2⟩, h3⟩
      rw [Val.eq_of_beq _ _ h1, Val.eq_of_beq _ _ h2, Val.eqPairs_of_beq _ _ h3]
end

theorem Val.beq_iff_eq (a b : Val) : a.beq b = true ↔ a = b :=
  ⟨Val.eq_of_beq a b, fun h => h ▸ Val.beq_refl a⟩

instance : DecidableEq Val := fun a b =>
  if h : a.beq b = true then isTrue ((Val.beq_iff_eq a b).mp h)
  else isFalse fun e => h ((Val.beq_iff_eq a b).mpr e)

theorem lookup_eq_none_iff (k : Val) (kvs : List (Val × Val)) : lookup k kvs = none ↔ ∀ e ∈ kvs, e.1 ≠ k := by
  induction kvs with
  | nil => simp [lookup]
  | cons e kvs ih =>
    obtain ⟨k', v⟩ := e
    simp only [lookup, List.mem_cons, forall_eq_or_imp]
    by_cases h : k.beq k' = true
    · have := (Val.beq_iff_eq _ _).mp h
      subst this
      simp [Val.beq_refl]
    · have hne : k' ≠ k := fun e => h ((Val.beq_iff_eq _ _).mpr e.symm)
      simp [h, ih, hne]

theorem Val.height_pos (a : Val) : 1 ≤ a.height := by
  cases a <;> simp [Val.height] <;> omega

theorem mem_heightList {x : Val} {xs : List Val} (h : x ∈ xs) : x.height ≤ Val.heightList xs := by
  induction xs with
  | nil => simp at h
  | cons y ys ih =>
    simp only [Val.heightList]
    rcases List.mem_cons.mp h with rfl | h
    · omega
    · have := ih h; omega

theorem mem_heightPairs {k v : Val} {kvs : List (Val × Val)} (h : (k, v) ∈ kvs) : v.height ≤ Val.heightPairs kvs := by
  induction kvs with
  | nil => simp at h
  | cons e es ih =>
    obtain ⟨k', v'⟩ := e
    simp only [Val.heightPairs]
    rcases List.mem_cons.mp h with h | h
    · cases h; omega
    · have := ih h; omega

theorem lookup_mem {k v : Val} {kvs : List (Val × Val)} (h : lookup k kvs = some v) : ∃ k', (k', v) ∈ kvs := by
  induction kvs with
  | nil => simp [lookup] at h
  | cons e es ih =>
    obtain ⟨k', v'⟩ := e
    simp only [lookup] at h
    split at h
    · cases h; exact ⟨k', by simp⟩
    · obtain ⟨k'', hk⟩ := ih h; exact ⟨k'', by simp [hk]⟩

theorem allEqWith_total (f : Val → Val → Except Err Bool) (xs : List Val) :
    ∀ ys : List Val, (∀ x ∈ xs, ∀ y, ∃ r, f x y = .ok r) → ∃ r, allEqWith f xs ys = .ok r := by
  induction xs with
  | nil => intro ys _; cases ys <;> exact ⟨true, by simp [allEqWith]⟩
  | cons x xs ih =>
    intro ys h
    cases ys with
    | nil => exact ⟨true, by simp [allEqWith]⟩
    | cons y ys =>
      obtain ⟨r, hr⟩ := h x (by simp) y
      cases r with
      | false => exact ⟨false, by simp [allEqWith, hr]⟩
      | true =>
        obtain ⟨r', hr'⟩ := ih ys (fun x' hx' y' => h x' (by simp [hx']) y')
        exact ⟨r', by simp [allEqWith, hr, hr']⟩

theorem dictEqWith_total (f : Val → Val → Except Err Bool) (ys : List (Val × Val)) (xs : List (Val × Val)) :
    (∀ e ∈ xs, ∀ y, ∃ r, f e.2 y = .ok r) → ∃ r, dictEqWith f ys xs = .ok r := by
  induction xs with
  | nil => intro _; exact ⟨true, by simp [dictEqWith]⟩
  | cons e xs ih =>
    intro h
    obtain ⟨k, xv⟩ := e
    simp only [dictEqWith]
    cases hl : lookup k ys with
    | none => exact ⟨false, rfl⟩
    | some yv =>
      obtain ⟨r, hr⟩ := h (k, xv) (by simp) yv
      simp only [] at hr
      cases r with
      | false => exact ⟨false, by simp [hr]⟩
      | true =>
        obtain ⟨r', hr'⟩ := ih (fun e' he' y' => h e' (by simp [he']) y')
        exact ⟨r', by simp [hr, hr']⟩

/-- a comparison whose left argument is no deeper than the limit does not fail -/
theorem equalDepth_total (d : Nat) : ∀ (a b : Val), a.height ≤ d → ∃ r, equalDepth d a b = .ok r := by
  induction d with
  | zero => intro a _ h; have := a.height_pos; omega
  | succ d ih =>
    intro a b h
    cases a with
    | none => cases b <;> simp [equalDepth]
    | bool _ => cases b <;> simp [equalDepth]
    | int _ => cases b <;> simp [equalDepth]
    | str s => cases b <;> simp [equalDepth]
    | bytes s => cases b <;> simp [equalDepth]
    | tuple xs =>
      cases b <;> simp only [equalDepth, Except.ok.injEq, exists_eq']
      rename_i ys
      split
      · exact ⟨_, rfl⟩
      · exact allEqWith_total _ xs ys (fun x hx y => ih x y (by
          have := mem_heightList hx; simp only [Val.height] at h; omega))
    | list xs =>
      cases b <;> simp only [equalDepth, Except.ok.injEq, exists_eq']
      rename_i ys
      split
      · exact ⟨_, rfl⟩
      · exact allEqWith_total _ xs ys (fun x hx y => ih x y (by
          have := mem_heightList hx; simp only [Val.height] at h; omega))
    | dict xs =>
      cases b <;> simp only [equalDepth, Except.ok.injEq, exists_eq']
      rename_i ys
      split
      · exact ⟨_, rfl⟩
      · exact dictEqWith_total _ ys xs (fun e he y => ih e.2 y (by
          have := mem_heightPairs (k := e.1) (v := e.2) (by simpa using he)
          simp only [Val.height] at h; omega))

mutual
/-- no dict anywhere inside -/
def Val.dictFree : Val → Bool
  | .none => true
  | .bool _ => true
  | .int _ => true
  | .str _ => true
  | .bytes _ => true
  | .tuple xs => Val.dictFreeList xs
  | .list xs => Val.dictFreeList xs
  | .dict _ => false
def Val.dictFreeList : List Val → Bool
  | [] => true
  | x :: xs => x.dictFree && Val.dictFreeList xs
end

theorem dictFreeList_mem {x : Val} {xs : List Val} (h : Val.dictFreeList xs = true) (hx : x ∈ xs) : x.dictFree = true := by
  induction xs with
  | nil => simp at hx
  | cons y ys ih =>
    simp only [Val.dictFreeList, Bool.and_eq_true] at h
    rcases List.mem_cons.mp hx with rfl | hx
    · exact h.1
    · exact ih h.2 hx

theorem beqList_length {xs ys : List Val} (h : Val.beqList xs ys = true) : xs.length = ys.length := by
  induction xs generalizing ys with
  | nil => cases ys <;> simp_all [Val.beqList]
  | cons x xs ih =>
    cases ys with
    | nil => simp [Val.beqList] at h
    | cons y ys =>
      simp only [Val.beqList, Bool.and_eq_true] at h
      simp [ih h.2]

theorem allEqWith_beq (f : Val → Val → Except Err Bool) (xs : List Val) : ∀ ys : List Val,
    xs.length = ys.length → (∀ x ∈ xs, ∀ y, f x y = .ok (x.beq y)) → allEqWith f xs ys = .ok (Val.beqList xs ys) := by
  induction xs with
  | nil => intro ys hl _; cases ys <;> simp_all [allEqWith, Val.beqList]
  | cons x xs ih =>
    intro ys hl h
    cases ys with
    | nil => simp at hl
    | cons y ys =>
      have hxy := h x (by simp) y
      simp only [allEqWith, hxy, Val.beqList]
      cases hb : x.beq y with
      | false => simp
      | true =>
        simp only [Bool.true_and]
        exact ih ys (by simpa using hl) (fun x' hx' y' => h x' (by simp [hx']) y')

/-- on values without dicts, `EqualDepth` within the depth limit is structural equality -/
theorem equalDepth_dictFree (d : Nat) : ∀ (a b : Val), a.dictFree = true → a.height ≤ d →
    equalDepth d a b = .ok (a.beq b) := by
  induction d with
  | zero => intro a _ _ h; have := a.height_pos; omega
  | succ d ih =>
    intro a b hf hh
    cases a with
    | none => cases b <;> simp [equalDepth, Val.beq]
    | bool _ => cases b <;> simp [equalDepth, Val.beq]
    | int _ => cases b <;> simp [equalDepth, Val.beq]
    | str s => cases b <;> simp [equalDepth, Val.beq]
    | bytes s => cases b <;> simp [equalDepth, Val.beq]
    | dict kvs => simp [Val.dictFree] at hf
    | tuple xs =>
      cases b <;> simp only [equalDepth, Val.beq]
      rename_i ys
      split
      · rename_i hne
        cases hb : Val.beqList xs ys with
        | false => rfl
        | true => exact absurd (beqList_length hb) hne
      · rename_i he
        exact allEqWith_beq _ xs ys (by simpa using he) (fun x hx y => ih x y
          (dictFreeList_mem (by simpa [Val.dictFree] using hf) hx)
          (by have := mem_heightList hx; simp only [Val.height] at hh; omega))
    | list xs =>
      cases b <;> simp only [equalDepth, Val.beq]
      rename_i ys
      split
      · rename_i hne
        cases hb : Val.beqList xs ys with
        | false => rfl
        | true => exact absurd (beqList_length hb) hne
      · rename_i he
        exact allEqWith_beq _ xs ys (by simpa using he) (fun x hx y => ih x y
          (dictFreeList_mem (by simpa [Val.dictFree] using hf) hx)
          (by have := mem_heightList hx; simp only [Val.height] at hh; omega))

/-- the elements of a sequence are less deep than the sequence, except that indexing a string or bytes gives
a string or bytes again -/
theorem elems_height {a : Val} {xs : List Val} (h : a.elems? = some xs) {x : Val} (hx : x ∈ xs) :
    (a.indexReturnsSlice = true ∧ x.height = 1) ∨ (a.indexReturnsSlice = false ∧ x.height + 1 ≤ a.height) := by
  cases a with
  | str s =>
    simp only [Val.elems?, Option.some.injEq] at h
    subst h
    obtain ⟨c, _, rfl⟩ := List.mem_map.mp hx
    exact Or.inl ⟨rfl, rfl⟩
  | bytes s =>
    simp only [Val.elems?, Option.some.injEq] at h
    subst h
    obtain ⟨c, _, rfl⟩ := List.mem_map.mp hx
    exact Or.inl ⟨rfl, rfl⟩
  | tuple ys =>
    simp only [Val.elems?, Option.some.injEq] at h
    subst h
    exact Or.inr ⟨rfl, by have := mem_heightList hx; simp only [Val.height]; omega⟩
  | list ys =>
    simp only [Val.elems?, Option.some.injEq] at h
    subst h
    exact Or.inr ⟨rfl, by have := mem_heightList hx; simp only [Val.height]; omega⟩
  | dict kvs => simp [Val.elems?] at h
  | none => simp [Val.elems?] at h
  | bool _ => simp [Val.elems?] at h
  | int _ => simp [Val.elems?] at h

end Dawn.Diff

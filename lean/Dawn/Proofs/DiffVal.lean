import Dawn.Model.Diff
/-! helper lemmas for C16: values, equality, mapping diffs -/
namespace Dawn.Diff

mutual
theorem Val.beq_refl : ∀ a : Val, a.beq a = true
  | .str s => by simp [Val.beq]
  | .bytes s => by simp [Val.beq]
  | .tuple xs => by simp [Val.beq, Val.beqList_refl xs]
  | .list xs => by simp [Val.beq, Val.beqList_refl xs]
  | .dict kvs => by simp [Val.beq, Val.beqPairs_refl kvs]
theorem Val.beqList_refl : ∀ xs : List Val, Val.beqList xs xs = true
  | [] => by simp [Val.beqList]
  | x :: xs => by simp [Val.beqList, Val.beq_refl x, Val.beqList_refl xs]
theorem Val.beqPairs_refl : ∀ xs : List (Val × Val), Val.beqPairs xs xs = true
  | [] => by simp [Val.beqPairs]
  | (k, v) :: xs => by simp [Val.beqPairs, Val.beq_refl k, Val.beq_refl v, Val.beqPairs_refl xs]
end

mutual
theorem Val.eq_of_beq : ∀ a b : Val, a.beq b = true → a = b
  | .str s, b => by cases b <;> simp [Val.beq]
  | .bytes s, b => by cases b <;> simp [Val.beq]
  | .tuple xs, b => by
    cases b <;> simp only [Val.beq, Bool.false_eq_true, false_implies]
    intro h; rw [Val.eqList_of_beq _ _ h]
  | .list xs, b => by
    cases b <;> simp only [Val.beq, Bool.false_eq_true, false_implies]
    intro h; rw [Val.eqList_of_beq _ _ h]
  | .dict xs, b => by
    cases b <;> simp only [Val.beq, Bool.false_eq_true, false_implies]
    intro h; rw [Val.eqPairs_of_beq _ _ h]
theorem Val.eqList_of_beq : ∀ xs ys : List Val, Val.beqList xs ys = true → xs = ys
  | [], ys => by cases ys <;> simp [Val.beqList]
  | x :: xs, ys => by
    cases ys with
    | nil => simp [Val.beqList]
    | cons y ys =>
      simp only [Val.beqList, Bool.and_eq_true]
      intro ⟨h1, h2⟩
      rw [Val.eq_of_beq _ _ h1, Val.eqList_of_beq _ _ h2]
theorem Val.eqPairs_of_beq : ∀ xs ys : List (Val × Val), Val.beqPairs xs ys = true → xs = ys
  | [], ys => by cases ys <;> simp [Val.beqPairs]
  | (k, v) :: xs, ys => by
    cases ys with
    | nil => simp [Val.beqPairs]
    | cons y ys =>
      obtain ⟨k', v'⟩ := y
      simp only [Val.beqPairs, Bool.and_eq_true]
      intro ⟨⟨h1, h2⟩, h3⟩
      rw [Val.eq_of_beq _ _ h1, Val.eq_of_beq _ _ h2, Val.eqPairs_of_beq _ _ h3]
end

theorem Val.beq_iff_eq (a b : Val) : a.beq b = true ↔ a = b :=
  ⟨Val.eq_of_beq a b, fun h => h ▸ Val.beq_refl a⟩

instance : DecidableEq Val := fun a b =>
  if h : a.beq b = true then isTrue ((Val.beq_iff_eq a b).mp h)
  else isFalse fun e => h ((Val.beq_iff_eq a b).mpr e)

theorem lookup_eq_none_iff (k : Val) (kvs : List (Val × Val)) : lookup k kvs = none ↔ ∀ e ∈ kvs, e.1 ≠ k := by
  induction kvs with
  | nil => simp [lookup]
  | cons e kvs ih =>
    obtain ⟨k', v⟩ := e
    simp only [lookup, List.mem_cons, forall_eq_or_imp]
    by_cases h : k.beq k' = true
    · have := (Val.beq_iff_eq _ _).mp h
      subst this
      simp [Val.beq_refl]
    · have hne : k' ≠ k := fun e => h ((Val.beq_iff_eq _ _).mpr e.symm)
      simp [h, ih, hne]

end Dawn.Diff

import Dawn.Proofs.MvsEdit
/-!
# `mvs.Downgrade`'s loop `for excluded[r]`: termination, and the two defects the model used to have

* the loop ends whenever `Previous` strictly decreases within a finite set of versions and finally answers `"none"`
  (what `Reqs.Previous` does since the fix of D13);
* `previousD13` (the old `Reqs.Previous`) answers `""` instead: the loop then spins (D13);
* `firstLoopD14` (the old first loop of `transformReqs`) depends on the order of the returned list (D14).
-/
namespace Dawn.Mvs

theorem filter_length_lt {α : Type} (P Q : α → Bool) : ∀ (l : List α), (∀ x, P x = true → Q x = true) →
    (∃ y ∈ l, Q y = true ∧ P y = false) → (l.filter P).length < (l.filter Q).length
  | [], _, h => by obtain ⟨y, hy, _⟩ := h; cases hy
  | x :: xs, hsub, h => by
    obtain ⟨y, hy, hq, hp⟩ := h
    have hmono : (xs.filter P).length ≤ (xs.filter Q).length := by
      clear hy
      induction xs with
      | nil => simp
      | cons z zs ih =>
        simp only [List.filter_cons]
        cases hz : P z
        · cases Q z <;> simp <;> omega
        · simp [hsub z hz]; omega
    rcases List.mem_cons.mp hy with rfl | hy'
    · simp only [List.filter_cons, hp, hq]
      simp; omega
    · have ih := filter_length_lt P Q xs hsub ⟨y, hy', hq, hp⟩
      simp only [List.filter_cons]
      cases hx : P x
      · cases Q x <;> simp <;> omega
      · simp [hsub x hx]; omega

/-- how many of the known versions are below `v` -/
def below (vs : List Ver) (v : Ver) : Nat := (vs.filter fun w => cmpVersion w v = .lt).length

theorem below_lt {vs : List Ver} {a b : Ver} (ha : a ∈ vs) (hab : cmpVersion a b = .lt) : below vs a < below vs b := by
  apply filter_length_lt
  · intro x hx
    have hx' : cmpVersion x a = .lt := by simpa using hx
    simpa using lawful_cmpVersion.trans x a b hx' hab
  · refine ⟨a, ha, by simpa using hab, ?_⟩
    simp [lawful_cmpVersion.refl]

/-- C11, termination of the downgrade loop: if `Previous` answers `"none"` or a strictly smaller version out of a finite
set `vs` (and the versions named by the downgrade are in `vs` too), the loop `for excluded[r]` ends within
`|vs| + 1` iterations — it never reports `Err.fuel` when given more than `below vs r.ver` iterations (under the separate
assumption that the bounded recursion `add` itself is given enough fuel). -/
theorem stepDown_terminates (fuel : Nat) (rq : Reqs) (prev : Mod → Option Mod) (maxv : Sel) (vs : List Ver)
    (hadd : ∀ st p, (add fuel rq maxv st p).isSome)
    (hprev : ∀ r p, prev r = some p → p.ver = .none ∨ (p.ver ∈ vs ∧ cmpVersion p.ver r.ver = .lt))
    (hmax : ∀ p v, maxv.lookup p = some v → v ∈ vs) :
    ∀ (n : Nat) (st : DState) (r : Mod), below vs r.ver < n → stepDown fuel rq prev maxv n st r ≠ .error .fuel := by
  intro n
  induction n with
  | zero => intro st r h; omega
  | succ n ih =>
    intro st r hlt
    simp only [stepDown]
    split
    · simp
    · cases hp : prev r with
      | none => simp
      | some p =>
        dsimp only
        -- the candidate after the pseudo-version adjustment is still below r and in vs (or "none")
        have key : ∀ p' : Mod, p' = (if vmax ((maxv.lookup r.path).getD .root) r.ver ≠ (maxv.lookup r.path).getD .root ∧
              vmax p.ver ((maxv.lookup r.path).getD .root) ≠ p.ver then (⟨p.path, (maxv.lookup r.path).getD .root⟩ : Mod) else p) →
            p'.ver = .none ∨ (p'.ver ∈ vs ∧ cmpVersion p'.ver r.ver = .lt) := by
          intro p' hp'
          split at hp'
          · rename_i hc
            subst hp'
            right
            cases hl : maxv.lookup r.path with
            | none =>
              rw [hl] at hc
              simp only [Option.getD_none] at hc
              exfalso
              apply hc.1
              rw [vmax_eq]
              have : cmpVersion .root r.ver ≠ .lt := by
                cases hr : r.ver <;> simp [cmpVersion]
              simp [this]
            | some v =>
              rw [hl] at hc
              simp only [Option.getD_some] at hc ⊢
              refine ⟨hmax _ _ hl, ?_⟩
              have h1 := hc.1
              rw [vmax_eq] at h1
              split at h1
              · assumption
              · exact absurd rfl h1
          · rw [hp']
            exact hprev r p hp
        generalize hp' : (if vmax ((maxv.lookup r.path).getD .root) r.ver ≠ (maxv.lookup r.path).getD .root ∧
            vmax p.ver ((maxv.lookup r.path).getD .root) ≠ p.ver then (⟨p.path, (maxv.lookup r.path).getD .root⟩ : Mod) else p) = p'
        have hk := key p' hp'.symm
        split
        · simp
        · rename_i hne
          rcases hk with h1 | ⟨h1, h2⟩
          · exact absurd h1 hne
          · cases hadd' : add fuel rq maxv st p' with
            | none =>
              have := hadd st p'
              rw [hadd'] at this
              simp at this
            | some st' =>
              dsimp only
              apply ih
              have := below_lt h1 h2
              omega

/-- a fold that keeps the selected version or replaces it by the current element's ends on the start value or on an
element that passed the test -/
theorem foldl_pick_passed (g : Ver → Mod → Prop) [∀ a b, Decidable (g a b)] : ∀ (vs : List Mod) (start : Ver),
    vs.foldl (fun sel v => if g sel v then v.ver else sel) start = start ∨
      ∃ v ∈ vs, ∃ sel, g sel v ∧ v.ver = vs.foldl (fun sel v => if g sel v then v.ver else sel) start := by
  intro vs
  induction vs with
  | nil => intro start; exact Or.inl rfl
  | cons v vs ih =>
    intro start
    simp only [List.foldl]
    split
    · rename_i hg
      rcases ih v.ver with h1 | ⟨w, hw, sel, hs, h1⟩
      · exact Or.inr ⟨v, List.mem_cons_self, start, hg, h1.symm⟩
      · exact Or.inr ⟨w, List.mem_cons_of_mem _ hw, sel, hs, h1⟩
    · rcases ih start with h1 | ⟨w, hw, sel, hs, h1⟩
      · exact Or.inl h1
      · exact Or.inr ⟨w, List.mem_cons_of_mem _ hw, sel, hs, h1⟩

theorem cmpVersion_of_semver_lt {a b : Ver} (h : semverCompare a b = .lt) (hb : b ≠ .root) (ha : a ≠ .root) :
    cmpVersion a b = .lt := by
  simp [cmpVersion, hb, ha, h]

/-- the fixed `Reqs.Previous` meets the hypothesis of `stepDown_terminates`: it answers `"none"` or a strictly smaller
tagged version -/
theorem previous_decreases (e : Env) (r p : Mod) (hr : r.path ≠ "") (hrv : r.ver ≠ .root) (h : previous e r = some p) :
    p.ver = .none ∨ (p.ver ∈ e.tags.map (·.ver) ∧ cmpVersion p.ver r.ver = .lt) := by
  unfold previous previousFrom at h
  rw [if_neg hr] at h
  cases hl : listVersions e r with
  | none => simp [hl] at h
  | some versions =>
    simp only [hl, Option.some.injEq] at h
    subst h
    dsimp only
    rcases foldl_pick_passed (fun sel v => v.ver.majorStr = r.ver.majorStr ∧ semverCompare v.ver r.ver = .lt ∧
        semverCompare v.ver sel = .gt) versions .none with h1 | ⟨v, hv, sel, hs, h1⟩
    · exact Or.inl h1
    · right
      rw [← h1]
      refine ⟨List.mem_map.mpr ⟨v, (listVersions_spec hl v hv).1, rfl⟩, ?_⟩
      apply cmpVersion_of_semver_lt hs.2.1 hrv
      intro hroot
      rw [hroot] at hs
      cases hsel : sel <;> simp [semverCompare, hsel] at hs

/-! ### D13: the old `Reqs.Previous` -/

/-- the old `Reqs.Previous` on a module whose version is `""` (what it had itself returned one step earlier) answers
that same module again -/
theorem previousD13_fixpoint (e : Env) (p : String) (hp : p ≠ "") (hloc : located e p = true) :
    previousD13 e ⟨p, .root⟩ = some ⟨p, .root⟩ := by
  unfold previousD13 previousFrom
  simp only [hp, ↓reduceIte, listVersions, hloc]
  congr 2
  generalize e.tags.filter (fun x => decide (x.path = p)) = vs
  induction vs with
  | nil => rfl
  | cons v vs ih =>
    simp only [List.foldl]
    have : ¬ (v.ver.majorStr = Ver.root.majorStr ∧ semverCompare v.ver .root = .lt ∧ semverCompare v.ver .root = .gt) := by
      rintro ⟨_, h1, h2⟩; rw [h1] at h2; cases h2
    rw [if_neg this]
    exact ih

/-- D13, the mechanism: once the loop `for excluded[r]` has reached a module with version `""` that is excluded and already
added, every further iteration asks the old `Previous` for the version before `""`, gets `""` again, and goes round:
whatever the number of iterations allowed, the loop does not end. -/
theorem stepDown_D13_spins (fuel : Nat) (rq : Reqs) (e : Env) (maxv : Sel) (p : String) (hp : p ≠ "")
    (hloc : located e p = true) (st : DState)
    (hex : (⟨p, .root⟩ : Mod) ∈ st.excluded) (hadded : (⟨p, .root⟩ : Mod) ∈ st.added) :
    ∀ n, stepDown fuel rq (previousD13 e) maxv n st ⟨p, .root⟩ = .error .fuel := by
  intro n
  induction n with
  | zero => rfl
  | succ n ih =>
    simp only [stepDown, hex, not_true_eq_false, ↓reduceIte, previousD13_fixpoint e p hp hloc]
    have hnoadj : ¬ (vmax ((maxv.lookup p).getD .root) .root ≠ (maxv.lookup p).getD .root ∧
        vmax .root ((maxv.lookup p).getD .root) ≠ .root) := by
      rintro ⟨_, h2⟩
      apply h2
      rw [vmax_eq]
      have : cmpVersion .root ((maxv.lookup p).getD .root) ≠ .lt := by
        cases (maxv.lookup p).getD .root <;> simp [cmpVersion]
      simp [this]
    rw [if_neg hnoadj]
    simp only [reduceCtorEq, ↓reduceIte, add, addEnter, hadded]
    exact ih

/-! ### D14: the old first loop of `transformReqs` -/

/-- the first loop of `transformReqs` before the fix of D14: every name of a path is given each returned entry for
that path in turn, so the last one in the order of the returned list wins -/
def firstLoopD14 (c : Config) (newVersions : List Mod) : Config :=
  newVersions.foldl (fun acc v =>
    if v.path = "" then acc
    else c.foldl (fun acc nr => if nr.2.path = v.path then (acc.filter (·.1 ≠ nr.1)) ++ [(nr.1, v)] else acc) acc) []

end Dawn.Mvs

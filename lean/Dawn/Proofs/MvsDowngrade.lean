import Dawn.Proofs.MvsEdit
/-!
# `mvs.Downgrade`'s loop `for excluded[r]`: termination, and the two defects the model used to have

* the loop ends whenever `Previous` strictly decreases within a finite set of versions and finally answers `"none"`
  (what `Reqs.Previous` does since the fix of D13);
* `previousD13` (the old `Reqs.Previous`) answers `""` instead: the loop then spins (D13);
* `firstLoopD14` (the old first loop of `transformReqs`) depends on the order of the returned list (D14).
-/
namespace Dawn.Mvs

theorem filter_length_lt {α : Type} (P Q : α → Bool) : ∀ (l : List α), (∀ x, P x = true → Q x = true) →
    (∃ y ∈ l, Q y = true ∧ P y = false) → (l.filter P).length < (l.filter Q).length
  | [], _, h => by obtain ⟨y, hy, _⟩ := h; cases hy
  | x :: xs, hsub, h => by
    obtain ⟨y, hy, hq, hp⟩ := h
    have hmono : (xs.filter P).length ≤ (xs.filter Q).length := by
      clear hy
      induction xs with
      | nil => simp
      | cons z zs ih =>
        simp only [List.filter_cons]
        cases hz : P z
        · cases Q z <;> simp <;> omega
        · simp [hsub z hz]; omega
    rcases List.mem_cons.mp hy with rfl | hy'
    · simp only [List.filter_cons, hp, hq]
      simp; omega
    · have ih := filter_length_lt P Q xs hsub ⟨y, hy', hq, hp⟩
      simp only [List.filter_cons]
      cases hx : P x
      · cases Q x <;> simp <;> omega
      · simp [hsub x hx]; omega

/-- how many of the known versions are below `v` -/
def below (vs : List Ver) (v : Ver) : Nat := (vs.filter fun w => cmpVersion w v = .lt).length

theorem below_lt {vs : List Ver} {a b : Ver} (ha : a ∈ vs) (hab : cmpVersion a b = .lt) : below vs a < below vs b := by
  apply filter_length_lt
  · intro x hx
    have hx' : cmpVersion x a = .lt := by simpa using hx
    simpa using lawful_cmpVersion.trans x a b hx' hab
  · refine ⟨a, ha, by simpa using hab, ?_⟩
    simp [lawful_cmpVersion.refl]

/-- C11, termination of the downgrade loop: if `Previous` answers `"none"` or a strictly smaller version out of a finite
set `vs` (and the versions named by the downgrade are in `vs` too), the loop `for excluded[r]` ends within
`|vs| + 1` iterations — it never reports `Err.fuel` when given more than `below vs r.ver` iterations (under the separate
assumption that the bounded recursion `add` itself is given enough fuel). -/
theorem stepDown_terminates_on (C : Mod → Prop) (fuel : Nat) (rq : Reqs) (prev : Mod → Option Mod) (maxv : Sel) (vs : List Ver)
    (hadd : ∀ st p, C p → (add fuel rq maxv st p).isSome)
    (hprev : ∀ r p, C r → prev r = some p → p.ver = .none ∨ (p.ver ∈ vs ∧ cmpVersion p.ver r.ver = .lt ∧ C p))
    (hmax : ∀ p v, maxv.lookup p = some v → v ∈ vs)
    (hadj : ∀ r p v, C r → prev r = some p → maxv.lookup r.path = some v → C ⟨p.path, v⟩) :
    ∀ (n : Nat) (st : DState) (r : Mod), C r → below vs r.ver < n → stepDown fuel rq prev maxv n st r ≠ .error .fuel := by
  intro n
  induction n with
  | zero => intro st r _ h; omega
  | succ n ih =>
    intro st r hcr hlt
    simp only [stepDown]
    split
    · simp
    · cases hp : prev r with
      | none => simp
      | some p =>
        dsimp only
        -- the candidate after the pseudo-version adjustment is still below r, in vs and a candidate (or "none")
        have key : ∀ p' : Mod, p' = (if vmax ((maxv.lookup r.path).getD .root) r.ver ≠ (maxv.lookup r.path).getD .root ∧
              vmax p.ver ((maxv.lookup r.path).getD .root) ≠ p.ver then (⟨p.path, (maxv.lookup r.path).getD .root⟩ : Mod) else p) →
            p'.ver = .none ∨ (p'.ver ∈ vs ∧ cmpVersion p'.ver r.ver = .lt ∧ C p') := by
          intro p' hp'
          split at hp'
          · rename_i hc
            subst hp'
            right
            cases hl : maxv.lookup r.path with
            | none =>
              rw [hl] at hc
              simp only [Option.getD_none] at hc
              exfalso
              apply hc.1
              rw [vmax_eq]
              have : cmpVersion .root r.ver ≠ .lt := by
                cases hr : r.ver <;> simp [cmpVersion]
              simp [this]
            | some v =>
              rw [hl] at hc
              simp only [Option.getD_some] at hc ⊢
              refine ⟨hmax _ _ hl, ?_, hadj r p v hcr hp hl⟩
              have h1 := hc.1
              rw [vmax_eq] at h1
              split at h1
              · assumption
              · exact absurd rfl h1
          · rw [hp']
            exact hprev r p hcr hp
        generalize hp' : (if vmax ((maxv.lookup r.path).getD .root) r.ver ≠ (maxv.lookup r.path).getD .root ∧
            vmax p.ver ((maxv.lookup r.path).getD .root) ≠ p.ver then (⟨p.path, (maxv.lookup r.path).getD .root⟩ : Mod) else p) = p'
        have hk := key p' hp'.symm
        split
        · simp
        · rename_i hne
          rcases hk with h1 | ⟨h1, h2, h3⟩
          · exact absurd h1 hne
          · cases hadd' : add fuel rq maxv st p' with
            | none =>
              have := hadd st p' h3
              rw [hadd'] at this
              simp at this
            | some st' =>
              dsimp only
              apply ih _ _ h3
              have := below_lt h1 h2
              omega

theorem stepDown_terminates (fuel : Nat) (rq : Reqs) (prev : Mod → Option Mod) (maxv : Sel) (vs : List Ver)
    (hadd : ∀ st p, (add fuel rq maxv st p).isSome)
    (hprev : ∀ r p, prev r = some p → p.ver = .none ∨ (p.ver ∈ vs ∧ cmpVersion p.ver r.ver = .lt))
    (hmax : ∀ p v, maxv.lookup p = some v → v ∈ vs) :
    ∀ (n : Nat) (st : DState) (r : Mod), below vs r.ver < n → stepDown fuel rq prev maxv n st r ≠ .error .fuel :=
  fun n st r h => stepDown_terminates_on (fun _ => True) fuel rq prev maxv vs (fun st p _ => hadd st p)
    (fun r p _ hp => by
      rcases hprev r p hp with h1 | ⟨h1, h2⟩
      · exact Or.inl h1
      · exact Or.inr ⟨h1, h2, trivial⟩) hmax (fun _ _ _ _ _ _ => trivial) n st r trivial h

/-- a fold that keeps the selected version or replaces it by the current element's ends on the start value or on an
element that passed the test -/
theorem foldl_pick_passed (g : Ver → Mod → Prop) [∀ a b, Decidable (g a b)] : ∀ (vs : List Mod) (start : Ver),
    vs.foldl (fun sel v => if g sel v then v.ver else sel) start = start ∨
      ∃ v ∈ vs, ∃ sel, g sel v ∧ v.ver = vs.foldl (fun sel v => if g sel v then v.ver else sel) start := by
  intro vs
  induction vs with
  | nil => intro start; exact Or.inl rfl
  | cons v vs ih =>
    intro start
    simp only [List.foldl]
    split
    · rename_i hg
      rcases ih v.ver with h1 | ⟨w, hw, sel, hs, h1⟩
      · exact Or.inr ⟨v, List.mem_cons_self, start, hg, h1.symm⟩
      · exact Or.inr ⟨w, List.mem_cons_of_mem _ hw, sel, hs, h1⟩
    · rcases ih start with h1 | ⟨w, hw, sel, hs, h1⟩
      · exact Or.inl h1
      · exact Or.inr ⟨w, List.mem_cons_of_mem _ hw, sel, hs, h1⟩

theorem cmpVersion_of_semver_lt {a b : Ver} (h : semverCompare a b = .lt) (hb : b ≠ .root) (ha : a ≠ .root) :
    cmpVersion a b = .lt := by
  simp [cmpVersion, hb, ha, h]

/-- the fixed `Reqs.Previous` meets the hypothesis of `stepDown_terminates`: it answers `"none"` or a strictly smaller
tagged version -/
theorem previous_decreases (e : Env) (r p : Mod) (hr : r.path ≠ "") (hrv : r.ver ≠ .root) (h : previous e r = some p) :
    p.ver = .none ∨ (p.ver ∈ e.tags.map (·.ver) ∧ cmpVersion p.ver r.ver = .lt) := by
  unfold previous previousFrom at h
  rw [if_neg hr] at h
  cases hl : listVersions e r with
  | none => simp [hl] at h
  | some versions =>
    simp only [hl, Option.some.injEq] at h
    subst h
    dsimp only
    rcases foldl_pick_passed (fun sel v => v.ver.majorStr = r.ver.majorStr ∧ semverCompare v.ver r.ver = .lt ∧
        semverCompare v.ver sel = .gt) versions .none with h1 | ⟨v, hv, sel, hs, h1⟩
    · exact Or.inl h1
    · right
      rw [← h1]
      refine ⟨List.mem_map.mpr ⟨v, (listVersions_spec hl v hv).1, rfl⟩, ?_⟩
      apply cmpVersion_of_semver_lt hs.2.1 hrv
      intro hroot
      rw [hroot] at hs
      cases hsel : sel <;> simp [semverCompare, hsel] at hs

/-! ### D13: the old `Reqs.Previous` -/

/-- the old `Reqs.Previous` on a module whose version is `""` (what it had itself returned one step earlier) answers
that same module again -/
theorem previousD13_fixpoint (e : Env) (p : String) (hp : p ≠ "") (hloc : located e p = true) :
    previousD13 e ⟨p, .root⟩ = some ⟨p, .root⟩ := by
  unfold previousD13 previousFrom
  simp only [hp, ↓reduceIte, listVersions, hloc]
  congr 2
  generalize e.tags.filter (fun x => decide (x.path = p)) = vs
  induction vs with
  | nil => rfl
  | cons v vs ih =>
    simp only [List.foldl]
    have : ¬ (v.ver.majorStr = Ver.root.majorStr ∧ semverCompare v.ver .root = .lt ∧ semverCompare v.ver .root = .gt) := by
      rintro ⟨_, h1, h2⟩; rw [h1] at h2; cases h2
    rw [if_neg this]
    exact ih

/-- D13, the mechanism: once the loop `for excluded[r]` has reached a module with version `""` that is excluded and already
added, every further iteration asks the old `Previous` for the version before `""`, gets `""` again, and goes round:
whatever the number of iterations allowed, the loop does not end. -/
theorem stepDown_D13_spins (fuel : Nat) (rq : Reqs) (e : Env) (maxv : Sel) (p : String) (hp : p ≠ "")
    (hloc : located e p = true) (st : DState)
    (hex : (⟨p, .root⟩ : Mod) ∈ st.excluded) (hadded : (⟨p, .root⟩ : Mod) ∈ st.added) :
    ∀ n, stepDown fuel rq (previousD13 e) maxv n st ⟨p, .root⟩ = .error .fuel := by
  intro n
  induction n with
  | zero => rfl
  | succ n ih =>
    simp only [stepDown, hex, not_true_eq_false, ↓reduceIte, previousD13_fixpoint e p hp hloc]
    have hnoadj : ¬ (vmax ((maxv.lookup p).getD .root) .root ≠ (maxv.lookup p).getD .root ∧
        vmax .root ((maxv.lookup p).getD .root) ≠ .root) := by
      rintro ⟨_, h2⟩
      apply h2
      rw [vmax_eq]
      have : cmpVersion .root ((maxv.lookup p).getD .root) ≠ .lt := by
        cases (maxv.lookup p).getD .root <;> simp [cmpVersion]
      simp [this]
    rw [if_neg hnoadj]
    simp only [reduceCtorEq, ↓reduceIte, add, addEnter, hadded]
    exact ih

/-! ### D14: the old first loop of `transformReqs` -/

/-- the first loop of `transformReqs` before the fix of D14: every name of a path is given each returned entry for
that path in turn, so the last one in the order of the returned list wins -/
def firstLoopD14 (c : Config) (newVersions : List Mod) : Config :=
  newVersions.foldl (fun acc v =>
    if v.path = "" then acc
    else c.foldl (fun acc nr => if nr.2.path = v.path then (acc.filter (·.1 ≠ nr.1)) ++ [(nr.1, v)] else acc) acc) []

/-! ### the build list `mvs.Downgrade` returns is the build list of the project file `get` writes -/

/-- `buildList` without an upgrade function is `buildList` with the identity as upgrade function -/
theorem explore_congr_up (rq : Reqs) (up1 up2 : Option (Mod → Option Mod)) (hw : ∀ m, workItem rq up1 m = workItem rq up2 m) :
    ∀ fuel todo log err, explore rq up1 fuel todo log err = explore rq up2 fuel todo log err := by
  intro fuel
  induction fuel with
  | zero => intro todo log err; cases todo <;> rfl
  | succ f ih =>
    intro todo log err
    cases todo with
    | nil => rfl
    | cons m t =>
      simp only [explore, hw m]
      split
      · exact ih _ _ _
      · exact ih _ _ _

def idUp : Mod → Option Mod := fun m => some m

theorem buildList_eq_idUp (fuel : Nat) (rq : Reqs) (target : Mod) :
    buildList fuel rq target = buildListWith fuel rq (some idUp) target := by
  unfold buildList buildListWith
  rw [explore_congr_up rq .none (some idUp) (fun m => by simp [workItem, idUp])]

/-- a version that can stand in a requirement the downgrade writes: canonical or `"none"` -/
def verOk (v : Ver) : Prop := v = .none ∨ ∃ s, v = .sv s

theorem stepDown_weakOk (fuel : Nat) (rq : Reqs) (prev : Mod → Option Mod) (maxv : Sel)
    (hprev : ∀ r p, prev r = some p → weakOk r → weakOk p)
    (hmax : ∀ p v, maxv.lookup p = some v → ∃ s, v = .sv s) :
    ∀ (n : Nat) (st st' : DState) (r r' : Mod), weakOk r →
      stepDown fuel rq prev maxv n st r = .ok (st', some r') → weakOk r' := by
  intro n
  induction n with
  | zero => intro st st' r r' _ h; simp [stepDown] at h
  | succ n ih =>
    intro st st' r r' hr h
    simp only [stepDown] at h
    split at h
    · simp only [Except.ok.injEq, Prod.mk.injEq, Option.some.injEq] at h
      rw [← h.2]; exact hr
    · cases hp : prev r with
      | none => simp [hp] at h
      | some p =>
        simp only [hp] at h
        have hpw := hprev r p hp hr
        generalize hp' : (if vmax ((maxv.lookup r.path).getD .root) r.ver ≠ (maxv.lookup r.path).getD .root ∧
            vmax p.ver ((maxv.lookup r.path).getD .root) ≠ p.ver then (⟨p.path, (maxv.lookup r.path).getD .root⟩ : Mod) else p) = p' at h
        have hp'w : weakOk p' := by
          split at hp'
          · rename_i hc
            subst hp'
            refine ⟨hpw.1, ?_⟩
            cases hl : maxv.lookup r.path with
            | none =>
              exfalso
              rw [hl] at hc
              simp only [Option.getD_none] at hc
              apply hc.1
              rw [vmax_eq]
              have : cmpVersion .root r.ver ≠ .lt := by cases r.ver <;> simp [cmpVersion]
              simp [this]
            | some v => exact Or.inr (hmax _ _ hl)
          · subst hp'; exact hpw
        split at h
        · cases h
        · split at h
          · cases h
          · exact ih _ _ _ _ hp'w h

theorem downLoop_weakOk (fuel : Nat) (rq : Reqs) (prev : Mod → Option Mod) (maxv : Sel)
    (hprev : ∀ r p, prev r = some p → weakOk r → weakOk p)
    (hmax : ∀ p v, maxv.lookup p = some v → ∃ s, v = .sv s) :
    ∀ (list : List Mod) (st : DState) (acc out : List Mod), (∀ m ∈ list, weakOk m) →
      (∀ x ∈ acc, x = rootMod ∨ weakOk x) → downLoop fuel rq prev maxv list st acc = .ok out →
      ∀ x ∈ out, x = rootMod ∨ weakOk x := by
  intro list
  induction list with
  | nil => intro st acc out _ hacc h; simp only [downLoop, Except.ok.injEq] at h; subst h; exact hacc
  | cons r rest ih =>
    intro st acc out hl hacc h
    simp only [downLoop] at h
    split at h
    · cases h
    · rename_i st1 _
      split at h
      · cases h
      · rename_i st2 r' hsd
        apply ih st2 _ out (fun m hm => hl m (List.mem_cons_of_mem _ hm)) _ h
        intro x hx
        rcases List.mem_append.mp hx with h1 | h1
        · exact hacc x h1
        · rw [List.mem_singleton.mp h1]
          exact Or.inr (stepDown_weakOk fuel rq prev maxv hprev hmax fuel st1 st2 r r' (hl r List.mem_cons_self) hsd)
      · rename_i st2 hsd
        exact ih st2 acc out (fun m hm => hl m (List.mem_cons_of_mem _ hm)) hacc h

/-- the fixed `Reqs.Previous` keeps the path and answers `"none"` or a tagged (hence canonical) version -/
theorem previous_weakOk (e : Env) (htags : ∀ t ∈ e.tags, okReq t) (r p : Mod) (h : previous e r = some p) (hr : weakOk r) :
    weakOk p := by
  unfold previous previousFrom at h
  rw [if_neg hr.1] at h
  cases hl : listVersions e r with
  | none => simp [hl] at h
  | some versions =>
    simp only [hl, Option.some.injEq] at h
    subst h
    refine ⟨hr.1, ?_⟩
    dsimp only
    rcases foldl_pick_spec (fun sel v => v.ver.majorStr = r.ver.majorStr ∧ semverCompare v.ver r.ver = .lt ∧
        semverCompare v.ver sel = .gt) versions .none with h1 | ⟨v, hv, h1⟩
    · exact Or.inl h1
    · rw [← h1]
      exact Or.inr (htags v (listVersions_spec hl v hv).1).2


theorem upSetting_override {e : Env} {roots list' : List Mod} (hwf : WellFormed e roots)
    (hl : ∀ x ∈ list', x = rootMod ∨ weakOk x) :
    UpSetting False e roots (override rootMod list' (dawnReqs e roots)) idUp where
  env_ok := hwf.reqs_ok
  roots_ok := hwf.roots_ok
  other n hn := by simp [override, hn]
  main := ⟨list', by simp [override], fun h => absurd h id, hl⟩
  up_main := Or.inl rfl
  up_ok n m _ _ hup hne := by simp only [idUp, Option.some.injEq] at hup; exact absurd hup.symm hne

theorem drop_one_of_head {full : List Mod} (hhead : full.take 1 = [rootMod]) (hnd : (full.map (·.path)).Nodup) :
    ∀ m ∈ full.drop 1, m ∈ full ∧ m.path ≠ "" := by
  cases full with
  | nil => simp at hhead
  | cons x xs =>
    simp only [List.take_succ_cons, List.take_zero, List.cons.injEq, and_true] at hhead
    subst hhead
    intro m hm
    simp only [List.drop_succ_cons, List.drop_zero] at hm
    refine ⟨List.mem_cons_of_mem _ hm, ?_⟩
    simp only [List.map_cons, List.nodup_cons] at hnd
    intro hp
    exact hnd.1 (List.mem_map.mpr ⟨m, hm, by rw [hp]; rfl⟩)

/-- the downgrade branch of `get`: the project file written from `ReqList(Downgrade(…))` resolves to exactly the list
`mvs.Downgrade` returned -/
theorem get_downgrade_consistent {e : Env} {c c' : Config} {tx : List Mod → Except Err (List Mod)} {fuel fuel' : Nat}
    {version : Mod} {bld nv bl' : List Mod}
    (hwf : WellFormed e (c.map (·.2))) (htags : ∀ t ∈ e.tags, okReq t) (hver : okReq version)
    (hd : mvsDowngrade fuel (dawnReqs e (c.map (·.2))) (previous e) rootMod version = .ok bld)
    (h : transformReqs e c tx = .ok c') (htx : tx (c.map (·.2)) = .ok nv)
    (hreq : reqList fuel (dawnReqs e (c.map (·.2))) rootMod bld = .ok nv)
    (hbl' : BuildList fuel' e c' = .ok bl') : bl' = bld := by
  unfold mvsDowngrade at hd
  split at hd
  · cases hd
  · rename_i full hfull
    dsimp only at hd
    have hf := buildList_facts hwf hfull
    have hhead : full.take 1 = [rootMod] := by unfold buildList at hfull; exact buildListWith_head hfull
    have hdrop := drop_one_of_head hhead hf.1
    have hlistOk : ∀ m ∈ full.drop 1, okReq m := by
      intro m hm
      have := hdrop m hm
      have hne : m ≠ rootMod := by rintro rfl; exact this.2 rfl
      exact ureach_ok hwf (hf.2.2.1 m this.1 hne).1
    have hndDrop : ((full.drop 1).map (·.path)).Nodup :=
      (List.Sublist.map _ (List.drop_sublist 1 full)).nodup hf.1
    -- the map `max`
    have hbase : ∀ p v, (listMap (full.drop 1)).lookup p = some v → ∃ s, v = .sv s := by
      intro p v hl
      exact (hlistOk _ ((lookup_listMap_some _ hndDrop p v).mp hl)).2
    have hset : ∀ p v, (setSel (listMap (full.drop 1)) version.path version.ver).lookup p = some v → ∃ s, v = .sv s := by
      intro p v hl
      rw [lookup_setSel] at hl
      split at hl
      · cases hl; exact hver.2
      · exact hbase p v hl
    have hmax : ∀ p v, (match (listMap (full.drop 1)).lookup version.path with
        | some v => if vmax v version.ver ≠ version.ver then setSel (listMap (full.drop 1)) version.path version.ver else listMap (full.drop 1)
        | .none => setSel (listMap (full.drop 1)) version.path version.ver).lookup p = some v → ∃ s, v = .sv s := by
      intro p v hl
      split at hl
      · split at hl
        · exact hset p v hl
        · exact hbase p v hl
      · exact hset p v hl
    split at hd
    · cases hd
    · rename_i downgraded hdown
      have hdg : ∀ x ∈ downgraded, x = rootMod ∨ weakOk x :=
        downLoop_weakOk fuel _ (previous e) _ (fun r p hp hr => previous_weakOk e htags r p hp hr) hmax
          (full.drop 1) ⟨[], [], []⟩ [rootMod] downgraded (fun m hm => weakOk_of_ok (hlistOk m hm))
          (fun x hx => Or.inl (List.mem_singleton.mp hx)) hdown
      split at hd
      · cases hd
      · rename_i actual hactual
        rw [buildList_eq_idUp] at hactual hd
        have S1 := upSetting_override hwf hdg
        -- what is read back from `actual` is well-formed
        have hdg2 : ∀ x ∈ (full.drop 1).filterMap (fun m => ((listMap actual).lookup m.path).map fun v => (⟨m.path, v⟩ : Mod)),
            x = rootMod ∨ weakOk x := by
          intro x hx
          obtain ⟨m, hm, hmx⟩ := List.mem_filterMap.mp hx
          cases hl : (listMap actual).lookup m.path with
          | none => simp [hl] at hmx
          | some v =>
            simp only [hl, Option.map_some, Option.some.injEq] at hmx
            subst hmx
            have hin := (lookup_listMap_some actual (buildListWith_nodup hactual) m.path v).mp hl
            have hex := (buildListWith_exact hactual m.path v).mp hin
            rcases reach_up_weakOk S1 hex.2.1 with h1 | h1
            · exfalso
              simp only [rootMod, Mod.mk.injEq] at h1
              exact (hdrop m hm).2 h1.1
            · exact Or.inr h1
        have S2 := upSetting_override hwf hdg2
        exact (upgrade_general S2 hd h htx hreq hbl').1


/-- `get` as a downgrade, from the top: the new project file resolves to the list `mvs.Downgrade` computed -/
theorem get_downgrade {e : Env} {c c' : Config} {q : String} {fuel fuel' : Nat} {bl bl' : List Mod} {version : Mod}
    (hwf : WellFormed e (c.map (·.2))) (htags : ∀ t ∈ e.tags, okReq t)
    (hget : Get fuel e c q = .ok c') (hbl : BuildList fuel e c = .ok bl)
    (hres : resolveVersionQuery e bl (parseVersionQuery q) = .ok version) (hver : okReq version)
    (hdown : ∃ cur ∈ bl, cur.path = version.path ∧ semverCompare cur.ver version.ver = .gt)
    (hbl' : BuildList fuel' e c' = .ok bl') :
    ∃ bld, mvsDowngrade fuel (dawnReqs e (c.map (·.2))) (previous e) rootMod version = .ok bld ∧ bl' = bld := by
  unfold Get at hget
  obtain ⟨nv, _, _, htx, _⟩ := transformReqs_spec hget
  obtain ⟨bl0, version0, hbl0, hres0, hcase⟩ := get_cases htx
  unfold BuildList at hbl
  rw [hbl] at hbl0; cases hbl0
  rw [hres] at hres0; cases hres0
  obtain ⟨cur, hcur, hcurp, hgt⟩ := hdown
  have hnd := buildListWith_nodup hbl
  rcases hcase with ⟨hfind, _⟩ | ⟨cur', hfind, hbr⟩
  · exact absurd hcurp (find?_path_none hfind cur hcur)
  · obtain ⟨hc', hc'p⟩ := find?_path_some hfind
    have : cur' = cur := inj_of_nodup_map (·.path) hnd hc' hcur (by rw [hc'p, hcurp])
    subst this
    rcases hbr with ⟨hc, _⟩ | ⟨hc, _⟩ | ⟨_, bld, hd, hreq⟩
    · rw [hgt] at hc; cases hc
    · rw [hgt] at hc; cases hc
    · exact ⟨bld, hd, get_downgrade_consistent hwf htags hver hd hget htx hreq hbl'⟩

/-! ### when does an upgrade land exactly on the resolved version? -/

theorem ureach_cons_cases {e : Env} {u : Mod} {roots : List Mod} {m : Mod} (h : UReach e (u :: roots) m) :
    UReach e roots m ∨ UReach e [u] m := by
  induction h with
  | root m hm =>
    rcases List.mem_cons.mp hm with rfl | h1
    · exact Or.inr (UReach.root _ List.mem_cons_self)
    · exact Or.inl (UReach.root _ h1)
  | step a b s _ hs hb ih =>
    rcases ih with ih | ih
    · exact Or.inl (UReach.step a b s ih hs hb)
    · exact Or.inr (UReach.step a b s ih hs hb)

/-- where the exploration of `mvs.Upgrade` can get to: the old graph, the placeholder `p@none`, the upgraded module, and
what the upgraded module requires -/
theorem reach_up_cases {e : Env} {roots : List Mod} {u : Mod} (hwf : WellFormed e roots) (hu : okReq u) {m : Mod}
    (h : Reach (override rootMod (upList roots u) (dawnReqs e roots)) (some (upFn u)) rootMod m) :
    Reach (dawnReqs e roots) .none rootMod m ∨ m = ⟨u.path, .none⟩ ∨ UReach e [u] m := by
  induction h with
  | root => exact Or.inl Reach.root
  | step n m hn hm ih =>
    rcases (mem_edges_up _ _ n m).mp hm with ⟨hup, hne⟩ | ⟨hv, r, hr, hmr⟩
    · -- the upgrade edge
      simp only [upFn] at hup
      split at hup
      · rename_i hp
        cases hup
        right; right
        have : (⟨n.path, u.ver⟩ : Mod) = u := by obtain ⟨up, uv⟩ := u; simp only at hp; subst hp; rfl
        rw [this]; exact UReach.root _ List.mem_cons_self
      · cases hup; exact absurd rfl hne
    · by_cases hnr : n = rootMod
      · subst hnr
        simp only [override, ↓reduceIte, Option.some.injEq] at hr
        subst hr
        unfold upList at hmr
        split at hmr
        · left
          apply Reach.step rootMod m Reach.root
          rw [edges_plain]; simp [dawnReqs, rootMod, hmr]
        · rcases List.mem_append.mp hmr with h1 | h1
          · left
            apply Reach.step rootMod m Reach.root
            rw [edges_plain]; simp [dawnReqs, rootMod, h1]
          · right; left; exact List.mem_singleton.mp h1
      · simp only [override, hnr, ↓reduceIte] at hr
        rcases ih with ih | ih | ih
        · left
          apply Reach.step n m ih
          rw [edges_plain, if_pos hv, hr]; exact hmr
        · rw [ih] at hv; exact absurd rfl hv
        · right; right
          have hok := ureach_ok (roots := [u]) ⟨fun x hx => by rw [List.mem_singleton.mp hx]; exact hu, hwf.reqs_ok⟩ ih
          rw [dawnReqs_required_of_ok e roots hok] at hr
          cases hs : e.summary n with
          | none => simp [hs] at hr
          | some s =>
            simp only [hs, Option.map_some, Option.some.injEq] at hr
            subst hr
            exact UReach.step n m s ih hs hmr

/-- C11, upgrading one project, exact form: if nothing the resolved version itself (transitively) requires is a newer
version of the same project, the new build list has the project at exactly the resolved version -/
theorem get_upgrade_exact {e : Env} {c c' : Config} {q : String} {fuel fuel' : Nat} {bl bl' : List Mod} {version : Mod}
    {prev : Mod → Option Mod}
    (hwf : WellFormed e (c.map (·.2)))
    (hget : transformReqs e c (fun root => get fuel e prev root (parseVersionQuery q)) = .ok c')
    (hbl : BuildList fuel e c = .ok bl)
    (hres : resolveVersionQuery e bl (parseVersionQuery q) = .ok version) (hver : okReq version)
    (hup : ∀ cur ∈ bl, cur.path = version.path → semverCompare cur.ver version.ver ≠ .gt)
    (hself : ∀ w, UReach e [version] ⟨version.path, w⟩ → Ver.le w version.ver)
    (hbl' : BuildList fuel' e c' = .ok bl') : version ∈ bl' := by
  obtain ⟨⟨v', hv', hle⟩, _⟩ := get_upgrade hwf hget hbl hres hver hup hbl'
  suffices h : Ver.le v' version.ver by
    have : v' = version.ver := Ver.le_antisymm h hle
    rw [this] at hv'; exact hv'
  obtain ⟨nv, _, _, htx, _⟩ := transformReqs_spec hget
  obtain ⟨bl0, version0, hbl0, hres0, hcase⟩ := get_cases htx
  unfold BuildList at hbl
  rw [hbl] at hbl0; cases hbl0
  rw [hres] at hres0; cases hres0
  have hf := buildList_facts hwf hbl
  have hpne : version.path ≠ "" := hver.1
  -- every module of the old graph with this path is at or below the resolved version
  have hold : ∀ w, UReach e (c.map (·.2)) ⟨version.path, w⟩ → Ver.le w version.ver := by
    intro w hw
    obtain ⟨vb, hvb, hle'⟩ := hf.2.2.2 _ hw
    have hne : (⟨version.path, vb⟩ : Mod) ≠ rootMod := by
      intro h; simp only [rootMod, Mod.mk.injEq] at h; exact hpne h.1
    have hcmp := hup _ hvb rfl
    obtain ⟨s, hs⟩ := hver.2
    have hvbok := ureach_ok hwf (hf.2.2.1 _ hvb hne).1
    obtain ⟨sb, hsb⟩ := hvbok.2
    simp only at hsb
    apply Ver.le_trans hle'
    rw [hsb, hs] at hcmp ⊢
    simp only [Ver.le, cmpVersion, reduceCtorEq, ↓reduceIte, semverCompare] at hcmp ⊢
    exact hcmp
  rcases hcase with ⟨hfind, rfl⟩ | ⟨cur, hfind, hbr⟩
  · -- add: the new roots are the old ones and the resolved version
    obtain ⟨added, hperm, hadd, _⟩ := transformReqs_passthrough hget htx
      (fun r hr => ⟨List.mem_cons_of_mem _ hr, (hwf.roots_ok r hr).1⟩)
    have hroots' : ∀ m ∈ c'.map (·.2), m ∈ version :: c.map (·.2) := by
      intro m hm
      obtain ⟨x, hx, rfl⟩ := List.mem_map.mp hm
      rcases List.mem_append.mp (hperm.mem_iff.mp hx) with h1 | h1
      · exact List.mem_cons_of_mem _ (List.mem_map.mpr ⟨x, h1, rfl⟩)
      · exact (hadd x h1).1
    have hwf' : WellFormed e (c'.map (·.2)) := by
      refine ⟨fun m hm => ?_, hwf.reqs_ok⟩
      rcases List.mem_cons.mp (hroots' m hm) with rfl | h1
      · exact hver
      · exact hwf.roots_ok m h1
    unfold BuildList at hbl'
    have hf' := buildList_facts hwf' hbl'
    have hne : (⟨version.path, v'⟩ : Mod) ≠ rootMod := by
      intro h; simp only [rootMod, Mod.mk.injEq] at h; exact hpne h.1
    have hr := (hf'.2.2.1 _ hv' hne).1
    rcases ureach_cons_cases (ureach_mono hroots' hr) with h1 | h1
    · exact hold v' h1
    · exact hself v' h1
  · obtain ⟨hcur, hcurp⟩ := find?_path_some hfind
    rcases hbr with ⟨hc, rfl⟩ | ⟨hc, blu, hupg, hreq⟩ | ⟨hc, _⟩
    · -- no-op: same roots, same build list
      obtain ⟨added, hperm, hadd, _⟩ := transformReqs_passthrough hget htx
        (fun r hr => ⟨hr, (hwf.roots_ok r hr).1⟩)
      have hroots' : ∀ m ∈ c'.map (·.2), m ∈ c.map (·.2) := by
        intro m hm
        obtain ⟨x, hx, rfl⟩ := List.mem_map.mp hm
        rcases List.mem_append.mp (hperm.mem_iff.mp hx) with h1 | h1
        · exact List.mem_map.mpr ⟨x, h1, rfl⟩
        · exact (hadd x h1).1
      have hwf' : WellFormed e (c'.map (·.2)) := ⟨fun m hm => hwf.roots_ok m (hroots' m hm), hwf.reqs_ok⟩
      unfold BuildList at hbl'
      have hf' := buildList_facts hwf' hbl'
      have hne : (⟨version.path, v'⟩ : Mod) ≠ rootMod := by
        intro h; simp only [rootMod, Mod.mk.injEq] at h; exact hpne h.1
      exact hold v' (ureach_mono hroots' (hf'.2.2.1 _ hv' hne).1)
    · -- upgrade
      rw [mvsUpgrade_eq] at hupg
      have G := upSetting_get (u := version) hwf hver
      obtain ⟨heq, _⟩ := upgrade_general G hupg hget htx hreq hbl'
      rw [heq] at hv'
      have hex := (buildListWith_exact hupg version.path v').mp hv'
      rcases reach_up_cases hwf hver hex.2.1 with h1 | h1 | h1
      · rcases (reach_dawn_iff hwf _).mp h1 with h2 | h2
        · simp only [rootMod, Mod.mk.injEq] at h2; exact absurd h2.1 hpne
        · exact hold v' h2
      · simp only [Mod.mk.injEq, true_and] at h1
        rw [h1]; exact Ver.none_le _
      · exact hself v' h1
    · exact absurd hc (hup cur hcur hcurp)

end Dawn.Mvs

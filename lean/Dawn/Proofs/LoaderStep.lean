import Dawn.Model.Loader
/-!
The steps of the *fixed* loader model as an inductive relation (one constructor per statement-level step), and
the fact that `next .fixed` takes exactly these steps in states where no module mutex is held across steps —
which is every reachable state of the fixed version (`lockFree_reachable`).
-/
namespace Dawn.Loader

/-- no `m.m` is held across a step (fixed version: `wait` takes it only around the condition wait) and nobody is at
the as-written-only statement `check` -/
def LockFree (s : State) : Prop := (∀ m, s.mlock m = none) ∧ ∀ t d, s.pc t ≠ .check d

inductive FStep (P : Project) (s : State) (t : Tid) : State → Prop where
  | runBroken (f rest) (hpc : s.pc t = .run) (hst : s.stack t = f :: rest) (hb : P.broken f.mod = true) :
      FStep P s t (setPc s t (.fin .err))
  | runFin (f rest) (hpc : s.pc t = .run) (hst : s.stack t = f :: rest) (hb : P.broken f.mod = false)
      (htd : f.todo = []) :
      FStep P s t (setPc s t (.fin .ok))
  | runCall (f rest d ds) (hpc : s.pc t = .run) (hst : s.stack t = f :: rest) (hb : P.broken f.mod = false)
      (htd : f.todo = d :: ds) :
      FStep P s t (setPc s t (.call d))
  | callFound (d) (hpc : s.pc t = .call d) (hr : s.registry d = true) :
      FStep P s t (setPc s t (.setFound d))
  | callNew (d) (hpc : s.pc t = .call d) (hr : s.registry d = false) :
      FStep P s t { s with registry := upd s.registry d true, pc := upd s.pc t (.setNew d) }
  | setNewRoot (d) (hpc : s.pc t = .setNew d) (hst : s.stack t = []) :
      FStep P s t (setPc s t (.load d))
  | setNewPub (d f rest) (hpc : s.pc t = .setNew d) (hst : s.stack t = f :: rest) :
      FStep P s t (setPc (publish s f.mod d) t (.load d))
  | load (d) (hpc : s.pc t = .load d) :
      FStep P s t { s with stack := upd s.stack t (⟨d, P.loads d⟩ :: s.stack t),
                           execs := upd s.execs d (s.execs d + 1), pc := upd s.pc t .run }
  | setFoundRoot (d) (hpc : s.pc t = .setFound d) (hst : s.stack t = []) :
      FStep P s t (setPc s t (.enter d))
  | setFoundPub (d f rest) (hpc : s.pc t = .setFound d) (hst : s.stack t = f :: rest) :
      FStep P s t (setPc (publish s f.mod d) t (.enter d))
  | enterRoot (d) (hpc : s.pc t = .enter d) (hst : s.stack t = []) :
      FStep P s t (setPc s t (.wlock d))
  | enterWalk (d f rest) (hpc : s.pc t = .enter d) (hst : s.stack t = f :: rest) :
      FStep P s t (setPc s t (.walk d (s.loading d)))
  | walkNone (d) (hpc : s.pc t = .walk d none) :
      FStep P s t (setPc s t (.wlock d))
  | walkCyc (d c) (hpc : s.pc t = .walk d (some c)) (htop : top s t = some c) :
      FStep P s t (setPc s t (.unset .cyc))
  | walkNext (d c) (hpc : s.pc t = .walk d (some c)) (htop : top s t ≠ some c) :
      FStep P s t (setPc s t (.walk d (s.loading c)))
  | wlockRet (d) (hpc : s.pc t = .wlock d) (hl : s.loaded d = true) :
      FStep P s t (setPc s t (.unset (resOf s d)))
  | wlockSleep (d) (hpc : s.pc t = .wlock d) (hl : s.loaded d = false) :
      FStep P s t (goSleep s t d)
  | wake (d) (hpc : s.pc t = .sleep d) (hna : (s.asleep d).contains t = false) (hl : s.loaded d = true) :
      FStep P s t (setPc s t (.unset (resOf s d)))
  | wakeAgain (d) (hpc : s.pc t = .sleep d) (hna : (s.asleep d).contains t = false) (hl : s.loaded d = false) :
      FStep P s t (goSleep s t d)
  | unsetRoot (r) (hpc : s.pc t = .unset r) (hst : s.stack t = []) :
      FStep P s t (setPc s t .finished)
  | unsetOk (f rest) (hpc : s.pc t = .unset .ok) (hst : s.stack t = f :: rest) :
      FStep P s t { s with loading := upd s.loading f.mod none,
                           stack := upd s.stack t (⟨f.mod, f.todo.tail⟩ :: rest), pc := upd s.pc t .run }
  | unsetFail (r f rest) (hpc : s.pc t = .unset r) (hr : r ≠ .ok) (hst : s.stack t = f :: rest) :
      FStep P s t (setPc { s with loading := upd s.loading f.mod none } t (.fin r))
  | fin (r f rest) (hpc : s.pc t = .fin r) (hst : s.stack t = f :: rest) :
      FStep P s t { s with loaded := upd s.loaded f.mod true, result := upd s.result f.mod r,
                           asleep := upd s.asleep f.mod [],
                           ftime := upd s.ftime f.mod s.clock, clock := s.clock + 1,
                           stack := upd s.stack t rest, pc := upd s.pc t (.unset r) }

theorem fstep_of_next {P : Project} {s s' : State} {t : Tid} (lf : LockFree s)
    (h : next .fixed P s t = some s') : FStep P s t s' := by
  obtain ⟨hm, hc⟩ := lf
  unfold next at h
  split at h
  · cases h
  · rename_i hpc
    split at h
    · cases h
    · rename_i f rest hst
      split at h
      · rename_i hb; cases h; exact .runBroken f rest hpc hst hb
      · rename_i hb
        split at h
        · rename_i htd; cases h; exact .runFin f rest hpc hst (by simpa using hb) htd
        · rename_i d ds htd; cases h; exact .runCall f rest d ds hpc hst (by simpa using hb) htd
  · rename_i d hpc
    split at h
    · rename_i hr; cases h; exact .callFound d hpc hr
    · rename_i hr; cases h; exact .callNew d hpc (by simpa using hr)
  · rename_i d hpc
    split at h
    · rename_i htop
      cases h
      refine .setNewRoot d hpc ?_
      cases hs : s.stack t with
      | nil => rfl
      | cons f r => simp [top, hs] at htop
    · rename_i x htop
      simp only [hm, Option.isSome_none, Bool.false_eq_true, ↓reduceIte] at h
      cases h
      cases hs : s.stack t with
      | nil => simp [top, hs] at htop
      | cons f r =>
        simp [top, hs] at htop
        subst htop
        exact .setNewPub d f r hpc hs
  · rename_i d hpc; cases h; exact .load d hpc
  · rename_i d hpc
    split at h
    · rename_i htop
      cases h
      refine .setFoundRoot d hpc ?_
      cases hs : s.stack t with
      | nil => rfl
      | cons f r => simp [top, hs] at htop
    · rename_i x htop
      simp only [hm, Option.isSome_none, Bool.false_eq_true, ↓reduceIte] at h
      cases h
      cases hs : s.stack t with
      | nil => simp [top, hs] at htop
      | cons f r =>
        simp [top, hs] at htop
        subst htop
        exact .setFoundPub d f r hpc hs
  · rename_i d hpc
    simp only at h
    split at h
    · rename_i htop
      cases h
      refine .enterRoot d hpc ?_
      cases hs : s.stack t with
      | nil => rfl
      | cons f r => simp [top, hs] at htop
    · rename_i x htop
      simp only [hm, Option.isSome_none, Bool.false_eq_true, ↓reduceIte] at h
      cases h
      cases hs : s.stack t with
      | nil => simp [top, hs] at htop
      | cons f r => exact .enterWalk d f r hpc hs
  · rename_i d cur hpc
    split at h
    · cases h; exact .walkNone d hpc
    · rename_i c
      split at h
      · rename_i htop
        cases h
        exact .walkCyc d c hpc htop
      · rename_i htop
        simp only [hm, Option.isSome_none, Bool.false_eq_true, ↓reduceIte] at h
        cases h
        exact .walkNext d c hpc htop
  · rename_i d hpc; exact absurd hpc (hc t d)
  · rename_i d hpc
    simp only [hm, Option.isSome_none, Bool.false_eq_true, ↓reduceIte] at h
    cases h
    cases hl : s.loaded d with
    | true => simp only [↓reduceIte]; exact .wlockRet d hpc hl
    | false => simp only [Bool.false_eq_true, ↓reduceIte]; exact .wlockSleep d hpc hl
  · rename_i d hpc
    split at h
    · cases h
    · rename_i hna
      simp only [hm, Option.isSome_none, Bool.or_false, Bool.not_eq_true] at hna
      cases h
      cases hl : s.loaded d with
      | true => simp only [↓reduceIte]; exact .wake d hpc hna hl
      | false => simp only [Bool.false_eq_true, ↓reduceIte]; exact .wakeAgain d hpc hna hl
  · rename_i r hpc
    split at h
    · rename_i hst; cases h; exact .unsetRoot r hpc hst
    · rename_i f rest hst
      simp only [hm, Option.isSome_none, Bool.false_eq_true, ↓reduceIte] at h
      split at h
      · rename_i hr; subst hr; cases h; exact .unsetOk f rest hpc hst
      · rename_i hr; cases h; exact .unsetFail r f rest hpc hr hst
  · rename_i r hpc
    split at h
    · cases h
    · rename_i f rest hst
      simp only [hm, Option.isSome_none, Bool.false_eq_true, ↓reduceIte] at h
      cases h
      exact .fin r f rest hpc hst

theorem lockFree_init (P : Project) : LockFree (init P) := by
  refine ⟨fun _ => rfl, fun t d => ?_⟩
  simp only [init]
  split <;> simp

theorem lockFree_fstep {P : Project} {s s' : State} {t : Tid} (lf : LockFree s) (h : FStep P s t s') : LockFree s' := by
  obtain ⟨hm, hc⟩ := lf
  cases h <;> refine ⟨?_, ?_⟩ <;> simp only [setPc, publish, goSleep] <;> first | exact hm | skip
  all_goals
    intro t' d'
    first
      | exact hc t' d'
      | (simp only [upd]
         split
         · simp
         · exact hc t' d')

theorem lockFree_reachable {P : Project} {s : State} (h : Reachable .fixed P s) : LockFree s := by
  induction h with
  | refl => exact lockFree_init P
  | tail _ st ih => obtain ⟨t, ht⟩ := st; exact lockFree_fstep ih (fstep_of_next ih ht)

/-- induction principle for invariants of the fixed model -/
theorem reachable_induction {P : Project} {I : State → Prop} (h0 : I (init P))
    (hstep : ∀ s t s', Reachable .fixed P s → I s → FStep P s t s' → I s')
    {s : State} (h : Reachable .fixed P s) : I s := by
  induction h with
  | refl => exact h0
  | tail hs st ih =>
    obtain ⟨t, ht⟩ := st
    exact hstep _ t _ hs ih (fstep_of_next (lockFree_reachable hs) ht)

end Dawn.Loader

import Dawn.Proofs.PickleBytes
/-! Decoder invariants for C15: the loop never runs out of fuel, a sane host never makes `Decode` return
`(nil, nil)`, and every reference in the decoder's state points into its heap (`Closed`). -/
namespace Dawn.Pickle

/-! ### references in range -/

def Val.closed (n : Nat) : Val → Prop
  | .ref a => a < n
  | _ => True

def Obj.closed (n : Nat) : Obj → Prop
  | .tuple xs => ∀ x ∈ xs, x.closed n
  | .list xs => ∀ x ∈ xs, x.closed n
  | .set xs => ∀ x ∈ xs, x.closed n
  | .dict kvs => ∀ p ∈ kvs, p.1.closed n ∧ p.2.closed n
  | .host _ _ a => a.closed n

structure Closed (ds : DecSt) : Prop where
  stack : ∀ v ∈ ds.stack, v.closed ds.heap.length
  memo : ∀ v ∈ ds.memo, v.closed ds.heap.length
  heap : ∀ o ∈ ds.heap, o.closed ds.heap.length

theorem Val.closed_mono {n m : Nat} (h : n ≤ m) {v : Val} (hv : v.closed n) : v.closed m := by
  cases v <;> simp only [Val.closed] at * ; omega

theorem Obj.closed_mono {n m : Nat} (h : n ≤ m) {o : Obj} (ho : o.closed n) : o.closed m := by
  cases o with
  | tuple xs => exact fun x hx => Val.closed_mono h (ho x hx)
  | list xs => exact fun x hx => Val.closed_mono h (ho x hx)
  | set xs => exact fun x hx => Val.closed_mono h (ho x hx)
  | dict kvs => exact fun p hp => ⟨Val.closed_mono h (ho p hp).1, Val.closed_mono h (ho p hp).2⟩
  | host m n a => exact Val.closed_mono h ho

theorem Val.closedB_iff (n : Nat) (v : Val) : v.closedB n = true ↔ v.closed n := by
  cases v <;> simp [Val.closedB, Val.closed]

theorem Obj.closedB_iff (n : Nat) (o : Obj) : o.closedB n = true ↔ o.closed n := by
  cases o <;> simp [Obj.closedB, Obj.closed, List.all_eq_true, Val.closedB_iff]

theorem hostResultOK_iff (h h' : Heap) (v : Val) :
    hostResultOK h h' v = true ↔ h.length ≤ h'.length ∧ v.closed h'.length ∧ ∀ o ∈ h', o.closed h'.length := by
  simp [hostResultOK, List.all_eq_true, Val.closedB_iff, Obj.closedB_iff, and_assoc]

theorem Closed.init : Closed {} := ⟨by simp, by simp, by simp⟩

/-- pushing a closed value -/
theorem Closed.push {ds : DecSt} (hc : Closed ds) {v : Val} (hv : v.closed ds.heap.length) (rest : List Val)
    (hr : ∀ x ∈ rest, x ∈ ds.stack) : Closed { ds with stack := v :: rest } :=
  ⟨by intro x hx
      simp only [List.mem_cons] at hx
      rcases hx with rfl | hx
      · exact hv
      · exact hc.stack x (hr x hx),
   hc.memo, hc.heap⟩

/-- allocating a closed object and pushing its reference -/
theorem Closed.alloc {ds : DecSt} (hc : Closed ds) {o : Obj} (ho : o.closed ds.heap.length) (rest : List Val)
    (hr : ∀ x ∈ rest, x ∈ ds.stack) :
    Closed { ds with stack := .ref ds.heap.length :: rest, heap := ds.heap ++ [o] } := by
  have hle : ds.heap.length ≤ (ds.heap ++ [o]).length := by simp
  refine ⟨?_, ?_, ?_⟩
  · intro x hx
    simp only [List.mem_cons] at hx
    rcases hx with rfl | hx
    · simp [Val.closed]
    · exact Val.closed_mono hle (hc.stack x (hr x hx))
  · exact fun x hx => Val.closed_mono hle (hc.memo x hx)
  · intro x hx
    simp only [List.mem_append, List.mem_singleton] at hx
    rcases hx with hx | rfl
    · exact Obj.closed_mono hle (hc.heap x hx)
    · exact Obj.closed_mono hle ho

/-- overwriting an object with a closed one, stack shrinking -/
theorem Closed.set {ds : DecSt} (hc : Closed ds) (a : Nat) {o : Obj} (ho : o.closed ds.heap.length) (st : List Val)
    (hr : ∀ x ∈ st, x ∈ ds.stack) : Closed { ds with stack := st, heap := ds.heap.set a o } := by
  refine ⟨?_, ?_, ?_⟩
  · intro x hx; simpa using hc.stack x (hr x hx)
  · intro x hx; simpa using hc.memo x hx
  · intro x hx
    simp only [List.length_set]
    rcases List.mem_or_eq_of_mem_set hx with hx | rfl
    · exact hc.heap x hx
    · exact ho

theorem splitMark_mem : ∀ (st items below : List Val), splitMark st = some (items, below) →
    (∀ x ∈ items, x ∈ st) ∧ (∀ x ∈ below, x ∈ st) := by
  intro st
  induction st with
  | nil => intro items below h; simp [splitMark] at h
  | cons v rest ih =>
    intro items below h
    unfold splitMark at h
    split at h
    · cases h
    · rename_i heq; cases heq
      simp only [Option.some.injEq, Prod.mk.injEq] at h; obtain ⟨rfl, rfl⟩ := h
      exact ⟨by simp, fun x hx => List.mem_cons_of_mem _ hx⟩
    · rename_i v' rest' _ heq; cases heq
      split at h
      · rename_i items' below' h'
        simp only [Option.some.injEq, Prod.mk.injEq] at h; obtain ⟨rfl, rfl⟩ := h
        obtain ⟨h1, h2⟩ := ih _ _ h'
        refine ⟨?_, fun x hx => List.mem_cons_of_mem _ (h2 x hx)⟩
        intro x hx
        simp only [List.mem_cons] at hx ⊢
        rcases hx with rfl | hx
        · exact Or.inl rfl
        · exact Or.inr (h1 x hx)
      · cases h

/-! ### insertion keeps a predicate on entries -/

theorem insertEntry_all {α : Type} (h : Heap) (key : α → Val) (setVal : α → α) (e : α) (Q : α → Prop)
    (hs : ∀ x, Q x → Q (setVal x)) (he : Q e) :
    ∀ (l r : List α), (∀ x ∈ l, Q x) → insertEntry h key setVal e l = some r → ∀ x ∈ r, Q x := by
  intro l
  induction l with
  | nil =>
    intro r _ hr
    simp only [insertEntry, Option.some.injEq] at hr; subst hr
    simpa using he
  | cons y rest ih =>
    intro r hl hr
    simp only [insertEntry] at hr
    split at hr
    · cases hr
    · simp only [Option.some.injEq] at hr; subst hr
      intro x hx
      simp only [List.mem_cons] at hx
      rcases hx with rfl | hx
      · exact hs _ (hl y (by simp))
      · exact hl x (by simp [hx])
    · cases hrest : insertEntry h key setVal e rest with
      | none => simp [hrest] at hr
      | some r' =>
        simp only [hrest, Option.map_some, Option.some.injEq] at hr; subst hr
        intro x hx
        simp only [List.mem_cons] at hx
        rcases hx with rfl | hx
        · exact hl _ (by simp)
        · exact ih r' (fun x hx => hl x (by simp [hx])) hrest x hx

theorem dictInsert_all (h : Heap) (Q : Val → Prop) (kvs : List (Val × Val)) (k v : Val)
    (hl : ∀ p ∈ kvs, Q p.1 ∧ Q p.2) (hk : Q k) (hv : Q v) : ∀ p ∈ dictInsert h kvs k v, Q p.1 ∧ Q p.2 := by
  unfold dictInsert
  split
  · cases hr : insertEntry h (·.1) (fun x => (x.1, v)) (k, v) kvs with
    | none => simpa using hl
    | some r =>
      simp only [Option.getD_some]
      exact insertEntry_all h (·.1) (fun x => (x.1, v)) (k, v) (fun p => Q p.1 ∧ Q p.2) (fun x hx => ⟨hx.1, hv⟩) ⟨hk, hv⟩ kvs r hl hr
  · exact hl

theorem setInsert_all (h : Heap) (Q : Val → Prop) (xs : List Val) (k : Val)
    (hl : ∀ x ∈ xs, Q x) (hk : Q k) : ∀ x ∈ setInsert h xs k, Q x := by
  unfold setInsert
  split
  · cases hr : insertEntry h id id k xs with
    | none => simpa using hl
    | some r =>
      simp only [Option.getD_some]
      exact insertEntry_all h _ _ _ Q (fun x hx => hx) hk xs r hl hr
  · exact hl

theorem dictInsertAll_all (h : Heap) (Q : Val → Prop) : ∀ (n : Nat) (items : List Val) (kvs : List (Val × Val)),
    items.length ≤ n → (∀ p ∈ kvs, Q p.1 ∧ Q p.2) → (∀ x ∈ items, Q x) →
    ∀ p ∈ dictInsertAll h kvs items, Q p.1 ∧ Q p.2 := by
  intro n
  induction n with
  | zero =>
    intro items kvs hn hl _
    cases items with
    | nil => simpa [dictInsertAll] using hl
    | cons _ _ => simp at hn
  | succ n ih =>
    intro items kvs hn hl hi
    cases items with
    | nil => simpa [dictInsertAll] using hl
    | cons k t =>
      cases t with
      | nil => simpa [dictInsertAll] using hl
      | cons v rest =>
        simp only [dictInsertAll]
        apply ih rest _ (by simp at hn; omega)
        · exact dictInsert_all h Q kvs k v hl (hi k (by simp)) (hi v (by simp))
        · exact fun x hx => hi x (by simp [hx])

theorem setInsertAll_all (h : Heap) (Q : Val → Prop) : ∀ (items xs : List Val),
    (∀ x ∈ xs, Q x) → (∀ x ∈ items, Q x) → ∀ x ∈ setInsertAll h xs items, Q x := by
  intro items
  induction items with
  | nil => intro xs hl _; simpa [setInsertAll] using hl
  | cons k rest ih =>
    intro xs hl hi
    simp only [setInsertAll, List.foldl_cons]
    exact ih _ (setInsert_all h Q xs k hl (hi k (by simp))) (fun x hx => hi x (by simp [hx]))

/-! ### every step keeps references in range -/

def Step.Good : Step → Prop
  | .cont ds' => Closed ds'
  | .done v ds' => Closed ds' ∧ v.closed ds'.heap.length
  | _ => True

theorem heap_closed_of_get {ds : DecSt} (hc : Closed ds) {a : Nat} {o : Obj} (h : ds.heap[a]? = some o) :
    o.closed ds.heap.length := hc.heap o (List.mem_of_getElem? h)

theorem push_good {ds : DecSt} (hc : Closed ds) {v : Val} (hv : v.closed ds.heap.length) : (push ds v).Good :=
  hc.push hv _ (fun _ hx => hx)

theorem alloc_good {ds : DecSt} (hc : Closed ds) {o : Obj} (ho : o.closed ds.heap.length) (rest : List Val)
    (hr : ∀ x ∈ rest, x ∈ ds.stack) : (alloc ds o rest).Good := hc.alloc ho rest hr

theorem stepOp_good (cfg : DecCfg) (ds : DecSt) (hc : Closed ds) (o : Op) : (stepOp cfg ds o).Good := by
  cases o
  case mark => exact push_good hc trivial
  case memoize =>
    simp only [stepOp]
    split
    · rename_i v rest hst
      exact ⟨hc.stack, by
        intro x hx
        simp only [List.mem_append, List.mem_singleton] at hx
        rcases hx with hx | rfl
        · exact hc.memo x hx
        · exact hc.stack _ (by simp [hst]), hc.heap⟩
    · trivial
  case binget id =>
    simp only [stepOp]
    split
    · rename_i v hv; exact push_good hc (hc.memo v (List.mem_of_getElem? hv))
    · trivial
  case longBinget id =>
    simp only [stepOp]
    split
    · rename_i v hv; exact push_good hc (hc.memo v (List.mem_of_getElem? hv))
    · trivial
  case stop =>
    simp only [stepOp]
    split
    · rename_i v rest hst
      exact ⟨⟨fun x hx => hc.stack x (by simp [hst, hx]), hc.memo, hc.heap⟩, hc.stack v (by simp [hst])⟩
    · trivial
  case none => exact push_good hc trivial
  case newtrue => exact push_good hc trivial
  case newfalse => exact push_good hc trivial
  case int t =>
    simp only [stepOp]
    split
    · exact push_good hc trivial
    · trivial
  case binint1 n => exact push_good hc trivial
  case binint2 l h => exact push_good hc trivial
  case binint w => exact push_good hc trivial
  case binfloat w => exact push_good hc trivial
  case shortBinunicode s => exact push_good hc trivial
  case binunicode s => exact push_good hc trivial
  case shortBinbytes s => exact push_good hc trivial
  case binbytes s => exact push_good hc trivial
  case emptyList => exact alloc_good hc (by simp [Obj.closed]) _ (fun _ hx => hx)
  case emptyTuple => exact alloc_good hc (by simp [Obj.closed]) _ (fun _ hx => hx)
  case emptyDict => exact alloc_good hc (by simp [Obj.closed]) _ (fun _ hx => hx)
  case emptySet => exact alloc_good hc (by simp [Obj.closed]) _ (fun _ hx => hx)
  case append =>
    simp only [stepOp]
    split
    · trivial
    · trivial
    · rename_i v a rest hst
      split
      · rename_i xs hxs
        have hl := heap_closed_of_get hc hxs
        refine hc.set a ?_ _ (by intro x hx; simp [hst] at hx ⊢; rcases hx with rfl | hx <;> simp_all)
        intro x hx
        simp only [List.mem_append, List.mem_singleton] at hx
        rcases hx with hx | rfl
        · exact hl x hx
        · exact hc.stack _ (by simp [hst])
      · trivial
    · trivial
  case appends =>
    simp only [stepOp]
    split
    · rename_i items a below hsp
      obtain ⟨hi, hb⟩ := splitMark_mem _ _ _ hsp
      split
      · rename_i xs hxs
        have hl := heap_closed_of_get hc hxs
        refine hc.set a ?_ _ hb
        intro x hx
        simp only [List.mem_append, List.mem_reverse] at hx
        rcases hx with hx | hx
        · exact hl x hx
        · exact hc.stack _ (hi x hx)
      · trivial
    · trivial
    · trivial
  case tuple1 =>
    simp only [stepOp]
    split
    · rename_i a rest hst
      refine alloc_good hc ?_ _ (fun x hx => by simp [hst, hx])
      intro x hx; simp only [List.mem_singleton] at hx; subst hx; exact hc.stack _ (by simp [hst])
    · trivial
  case tuple2 =>
    simp only [stepOp]
    split
    · rename_i b a rest hst
      refine alloc_good hc ?_ _ (fun x hx => by simp [hst, hx])
      intro x hx
      simp only [List.mem_cons, List.not_mem_nil, or_false] at hx
      rcases hx with rfl | rfl <;> exact hc.stack _ (by simp [hst])
    · trivial
  case tuple3 =>
    simp only [stepOp]
    split
    · rename_i c b a rest hst
      refine alloc_good hc ?_ _ (fun x hx => by simp [hst, hx])
      intro x hx
      simp only [List.mem_cons, List.not_mem_nil, or_false] at hx
      rcases hx with rfl | rfl | rfl <;> exact hc.stack _ (by simp [hst])
    · trivial
  case tuple =>
    simp only [stepOp]
    split
    · rename_i items below hsp
      obtain ⟨hi, hb⟩ := splitMark_mem _ _ _ hsp
      refine alloc_good hc ?_ _ hb
      intro x hx
      exact hc.stack _ (hi x (by simpa using hx))
    · trivial
  case setitems =>
    simp only [stepOp]
    split
    · rename_i items a below hsp
      obtain ⟨hi, hb⟩ := splitMark_mem _ _ _ hsp
      split
      · rename_i kvs hkvs
        have hl := heap_closed_of_get hc hkvs
        split
        · trivial
        · refine hc.set a ?_ _ hb
          exact dictInsertAll_all ds.heap (Val.closed ds.heap.length) _ _ _ (Nat.le_refl _) hl
            (fun x hx => hc.stack _ (hi x (by simpa using hx)))
      · trivial
    · trivial
    · trivial
  case additems =>
    simp only [stepOp]
    split
    · rename_i items a below hsp
      obtain ⟨hi, hb⟩ := splitMark_mem _ _ _ hsp
      split
      · rename_i xs hxs
        have hl := heap_closed_of_get hc hxs
        refine hc.set a ?_ _ hb
        exact setInsertAll_all ds.heap (Val.closed ds.heap.length) _ _ hl
          (fun x hx => hc.stack _ (hi x (by simpa using hx)))
      · trivial
    · trivial
    · trivial
  case stackGlobal =>
    simp only [stepOp]
    split
    · rename_i name module rest hst
      exact ⟨by
        intro x hx
        simp only [List.mem_cons] at hx
        rcases hx with rfl | hx
        · trivial
        · exact hc.stack x (by simp [hst, hx]), hc.memo, hc.heap⟩
    · trivial
    · trivial
  case newobj =>
    simp only [stepOp]
    split
    · rename_i a gid module name rest hst
      split
      · rename_i xs hxs
        split
        · trivial
        · rename_i f hf
          split
          · refine alloc_good hc ?_ _ (fun x hx => by simp [hst, hx])
            exact hc.stack (.ref a) (by simp [hst])
          · rename_i h' v hv
            split
            · rename_i hok
              obtain ⟨hle, hvc, hhc⟩ := (hostResultOK_iff _ _ _).mp hok
              refine ⟨?_, fun x hx => Val.closed_mono hle (hc.memo x hx), hhc⟩
              intro x hx
              simp only [List.mem_cons] at hx
              rcases hx with rfl | hx
              · exact hvc
              · exact Val.closed_mono hle (hc.stack x (by simp [hst, hx]))
            · trivial
          · trivial
          · trivial
          · trivial
      · trivial
    · trivial
    · trivial

/-! ### only the host can panic -/

/-- the host unpickler, given a closed heap and the address of an argument tuple in it, panics with a non-error value
or hands back a heap / value with a reference out of range -/
def HostMisbehaves (cfg : DecCfg) : Prop :=
  ∃ f h a m n xs, cfg.host = some f ∧ (∀ o ∈ h, o.closed h.length) ∧ h[a]? = some (.tuple xs) ∧
    (f h a m n xs = .otherPanic ∨ ∃ h' v, f h a m n xs = .result h' v ∧ hostResultOK h h' v = false)

theorem stepOp_panics (cfg : DecCfg) (ds : DecSt) (hc : Closed ds) (o : Op) :
    (stepOp cfg ds o = .otherPanic → HostMisbehaves cfg) ∧
    (stepOp cfg ds o = .rtPanic → ∃ f h a m n xs, cfg.host = some f ∧ f h a m n xs = .runtimePanic) := by
  cases o
  case newobj =>
    simp only [stepOp]
    constructor <;> intro h
    all_goals
      split at h <;> try cases h
      rename_i a gid m n rest hst
      split at h <;> try cases h
      rename_i xs hxs
      split at h <;> try cases h
      rename_i f hf
      split at h <;> try cases h
    · rename_i h' v hv
      split at h
      · cases h
      · rename_i hbad
        exact ⟨f, ds.heap, a, m, n, xs, hf, hc.heap, hxs, Or.inr ⟨h', v, hv, by simpa using hbad⟩⟩
    · rename_i hv
      exact ⟨f, ds.heap, a, m, n, xs, hf, hc.heap, hxs, Or.inl hv⟩
    · rename_i h' v hv
      split at h <;> cases h
    · rename_i hv
      exact ⟨f, _, _, _, _, _, hf, hv⟩
  all_goals
    simp only [stepOp, push, alloc]
    constructor <;> intro h <;> (repeat' (split at h)) <;> cases h

/-! ### the loop -/

def Raw.Safe (cfg : DecCfg) : Raw → Prop
  | .value v h => v.closed h.length ∧ ∀ o ∈ h, o.closed h.length
  | .failure _ => True
  | .rtPanic => ∃ f h a m n xs, cfg.host = some f ∧ f h a m n xs = .runtimePanic
  | .otherPanic => HostMisbehaves cfg
  | .outOfFuel => False

/-- The decoder loop, started with more fuel than input bytes, never runs out of fuel (each iteration consumes a
byte); it panics only where the host unpickler does; a value it returns has all references in range. -/
theorem decodeLoop_safe (cfg : DecCfg) : ∀ (fuel : Nat) (ds : DecSt) (bs : Bytes),
    bs.length < fuel → Closed ds → (decodeLoop cfg fuel ds bs).Safe cfg := by
  intro fuel
  induction fuel with
  | zero => intro ds bs h; omega
  | succ fuel ih =>
    intro ds bs hlen hc
    simp only [decodeLoop]
    split
    · trivial
    · trivial
    · rename_i o rest hp
      have hl := parseOp_length _ _ _ hp
      have hg := stepOp_good cfg ds hc o
      have hp := stepOp_panics cfg ds hc o
      split
      · rename_i ds' hs
        rw [hs] at hg
        exact ih ds' rest (by omega) hg
      · rename_i v ds' hs
        rw [hs] at hg
        exact ⟨hg.2, hg.1.heap⟩
      · trivial
      · rename_i hs; exact hp.2 hs
      · rename_i hs; exact hp.1 hs

theorem decode_safe (cfg : DecCfg) (bs : Bytes) : (decodeLoop cfg (bs.length + 1) {} bs).Safe cfg :=
  decodeLoop_safe cfg _ _ _ (Nat.lt_succ_self _) Closed.init

end Dawn.Pickle

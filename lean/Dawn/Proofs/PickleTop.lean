import Dawn.Proofs.PickleRT
import Dawn.Proofs.PickleDecimal
/-! From the op-level simulation to `decode (encode g) = g` on bytes. -/
namespace Dawn.Pickle

theorem serAll_cons (op : Op) (ops : List Op) : serAll (op :: ops) = ser op ++ serAll ops := by
  simp [serAll]

theorem serAll_length_ge (ops : List Op) : ops.length ≤ (serAll ops).length := by
  induction ops with
  | nil => simp [serAll]
  | cons op ops ih =>
    rw [serAll_cons]
    have := ser_length_pos op
    simp only [List.length_cons, List.length_append]; omega

/-- the byte loop follows the op-level run over what was serialised -/
theorem decodeLoop_steps (cfg : DecCfg) : ∀ (ops : List Op) (ds ds' : DecSt) (fuel : Nat) (rest : Bytes),
    (∀ op ∈ ops, op.wf) → steps cfg ds ops = some ds' →
    decodeLoop cfg (ops.length + fuel) ds (serAll ops ++ rest) = decodeLoop cfg fuel ds' rest := by
  intro ops
  induction ops with
  | nil =>
    intro ds ds' fuel rest _ h
    simp only [steps, Option.some.injEq] at h; subst h
    simp [serAll]
  | cons op ops ih =>
    intro ds ds' fuel rest hw h
    simp only [steps] at h
    split at h
    · rename_i d1 hs
      rw [serAll_cons, List.append_assoc]
      have : (op :: ops).length + fuel = (ops.length + fuel) + 1 := by simp; omega
      rw [this, decodeLoop, parseOp_ser op _ (hw op (by simp))]
      simp only [hs]
      exact ih d1 ds' fuel rest (fun o ho => hw o (by simp [ho])) h
    · cases h

/-- the serialisation of op lists is injective on well-formed ops: opcode-level results lift to bytes -/
theorem serAll_injective : ∀ (ops₁ ops₂ : List Op), (∀ op ∈ ops₁, op.wf) → (∀ op ∈ ops₂, op.wf) →
    serAll ops₁ = serAll ops₂ → ops₁ = ops₂ := by
  intro ops₁
  induction ops₁ with
  | nil =>
    intro ops₂ _ _ h
    cases ops₂ with
    | nil => rfl
    | cons b bs =>
      rw [serAll_cons] at h
      have := ser_length_pos b
      have hl := congrArg List.length h
      simp only [show serAll ([] : List Op) = [] from rfl, List.length_append, List.length_nil] at hl
      omega
  | cons a as ih =>
    intro ops₂ h1 h2 h
    cases ops₂ with
    | nil =>
      rw [serAll_cons] at h
      have := ser_length_pos a
      have hl := congrArg List.length h
      simp only [show serAll ([] : List Op) = [] from rfl, List.length_append, List.length_nil] at hl
      omega
    | cons b bs =>
      rw [serAll_cons, serAll_cons] at h
      have pa := parseOp_ser a (serAll as) (h1 a (by simp))
      have pb := parseOp_ser b (serAll bs) (h2 b (by simp))
      rw [h, pb] at pa
      simp only [Parsed.op.injEq] at pa
      obtain ⟨rfl, hrest⟩ := pa
      rw [ih bs (fun o ho => h1 o (by simp [ho])) (fun o ho => h2 o (by simp [ho])) hrest.symm]

theorem sim_init (g : Heap) : Sim g ⟨[], 0⟩ {} :=
  ⟨rfl, rfl, by intro a id h; simp [lookup] at h, Closed.init, by intro a o h; simp at h, Nat.le_refl _, Nat.zero_le _⟩

/-- op level: the ops of a canonical graph run to exactly that graph -/
theorem roundtrip_ops {cfgD : DecCfg} (cfgE : EncCfg) (hre : cfgE.rebatch = false) (g : Graph) (hG : GraphOK cfgD g.heap)
    (hroot : g.root.sizeOK = true) (ops : List Op) (h : encodeOps cfgE g = some ops) :
    ∃ ops0 ds', ops = ops0 ++ [.stop] ∧ (∀ op ∈ ops0, op.wf) ∧ steps cfgD {} ops0 = some ds' ∧
      ds'.stack = [g.root] ∧ ds'.heap = g.heap := by
  simp only [encodeOps] at h
  split at h
  · rename_i st ops0 henc
    split at h
    · rename_i hall
      simp only [Option.some.injEq] at h; subst h
      obtain ⟨ds', r, s, p, _, w⟩ := encVal_spec cfgE hre hG _ _ g.root st ops0 {} henc (sim_init g.heap) hroot
      refine ⟨ops0, ds', rfl, w, r, s, ?_⟩
      apply List.ext_getElem?
      intro a
      by_cases ha : a < st.next
      · exact p.fresh a (Nat.zero_le _) ha
      · have h1 : ds'.heap.length ≤ a := by rw [p.sim.hlen]; omega
        have h2 : g.heap.length ≤ a := by omega
        simp [List.getElem?_eq_none h1, List.getElem?_eq_none h2]
    · cases h
  · cases h

/-- byte level -/
theorem roundtrip_bytes {cfgD : DecCfg} (cfgE : EncCfg) (hre : cfgE.rebatch = false) (g : Graph) (hG : GraphOK cfgD g.heap)
    (hroot : g.root.sizeOK = true) (bs : Bytes) (h : encode cfgE g = some bs) : decode cfgD bs = .ok g.heap g.root := by
  simp only [encode] at h
  cases hops : encodeOps cfgE g with
  | none => simp [hops] at h
  | some ops =>
    simp only [hops, Option.map_some, Option.some.injEq] at h; subst h
    obtain ⟨ops0, ds', rfl, hw, hsteps, hstack, hheap⟩ := roundtrip_ops cfgE hre g hG hroot ops hops
    have hser : serAll (ops0 ++ [.stop]) = serAll ops0 ++ ser .stop := by simp [serAll]
    have hlen := serAll_length_ge ops0
    simp only [decode, hser]
    have hfuel : (serAll ops0 ++ ser Op.stop).length + 1 = ops0.length + ((serAll ops0).length - ops0.length + 2) := by
      simp [ser]; omega
    rw [hfuel, decodeLoop_steps cfgD ops0 {} ds' _ _ hw hsteps]
    have : (serAll ops0).length - ops0.length + 2 = ((serAll ops0).length - ops0.length + 1) + 1 := by omega
    rw [this, decodeLoop]
    have hp : parseOp (ser Op.stop) = .op .stop [] := by
      have := parseOp_ser .stop [] trivial
      simpa using this
    rw [hp]
    simp only [stepOp, hstack, recoverDecode, hheap]

end Dawn.Pickle

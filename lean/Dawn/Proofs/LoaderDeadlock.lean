import Dawn.Proofs.LoaderWalk
import Dawn.Proofs.LoaderCond
/-!
Deadlock freedom of the fixed loader: in a reachable state in which some goroutine has not returned, some goroutine can
take a step. Otherwise every unfinished goroutine is asleep on an unfinished module, which sits in the stack of another
sleeping goroutine; following this relation through the finitely many goroutines closes a cycle; on the cycle the
goroutine that published last has an old path from its target back to itself — which `Inv6.wait_safe` excludes.
-/
namespace Dawn.Loader

/-! ### finite combinatorics -/

theorem pigeonhole (g : Nat → Nat) (n : Nat) (h : ∀ k, g k < n) : ∃ i j, i < j ∧ j ≤ n ∧ g i = g j := by
  apply Classical.byContradiction
  intro hne
  have hnd : ((List.range (n + 1)).map g).Nodup := by
    rw [List.Nodup, List.pairwise_map]
    refine List.pairwise_lt_range.imp_of_mem ?_
    intro a b _ hb hab e
    exact hne ⟨a, b, hab, by simpa [Nat.lt_succ_iff] using hb, e⟩
  have := hnd.length_le_of_subset (l₂ := List.range n) (by
    intro x hx
    simp only [List.mem_map, List.mem_range] at hx ⊢
    obtain ⟨k, _, rfl⟩ := hx
    exact h k)
  simp only [List.length_map, List.length_range] at this
  omega

theorem exists_max (g : Nat → Nat) : ∀ L, 0 < L → ∃ m, m < L ∧ ∀ k, k < L → g k ≤ g m := by
  intro L
  induction L with
  | zero => intro h; cases h
  | succ L ih =>
    intro _
    cases L with
    | zero =>
      refine ⟨0, by omega, fun k hk => ?_⟩
      have : k = 0 := by omega
      subst this; exact Nat.le_refl _
    | succ L =>
      obtain ⟨m, hm, hmax⟩ := ih (by omega)
      by_cases hc : g m ≤ g (L + 1)
      · refine ⟨L + 1, by omega, fun k hk => ?_⟩
        by_cases hk' : k < L + 1
        · exact Nat.le_trans (hmax k hk') hc
        · have : k = L + 1 := by omega
          subst this; exact Nat.le_refl _
      · refine ⟨m, by omega, fun k hk => ?_⟩
        by_cases hk' : k < L + 1
        · exact hmax k hk'
        · have : k = L + 1 := by omega
          subst this; omega

theorem periodic_reduce (c : Nat → Nat) (L : Nat) (hL : 0 < L) (hper : ∀ q, c (q + L) = c q) :
    ∀ q, ∃ k, k < L ∧ c q = c k := by
  intro q
  induction q using Nat.strongRecOn with
  | _ q ih =>
    by_cases hq : q < L
    · exact ⟨q, hq, rfl⟩
    · obtain ⟨k, hk, e⟩ := ih (q - L) (by omega)
      refine ⟨k, hk, ?_⟩
      rw [← e, ← hper (q - L)]
      congr 1; omega

def iterF (f : Nat → Nat) (a : Nat) : Nat → Nat
  | 0 => a
  | k + 1 => f (iterF f a k)

theorem iterF_add (f : Nat → Nat) (a : Nat) (i k : Nat) : iterF f a (i + k) = iterF f (iterF f a i) k := by
  induction k with
  | zero => rfl
  | succ k ih => rw [← Nat.add_assoc, iterF, ih, iterF]

/-! ### stuck states -/

/-- the goroutine is inside `d.cond.Wait()` for a module that has not finished loading -/
def Sleeping (s : State) (t : Tid) : Prop := ∃ d, s.pc t = .sleep d ∧ s.loaded d = false

/-- in the fixed version a goroutine that cannot move has returned or is asleep on an unfinished module -/
theorem stuck_thread {P : Project} {s : State} (lf : LockFree s) (inv1 : Inv1 P s) (invA : InvA s) {t : Tid}
    (h : next .fixed P s t = none) : s.pc t = .finished ∨ Sleeping s t := by
  obtain ⟨hm, hc⟩ := lf
  have hb := inv1.body t
  cases hpc : s.pc t with
  | finished => exact Or.inl rfl
  | sleep d =>
    refine Or.inr ⟨d, hpc, ?_⟩
    -- blocked in Wait means: still on the notify list — and nobody is on the list of a loaded module
    simp only [next, hpc, hm, Option.isSome_none, Bool.or_false] at h
    by_cases hin : t ∈ s.asleep d
    · exact (invA.listed d t hin).2
    · have : (s.asleep d).contains t = false := by simpa using hin
      simp only [this, Bool.false_eq_true, ↓reduceIte] at h
      split at h <;> cases h
  | check d => exact absurd hpc (hc t d)
  | run =>
    have := hb (Or.inl hpc)
    simp only [next, hpc] at h
    cases hs : s.stack t with
    | nil => exact absurd hs this
    | cons f rest =>
      simp only [hs] at h
      cases hbr : P.broken f.mod <;> cases hf : f.todo <;> simp [hbr, hf] at h
  | fin r =>
    have := hb (Or.inr ⟨r, hpc⟩)
    simp only [next, hpc, hm] at h
    cases hs : s.stack t with
    | nil => exact absurd hs this
    | cons f rest => simp [hs] at h
  | call d => simp only [next, hpc] at h; split at h <;> cases h
  | setNew d => simp only [next, hpc, hm] at h; split at h <;> simp at h
  | load d => simp [next, hpc] at h
  | setFound d => simp only [next, hpc, hm] at h; split at h <;> simp at h
  | enter d => simp only [next, hpc, hm] at h; split at h <;> simp at h
  | walk d cur =>
    simp only [next, hpc, hm] at h
    split at h
    · cases h
    · split at h <;> simp at h
  | wlock d => simp [next, hpc, hm] at h
  | unset r =>
    simp only [next, hpc, hm] at h
    split at h
    · cases h
    · by_cases hr : r = .ok <;> simp [hr] at h



/-- going down a stack from a module that lies on an old path to `X` (or is `X`): every frame below lies on one -/
theorem climb {s : State} (X : Mod) : ∀ (stk : List Frame) (a : Mod), chainOK s.loading (some a) stk →
    (a = X ∨ Seg s X a X) → (∀ g ∈ stk, s.ptime g.mod < s.ptime X) → ∀ g ∈ stk, Seg s X g.mod X := by
  intro stk
  induction stk with
  | nil => intro a _ _ _ g hg; simp at hg
  | cons l rest ih =>
    intro a hc ha hp g hg
    simp only [chainOK] at hc
    have hl : Seg s X l.mod X := by
      rcases ha with rfl | ha
      · exact .one hc.1 (hp l (by simp))
      · exact .more hc.1 (hp l (by simp)) ha
    simp only [List.mem_cons] at hg
    rcases hg with rfl | hg
    · exact hl
    · exact ih l.mod hc.2 (Or.inr hl) (fun g hg => hp g (by simp [hg])) g hg

def topM (s : State) (u : Tid) : Mod := match s.stack u with | f :: _ => f.mod | [] => 0

theorem topM_eq {s : State} {u : Tid} {f : Frame} {rest : List Frame} (h : s.stack u = f :: rest) : topM s u = f.mod := by
  simp [topM, h]

/-- every frame of a waiting goroutine whose top lies on an old path to `X` (or is `X`) lies on one -/
theorem hit_of_owner {s : State} (inv3 : Inv3 s) {X : Mod} {u : Tid} {f : Frame} {rest : List Frame} {d : Mod}
    (hs : s.stack u = f :: rest) (hw : waitingPc (s.pc u) = some d)
    (hit : f.mod = X ∨ Seg s X f.mod X) (hle : s.ptime f.mod ≤ s.ptime X) :
    ∀ g ∈ s.stack u, g.mod = X ∨ Seg s X g.mod X := by
  intro g hg
  rw [hs] at hg
  simp only [List.mem_cons] at hg
  rcases hg with rfl | hg
  · exact hit
  · have hc := inv3.chain u f rest hs
    simp only [chainOK] at hc
    have hptr : s.loading f.mod ≠ none := by rw [waiting_ptr inv3 hs hw]; simp
    have ho := inv3.order u
    rw [hs, List.pairwise_cons] at ho
    refine Or.inr (climb X rest f.mod hc.2 hit (fun g' hg' => ?_) g hg)
    exact Nat.lt_of_lt_of_le (ho.1 g' hg' hptr) hle

theorem no_stuck {P : Project} {s : State} (hr : Reachable .fixed P s) (hstuck : ∀ t, next .fixed P s t = none)
    (t0 : Tid) (hun : s.pc t0 ≠ .finished) : False := by
  classical
  have lf := lockFree_reachable hr
  have i1 := inv1_reachable hr
  have i2 := inv2_reachable hr
  have i3 := inv3_reachable hr
  have i6 := inv6_reachable hr
  have hS : ∀ t, s.pc t = .finished ∨ Sleeping s t := fun t => stuck_thread lf i1 (invA_reachable hr) (hstuck t)
  -- a sleeping goroutine waits for a module in the stack of another sleeping goroutine
  have hsucc : ∀ t, Sleeping s t → ∃ t', Sleeping s t' ∧ ∃ d f, s.pc t = .sleep d ∧ f ∈ s.stack t' ∧ f.mod = d := by
    intro t ⟨d, hpc, hl⟩
    have hreg := i1.found_reg t d (by simp [hpc, foundPc]) (by simp [hpc, target])
    rcases i2.owner_exists d hreg hl with ⟨t', f, hf, hm⟩ | ⟨t', hc⟩
    · rcases hS t' with h | h
      · rw [i1.fin_empty t' h] at hf; simp at hf
      · exact ⟨t', h, d, f, hpc, hf, hm⟩
    · rcases hS t' with h | ⟨d', h, _⟩ <;> rcases hc with hc | hc <;> rw [h] at hc <;> cases hc
  have hwait : ∀ t, Sleeping s t → ∃ d, waitingPc (s.pc t) = some d ∧ s.pc t = .sleep d := by
    intro t ⟨d, hpc, _⟩; exact ⟨d, by simp [hpc, waitingPc], hpc⟩
  -- follow the relation
  let nxt : Tid → Tid := fun t =>
    if h : Sleeping s t then Classical.choose (hsucc t h) else t
  have nxt_spec : ∀ t, Sleeping s t →
      Sleeping s (nxt t) ∧ ∃ d f, s.pc t = .sleep d ∧ f ∈ s.stack (nxt t) ∧ f.mod = d := by
    intro t h
    have := Classical.choose_spec (hsucc t h)
    simp only [nxt, h, ↓reduceDIte]
    exact this
  have h0 : Sleeping s t0 := by rcases hS t0 with h | h; exact absurd h hun; exact h
  let g := iterF nxt t0
  have hg : ∀ k, Sleeping s (g k) := by
    intro k
    induction k with
    | zero => exact h0
    | succ k ih => exact (nxt_spec _ ih).1
  have hlt : ∀ k, g k < P.roots.length := by
    intro k
    apply Classical.byContradiction
    intro hge
    obtain ⟨d, hpc, _⟩ := hg k
    rw [i1.idle (g k) (by omega)] at hpc
    cases hpc
  obtain ⟨i, j, hij, _, hgij⟩ := pigeonhole g P.roots.length hlt
  -- the cycle
  let c : Nat → Tid := fun q => g (i + q)
  let L := j - i
  have hL : 0 < L := by omega
  have hper : ∀ q, c (q + L) = c q := by
    intro q
    show g (i + (q + L)) = g (i + q)
    have e1 : i + (q + L) = j + q := by omega
    rw [e1, show g (j + q) = iterF nxt (g j) q from iterF_add nxt t0 j q,
      show g (i + q) = iterF nxt (g i) q from iterF_add nxt t0 i q, hgij]
  have hcs : ∀ q, Sleeping s (c q) := fun q => hg (i + q)
  have hcn : ∀ q, c (q + 1) = nxt (c q) := fun q => rfl
  have hne : ∀ q, ∃ f rest, s.stack (c q) = f :: rest := by
    intro q
    have e : c q = nxt (c (q + L - 1)) := by
      rw [← hcn, show q + L - 1 + 1 = q + L by omega, hper]
    obtain ⟨_, d, f, _, hf, _⟩ := nxt_spec (c (q + L - 1)) (hcs _)
    rw [← e] at hf
    cases hs : s.stack (c q) with
    | nil => rw [hs] at hf; simp at hf
    | cons f' rest' => exact ⟨f', rest', rfl⟩
  -- the goroutine on the cycle that published last
  let τ : Nat → Nat := fun q => s.ptime (topM s (c q))
  obtain ⟨m, hm, hmax⟩ := exists_max τ L hL
  have hmaxAll : ∀ q, τ q ≤ τ m := by
    intro q
    obtain ⟨k, hk, e⟩ := periodic_reduce c L hL hper q
    have : τ q = τ k := by show s.ptime (topM s (c q)) = s.ptime (topM s (c k)); rw [e]
    rw [this]; exact hmax k hk
  let X := topM s (c m)
  let e : Nat → Tid := fun q => c (m + q)
  have hXptr : s.loading X ≠ none := by
    obtain ⟨f, rest, hs⟩ := hne m
    obtain ⟨d, hw, _⟩ := hwait _ (hcs m)
    show s.loading (topM s (c m)) ≠ none
    rw [topM_eq hs, waiting_ptr i3 hs hw]; simp
  -- top of e (q+1) hits X → the target of e q hits X
  have stepTarget : ∀ q, (topM s (e (q + 1)) = X ∨ Seg s X (topM s (e (q + 1))) X) →
      ∃ d, s.pc (e q) = .sleep d ∧ (d = X ∨ Seg s X d X) := by
    intro q hit
    obtain ⟨_, d, f, hpc, hf, hfd⟩ := nxt_spec (e q) (hcs _)
    have en : e (q + 1) = nxt (e q) := by show c (m + (q + 1)) = nxt (c (m + q)); rw [← hcn]; rfl
    rw [← en] at hf
    obtain ⟨f1, rest1, hs1⟩ := hne (m + (q + 1))
    obtain ⟨d1, hw1, _⟩ := hwait _ (hcs (m + (q + 1)))
    rw [topM_eq hs1] at hit
    have hle : s.ptime f1.mod ≤ s.ptime X := by
      have := hmaxAll (m + (q + 1))
      show s.ptime f1.mod ≤ s.ptime (topM s (c m))
      rw [← topM_eq hs1]; exact this
    have := hit_of_owner i3 hs1 hw1 hit hle f hf
    rw [hfd] at this
    exact ⟨d, hpc, this⟩
  -- the target of e q hits X → its top does
  have stepTop : ∀ q, (∃ d, s.pc (e q) = .sleep d ∧ (d = X ∨ Seg s X d X)) →
      (topM s (e q) = X ∨ Seg s X (topM s (e q)) X) := by
    intro q ⟨d, hpc, hit⟩
    obtain ⟨f, rest, hs⟩ := hne (m + q)
    have hptr := waiting_ptr i3 hs (d := d) (by simp [show s.pc (c (m + q)) = .sleep d from hpc, waitingPc])
    rw [topM_eq hs]
    by_cases hx : f.mod = X
    · exact Or.inl hx
    · have hle : s.ptime f.mod ≤ s.ptime X := by
        have := hmaxAll (m + q)
        show s.ptime f.mod ≤ s.ptime (topM s (c m))
        rw [← topM_eq hs]; exact this
      have hneq : s.ptime f.mod ≠ s.ptime X := fun e' => hx (i3.ptime_inj _ _ (by rw [hptr]; simp) hXptr e')
      have hlt' : s.ptime f.mod < s.ptime X := by omega
      rcases hit with rfl | hit
      · exact Or.inr (.one hptr hlt')
      · exact Or.inr (.more hptr hlt' hit)
  -- go round the cycle backwards, from e L = e 0
  have down : ∀ k, k ≤ L → (topM s (e (L - k)) = X ∨ Seg s X (topM s (e (L - k))) X) := by
    intro k
    induction k with
    | zero =>
      intro _
      left
      show topM s (c (m + (L - 0))) = topM s (c m)
      rw [show m + (L - 0) = m + L by omega, hper]
    | succ k ih =>
      intro hk
      have := ih (by omega)
      rw [show L - k = (L - (k + 1)) + 1 by omega] at this
      exact stepTop _ (stepTarget _ this)
  have h1 := down (L - 1) (by omega)
  rw [show L - (L - 1) = 0 + 1 by omega] at h1
  obtain ⟨d, hpc, hit⟩ := stepTarget 0 h1
  obtain ⟨f, rest, hs⟩ := hne m
  have hs' : s.stack (e 0) = f :: rest := hs
  have hsafe := i6.wait_safe (e 0) f rest d hs' (Or.inr hpc)
  have hX : X = f.mod := topM_eq hs
  rw [← hX] at hsafe
  rcases hit with h | h
  · exact hsafe.1 h
  · exact hsafe.2 h

end Dawn.Loader

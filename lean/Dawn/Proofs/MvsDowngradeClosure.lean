import Dawn.Proofs.MvsDowngrade
/-!
# The exclusion closure of `mvs.Downgrade` (C11, "at or below")

`add` / `exclude` keep a module only if nothing it transitively requires exceeds the maxima of the downgrade:
`exclude` closes the excluded set under the recorded reverse dependencies (`exclude_spec`), the stack machine of `add`
keeps the invariant `DInv` ("a finished, not excluded module has all its requirements added, with itself recorded as
their dependent"), so a module that is added and not excluded between two top-level `add`s reaches only modules that do
not exceed the maxima (`safe_of_not_excluded`). The list `Downgrade` returns is built from such modules only.
-/
namespace Dawn.Mvs
/-! ### `exclude` closes the excluded set under recorded reverse dependencies -/

def closedUnder (rdeps : List (Mod × Mod)) (ex : List Mod) : Prop := ∀ rp ∈ rdeps, rp.1 ∈ ex → rp.2 ∈ ex

def exclNew (rdeps : List (Mod × Mod)) (ex : List Mod) : List Mod :=
  (rdeps.filter fun rp => rp.1 ∈ ex ∧ rp.2 ∉ ex).map (·.2)

theorem exclClose_succ (rdeps : List (Mod × Mod)) (n : Nat) (ex : List Mod) :
    exclClose rdeps (n + 1) ex = exclClose rdeps n (ex ++ exclNew rdeps ex) := rfl

theorem exclNew_nil_iff (rdeps : List (Mod × Mod)) (ex : List Mod) : exclNew rdeps ex = [] ↔ closedUnder rdeps ex := by
  unfold exclNew closedUnder
  simp only [List.map_eq_nil_iff, List.filter_eq_nil_iff, decide_eq_true_eq, not_and, Decidable.not_not]

theorem exclClose_of_closed (rdeps : List (Mod × Mod)) : ∀ (n : Nat) (ex : List Mod), closedUnder rdeps ex →
    exclClose rdeps n ex = ex := by
  intro n
  induction n with
  | zero => intro ex _; rfl
  | succ n ih =>
    intro ex h
    rw [exclClose_succ, (exclNew_nil_iff rdeps ex).mpr h, List.append_nil]
    exact ih ex h

theorem exclClose_mono (rdeps : List (Mod × Mod)) : ∀ (n : Nat) (ex : List Mod), ∀ x ∈ ex, x ∈ exclClose rdeps n ex := by
  intro n
  induction n with
  | zero => intro ex x h; exact h
  | succ n ih => intro ex x h; rw [exclClose_succ]; exact ih _ x (List.mem_append_left _ h)

/-- entries of `rdeps` whose dependent is not excluded yet -/
def pendingDeps (rdeps : List (Mod × Mod)) (ex : List Mod) : Nat := (rdeps.filter fun rp => decide (rp.2 ∉ ex)).length

theorem exclClose_closed (rdeps : List (Mod × Mod)) : ∀ (n : Nat) (ex : List Mod), pendingDeps rdeps ex < n →
    closedUnder rdeps (exclClose rdeps n ex) := by
  intro n
  induction n with
  | zero => intro ex h; omega
  | succ n ih =>
    intro ex h
    rw [exclClose_succ]
    by_cases hnew : exclNew rdeps ex = []
    · have hc := (exclNew_nil_iff rdeps ex).mp hnew
      rw [hnew, List.append_nil, exclClose_of_closed rdeps n ex hc]
      exact hc
    · apply ih
      have hlt : pendingDeps rdeps (ex ++ exclNew rdeps ex) < pendingDeps rdeps ex := by
        unfold pendingDeps
        apply filter_length_lt
        · intro rp hrp
          have : rp.2 ∉ ex ++ exclNew rdeps ex := by simpa using hrp
          have : rp.2 ∉ ex := fun h => this (List.mem_append_left _ h)
          simpa using this
        · obtain ⟨p, hp⟩ := List.exists_mem_of_ne_nil _ hnew
          have hp' := hp
          unfold exclNew at hp'
          obtain ⟨rp, hrp, hrp2⟩ := List.mem_map.mp hp'
          have hf := List.mem_filter.mp hrp
          have hcond : rp.1 ∈ ex ∧ rp.2 ∉ ex := by simpa using hf.2
          refine ⟨rp, hf.1, by simpa using hcond.2, ?_⟩
          have : rp.2 ∈ ex ++ exclNew rdeps ex := by rw [hrp2]; exact List.mem_append_right _ hp
          simp [this]
      omega

/-- what `exclude` does to the state -/
theorem exclude_spec (st : DState) (m : Mod) :
    (exclude st m).added = st.added ∧ (exclude st m).rdeps = st.rdeps ∧
    (∀ x ∈ st.excluded, x ∈ (exclude st m).excluded) ∧ m ∈ (exclude st m).excluded ∧
    (closedUnder st.rdeps st.excluded → closedUnder (exclude st m).rdeps (exclude st m).excluded) := by
  unfold exclude
  split
  · rename_i h
    exact ⟨rfl, rfl, fun _ h => h, h, fun h => h⟩
  · refine ⟨rfl, rfl, ?_, ?_, ?_⟩
    · intro x hx
      exact exclClose_mono _ _ _ x (List.mem_cons_of_mem _ hx)
    · exact exclClose_mono _ _ _ m List.mem_cons_self
    · intro _
      apply exclClose_closed
      unfold pendingDeps
      exact Nat.lt_succ_of_le (List.length_filter_le _ _)



/-! ### the invariant of `add` (the exclusion closure of `mvs.Downgrade`) -/

/-- a finished module that is not excluded: it does not exceed the maxima, its requirements could be loaded, and every
one of them has been added and has recorded this module as a dependent -/
def GoodDone (rq : Reqs) (maxv : Sel) (st : DState) (m : Mod) : Prop :=
  wouldUpgrade maxv m = false ∧ ∃ l, rq.required m = some l ∧ ∀ r ∈ l, r ∈ st.added ∧ (r, m) ∈ st.rdeps

/-- a module whose `add` is still running -/
def GoodFrame (rq : Reqs) (maxv : Sel) (st : DState) (fr : AFrame) : Prop :=
  wouldUpgrade maxv fr.node = false ∧ ∃ l, rq.required fr.node = some l ∧
    ∀ r ∈ l, r ∈ fr.rest ∨ fr.pending = some r ∨ (r ∈ st.added ∧ (r, fr.node) ∈ st.rdeps)

structure DInv (rq : Reqs) (maxv : Sel) (stk : List AFrame) (st : DState) : Prop where
  closedR : closedUnder st.rdeps st.excluded
  nodup : (stk.map (·.node)).Nodup
  done : ∀ m ∈ st.added, m ∉ st.excluded → (∀ fr ∈ stk, fr.node ≠ m) → GoodDone rq maxv st m
  frames : ∀ fr ∈ stk, fr.node ∈ st.added ∧ (∀ r, fr.pending = some r → r ∈ st.added) ∧
    (fr.node ∈ st.excluded ∨ GoodFrame rq maxv st fr)

theorem GoodDone.mono {rq : Reqs} {maxv : Sel} {st st' : DState} {m : Mod} (h : GoodDone rq maxv st m)
    (ha : ∀ x ∈ st.added, x ∈ st'.added) (hr : ∀ x ∈ st.rdeps, x ∈ st'.rdeps) : GoodDone rq maxv st' m := by
  obtain ⟨h1, l, h2, h3⟩ := h
  exact ⟨h1, l, h2, fun r hr' => ⟨ha r (h3 r hr').1, hr _ (h3 r hr').2⟩⟩

theorem GoodFrame.mono {rq : Reqs} {maxv : Sel} {st st' : DState} {fr : AFrame} (h : GoodFrame rq maxv st fr)
    (ha : ∀ x ∈ st.added, x ∈ st'.added) (hr : ∀ x ∈ st.rdeps, x ∈ st'.rdeps) : GoodFrame rq maxv st' fr := by
  obtain ⟨h1, l, h2, h3⟩ := h
  refine ⟨h1, l, h2, fun r hr' => ?_⟩
  rcases h3 r hr' with h4 | h4 | h4
  · exact Or.inl h4
  · exact Or.inr (Or.inl h4)
  · exact Or.inr (Or.inr ⟨ha r h4.1, hr _ h4.2⟩)

/-- excluding the module of the top frame (or a module that is in no frame) and dropping that frame -/
theorem DInv.exclude_pop {rq : Reqs} {maxv : Sel} {stk : List AFrame} {st : DState} {fr : AFrame}
    (inv : DInv rq maxv (fr :: stk) st) : DInv rq maxv stk (exclude st fr.node) := by
  obtain ⟨ea, er, emono, emem, ecl⟩ := exclude_spec st fr.node
  have hnd := List.nodup_cons.mp (by have := inv.nodup; rwa [List.map_cons] at this)
  refine ⟨ecl inv.closedR, hnd.2, ?_, ?_⟩
  · intro m hm hne hns
    rw [ea] at hm
    have hmf : m ≠ fr.node := fun e => hne (e ▸ emem)
    have := inv.done m hm (fun h => hne (emono m h)) (by
      intro f hf
      rcases List.mem_cons.mp hf with rfl | h1
      · exact fun e => hmf e.symm
      · exact hns f h1)
    exact this.mono (by rw [ea]; exact fun _ h => h) (by rw [er]; exact fun _ h => h)
  · intro f hf
    obtain ⟨h1, h2, h3⟩ := inv.frames f (List.mem_cons_of_mem _ hf)
    refine ⟨by rw [ea]; exact h1, fun r hr => by rw [ea]; exact h2 r hr, ?_⟩
    rcases h3 with h3 | h3
    · exact Or.inl (emono _ h3)
    · exact Or.inr (h3.mono (by rw [ea]; exact fun _ h => h) (by rw [er]; exact fun _ h => h))

/-- a newly met module that is excluded on the spot (it exceeds a maximum, or its requirements cannot be loaded) -/
theorem DInv.add_excluded {rq : Reqs} {maxv : Sel} {stk : List AFrame} {st : DState} {r : Mod}
    (inv : DInv rq maxv stk st) (hr : r ∉ st.added) :
    DInv rq maxv stk (exclude { st with added := r :: st.added } r) := by
  obtain ⟨ea, er, emono, emem, ecl⟩ := exclude_spec { st with added := r :: st.added } r
  refine ⟨ecl inv.closedR, inv.nodup, ?_, ?_⟩
  · intro m hm hne hns
    rw [ea] at hm
    rcases List.mem_cons.mp hm with rfl | h1
    · exact absurd emem hne
    · have := inv.done m h1 (fun h => hne (emono m h)) hns
      exact this.mono (by rw [ea]; exact fun _ h => List.mem_cons_of_mem _ h) (by rw [er]; exact fun _ h => h)
  · intro f hf
    obtain ⟨h1, h2, h3⟩ := inv.frames f hf
    refine ⟨by rw [ea]; exact List.mem_cons_of_mem _ h1, fun x hx => by rw [ea]; exact List.mem_cons_of_mem _ (h2 x hx), ?_⟩
    rcases h3 with h3 | h3
    · exact Or.inl (emono _ h3)
    · exact Or.inr (h3.mono (by rw [ea]; exact fun _ h => List.mem_cons_of_mem _ h) (by rw [er]; exact fun _ h => h))

theorem addEnter_eq (rq : Reqs) (maxv : Sel) (st : DState) (r : Mod) :
    (r ∈ st.added ∧ addEnter rq maxv st r = (st, .none)) ∨
    (r ∉ st.added ∧ addEnter rq maxv st r = (exclude { st with added := r :: st.added } r, .none)) ∨
    (r ∉ st.added ∧ wouldUpgrade maxv r = false ∧ ∃ l, rq.required r = some l ∧
      addEnter rq maxv st r = ({ st with added := r :: st.added }, some ⟨r, .none, l⟩)) := by
  by_cases h : r ∈ st.added
  · exact Or.inl ⟨h, by simp [addEnter, h]⟩
  · right
    have key : addEnter rq maxv st r =
        (if wouldUpgrade maxv r = true then (exclude { st with added := r :: st.added } r, .none)
         else match rq.required r with
          | .none => (exclude { st with added := r :: st.added } r, .none)
          | some l => ({ st with added := r :: st.added }, some ⟨r, .none, l⟩)) := by
      unfold addEnter
      rw [if_neg h]
      rfl
    by_cases hb : wouldUpgrade maxv r = true
    · exact Or.inl ⟨h, by rw [key, if_pos hb]⟩
    · rw [if_neg hb] at key
      cases hr : rq.required r with
      | none => exact Or.inl ⟨h, by rw [key, hr]⟩
      | some l => exact Or.inr ⟨h, by simpa using hb, l, rfl, by rw [key, hr]⟩

/-- the machine preserves the invariant; nothing is ever removed from `added` -/
theorem addRun_inv (rq : Reqs) (maxv : Sel) : ∀ (f : Nat) (stk : List AFrame) (st st' : DState),
    DInv rq maxv stk st → addRun rq maxv f stk st = some st' →
      DInv rq maxv [] st' ∧ ∀ x ∈ st.added, x ∈ st'.added := by
  intro f
  induction f with
  | zero =>
    intro stk st st' inv h
    cases stk with
    | nil => simp only [addRun, Option.some.injEq] at h; subst h; exact ⟨inv, fun _ h => h⟩
    | cons fr stk => simp [addRun] at h
  | succ f ih =>
    intro stk st st' inv h
    cases stk with
    | nil => simp only [addRun, Option.some.injEq] at h; subst h; exact ⟨inv, fun _ h => h⟩
    | cons fr stk =>
      obtain ⟨m, pending, rest⟩ := fr
      cases pending with
      | some r =>
        simp only [addRun] at h
        split at h
        · -- the requirement is excluded: so is m
          obtain ⟨h1, h2⟩ := ih stk _ st' inv.exclude_pop h
          exact ⟨h1, fun x hx => h2 x (by rw [(exclude_spec st m).1]; exact hx)⟩
        · rename_i hrex
          have hnd := List.nodup_cons.mp (by have := inv.nodup; rwa [List.map_cons] at this)
          obtain ⟨hm1, hm2, hm3⟩ := inv.frames ⟨m, some r, rest⟩ List.mem_cons_self
          have inv' : DInv rq maxv (⟨m, .none, rest⟩ :: stk) { st with rdeps := st.rdeps ++ [(r, m)] } := by
            refine ⟨?_, by simpa using inv.nodup, ?_, ?_⟩
            · intro rp hrp hin
              rcases List.mem_append.mp hrp with h1 | h1
              · exact inv.closedR rp h1 hin
              · rw [List.mem_singleton.mp h1] at hin; exact absurd hin hrex
            · intro x hx hne hns
              exact (inv.done x hx hne (by
                intro fr hfr
                rcases List.mem_cons.mp hfr with rfl | h1
                · exact hns ⟨m, .none, rest⟩ List.mem_cons_self
                · exact hns fr (List.mem_cons_of_mem _ h1))).mono (fun _ h => h) (fun _ h => List.mem_append_left _ h)
            · intro fr hfr
              rcases List.mem_cons.mp hfr with rfl | h1
              · refine ⟨hm1, (fun x hx => nomatch hx), ?_⟩
                rcases hm3 with hm3 | ⟨g1, l, g2, g3⟩
                · exact Or.inl hm3
                · refine Or.inr ⟨g1, l, g2, fun x hx => ?_⟩
                  rcases g3 x hx with h4 | h4 | h4
                  · exact Or.inl h4
                  · simp only [Option.some.injEq] at h4
                    subst h4
                    exact Or.inr (Or.inr ⟨hm2 _ rfl, List.mem_append_right _ List.mem_cons_self⟩)
                  · exact Or.inr (Or.inr ⟨h4.1, List.mem_append_left _ h4.2⟩)
              · obtain ⟨k1, k2, k3⟩ := inv.frames fr (List.mem_cons_of_mem _ h1)
                refine ⟨k1, k2, ?_⟩
                rcases k3 with k3 | k3
                · exact Or.inl k3
                · exact Or.inr (k3.mono (fun _ h => h) (fun _ h => List.mem_append_left _ h))
          obtain ⟨k1, k2⟩ := ih _ _ st' inv' h
          exact ⟨k1, k2⟩
      | none =>
        cases rest with
        | nil =>
          simp only [addRun] at h
          have hnd := List.nodup_cons.mp (by have := inv.nodup; rwa [List.map_cons] at this)
          obtain ⟨hm1, _, hm3⟩ := inv.frames ⟨m, .none, []⟩ List.mem_cons_self
          have inv' : DInv rq maxv stk st := by
            refine ⟨inv.closedR, hnd.2, ?_, fun fr hfr => inv.frames fr (List.mem_cons_of_mem _ hfr)⟩
            intro x hx hne hns
            by_cases hxm : x = m
            · subst hxm
              rcases hm3 with hm3 | ⟨g1, l, g2, g3⟩
              · exact absurd hm3 hne
              · refine ⟨g1, l, g2, fun y hy => ?_⟩
                rcases g3 y hy with h4 | h4 | h4
                · cases h4
                · cases h4
                · exact h4
            · exact inv.done x hx hne (by
                intro fr hfr
                rcases List.mem_cons.mp hfr with rfl | h1
                · exact fun e => hxm e.symm
                · exact hns fr h1)
          exact ih stk st st' inv' h
        | cons r rs =>
          simp only [addRun] at h
          obtain ⟨hm1, _, hm3⟩ := inv.frames ⟨m, .none, r :: rs⟩ List.mem_cons_self
          -- the frame of m with r moved from `rest` to `pending`, over any state that only grew
          have topframe : ∀ st1 : DState, (∀ x ∈ st.added, x ∈ st1.added) → (∀ x ∈ st.rdeps, x ∈ st1.rdeps) →
              (∀ x ∈ st.excluded, x ∈ st1.excluded) → r ∈ st1.added →
              m ∈ st1.added ∧ (∀ x, (some r : Option Mod) = some x → x ∈ st1.added) ∧
                (m ∈ st1.excluded ∨ GoodFrame rq maxv st1 ⟨m, some r, rs⟩) := by
            intro st1 ha hr he hr1
            refine ⟨ha m hm1, (fun x hx => by cases hx; exact hr1), ?_⟩
            rcases hm3 with hm3 | ⟨g1, l, g2, g3⟩
            · exact Or.inl (he m hm3)
            · refine Or.inr ⟨g1, l, g2, fun y hy => ?_⟩
              rcases g3 y hy with h4 | h4 | h4
              · rcases List.mem_cons.mp h4 with rfl | h5
                · exact Or.inr (Or.inl rfl)
                · exact Or.inl h5
              · cases h4
              · exact Or.inr (Or.inr ⟨ha y h4.1, hr _ h4.2⟩)
          rcases addEnter_eq rq maxv st r with ⟨hradd, heq⟩ | ⟨hradd, heq⟩ | ⟨hradd, hbad', l, hl, heq⟩
          · rw [heq] at h
            dsimp only at h
            have inv' : DInv rq maxv (⟨m, some r, rs⟩ :: stk) st := by
              refine ⟨inv.closedR, by simpa using inv.nodup, ?_, ?_⟩
              · intro x hx hne hns
                exact inv.done x hx hne (by
                  intro fr hfr
                  rcases List.mem_cons.mp hfr with rfl | h1
                  · exact hns ⟨m, some r, rs⟩ List.mem_cons_self
                  · exact hns fr (List.mem_cons_of_mem _ h1))
              · intro fr hfr
                rcases List.mem_cons.mp hfr with rfl | h1
                · exact topframe st (fun _ h => h) (fun _ h => h) (fun _ h => h) hradd
                · exact inv.frames fr (List.mem_cons_of_mem _ h1)
            exact ih _ _ st' inv' h
          · rw [heq] at h
            dsimp only at h
            obtain ⟨ea, er, emono, emem, _⟩ := exclude_spec { st with added := r :: st.added } r
            have base := inv.add_excluded hradd
            have inv' : DInv rq maxv (⟨m, some r, rs⟩ :: stk) (exclude { st with added := r :: st.added } r) := by
              refine ⟨base.closedR, by simpa using inv.nodup, ?_, ?_⟩
              · intro x hx hne hns
                exact base.done x hx hne (by
                  intro fr hfr
                  rcases List.mem_cons.mp hfr with rfl | h1
                  · exact hns ⟨m, some r, rs⟩ List.mem_cons_self
                  · exact hns fr (List.mem_cons_of_mem _ h1))
              · intro fr hfr
                rcases List.mem_cons.mp hfr with rfl | h1
                · exact topframe _ (by rw [ea]; exact fun _ h => List.mem_cons_of_mem _ h) (by rw [er]; exact fun _ h => h)
                    (fun x hx => emono x hx) (by rw [ea]; exact List.mem_cons_self)
                · exact base.frames fr (List.mem_cons_of_mem _ h1)
            obtain ⟨k1, k2⟩ := ih _ _ st' inv' h
            exact ⟨k1, fun x hx => k2 x (by rw [ea]; exact List.mem_cons_of_mem _ hx)⟩
          · rw [heq] at h
            dsimp only at h
            have inv' : DInv rq maxv (⟨r, .none, l⟩ :: ⟨m, some r, rs⟩ :: stk) { st with added := r :: st.added } := by
              refine ⟨inv.closedR, ?_, ?_, ?_⟩
              · simp only [List.map_cons, List.nodup_cons]
                refine ⟨?_, by simpa using inv.nodup⟩
                intro hin
                rcases List.mem_cons.mp hin with h1 | h1
                · exact hradd (h1 ▸ hm1)
                · obtain ⟨fr, hfr, hfe⟩ := List.mem_map.mp h1
                  exact hradd (hfe ▸ (inv.frames fr (List.mem_cons_of_mem _ hfr)).1)
              · intro x hx hne hns
                rcases List.mem_cons.mp hx with rfl | h1
                · exact absurd rfl (hns ⟨x, .none, l⟩ List.mem_cons_self)
                · exact (inv.done x h1 hne (by
                    intro fr hfr
                    rcases List.mem_cons.mp hfr with rfl | h2
                    · exact hns ⟨m, some r, rs⟩ (List.mem_cons_of_mem _ List.mem_cons_self)
                    · exact hns fr (List.mem_cons_of_mem _ (List.mem_cons_of_mem _ h2)))).mono
                    (fun _ h => List.mem_cons_of_mem _ h) (fun _ h => h)
              · intro fr hfr
                rcases List.mem_cons.mp hfr with rfl | h1
                · exact ⟨List.mem_cons_self, (fun x hx => nomatch hx), Or.inr ⟨hbad', l, hl, fun y hy => Or.inl hy⟩⟩
                · rcases List.mem_cons.mp h1 with rfl | h2
                  · exact topframe _ (fun _ h => List.mem_cons_of_mem _ h) (fun _ h => h) (fun _ h => h) List.mem_cons_self
                  · obtain ⟨k1, k2, k3⟩ := inv.frames fr (List.mem_cons_of_mem _ h2)
                    refine ⟨List.mem_cons_of_mem _ k1, fun x hx => List.mem_cons_of_mem _ (k2 x hx), ?_⟩
                    rcases k3 with k3 | k3
                    · exact Or.inl k3
                    · exact Or.inr (k3.mono (fun _ h => List.mem_cons_of_mem _ h) (fun _ h => h))
            obtain ⟨k1, k2⟩ := ih _ _ st' inv' h
            exact ⟨k1, fun x hx => k2 x (List.mem_cons_of_mem _ hx)⟩


theorem dinv_empty (rq : Reqs) (maxv : Sel) : DInv rq maxv [] ⟨[], [], []⟩ :=
  ⟨(fun _ h => nomatch h), List.nodup_nil, (fun _ h => nomatch h), (fun _ h => nomatch h)⟩

/-- a complete top-level `add`: the invariant holds again, the module has been added, nothing was forgotten -/
theorem add_inv {fuel : Nat} {rq : Reqs} {maxv : Sel} {st st' : DState} {m : Mod}
    (inv : DInv rq maxv [] st) (h : add fuel rq maxv st m = some st') :
    DInv rq maxv [] st' ∧ m ∈ st'.added ∧ ∀ x ∈ st.added, x ∈ st'.added := by
  unfold add at h
  rcases addEnter_eq rq maxv st m with ⟨hadd, heq⟩ | ⟨hadd, heq⟩ | ⟨hadd, hbad, l, hl, heq⟩
  · rw [heq] at h; dsimp only at h; cases h
    exact ⟨inv, hadd, fun _ h => h⟩
  · rw [heq] at h; dsimp only at h; cases h
    have ea := (exclude_spec { st with added := m :: st.added } m).1
    exact ⟨inv.add_excluded hadd, by rw [ea]; exact List.mem_cons_self, fun x hx => by rw [ea]; exact List.mem_cons_of_mem _ hx⟩
  · rw [heq] at h; dsimp only at h
    have inv' : DInv rq maxv [⟨m, .none, l⟩] { st with added := m :: st.added } := by
      refine ⟨inv.closedR, by simp, ?_, ?_⟩
      · intro x hx hne hns
        rcases List.mem_cons.mp hx with rfl | h1
        · exact absurd rfl (hns ⟨x, .none, l⟩ List.mem_cons_self)
        · exact (inv.done x h1 hne (fun _ h => nomatch h)).mono (fun _ h => List.mem_cons_of_mem _ h) (fun _ h => h)
      · intro fr hfr
        rw [List.mem_singleton.mp hfr]
        exact ⟨List.mem_cons_self, (fun x hx => nomatch hx), Or.inr ⟨hbad, l, hl, fun y hy => Or.inl hy⟩⟩
    obtain ⟨k1, k2⟩ := addRun_inv rq maxv fuel _ _ st' inv' h
    exact ⟨k1, k2 m List.mem_cons_self, fun x hx => k2 x (List.mem_cons_of_mem _ hx)⟩

/-- reachable through requirement lists -/
inductive PReach (rq : Reqs) (s : Mod) : Mod → Prop where
  | refl : PReach rq s s
  | step (a b : Mod) (l : List Mod) : PReach rq s a → rq.required a = some l → b ∈ l → PReach rq s b

/-- nothing reachable from the module exceeds the maxima of the downgrade -/
def SafeMod (rq : Reqs) (maxv : Sel) (m : Mod) : Prop := ∀ x, PReach rq m x → wouldUpgrade maxv x = false

theorem SafeMod.step {rq : Reqs} {maxv : Sel} {a b : Mod} {l : List Mod} (h : SafeMod rq maxv a)
    (hl : rq.required a = some l) (hb : b ∈ l) : SafeMod rq maxv b := by
  intro x hx
  apply h
  clear h
  induction hx with
  | refl => exact PReach.step a b l PReach.refl hl hb
  | step c d l' _ hl' hd ih => exact PReach.step c d l' ih hl' hd

/-- the exclusion closure: between two top-level `add`s, a module that has been added and is not excluded reaches only
modules that have been added, are not excluded and do not exceed the maxima -/
theorem safe_of_not_excluded {rq : Reqs} {maxv : Sel} {st : DState} (inv : DInv rq maxv [] st) {m : Mod}
    (hm : m ∈ st.added) (hne : m ∉ st.excluded) : SafeMod rq maxv m := by
  have key : ∀ x, PReach rq m x → x ∈ st.added ∧ x ∉ st.excluded := by
    intro x hx
    induction hx with
    | refl => exact ⟨hm, hne⟩
    | step a b l _ hl hb ih =>
      obtain ⟨_, l', hl', hgood⟩ := inv.done a ih.1 ih.2 (fun _ h => nomatch h)
      rw [hl] at hl'; cases hl'
      refine ⟨(hgood b hb).1, fun hex => ih.2 (inv.closedR _ (hgood b hb).2 hex)⟩
  intro x hx
  exact (inv.done x (key x hx).1 (key x hx).2 (fun _ h => nomatch h)).1

theorem stepDown_safe (fuel : Nat) (rq : Reqs) (prev : Mod → Option Mod) (maxv : Sel) :
    ∀ (n : Nat) (st st' : DState) (r : Mod) (res : Option Mod), DInv rq maxv [] st → r ∈ st.added →
      stepDown fuel rq prev maxv n st r = .ok (st', res) →
      DInv rq maxv [] st' ∧ ∀ r', res = some r' → SafeMod rq maxv r' := by
  intro n
  induction n with
  | zero => intro st st' r res _ _ h; simp [stepDown] at h
  | succ n ih =>
    intro st st' r res inv hr h
    simp only [stepDown] at h
    split at h
    · rename_i hne
      simp only [Except.ok.injEq, Prod.mk.injEq] at h
      obtain ⟨rfl, rfl⟩ := h
      exact ⟨inv, fun r' hr' => by cases hr'; exact safe_of_not_excluded inv hr hne⟩
    · cases hp : prev r with
      | none => simp [hp] at h
      | some p =>
        simp only [hp] at h
        generalize (if vmax ((maxv.lookup r.path).getD .root) r.ver ≠ (maxv.lookup r.path).getD .root ∧
            vmax p.ver ((maxv.lookup r.path).getD .root) ≠ p.ver then (⟨p.path, (maxv.lookup r.path).getD .root⟩ : Mod) else p) = p' at h
        split at h
        · simp only [Except.ok.injEq, Prod.mk.injEq] at h
          obtain ⟨rfl, rfl⟩ := h
          exact ⟨inv, fun r' hr' => nomatch hr'⟩
        · split at h
          · cases h
          · rename_i st1 hadd
            obtain ⟨inv1, hp1, _⟩ := add_inv inv hadd
            exact ih st1 st' p' res inv1 hp1 h

theorem downLoop_safe (fuel : Nat) (rq : Reqs) (prev : Mod → Option Mod) (maxv : Sel) (target : Mod) :
    ∀ (list : List Mod) (st : DState) (acc out : List Mod), DInv rq maxv [] st →
      (∀ x ∈ acc, x = target ∨ SafeMod rq maxv x) → downLoop fuel rq prev maxv list st acc = .ok out →
      ∀ x ∈ out, x = target ∨ SafeMod rq maxv x := by
  intro list
  induction list with
  | nil => intro st acc out _ hacc h; simp only [downLoop, Except.ok.injEq] at h; subst h; exact hacc
  | cons r rest ih =>
    intro st acc out inv hacc h
    simp only [downLoop] at h
    split at h
    · cases h
    · rename_i st1 hadd
      obtain ⟨inv1, hr1, _⟩ := add_inv inv hadd
      split at h
      · cases h
      · rename_i st2 r' hsd
        obtain ⟨inv2, hsafe⟩ := stepDown_safe fuel rq prev maxv fuel st1 st2 r (some r') inv1 hr1 hsd
        apply ih st2 _ out inv2 _ h
        intro x hx
        rcases List.mem_append.mp hx with h1 | h1
        · exact hacc x h1
        · rw [List.mem_singleton.mp h1]; exact Or.inr (hsafe r' rfl)
      · rename_i st2 hsd
        obtain ⟨inv2, _⟩ := stepDown_safe fuel rq prev maxv fuel st1 st2 r .none inv1 hr1 hsd
        exact ih st2 acc out inv2 hacc h

/-- a build list computed from overridden root requirements that are all safe contains, besides the target, only
modules that do not exceed the maxima -/
theorem reach_override_safe {rq : Reqs} {maxv : Sel} {target : Mod} {L : List Mod}
    (hL : ∀ s ∈ L, s = target ∨ SafeMod rq maxv s) {x : Mod}
    (h : Reach (override target L rq) .none target x) : x = target ∨ SafeMod rq maxv x := by
  induction h with
  | root => exact Or.inl rfl
  | step a b _ hb ih =>
    rw [edges_plain] at hb
    split at hb
    · by_cases hat : a = target
      · subst hat
        simp only [override, ↓reduceIte, Option.getD_some] at hb
        exact hL b hb
      · simp only [override, hat, ↓reduceIte] at hb
        rcases ih with ih | ih
        · exact absurd ih hat
        · cases hr : rq.required a with
          | none => simp [hr] at hb
          | some l =>
            simp only [hr, Option.getD_some] at hb
            exact Or.inr (ih.step hr hb)
    · cases hb

/-- the map `max` of `mvs.Downgrade` after the downgrade has been entered -/
def downMax (list : List Mod) (d : Mod) : Sel :=
  match (listMap list).lookup d.path with
  | some v => if vmax v d.ver ≠ d.ver then setSel (listMap list) d.path d.ver else listMap list
  | .none => setSel (listMap list) d.path d.ver

theorem downMax_lookup (list : List Mod) (d : Mod) : ∃ u, (downMax list d).lookup d.path = some u ∧ Ver.le u d.ver := by
  unfold downMax
  cases hl : (listMap list).lookup d.path with
  | none => exact ⟨d.ver, by simp [lookup_setSel], Ver.le_refl _⟩
  | some v =>
    dsimp only
    split
    · exact ⟨d.ver, by simp [lookup_setSel], Ver.le_refl _⟩
    · rename_i hv
      refine ⟨v, hl, ?_⟩
      have : vmax v d.ver = d.ver := by simpa using hv
      rw [← this]; exact le_vmax_left _ _

/-- C11, the heart of "at or below": whatever `mvs.Downgrade` returns has the downgraded project at or below the requested
version (if it has it at all) — for every requirement graph and every `Previous` -/
theorem mvsDowngrade_at_or_below {fuel : Nat} {rq : Reqs} {prev : Mod → Option Mod} {target d : Mod} {bld : List Mod}
    (h : mvsDowngrade fuel rq prev target d = .ok bld) (hpath : d.path ≠ target.path) :
    ∀ w, (⟨d.path, w⟩ : Mod) ∈ bld → Ver.le w d.ver := by
  unfold mvsDowngrade at h
  split at h
  · cases h
  · rename_i full hfull
    dsimp only at h
    split at h
    · cases h
    · rename_i downgraded hdown
      split at h
      · cases h
      · rename_i actual hactual
        have hdown' : downLoop fuel rq prev (downMax (full.drop 1) d) (full.drop 1) ⟨[], [], []⟩ [target] = .ok downgraded := hdown
        obtain ⟨u, hu, hule⟩ := downMax_lookup (full.drop 1) d
        have hdg := downLoop_safe fuel rq prev (downMax (full.drop 1) d) target (full.drop 1) ⟨[], [], []⟩ [target] downgraded
          (dinv_empty rq _) (fun x hx => Or.inl (List.mem_singleton.mp hx)) hdown'
        -- what is read back from `actual`
        have hdg2 : ∀ s ∈ (full.drop 1).filterMap (fun m => ((listMap actual).lookup m.path).map fun v => (⟨m.path, v⟩ : Mod)),
            s = target ∨ SafeMod rq (downMax (full.drop 1) d) s := by
          intro s hs
          obtain ⟨m, _, hms⟩ := List.mem_filterMap.mp hs
          cases hl : (listMap actual).lookup m.path with
          | none => simp [hl] at hms
          | some v =>
            simp only [hl, Option.map_some, Option.some.injEq] at hms
            subst hms
            unfold buildList at hactual
            have hin := (lookup_listMap_some actual (buildListWith_nodup hactual) m.path v).mp hl
            exact reach_override_safe hdg ((buildListWith_exact hactual m.path v).mp hin).2.1
        intro w hw
        unfold buildList at h
        have hr := ((buildListWith_exact h d.path w).mp hw).2.1
        rcases reach_override_safe hdg2 hr with h1 | h1
        · exfalso
          apply hpath
          rw [← h1]
        · have hbad := h1 _ PReach.refl
          simp only [wouldUpgrade, hu] at hbad
          have hvm : vmax w u = u := by simpa using hbad
          exact Ver.le_trans (by rw [← hvm]; exact le_vmax_left _ _) hule

end Dawn.Mvs

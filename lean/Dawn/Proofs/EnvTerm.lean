import Dawn.Model.Env
/-!
Termination of the repaired traversal (`Cfg.fixed = true`) on every finite heap — C08_terminates.

Measure of a call `encVal … st v`: `U st * (N + 1) + rank v`, where `N` is the heap size, `U st` counts the
addresses below `N` that are not memoised plus those not yet seen by the pickler, and `rank (ref a) = a + 1`.
Entering a list / dict / set memoises it first, entering a function or function code adds it to `seen` first
(both lower `U`); a function or code that is met again while in progress is answered with the marker (no
recursion); a tuple's elements have smaller addresses (`TuplesOrdered`: a tuple's elements exist before the
tuple does), so the rank drops while `U` cannot grow.
-/
namespace Dawn.Env

/-- a tuple's elements exist before the tuple: every address in a tuple is below the tuple's own -/
def TuplesOrdered (g : Heap) : Prop :=
  ∀ a xs c, g[a]? = some (.tuple xs) → Val.ref c ∈ xs → c < a

/-- executable form of `TuplesOrdered` -/
def tuplesOrderedAt (a : Nat) : Obj → Bool
  | .tuple xs => xs.all fun v => match v with | .ref c => decide (c < a) | _ => true
  | _ => true

def tuplesOrderedFrom : Nat → Heap → Bool
  | _, [] => true
  | a, o :: rest => tuplesOrderedAt a o && tuplesOrderedFrom (a + 1) rest

def tuplesOrdered (g : Heap) : Bool := tuplesOrderedFrom 0 g

theorem tuplesOrderedFrom_spec (g : Heap) (k : Nat) (h : tuplesOrderedFrom k g = true) :
    ∀ a xs c, g[a]? = some (.tuple xs) → Val.ref c ∈ xs → c < a + k := by
  induction g generalizing k with
  | nil => intro a xs c h1; simp at h1
  | cons o rest ih =>
    simp only [tuplesOrderedFrom, Bool.and_eq_true] at h
    intro a xs c h1 h2
    cases a with
    | zero =>
      simp at h1
      subst h1
      have := h.1
      simp only [tuplesOrderedAt, List.all_eq_true] at this
      have := this _ h2
      simp at this
      omega
    | succ a =>
      simp at h1
      have := ih (k + 1) h.2 a xs c h1 h2
      omega

theorem tuplesOrdered_spec (g : Heap) (h : tuplesOrdered g = true) : TuplesOrdered g := by
  intro a xs c h1 h2
  have := tuplesOrderedFrom_spec g 0 h a xs c h1 h2
  omega

/-! ### the state only grows -/

def EncSt.le (s t : EncSt) : Prop :=
  (∀ a, (lookup s.memo a).isSome → (lookup t.memo a).isSome) ∧ (∀ a, a ∈ s.seen → a ∈ t.seen)

theorem EncSt.le_refl (s : EncSt) : s.le s := ⟨fun _ h => h, fun _ h => h⟩

theorem EncSt.le_trans {s t u : EncSt} (h1 : s.le t) (h2 : t.le u) : s.le u :=
  ⟨fun a h => h2.1 a (h1.1 a h), fun a h => h2.2 a (h1.2 a h)⟩

theorem lookup_cons (m : List (Nat × Nat)) (k v a : Nat) :
    lookup ((k, v) :: m) a = if k = a then some v else lookup m a := rfl

theorem EncSt.le_memoize (cfg : Cfg) (s : EncSt) (a : Nat) : s.le (s.memoize cfg a) := by
  refine ⟨fun b h => ?_, fun _ h => h⟩
  simp only [EncSt.memoize, lookup_cons]
  split <;> simp_all

theorem memoize_lookup (cfg : Cfg) (s : EncSt) (a : Nat) : (lookup (s.memoize cfg a).memo a).isSome := by
  simp [EncSt.memoize, lookup_cons]

theorem EncSt.le_seen (s : EncSt) (a : Nat) : s.le { s with seen := s.seen ++ [a] } :=
  ⟨fun _ h => h, fun _ h => List.mem_append_left _ h⟩

/-! ### the measure -/

def unmemo (g : Heap) (st : EncSt) : Nat := (List.range g.length).countP fun a => (lookup st.memo a).isNone
def unseen (g : Heap) (st : EncSt) : Nat := (List.range g.length).countP fun a => decide (a ∉ st.seen)
def U (g : Heap) (st : EncSt) : Nat := unmemo g st + unseen g st

def rank (g : Heap) : Val → Nat
  | .atom _ => 0
  | .ref a => if a < g.length then a + 1 else 0

def mu (g : Heap) (st : EncSt) (v : Val) : Nat := U g st * (g.length + 1) + rank g v

theorem countP_strict {α} (p q : α → Bool) (l : List α) (a : α) (ha : a ∈ l)
    (hpq : ∀ x, q x = true → p x = true) (hp : p a = true) (hq : q a = false) :
    l.countP q + 1 ≤ l.countP p := by
  induction l with
  | nil => cases ha
  | cons x xs ih =>
    have hmono : xs.countP q ≤ xs.countP p := List.countP_mono_left (fun y _ => hpq y)
    simp only [List.countP_cons]
    rcases List.mem_cons.mp ha with rfl | hin
    · simp [hp, hq]; omega
    · have := ih hin
      by_cases hqx : q x = true
      · simp [hqx, hpq x hqx]; omega
      · simp [hqx]; omega

theorem unmemo_mono (g : Heap) {s t : EncSt} (h : s.le t) : unmemo g t ≤ unmemo g s := by
  apply List.countP_mono_left
  intro a _ ha
  cases hs : lookup s.memo a with
  | none => rfl
  | some v =>
    have := h.1 a (by simp [hs])
    cases ht : lookup t.memo a <;> simp_all

theorem unseen_mono (g : Heap) {s t : EncSt} (h : s.le t) : unseen g t ≤ unseen g s := by
  apply List.countP_mono_left
  intro a _ ha
  simp only [decide_eq_true_eq] at ha ⊢
  exact fun hs => ha (h.2 a hs)

theorem U_mono (g : Heap) {s t : EncSt} (h : s.le t) : U g t ≤ U g s := by
  have := unmemo_mono g h
  have := unseen_mono g h
  simp only [U]; omega

theorem mu_mono (g : Heap) {s t : EncSt} (h : s.le t) (v : Val) : mu g t v ≤ mu g s v := by
  have := Nat.mul_le_mul_right (g.length + 1) (U_mono g h)
  simp only [mu]; omega

theorem U_memoize (cfg : Cfg) (g : Heap) (st : EncSt) (a : Nat) (ha : a < g.length) (hm : lookup st.memo a = none) :
    U g (st.memoize cfg a) + 1 ≤ U g st := by
  have h1 : unmemo g (st.memoize cfg a) + 1 ≤ unmemo g st := by
    apply countP_strict _ _ _ a (List.mem_range.mpr ha)
    · intro x hx
      cases hs : lookup st.memo x with
      | none => rfl
      | some v =>
        have := (EncSt.le_memoize cfg st a).1 x (by simp [hs])
        cases ht : lookup (st.memoize cfg a).memo x <;> simp_all
    · simp [hm]
    · have := memoize_lookup cfg st a
      cases h : lookup (st.memoize cfg a).memo a <;> simp_all
  have h2 := unseen_mono g (EncSt.le_memoize cfg st a)
  simp only [U]; omega

theorem U_seen (g : Heap) (st : EncSt) (a : Nat) (ha : a < g.length) (hs : a ∉ st.seen) :
    U g { st with seen := st.seen ++ [a] } + 1 ≤ U g st := by
  have h1 : unseen g { st with seen := st.seen ++ [a] } + 1 ≤ unseen g st := by
    apply countP_strict _ _ _ a (List.mem_range.mpr ha)
    · intro x hx
      simp only [decide_eq_true_eq, List.mem_append, List.mem_singleton, not_or] at hx ⊢
      exact hx.1
    · simp [hs]
    · simp
  have h2 := unmemo_mono g (EncSt.le_seen st a)
  simp only [U]; omega

theorem indexOf_none (xs : List Nat) (a : Nat) : indexOf xs a = none ↔ a ∉ xs := by
  induction xs with
  | nil => simp [indexOf]
  | cons x rest ih =>
    simp only [indexOf, List.mem_cons]
    by_cases h : x = a
    · simp [h]
    · simp only [h, ↓reduceIte, Option.map_eq_none_iff, ih]
      constructor
      · intro hn hor
        rcases hor with rfl | hin
        · exact h rfl
        · exact hn hin
      · intro hn hin
        exact hn (Or.inr hin)

/-! ### results that are not "out of fuel" and only grow the state -/

def Good (st : EncSt) (r : Res) : Prop :=
  r ≠ .error .outOfFuel ∧ ∀ st' ops, r = .ok (st', ops) → st.le st'

theorem Good.mono {s t : EncSt} {r : Res} (h : s.le t) (hg : Good t r) : Good s r :=
  ⟨hg.1, fun st' ops e => EncSt.le_trans h (hg.2 st' ops e)⟩

/-- a step function that is good whenever the measure of its argument is at most `B` -/
def Spec (g : Heap) (f : EncSt → Val → Res) (B : Nat) : Prop :=
  ∀ st v, mu g st v ≤ B → Good st (f st v)

theorem encSeq_good (g : Heap) (f : EncSt → Val → Res) (B : Nat) (hf : Spec g f B) :
    ∀ (xs : List Val) (st : EncSt), (∀ x ∈ xs, mu g st x ≤ B) → Good st (encSeq f st xs) := by
  intro xs
  induction xs with
  | nil => intro st _; exact ⟨by simp [encSeq], fun st' ops e => by simp [encSeq] at e; rw [← e.1]; exact EncSt.le_refl _⟩
  | cons x xs ih =>
    intro st hB
    have hx := hf st x (hB x (List.mem_cons_self ..))
    simp only [encSeq]
    cases hfx : f st x with
    | error e => exact ⟨by intro h; simp at h; rw [hfx] at hx; exact hx.1 (by rw [h]), by simp⟩
    | ok p =>
      obtain ⟨st1, ops1⟩ := p
      have hle : st.le st1 := hx.2 st1 ops1 hfx
      have hrest := ih st1 (fun y hy => Nat.le_trans (mu_mono g hle y) (hB y (List.mem_cons_of_mem _ hy)))
      simp only []
      cases hr : encSeq f st1 xs with
      | error e => exact ⟨by intro h; simp at h; rw [hr] at hrest; exact hrest.1 (by rw [h]), by simp⟩
      | ok q =>
        obtain ⟨st2, ops2⟩ := q
        refine ⟨by simp, ?_⟩
        intro st' ops e
        simp at e
        rw [← e.1]
        exact EncSt.le_trans hle (hrest.2 st2 ops2 hr)

theorem encBatches_good (cfg : Cfg) (g : Heap) (f : EncSt → Val → Res) (B : Nat) (hf : Spec g f B) (self : Nat) (close : Op) :
    ∀ (bs : List (List Val)) (first : Bool) (st : EncSt), (∀ b ∈ bs, ∀ x ∈ b, mu g st x ≤ B) →
      Good st (encBatches cfg f self close first st bs) := by
  intro bs
  induction bs with
  | nil => intro first st _; exact ⟨by simp [encBatches], fun st' ops e => by simp [encBatches] at e; rw [← e.1]; exact EncSt.le_refl _⟩
  | cons b bs ih =>
    intro first st hB
    have hb := encSeq_good g f B hf b st (hB b (List.mem_cons_self ..))
    simp only [encBatches]
    cases hfb : encSeq f st b with
    | error e => exact ⟨by intro h; simp at h; rw [hfb] at hb; exact hb.1 (by rw [h]), by simp⟩
    | ok p =>
      obtain ⟨st1, ops1⟩ := p
      have hle : st.le st1 := hb.2 st1 ops1 hfb
      have hrest := ih false st1 (fun b' hb' y hy => Nat.le_trans (mu_mono g hle y) (hB b' (List.mem_cons_of_mem _ hb') y hy))
      simp only []
      cases hr : encBatches cfg f self close false st1 bs with
      | error e => exact ⟨by intro h; simp at h; rw [hr] at hrest; exact hrest.1 (by rw [h]), by simp⟩
      | ok q =>
        obtain ⟨st2, ops2⟩ := q
        refine ⟨by simp, ?_⟩
        intro st' ops e
        simp at e
        rw [← e.1]
        exact EncSt.le_trans hle (hrest.2 st2 ops2 hr)

theorem mem_chunks {α} (n : Nat) (xs : List α) : ∀ b ∈ chunks n xs, ∀ x ∈ b, x ∈ xs := by
  induction h : xs.length using Nat.strongRecOn generalizing xs with
  | _ len ih =>
    intro b hb x hx
    unfold chunks at hb
    split at hb
    · cases hb
    · rename_i hne
      rcases List.mem_cons.mp hb with rfl | hb'
      · exact List.mem_of_mem_take hx
      · have h1 : n ≠ 0 := fun e => hne (Or.inl e)
        have h2 : xs ≠ [] := fun e => hne (Or.inr e)
        have hpos : 0 < xs.length := List.length_pos_iff.mpr h2
        have hlt : (xs.drop n).length < len := by simp [List.length_drop]; omega
        exact List.mem_of_mem_drop (ih _ hlt (xs.drop n) rfl b hb' x hx)

theorem mem_flattenKvs (kvs : List (Val × Val)) (x : Val) (h : x ∈ flattenKvs kvs) :
    ∃ p ∈ kvs, x = p.1 ∨ x = p.2 := by
  induction kvs with
  | nil => simp [flattenKvs] at h
  | cons p rest ih =>
    obtain ⟨k, v⟩ := p
    simp only [flattenKvs, List.mem_cons] at h
    rcases h with rfl | rfl | h
    · exact ⟨(x, v), List.mem_cons_self .., Or.inl rfl⟩
    · exact ⟨(k, x), List.mem_cons_self .., Or.inr rfl⟩
    · obtain ⟨p, hp, hx⟩ := ih h
      exact ⟨p, List.mem_cons_of_mem _ hp, hx⟩

end Dawn.Env

namespace Dawn.Env

theorem rank_le (g : Heap) (v : Val) : rank g v ≤ g.length := by
  cases v with
  | atom a => simp [rank]
  | ref a => simp only [rank]; split <;> omega

theorem arith_enter (U' U N a fuel r : Nat) (h1 : U' + 1 ≤ U) (h2 : U * (N + 1) + a + 1 ≤ fuel) (hr : r ≤ N) :
    U' * (N + 1) + r ≤ fuel - 1 := by
  have h3 : (U' + 1) * (N + 1) ≤ U * (N + 1) := Nat.mul_le_mul_right _ h1
  rw [Nat.succ_mul] at h3
  omega

theorem Good_ok_le {st st' : EncSt} {ops : List Op} (h : st.le st') : Good st (.ok (st', ops)) :=
  ⟨by simp, fun s o e => by simp at e; rw [← e.1]; exact h⟩

theorem Good_err {st : EncSt} {e : Err} (h : e ≠ .outOfFuel) : Good st (.error e) :=
  ⟨by intro h'; simp at h'; exact h h', by simp⟩

theorem encVal_good (cfg : Cfg) (hfix : cfg.fixed = true) (g : Heap) (hto : TuplesOrdered g) :
    ∀ fuel st v, mu g st v < fuel → Good st (encVal cfg g fuel st v) := by
  intro fuel
  induction fuel with
  | zero => intro st v h; omega
  | succ fuel ih =>
    intro st v hmu
    cases v with
    | atom a => simp only [encVal]; exact Good_ok_le (EncSt.le_refl _)
    | ref a =>
      simp only [encVal]
      cases hl : lookup st.memo a with
      | some id => exact Good_ok_le (EncSt.le_refl _)
      | none =>
        simp only []
        cases hg : g[a]? with
        | none => exact Good_err (by decide)
        | some o =>
          have halt : a < g.length := by
            rcases List.getElem?_eq_some_iff.mp hg with ⟨h, _⟩; exact h
          have hmu' : U g st * (g.length + 1) + a + 1 ≤ fuel := by
            simp only [mu, rank, halt, ↓reduceIte] at hmu; omega
          have hspec : Spec g (encVal cfg g fuel) (fuel - 1) := by
            intro st1 v1 h1; exact ih st1 v1 (by omega)
          -- the budget of the children once the node itself has lowered `U`
          have enter : ∀ st1 : EncSt, U g st1 + 1 ≤ U g st → ∀ x, mu g st1 x ≤ fuel - 1 := by
            intro st1 h1 x
            exact arith_enter _ _ _ _ _ _ h1 hmu' (rank_le g x)
          cases o with
          | tuple xs =>
            simp only []
            have hxs : ∀ x ∈ xs, mu g st x ≤ fuel - 1 := by
              intro x hx
              cases x with
              | atom b => simp only [mu, rank]; omega
              | ref c =>
                have := hto a xs c hg hx
                simp only [mu, rank]; split <;> omega
            have := encSeq_good g _ _ hspec xs st hxs
            split
            · next e heq => rw [heq] at this; exact this
            · next s o heq => rw [heq] at this; exact Good_ok_le (this.2 _ _ rfl)
          | set xs =>
            simp only []
            have hle := EncSt.le_memoize cfg st a
            have hU := U_memoize cfg g st a halt hl
            have := encBatches_good cfg g _ _ hspec a .additems (chunks cfg.batch xs) true (st.memoize cfg a)
              (fun b _ x _ => enter _ hU x)
            refine Good.mono hle ?_
            split
            · next e heq => rw [heq] at this; exact this
            · next s o heq => rw [heq] at this; exact Good_ok_le (this.2 _ _ rfl)
          | dict kvs =>
            simp only []
            have hle := EncSt.le_memoize cfg st a
            have hU := U_memoize cfg g st a halt hl
            have := encBatches_good cfg g _ _ hspec a .setitems ((chunks cfg.batch kvs).map flattenKvs) true (st.memoize cfg a)
              (fun b _ x _ => enter _ hU x)
            refine Good.mono hle ?_
            split
            · next e heq => rw [heq] at this; exact this
            · next s o heq => rw [heq] at this; exact Good_ok_le (this.2 _ _ rfl)
          | list xs =>
            simp only []
            have hle := EncSt.le_memoize cfg st a
            have hU := U_memoize cfg g st a halt hl
            cases xs with
            | nil => exact Good_ok_le hle
            | cons x rest =>
              cases rest with
              | nil =>
                simp only []
                have := hspec (st.memoize cfg a) x (enter _ hU x)
                refine Good.mono hle ?_
                split
                · next e heq => rw [heq] at this; exact this
                · next s o heq => rw [heq] at this; exact Good_ok_le (this.2 _ _ rfl)
              | cons y rest =>
                simp only []
                have := encBatches_good cfg g _ _ hspec a .appends (chunks cfg.batch (x :: y :: rest)) true (st.memoize cfg a)
                  (fun b _ x _ => enter _ hU x)
                refine Good.mono hle ?_
                split
                · next e heq => rw [heq] at this; exact this
                · next s o heq => rw [heq] at this; exact Good_ok_le (this.2 _ _ rfl)
          | target label => exact Good_ok_le (EncSt.le_memoize cfg st a)
          | mandatory =>
            simp only []
            split
            · exact Good_ok_le (EncSt.le_memoize cfg st a)
            · exact Good_err (by decide)
          | other => exact Good_err (by decide)
          | builtin name recv =>
            simp only [hfix, ↓reduceIte]
            split
            · cases hi : indexOf st.seen a with
              | some idx => exact Good_ok_le (EncSt.le_memoize cfg st a)
              | none =>
                simp only []
                have hns : a ∉ st.seen := (indexOf_none _ _).mp hi
                have hle := EncSt.le_seen st a
                have hU := U_seen g st a halt hns
                have := hspec { st with seen := st.seen ++ [a] } recv (enter _ hU recv)
                refine Good.mono hle ?_
                split
                · next e heq => rw [heq] at this; exact this
                · next s o heq =>
                  rw [heq] at this
                  exact Good_ok_le (EncSt.le_trans (this.2 _ _ rfl) (EncSt.le_memoize cfg _ a))
            · exact Good_ok_le (EncSt.le_memoize cfg st a)
          | code name m gl bc sig =>
            simp only [hfix, ↓reduceIte]
            cases hi : indexOf st.seen a with
            | some idx => exact Good_ok_le (EncSt.le_memoize cfg st a)
            | none =>
              simp only []
              have hns : a ∉ st.seen := (indexOf_none _ _).mp hi
              have hle := EncSt.le_seen st a
              have hU := U_seen g st a halt hns
              have h1 := encSeq_good g _ _ hspec [m, gl] { st with seen := st.seen ++ [a] } (fun x _ => enter _ hU x)
              refine Good.mono hle ?_
              split
              · next e heq => rw [heq] at h1; exact h1
              · next s1 o1 heq =>
                rw [heq] at h1
                have hle1 := h1.2 _ _ rfl
                split
                · have h2 := hspec s1 sig (Nat.le_trans (mu_mono g hle1 sig) (enter _ hU sig))
                  split
                  · next e heq2 => rw [heq2] at h2; exact Good.mono hle1 h2
                  · next s2 o2 heq2 =>
                    rw [heq2] at h2
                    exact Good_ok_le (EncSt.le_trans hle1 (EncSt.le_trans (h2.2 _ _ rfl) (EncSt.le_memoize cfg _ a)))
                · exact Good_ok_le (EncSt.le_trans hle1 (EncSt.le_memoize cfg _ a))
          | func name d fv c =>
            simp only [hfix, ↓reduceIte]
            cases hi : indexOf st.seen a with
            | some idx => exact Good_ok_le (EncSt.le_memoize cfg st a)
            | none =>
              simp only []
              have hns : a ∉ st.seen := (indexOf_none _ _).mp hi
              have hle := EncSt.le_seen st a
              have hU := U_seen g st a halt hns
              have := encSeq_good g _ _ hspec [d, fv, c] { st with seen := st.seen ++ [a] } (fun x _ => enter _ hU x)
              refine Good.mono hle ?_
              split
              · next e heq => rw [heq] at this; exact this
              · next s o heq =>
                rw [heq] at this
                exact Good_ok_le (EncSt.le_trans (this.2 _ _ rfl) (EncSt.le_memoize cfg _ a))

end Dawn.Env

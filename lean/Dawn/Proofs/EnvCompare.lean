import Dawn.Model.Env
/-!
`starlark.EqualDepth` on data that is acyclic and shallower than the limit: it never reports "comparison exceeded
maximum recursion depth", and an environment compares equal to itself — what `diffEnv` relied on before the
repair of D16 (C08_compare). Cyclic data is the excluded point (`equalDepth_gCyc` in `Proofs/Env.lean`).
-/
namespace Dawn.Env

/-- `Shallow g n v`: walking `v` in `g` to the bottom needs at most `n` nested `EqualDepth` calls
(so `g` is acyclic below `v` and at most `n` levels deep) -/
inductive Shallow (g : Heap) : Nat → Val → Prop
  | atom (n : Nat) (a : Atom) : Shallow g (n + 1) (.atom a)
  | tuple (n a : Nat) (xs : List Val) : g[a]? = some (.tuple xs) → (∀ x ∈ xs, Shallow g n x) → Shallow g (n + 1) (.ref a)
  | list (n a : Nat) (xs : List Val) : g[a]? = some (.list xs) → (∀ x ∈ xs, Shallow g n x) → Shallow g (n + 1) (.ref a)
  | dict (n a : Nat) (kvs : List (Val × Val)) : g[a]? = some (.dict kvs) → (∀ p ∈ kvs, Shallow g n p.2) →
      Shallow g (n + 1) (.ref a)
  | leaf (n a : Nat) (o : Obj) : g[a]? = some o → (∀ xs, o ≠ .tuple xs) → (∀ xs, o ≠ .list xs) → (∀ kvs, o ≠ .dict kvs) →
      Shallow g (n + 1) (.ref a)

theorem Shallow.mono {g : Heap} {n : Nat} {v : Val} (h : Shallow g n v) : ∀ m, n ≤ m → Shallow g m v := by
  induction h with
  | atom n a => intro m hm; obtain ⟨k, rfl⟩ : ∃ k, m = k + 1 := ⟨m - 1, by omega⟩; exact .atom k a
  | tuple n a xs hg _ ih =>
    intro m hm; obtain ⟨k, rfl⟩ : ∃ k, m = k + 1 := ⟨m - 1, by omega⟩
    exact .tuple k a xs hg (fun x hx => ih x hx k (by omega))
  | list n a xs hg _ ih =>
    intro m hm; obtain ⟨k, rfl⟩ : ∃ k, m = k + 1 := ⟨m - 1, by omega⟩
    exact .list k a xs hg (fun x hx => ih x hx k (by omega))
  | dict n a kvs hg _ ih =>
    intro m hm; obtain ⟨k, rfl⟩ : ∃ k, m = k + 1 := ⟨m - 1, by omega⟩
    exact .dict k a kvs hg (fun p hp => ih p hp k (by omega))
  | leaf n a o hg h1 h2 h3 =>
    intro m hm; obtain ⟨k, rfl⟩ : ∃ k, m = k + 1 := ⟨m - 1, by omega⟩
    exact .leaf k a o hg h1 h2 h3

def IsOk (r : CmpRes) : Prop := ∃ b, r = .ok b

theorem cmpSeq_ok (f : Val → Val → CmpRes) (xs : List Val) (hf : ∀ x ∈ xs, ∀ y, IsOk (f x y)) :
    ∀ ys, IsOk (cmpSeq f xs ys) := by
  induction xs with
  | nil => intro ys; cases ys <;> exact ⟨_, rfl⟩
  | cons x xs ih =>
    intro ys
    cases ys with
    | nil => exact ⟨_, rfl⟩
    | cons y ys =>
      simp only [cmpSeq]
      obtain ⟨b, hb⟩ := hf x (List.mem_cons_self ..) y
      rw [hb]
      cases b with
      | false => exact ⟨_, rfl⟩
      | true => exact ih (fun z hz => hf z (List.mem_cons_of_mem _ hz)) ys

theorem findKey_mem (k : Val) (ys : List (Val × Val)) (v : Val) (h : findKey k ys = some v) : ∃ k', (k', v) ∈ ys := by
  induction ys with
  | nil => simp [findKey] at h
  | cons p rest ih =>
    obtain ⟨k', v'⟩ := p
    simp only [findKey] at h
    split at h
    · simp at h; subst h; exact ⟨k', List.mem_cons_self ..⟩
    · obtain ⟨k'', hk⟩ := ih h; exact ⟨k'', List.mem_cons_of_mem _ hk⟩

theorem cmpDict_ok (f : Val → Val → CmpRes) (ys xs : List (Val × Val)) (hf : ∀ p ∈ xs, ∀ y, IsOk (f p.2 y)) :
    IsOk (cmpDict f ys xs) := by
  induction xs with
  | nil => exact ⟨_, rfl⟩
  | cons p rest ih =>
    obtain ⟨k, xv⟩ := p
    simp only [cmpDict]
    cases hk : findKey k ys with
    | none => exact ⟨_, rfl⟩
    | some yv =>
      simp only []
      obtain ⟨b, hb⟩ := hf (k, xv) (List.mem_cons_self ..) yv
      simp only [] at hb
      rw [hb]
      cases b with
      | false => exact ⟨_, rfl⟩
      | true => exact ih (fun q hq => hf q (List.mem_cons_of_mem _ hq))

/-- no depth error when the left operand is shallower than the limit, whatever the right operand is -/
theorem equalDepth_ok (g h : Heap) {n : Nat} {x : Val} (hs : Shallow g n x) :
    ∀ d y, n ≤ d → IsOk (equalDepth g h d x y) := by
  induction hs with
  | atom n a =>
    intro d y hd; obtain ⟨k, rfl⟩ : ∃ k, d = k + 1 := ⟨d - 1, by omega⟩
    cases y <;> exact ⟨_, rfl⟩
  | tuple n a xs hg _ ih =>
    intro d y hd; obtain ⟨k, rfl⟩ : ∃ k, d = k + 1 := ⟨d - 1, by omega⟩
    cases y with
    | atom b => exact ⟨_, rfl⟩
    | ref b =>
      simp only [equalDepth, hg]
      cases hb : h[b]? with
      | none => exact ⟨_, rfl⟩
      | some o =>
        cases o <;> try exact ⟨_, rfl⟩
        rename_i ys
        simp only []
        split
        · exact ⟨_, rfl⟩
        · exact cmpSeq_ok _ xs (fun z hz w => ih z hz k w (by omega)) ys
  | list n a xs hg _ ih =>
    intro d y hd; obtain ⟨k, rfl⟩ : ∃ k, d = k + 1 := ⟨d - 1, by omega⟩
    cases y with
    | atom b => exact ⟨_, rfl⟩
    | ref b =>
      simp only [equalDepth, hg]
      cases hb : h[b]? with
      | none => exact ⟨_, rfl⟩
      | some o =>
        cases o <;> try exact ⟨_, rfl⟩
        rename_i ys
        simp only []
        split
        · exact ⟨_, rfl⟩
        · exact cmpSeq_ok _ xs (fun z hz w => ih z hz k w (by omega)) ys
  | dict n a kvs hg _ ih =>
    intro d y hd; obtain ⟨k, rfl⟩ : ∃ k, d = k + 1 := ⟨d - 1, by omega⟩
    cases y with
    | atom b => exact ⟨_, rfl⟩
    | ref b =>
      simp only [equalDepth, hg]
      cases hb : h[b]? with
      | none => exact ⟨_, rfl⟩
      | some o =>
        cases o <;> try exact ⟨_, rfl⟩
        rename_i ys
        simp only []
        split
        · exact ⟨_, rfl⟩
        · exact cmpDict_ok _ ys kvs (fun p hp w => ih p hp k w (by omega))
  | leaf n a o hga h1 h2 h3 =>
    intro d y hd; obtain ⟨k, rfl⟩ : ∃ k, d = k + 1 := ⟨d - 1, by omega⟩
    cases y with
    | atom b => exact ⟨_, rfl⟩
    | ref b =>
      simp only [equalDepth, hga]
      cases hb : h[b]? with
      | none => cases o <;> exact ⟨_, rfl⟩
      | some o' =>
        cases o with
        | tuple xs => exact absurd rfl (h1 xs)
        | list xs => exact absurd rfl (h2 xs)
        | dict kvs => exact absurd rfl (h3 kvs)
        | _ => cases o' <;> first | exact ⟨_, rfl⟩ | (simp only []; split <;> exact ⟨_, rfl⟩)

/-! ### an environment is equal to itself -/

theorem floatEq_refl (x : UInt64) : floatEq x x = true := by
  simp only [floatEq]
  split
  · rename_i h; simp only [Bool.or_self] at h; simp [h]
  · split <;> simp

theorem atomEq_refl (a : Atom) : atomEq a a = true := by
  cases a <;> simp [atomEq, floatEq_refl]

theorem keyEq_refl (v : Val) : keyEq v v = true := by
  cases v <;> simp [keyEq, atomEq_refl]

/-- the keys of every dict are pairwise different for the hash table (as in any real `*starlark.Dict`) -/
def KeysDistinct : List (Val × Val) → Prop
  | [] => True
  | (k, _) :: rest => (∀ p ∈ rest, keyEq p.1 k = false) ∧ KeysDistinct rest

def DictsDistinct (g : Heap) : Prop := ∀ (a : Nat) (kvs : List (Val × Val)), g[a]? = some (Obj.dict kvs) → KeysDistinct kvs

theorem cmpSeq_refl (f : Val → Val → CmpRes) (xs : List Val) (hf : ∀ x ∈ xs, f x x = .ok true) :
    cmpSeq f xs xs = .ok true := by
  induction xs with
  | nil => rfl
  | cons x xs ih =>
    simp only [cmpSeq, hf x (List.mem_cons_self ..)]
    exact ih (fun z hz => hf z (List.mem_cons_of_mem _ hz))

/-- comparing a suffix of a dict's entries against the whole dict -/
theorem cmpDict_refl (f : Val → Val → CmpRes) (pre suf : List (Val × Val)) (hd : KeysDistinct (pre ++ suf))
    (hf : ∀ p ∈ suf, f p.2 p.2 = .ok true) : cmpDict f (pre ++ suf) suf = .ok true := by
  induction suf generalizing pre with
  | nil => rfl
  | cons p rest ih =>
    obtain ⟨k, v⟩ := p
    have hfind : findKey k (pre ++ (k, v) :: rest) = some v := by
      clear ih hf
      induction pre with
      | nil => simp [findKey, keyEq_refl]
      | cons q pre ihp =>
        obtain ⟨k', v'⟩ := q
        simp only [List.cons_append, KeysDistinct] at hd
        have : keyEq k k' = false := hd.1 (k, v) (by simp)
        simp only [List.cons_append, findKey, this]
        exact ihp hd.2
    simp only [cmpDict, hfind, hf (k, v) (List.mem_cons_self ..)]
    have := ih (pre ++ [(k, v)]) (by simpa using hd) (fun q hq => hf q (List.mem_cons_of_mem _ hq))
    simpa using this

theorem all_any_refl (xs : List Val) : (xs.all fun k => xs.any fun k' => keyEq k k') = true := by
  simp only [List.all_eq_true, List.any_eq_true]
  intro x hx
  exact ⟨x, hx, keyEq_refl x⟩

/-- an acyclic environment shallower than the limit compares equal to itself -/
theorem equalDepth_refl (g : Heap) (hk : DictsDistinct g) {n : Nat} {x : Val} (hs : Shallow g n x) :
    ∀ d, n ≤ d → equalDepth g g d x x = .ok true := by
  induction hs with
  | atom n a =>
    intro d hd; obtain ⟨k, rfl⟩ : ∃ k, d = k + 1 := ⟨d - 1, by omega⟩
    simp [equalDepth, atomEq_refl]
  | tuple n a xs hg _ ih =>
    intro d hd; obtain ⟨k, rfl⟩ : ∃ k, d = k + 1 := ⟨d - 1, by omega⟩
    simp only [equalDepth, hg, ne_eq, not_true_eq_false, ↓reduceIte]
    exact cmpSeq_refl _ xs (fun z hz => ih z hz k (by omega))
  | list n a xs hg _ ih =>
    intro d hd; obtain ⟨k, rfl⟩ : ∃ k, d = k + 1 := ⟨d - 1, by omega⟩
    simp only [equalDepth, hg, ne_eq, not_true_eq_false, ↓reduceIte]
    exact cmpSeq_refl _ xs (fun z hz => ih z hz k (by omega))
  | dict n a kvs hg _ ih =>
    intro d hd; obtain ⟨k, rfl⟩ : ∃ k, d = k + 1 := ⟨d - 1, by omega⟩
    simp only [equalDepth, hg, ne_eq, not_true_eq_false, ↓reduceIte]
    exact cmpDict_refl _ [] kvs (hk a kvs hg) (fun p hp => ih p hp k (by omega))
  | leaf n a o hga h1 h2 h3 =>
    intro d hd; obtain ⟨k, rfl⟩ : ∃ k, d = k + 1 := ⟨d - 1, by omega⟩
    simp only [equalDepth, hga]
    cases o with
    | tuple xs => exact absurd rfl (h1 xs)
    | list xs => exact absurd rfl (h2 xs)
    | dict kvs => exact absurd rfl (h3 kvs)
    | set xs => simp [all_any_refl]
    | _ => simp

end Dawn.Env

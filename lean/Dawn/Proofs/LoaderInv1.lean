import Dawn.Proofs.LoaderStep
/-!
First invariant of the fixed loader model: shape of program counters and stacks.
-/
namespace Dawn.Loader

/-- the load a program counter is in the middle of -/
def target : PC → Option Mod
  | .call d | .setNew d | .load d | .setFound d | .enter d | .walk d _ | .wlock d | .sleep d | .check d => some d
  | _ => none

/-- program counters of the path taken when the module was found in the registry -/
def foundPc : PC → Bool
  | .setFound _ | .enter _ | .walk _ _ | .wlock _ | .sleep _ => true
  | _ => false

structure Inv1 (P : Project) (s : State) : Prop where
  /-- only the project's loader goroutines exist -/
  idle : ∀ t, P.roots.length ≤ t → s.pc t = .finished
  fin_empty : ∀ t, s.pc t = .finished → s.stack t = []
  /-- a body is being executed only inside a frame -/
  body : ∀ t, (s.pc t = .run ∨ ∃ r, s.pc t = .fin r) → s.stack t ≠ []
  /-- the load in progress is the head of the executing frame's remaining loads … -/
  tgt_frame : ∀ t f rest d, s.stack t = f :: rest → target (s.pc t) = some d → f.todo.head? = some d
  /-- … or, for the goroutine itself, its package's BUILD file -/
  tgt_root : ∀ t d, s.stack t = [] → target (s.pc t) = some d → P.roots[t]? = some d
  /-- a load that is returning belongs to the head of the remaining loads -/
  unset_frame : ∀ t f rest r, s.stack t = f :: rest → s.pc t = .unset r → f.todo ≠ []
  /-- remaining loads are a suffix of the module's load list -/
  suffix : ∀ t f, f ∈ s.stack t → f.todo <:+ P.loads f.mod
  /-- a frame below the top is in the middle of a load (of the frame above it) -/
  lower_busy : ∀ t u l post pre, s.stack t = pre ++ u :: l :: post → l.todo.head? = some u.mod
  found_reg : ∀ t d, foundPc (s.pc t) = true → target (s.pc t) = some d → s.registry d = true
  loaded_reg : ∀ m, s.loaded m = true → s.registry m = true
  frame_reg : ∀ t f, f ∈ s.stack t → s.registry f.mod = true
  new_reg : ∀ t d, (s.pc t = .setNew d ∨ s.pc t = .load d) → s.registry d = true

theorem inv1_init (P : Project) : Inv1 P (init P) := by
  constructor <;> simp only [init] <;> intros <;> simp_all [target, foundPc]
  · rename_i t h; simp [List.getElem?_eq_none h]
  · split at * <;> simp_all
  · split at * <;> simp_all [target]
  · split at * <;> simp_all [foundPc]
  · split at * <;> simp_all
  · split at * <;> simp_all

end Dawn.Loader

import Dawn.Proofs.LoaderStep
/-!
First invariant of the fixed loader model: shape of program counters and stacks.
-/
namespace Dawn.Loader

/-- the load a program counter is in the middle of -/
def target : PC → Option Mod
  | .call d | .setNew d | .load d | .setFound d | .enter d | .walk d _ | .wlock d | .sleep d | .check d => some d
  | _ => none

/-- program counters of the path taken when the module was found in the registry -/
def foundPc : PC → Bool
  | .setFound _ | .enter _ | .walk _ _ | .wlock _ | .sleep _ => true
  | _ => false

structure Inv1 (P : Project) (s : State) : Prop where
  /-- only the project's loader goroutines exist -/
  idle : ∀ t, P.roots.length ≤ t → s.pc t = .finished
  fin_empty : ∀ t, s.pc t = .finished → s.stack t = []
  /-- a body is being executed only inside a frame -/
  body : ∀ t, (s.pc t = .run ∨ ∃ r, s.pc t = .fin r) → s.stack t ≠ []
  /-- the load in progress is the head of the executing frame's remaining loads … -/
  tgt_frame : ∀ t f rest d, s.stack t = f :: rest → target (s.pc t) = some d → f.todo.head? = some d
  /-- … or, for the goroutine itself, its package's BUILD file -/
  tgt_root : ∀ t d, s.stack t = [] → target (s.pc t) = some d → P.roots[t]? = some d
  /-- a load that is returning belongs to the head of the remaining loads -/
  unset_frame : ∀ t f rest r, s.stack t = f :: rest → s.pc t = .unset r → f.todo ≠ []
  /-- remaining loads are a suffix of the module's load list -/
  suffix : ∀ t f, f ∈ s.stack t → f.todo <:+ P.loads f.mod
  /-- a frame below the top is in the middle of a load (of the frame above it) -/
  lower_busy : ∀ t u l post pre, s.stack t = pre ++ u :: l :: post → l.todo.head? = some u.mod
  found_reg : ∀ t d, foundPc (s.pc t) = true → target (s.pc t) = some d → s.registry d = true
  loaded_reg : ∀ m, s.loaded m = true → s.registry m = true
  frame_reg : ∀ t f, f ∈ s.stack t → s.registry f.mod = true
  new_reg : ∀ t d, (s.pc t = .setNew d ∨ s.pc t = .load d) → s.registry d = true

theorem init_pc (P : Project) (t : Tid) :
    (P.roots[t]? = none ∧ (init P).pc t = .finished) ∨ ∃ r, P.roots[t]? = some r ∧ (init P).pc t = .call r := by
  simp only [init]
  cases h : P.roots[t]? with
  | none => simp
  | some r => simp

theorem inv1_init (P : Project) : Inv1 P (init P) := by
  constructor
  · intro t h
    rcases init_pc P t with ⟨_, h2⟩ | ⟨r, h1, _⟩
    · exact h2
    · rw [List.getElem?_eq_none h] at h1; cases h1
  · intro t _; rfl
  · intro t h
    rcases init_pc P t with ⟨_, h2⟩ | ⟨r, _, h2⟩ <;> rw [h2] at h <;> simp at h
  · intro t f rest d h; simp [init] at h
  · intro t d _ h
    rcases init_pc P t with ⟨_, h2⟩ | ⟨r, h1, h2⟩ <;> rw [h2] at h <;> simp [target] at h
    subst h; exact h1
  · intro t f rest r h; simp [init] at h
  · intro t f h; simp [init] at h
  · intro t u l post pre h; simp [init] at h
  · intro t d h
    rcases init_pc P t with ⟨_, h2⟩ | ⟨r, _, h2⟩ <;> rw [h2] at h <;> simp [foundPc] at h
  · intro m h; simp [init] at h
  · intro t f h; simp [init] at h
  · intro t d h
    rcases init_pc P t with ⟨_, h2⟩ | ⟨r, _, h2⟩ <;> rw [h2] at h <;> simp at h

set_option maxHeartbeats 400000 in
theorem inv1_fstep {P : Project} {s s' : State} {t : Tid} (inv : Inv1 P s) (st : FStep P s t s') : Inv1 P s' := by
  have ⟨i1,i2,i3,i4,i5,i6,i7,i8,i9,i10,i11,i12⟩ := inv
  cases st <;> constructor <;> simp only [setPc, publish, goSleep, upd] <;> first | grind [target, foundPc] | skip
  case load.lower_busy d hpc =>
    intro t1 u l post pre h
    by_cases ht : t1 = t
    · subst ht
      simp only [↓reduceIte] at h
      cases pre with
      | nil =>
        simp only [List.nil_append, List.cons.injEq] at h
        obtain ⟨rfl, h2⟩ := h
        exact i4 t1 l post d h2 (by simp [hpc, target])
      | cons p pre' =>
        simp only [List.cons_append, List.cons.injEq] at h
        exact i8 t1 u l post pre' h.2
    · simp only [ht, ↓reduceIte] at h
      exact i8 t1 u l post pre h
  case unsetOk.suffix f rest hpc hst =>
    intro t1 g hg
    by_cases ht : t1 = t
    · subst ht
      simp only [↓reduceIte, List.mem_cons] at hg
      rcases hg with rfl | hg
      · exact (List.tail_suffix _).trans (i7 t1 f (by simp [hst]))
      · exact i7 t1 g (by simp [hst, hg])
    · simp only [ht, ↓reduceIte] at hg
      exact i7 t1 g hg
  case unsetOk.lower_busy f rest hpc hst =>
    intro t1 u l post pre h
    by_cases ht : t1 = t
    · subst ht
      simp only [↓reduceIte] at h
      cases pre with
      | nil =>
        simp only [List.nil_append, List.cons.injEq] at h
        obtain ⟨rfl, h2⟩ := h
        exact i8 t1 f l post [] (by simp [hst, h2])
      | cons p pre' =>
        simp only [List.cons_append, List.cons.injEq] at h
        exact i8 t1 u l post (f :: pre') (by simp [hst, h.2])
    · simp only [ht, ↓reduceIte] at h
      exact i8 t1 u l post pre h
  case fin.unset_frame r f rest hpc hst =>
    intro t1 g rest1 r1 h hp
    by_cases ht : t1 = t
    · subst ht
      simp only [↓reduceIte] at h
      have := i8 t1 f g rest1 [] (by simp [hst, h])
      intro h0; simp [h0] at this
    · simp only [ht, ↓reduceIte] at h hp
      exact i6 t1 g rest1 r1 h hp

theorem inv1_reachable {P : Project} {s : State} (h : Reachable .fixed P s) : Inv1 P s :=
  reachable_induction (I := Inv1 P) (inv1_init P) (fun _ _ _ _ ih st => inv1_fstep ih st) h

end Dawn.Loader

import Dawn.Model.Pickle
/-! `parseDecimal` reads back the decimal text `intText` writes (the INT opcode's payload), for every integer. -/
namespace Dawn.Pickle

def ofDigits (ds : List Nat) : Nat := ds.foldl (fun a d => a * 10 + d) 0

theorem ofDigits_snoc (ds : List Nat) (d : Nat) : ofDigits (ds ++ [d]) = ofDigits ds * 10 + d := by
  simp [ofDigits, List.foldl_append]

theorem digitsAux_spec : ∀ (fuel n : Nat), n < fuel →
    digitsAux fuel n ≠ [] ∧ (∀ d ∈ digitsAux fuel n, d < 10) ∧ ofDigits (digitsAux fuel n) = n ∧
    (n < 10 → digitsAux fuel n = [n]) ∧ (10 ≤ n → (digitsAux fuel n).head? ≠ some 0 ∧ 2 ≤ (digitsAux fuel n).length) := by
  intro fuel
  induction fuel with
  | zero => intro n h; omega
  | succ fuel ih =>
    intro n hn
    simp only [digitsAux]
    split
    · rename_i hlt
      refine ⟨by simp, by simpa using hlt, by simp [ofDigits], fun _ => rfl, fun h => by omega⟩
    · rename_i hge
      obtain ⟨h1, h2, h3, h4, h5⟩ := ih (n / 10) (by omega)
      refine ⟨by simp, ?_, ?_, fun h => by omega, fun _ => ⟨?_, ?_⟩⟩
      · intro d hd
        simp only [List.mem_append, List.mem_singleton] at hd
        rcases hd with hd | rfl
        · exact h2 d hd
        · omega
      · rw [ofDigits_snoc, h3]; omega
      · have happ : ∀ (l : List Nat) (x : Nat), l ≠ [] → (l ++ [x]).head? = l.head? := by
          intro l x hl; cases l with
          | nil => exact absurd rfl hl
          | cons _ _ => rfl
        rw [happ _ _ h1]
        by_cases hs : n / 10 < 10
        · rw [h4 hs]; simp; omega
        · exact (h5 (by omega)).1
      · have : 1 ≤ (digitsAux fuel (n / 10)).length := by
          cases hdig : digitsAux fuel (n / 10) with
          | nil => exact absurd hdig h1
          | cons _ _ => simp
        simp; omega

theorem digits_spec (n : Nat) :
    digits n ≠ [] ∧ (∀ d ∈ digits n, d < 10) ∧ ofDigits (digits n) = n ∧
    (n < 10 → digits n = [n]) ∧ (10 ≤ n → (digits n).head? ≠ some 0 ∧ 2 ≤ (digits n).length) :=
  digitsAux_spec (n + 1) n (Nat.lt_succ_self n)

def digitByte (d : Nat) : UInt8 := UInt8.ofNat (48 + d)

theorem digitByte_toNat (d : Nat) (h : d < 10) : (digitByte d).toNat = 48 + d := by
  simp only [digitByte, UInt8.toNat_ofNat']; omega

theorem natText_eq (n : Nat) : natText n = (digits n).map digitByte := rfl

theorem parseNat_map (ds : List Nat) (h : ∀ d ∈ ds, d < 10) (acc : Nat) :
    (ds.map digitByte).foldl (fun a c => a * 10 + (c.toNat - 48)) acc = ds.foldl (fun a d => a * 10 + d) acc := by
  induction ds generalizing acc with
  | nil => rfl
  | cons d ds ih =>
    simp only [List.map_cons, List.foldl_cons]
    rw [digitByte_toNat d (h d (by simp)), ih (fun x hx => h x (by simp [hx]))]
    congr 1; omega

theorem parseNat_natText (n : Nat) : parseNat (natText n) = n := by
  obtain ⟨_, h2, h3, _, _⟩ := digits_spec n
  rw [natText_eq, parseNat, parseNat_map _ h2]
  exact h3

theorem isDigit_digitByte (d : Nat) (h : d < 10) : isDigit (digitByte d) = true := by
  simp only [isDigit, digitByte_toNat d h, decide_eq_true_eq]; omega

theorem digitByte_ne_minus (d : Nat) (h : d < 10) : digitByte d ≠ minus := by
  intro he
  have := congrArg UInt8.toNat he
  rw [digitByte_toNat d h] at this
  simp [minus] at this
  omega

theorem digitByte_eq_48 (d : Nat) (h : d < 10) : digitByte d = 48 ↔ d = 0 := by
  constructor
  · intro he
    have := congrArg UInt8.toNat he
    rw [digitByte_toNat d h] at this
    simp at this
    omega
  · rintro rfl; rfl

/-- the text of a natural number is canonical decimal -/
theorem natText_canon (n : Nat) :
    natText n ≠ [] ∧ (natText n).all isDigit = true ∧ ((natText n).length = 1 ∨ (natText n).head? ≠ some 48) ∧
    (natText n).head? ≠ some minus ∧ (natText n = [48] → n = 0) := by
  obtain ⟨h1, h2, _, h4, h5⟩ := digits_spec n
  rw [natText_eq]
  refine ⟨by simpa using h1, ?_, ?_, ?_, ?_⟩
  · simp only [List.all_map, List.all_eq_true, Function.comp]
    exact fun d hd => isDigit_digitByte d (h2 d hd)
  · by_cases hn : n < 10
    · left; rw [h4 hn]; rfl
    · right
      have := (h5 (by omega)).1
      cases hd : digits n with
      | nil => exact absurd hd h1
      | cons d ds =>
        rw [hd] at this
        simp only [List.head?_cons, ne_eq, Option.some.injEq] at this
        simp only [List.map_cons, List.head?_cons, ne_eq, Option.some.injEq]
        rw [digitByte_eq_48 d (h2 d (by simp [hd]))]
        exact this
  · cases hd : digits n with
    | nil => exact absurd hd h1
    | cons d ds =>
      simp only [List.map_cons, List.head?_cons, ne_eq, Option.some.injEq]
      exact digitByte_ne_minus d (h2 d (by simp [hd]))
  · intro he
    by_cases hn : n < 10
    · rw [h4 hn] at he
      simp only [List.map_cons, List.map_nil, List.cons.injEq, and_true] at he
      exact (digitByte_eq_48 n hn).mp he
    · have := (h5 (by omega)).2
      have hl := congrArg List.length he
      simp at hl; omega

theorem parseDecimal_intText (i : Int) : parseDecimal (intText i) = some i := by
  cases i with
  | ofNat n =>
    obtain ⟨h1, h2, h3, h4, _⟩ := natText_canon n
    simp only [intText]
    cases ht : natText n with
    | nil => exact absurd ht h1
    | cons c ds =>
      have hc : c ≠ minus := by rw [ht] at h4; simpa using h4
      have hp := parseNat_natText n
      rw [ht] at h2 h3 hp
      simp only [parseDecimal, if_neg hc]
      have hcanon : (!(c :: ds).isEmpty && (c :: ds).all isDigit && (decide ((c :: ds).length = 1) || (c :: ds).head? != some 48)) = true := by
        simp only [List.isEmpty_cons, Bool.not_false, Bool.true_and, h2]
        rcases h3 with h3 | h3
        · simp [h3]
        · simp only [Bool.or_eq_true, decide_eq_true_eq, bne_iff_ne]; exact Or.inr h3
      rw [if_pos hcanon, hp]
  | negSucc n =>
    obtain ⟨h1, h2, h3, _, h5⟩ := natText_canon (n + 1)
    have hp := parseNat_natText (n + 1)
    simp only [intText, parseDecimal, if_true]
    have hne : natText (n + 1) ≠ [48] := fun he => by have := h5 he; omega
    have hcanon : (!(natText (n + 1)).isEmpty && (natText (n + 1)).all isDigit && (decide ((natText (n + 1)).length = 1) || (natText (n + 1)).head? != some 48) && (natText (n + 1) != [48])) = true := by
      simp only [h2, Bool.and_true, Bool.and_eq_true, Bool.not_eq_true', List.isEmpty_eq_false_iff, bne_iff_ne, Bool.or_eq_true, decide_eq_true_eq]
      exact ⟨⟨h1, h3⟩, hne⟩
    rw [if_pos hcanon, hp]
    rfl

end Dawn.Pickle

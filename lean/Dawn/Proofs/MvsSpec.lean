import Dawn.Proofs.MvsBuildList
/-!
# The specification side of C10 / C11: reachability in the universe, independently of any algorithm
-/
namespace Dawn.Mvs

/-- reachable through requirements from the root requirement set of a project file -/
inductive UReach (e : Env) (roots : List Mod) : Mod → Prop where
  | root (m : Mod) : m ∈ roots → UReach e roots m
  | step (n m : Mod) (s : Summary) : UReach e roots n → e.summary n = some s → m ∈ s.reqs → UReach e roots m

/-- what a loaded project file guarantees (`LoadConfigBytes`): every requirement names a project (`CleanPath` never
yields `""`) at a canonical version -/
def okReq (m : Mod) : Prop := m.path ≠ "" ∧ ∃ s, m.ver = .sv s

structure WellFormed (e : Env) (roots : List Mod) : Prop where
  roots_ok : ∀ m ∈ roots, okReq m
  reqs_ok : ∀ n s, e.summary n = some s → ∀ m ∈ s.reqs, okReq m

theorem okReq_ver_ne_none {m : Mod} (h : okReq m) : m.ver ≠ .none := by
  obtain ⟨_, s, hs⟩ := h; rw [hs]; simp

theorem edges_plain (rq : Reqs) (m : Mod) :
    edges rq .none m = if m.ver ≠ .none then (rq.required m).getD [] else [] := by
  simp only [edges, workItem]
  split
  · cases rq.required m <;> rfl
  · rfl

theorem ureach_ok {e : Env} {roots : List Mod} (hwf : WellFormed e roots) {m : Mod} (h : UReach e roots m) : okReq m := by
  cases h with
  | root _ hm => exact hwf.roots_ok m hm
  | step n _ s _ hs hm => exact hwf.reqs_ok n s hs m hm

/-- with well-formed files, what `buildList` can reach from the main project is the main project itself and
everything reachable through requirements -/
theorem reach_dawn_iff {e : Env} {roots : List Mod} (hwf : WellFormed e roots) (m : Mod) :
    Reach (dawnReqs e roots) .none rootMod m ↔ m = rootMod ∨ UReach e roots m := by
  constructor
  · intro h
    induction h with
    | root => exact Or.inl rfl
    | step a b _ hb ih =>
      right
      rw [edges_plain] at hb
      split at hb
      · rcases ih with rfl | ih
        · simp only [dawnReqs, rootMod, ↓reduceIte, Option.getD_some] at hb
          exact UReach.root b hb
        · have hok := ureach_ok hwf ih
          simp only [dawnReqs, hok.1, ↓reduceIte] at hb
          cases hs : e.summary a with
          | none => simp [hs] at hb
          | some s =>
            simp only [hs, Option.map_some, Option.getD_some] at hb
            exact UReach.step a b s ih hs hb
      · cases hb
  · rintro (rfl | h)
    · exact Reach.root
    · induction h with
      | root m hm =>
        apply Reach.step rootMod m Reach.root
        rw [edges_plain]
        simp [dawnReqs, rootMod, hm]
      | step a b s ha hs hb ih =>
        apply Reach.step a b ih
        rw [edges_plain]
        have hok := ureach_ok hwf ha
        simp [dawnReqs, hok.1, okReq_ver_ne_none hok, hs, hb]

end Dawn.Mvs

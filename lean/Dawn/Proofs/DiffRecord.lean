import Dawn.Proofs.DiffCompose
/-!
C16: extracting the route from the recorded points and recording it as raw edits (`recordSeq`, `extend`).
-/
namespace Dawn.Diff

section
variable {α : Type} (eqb : α → α → Bool) (a b : List α)

/-- consecutive points of a route (in the order `recordSeq` visits them), starting from `P` -/
def RouteOK : Int × Int → List (Int × Int) → Prop
  | _, [] => True
  | P, Q :: rest => Seg eqb a b P Q ∧ RouteOK Q rest

/-- following the `r` links from a recorded point yields a valid route from the origin that ends in that point -/
theorem route_spec {pts : Array Pt} (hp : PtsOK eqb a b pts) (r : Nat) :
    ∀ (q : Pt) (fuel : Nat) (acc : List (Int × Int)), pts[r]? = some q → r + 2 ≤ fuel →
      RouteOK eqb a b (q.x, q.y) acc →
      ∃ L, route pts fuel (r : Int) acc = .ok L ∧ RouteOK eqb a b (0, 0) L ∧
        L.getLast? = ((q.x, q.y) :: acc).getLast? := by
  induction r using Nat.strongRecOn with
  | _ r ih =>
    intro q fuel acc hq hf hacc
    obtain ⟨f, rfl⟩ : ∃ f, fuel = f + 1 := ⟨fuel - 1, by omega⟩
    have h1 : ¬ ((r : Int) = -1) := by omega
    have h2 : ¬ ((r : Int) < 0) := by omega
    simp only [route, h1, h2, ↓reduceIte, Int.toNat_natCast, hq]
    rcases hp r q hq with ⟨hr, hs⟩ | ⟨hr0, hr1, q', hq', hs⟩
    · obtain ⟨f', rfl⟩ : ∃ f', f = f' + 1 := ⟨f - 1, by omega⟩
      refine ⟨(q.x, q.y) :: acc, by simp [route, hr], ⟨hs, hacc⟩, rfl⟩
    · have hlt : q.r.toNat < r := by omega
      obtain ⟨L, hL, hok, hlast⟩ := ih q.r.toNat hlt q' f ((q.x, q.y) :: acc) hq' (by omega) ⟨hs, hacc⟩
      have hcast : ((q.r.toNat : Nat) : Int) = q.r := by omega
      rw [hcast] at hL
      refine ⟨L, hL, hok, ?_⟩
      rw [hlast]
      simp [List.getLast?_cons_cons]

/-- the kind recorded for a step in `x` (an element of `a`) and for a step in `y` (an element of `b`) -/
def xkind (reverse : Bool) : Kind := if reverse then .add else .delete
def ykind (reverse : Bool) : Kind := if reverse then .delete else .add

/-- every edit is a non-empty run that starts at a non-negative index -/
def AllOK (es : List (RawEdit α)) : Prop := ∀ e ∈ es, 0 ≤ e.start ∧ e.values ≠ []

/-- `RawP base edits px py`: on top of the edits `base` of earlier passes, `edits` (most recent first) records
a walk from `(0, 0)` to `(px, py)` in this pass: runs of `x` steps, `y` steps and diagonal steps over equal
cells, each run a slice of the sequence it was taken from. -/
inductive RawP (reverse : Bool) (base : List (RawEdit α)) : List (RawEdit α) → Int → Int → Prop
  | base : RawP reverse base base 0 0
  | xstep (e : RawEdit α) (es : List (RawEdit α)) (px py : Int) :
      RawP reverse base es e.start py → e.kind = xkind reverse → 0 ≤ e.start → e.values ≠ [] →
      e.start + e.values.length = px → px ≤ a.length →
      e.values = (a.drop e.start.toNat).take e.values.length → RawP reverse base (e :: es) px py
  | ystep (e : RawEdit α) (es : List (RawEdit α)) (px py : Int) :
      RawP reverse base es px e.start → e.kind = ykind reverse → 0 ≤ e.start → e.values ≠ [] →
      e.start + e.values.length = py → py ≤ b.length →
      e.values = (b.drop e.start.toNat).take e.values.length → RawP reverse base (e :: es) px py
  | common (e : RawEdit α) (es : List (RawEdit α)) (px py : Int) :
      RawP reverse base es (px - e.values.length) (py - e.values.length) → e.kind = .common → e.values ≠ [] →
      e.start = (if reverse then py - e.values.length else px - e.values.length) → 0 ≤ e.start →
      e.values = ((if reverse then b else a).drop e.start.toNat).take e.values.length →
      px ≤ a.length → py ≤ b.length → 0 ≤ px - e.values.length → 0 ≤ py - e.values.length →
      (∀ i : Nat, i < e.values.length → Cell eqb a b (px - e.values.length + i) (py - e.values.length + i)) →
      RawP reverse base (e :: es) px py

theorem RawP.allOK {reverse : Bool} {base es : List (RawEdit α)} {px py : Int}
    (h : RawP eqb a b reverse base es px py) (hb : AllOK base) : AllOK es := by
  induction h with
  | base => exact hb
  | xstep e es px py _ _ h0 hv _ _ _ ih => intro e' he'; rcases List.mem_cons.mp he' with rfl | h; exact ⟨h0, hv⟩; exact ih e' h
  | ystep e es px py _ _ h0 hv _ _ _ ih => intro e' he'; rcases List.mem_cons.mp he' with rfl | h; exact ⟨h0, hv⟩; exact ih e' h
  | common e es px py _ _ hv _ h0 _ _ _ _ _ _ ih => intro e' he'; rcases List.mem_cons.mp he' with rfl | h; exact ⟨h0, hv⟩; exact ih e' h

theorem RawP.nonneg {reverse : Bool} {base es : List (RawEdit α)} {px py : Int}
    (h : RawP eqb a b reverse base es px py) : 0 ≤ px ∧ 0 ≤ py := by
  induction h with
  | base => exact ⟨Int.le_refl _, Int.le_refl _⟩
  | xstep e es px py _ _ h0 hv hs _ _ ih => exact ⟨by omega, ih.2⟩
  | ystep e es px py _ _ h0 hv hs _ _ ih => exact ⟨ih.1, by omega⟩
  | common e es px py _ _ hv _ h0 _ _ _ hx hy _ ih => exact ⟨by omega, by omega⟩

/-- one more element of a slice -/
theorem take_succ_drop (s : List α) (i len : Nat) (v : α) (h : s[i + len]? = some v) :
    (s.drop i).take (len + 1) = (s.drop i).take len ++ [v] := by
  rw [List.take_add_one]
  congr 1
  rw [List.getElem?_drop, h]
  rfl

theorem slice_one (s : List α) (loc : Int) (v : α) (h0 : 0 ≤ loc) (h : s[loc.toNat]? = some v) :
    slice s loc (loc + 1) = .ok [v] := by
  have hlt := (List.getElem?_eq_some_iff.mp h).1
  rw [slice_ok s loc (loc + 1) h0 (by omega) (by omega)]
  have : (loc + 1 - loc).toNat = 1 := by omega
  rw [this]
  have := take_succ_drop s loc.toNat 0 v (by simpa using h)
  simpa using this

theorem slice_ext (s : List α) (start loc : Int) (vs : List α) (v : α) (h0 : 0 ≤ start)
    (hs : start + vs.length = loc) (hvs : vs = (s.drop start.toNat).take vs.length)
    (h : s[loc.toNat]? = some v) : slice s start (loc + 1) = .ok (vs ++ [v]) := by
  have hlt := (List.getElem?_eq_some_iff.mp h).1
  rw [slice_ok s start (loc + 1) h0 (by omega) (by omega)]
  have e1 : (loc + 1 - start).toNat = vs.length + 1 := by omega
  have e2 : loc.toNat = start.toNat + vs.length := by omega
  rw [e1, take_succ_drop s start.toNat vs.length v (by rw [← e2]; exact h), ← hvs]

theorem kinds_ne (reverse : Bool) : xkind reverse ≠ ykind reverse ∧ xkind reverse ≠ .common ∧ ykind reverse ≠ .common := by
  cases reverse <;> simp [xkind, ykind]

/-- `extend` for a step in `x` -/
theorem extend_x {reverse : Bool} {base es : List (RawEdit α)} {px py : Int}
    (h : RawP eqb a b reverse base es px py) (hb : AllOK base) (v : α) (hv : a[px.toNat]? = some v) :
    ∃ es', extend (xkind reverse) a px es = .ok es' ∧ RawP eqb a b reverse base es' (px + 1) py := by
  obtain ⟨hpx0, hpy0⟩ := h.nonneg
  have hlt := (List.getElem?_eq_some_iff.mp hv).1
  have hnew : ∀ es0, RawP eqb a b reverse base es0 px py →
      RawP eqb a b reverse base (⟨xkind reverse, px, [v]⟩ :: es0) (px + 1) py := by
    intro es0 h0
    refine RawP.xstep _ es0 (px + 1) py h0 rfl hpx0 (by simp) (by simp) (by omega) ?_
    have := take_succ_drop a px.toNat 0 v (by simpa using hv)
    simpa using this.symm
  cases es with
  | nil =>
    refine ⟨[⟨xkind reverse, px, [v]⟩], ?_, hnew [] h⟩
    simp [extend, slice_one a px v hpx0 hv, bind, Except.bind, pure, Except.pure]
  | cons last rest =>
    by_cases ht : last.kind = xkind reverse ∧ last.start + last.values.length = px
    · cases h with
      | base =>
        have := hb last (by simp)
        have : last.values.length ≠ 0 := fun e => this.2 (List.eq_nil_of_length_eq_zero e)
        omega
      | xstep _ _ _ _ h' hk h0 hne hs hle hvals =>
        have hsl := slice_ext a last.start px last.values v h0 hs hvals hv
        refine ⟨{ last with values := last.values ++ [v] } :: rest, ?_, ?_⟩
        · simp [extend, ht, hsl, bind, Except.bind, pure, Except.pure]
        · refine RawP.xstep _ rest (px + 1) py h' hk h0 (by simp) (by simp; omega) (by omega) ?_
          simp only [List.length_append, List.length_singleton]
          have e2 : px.toNat = last.start.toNat + last.values.length := by omega
          rw [take_succ_drop a last.start.toNat last.values.length v (by rw [← e2]; exact hv), ← hvals]
      | ystep _ _ _ _ _ hk => exact absurd (ht.1.symm.trans hk) (kinds_ne reverse).1
      | common _ _ _ _ _ hk => exact absurd (ht.1.symm.trans hk) (kinds_ne reverse).2.1
    · refine ⟨⟨xkind reverse, px, [v]⟩ :: last :: rest, ?_, hnew _ h⟩
      simp [extend, ht, slice_one a px v hpx0 hv, bind, Except.bind, pure, Except.pure]

/-- `extend` for a step in `y` -/
theorem extend_y {reverse : Bool} {base es : List (RawEdit α)} {px py : Int}
    (h : RawP eqb a b reverse base es px py) (hb : AllOK base) (v : α) (hv : b[py.toNat]? = some v) :
    ∃ es', extend (ykind reverse) b py es = .ok es' ∧ RawP eqb a b reverse base es' px (py + 1) := by
  obtain ⟨hpx0, hpy0⟩ := h.nonneg
  have hlt := (List.getElem?_eq_some_iff.mp hv).1
  have hnew : ∀ es0, RawP eqb a b reverse base es0 px py →
      RawP eqb a b reverse base (⟨ykind reverse, py, [v]⟩ :: es0) px (py + 1) := by
    intro es0 h0
    refine RawP.ystep _ es0 px (py + 1) h0 rfl hpy0 (by simp) (by simp) (by omega) ?_
    have := take_succ_drop b py.toNat 0 v (by simpa using hv)
    simpa using this.symm
  cases es with
  | nil =>
    refine ⟨[⟨ykind reverse, py, [v]⟩], ?_, hnew [] h⟩
    simp [extend, slice_one b py v hpy0 hv, bind, Except.bind, pure, Except.pure]
  | cons last rest =>
    by_cases ht : last.kind = ykind reverse ∧ last.start + last.values.length = py
    · cases h with
      | base =>
        have := hb last (by simp)
        have : last.values.length ≠ 0 := fun e => this.2 (List.eq_nil_of_length_eq_zero e)
        omega
      | ystep _ _ _ _ h' hk h0 hne hs hle hvals =>
        have hsl := slice_ext b last.start py last.values v h0 hs hvals hv
        refine ⟨{ last with values := last.values ++ [v] } :: rest, ?_, ?_⟩
        · simp [extend, ht, hsl, bind, Except.bind, pure, Except.pure]
        · refine RawP.ystep _ rest px (py + 1) h' hk h0 (by simp) (by simp; omega) (by omega) ?_
          simp only [List.length_append, List.length_singleton]
          have e2 : py.toNat = last.start.toNat + last.values.length := by omega
          rw [take_succ_drop b last.start.toNat last.values.length v (by rw [← e2]; exact hv), ← hvals]
      | xstep _ _ _ _ _ hk => exact absurd (hk.symm.trans ht.1) (kinds_ne reverse).1
      | common _ _ _ _ _ hk => exact absurd (ht.1.symm.trans hk) (kinds_ne reverse).2.2
    · refine ⟨⟨ykind reverse, py, [v]⟩ :: last :: rest, ?_, hnew _ h⟩
      simp [extend, ht, slice_one b py v hpy0 hv, bind, Except.bind, pure, Except.pure]

/-- `extend` for a diagonal step over an equal cell -/
theorem extend_c {reverse : Bool} {base es : List (RawEdit α)} {px py : Int}
    (h : RawP eqb a b reverse base es px py) (hb : AllOK base) (hc : Cell eqb a b px py) :
    ∃ es', extend .common (if reverse then b else a) (if reverse then py else px) es = .ok es' ∧
      RawP eqb a b reverse base es' (px + 1) (py + 1) := by
  obtain ⟨hpx0, hpy0, u, v, hu, hv, huv⟩ := hc
  have hltx := (List.getElem?_eq_some_iff.mp hu).1
  have hlty := (List.getElem?_eq_some_iff.mp hv).1
  obtain ⟨src, hsrc⟩ : ∃ src, src = if reverse then b else a := ⟨_, rfl⟩
  obtain ⟨loc, hloc⟩ : ∃ loc : Int, loc = if reverse then py else px := ⟨_, rfl⟩
  obtain ⟨w, hw⟩ : ∃ w, src[loc.toNat]? = some w := by
    cases reverse
    · exact ⟨u, by simp only [hsrc, hloc, Bool.false_eq_true, ↓reduceIte]; exact hu⟩
    · exact ⟨v, by simp only [hsrc, hloc, ↓reduceIte]; exact hv⟩
  have hloc0 : 0 ≤ loc := by rw [hloc]; split <;> assumption
  rw [← hsrc, ← hloc]
  have hcell : Cell eqb a b px py := ⟨hpx0, hpy0, u, v, hu, hv, huv⟩
  have hnew : ∀ es0, RawP eqb a b reverse base es0 px py →
      RawP eqb a b reverse base (⟨.common, loc, [w]⟩ :: es0) (px + 1) (py + 1) := by
    intro es0 h0
    refine RawP.common _ es0 (px + 1) (py + 1) (by simpa using h0) rfl (by simp) ?_ hloc0 ?_ (by omega) (by omega)
      (by simp; omega) (by simp; omega) ?_
    · simp only [List.length_singleton, hloc]; cases reverse <;> simp
    · have := take_succ_drop src loc.toNat 0 w (by simpa using hw)
      rw [← hsrc]
      simpa using this.symm
    · intro i hi
      simp only [List.length_singleton] at hi
      have : i = 0 := by omega
      subst this
      simpa using hcell
  cases es with
  | nil =>
    refine ⟨[⟨.common, loc, [w]⟩], ?_, hnew [] h⟩
    simp [extend, slice_one src loc w hloc0 hw, bind, Except.bind, pure, Except.pure]
  | cons last rest =>
    by_cases ht : last.kind = .common ∧ last.start + last.values.length = loc
    · cases h with
      | base =>
        have := hb last (by simp)
        have : last.values.length ≠ 0 := fun e => this.2 (List.eq_nil_of_length_eq_zero e)
        have : loc = 0 := by rw [hloc]; split <;> rfl
        omega
      | xstep _ _ _ _ _ hk => exact absurd (hk.symm.trans ht.1) (kinds_ne reverse).2.1
      | ystep _ _ _ _ _ hk => exact absurd (hk.symm.trans ht.1) (kinds_ne reverse).2.2
      | common _ _ _ _ h' hk hne hst h0 hvals hxle hyle hx0 hy0 hcells =>
        rw [← hsrc] at hvals
        have hsl := slice_ext src last.start loc last.values w h0 ht.2 hvals hw
        refine ⟨{ last with values := last.values ++ [w] } :: rest, ?_, ?_⟩
        · simp [extend, ht, hsl, bind, Except.bind, pure, Except.pure]
        · have e1 : px + 1 - (((last.values ++ [w]).length : Nat) : Int) = px - last.values.length := by
            simp; omega
          have e2 : py + 1 - (((last.values ++ [w]).length : Nat) : Int) = py - last.values.length := by
            simp; omega
          refine RawP.common _ rest (px + 1) (py + 1) (by simp only [e1, e2]; exact h') hk (by simp) ?_ h0 ?_
            (by omega) (by omega) (by simp only [e1]; exact hx0) (by simp only [e2]; exact hy0) ?_
          · simp only [e1, e2]; exact hst
          · simp only [List.length_append, List.length_singleton]
            have e3 : loc.toNat = last.start.toNat + last.values.length := by omega
            rw [← hsrc, take_succ_drop src last.start.toNat last.values.length w (by rw [← e3]; exact hw), ← hvals]
          · intro i hi
            simp only [e1, e2]
            simp only [List.length_append, List.length_singleton] at hi
            by_cases hil : i < last.values.length
            · exact hcells i hil
            · have : i = last.values.length := by omega
              subst this
              have ex : px - (last.values.length : Int) + (last.values.length : Nat) = px := by omega
              have ey : py - (last.values.length : Int) + (last.values.length : Nat) = py := by omega
              rw [ex, ey]; exact hcell
    · refine ⟨⟨.common, loc, [w]⟩ :: last :: rest, ?_, hnew _ h⟩
      simp [extend, ht, slice_one src loc w hloc0 hw, bind, Except.bind, pure, Except.pure]

/-- the diagonal part of the walk to a route point -/
theorem walk_diag {reverse : Bool} {base : List (RawEdit α)} (hb : AllOK base) (s : Nat) :
    ∀ (es : List (RawEdit α)) (px py : Int) (fuel : Nat), RawP eqb a b reverse base es px py →
      (∀ i : Nat, i < s → Cell eqb a b (px + i) (py + i)) → s ≤ fuel →
      ∃ es', walkTo a b reverse (px + s) (py + s) fuel ⟨px, py, es⟩ = .ok ⟨px + s, py + s, es'⟩ ∧
        RawP eqb a b reverse base es' (px + s) (py + s) := by
  induction s with
  | zero =>
    intro es px py fuel h _ _
    refine ⟨es, ?_, by simpa using h⟩
    unfold walkTo
    simp
  | succ s ih =>
    intro es px py fuel h hcells hf
    obtain ⟨f, rfl⟩ : ∃ f, fuel = f + 1 := ⟨fuel - 1, by omega⟩
    have hc0 : Cell eqb a b px py := by simpa using hcells 0 (by omega)
    obtain ⟨es1, e1, h1⟩ := extend_c eqb a b h hb hc0
    obtain ⟨es2, e2, h2⟩ := ih es1 (px + 1) (py + 1) f h1
      (fun i hi => by
        have := hcells (i + 1) (by omega)
        have ex : px + ((i + 1 : Nat) : Int) = px + 1 + i := by omega
        have ey : py + ((i + 1 : Nat) : Int) = py + 1 + i := by omega
        rw [ex, ey] at this; exact this)
      (by omega)
    have ex : px + ((s + 1 : Nat) : Int) = px + 1 + s := by omega
    have ey : py + ((s + 1 : Nat) : Int) = py + 1 + s := by omega
    rw [ex, ey]
    refine ⟨es2, ?_, h2⟩
    unfold walkTo
    have c1 : px < px + 1 + s ∨ py < py + 1 + s := by omega
    have c2 : ¬ (py + 1 + s - (px + 1 + s) > py - px) := by omega
    have c3 : ¬ (py + 1 + s - (px + 1 + s) < py - px) := by omega
    simp only [c1, ↓reduceIte, c2, c3, e1, bind, Except.bind]
    exact e2

/-- the walk of `recordSeq` from one route point to the next -/
theorem walk_seg {reverse : Bool} {base es : List (RawEdit α)} (hb : AllOK base) (P Q : Int × Int)
    (hseg : Seg eqb a b P Q) (h : RawP eqb a b reverse base es P.1 P.2) :
    ∃ es', walkTo a b reverse Q.1 Q.2 ((Q.1 - P.1).toNat + (Q.2 - P.2).toNat) ⟨P.1, P.2, es⟩ = .ok ⟨Q.1, Q.2, es'⟩ ∧
      RawP eqb a b reverse base es' Q.1 Q.2 := by
  obtain ⟨s, hcells, hcase⟩ := hseg
  rcases hcase with ⟨h1, h2⟩ | ⟨h1, h2, hx0, hx1, hy0, hy1⟩ | ⟨h1, h2, hy0, hy1, hx0, hx1⟩
  · have eq1 : Q.1 = P.1 + s := by omega
    have eq2 : Q.2 = P.2 + s := by omega
    rw [eq1, eq2]
    exact walk_diag eqb a b hb s es P.1 P.2 _ h
      (fun i hi => by have := hcells i hi; rw [eq1, eq2] at this
                      have e1 : P.1 + ↑s - ↑s + ↑i = P.1 + i := by omega
                      have e2 : P.2 + ↑s - ↑s + ↑i = P.2 + i := by omega
                      rw [e1, e2] at this; exact this) (by omega)
  · -- a step in x, then the diagonal
    have eq1 : Q.1 = P.1 + 1 + s := by omega
    have eq2 : Q.2 = P.2 + s := by omega
    obtain ⟨v, hv⟩ : ∃ v, a[P.1.toNat]? = some v := by
      have : P.1.toNat < a.length := by omega
      exact ⟨a[P.1.toNat], List.getElem?_eq_getElem this⟩
    obtain ⟨es1, e1, r1⟩ := extend_x eqb a b h hb v hv
    obtain ⟨es2, e2, r2⟩ := walk_diag eqb a b hb s es1 (P.1 + 1) P.2 (s + s) r1
      (fun i hi => by have := hcells i hi; rw [eq1, eq2] at this
                      have e1 : P.1 + 1 + ↑s - ↑s + ↑i = P.1 + 1 + i := by omega
                      have e2 : P.2 + ↑s - ↑s + ↑i = P.2 + i := by omega
                      rw [e1, e2] at this; exact this) (by omega)
    rw [eq1, eq2]
    refine ⟨es2, ?_, r2⟩
    have hfuel : (P.1 + 1 + ↑s - P.1).toNat + (P.2 + ↑s - P.2).toNat = (s + s) + 1 := by omega
    rw [hfuel]
    unfold walkTo
    have c1 : P.1 < P.1 + 1 + s ∨ P.2 < P.2 + s := by omega
    have c2 : ¬ (P.2 + s - (P.1 + 1 + s) > P.2 - P.1) := by omega
    have c3 : P.2 + s - (P.1 + 1 + s) < P.2 - P.1 := by omega
    simp only [c1, ↓reduceIte, c2, c3, bind, Except.bind]
    rw [show (if reverse = true then Kind.add else Kind.delete) = xkind reverse from rfl, e1]
    exact e2
  · -- a step in y, then the diagonal
    have eq1 : Q.1 = P.1 + s := by omega
    have eq2 : Q.2 = P.2 + 1 + s := by omega
    obtain ⟨v, hv⟩ : ∃ v, b[P.2.toNat]? = some v := by
      have : P.2.toNat < b.length := by omega
      exact ⟨b[P.2.toNat], List.getElem?_eq_getElem this⟩
    obtain ⟨es1, e1, r1⟩ := extend_y eqb a b h hb v hv
    obtain ⟨es2, e2, r2⟩ := walk_diag eqb a b hb s es1 P.1 (P.2 + 1) (s + s) r1
      (fun i hi => by have := hcells i hi; rw [eq1, eq2] at this
                      have e1 : P.1 + ↑s - ↑s + ↑i = P.1 + i := by omega
                      have e2 : P.2 + 1 + ↑s - ↑s + ↑i = P.2 + 1 + i := by omega
                      rw [e1, e2] at this; exact this) (by omega)
    rw [eq1, eq2]
    refine ⟨es2, ?_, r2⟩
    have hfuel : (P.1 + ↑s - P.1).toNat + (P.2 + 1 + ↑s - P.2).toNat = (s + s) + 1 := by omega
    rw [hfuel]
    unfold walkTo
    have c1 : P.1 < P.1 + s ∨ P.2 < P.2 + 1 + s := by omega
    have c2 : P.2 + 1 + s - (P.1 + s) > P.2 - P.1 := by omega
    simp only [c1, ↓reduceIte, c2, bind, Except.bind]
    rw [show (if reverse = true then Kind.delete else Kind.add) = ykind reverse from rfl, e1]
    exact e2

/-- `recordSeq` over a valid route records a walk to the route's last point -/
theorem walkRoute_spec {reverse : Bool} {base : List (RawEdit α)} (hb : AllOK base) (route : List (Int × Int)) :
    ∀ (P : Int × Int) (es : List (RawEdit α)), RouteOK eqb a b P route → RawP eqb a b reverse base es P.1 P.2 →
      ∃ es' Q, walkRoute a b reverse route ⟨P.1, P.2, es⟩ = .ok ⟨Q.1, Q.2, es'⟩ ∧
        RawP eqb a b reverse base es' Q.1 Q.2 ∧ (P :: route).getLast? = some Q := by
  induction route with
  | nil => intro P es _ h; exact ⟨es, P, by simp [walkRoute], h, by simp⟩
  | cons Q rest ih =>
    intro P es hr h
    obtain ⟨es1, e1, r1⟩ := walk_seg eqb a b hb P Q hr.1 h
    obtain ⟨es2, Q2, e2, r2, hl⟩ := ih Q es1 hr.2 r1
    refine ⟨es2, Q2, ?_, r2, ?_⟩
    · obtain ⟨qx, qy⟩ := Q
      simp only [walkRoute, bind, Except.bind]
      simp only [] at e1
      rw [e1]
      exact e2
    · rw [List.getLast?_cons_cons]; exact hl

end
end Dawn.Diff

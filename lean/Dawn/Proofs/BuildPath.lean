import Dawn.Model.Build
/-! `targetInfoPath` is injective on the labels a project can hold (C14): `url.PathEscape` has a left inverse,
and `pkg + "/" + name` determines `pkg` and `name` when the name contains no `/`. -/
namespace Dawn.Build

def hexVal (c : UInt8) : UInt8 := if c < 58 then c - 48 else c - 55

/-- inverse of `pathEscape` on its image -/
def unescape : List UInt8 → List UInt8
  | [] => []
  | [c] => [c]
  | [c, a] => c :: unescape [a]
  | c :: a :: b :: rest => if c == 37 then (hexVal a <<< 4 ||| hexVal b) :: unescape rest else c :: unescape (a :: b :: rest)

theorem unescape_cons_ne (c : UInt8) (rest : List UInt8) (h : (c == 37) = false) : unescape (c :: rest) = c :: unescape rest := by
  match rest with
  | [] => simp [unescape]
  | [a] => simp [unescape]
  | a :: b :: r => simp [unescape, h]

set_option maxRecDepth 100000 in
theorem nibbles_fin : ∀ n : Fin 256,
    (hexVal (upperHex ((UInt8.ofNat n.val) >>> 4)) <<< 4 ||| hexVal (upperHex ((UInt8.ofNat n.val) &&& 15))) = UInt8.ofNat n.val := by
  decide

theorem nibbles (c : UInt8) : (hexVal (upperHex (c >>> 4)) <<< 4 ||| hexVal (upperHex (c &&& 15))) = c := by
  have := nibbles_fin ⟨c.toNat, c.toNat_lt⟩
  simpa using this

theorem unescape_pathEscape (s : List UInt8) : unescape (pathEscape s) = s := by
  induction s with
  | nil => simp [pathEscape, unescape]
  | cons c cs ih =>
    unfold pathEscape
    by_cases h : shouldEscape c = true
    · simp only [h, if_true]
      simp [unescape, nibbles, ih]
    · simp only [h]
      have hc : (c == 37) = false := by
        cases hh : (c == 37) with
        | false => rfl
        | true =>
          have : c = 37 := by simpa using hh
          subst this
          exact absurd (by decide : shouldEscape 37 = true) h
      simp only [Bool.false_eq_true, if_false]
      rw [unescape_cons_ne _ _ hc, ih]

theorem pathEscape_injective {a b : List UInt8} (h : pathEscape a = pathEscape b) : a = b := by
  have := congrArg unescape h
  rwa [unescape_pathEscape, unescape_pathEscape] at this

/-- `a ++ "/" ++ b` determines `a` and `b` when `b` has no `/` -/
theorem split_last {s : UInt8} : ∀ {a a' b b' : List UInt8}, s ∉ b → s ∉ b' → a ++ [s] ++ b = a' ++ [s] ++ b' → a = a' ∧ b = b'
  | [], [], b, b', _, _, h => by simpa using h
  | [], x :: a', b, b', hb, _, h => by
    simp only [List.nil_append, List.cons_append, List.cons.injEq] at h
    exact absurd (by rw [h.2]; simp) hb
  | x :: a, [], b, b', _, hb', h => by
    simp only [List.nil_append, List.cons_append, List.cons.injEq] at h
    exact absurd (by rw [← h.2]; simp) hb'
  | x :: a, y :: a', b, b', hb, hb', h => by
    simp only [List.cons_append, List.cons.injEq] at h
    obtain ⟨h1, h2⟩ := split_last (a := a) (a' := a') hb hb' (by simpa using h.2)
    exact ⟨by rw [h.1, h1], h2⟩

/-- the labels a project holds records for: kind `""` or a kind that is not spelled `target`, a non-empty name without `/` -/
structure Storable (l : LabelS) : Prop where
  kind : l.kind ≠ kindTarget
  name : l.name ≠ []
  noSlash : (47 : UInt8) ∉ l.name

theorem targetInfoPath_injective {l₁ l₂ : LabelS} (h₁ : Storable l₁) (h₂ : Storable l₂)
    (h : targetInfoPath l₁ = targetInfoPath l₂) : l₁ = l₂ := by
  unfold targetInfoPath at h
  simp only [Prod.mk.injEq] at h
  obtain ⟨hk, hf⟩ := h
  have hk' := List.append_cancel_right hk
  have hname₁ : (if l₁.name == [] then nameBuild else l₁.name) = l₁.name := by
    have : (l₁.name == []) = false := by simpa using h₁.name
    simp [this]
  have hname₂ : (if l₂.name == [] then nameBuild else l₂.name) = l₂.name := by
    have : (l₂.name == []) = false := by simpa using h₂.name
    simp [this]
  rw [hname₁, hname₂] at hf
  obtain ⟨hp, hn⟩ := split_last (s := 47) h₁.noSlash h₂.noSlash (by simpa [slash] using pathEscape_injective hf)
  have hkind : l₁.kind = l₂.kind := by
    by_cases e1 : l₁.kind = [] <;> by_cases e2 : l₂.kind = []
    · rw [e1, e2]
    · have : (l₂.kind == []) = false := by simpa using e2
      simp only [e1, this] at hk'
      exact absurd hk'.symm h₂.kind
    · have : (l₁.kind == []) = false := by simpa using e1
      simp only [e2, this] at hk'
      exact absurd hk' h₁.kind
    · have a1 : (l₁.kind == []) = false := by simpa using e1
      have a2 : (l₂.kind == []) = false := by simpa using e2
      simpa [a1, a2] using hk'
  cases l₁; cases l₂
  simp_all

end Dawn.Build

namespace Dawn.Build

/-! ## the keys of the persisted dependencies map survive JSON (D27 repair) -/

theorem unescapeKey_ch (c : Nat) (hc : c ≠ 0xFFFD) (e : List Nat) : unescapeKey (c :: e) = .ch c :: unescapeKey e := by
  match e with
  | [] => simp [unescapeKey, hc]
  | [d] => simp [unescapeKey, hc]
  | a :: b :: r => simp [unescapeKey, hc]

theorem hexVal_hexDigit : ∀ n : Fin 16, hexValLower (hexDigitLower n.val) = some n.val ∧ hexDigitLower n.val ≠ 45 := by decide

set_option maxRecDepth 100000 in
theorem byte_nibbles : ∀ n : Fin 256, n.val / 16 < 16 ∧ n.val % 16 < 16 ∧ UInt8.ofNat (n.val / 16 * 16 + n.val % 16) = UInt8.ofNat n.val := by
  decide

/-- `unescapeLabel (escapeLabel s) = s` for every label `s`: the escaping is reversible, so two labels never share a key -/
theorem unescapeKey_escapeKey (s : List KeyItem) (h : ∀ c, KeyItem.ch c ∈ s → c ≠ 0xFFFD) : unescapeKey (escapeKey s) = s := by
  induction s with
  | nil => rfl
  | cons it rest ih =>
    have ih' := ih (fun c hc => h c (List.mem_cons_of_mem _ hc))
    cases it with
    | ch c =>
      simp only [escapeKey]
      rw [unescapeKey_ch c (h c List.mem_cons_self), ih']
    | repl =>
      simp only [escapeKey, unescapeKey]
      simp [ih']
    | raw b =>
      obtain ⟨h1, h2, h3⟩ := byte_nibbles ⟨b.toNat, b.toNat_lt⟩
      obtain ⟨v1, n1⟩ := hexVal_hexDigit ⟨b.toNat / 16, h1⟩
      obtain ⟨v2, _⟩ := hexVal_hexDigit ⟨b.toNat % 16, h2⟩
      simp only at v1 v2 n1 h3
      simp only [escapeKey, unescapeKey, n1, false_and, if_false, if_true, v1, v2, ih']
      simp [h3]

theorem escapeKey_injective {s t : List KeyItem} (hs : ∀ c, KeyItem.ch c ∈ s → c ≠ 0xFFFD) (ht : ∀ c, KeyItem.ch c ∈ t → c ≠ 0xFFFD)
    (h : escapeKey s = escapeKey t) : s = t := by
  have := congrArg unescapeKey h
  rwa [unescapeKey_escapeKey s hs, unescapeKey_escapeKey t ht] at this

end Dawn.Build

import Dawn.Proofs.LoaderInvB
/-!
The cycle-detection argument for the fixed loader (the last-publisher argument of `design-probes/runner-walk`, on a
functional graph). `Seg s x a b`: from `a`, following one or more `loading` pointers *published before `x`'s own*
(`ptime < ptime x`), one reaches `b`. A pointer that is older than `x`'s publication has not changed since `x`
published, so a goroutine that publishes `x.loading = d` and then walks from `d` follows exactly the path `Seg s x d ·`
— if that path leads back to `x` it finds `x`; when its walk ends without finding `x`, no such path exists
(`¬ Seg s x d x`), and no later step of any other goroutine can create one (later publications are younger than `x`'s).
-/
namespace Dawn.Loader

inductive Seg (s : State) (x : Mod) : Mod → Mod → Prop where
  | one {a b : Mod} : s.loading a = some b → s.ptime a < s.ptime x → Seg s x a b
  | more {a e b : Mod} : s.loading a = some e → s.ptime a < s.ptime x → Seg s x e b → Seg s x a b

theorem Seg.snoc {s : State} {x a b c : Mod} (h : Seg s x a b) (hb : s.loading b = some c) (hp : s.ptime b < s.ptime x) :
    Seg s x a c := by
  induction h with
  | one h1 h2 => exact .more h1 h2 (.one hb hp)
  | more h1 h2 _ ih => exact .more h1 h2 (ih hb hp)

theorem Seg.not_from {s : State} {x b : Mod} (h : Seg s x x b) : False := by
  cases h with
  | one _ h2 => exact Nat.lt_irrefl _ h2
  | more _ h2 _ => exact Nat.lt_irrefl _ h2

/-- pointers are functional: two paths from the same module, one ending in `x`, lie on one line -/
theorem Seg.det {s : State} {x a c : Mod} (h1 : Seg s x a c) (h2 : Seg s x a x) : c = x ∨ Seg s x c x := by
  induction h1 with
  | one ha _ =>
    cases h2 with
    | one hb _ => rw [ha] at hb; cases hb; exact Or.inl rfl
    | more hb _ h3 => rw [ha] at hb; cases hb; exact Or.inr h3
  | more ha _ h4 ih =>
    cases h2 with
    | one hb _ => rw [ha] at hb; cases hb; exact (h4.not_from).elim
    | more hb _ h3 => rw [ha] at hb; cases hb; exact ih h3

/-- `s'` has no old pointer (w.r.t. `x`) that `s` does not have -/
def OldSub (s s' : State) (x : Mod) : Prop :=
  ∀ y z, s'.loading y = some z → s'.ptime y < s'.ptime x → s.loading y = some z ∧ s.ptime y < s.ptime x

theorem Seg.mono {s s' : State} {x a b : Mod} (hs : OldSub s s' x) (h : Seg s' x a b) : Seg s x a b := by
  induction h with
  | one h1 h2 => exact .one (hs _ _ h1 h2).1 (hs _ _ h1 h2).2
  | more h1 h2 _ ih => exact .more (hs _ _ h1 h2).1 (hs _ _ h1 h2).2 ih

theorem Seg.transfer_aux {s s' : State} {x a b : Mod} (hs : OldSub s s' x) (h' : Seg s' x a b) :
    b = x → ∀ c, Seg s x a c → Seg s' x a c := by
  induction h' with
  | one h1 h2 =>
    intro hb c h
    subst hb
    have := hs _ _ h1 h2
    cases h with
    | one hb _ => rw [this.1] at hb; cases hb; exact .one h1 h2
    | more hb _ h3 => rw [this.1] at hb; cases hb; exact (h3.not_from).elim
  | more h1 h2 _ ih =>
    intro hb c h
    have := hs _ _ h1 h2
    cases h with
    | one hb2 _ => rw [this.1] at hb2; cases hb2; exact .one h1 h2
    | more hb2 _ h3 => rw [this.1] at hb2; cases hb2; exact .more h1 h2 (ih hb c h3)

/-- a walker's position on the old path to `x` survives the step (the path's pointers are among those that did not change) -/
theorem Seg.transfer {s s' : State} {x a c : Mod} (hs : OldSub s s' x) (h' : Seg s' x a x) (h : Seg s x a c) :
    Seg s' x a c := Seg.transfer_aux hs h' rfl c h

/-- the goroutine is in `d.wait(x)` (chain walk or condition wait) with `x.loading = d` published -/
def waitingPc : PC → Option Mod
  | .walk d _ | .wlock d | .sleep d => some d
  | _ => none

structure Inv6 (s : State) : Prop where
  /-- the chain walk is on the old path from `d` to `x`, if there is one -/
  walk_on : ∀ t f rest d cur, s.stack t = f :: rest → s.pc t = .walk d cur → Seg s f.mod d f.mod →
      ∃ c, cur = some c ∧ Seg s f.mod d c
  /-- a walk that starts at the waiter itself (a module loading itself) sees it at once -/
  walk_self : ∀ t f rest cur, s.stack t = f :: rest → s.pc t = .walk f.mod cur → cur = some f.mod
  /-- after an unsuccessful walk there is no old path back to the waiter -/
  wait_safe : ∀ t f rest d, s.stack t = f :: rest → (s.pc t = .wlock d ∨ s.pc t = .sleep d) →
      d ≠ f.mod ∧ ¬ Seg s f.mod d f.mod

theorem inv6_init (P : Project) : Inv6 (init P) := by
  constructor <;> intro t f rest <;> intros <;> simp_all [init]



theorem OldSub.of_eq {s s' : State} (hl : s'.loading = s.loading) (hp : s'.ptime = s.ptime) (x : Mod) : OldSub s s' x := by
  intro y z h1 h2; rw [hl] at h1; rw [hp] at h2; exact ⟨h1, h2⟩

theorem Seg.congr {s s' : State} (hl : s'.loading = s.loading) (hp : s'.ptime = s.ptime) {x a b : Mod} :
    Seg s' x a b ↔ Seg s x a b :=
  ⟨Seg.mono (OldSub.of_eq hl hp x), Seg.mono (OldSub.of_eq hl.symm hp.symm x)⟩

theorem OldSub.publish {s s' : State} (inv3 : Inv3 s) {x y d : Mod} (hx : s.loading x ≠ none) (hy : y ≠ x)
    (hl : s'.loading = upd s.loading y (some d)) (hp : s'.ptime = upd s.ptime y s.clock) : OldSub s s' x := by
  intro w z h1 h2
  rw [hl] at h1; rw [hp] at h2
  have hxc := inv3.ptime_lt x hx
  simp only [upd, Ne.symm hy, ↓reduceIte] at h1 h2
  by_cases hw : w = y
  · simp only [hw, ↓reduceIte] at h2; omega
  · simp only [hw, ↓reduceIte] at h1 h2; exact ⟨h1, h2⟩

theorem OldSub.unset {s s' : State} {x y : Mod}
    (hl : s'.loading = upd s.loading y none) (hp : s'.ptime = s.ptime) : OldSub s s' x := by
  intro w z h1 h2
  rw [hl] at h1; rw [hp] at h2
  simp only [upd] at h1
  split at h1
  · cases h1
  · exact ⟨h1, h2⟩

theorem inv6_step {s s' : State} {t : Tid} (inv : Inv6 s)
    (hst : ∀ t1, t1 ≠ t → s'.stack t1 = s.stack t1) (hpc : ∀ t1, t1 ≠ t → s'.pc t1 = s.pc t1)
    (hold : ∀ t1 f rest d, t1 ≠ t → s.stack t1 = f :: rest → waitingPc (s.pc t1) = some d → OldSub s s' f.mod)
    (own_walk : ∀ f rest d cur, s'.stack t = f :: rest → s'.pc t = .walk d cur → Seg s' f.mod d f.mod →
      ∃ c, cur = some c ∧ Seg s' f.mod d c)
    (own_self : ∀ f rest cur, s'.stack t = f :: rest → s'.pc t = .walk f.mod cur → cur = some f.mod)
    (own_safe : ∀ f rest d, s'.stack t = f :: rest → (s'.pc t = .wlock d ∨ s'.pc t = .sleep d) →
      d ≠ f.mod ∧ ¬ Seg s' f.mod d f.mod) : Inv6 s' := by
  constructor
  · intro t1 f rest d cur hs hp hseg
    by_cases ht : t1 = t
    · subst ht; exact own_walk f rest d cur hs hp hseg
    · rw [hst t1 ht] at hs; rw [hpc t1 ht] at hp
      have ho := hold t1 f rest d ht hs (by simp [hp, waitingPc])
      obtain ⟨c, hc, hsc⟩ := inv.walk_on t1 f rest d cur hs hp (hseg.mono ho)
      exact ⟨c, hc, Seg.transfer ho hseg hsc⟩
  · intro t1 f rest cur hs hp
    by_cases ht : t1 = t
    · subst ht; exact own_self f rest cur hs hp
    · rw [hst t1 ht] at hs; rw [hpc t1 ht] at hp
      exact inv.walk_self t1 f rest cur hs hp
  · intro t1 f rest d hs hp
    by_cases ht : t1 = t
    · subst ht; exact own_safe f rest d hs hp
    · rw [hst t1 ht] at hs; rw [hpc t1 ht] at hp
      have ho := hold t1 f rest d ht hs (by rcases hp with h | h <;> simp [h, waitingPc])
      have := inv.wait_safe t1 f rest d hs hp
      exact ⟨this.1, fun h => this.2 (h.mono ho)⟩


theorem seg_setPc {s : State} {t : Tid} {p : PC} {x a b : Mod} : Seg (setPc s t p) x a b ↔ Seg s x a b :=
  Seg.congr (s := s) (s' := setPc s t p) rfl rfl

theorem seg_goSleep {s : State} {t : Tid} {d x a b : Mod} : Seg (goSleep s t d) x a b ↔ Seg s x a b :=
  Seg.congr (s := s) (s' := goSleep s t d) rfl rfl

theorem waiting_ptr {s : State} (inv3 : Inv3 s) {t : Tid} {f : Frame} {rest : List Frame} {d : Mod}
    (hs : s.stack t = f :: rest) (hw : waitingPc (s.pc t) = some d) : s.loading f.mod = some d := by
  have hc := inv3.chain t f rest hs
  simp only [chainOK] at hc
  rw [hc.1]
  cases hpc : s.pc t <;> simp [hpc, waitingPc] at hw <;> simp [topPtr, hw]

theorem inv6_fstep {P : Project} {s s' : State} {t : Tid} (inv2 : Inv2 s) (inv3 : Inv3 s) (inv : Inv6 s)
    (st : FStep P s t s') : Inv6 s' := by
  -- obligations of the other goroutines, by kind of step
  have keepEq : ∀ {s' : State}, s'.loading = s.loading → s'.ptime = s.ptime →
      ∀ t1 f rest d, t1 ≠ t → s.stack t1 = f :: rest → waitingPc (s.pc t1) = some d → OldSub s s' f.mod :=
    fun hl hp t1 f rest d _ _ _ => OldSub.of_eq hl hp _
  have keepPub : ∀ {s' : State} {g : Frame} {grest : List Frame} {e : Mod}, s.stack t = g :: grest →
      s'.loading = upd s.loading g.mod (some e) → s'.ptime = upd s.ptime g.mod s.clock →
      ∀ t1 f rest d, t1 ≠ t → s.stack t1 = f :: rest → waitingPc (s.pc t1) = some d → OldSub s s' f.mod := by
    intro s' g grest e hg hl hp t1 f rest d ht hs hw
    refine OldSub.publish inv3 (by rw [waiting_ptr inv3 hs hw]; simp) ?_ hl hp
    exact inv2.disjoint t t1 g f (Ne.symm ht) (by simp [hg]) (by simp [hs])
  have keepUnset : ∀ {s' : State} {y : Mod}, s'.loading = upd s.loading y none → s'.ptime = s.ptime →
      ∀ t1 f rest d, t1 ≠ t → s.stack t1 = f :: rest → waitingPc (s.pc t1) = some d → OldSub s s' f.mod :=
    fun hl hp t1 f rest d _ _ _ => OldSub.unset hl hp
  cases st
  case enterWalk d f rest hpc hst =>
    refine inv6_step inv (fun t1 h => by simp [setPc]) (fun t1 h => by simp [setPc, upd, h]) (keepEq rfl rfl) ?_ ?_ ?_
    · intro f' rest' d' cur hs hp hseg
      simp only [setPc, upd_same, PC.walk.injEq] at hs hp
      rw [hst] at hs; cases hs
      obtain ⟨rfl, rfl⟩ := hp
      have hseg' : Seg s f.mod d f.mod := seg_setPc.1 hseg
      cases hseg' with
      | one h1 h2 => exact ⟨_, h1, hseg⟩
      | more h1 h2 h3 => exact ⟨_, h1, seg_setPc.2 (.one h1 h2)⟩
    · intro f' rest' cur hs hp
      simp only [setPc, upd_same, PC.walk.injEq] at hs hp
      rw [hst] at hs; cases hs
      obtain ⟨rfl, rfl⟩ := hp
      have hc := inv3.chain t f rest hst
      simp only [chainOK, hpc, topPtr] at hc
      exact hc.1
    · intro f' rest' d' hs hp; simp [setPc] at hp
  case walkNext d c hpc htop =>
    refine inv6_step inv (fun t1 h => by simp [setPc]) (fun t1 h => by simp [setPc, upd, h]) (keepEq rfl rfl) ?_ ?_ ?_
    · intro f rest d' cur hs hp hseg
      simp only [setPc, upd_same, PC.walk.injEq] at hs hp
      obtain ⟨rfl, rfl⟩ := hp
      have hseg' : Seg s f.mod d f.mod := seg_setPc.1 hseg
      obtain ⟨c0, hc0, hdc⟩ := inv.walk_on t f rest d (some c) hs hpc hseg'
      cases hc0
      have hne : c ≠ f.mod := by
        intro e; apply htop; simp [top, hs, e]
      rcases hdc.det hseg' with e | hcx
      · exact absurd e hne
      · cases hcx with
        | one h1 h2 => exact ⟨_, h1, hseg⟩
        | more h1 h2 h3 => exact ⟨_, h1, seg_setPc.2 (hdc.snoc h1 h2)⟩
    · intro f rest cur hs hp
      simp only [setPc, upd_same, PC.walk.injEq] at hs hp
      obtain ⟨rfl, rfl⟩ := hp
      have := inv.walk_self t f rest (some c) hs hpc
      cases this
      exact absurd (by simp [top, hs]) htop
    · intro f rest d' hs hp; simp [setPc] at hp
  case walkNone d hpc =>
    refine inv6_step inv (fun t1 h => by simp [setPc]) (fun t1 h => by simp [setPc, upd, h]) (keepEq rfl rfl) ?_ ?_ ?_
    · intro f rest d' cur hs hp; simp [setPc] at hp
    · intro f rest cur hs hp; simp [setPc] at hp
    · intro f rest d' hs hp
      simp only [setPc, upd_same, PC.wlock.injEq, reduceCtorEq, or_false] at hs hp
      subst hp
      refine ⟨?_, fun hseg => ?_⟩
      · intro e; subst e
        have := inv.walk_self t f rest none hs hpc
        cases this
      · obtain ⟨c0, hc0, _⟩ := inv.walk_on t f rest d none hs hpc (seg_setPc.1 hseg)
        cases hc0
  case wlockSleep d hpc hl =>
    refine inv6_step inv (fun t1 h => by simp [goSleep]) (fun t1 h => by simp [goSleep, upd, h]) (keepEq rfl rfl) ?_ ?_ ?_
    · intro f rest d' cur hs hp; simp [goSleep] at hp
    · intro f rest cur hs hp; simp [goSleep] at hp
    · intro f rest d' hs hp
      simp only [goSleep, upd_same, PC.sleep.injEq, reduceCtorEq, false_or] at hs hp
      subst hp
      have := inv.wait_safe t f rest d hs (Or.inl hpc)
      exact ⟨this.1, fun h => this.2 (seg_goSleep.1 h)⟩
  case wakeAgain d hpc hna hl =>
    refine inv6_step inv (fun t1 h => by simp [goSleep]) (fun t1 h => by simp [goSleep, upd, h]) (keepEq rfl rfl) ?_ ?_ ?_
    · intro f rest d' cur hs hp; simp [goSleep] at hp
    · intro f rest cur hs hp; simp [goSleep] at hp
    · intro f rest d' hs hp
      simp only [goSleep, upd_same, PC.sleep.injEq, reduceCtorEq, false_or] at hs hp
      subst hp
      have := inv.wait_safe t f rest d hs (Or.inr hpc)
      exact ⟨this.1, fun h => this.2 (seg_goSleep.1 h)⟩
  case runBroken f rest hpc hst hb =>
    refine inv6_step inv (fun t1 h => by simp [setPc]) (fun t1 h => by simp [setPc, upd, h]) (keepEq rfl rfl) ?_ ?_ ?_
    all_goals (intros; simp_all [setPc])
  case runFin f rest hpc hst hb htd =>
    refine inv6_step inv (fun t1 h => by simp [setPc]) (fun t1 h => by simp [setPc, upd, h]) (keepEq rfl rfl) ?_ ?_ ?_
    all_goals (intros; simp_all [setPc])
  case runCall f rest d ds hpc hst hb htd =>
    refine inv6_step inv (fun t1 h => by simp [setPc]) (fun t1 h => by simp [setPc, upd, h]) (keepEq rfl rfl) ?_ ?_ ?_
    all_goals (intros; simp_all [setPc])
  case callFound d hpc hr =>
    refine inv6_step inv (fun t1 h => by simp [setPc]) (fun t1 h => by simp [setPc, upd, h]) (keepEq rfl rfl) ?_ ?_ ?_
    all_goals (intros; simp_all [setPc])
  case callNew d hpc hr =>
    refine inv6_step inv (fun t1 h => by simp) (fun t1 h => by simp [upd, h]) (keepEq rfl rfl) ?_ ?_ ?_
    all_goals (intros; simp_all)
  case setNewRoot d hpc hst =>
    refine inv6_step inv (fun t1 h => by simp [setPc]) (fun t1 h => by simp [setPc, upd, h]) (keepEq rfl rfl) ?_ ?_ ?_
    all_goals (intros; simp_all [setPc])
  case setFoundRoot d hpc hst =>
    refine inv6_step inv (fun t1 h => by simp [setPc]) (fun t1 h => by simp [setPc, upd, h]) (keepEq rfl rfl) ?_ ?_ ?_
    all_goals (intros; simp_all [setPc])
  case enterRoot d hpc hst =>
    refine inv6_step inv (fun t1 h => by simp [setPc]) (fun t1 h => by simp [setPc, upd, h]) (keepEq rfl rfl) ?_ ?_ ?_
    all_goals (intros; simp_all [setPc])
  case walkCyc d c hpc htop =>
    refine inv6_step inv (fun t1 h => by simp [setPc]) (fun t1 h => by simp [setPc, upd, h]) (keepEq rfl rfl) ?_ ?_ ?_
    all_goals (intros; simp_all [setPc])
  case wlockRet d hpc hl =>
    refine inv6_step inv (fun t1 h => by simp [setPc]) (fun t1 h => by simp [setPc, upd, h]) (keepEq rfl rfl) ?_ ?_ ?_
    all_goals (intros; simp_all [setPc])
  case wake d hpc hna hl =>
    refine inv6_step inv (fun t1 h => by simp [setPc]) (fun t1 h => by simp [setPc, upd, h]) (keepEq rfl rfl) ?_ ?_ ?_
    all_goals (intros; simp_all [setPc])
  case unsetRoot r hpc hst =>
    refine inv6_step inv (fun t1 h => by simp [setPc]) (fun t1 h => by simp [setPc, upd, h]) (keepEq rfl rfl) ?_ ?_ ?_
    all_goals (intros; simp_all [setPc])
  case setNewPub d f rest hpc hst =>
    refine inv6_step inv (fun t1 h => by simp [setPc, publish]) (fun t1 h => by simp [setPc, publish, upd, h])
      (keepPub hst rfl rfl) ?_ ?_ ?_
    all_goals (intros; simp_all [setPc, publish])
  case setFoundPub d f rest hpc hst =>
    refine inv6_step inv (fun t1 h => by simp [setPc, publish]) (fun t1 h => by simp [setPc, publish, upd, h])
      (keepPub hst rfl rfl) ?_ ?_ ?_
    all_goals (intros; simp_all [setPc, publish])
  case load d hpc =>
    refine inv6_step inv (fun t1 h => by simp [upd, h]) (fun t1 h => by simp [upd, h]) (keepEq rfl rfl) ?_ ?_ ?_
    all_goals (intros; simp_all)
  case unsetOk f rest hpc hst =>
    refine inv6_step inv (fun t1 h => by simp [upd, h]) (fun t1 h => by simp [upd, h]) (keepUnset rfl rfl) ?_ ?_ ?_
    all_goals (intros; simp_all)
  case unsetFail r f rest hpc hr hst =>
    refine inv6_step inv (fun t1 h => by simp [setPc]) (fun t1 h => by simp [setPc, upd, h]) (keepUnset rfl rfl) ?_ ?_ ?_
    all_goals (intros; simp_all [setPc])
  case fin r f rest hpc hst =>
    refine inv6_step inv (fun t1 h => by simp [upd, h]) (fun t1 h => by simp [upd, h]) (keepEq rfl rfl) ?_ ?_ ?_
    all_goals (intros; simp_all)

theorem inv6_reachable {P : Project} {s : State} (h : Reachable .fixed P s) : Inv6 s :=
  reachable_induction (I := Inv6) (inv6_init P)
    (fun _ _ _ hr ih st => inv6_fstep (inv2_reachable hr) (inv3_reachable hr) ih st) h

end Dawn.Loader

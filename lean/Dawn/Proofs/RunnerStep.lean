import Dawn.Model.Runner
/-!
# Runner: the transition function as a relation with one constructor per kind of step

`TStep P s l p s'` — thread `l`, whose program counter is `p`, can step from `s` to `s'`. Proved equivalent
to the executable `stepTgt` once (`tstep_of_step`), so that every invariant proof is a `cases` with the
successor state already substituted.
-/
namespace Dawn.Runner

inductive TStep (P : Params) (s : State) (l : Label) : PC → State → Prop where
  | enter1 (hc : s.capacity ≠ 0) :
      TStep P s l .enter1
        { s with capacity := s.capacity - 1, holds := upd s.holds l true, pc := upd s.pc l (some .load) }
  | load :
      TStep P s l .load
        { s with loads := upd s.loads l (s.loads l + 1),
                 order := if P.known l then s.order else s.order ++ [l],
                 pc := upd s.pc l (some (if P.known l then .evalStart else .finish .failed .unknown)) }
  | evalStart :
      TStep P s l .evalStart
        { s with evals := upd s.evals l (s.evals l + 1), pc := upd s.pc l (some .exit1) }
  | exit1 :
      TStep P s l .exit1
        { s with capacity := s.capacity + 1, holds := upd s.holds l false,
                 pc := upd s.pc l (some (.startDeps (P.deps l))) }
  | start (d : Label) (rest : List Label) :
      TStep P s l (.startDeps (d :: rest))
        { startTarget s d with pc := upd (startTarget s d).pc l (some (.startDeps rest)) }
  | publish :
      TStep P s l (.startDeps [])
        { s with waiting := upd s.waiting l (some (P.deps l)),
                 ptime := upd s.ptime l s.clock, clock := s.clock + 1,
                 seen := upd s.seen l [], expd := upd s.expd l [],
                 pc := upd s.pc l (some (.walk (P.deps l))) }
  | found (rest : List Label) :
      TStep P s l (.walk (l :: rest)) { s with pc := upd s.pc l (some .unpubCyc) }
  | readPub (d : Label) (rest ds : List Label) (hd : d ≠ l) (hw : s.waiting d = some ds) :
      TStep P s l (.walk (d :: rest))
        { s with seen := upd s.seen l (d :: s.seen l), expd := upd s.expd l (d :: s.expd l),
                 pc := upd s.pc l (some (.walk (ds ++ rest))) }
  | readNil (d : Label) (rest : List Label) (hd : d ≠ l) (hw : s.waiting d = none) :
      TStep P s l (.walk (d :: rest))
        { s with seen := upd s.seen l (d :: s.seen l), pc := upd s.pc l (some (.walk rest)) }
  | walked :
      TStep P s l (.walk []) { s with pc := upd s.pc l (some (.waitDeps (P.deps l) [])) }
  | waited (d : Label) (rest : List Label) (hs : List Err) (hr : s.status d ≠ .running) :
      TStep P s l (.waitDeps (d :: rest) hs)
        { s with pc := upd s.pc l (some (.waitDeps rest (hs ++ [s.err d]))) }
  | unpub (hs : List Err) :
      TStep P s l (.waitDeps [] hs)
        { s with waiting := upd s.waiting l none, pc := upd s.pc l (some (.enter2 (some hs))) }
  | unpubCyc :
      TStep P s l .unpubCyc
        { s with waiting := upd s.waiting l none, pc := upd s.pc l (some (.enter2 none)) }
  | enter2 (res : Results) (hc : s.capacity ≠ 0) :
      TStep P s l (.enter2 res)
        { s with capacity := s.capacity - 1, holds := upd s.holds l true,
                 pc := upd s.pc l (some (.evalRest res)) }
  | evalRest (res : Results) :
      TStep P s l (.evalRest res)
        { s with cyc := upd s.cyc l (s.cyc l || res.isNone), order := s.order ++ [l],
                 pc := upd s.pc l (some (.finish (localOutcome res (P.bodyOk l)).1 (localOutcome res (P.bodyOk l)).2)) }
  | finish (st : Status) (e : Err) :
      TStep P s l (.finish st e)
        { s with status := upd s.status l st, err := upd s.err l e,
                 ftime := upd s.ftime l s.fclock, fclock := s.fclock + 1,
                 pc := upd s.pc l (some .exit2) }
  | exit2 :
      TStep P s l .exit2
        { s with capacity := s.capacity + 1, holds := upd s.holds l false, pc := upd s.pc l (some .wgDone) }
  | wgDone :
      TStep P s l .wgDone { s with live := s.live - 1, pc := upd s.pc l (some .done) }

theorem tstep_of_stepTgt {P : Params} {s s' : State} {l : Label} {p : PC}
    (h : stepTgt P s l p = some s') : TStep P s l p s' := by
  cases p with
  | enter1 =>
    simp only [stepTgt] at h
    split at h
    · cases h
    next hc => injection h with h; subst h; exact .enter1 hc
  | load => simp only [stepTgt, Option.some.injEq] at h; subst h; exact .load
  | evalStart => simp only [stepTgt, Option.some.injEq] at h; subst h; exact .evalStart
  | exit1 => simp only [stepTgt, Option.some.injEq] at h; subst h; exact .exit1
  | startDeps todo =>
    cases todo with
    | nil => simp only [stepTgt, Option.some.injEq] at h; subst h; exact .publish
    | cons d rest => simp only [stepTgt, Option.some.injEq] at h; subst h; exact .start d rest
  | walk todo =>
    cases todo with
    | nil => simp only [stepTgt, Option.some.injEq] at h; subst h; exact .walked
    | cons d rest =>
      simp only [stepTgt] at h
      split at h
      next hd => injection h with h; subst h; subst hd; exact .found rest
      next hd =>
        split at h
        next ds hw => injection h with h; subst h; exact .readPub d rest ds hd hw
        next hw => injection h with h; subst h; exact .readNil d rest hd hw
  | waitDeps todo hs =>
    cases todo with
    | nil => simp only [stepTgt, Option.some.injEq] at h; subst h; exact .unpub hs
    | cons d rest =>
      simp only [stepTgt] at h
      split at h
      · cases h
      next hr => injection h with h; subst h; exact .waited d rest hs hr
  | unpubCyc => simp only [stepTgt, Option.some.injEq] at h; subst h; exact .unpubCyc
  | enter2 res =>
    simp only [stepTgt] at h
    split at h
    · cases h
    next hc => injection h with h; subst h; exact .enter2 res hc
  | evalRest res => simp only [stepTgt, Option.some.injEq] at h; subst h; exact .evalRest res
  | finish st e => simp only [stepTgt, Option.some.injEq] at h; subst h; exact .finish st e
  | exit2 => simp only [stepTgt, Option.some.injEq] at h; subst h; exact .exit2
  | wgDone => simp only [stepTgt, Option.some.injEq] at h; subst h; exact .wgDone
  | done => simp [stepTgt] at h

theorem stepTgt_of_tstep {P : Params} {s s' : State} {l : Label} {p : PC}
    (h : TStep P s l p s') : stepTgt P s l p = some s' := by
  cases h <;> simp_all [stepTgt]

/-- the three kinds of step of the main thread -/
inductive MStep (P : Params) (s : State) : State → Prop where
  | start (hm : s.main = .start) : MStep P s { startTarget s P.root with main := .wait }
  | wait (hm : s.main = .wait) (hr : s.status P.root ≠ .running) :
      MStep P s { s with main := .waitAll (s.err P.root) }
  | waitAll (e : Err) (hm : s.main = .waitAll e) (hl : s.live = 0) : MStep P s { s with main := .done e }

theorem mstep_of_step {P : Params} {s s' : State} (h : step P s .main = some s') : MStep P s s' := by
  simp only [step] at h
  cases hm : s.main with
  | start => rw [hm] at h; simp only [stepMain, Option.some.injEq] at h; subst h; exact .start hm
  | wait =>
    rw [hm] at h; simp only [stepMain] at h
    split at h
    · cases h
    next hr => injection h with h; subst h; exact .wait hm hr
  | waitAll e =>
    rw [hm] at h; simp only [stepMain] at h
    split at h
    next hl => injection h with h; subst h; exact .waitAll e hm hl
    · cases h
  | done e => rw [hm] at h; simp [stepMain] at h

/-- every step is a main step or a step of an existing target thread -/
theorem step_cases {P : Params} {s s' : State} {t : Tid} (h : step P s t = some s') :
    (t = .main ∧ MStep P s s') ∨ (∃ l p, t = .tgt l ∧ s.pc l = some p ∧ TStep P s l p s') := by
  cases t with
  | main => exact Or.inl ⟨rfl, mstep_of_step h⟩
  | tgt l =>
    right
    simp only [step] at h
    cases hp : s.pc l with
    | none => rw [hp] at h; cases h
    | some p => rw [hp] at h; exact ⟨l, p, rfl, hp, tstep_of_stepTgt h⟩

end Dawn.Runner

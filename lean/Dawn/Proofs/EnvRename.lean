import Dawn.Model.Env
/-!
The fingerprint does not depend on addresses — C08_deterministic.

Two loads of the same project text build isomorphic value graphs at different Go addresses. `Renames ρ g g'`
says that `g'` is `g` with every object moved from address `a` to `ρ a` (all references renamed with it);
for an injective `ρ` the traversal of `g'` from `ρ root` emits exactly the opcodes of the traversal of `g`
from `root`: memo ids, ordinals of the `Recursive` marker and batch boundaries never mention an address.
-/
namespace Dawn.Env

def Val.rename (ρ : Nat → Nat) : Val → Val
  | .atom a => .atom a
  | .ref a => .ref (ρ a)

def renKvs (ρ : Nat → Nat) : List (Val × Val) → List (Val × Val)
  | [] => []
  | (k, v) :: rest => (k.rename ρ, v.rename ρ) :: renKvs ρ rest

def Obj.rename (ρ : Nat → Nat) : Obj → Obj
  | .tuple xs => .tuple (xs.map (Val.rename ρ))
  | .list xs => .list (xs.map (Val.rename ρ))
  | .dict kvs => .dict (renKvs ρ kvs)
  | .set xs => .set (xs.map (Val.rename ρ))
  | .target l => .target l
  | .builtin n r => .builtin n (r.rename ρ)
  | .code n m gl bc sg => .code n (m.rename ρ) (gl.rename ρ) bc (sg.rename ρ)
  | .func n d fv c => .func n (d.rename ρ) (fv.rename ρ) (c.rename ρ)
  | .mandatory => .mandatory
  | .other => .other

/-- `g'` is `g` with the object at every address `a` moved to `ρ a` -/
def Renames (ρ : Nat → Nat) (g g' : Heap) : Prop :=
  ∀ a, g'[ρ a]? = (g[a]?).map (Obj.rename ρ)

def renMemo (ρ : Nat → Nat) : List (Nat × Nat) → List (Nat × Nat)
  | [] => []
  | (k, v) :: rest => (ρ k, v) :: renMemo ρ rest

def EncSt.rename (ρ : Nat → Nat) (st : EncSt) : EncSt :=
  { st with memo := renMemo ρ st.memo, seen := st.seen.map ρ }

def Res.rename (ρ : Nat → Nat) : Res → Res
  | .error e => .error e
  | .ok (st, ops) => .ok (st.rename ρ, ops)

variable {ρ : Nat → Nat}

theorem lookup_rename (hρ : Function.Injective ρ) (m : List (Nat × Nat)) (a : Nat) :
    lookup (renMemo ρ m) (ρ a) = lookup m a := by
  induction m with
  | nil => rfl
  | cons p rest ih =>
    obtain ⟨k, v⟩ := p
    simp only [renMemo, lookup, ih]
    by_cases h : k = a
    · simp [h]
    · have : ρ k ≠ ρ a := fun e => h (hρ e)
      simp [h, this]

theorem indexOf_rename (hρ : Function.Injective ρ) (xs : List Nat) (a : Nat) :
    indexOf (xs.map ρ) (ρ a) = indexOf xs a := by
  induction xs with
  | nil => rfl
  | cons x rest ih =>
    simp only [List.map, indexOf, ih]
    by_cases h : x = a
    · simp [h]
    · have : ρ x ≠ ρ a := fun e => h (hρ e)
      simp [h, this]

theorem memoize_rename (hρ : Function.Injective ρ) (cfg : Cfg) (st : EncSt) (a : Nat) :
    (st.rename ρ).memoize cfg (ρ a) = (st.memoize cfg a).rename ρ := by
  simp [EncSt.memoize, EncSt.rename, renMemo, lookup_rename hρ]

theorem seen_rename (st : EncSt) (a : Nat) :
    ({ st.rename ρ with seen := (st.rename ρ).seen ++ [ρ a] } : EncSt) = ({ st with seen := st.seen ++ [a] } : EncSt).rename ρ := by
  simp [EncSt.rename]

theorem flattenKvs_rename (kvs : List (Val × Val)) :
    flattenKvs (renKvs ρ kvs) = (flattenKvs kvs).map (Val.rename ρ) := by
  induction kvs with
  | nil => rfl
  | cons p rest ih => obtain ⟨k, v⟩ := p; simp [renKvs, flattenKvs, ih]

theorem renKvs_eq_map (kvs : List (Val × Val)) :
    renKvs ρ kvs = kvs.map fun p => (p.1.rename ρ, p.2.rename ρ) := by
  induction kvs with
  | nil => rfl
  | cons p rest ih => obtain ⟨k, v⟩ := p; simp [renKvs, ih]

theorem chunks_stop {α} (n : Nat) (xs : List α) (h : n = 0 ∨ xs = []) : chunks n xs = [] := by
  rw [chunks]; simp [h]

theorem chunks_step {α} (n : Nat) (xs : List α) (hn : n ≠ 0) (hx : xs ≠ []) :
    chunks n xs = xs.take n :: chunks n (xs.drop n) := by
  rw [chunks]; simp [hn, hx]

theorem chunks_map {α β} (f : α → β) (n : Nat) (xs : List α) :
    chunks n (xs.map f) = (chunks n xs).map (List.map f) := by
  induction h : xs.length using Nat.strongRecOn generalizing xs with
  | _ len ih =>
    by_cases hn : n = 0
    · rw [chunks_stop _ _ (Or.inl hn), chunks_stop _ _ (Or.inl hn)]; rfl
    · by_cases hx : xs = []
      · subst hx
        rw [List.map_nil, chunks_stop n ([] : List β) (Or.inr rfl), chunks_stop n ([] : List α) (Or.inr rfl)]; rfl
      · have hx' : xs.map f ≠ [] := by simpa using hx
        rw [chunks_step _ _ hn hx, chunks_step _ _ hn hx']
        have hpos : 0 < xs.length := List.length_pos_iff.mpr hx
        have hlt : (xs.drop n).length < len := by simp [List.length_drop]; omega
        have := ih _ hlt (xs.drop n) rfl
        simp only [List.map_cons, List.map_take, ← List.map_drop, this]

theorem encSeq_rename (f f' : EncSt → Val → Res)
    (hf : ∀ st x, f' (st.rename ρ) (x.rename ρ) = (f st x).rename ρ) :
    ∀ (xs : List Val) (st : EncSt), encSeq f' (st.rename ρ) (xs.map (Val.rename ρ)) = (encSeq f st xs).rename ρ := by
  intro xs
  induction xs with
  | nil => intro st; rfl
  | cons x xs ih =>
    intro st
    simp only [List.map, encSeq, hf]
    cases hx : f st x with
    | error e => rfl
    | ok p =>
      obtain ⟨st1, ops1⟩ := p
      simp only [Res.rename, ih]
      cases hr : encSeq f st1 xs with
      | error e => rfl
      | ok q => obtain ⟨st2, ops2⟩ := q; rfl

theorem encBatches_rename (hρ : Function.Injective ρ) (cfg : Cfg) (f f' : EncSt → Val → Res)
    (hf : ∀ st x, f' (st.rename ρ) (x.rename ρ) = (f st x).rename ρ) (self : Nat) (close : Op) :
    ∀ (bs : List (List Val)) (first : Bool) (st : EncSt),
      encBatches cfg f' (ρ self) close first (st.rename ρ) (bs.map (List.map (Val.rename ρ)))
        = (encBatches cfg f self close first st bs).rename ρ := by
  intro bs
  induction bs with
  | nil => intro first st; rfl
  | cons b bs ih =>
    intro first st
    simp only [List.map, encBatches, encSeq_rename f f' hf]
    have hpre : (lookup (st.rename ρ).memo (ρ self)) = lookup st.memo self := by
      simp [EncSt.rename, lookup_rename hρ]
    rw [hpre]
    cases hx : encSeq f st b with
    | error e => rfl
    | ok p =>
      obtain ⟨st1, ops1⟩ := p
      simp only [Res.rename, ih]
      cases hr : encBatches cfg f self close false st1 bs with
      | error e => rfl
      | ok q => obtain ⟨st2, ops2⟩ := q; rfl

theorem map_renKvs_chunks (n : Nat) (kvs : List (Val × Val)) :
    (chunks n (renKvs ρ kvs)).map flattenKvs = ((chunks n kvs).map flattenKvs).map (List.map (Val.rename ρ)) := by
  rw [renKvs_eq_map, chunks_map]
  simp only [List.map_map]
  apply List.map_congr_left
  intro c _
  simp only [Function.comp]
  rw [← renKvs_eq_map, flattenKvs_rename]

/-- the traversal commutes with renaming -/
theorem encVal_rename (hρ : Function.Injective ρ) (cfg : Cfg) (g g' : Heap) (hr : Renames ρ g g') :
    ∀ fuel st v, encVal cfg g' fuel (st.rename ρ) (v.rename ρ) = (encVal cfg g fuel st v).rename ρ := by
  intro fuel
  induction fuel with
  | zero =>
    intro st v
    cases v with
    | atom a => rfl
    | ref a => rfl
  | succ fuel ih =>
    intro st v
    cases v with
    | atom a => rfl
    | ref a =>
      simp only [Val.rename, encVal]
      have hlk : lookup (st.rename ρ).memo (ρ a) = lookup st.memo a := by simp [EncSt.rename, lookup_rename hρ]
      have hix : indexOf (st.rename ρ).seen (ρ a) = indexOf st.seen a := by simp [EncSt.rename, indexOf_rename hρ]
      rw [hlk, hr a]
      cases hl : lookup st.memo a with
      | some id => rfl
      | none =>
        simp only []
        cases hg : g[a]? with
        | none => rfl
        | some o =>
          simp only [Option.map]
          cases o with
          | tuple xs =>
            simp only [Obj.rename, encSeq_rename _ _ ih, List.length_map]
            cases encSeq (encVal cfg g fuel) st xs with
            | error e => rfl
            | ok p => rfl
          | set xs =>
            simp only [Obj.rename, memoize_rename hρ, chunks_map, encBatches_rename hρ cfg _ _ ih]
            cases encBatches cfg (encVal cfg g fuel) a Op.additems true (st.memoize cfg a) (chunks cfg.batch xs) with
            | error e => rfl
            | ok p => rfl
          | dict kvs =>
            simp only [Obj.rename, memoize_rename hρ, map_renKvs_chunks, encBatches_rename hρ cfg _ _ ih]
            cases encBatches cfg (encVal cfg g fuel) a Op.setitems true (st.memoize cfg a) ((chunks cfg.batch kvs).map flattenKvs) with
            | error e => rfl
            | ok p => rfl
          | list xs =>
            cases xs with
            | nil => simp only [Obj.rename, List.map, memoize_rename hρ]; rfl
            | cons x rest =>
              cases rest with
              | nil =>
                simp only [Obj.rename, List.map, memoize_rename hρ, ih]
                cases encVal cfg g fuel (st.memoize cfg a) x with
                | error e => rfl
                | ok p => rfl
              | cons y rest =>
                have : (x :: y :: rest).map (Val.rename ρ) = x.rename ρ :: y.rename ρ :: rest.map (Val.rename ρ) := rfl
                simp only [Obj.rename, List.map]
                rw [← this, memoize_rename hρ, chunks_map, encBatches_rename hρ cfg _ _ ih]
                cases encBatches cfg (encVal cfg g fuel) a Op.appends true (st.memoize cfg a) (chunks cfg.batch (x :: y :: rest)) with
                | error e => rfl
                | ok p => rfl
          | target label => simp only [Obj.rename, memoize_rename hρ]; rfl
          | mandatory =>
            simp only [Obj.rename, memoize_rename hρ]
            split <;> rfl
          | other => rfl
          | builtin name recv =>
            simp only [Obj.rename, hix, memoize_rename hρ]
            split
            · cases hi : (if cfg.fixed = true then indexOf st.seen a else none) with
              | some idx => rfl
              | none =>
                simp only []
                have hst : (if cfg.fixed = true then ({ st.rename ρ with seen := (st.rename ρ).seen ++ [ρ a] } : EncSt) else st.rename ρ)
                    = (if cfg.fixed = true then ({ st with seen := st.seen ++ [a] } : EncSt) else st).rename ρ := by
                  split
                  · exact seen_rename st a
                  · rfl
                rw [hst, ih]
                cases encVal cfg g fuel (if cfg.fixed = true then { st with seen := st.seen ++ [a] } else st) recv with
                | error e => rfl
                | ok p => obtain ⟨s, o⟩ := p; simp only [Res.rename, memoize_rename hρ]
            · rfl
          | code name m gl bc sig =>
            simp only [Obj.rename, hix, memoize_rename hρ]
            cases hi : (if cfg.fixed = true then indexOf st.seen a else none) with
            | some idx => rfl
            | none =>
              simp only []
              have hst : (if cfg.fixed = true then ({ st.rename ρ with seen := (st.rename ρ).seen ++ [ρ a] } : EncSt) else st.rename ρ)
                  = (if cfg.fixed = true then ({ st with seen := st.seen ++ [a] } : EncSt) else st).rename ρ := by
                split
                · exact seen_rename st a
                · rfl
              have hseq := encSeq_rename _ _ ih [m, gl] (if cfg.fixed = true then { st with seen := st.seen ++ [a] } else st)
              simp only [List.map] at hseq
              rw [hst, hseq]
              cases encSeq (encVal cfg g fuel) (if cfg.fixed = true then { st with seen := st.seen ++ [a] } else st) [m, gl] with
              | error e => rfl
              | ok p =>
                obtain ⟨s1, o1⟩ := p
                simp only [Res.rename]
                split
                · rw [ih]
                  cases encVal cfg g fuel s1 sig with
                  | error e => rfl
                  | ok q => obtain ⟨s2, o2⟩ := q; simp only [Res.rename, memoize_rename hρ]
                · simp only [memoize_rename hρ]
          | func name d fv c =>
            simp only [Obj.rename, hix, memoize_rename hρ]
            cases hi : (if cfg.fixed = true then indexOf st.seen a else none) with
            | some idx => rfl
            | none =>
              simp only []
              have hst : (if cfg.fixed = true then ({ st.rename ρ with seen := (st.rename ρ).seen ++ [ρ a] } : EncSt) else st.rename ρ)
                  = (if cfg.fixed = true then ({ st with seen := st.seen ++ [a] } : EncSt) else st).rename ρ := by
                split
                · exact seen_rename st a
                · rfl
              have hseq := encSeq_rename _ _ ih [d, fv, c] (if cfg.fixed = true then { st with seen := st.seen ++ [a] } else st)
              simp only [List.map] at hseq
              rw [hst, hseq]
              cases encSeq (encVal cfg g fuel) (if cfg.fixed = true then { st with seen := st.seen ++ [a] } else st) [d, fv, c] with
              | error e => rfl
              | ok p => obtain ⟨s1, o1⟩ := p; simp only [Res.rename, memoize_rename hρ]

end Dawn.Env

import Dawn.Model.Build
/-! Lemmas about the incremental-engine model, part 1: effects, visits, dry runs, crash prefixes, collection,
record paths. The persisted-state invariant behind C01/C03 is in `Dawn/Proofs/BuildInv.lean`. -/
namespace Dawn.Build

/-! ## effects -/

@[simp] theorem applySteps_nil (w : World) : applySteps w [] = w := rfl
@[simp] theorem applySteps_cons (w : World) (s : Step) (ss : List Step) :
    applySteps w (s :: ss) = applySteps (s.apply w) ss := rfl
theorem applySteps_append (w : World) (a b : List Step) :
    applySteps w (a ++ b) = applySteps (applySteps w a) b := by
  simp [applySteps, List.foldl_append]

/-- `saveTargetInfo` as a whole: the record is replaced, nothing else changes -/
theorem applySteps_save (w : World) (l : Label) (r : Rec) :
    applySteps w (saveSteps l r) = { w with recs := upd w.recs l (some r) } := by
  simp [saveSteps, Step.apply, Eff.apply]

/-- a step that carries no effect -/
@[simp] theorem apply_noEff (w : World) (h : Hook) (l : Label) : Step.apply w ⟨none, h, l⟩ = w := rfl

/-- writing the generated files of one body -/
def writeAll (files : Path → SrcVal) : List (Path × Nat) → Path → SrcVal
  | [] => files
  | gc :: rest => writeAll (upd files gc.1 (.file gc.2)) rest

theorem applySteps_writes (w : World) (l : Label) (ws : List (Path × Nat)) :
    applySteps w (ws.map fun gc => Step.mk (some (.genWrite gc.1 gc.2)) .bodyWrote l) =
      { w with files := writeAll w.files ws } := by
  induction ws generalizing w with
  | nil => rfl
  | cons gc rest ih => simp [Step.apply, Eff.apply, ih, writeAll]

theorem writeAll_not_mem (files : Path → SrcVal) (ws : List (Path × Nat)) (p : Path)
    (h : ∀ gc ∈ ws, gc.1 ≠ p) : writeAll files ws p = files p := by
  induction ws generalizing files with
  | nil => rfl
  | cons gc rest ih =>
    simp only [writeAll]
    rw [ih]
    · exact upd_other _ _ _ _ (fun e => h gc List.mem_cons_self e.symm)
    · intro x hx; exact h x (List.mem_cons_of_mem _ hx)

/-- the value a body leaves at a path it writes (paths of one body are pairwise different) -/
theorem writeAll_mem (files : Path → SrcVal) (ws : List (Path × Nat)) (g : Path) (c : Nat)
    (hnd : (ws.map (·.1)).Nodup) (h : (g, c) ∈ ws) : writeAll files ws g = .file c := by
  induction ws generalizing files with
  | nil => cases h
  | cons gc rest ih =>
    simp only [List.map_cons, List.nodup_cons] at hnd
    simp only [writeAll]
    rcases List.mem_cons.mp h with e | e
    · subst e
      rw [writeAll_not_mem]
      · simp
      · intro x hx e; exact hnd.1 (e ▸ List.mem_map_of_mem (f := (·.1)) hx)
    · exact ih _ hnd.2 e

/-! ## what one execution leaves behind -/

/-- the world after the steps of an execution, and the record it ends with -/
theorem applySteps_exec_src (P : Params) (t : Tree) (o : Opts) (w : World) (l : Label) (d : Def) (info : Rec)
    (depData : List (Label × Stamp)) (hk : d.kind = .src) :
    let r : Rec := ⟨depData, srcData P (w.files d.path), false, info.runs, none⟩
    execSteps P t o w l d info depData =
      ([⟨none, .bodyBefore, l⟩, ⟨none, .bodyAfter, l⟩, ⟨none, .recordSuccess, l⟩] ++ saveSteps l r, r, true) ∧
    applySteps w (execSteps P t o w l d info depData).1 = { w with recs := upd w.recs l (some r) } := by
  intro r
  have h1 : execSteps P t o w l d info depData =
      ([⟨none, .bodyBefore, l⟩, ⟨none, .bodyAfter, l⟩, ⟨none, .recordSuccess, l⟩] ++ saveSteps l r, r, true) := by
    simp [execSteps, hk, r]
  refine ⟨h1, ?_⟩
  rw [h1]
  simp only [applySteps_append, applySteps_cons, apply_noEff, applySteps_nil, applySteps_save]

theorem upd_upd {α} (f : Nat → α) (k : Nat) (a b : α) : upd (upd f k a) k b = upd f k b := by
  funext x; by_cases h : x = k <;> simp [upd, h]

theorem applySteps_exec_fn_ok (P : Params) (t : Tree) (o : Opts) (w : World) (l : Label) (d : Def) (info : Rec)
    (depData : List (Label × Stamp)) (hk : d.kind = .fn) (hf : o.fails l = false) :
    let r : Rec := ⟨depData, .env d.env, false, info.runs + 1, some (attrsOf d)⟩
    (execSteps P t o w l d info depData).2 = (r, true) ∧
    applySteps w (execSteps P t o w l d info depData).1 =
      { w with files := writeAll w.files (bodyWrites P t w l d), recs := upd w.recs l (some r) } := by
  intro r
  constructor
  · simp [execSteps, hk, hf, r]
  · simp only [execSteps, hk, hf]
    by_cases hm : P.marker = true
    · simp only [hm, if_true, Bool.false_eq_true, if_false, applySteps_append, applySteps_save, applySteps_cons,
        apply_noEff, applySteps_nil, applySteps_writes, upd_upd]
      rfl
    · simp only [hm, if_false, Bool.false_eq_true, List.nil_append, applySteps_append, applySteps_save, applySteps_cons,
        apply_noEff, applySteps_nil, applySteps_writes]
      rfl

/-- what a failing body writes: garbage in its first generated file -/
def garbageWrites (d : Def) : List (Path × Nat) :=
  match d.gens with
  | g :: _ => [(g, 0)]
  | [] => []

theorem applySteps_exec_fn_fail (P : Params) (t : Tree) (o : Opts) (w : World) (l : Label) (d : Def) (info : Rec)
    (depData : List (Label × Stamp)) (hk : d.kind = .fn) (hf : o.fails l = true) :
    let r : Rec := ⟨depData, .empty, true, info.runs, none⟩
    (execSteps P t o w l d info depData).2 = (r, false) ∧
    applySteps w (execSteps P t o w l d info depData).1 =
      { w with files := writeAll w.files (garbageWrites d), recs := upd w.recs l (some r) } := by
  intro r
  constructor
  · simp [execSteps, hk, hf, r]
  · simp only [execSteps, hk, hf, garbageWrites]
    by_cases hm : P.marker = true <;> cases hg : d.gens <;>
      simp [hm, applySteps_append, applySteps_save, Step.apply, Eff.apply, writeAll, upd_upd, r]

/-! ## C13: a dry run has no effects -/

theorem plan_dry_not_run (P : Params) (t : Tree) (o : Opts) (s : BSt) (l : Label) (d : Def) (hd : o.dry = true)
    (info : Rec) (dd : List (Label × Stamp)) : plan P t o s l d ≠ .run info dd := by
  unfold plan
  simp only [hd]
  split
  · simp
  · split <;> simp

theorem visit_dry (P : Params) (t : Tree) (o : Opts) (s : BSt) (l : Label) (hd : o.dry = true) :
    (visit P t o s l).w = s.w ∧ (visit P t o s l).steps = s.steps ∧ (visit P t o s l).execs = s.execs := by
  unfold visit
  split
  · exact ⟨rfl, rfl, rfl⟩
  · rename_i d _
    split
    · exact ⟨rfl, rfl, rfl⟩
    · exact ⟨rfl, rfl, rfl⟩
    · exact ⟨rfl, rfl, rfl⟩
    · rename_i info dd hp
      exact absurd hp (plan_dry_not_run P t o s l d hd info dd)

theorem build_dry (P : Params) (t : Tree) (o : Opts) (hd : o.dry = true) (ord : List Label) (s : BSt) :
    (build P t o s ord).w = s.w ∧ (build P t o s ord).steps = s.steps ∧ (build P t o s ord).execs = s.execs := by
  induction ord generalizing s with
  | nil => exact ⟨rfl, rfl, rfl⟩
  | cons l rest ih =>
    obtain ⟨h1, h2, h3⟩ := visit_dry P t o s l hd
    obtain ⟨i1, i2, i3⟩ := ih (visit P t o s l)
    exact ⟨i1.trans h1, i2.trans h2, i3.trans h3⟩

/-! ## crash prefixes: records are replaced whole -/

/-- the records some step of a list installs -/
def installs (ss : List Step) (l : Label) (r : Rec) : Prop :=
  ∃ s ∈ ss, s.eff = some (.tempRename l r)

theorem applySteps_recs (w : World) (ss : List Step) (l : Label) :
    (applySteps w ss).recs l = w.recs l ∨ ∃ r, (applySteps w ss).recs l = some r ∧ installs ss l r := by
  induction ss generalizing w with
  | nil => exact Or.inl rfl
  | cons s rest ih =>
    rcases ih (s.apply w) with h | ⟨r, h, s', hs', he⟩
    · -- the rest left the record as the first step made it
      cases hs : s.eff with
      | none => left; simpa [Step.apply, hs] using h
      | some e =>
        cases e with
        | tempRename l' r' =>
          by_cases hl : l = l'
          · subst hl
            right
            refine ⟨r', ?_, s, List.mem_cons_self, hs⟩
            simpa [Step.apply, hs, Eff.apply] using h
          · left; simpa [Step.apply, hs, Eff.apply, upd, hl] using h
        | _ => left; simpa [Step.apply, hs, Eff.apply] using h
    · exact Or.inr ⟨r, h, s', List.mem_cons_of_mem _ hs', he⟩

theorem installs_take {ss : List Step} {k : Nat} {l : Label} {r : Rec} (h : installs (ss.take k) l r) : installs ss l r := by
  obtain ⟨s, hs, he⟩ := h
  exact ⟨s, List.mem_of_mem_take hs, he⟩

/-! ## collection -/

theorem sweep_recs_live (live : List Label) (w : World) (l : Label) (h : l ∈ live) : (sweep live w).recs l = w.recs l := by
  simp [sweep, h]

theorem sweep_recs_dead (live : List Label) (w : World) (l : Label) (h : l ∉ live) : (sweep live w).recs l = none := by
  simp [sweep, h]

/-- the load-time refresh rewrites every record with what it read: records are semantically unchanged -/
def semRec (r : Option Rec) : Rec := r.getD emptyRec

theorem refresh_sem (ls : List Label) (w : World) (l : Label) :
    semRec ((applySteps w (ls.flatMap fun x => saveSteps x ((w.recs x).getD emptyRec))).recs l) = semRec (w.recs l) ∧
    (applySteps w (ls.flatMap fun x => saveSteps x ((w.recs x).getD emptyRec))).files = w.files := by
  induction ls generalizing w with
  | nil => exact ⟨rfl, rfl⟩
  | cons x rest ih =>
    simp only [List.flatMap_cons, applySteps_append, applySteps_save]
    -- after refreshing x the other records are as before, so the remaining refreshes write the same values
    have hsame : ∀ y, (({ w with recs := upd w.recs x (some ((w.recs x).getD emptyRec)) } : World).recs y).getD emptyRec
        = (w.recs y).getD emptyRec := by
      intro y
      by_cases hy : y = x
      · subst hy; simp
      · simp [upd, hy]
    have hrest : (rest.flatMap fun y => saveSteps y ((w.recs y).getD emptyRec)) =
        (rest.flatMap fun y => saveSteps y
          ((({ w with recs := upd w.recs x (some ((w.recs x).getD emptyRec)) } : World).recs y).getD emptyRec)) := by
      congr 1; funext y; rw [hsame y]
    rw [hrest]
    obtain ⟨h1, h2⟩ := ih { w with recs := upd w.recs x (some ((w.recs x).getD emptyRec)) }
    refine ⟨?_, h2⟩
    rw [h1]
    exact hsame l

theorem load_sem (t : Tree) (w : World) (l : Label) :
    semRec ((load t w).recs l) = semRec (w.recs l) ∧ (load t w).files = w.files ∧ (load t w).index = .good t.labels := by
  unfold load loadSteps
  rw [applySteps_append]
  obtain ⟨h1, h2⟩ := refresh_sem (t.labels.filter (isFn t)) w l
  refine ⟨?_, ?_, ?_⟩ <;> simp [Step.apply, Eff.apply, h1, h2]

end Dawn.Build

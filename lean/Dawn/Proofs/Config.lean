import Dawn.Model.Config
import Dawn.Proofs.Label
import Dawn.Proofs.LabelPath
/-! Helper lemmas for C19 (project configuration). Property theorems are in `Dawn/Props/Config.lean`. -/
namespace Dawn.Config

/-! ## strings -/

theorem forall_uint8 (p : UInt8 → Bool) (h : ∀ n : Nat, n < 256 → p (UInt8.ofNat n) = true) (b : UInt8) : p b = true := by
  have := h b.toNat (UInt8.toNat_lt b)
  simpa using this

theorem rawBad_of_not_needsQuoting {b : UInt8} (h : needsQuotingByte b = false) : b ≠ 39 ∧ rawBad b = false := by
  simp only [needsQuotingByte, decide_eq_false_iff_not, not_or] at h
  refine ⟨h.1, ?_⟩
  simp [rawBad, h.2.1, h.2.2.1, h.2.2.2]

theorem pLiteralBody_enc (s rest : Bytes) (h : needsQuoting s = false) :
    pLiteralBody (s ++ 39 :: rest) = some (s, rest) := by
  induction s with
  | nil => simp [pLiteralBody]
  | cons b s ih =>
    simp only [needsQuoting, List.any_cons, Bool.or_eq_false_iff] at h
    obtain ⟨hb1, hb2⟩ := rawBad_of_not_needsQuoting h.1
    simp only [List.cons_append, pLiteralBody, hb1, ↓reduceIte, hb2, Bool.false_eq_true]
    rw [ih (by simpa [needsQuoting] using h.2)]
    rfl

/-- what `escByte b` writes decodes to `b` -/
def escOK (b : UInt8) : Bool :=
  match escByte b with
  | [x] => x == b && b != 34 && b != 92 && !rawBad b
  | [bs, e] => bs == 92 && e != 117 && unescape e == some b
  | [bs, u, z1, z2, h, l] => bs == 92 && u == 117 && z1 == 48 && z2 == 48 &&
      (match hexVal h, hexVal l with
       | some x, some y => x < 8 && x * 16 + y == b
       | _, _ => false)
  | _ => false

set_option maxRecDepth 100000 in
theorem escOK_all (b : UInt8) : escOK b = true := forall_uint8 escOK (by decide) b

theorem pBasicBody_esc (b : UInt8) (rest : Bytes) : pBasicBody (escByte b ++ rest) = consFst b (pBasicBody rest) := by
  have h := escOK_all b
  unfold escOK at h
  split at h
  · rename_i x hx
    simp only [Bool.and_eq_true, beq_iff_eq, bne_iff_ne, ne_eq, Bool.not_eq_true'] at h
    obtain ⟨⟨⟨rfl, h1⟩, h2⟩, h3⟩ := h
    rw [hx, List.singleton_append, pBasicBody.eq_def]
    simp [h1, h2, h3]
  · rename_i bs e hx
    simp only [Bool.and_eq_true, beq_iff_eq, bne_iff_ne, ne_eq] at h
    obtain ⟨⟨rfl, h1⟩, h2⟩ := h
    rw [hx, pBasicBody.eq_def]
    simp [h1, h2]
  · rename_i bs u z1 z2 hh l hx
    simp only [Bool.and_eq_true, beq_iff_eq] at h
    obtain ⟨⟨⟨⟨rfl, rfl⟩, rfl⟩, rfl⟩, h5⟩ := h
    rw [hx]
    cases h6 : hexVal hh with
    | none => simp [h6] at h5
    | some x =>
      cases h7 : hexVal l with
      | none => simp [h6, h7] at h5
      | some y =>
        simp only [h6, h7, Bool.and_eq_true, decide_eq_true_eq, beq_iff_eq] at h5
        rw [pBasicBody.eq_def]
        simp [h6, h7, h5.1, h5.2]
  · cases h

theorem pBasicBody_enc (s rest : Bytes) : pBasicBody (s.flatMap escByte ++ 34 :: rest) = some (s, rest) := by
  induction s with
  | nil => rw [List.flatMap_nil, List.nil_append, pBasicBody.eq_def]; simp
  | cons b s ih =>
    simp only [List.flatMap_cons, List.append_assoc]
    rw [pBasicBody_esc, ih]
    rfl

theorem pString_enc (s rest : Bytes) : pString (encString s ++ rest) = some (s, rest) := by
  unfold encString
  cases h : needsQuoting s with
  | true =>
    simp only [↓reduceIte, List.cons_append, List.append_assoc, pString]
    simp only [show ¬ ((34 : UInt8) = 39) by decide, ↓reduceIte]
    exact pBasicBody_enc s rest
  | false =>
    simp only [Bool.false_eq_true, ↓reduceIte, List.cons_append, List.append_assoc, pString]
    exact pLiteralBody_enc s rest h


/-! ## blanks, symbols, arrays, inline tables -/

theorem encString_head (s : Bytes) : ∃ q t, encString s = q :: t ∧ (q = 34 ∨ q = 39) := by
  unfold encString
  split
  · exact ⟨34, _, rfl, Or.inl rfl⟩
  · exact ⟨39, _, rfl, Or.inr rfl⟩

theorem dropWs_cons_of_not_ws {b : UInt8} (t : Bytes) (h : isWs b = false) : dropWs (b :: t) = b :: t := by
  simp [dropWs, List.dropWhile_cons, h]

theorem dropWs_space (t : Bytes) : dropWs (32 :: t) = dropWs t := by
  simp [dropWs, List.dropWhile_cons, isWs]

theorem dropWs_encString (s rest : Bytes) : dropWs (encString s ++ rest) = encString s ++ rest := by
  obtain ⟨q, t, hq, hq'⟩ := encString_head s
  rw [hq]
  rcases hq' with rfl | rfl <;> exact dropWs_cons_of_not_ws _ (by decide)

/-- ` c ` with blanks around it -/
theorem pSym_spaced (c : UInt8) (t : Bytes) (hc : isWs c = false) : pSym c (32 :: c :: 32 :: t) = some (dropWs t) := by
  simp only [pSym, dropWs_space, dropWs_cons_of_not_ws _ hc, ↓reduceIte]

/-- `c ` -/
theorem pSym_after (c : UInt8) (t : Bytes) (hc : isWs c = false) : pSym c (c :: 32 :: t) = some (dropWs t) := by
  simp only [pSym, dropWs_space, dropWs_cons_of_not_ws _ hc, ↓reduceIte]

theorem pItemsTail_enc (l : List Bytes) (rest : Bytes) :
    ∀ fuel, fuel > l.length →
      pItemsTail fuel ((l.map fun s => commaSpace ++ encString s).flatten ++ 93 :: rest) = some (l, rest) := by
  induction l with
  | nil =>
    intro fuel hf
    cases fuel with
    | zero => omega
    | succ fuel => simp [pItemsTail, dropWs_cons_of_not_ws _ (show isWs 93 = false by decide)]
  | cons a l ih =>
    intro fuel hf
    cases fuel with
    | zero => omega
    | succ fuel =>
      simp only [List.map_cons, List.flatten_cons, commaSpace, List.cons_append, List.nil_append, List.append_assoc,
        pItemsTail, dropWs_cons_of_not_ws _ (show isWs 44 = false by decide)]
      simp only [show ¬ ((44 : UInt8) = 93) by decide, ↓reduceIte, dropWs_space]
      rw [dropWs_encString, pString_enc]
      have := ih fuel (by simp only [List.length_cons] at hf; omega)
      simp only [commaSpace, List.cons_append, List.nil_append] at this
      simp only [this, Option.map_some]

theorem encItems_eq (a : Bytes) (l : List Bytes) :
    encItems (a :: l) = encString a ++ (l.map fun s => commaSpace ++ encString s).flatten := by
  induction l generalizing a with
  | nil => simp [encItems]
  | cons b l ih =>
    rw [encItems, ih b]
    simp
    intro h; cases h

theorem items_length (l : List Bytes) : l.length ≤ ((l.map fun s => commaSpace ++ encString s).flatten).length := by
  induction l with
  | nil => simp
  | cons a l ih =>
    simp only [List.map_cons, List.flatten_cons, List.length_append, List.length_cons]
    have : (commaSpace).length = 2 := rfl
    omega

theorem pArray_enc (l : List Bytes) (rest : Bytes) : pArray (encArray l ++ rest) = some (l, rest) := by
  unfold encArray
  cases l with
  | nil => simp [pArray, dropWs_cons_of_not_ws _ (show isWs 93 = false by decide)]
  | cons a l =>
    simp only [List.cons_ne_nil, ↓reduceIte, List.cons_append, List.append_assoc, pArray]
    rw [encItems_eq]
    simp only [List.append_assoc, dropWs_encString]
    obtain ⟨q, t, hq, hq'⟩ := encString_head a
    have hne : q ≠ 93 := by rcases hq' with rfl | rfl <;> decide
    have hps := pString_enc a ((l.map fun s => commaSpace ++ encString s).flatten ++ ([93] ++ rest))
    rw [hq] at hps ⊢
    simp only [List.cons_append, hne, ↓reduceIte] at hps ⊢
    rw [hps]
    simp only [List.nil_append]
    rw [pItemsTail_enc l rest _ (by have := items_length l; simp only [List.length_append, List.length_cons]; omega)]
    rfl


/-! ## keys, fields, lines -/

theorem takeWhile_append_stop (p : UInt8 → Bool) (k t : Bytes) (b : UInt8) (hk : ∀ x ∈ k, p x = true) (hb : p b = false) :
    (k ++ b :: t).takeWhile p = k ∧ (k ++ b :: t).dropWhile p = b :: t := by
  induction k with
  | nil => simp [List.takeWhile_cons, List.dropWhile_cons, hb]
  | cons x k ih =>
    have hx := hk x List.mem_cons_self
    have := ih (fun y hy => hk y (List.mem_cons_of_mem _ hy))
    simp [List.takeWhile_cons, List.dropWhile_cons, hx, this]

theorem pKey_bare (k t : Bytes) (hne : k ≠ []) (hk : ∀ x ∈ k, isPlainByte x = true) :
    pKey (k ++ 32 :: t) = some (k, 32 :: t) := by
  cases k with
  | nil => exact absurd rfl hne
  | cons x k =>
    have hx := hk x List.mem_cons_self
    have := takeWhile_append_stop isPlainByte (x :: k) t 32 hk (by decide)
    simp only [List.cons_append] at this
    simp only [pKey, List.cons_append, hx, ↓reduceIte, this]

theorem pKey_quoted (k t : Bytes) : pKey (encString k ++ t) = some (k, t) := by
  obtain ⟨q, u, hq, hq'⟩ := encString_head k
  have hps := pString_enc k t
  rw [hq] at hps ⊢
  have : isPlainByte q = false := by rcases hq' with rfl | rfl <;> decide
  simp only [pKey, List.cons_append, this, Bool.false_eq_true, ↓reduceIte]
  exact hps

theorem pKey_enc (q : Bytes → Bool) (k t : Bytes) (hq : q k = false → k ≠ [] ∧ ∀ x ∈ k, isPlainByte x = true) :
    pKey ((if q k then encString k else k) ++ 32 :: t) = some (k, 32 :: t) := by
  cases h : q k with
  | true => simp only [↓reduceIte]; exact pKey_quoted k _
  | false =>
    simp only [Bool.false_eq_true, ↓reduceIte]
    exact pKey_bare k t (hq h).1 (hq h).2

theorem mustQuote_false {k : Bytes} (h : mustQuote k = false) : k ≠ [] ∧ ∀ x ∈ k, isPlainByte x = true := by
  simp only [mustQuote, decide_eq_false_iff_not, not_or] at h
  refine ⟨h.1, fun x hx => ?_⟩
  have h2 := h.2
  simp only [List.any_eq_true, Bool.not_eq_eq_eq_not, Bool.not_true, not_exists, not_and, Bool.not_eq_false] at h2
  exact h2 x hx

/-- `key = 'value'` with single blanks -/
theorem pField_enc (k v rest : Bytes) (hne : k ≠ []) (hk : ∀ x ∈ k, isPlainByte x = true) :
    pField (k ++ 32 :: 61 :: 32 :: (encString v ++ rest)) = some (k, v, rest) := by
  simp only [pField, pKey_bare k _ hne hk, pSym_spaced 61 _ (by decide), dropWs_encString, pString_enc]

theorem pInline_enc (p v : Bytes) :
    pInline (123 :: (kPath ++ 32 :: 61 :: 32 :: (encString p ++ 44 :: 32 :: (kVersion ++ 32 :: 61 :: 32 :: (encString v ++ [125]))))) =
      some (p, v, []) := by
  have h1 : dropWs (kPath ++ 32 :: 61 :: 32 :: (encString p ++ 44 :: 32 :: (kVersion ++ 32 :: 61 :: 32 :: (encString v ++ [125])))) =
      kPath ++ 32 :: 61 :: 32 :: (encString p ++ 44 :: 32 :: (kVersion ++ 32 :: 61 :: 32 :: (encString v ++ [125]))) := by
    exact dropWs_cons_of_not_ws _ (by decide)
  have h2 : dropWs (kVersion ++ 32 :: 61 :: 32 :: (encString v ++ [125])) = kVersion ++ 32 :: 61 :: 32 :: (encString v ++ [125]) :=
    dropWs_cons_of_not_ws _ (by decide)
  simp only [pInline, ↓reduceIte, h1]
  rw [pField_enc kPath p _ (by decide) (by decide)]
  simp only [pSym_after 44 _ (show isWs 44 = false by decide), h2]
  rw [pField_enc kVersion v _ (by decide) (by decide)]
  simp [dropWs_cons_of_not_ws _ (show isWs 125 = false by decide)]


theorem not_header_of_head {b : UInt8} (t : Bytes) (hb : b ≠ 91) :
    ¬ ((b :: t).take kHeader.length = kHeader ∧ allWs ((b :: t).drop kHeader.length) = true) := by
  intro h
  have h1 := h.1
  simp only [kHeader, tHeader, List.length_cons, List.length_nil, Nat.zero_add, Nat.reduceAdd, List.take_succ_cons,
    List.cons.injEq] at h1
  exact hb h1.1

set_option maxRecDepth 100000 in
theorem plain_not_ws (b : UInt8) : (!isPlainByte b || !isWs b) = true :=
  forall_uint8 (fun b => !isPlainByte b || !isWs b) (by decide) b

/-- a line `key = value` whose key is a bare word -/
theorem pLine_bare (inReqs : Bool) (k v : Bytes) (hne : k ≠ []) (hk : ∀ x ∈ k, isPlainByte x = true) (hv : dropWs v = v) :
    pLine inReqs (k ++ 32 :: 61 :: 32 :: v) =
      if inReqs then
        match pInline v with
        | some (p, ver, rest) => if allWs rest then .req ⟨k, p, ver⟩ else .bad
        | none => .bad
      else if k = kIgnore then
        match pArray v with
        | some (l, rest) => if allWs rest then .ignore l else .bad
        | none => .bad
      else match pString v with
        | some (x, rest) =>
          if !allWs rest then .bad
          else if k = kName then .name x
          else if k = kVersion then .version x
          else .bad
        | none => .bad := by
  cases k with
  | nil => exact absurd rfl hne
  | cons x k =>
    have hx := hk x List.mem_cons_self
    have hws : isWs x = false := by
      revert hx
      have := plain_not_ws x
      simp only [Bool.or_eq_true, Bool.not_eq_true'] at this
      intro hx
      rcases this with h | h
      · rw [h] at hx; cases hx
      · exact h
    have h91 : x ≠ 91 := by
      intro h; subst h; revert hx; decide
    have hdw : dropWs ((x :: k) ++ 32 :: 61 :: 32 :: v) = (x :: k) ++ 32 :: 61 :: 32 :: v :=
      dropWs_cons_of_not_ws _ hws
    unfold pLine
    simp only [hdw]
    have hne' : ¬ ((x :: k) ++ 32 :: 61 :: 32 :: v = []) := by simp
    simp only [hne', ↓reduceIte]
    have hnh := not_header_of_head (k ++ 32 :: 61 :: 32 :: v) h91
    simp only [List.cons_append] at hnh ⊢
    simp only [hnh, ↓reduceIte]
    have hkey := pKey_bare (x :: k) (61 :: 32 :: v) hne hk
    simp only [List.cons_append] at hkey
    simp only [hkey, pSym_spaced 61 v (by decide), hv]
    rfl


theorem pLine_quoted_req (k v : Bytes) (hv : dropWs v = v) :
    pLine true (encString k ++ 32 :: 61 :: 32 :: v) =
      match pInline v with
      | some (p, ver, rest) => if allWs rest then .req ⟨k, p, ver⟩ else .bad
      | none => .bad := by
  obtain ⟨q, u, hq, hq'⟩ := encString_head k
  have hkey := pKey_quoted k (32 :: 61 :: 32 :: v)
  rw [hq] at hkey ⊢
  have hws : isWs q = false := by rcases hq' with rfl | rfl <;> decide
  have h91 : q ≠ 91 := by rcases hq' with rfl | rfl <;> decide
  have hdw : dropWs ((q :: u) ++ 32 :: 61 :: 32 :: v) = (q :: u) ++ 32 :: 61 :: 32 :: v :=
    dropWs_cons_of_not_ws _ hws
  unfold pLine
  simp only [hdw]
  have hne' : ¬ ((q :: u) ++ 32 :: 61 :: 32 :: v = []) := by simp
  simp only [hne', ↓reduceIte]
  have hnh := not_header_of_head (u ++ 32 :: 61 :: 32 :: v) h91
  simp only [List.cons_append] at hnh hkey ⊢
  simp only [hnh, ↓reduceIte, hkey, pSym_spaced 61 v (by decide), hv]
  rfl

theorem pLine_blank (b : Bool) : pLine b [] = .blank := by cases b <;> rfl

theorem pLine_header (b : Bool) : pLine b tHeader = .header := by cases b <;> decide

theorem pLine_name (s : Bytes) : pLine false (tName ++ encString s) = .name s := by
  have h := pLine_bare false kName (encString s) (by decide) (by decide) (by simpa using dropWs_encString s [])
  have hp : pString (encString s) = some (s, []) := by simpa using pString_enc s []
  have : tName ++ encString s = kName ++ 32 :: 61 :: 32 :: encString s := by simp [tName, kName]
  rw [this, h, hp]
  simp [show ¬ (kName = kIgnore) by decide, allWs]

theorem pLine_version (s : Bytes) : pLine false (tVersion ++ encString s) = .version s := by
  have h := pLine_bare false kVersion (encString s) (by decide) (by decide) (by simpa using dropWs_encString s [])
  have hp : pString (encString s) = some (s, []) := by simpa using pString_enc s []
  have : tVersion ++ encString s = kVersion ++ 32 :: 61 :: 32 :: encString s := by simp [tVersion, kVersion]
  rw [this, h, hp]
  simp [show ¬ (kVersion = kIgnore) by decide, show ¬ (kVersion = kName) by decide, allWs]

theorem dropWs_encArray (l : List Bytes) : dropWs (encArray l) = encArray l := by
  unfold encArray
  split <;> exact dropWs_cons_of_not_ws _ (by decide)

theorem pLine_ignore (l : List Bytes) : pLine false (tIgnore ++ encArray l) = .ignore l := by
  have h := pLine_bare false kIgnore (encArray l) (by decide) (by decide) (dropWs_encArray l)
  have hp : pArray (encArray l) = some (l, []) := by simpa using pArray_enc l []
  have : tIgnore ++ encArray l = kIgnore ++ 32 :: 61 :: 32 :: encArray l := by simp [tIgnore, kIgnore]
  rw [this, h, hp]
  simp [allWs]

/-- a requirement line without its newline -/
def reqBody (q : Bytes → Bool) (r : Req) : Bytes :=
  (if q r.key then encString r.key else r.key) ++ tReqOpen ++ encString r.path ++ tReqMid ++ encString r.version ++ tReqClose

theorem reqLine_eq (q : Bytes → Bool) (r : Req) : reqLine q r = reqBody q r ++ nl := rfl

theorem pLine_req (q : Bytes → Bool) (r : Req) (hq : q r.key = false → r.key ≠ [] ∧ ∀ x ∈ r.key, isPlainByte x = true) :
    pLine true (reqBody q r) = .req r := by
  have hbody : reqBody q r = (if q r.key then encString r.key else r.key) ++ 32 :: 61 :: 32 ::
      (123 :: (kPath ++ 32 :: 61 :: 32 :: (encString r.path ++ 44 :: 32 :: (kVersion ++ 32 :: 61 :: 32 :: (encString r.version ++ [125]))))) := by
    simp [reqBody, tReqOpen, tReqMid, tReqClose, kPath, kVersion]
  have hv : ∀ t : Bytes, dropWs (123 :: t) = 123 :: t := fun t => dropWs_cons_of_not_ws _ (by decide)
  rw [hbody]
  cases h : q r.key with
  | true =>
    simp only [↓reduceIte]
    rw [pLine_quoted_req _ _ (hv _), pInline_enc]
    simp [allWs]
  | false =>
    simp only [Bool.false_eq_true, ↓reduceIte]
    rw [pLine_bare true _ _ (hq h).1 (hq h).2 (hv _), pInline_enc]
    simp [allWs]


/-! ## the order of requirement names -/

theorem bytesLt_irrefl (a : Bytes) : bytesLt a a = false := by
  induction a with
  | nil => rfl
  | cons x a ih => simp [bytesLt, ih, UInt8.lt_irrefl]

theorem bytesLt_asymm {a b : Bytes} (h : bytesLt a b = true) : bytesLt b a = false := by
  induction a generalizing b with
  | nil => cases b <;> simp_all [bytesLt]
  | cons x a ih =>
    cases b with
    | nil => simp [bytesLt] at h
    | cons y b =>
      simp only [bytesLt] at h ⊢
      by_cases hxy : x < y
      · have : ¬ y < x := UInt8.lt_asymm hxy
        simp [this, hxy]
      · simp only [hxy, ↓reduceIte] at h
        by_cases hyx : y < x
        · simp [hyx] at h
        · simp only [hyx, ↓reduceIte] at h
          simp only [hyx, hxy, ↓reduceIte]
          exact ih h

theorem bytesLt_trans {a b c : Bytes} (h1 : bytesLt a b = true) (h2 : bytesLt b c = true) : bytesLt a c = true := by
  induction a generalizing b c with
  | nil =>
    cases b with
    | nil => simp [bytesLt] at h1
    | cons y b => cases c <;> simp_all [bytesLt]
  | cons x a ih =>
    cases b with
    | nil => simp [bytesLt] at h1
    | cons y b =>
      cases c with
      | nil => simp [bytesLt] at h2
      | cons z c =>
        simp only [bytesLt] at h1 h2 ⊢
        by_cases hxy : x < y
        · by_cases hyz : y < z
          · simp [UInt8.lt_trans hxy hyz]
          · simp only [hyz, ↓reduceIte] at h2
            by_cases hzy : z < y
            · simp [hzy] at h2
            · have : y = z := UInt8.le_antisymm (UInt8.not_lt.mp hzy) (UInt8.not_lt.mp hyz)
              subst this; simp [hxy]
        · simp only [hxy, ↓reduceIte] at h1
          by_cases hyx : y < x
          · simp [hyx] at h1
          · simp only [hyx, ↓reduceIte] at h1
            have : x = y := UInt8.le_antisymm (UInt8.not_lt.mp hyx) (UInt8.not_lt.mp hxy)
            subst this
            by_cases hxz : x < z
            · simp [hxz]
            · simp only [hxz, ↓reduceIte] at h2 ⊢
              by_cases hzx : z < x
              · simp [hzx] at h2
              · simp only [hzx, ↓reduceIte] at h2 ⊢
                exact ih h1 h2

theorem sortedKeys_tail {a : Req} {l : List Req} (h : sortedKeys (a :: l) = true) : sortedKeys l = true := by
  cases l with
  | nil => rfl
  | cons b l => simp only [sortedKeys, Bool.and_eq_true] at h; exact h.2

/-- in a strictly ascending list the head is below everything after it -/
theorem sortedKeys_head_lt {a : Req} {l : List Req} (h : sortedKeys (a :: l) = true) :
    ∀ x ∈ l, bytesLt a.key x.key = true := by
  induction l generalizing a with
  | nil => intro x hx; cases hx
  | cons b l ih =>
    simp only [sortedKeys, Bool.and_eq_true] at h
    intro x hx
    rcases List.mem_cons.mp hx with rfl | hx'
    · exact h.1
    · exact bytesLt_trans h.1 (ih h.2 x hx')

theorem sortReqs_sorted (l : List Req) (h : sortedKeys l = true) : sortReqs l = l := by
  induction l with
  | nil => rfl
  | cons a l ih =>
    rw [sortReqs, ih (sortedKeys_tail h)]
    cases l with
    | nil => rfl
    | cons b l =>
      simp only [sortedKeys, Bool.and_eq_true] at h
      simp [insertReq, bytesLt_asymm h.1]


/-! ## no raw newline inside a written line; the lines of a written file -/

set_option maxRecDepth 100000 in
theorem escByte_no_nl (b : UInt8) : ((escByte b).all fun x => x != 10) = true :=
  forall_uint8 (fun b => (escByte b).all fun x => x != 10) (by decide) b

set_option maxRecDepth 100000 in
theorem plain_not_nl (b : UInt8) : (!isPlainByte b || b != 10) = true :=
  forall_uint8 (fun b => !isPlainByte b || b != 10) (by decide) b

theorem encString_no_nl (s : Bytes) : (10 : UInt8) ∉ encString s := by
  unfold encString
  cases h : needsQuoting s with
  | true =>
    simp only [↓reduceIte, List.mem_cons, List.mem_append, List.mem_flatMap, List.not_mem_nil, or_false, not_or]
    refine ⟨by decide, ?_, by decide⟩
    rintro ⟨b, _, hb⟩
    have := escByte_no_nl b
    simp only [List.all_eq_true, bne_iff_ne, ne_eq] at this
    exact this 10 hb rfl
  | false =>
    simp only [Bool.false_eq_true, ↓reduceIte, List.mem_cons, List.mem_append, List.not_mem_nil, or_false, not_or]
    refine ⟨by decide, ?_, by decide⟩
    intro hm
    simp only [needsQuoting, List.any_eq_false] at h
    have := h 10 hm
    simp [needsQuotingByte] at this

theorem encItems_no_nl (l : List Bytes) : (10 : UInt8) ∉ encItems l := by
  induction l with
  | nil => simp [encItems]
  | cons a l ih =>
    cases l with
    | nil => simpa [encItems] using encString_no_nl a
    | cons b l =>
      simp only [encItems, commaSpace, List.mem_append, List.mem_cons, List.not_mem_nil, or_false, not_or] at ih ⊢
      exact ⟨⟨encString_no_nl a, by decide, by decide⟩, ih⟩

theorem encArray_no_nl (l : List Bytes) : (10 : UInt8) ∉ encArray l := by
  unfold encArray
  split
  · decide
  · simp only [List.mem_cons, List.mem_append, List.not_mem_nil, or_false, not_or]
    exact ⟨by decide, encItems_no_nl l, by decide⟩

theorem reqBody_no_nl (q : Bytes → Bool) (r : Req) (hq : q r.key = false → ∀ x ∈ r.key, isPlainByte x = true) :
    (10 : UInt8) ∉ reqBody q r := by
  unfold reqBody
  simp only [List.mem_append, not_or]
  refine ⟨⟨⟨⟨⟨?_, by decide⟩, encString_no_nl _⟩, by decide⟩, encString_no_nl _⟩, by decide⟩
  cases h : q r.key with
  | true => simpa using encString_no_nl r.key
  | false =>
    simp only [Bool.false_eq_true, ↓reduceIte]
    intro hm
    have h1 := hq h 10 hm
    have h2 := plain_not_nl 10
    rw [h1] at h2
    simp at h2

/-- a text made of newline-terminated lines splits into those lines and a final empty piece -/
theorem split_lines (ls : List Bytes) (h : ∀ l ∈ ls, (10 : UInt8) ∉ l) :
    Label.split 10 (ls.map (· ++ nl)).flatten = ls ++ [[]] := by
  induction ls with
  | nil => rfl
  | cons l ls ih =>
    simp only [List.map_cons, List.flatten_cons, nl, List.append_assoc, List.singleton_append, List.cons_append]
    rw [Label.split_append_sep 10 l _ (h l List.mem_cons_self)]
    have := ih (fun x hx => h x (List.mem_cons_of_mem _ hx))
    simp only [nl] at this
    simp only [List.nil_append, this]

/-- the lines `WriteConfigFile` writes -/
def emitLines (q : Bytes → Bool) (c : Config) : List Bytes :=
  (if c.name ≠ [] then [tName ++ encString c.name] else []) ++
  (if c.version ≠ [] then [tVersion ++ encString c.version] else []) ++
  (if c.ignore ≠ [] then
    (if (c.name ≠ [] ∨ c.version ≠ []) then [[]] else []) ++ [tIgnore ++ encArray c.ignore] else []) ++
  (if c.reqs ≠ [] then
    (if ((c.name ≠ [] ∨ c.version ≠ []) ∨ c.ignore ≠ []) then [[]] else []) ++ [tHeader] ++ (sortReqs c.reqs).map (reqBody q)
   else [])

theorem flatten_map_reqLine (q : Bytes → Bool) (rs : List Req) :
    (rs.map (reqLine q)).flatten = ((rs.map (reqBody q)).map (· ++ nl)).flatten := by
  induction rs with
  | nil => rfl
  | cons r rs ih => simp [reqLine_eq, ih]

theorem emitWith_lines (q : Bytes → Bool) (c : Config) :
    emitWith q c = ((emitLines q c).map (· ++ nl)).flatten := by
  unfold emitWith emitLines
  simp only [flatten_map_reqLine]
  by_cases h1 : c.name = [] <;> by_cases h2 : c.version = [] <;> by_cases h3 : c.ignore = [] <;>
    by_cases h4 : c.reqs = [] <;> simp [h1, h2, h3, h4, nl]


/-! ## folding the lines of a written file -/

theorem foldLines_append (st : PState) (a b : List Bytes) :
    foldLines st (a ++ b) = (foldLines st a).bind fun st' => foldLines st' b := by
  induction a generalizing st with
  | nil => rfl
  | cons l a ih =>
    simp only [List.cons_append, foldLines]
    cases stepLine st l with
    | none => rfl
    | some st' => exact ih st'

theorem fold_name (n v : Bytes) (ig : List Bytes) (rs : List Req) (sv si : Bool) :
    foldLines ⟨⟨[], v, ig, rs⟩, false, false, sv, si⟩ (if n ≠ [] then [tName ++ encString n] else []) =
      some ⟨⟨n, v, ig, rs⟩, false, decide (n ≠ []), sv, si⟩ := by
  by_cases h : n = []
  · subst h; rfl
  · simp [h, foldLines, stepLine, pLine_name]

theorem fold_version (n v : Bytes) (ig : List Bytes) (rs : List Req) (sn si : Bool) :
    foldLines ⟨⟨n, [], ig, rs⟩, false, sn, false, si⟩ (if v ≠ [] then [tVersion ++ encString v] else []) =
      some ⟨⟨n, v, ig, rs⟩, false, sn, decide (v ≠ []), si⟩ := by
  by_cases h : v = []
  · subst h; rfl
  · simp [h, foldLines, stepLine, pLine_version]

theorem fold_ignore (n v : Bytes) (ig : List Bytes) (rs : List Req) (sn sv : Bool) (blank : Bool) :
    foldLines ⟨⟨n, v, [], rs⟩, false, sn, sv, false⟩
      (if ig ≠ [] then (if blank then [[]] else []) ++ [tIgnore ++ encArray ig] else []) =
      some ⟨⟨n, v, ig, rs⟩, false, sn, sv, decide (ig ≠ [])⟩ := by
  by_cases h : ig = []
  · subst h; rfl
  · cases blank <;> simp [h, foldLines, stepLine, pLine_ignore, pLine_blank]

theorem fold_reqs (q : Bytes → Bool) (n v : Bytes) (ig : List Bytes) (sn sv si : Bool) (rs : List Req) :
    ∀ (done : List Req),
      (∀ r ∈ rs, q r.key = false → r.key ≠ [] ∧ ∀ x ∈ r.key, isPlainByte x = true) →
      (done ++ rs).Pairwise (fun a b => a.key ≠ b.key) →
      foldLines ⟨⟨n, v, ig, done⟩, true, sn, sv, si⟩ (rs.map (reqBody q)) =
        some ⟨⟨n, v, ig, done ++ rs⟩, true, sn, sv, si⟩ := by
  induction rs with
  | nil => intro done _ _; simp [foldLines]
  | cons r rs ih =>
    intro done hq hp
    have hnew : done.any (fun x => decide (x.key = r.key)) = false := by
      rw [List.any_eq_false]
      intro x hx
      have := (List.pairwise_append.mp hp).2.2 x hx r List.mem_cons_self
      simpa using this
    simp only [List.map_cons, foldLines, stepLine, pLine_req q r (hq r List.mem_cons_self), hnew, Bool.false_eq_true,
      ↓reduceIte]
    have := ih (done ++ [r]) (fun x hx => hq x (List.mem_cons_of_mem _ hx)) (by simpa using hp)
    simpa using this

theorem fold_section_reqs (q : Bytes → Bool) (n v : Bytes) (ig : List Bytes) (sn sv si : Bool) (rs : List Req) (blank : Bool)
    (hq : ∀ r ∈ rs, q r.key = false → r.key ≠ [] ∧ ∀ x ∈ r.key, isPlainByte x = true)
    (hp : rs.Pairwise (fun a b => a.key ≠ b.key)) :
    foldLines ⟨⟨n, v, ig, []⟩, false, sn, sv, si⟩
      (if rs ≠ [] then (if blank then [[]] else []) ++ [tHeader] ++ rs.map (reqBody q) else []) =
      some ⟨⟨n, v, ig, rs⟩, decide (rs ≠ []), sn, sv, si⟩ := by
  by_cases h : rs = []
  · subst h; rfl
  · have := fold_reqs q n v ig sn sv si rs [] hq (by simpa using hp)
    cases blank <;>
      simp [h, foldLines, stepLine, pLine_header, pLine_blank, List.nil_append] at this ⊢ <;> exact this

theorem sortedKeys_pairwise (l : List Req) (h : sortedKeys l = true) : l.Pairwise (fun a b => a.key ≠ b.key) := by
  induction l with
  | nil => exact List.Pairwise.nil
  | cons a l ih =>
    refine List.Pairwise.cons ?_ (ih (sortedKeys_tail h))
    intro x hx heq
    have := sortedKeys_head_lt h x hx
    rw [heq, bytesLt_irrefl] at this
    cases this

/-- reading back the lines of a written file, for a configuration whose requirements are listed in ascending
order of their (distinct) names -/
theorem foldLines_emit (q : Bytes → Bool) (c : Config) (hs : sortedKeys c.reqs = true)
    (hq : ∀ r ∈ c.reqs, q r.key = false → r.key ≠ [] ∧ ∀ x ∈ r.key, isPlainByte x = true) :
    ∃ st, foldLines {} (emitLines q c ++ [[]]) = some st ∧ st.cfg = c := by
  obtain ⟨n, v, ig, rs⟩ := c
  simp only at hs hq
  unfold emitLines
  simp only [sortReqs_sorted rs hs]
  rw [foldLines_append, foldLines_append, foldLines_append, foldLines_append]
  have h0 : ({} : PState) = ⟨⟨[], [], [], []⟩, false, false, false, false⟩ := rfl
  rw [h0, fold_name]
  simp only [Option.bind_some]
  rw [fold_version]
  simp only [Option.bind_some]
  have h3 := fold_ignore n v ig [] (decide (n ≠ [])) (decide (v ≠ [])) (decide (n ≠ [] ∨ v ≠ []))
  simp only [decide_eq_true_eq] at h3
  rw [h3]
  simp only [Option.bind_some]
  have h4 := fold_section_reqs q n v ig (decide (n ≠ [])) (decide (v ≠ [])) (decide (ig ≠ [])) rs
    (decide ((n ≠ [] ∨ v ≠ []) ∨ ig ≠ [])) hq (sortedKeys_pairwise rs hs)
  simp only [decide_eq_true_eq] at h4
  rw [h4]
  simp only [Option.bind_some, foldLines, stepLine, pLine_blank]
  exact ⟨_, rfl, rfl⟩


theorem emitLines_no_nl (q : Bytes → Bool) (c : Config)
    (hq : ∀ r ∈ c.reqs, q r.key = false → ∀ x ∈ r.key, isPlainByte x = true) (hs : sortedKeys c.reqs = true) :
    ∀ l ∈ emitLines q c, (10 : UInt8) ∉ l := by
  intro l hl
  unfold emitLines at hl
  rw [sortReqs_sorted _ hs] at hl
  simp only [List.mem_append] at hl
  rcases hl with ((hl | hl) | hl) | hl
  · split at hl
    · simp only [List.mem_singleton] at hl; subst hl
      simp only [List.mem_append, not_or]; exact ⟨by decide, encString_no_nl _⟩
    · cases hl
  · split at hl
    · simp only [List.mem_singleton] at hl; subst hl
      simp only [List.mem_append, not_or]; exact ⟨by decide, encString_no_nl _⟩
    · cases hl
  · split at hl
    · simp only [List.mem_append, List.mem_singleton] at hl
      rcases hl with hl | hl
      · split at hl
        · simp only [List.mem_singleton] at hl; subst hl; simp
        · cases hl
      · subst hl
        simp only [List.mem_append, not_or]; exact ⟨by decide, encArray_no_nl _⟩
    · cases hl
  · split at hl
    · simp only [List.mem_append, List.mem_singleton, List.mem_map] at hl
      rcases hl with (hl | hl) | ⟨r, hr, rfl⟩
      · split at hl
        · simp only [List.mem_singleton] at hl; subst hl; simp
        · cases hl
      · subst hl; decide
      · exact reqBody_no_nl q r (hq r hr)
    · cases hl

theorem validate_valid (c : Config) (h : c.valid = true) : validate c = .ok c := by
  obtain ⟨n, v, ig, rs⟩ := c
  simp only [Config.valid, Bool.and_eq_true, List.all_eq_true, decide_eq_true_eq] at h
  obtain ⟨h1, h2⟩ := h
  unfold validate
  have hall : (rs.all fun r => canonicalSemver r.version) = true := by
    rw [List.all_eq_true]; exact fun r hr => (h1 r hr).1
  have hmap : rs.map (fun r => { r with path := cleanPath r.path }) = rs := by
    conv => rhs; rw [← List.map_id rs]
    apply List.map_congr_left
    intro r hr
    rw [(h1 r hr).2]; rfl
  simp only [hall, ↓reduceIte, hmap, sortReqs_sorted rs h2]

/-- reading back what is written, for any quoting rule that quotes every name that is not a bare key -/
theorem parseSub_emitWith (q : Bytes → Bool) (c : Config) (h : c.valid = true)
    (hq : ∀ r ∈ c.reqs, q r.key = false → r.key ≠ [] ∧ ∀ x ∈ r.key, isPlainByte x = true) :
    parseSub (emitWith q c) = .ok c := by
  have hs : sortedKeys c.reqs = true := by
    simp only [Config.valid, Bool.and_eq_true] at h; exact h.2
  unfold parseSub
  rw [emitWith_lines, split_lines _ (emitLines_no_nl q c (fun r hr hqr => (hq r hr hqr).2) hs)]
  obtain ⟨st, hst, hcfg⟩ := foldLines_emit q c hs hq
  rw [hst]
  simp only [hcfg]
  exact validate_valid c h


/-! ## `CleanPath` -/

/-- scanning backwards over bytes that are neither `/` nor `@` finds the `@` behind them -/
theorem spvRev_found (w cr acc : Bytes) (h47 : (47 : UInt8) ∉ w) (h64 : (64 : UInt8) ∉ w) :
    splitPathVersionRev (w ++ 64 :: cr) acc = some (cr.reverse, w.reverse ++ acc) := by
  induction w generalizing acc with
  | nil => simp [splitPathVersionRev]
  | cons x w ih =>
    simp only [List.mem_cons, not_or] at h47 h64
    have hx1 : x ≠ 47 := fun h => h47.1 h.symm
    have hx2 : x ≠ 64 := fun h => h64.1 h.symm
    simp only [List.cons_append, splitPathVersionRev, hx1, ↓reduceIte, hx2]
    rw [ih (x :: acc) h47.2 h64.2]
    simp

theorem splitPathVersion_join (c v : Bytes) (h47 : (47 : UInt8) ∉ v) (h64 : (64 : UInt8) ∉ v) :
    splitPathVersion (c ++ 64 :: v) = (c, v) := by
  unfold splitPathVersion
  have : (c ++ 64 :: v).reverse = v.reverse ++ 64 :: c.reverse := by simp
  rw [this, spvRev_found v.reverse c.reverse [] (by simpa using h47) (by simpa using h64)]
  simp

theorem spvRev_some {l acc a b : Bytes} (h : splitPathVersionRev l acc = some (a, b)) :
    ∃ pre, l = pre ++ 64 :: a.reverse ∧ b = pre.reverse ++ acc ∧ (47 : UInt8) ∉ pre ∧ (64 : UInt8) ∉ pre := by
  induction l generalizing acc with
  | nil => cases h
  | cons x l ih =>
    simp only [splitPathVersionRev] at h
    by_cases h1 : x = 47
    · simp [h1] at h
    · by_cases h2 : x = 64
      · simp only [h1, ↓reduceIte, h2, Option.some.injEq, Prod.mk.injEq] at h
        obtain ⟨rfl, rfl⟩ := h
        exact ⟨[], by simp [h2], by simp, by simp, by simp⟩
      · simp only [h1, ↓reduceIte, h2] at h
        obtain ⟨pre, hl, hb, h47, h64⟩ := ih h
        refine ⟨x :: pre, by simp [hl], by simp [hb], ?_, ?_⟩
        · simp only [List.mem_cons, not_or]; exact ⟨fun h => h1 h.symm, h47⟩
        · simp only [List.mem_cons, not_or]; exact ⟨fun h => h2 h.symm, h64⟩

/-- what `SplitPathVersion` returns: either no version, or `p = p0@v` with `v` free of `/` and `@` -/
theorem splitPathVersion_spec (p : Bytes) :
    (splitPathVersion p = (p, [])) ∨
    (∃ p0 v, splitPathVersion p = (p0, v) ∧ p = p0 ++ 64 :: v ∧ (47 : UInt8) ∉ v ∧ (64 : UInt8) ∉ v) := by
  unfold splitPathVersion
  cases h : splitPathVersionRev p.reverse [] with
  | none => exact Or.inl rfl
  | some r =>
    obtain ⟨a, b⟩ := r
    obtain ⟨pre, hl, hb, h47, h64⟩ := spvRev_some h
    right
    refine ⟨a, b, rfl, ?_, ?_, ?_⟩
    · have := congrArg List.reverse hl
      simp only [List.reverse_reverse, List.reverse_append, List.reverse_cons, List.append_assoc, List.singleton_append] at this
      rw [this, hb]; simp
    · rw [hb]; simpa using h47
    · rw [hb]; simpa using h64

def keptVersion (v : Bytes) : Prop := v ≠ [] ∧ v ≠ [118, 48] ∧ v ≠ [118, 49]

theorem joinPathVersion_kept (p v : Bytes) (h : keptVersion v) : joinPathVersion p v = p ++ 64 :: v := by
  obtain ⟨h1, h2, h3⟩ := h
  simp [joinPathVersion, h1, h2, h3]

/-- `CleanPath(p)` is a fixed point of `CleanPath` whenever `p` carries a version suffix that is kept (`@v2`, …) -/
theorem cleanPath_fixed_of_kept (p : Bytes) (h : keptVersion (splitPathVersion p).2) :
    cleanPath (cleanPath p) = cleanPath p := by
  rcases splitPathVersion_spec p with hs | ⟨p0, v, hs, _, h47, h64⟩
  · rw [hs] at h; exact absurd rfl h.1
  · rw [hs] at h
    simp only at h
    have hc : cleanPath p = Label.pathClean p0 ++ 64 :: v := by
      unfold cleanPath; rw [hs]; exact joinPathVersion_kept _ _ h
    rw [hc]
    unfold cleanPath
    rw [splitPathVersion_join _ _ h47 h64]
    simp only [Label.pathClean_idem]
    exact joinPathVersion_kept _ _ h


theorem splitPathVersion_no_at (p : Bytes) (h : (64 : UInt8) ∉ p) : splitPathVersion p = (p, []) := by
  rcases splitPathVersion_spec p with hs | ⟨p0, v, _, hp, _, _⟩
  · exact hs
  · exfalso; apply h; rw [hp]; simp

/-- a path without any `@` is cleaned to a fixed point of `CleanPath` -/
theorem cleanPath_fixed_of_no_at (p : Bytes) (h : (64 : UInt8) ∉ p) : cleanPath (cleanPath p) = cleanPath p := by
  have hc : cleanPath p = Label.pathClean p := by
    unfold cleanPath; rw [splitPathVersion_no_at p h]; simp [joinPathVersion]
  have h' : (64 : UInt8) ∉ Label.pathClean p := by
    intro hm
    rcases Label.mem_pathClean p 64 hm with h1 | h1 | h1
    · exact h h1
    · revert h1; decide
    · revert h1; decide
  rw [hc]
  unfold cleanPath
  rw [splitPathVersion_no_at _ h']
  simp [joinPathVersion, Label.pathClean_idem]


end Dawn.Config

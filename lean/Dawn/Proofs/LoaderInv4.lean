import Dawn.Proofs.LoaderInv3
/-!
Load paths, reachability from the packages, acyclicity; every `loading` pointer is a load edge; a chain walk only ever
stands on modules reachable from where it started; hence an acyclic project never produces a cyclic-dependency verdict.
-/
namespace Dawn.Loader

/-- `b` is reached from `a` through one or more `load` statements -/
inductive Path (P : Project) : Mod → Mod → Prop where
  | edge {a b : Mod} : b ∈ P.loads a → Path P a b
  | cons {a b c : Mod} : b ∈ P.loads a → Path P b c → Path P a c

theorem Path.snoc {P : Project} {a b c : Mod} (h : Path P a b) (e : c ∈ P.loads b) : Path P a c := by
  induction h with
  | edge e1 => exact .cons e1 (.edge e)
  | cons e1 _ ih => exact .cons e1 (ih e)

theorem Path.trans {P : Project} {a b c : Mod} (h : Path P a b) (h2 : Path P b c) : Path P a c := by
  induction h with
  | edge e1 => exact .cons e1 h2
  | cons e1 _ ih => exact .cons e1 (ih h2)

/-- `m` is the BUILD file of a package or is reached from one -/
def Reach (P : Project) (m : Mod) : Prop := ∃ r ∈ P.roots, r = m ∨ Path P r m

theorem Reach.step {P : Project} {a b : Mod} (h : Reach P a) (e : b ∈ P.loads a) : Reach P b := by
  obtain ⟨r, hr, h1 | h1⟩ := h
  · subst h1; exact ⟨r, hr, Or.inr (.edge e)⟩
  · exact ⟨r, hr, Or.inr (h1.snoc e)⟩

theorem Reach.path {P : Project} {a b : Mod} (h : Reach P a) (p : Path P a b) : Reach P b := by
  induction p with
  | edge e => exact h.step e
  | cons e _ ih => exact ih (h.step e)

/-- no module that the project can reach loads itself, directly or indirectly -/
def Acyclic (P : Project) : Prop := ∀ m, Reach P m → ¬ Path P m m

/-- the load in progress of a frame's body is one of the module's `load` statements -/
theorem head_todo_edge {P : Project} {s : State} (inv1 : Inv1 P s) {t : Tid} {f : Frame} (hf : f ∈ s.stack t) {d : Mod}
    (h : f.todo.head? = some d) : d ∈ P.loads f.mod := by
  have hs := inv1.suffix t f hf
  have : d ∈ f.todo := by
    cases htd : f.todo with
    | nil => simp [htd] at h
    | cons a as => simp [htd] at h; subst h; simp
  exact hs.subset this

/-- a chain's pointers: every frame's `loading`, if set, is the load in progress of its body -/
theorem chain_edges {P : Project} {s : State} (inv1 : Inv1 P s) {t : Tid} :
    ∀ (pre stk : List Frame) (p : Option Mod), s.stack t = pre ++ stk → chainOK s.loading p stk →
      (∀ f rest d, stk = f :: rest → p = some d → f.todo.head? = some d) →
      ∀ f ∈ stk, ∀ d, s.loading f.mod = some d → f.todo.head? = some d := by
  intro pre stk
  induction stk generalizing pre with
  | nil => intro p _ _ _ f hf; simp at hf
  | cons g rest ih =>
    intro p hst hc htop f hf d hd
    simp only [chainOK] at hc
    simp only [List.mem_cons] at hf
    rcases hf with rfl | hf
    · rw [hc.1] at hd
      exact htop f rest d rfl hd
    · refine ih (pre ++ [g]) (some g.mod) (by simp [hst]) hc.2 ?_ f hf d hd
      intro f2 rest2 d2 hr hp
      cases hp
      subst hr
      exact inv1.lower_busy t g f2 rest2 pre (by simp [hst])

/-- every `loading` pointer is a load edge of the project -/
theorem loading_edge {P : Project} {s : State} (inv1 : Inv1 P s) (inv3 : Inv3 s) {x d : Mod}
    (h : s.loading x = some d) : d ∈ P.loads x ∧ ∃ t f, f ∈ s.stack t ∧ f.mod = x := by
  have hin : ∃ t f, f ∈ s.stack t ∧ f.mod = x := by
    apply Classical.byContradiction
    intro hn
    have := inv3.free_none x (fun t f hf e => hn ⟨t, f, hf, e⟩)
    rw [this] at h; cases h
  obtain ⟨t, f, hf, rfl⟩ := hin
  refine ⟨?_, t, f, hf, rfl⟩
  cases hs : s.stack t with
  | nil => simp [hs] at hf
  | cons g rest =>
    have hc := inv3.chain t g rest hs
    have htop1 : ∀ d', topPtr (s.pc t) g = some d' → g.todo.head? = some d' := by
      intro d' hp
      -- the top frame: the pointer is the target of the pc, or (when returning) the head of the remaining loads
      have ht := inv1.tgt_frame t g rest d' hs
      cases hpc : s.pc t <;> simp only [topPtr, hpc, target, reduceCtorEq, Option.some.injEq] at hp ht
      all_goals first
        | exact hp
        | exact ht (by rw [hp])
    have htop : ∀ f' rest' d', g :: rest = f' :: rest' → topPtr (s.pc t) g = some d' → f'.todo.head? = some d' := by
      intro f' rest' d' he hp
      cases he
      exact htop1 d' hp
    have := chain_edges inv1 (t := t) [] (g :: rest) _ (by simp [hs]) hc htop f (by rw [hs] at hf; exact hf) d h
    exact head_todo_edge inv1 hf this

structure Inv4 (P : Project) (s : State) : Prop where
  /-- a chain walk stands on a module reached from the module it waits for -/
  walk_path : ∀ t d c, s.pc t = .walk d (some c) → Path P d c
  /-- everything in the registry is reachable from a package -/
  reg_reach : ∀ m, s.registry m = true → Reach P m
  tgt_reach : ∀ t d, target (s.pc t) = some d → Reach P d

theorem inv4_init (P : Project) : Inv4 P (init P) := by
  constructor
  · intro t d c h
    rcases init_pc P t with ⟨_, h2⟩ | ⟨r, _, h2⟩ <;> rw [h2] at h <;> cases h
  · intro m h; simp [init] at h
  · intro t d h
    rcases init_pc P t with ⟨_, h2⟩ | ⟨r, h1, h2⟩ <;> rw [h2] at h <;> simp [target] at h
    subst h
    exact ⟨r, List.mem_of_getElem? h1, Or.inl rfl⟩

set_option maxHeartbeats 1000000 in
theorem inv4_fstep {P : Project} {s s' : State} {t : Tid} (inv1 : Inv1 P s) (inv3 : Inv3 s) (inv : Inv4 P s)
    (st : FStep P s t s') : Inv4 P s' := by
  have ⟨k1, k2, k3⟩ := inv
  have hedge : ∀ x d, s.loading x = some d → d ∈ P.loads x := fun x d h => (loading_edge inv1 inv3 h).1
  cases st <;> constructor <;> simp only [setPc, publish, goSleep, upd] at * <;> first | grind [target] | skip
  case runCall.tgt_reach f rest d ds hpc hst hb htd =>
    intro t1 d1 h
    by_cases ht : t1 = t
    · subst ht
      simp only [↓reduceIte, target, Option.some.injEq] at h
      subst h
      have hf : f ∈ s.stack t1 := by simp [hst]
      exact (k2 f.mod (inv1.frame_reg t1 f hf)).step (head_todo_edge inv1 hf (by simp [htd]))
    · simp only [ht, ↓reduceIte] at h
      exact k3 t1 d1 h
  case enterWalk.walk_path d f rest hpc hst =>
    intro t1 d1 c h
    by_cases ht : t1 = t
    · subst ht
      simp only [↓reduceIte, PC.walk.injEq] at h
      obtain ⟨rfl, h2⟩ := h
      exact .edge (hedge _ _ h2)
    · simp only [ht, ↓reduceIte] at h
      exact k1 t1 d1 c h
  case walkNext.walk_path d c hpc htop =>
    intro t1 d1 c1 h
    by_cases ht : t1 = t
    · subst ht
      simp only [↓reduceIte, PC.walk.injEq] at h
      obtain ⟨rfl, h2⟩ := h
      exact (k1 t1 d c hpc).snoc (hedge _ _ h2)
    · simp only [ht, ↓reduceIte] at h
      exact k1 t1 d1 c1 h

theorem inv4_reachable {P : Project} {s : State} (h : Reachable .fixed P s) : Inv4 P s :=
  reachable_induction (I := Inv4 P) (inv4_init P)
    (fun _ _ _ hr ih st => inv4_fstep (inv1_reachable hr) (inv3_reachable hr) ih st) h

/-- a cyclic-dependency verdict exhibits a cycle of `load` statements through a reachable module -/
theorem verdict_cycle {P : Project} {s : State} (inv1 : Inv1 P s) (inv4 : Inv4 P s) {t : Tid} {d c : Mod}
    (hpc : s.pc t = .walk d (some c)) (htop : top s t = some c) : Reach P c ∧ Path P c c := by
  cases hs : s.stack t with
  | nil => simp [top, hs] at htop
  | cons f rest =>
    simp only [top, hs, List.head?_cons, Option.map_some, Option.some.injEq] at htop
    have hf : f ∈ s.stack t := by simp [hs]
    have hd := inv1.tgt_frame t f rest d hs (by simp [hpc, target])
    have he := head_todo_edge inv1 hf hd
    rw [htop] at he
    refine ⟨?_, .cons he (inv4.walk_path t d c hpc)⟩
    rw [← htop]
    exact inv4.reg_reach f.mod (inv1.frame_reg t f hf)

end Dawn.Loader

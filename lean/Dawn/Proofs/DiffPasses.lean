import Dawn.Proofs.DiffMerge
/-!
C16: the outer loop of `compose` (search, extract the route, record it, restart on the rest when the route list
outgrew `routeSize`) and `diffSlice` as a whole.
-/
namespace Dawn.Diff

section
variable {α δ : Type} (eq : α → α → Except Err Bool) (eqb : α → α → Bool)

theorem slice_drop (s : List α) (i : Int) (h0 : 0 ≤ i) (h1 : i ≤ s.length) :
    slice s i s.length = .ok (s.drop i.toNat) := by
  rw [slice_ok s i s.length h0 h1 (Int.le_refl _)]
  congr 1
  apply List.take_of_length_le
  simp only [List.length_drop]
  omega


/-- All passes of `compose`: with fuel `len(a) + len(b) + 1` (and `m + n + 2` rounds per pass) the search neither
panics nor runs out of fuel, and the raw edits it records account for exactly the two sequences. -/
theorem passes_spec (routeSize size : Nat) (hrs : 1 ≤ routeSize) (reverse : Bool) (fuel : Nat) :
    ∀ (a b : List α) (edits : List (RawEdit α)) (o0 n0 : List α),
      a.length ≤ b.length → a.length + b.length + 3 ≤ size → a.length + b.length + 1 ≤ fuel →
      EqOn eq eqb a b → AllOK edits → RawS eqb edits o0 n0 →
      ∃ edits', passes eq routeSize size reverse fuel a b edits = .ok edits' ∧ AllOK edits' ∧
        RawS eqb edits' (o0 ++ (if reverse then b else a)) (n0 ++ (if reverse then a else b)) := by
  induction fuel with
  | zero => intro a b _ _ _ _ _ hf; omega
  | succ fuel ih =>
    intro a b edits o0 n0 hmn hsize hf heq hall hraw
    -- the search
    obtain ⟨st1, p', e1, rd1, _, hexit, hsz⟩ := rounds_spec eq eqb a b size hmn hsize heq routeSize
      (a.length + b.length + 2) 0 _ (init_pre eqb a b size hsize) (by omega)
    have hg := rd1.good
    have hset := rd1.set ((b.length : Int) - a.length) (by omega) (by omega)
    have hlow := rd1.low eqb a b hmn
    -- the end of the route
    have hrd : rd st1.path ((b.length : Int) - a.length + ((a.length : Int) + 1)) =
        .ok (getI st1.path ((b.length : Int) - a.length + ((a.length : Int) + 1))) :=
      rd_ok (by omega) (by have := hg.size_path; omega)
    obtain ⟨q, hr0, hq, hqy, hqx, hx0, hx1, hy0, hy1⟩ :
        ∃ q, 0 ≤ getI st1.path ((b.length : Int) - a.length + ((a.length : Int) + 1)) ∧
          st1.pts[(getI st1.path ((b.length : Int) - a.length + ((a.length : Int) + 1))).toNat]? = some q ∧
          q.y = F a st1 ((b.length : Int) - a.length) ∧ q.x = F a st1 ((b.length : Int) - a.length) - ((b.length : Int) - a.length) ∧
          0 ≤ q.x ∧ q.x ≤ a.length ∧ 0 ≤ q.y ∧ q.y ≤ b.length := by
      rcases hg.diag ((b.length : Int) - a.length) (by omega) (by omega) with ⟨h, _⟩ | h
      · unfold F at hset; omega
      · exact h
    obtain ⟨r, hr⟩ : ∃ r : Nat, (r : Int) = getI st1.path ((b.length : Int) - a.length + ((a.length : Int) + 1)) :=
      ⟨_, Int.toNat_of_nonneg hr0⟩
    have hq' : st1.pts[r]? = some q := by rw [← hr] at hq; simpa using hq
    obtain ⟨L, hL, hLok, hLlast⟩ := route_spec eqb a b hg.pts r q (st1.pts.size + 1) [] hq'
      (by have := lt_of_getElem?_some hq'; omega) trivial
    -- recording it
    obtain ⟨es', Q, hw, hP, hQ⟩ := walkRoute_spec eqb a b (reverse := reverse) hall L (0, 0) edits hLok RawP.base
    have hQq : Q = (q.x, q.y) := by
      cases L with
      | nil => simp at hLlast
      | cons l ls =>
        rw [List.getLast?_cons_cons] at hQ
        rw [hQ] at hLlast
        simpa using hLlast
    subst hQq
    simp only [] at hw hP
    have hall' := hP.allOK eqb a b hall
    have hsem : RawS eqb es' (o0 ++ (if reverse then b.take q.y.toNat else a.take q.x.toNat))
        (n0 ++ (if reverse then a.take q.x.toNat else b.take q.y.toNat)) := by
      cases reverse
      · simpa using hP.semF eqb a b hraw
      · simpa using hP.semT eqb a b hraw
    by_cases hdone : q.x + 1 > (a.length : Int) ∧ q.y + 1 > (b.length : Int)
    · -- everything was recorded
      refine ⟨es', ?_, hall', ?_⟩
      · simp only [passes, bind, Except.bind, e1, hrd, ← hr, hL, hw, hdone, and_self, ↓reduceIte, pure, Except.pure]
      · have ex : q.x.toNat = a.length := by omega
        have ey : q.y.toNat = b.length := by omega
        rw [ex, ey] at hsem
        simpa using hsem
    · -- the route list outgrew routeSize: continue on the rest
      have hnd : F a st1 ((b.length : Int) - a.length) < b.length := by omega
      have hprog : 1 ≤ q.x + q.y := by
        by_cases hz : (b.length : Int) - a.length + p' ≥ 1
        · omega
        · have hp0 : p' = 0 := by omega
          have := hsz hp0
          simp only [List.size_toArray, List.length_nil] at this
          rcases hexit with h | h
          · omega
          · have hd : b.length - a.length = 0 := by omega
            simp only [hd] at this
            omega
      obtain ⟨edits2, e2, hall2, hsem2⟩ := ih (a.drop q.x.toNat) (b.drop q.y.toNat) es' _ _
        (by simp only [List.length_drop]; omega) (by simp only [List.length_drop]; omega)
        (by simp only [List.length_drop]; omega) (heq.drop eq eqb _ _) hall' hsem
      refine ⟨edits2, ?_, hall2, ?_⟩
      · simp only [passes, bind, Except.bind, e1, hrd, ← hr, hL, hw, hdone, ↓reduceIte,
          slice_drop a q.x hx0 hx1, slice_drop b q.y hy0 hy1]
        exact e2
      · cases reverse
        · simpa [List.append_assoc] using hsem2
        · simpa [List.append_assoc] using hsem2

variable (elemDiff : α → α → Except Err (Option δ)) (lit : Option (List α → List α → δ))

/-- `diffSlice` as a whole: it returns an edit script, and the script reproduces both sequences. -/
theorem diffSliceEdits_spec (routeSize : Nat) (hrs : 1 ≤ routeSize) (a b : List α)
    (heq : EqOn eq eqb a b) (heq' : EqOn eq eqb b a)
    (hD : ∀ x ∈ a, ∀ y ∈ b, lit = none → ∃ d, elemDiff x y = .ok d) :
    ∃ edits, diffSliceEdits eq elemDiff lit routeSize a b = .ok edits ∧ Recon eqb elemDiff lit edits a b := by
  unfold diffSliceEdits
  by_cases hrev : a.length ≥ b.length
  · simp only [hrev, decide_true, ↓reduceIte, bind, Except.bind]
    obtain ⟨raw, e1, _, hraw⟩ := passes_spec eq eqb routeSize (b.length + a.length + 3) hrs true
      (b.length + a.length + 1) b a [] [] [] (by omega) (by omega) (by omega) heq' (fun _ h => by simp at h) RawS.nil
    simp only [List.nil_append, ↓reduceIte] at hraw
    obtain ⟨out, e2, hout⟩ := merge_spec eqb elemDiff lit raw.reverse [] [] [] a b ReconR.nil hraw.toF (by simpa using hD)
    simp only [List.nil_append] at hout
    exact ⟨out.reverse, by simp [e1, e2, pure, Except.pure], hout.toRecon⟩
  · simp only [hrev, decide_false, Bool.false_eq_true, ↓reduceIte, bind, Except.bind]
    obtain ⟨raw, e1, _, hraw⟩ := passes_spec eq eqb routeSize (a.length + b.length + 3) hrs false
      (a.length + b.length + 1) a b [] [] [] (by omega) (by omega) (by omega) heq (fun _ h => by simp at h) RawS.nil
    simp only [List.nil_append, Bool.false_eq_true, ↓reduceIte] at hraw
    obtain ⟨out, e2, hout⟩ := merge_spec eqb elemDiff lit raw.reverse [] [] [] a b ReconR.nil hraw.toF (by simpa using hD)
    simp only [List.nil_append] at hout
    exact ⟨out.reverse, by simp [e1, e2, pure, Except.pure], hout.toRecon⟩

end
end Dawn.Diff

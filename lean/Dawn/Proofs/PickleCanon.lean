import Dawn.Proofs.PickleRT
/-! Canonical graphs (the encoder-independent walk of `Dawn/Model/Pickle.lean`):
(A) the walk never needs more fuel than the number of addresses it hands out, plus one;
(B) wherever the walk succeeds, the encoder model succeeds, with the same fuel. -/
namespace Dawn.Pickle

/-! ### (A) fuel -/

/-- `f` only succeeds where `walkVal` succeeds with any fuel above the number of addresses handed out -/
def Good (g : Heap) (f : WalkSt → Val → Option WalkSt) : Prop :=
  ∀ st v st', f st v = some st' →
    st.next ≤ st'.next ∧ ∀ k, st'.next - st.next + 1 ≤ k → walkVal g k st v = some st'

theorem walkSeq_good {g : Heap} {f : WalkSt → Val → Option WalkSt} (hf : Good g f) :
    ∀ (xs : List Val) (st st' : WalkSt), walkSeq f st xs = some st' →
      st.next ≤ st'.next ∧ ∀ k, st'.next - st.next + 1 ≤ k → walkSeq (walkVal g k) st xs = some st' := by
  intro xs
  induction xs with
  | nil =>
    intro st st' h
    simp only [walkSeq, Option.some.injEq] at h; subst h
    exact ⟨Nat.le_refl _, fun k _ => rfl⟩
  | cons x xs ih =>
    intro st st' h
    simp only [walkSeq] at h
    cases h1 : f st x with
    | none => simp [h1] at h
    | some st1 =>
      simp only [h1] at h
      obtain ⟨m1, g1⟩ := hf st x st1 h1
      obtain ⟨m2, g2⟩ := ih st1 st' h
      refine ⟨Nat.le_trans m1 m2, fun k hk => ?_⟩
      simp only [walkSeq, g1 k (by omega)]
      exact g2 k (by omega)

theorem walkVal_good (g : Heap) : ∀ fuel, Good g (walkVal g fuel) := by
  intro fuel
  induction fuel with
  | zero =>
    intro st v st' h
    cases v with
    | atom a =>
      simp only [walkVal, Option.some.injEq] at h; subst h
      exact ⟨Nat.le_refl _, fun k _ => by cases k <;> rfl⟩
    | mark => simp [walkVal] at h
    | global i m n => simp [walkVal] at h
    | ref a => simp [walkVal] at h
  | succ n ih =>
    intro st v st' h
    cases v with
    | atom a =>
      simp only [walkVal, Option.some.injEq] at h; subst h
      exact ⟨Nat.le_refl _, fun k _ => by cases k <;> rfl⟩
    | mark => simp [walkVal] at h
    | global i m k => simp [walkVal] at h
    | ref a =>
      have hseq := walkSeq_good ih
      simp only [walkVal] at h
      by_cases hseen : st.seen.contains a = true
      · simp only [hseen, if_true, Option.some.injEq] at h; subst h
        refine ⟨Nat.le_refl _, fun k hk => ?_⟩
        cases k with
        | zero => omega
        | succ k => simp only [walkVal, hseen, if_true]
      · simp only [hseen, Bool.false_eq_true, if_false] at h
        cases hg : g[a]? with
        | none => simp [hg] at h
        | some o =>
          simp only [hg] at h
          -- the goal for fuel k+1, with the same tests decided the same way
          have fin : ∀ (k : Nat) (r : Option WalkSt),
              (match g[a]? with
                | Option.none => Option.none
                | some (.tuple xs) =>
                  match walkSeq (walkVal g k) st xs with
                  | some st' => if a = st'.next then some { st' with next := st'.next + 1 } else Option.none
                  | Option.none => Option.none
                | some (.list xs) =>
                  if a = st.next then walkSeq (walkVal g k) { seen := a :: st.seen, next := st.next + 1 } xs else Option.none
                | some (.dict kvs) =>
                  if a = st.next then walkSeq (walkVal g k) { seen := a :: st.seen, next := st.next + 1 } (flattenPairs kvs)
                  else Option.none
                | some (.set xs) =>
                  if a = st.next then walkSeq (walkVal g k) { seen := a :: st.seen, next := st.next + 1 } xs else Option.none
                | some (.host _ _ args) =>
                  match args with
                  | .ref t =>
                    match g[t]? with
                    | some (.tuple _) =>
                      match walkVal g k st args with
                      | some st' => if a = st'.next then some { seen := a :: st'.seen, next := st'.next + 1 } else Option.none
                      | Option.none => Option.none
                    | _ => Option.none
                  | _ => Option.none) = r →
              walkVal g (k + 1) st (.ref a) = r := by
            intro k r hr
            simp only [walkVal, hseen, Bool.false_eq_true, if_false]
            exact hr
          cases o with
          | tuple xs =>
            simp only at h
            cases h1 : walkSeq (walkVal g n) st xs with
            | none => simp [h1] at h
            | some st1 =>
              simp only [h1] at h
              split at h
              · rename_i haeq
                simp only [Option.some.injEq] at h; subst h
                obtain ⟨m1, g1⟩ := hseq xs st st1 h1
                refine ⟨by simp only; omega, fun k hk => ?_⟩
                cases k with
                | zero => simp only at hk; omega
                | succ k =>
                  apply fin
                  simp only [hg, g1 k (by simp only at hk; omega), if_pos haeq]
              · cases h
          | list xs =>
            simp only at h
            split at h
            · rename_i haeq
              obtain ⟨m1, g1⟩ := hseq xs _ st' h
              simp only at m1
              refine ⟨by omega, fun k hk => ?_⟩
              cases k with
              | zero => omega
              | succ k =>
                apply fin
                simp only [hg, if_pos haeq]
                exact g1 k (by simp only; omega)
            · cases h
          | dict kvs =>
            simp only at h
            split at h
            · rename_i haeq
              obtain ⟨m1, g1⟩ := hseq _ _ st' h
              simp only at m1
              refine ⟨by omega, fun k hk => ?_⟩
              cases k with
              | zero => omega
              | succ k =>
                apply fin
                simp only [hg, if_pos haeq]
                exact g1 k (by simp only; omega)
            · cases h
          | set xs =>
            simp only at h
            split at h
            · rename_i haeq
              obtain ⟨m1, g1⟩ := hseq xs _ st' h
              simp only at m1
              refine ⟨by omega, fun k hk => ?_⟩
              cases k with
              | zero => omega
              | succ k =>
                apply fin
                simp only [hg, if_pos haeq]
                exact g1 k (by simp only; omega)
            · cases h
          | host m nm args =>
            simp only at h
            cases args with
            | ref t =>
              simp only at h
              cases hgt : g[t]? with
              | none => simp [hgt] at h
              | some ot =>
                cases ot <;> simp only [hgt] at h <;> try (cases h; done)
                cases h1 : walkVal g n st (.ref t) with
                | none => simp [h1] at h
                | some st1 =>
                  simp only [h1] at h
                  split at h
                  · rename_i haeq
                    simp only [Option.some.injEq] at h; subst h
                    obtain ⟨m1, g1⟩ := ih st (.ref t) st1 h1
                    refine ⟨by simp only; omega, fun k hk => ?_⟩
                    cases k with
                    | zero => simp only at hk; omega
                    | succ k =>
                      apply fin
                      simp only [hg, hgt, g1 k (by simp only at hk; omega), if_pos haeq]
                  · cases h
            | atom _ => simp at h
            | mark => simp at h
            | global _ _ _ => simp at h

/-! ### (B) where the walk succeeds the encoder succeeds -/

structure EncRel (ws : WalkSt) (es : EncSt) : Prop where
  next : es.next = ws.next
  memo : ∀ a, lookup es.memo a = Option.none ↔ ws.seen.contains a = false

theorem EncRel.cons {ws : WalkSt} {es : EncSt} (h : EncRel ws es) (a id : Nat) (k : Nat) (hk : k = ws.next + 1) :
    EncRel { seen := a :: ws.seen, next := k } { memo := (a, id) :: es.memo, next := es.next + 1 } := by
  refine ⟨by simp [h.next, hk], fun b => ?_⟩
  by_cases hb : b = a
  · subst hb; simp [lookup_cons_self]
  · rw [lookup_cons_ne _ _ _ _ hb, h.memo b]
    simp [List.contains_cons, hb]

def WSpec (wf : WalkSt → Val → Option WalkSt) (ef : EncSt → Val → Option (EncSt × List Op)) : Prop :=
  ∀ ws v ws' es, wf ws v = some ws' → EncRel ws es → ∃ es' ops, ef es v = some (es', ops) ∧ EncRel ws' es'

theorem walkSeq_append (f : WalkSt → Val → Option WalkSt) : ∀ (xs ys : List Val) (st : WalkSt),
    walkSeq f st (xs ++ ys) = (walkSeq f st xs).bind (fun s => walkSeq f s ys) := by
  intro xs
  induction xs with
  | nil => intro ys st; simp [walkSeq]
  | cons x xs ih =>
    intro ys st
    simp only [List.cons_append, walkSeq]
    cases f st x with
    | none => simp
    | some st1 => exact ih ys st1

theorem encSeq_of_walk {wf ef} (h : WSpec wf ef) : ∀ (xs : List Val) ws ws' es, walkSeq wf ws xs = some ws' → EncRel ws es →
    ∃ es' ops, encSeq ef es xs = some (es', ops) ∧ EncRel ws' es' := by
  intro xs
  induction xs with
  | nil =>
    intro ws ws' es hw hr
    simp only [walkSeq, Option.some.injEq] at hw; subst hw
    exact ⟨es, [], rfl, hr⟩
  | cons x xs ih =>
    intro ws ws' es hw hr
    simp only [walkSeq] at hw
    cases h1 : wf ws x with
    | none => simp [h1] at hw
    | some ws1 =>
      simp only [h1] at hw
      obtain ⟨es1, ops1, e1, r1⟩ := h ws x ws1 es h1 hr
      obtain ⟨es2, ops2, e2, r2⟩ := ih ws1 ws' es1 hw r1
      exact ⟨es2, ops1 ++ ops2, by simp [encSeq, e1, e2], r2⟩

theorem encBatches_of_walk {wf ef} (h : WSpec wf ef) (rb : Bool) (self close : Op) :
    ∀ (chunks : List (List Val)) (first : Bool) ws ws' es, walkSeq wf ws chunks.flatten = some ws' → EncRel ws es →
      ∃ es' ops, encBatches ef rb self close first es chunks = some (es', ops) ∧ EncRel ws' es' := by
  intro chunks
  induction chunks with
  | nil =>
    intro first ws ws' es hw hr
    simp only [List.flatten_nil, walkSeq, Option.some.injEq] at hw; subst hw
    exact ⟨es, [], rfl, hr⟩
  | cons c cs ih =>
    intro first ws ws' es hw hr
    simp only [List.flatten_cons, walkSeq_append] at hw
    cases h1 : walkSeq wf ws c with
    | none => simp [h1] at hw
    | some ws1 =>
      simp only [h1, Option.bind_some] at hw
      obtain ⟨es1, ops1, e1, r1⟩ := encSeq_of_walk h c ws ws1 es h1 hr
      obtain ⟨es2, ops2, e2, r2⟩ := ih false ws1 ws' es1 hw r1
      exact ⟨es2, (if (!first && rb) = true then [self] else []) ++ [Op.mark] ++ ops1 ++ [close] ++ ops2,
        by simp only [encBatches, e1, e2], r2⟩

theorem flattenPairs_flatten (cs : List (List (Val × Val))) : (cs.map flattenPairs).flatten = flattenPairs cs.flatten := by
  induction cs with
  | nil => rfl
  | cons c cs ih => simp only [List.map_cons, List.flatten_cons, ih, flattenPairs, List.flatMap_append]

theorem encVal_of_walk (cfg : EncCfg) (hp : cfg.pickler = true) (g : Heap) :
    ∀ fuel, WSpec (walkVal g fuel) (encVal cfg g fuel) := by
  intro fuel
  induction fuel with
  | zero =>
    intro ws v ws' es hw hr
    cases v with
    | atom a =>
      simp only [walkVal, Option.some.injEq] at hw; subst hw
      exact ⟨es, _, rfl, hr⟩
    | mark => simp [walkVal] at hw
    | global i m n => simp [walkVal] at hw
    | ref a => simp [walkVal] at hw
  | succ n ih =>
    intro ws v ws' es hw hr
    cases v with
    | atom a =>
      simp only [walkVal, Option.some.injEq] at hw; subst hw
      exact ⟨es, _, rfl, hr⟩
    | mark => simp [walkVal] at hw
    | global i m k => simp [walkVal] at hw
    | ref a =>
      simp only [walkVal] at hw
      simp only [encVal]
      by_cases hseen : ws.seen.contains a = true
      · simp only [hseen, if_true, Option.some.injEq] at hw; subst hw
        cases hl : lookup es.memo a with
        | none => rw [(hr.memo a).mp hl] at hseen; cases hseen
        | some id => exact ⟨es, _, rfl, hr⟩
      · simp only [hseen, Bool.false_eq_true, if_false] at hw
        have hl : lookup es.memo a = Option.none := (hr.memo a).mpr (by simpa using hseen)
        simp only [hl]
        cases hg : g[a]? with
        | none => simp [hg] at hw
        | some o =>
          simp only [hg] at hw ⊢
          cases o with
          | tuple xs =>
            simp only at hw ⊢
            cases h1 : walkSeq (walkVal g n) ws xs with
            | none => simp [h1] at hw
            | some ws1 =>
              simp only [h1] at hw
              split at hw
              · rename_i haeq
                simp only [Option.some.injEq] at hw; subst hw
                obtain ⟨es1, ops1, e1, r1⟩ := encSeq_of_walk ih xs ws ws1 es h1 hr
                simp only [e1, r1.next, if_pos haeq]
                exact ⟨_, _, rfl, ⟨by simp [r1.next], r1.memo⟩⟩
              · cases hw
          | list xs =>
            simp only at hw ⊢
            split at hw
            · rename_i haeq
              have haeq' : a = es.next := by rw [hr.next]; exact haeq
              simp only [if_pos haeq']
              have r0 := hr.cons a es.memo.length (ws.next + 1) rfl
              rcases xs with _ | ⟨x, _ | ⟨y, t⟩⟩
              · simp only [walkSeq, Option.some.injEq] at hw; subst hw
                exact ⟨_, _, rfl, r0⟩
              · simp only [walkSeq] at hw
                cases h1 : walkVal g n { seen := a :: ws.seen, next := ws.next + 1 } x with
                | none => simp [h1] at hw
                | some ws1 =>
                  simp only [h1, Option.some.injEq] at hw; subst hw
                  obtain ⟨es1, ops1, e1, r1⟩ := ih _ x ws1 _ h1 r0
                  simp only [e1]
                  exact ⟨_, _, rfl, r1⟩
              · have hfl := chunks_flatten batchSize (by decide) (x :: y :: t).length (x :: y :: t) (Nat.le_refl _)
                obtain ⟨es1, ops1, e1, r1⟩ := encBatches_of_walk ih cfg.rebatch (encGet es.memo.length) .appends
                  (chunks batchSize (x :: y :: t).length (x :: y :: t)) true _ ws' _ (by rw [hfl]; exact hw) r0
                simp only [e1]
                exact ⟨_, _, rfl, r1⟩
            · cases hw
          | dict kvs =>
            simp only at hw ⊢
            split at hw
            · rename_i haeq
              have haeq' : a = es.next := by rw [hr.next]; exact haeq
              simp only [if_pos haeq']
              have r0 := hr.cons a es.memo.length (ws.next + 1) rfl
              have hfl := chunks_flatten batchSize (by decide) kvs.length kvs (Nat.le_refl _)
              obtain ⟨es1, ops1, e1, r1⟩ := encBatches_of_walk ih cfg.rebatch (encGet es.memo.length) .setitems
                ((chunks batchSize kvs.length kvs).map flattenPairs) true _ ws' _
                (by rw [flattenPairs_flatten, hfl]; exact hw) r0
              simp only [e1]
              exact ⟨_, _, rfl, r1⟩
            · cases hw
          | set xs =>
            simp only at hw ⊢
            split at hw
            · rename_i haeq
              have haeq' : a = es.next := by rw [hr.next]; exact haeq
              simp only [if_pos haeq']
              have r0 := hr.cons a es.memo.length (ws.next + 1) rfl
              have hfl := chunks_flatten batchSize (by decide) xs.length xs (Nat.le_refl _)
              obtain ⟨es1, ops1, e1, r1⟩ := encBatches_of_walk ih cfg.rebatch (encGet es.memo.length) .additems
                (chunks batchSize xs.length xs) true _ ws' _ (by rw [hfl]; exact hw) r0
              simp only [e1]
              exact ⟨_, _, rfl, r1⟩
            · cases hw
          | host m nm args =>
            simp only [hp] at hw ⊢
            cases args with
            | ref t =>
              simp only at hw ⊢
              cases hgt : g[t]? with
              | none => simp [hgt] at hw
              | some ot =>
                cases ot <;> simp only [hgt] at hw ⊢ <;> try (cases hw; done)
                cases h1 : walkVal g n ws (.ref t) with
                | none => simp [h1] at hw
                | some ws1 =>
                  simp only [h1] at hw
                  split at hw
                  · rename_i haeq
                    simp only [Option.some.injEq] at hw; subst hw
                    obtain ⟨es1, ops1, e1, r1⟩ := ih ws (.ref t) ws1 es h1 hr
                    simp only [Bool.not_true, Bool.false_eq_true, if_false, e1, r1.next, if_pos haeq]
                    exact ⟨_, _, rfl, by have := r1.cons a es1.memo.length (ws1.next + 1) rfl; simpa [r1.next] using this⟩
                  · cases hw
            | atom _ => simp at hw
            | mark => simp at hw
            | global _ _ _ => simp at hw

end Dawn.Pickle

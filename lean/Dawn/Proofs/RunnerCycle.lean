import Dawn.Proofs.RunnerData
/-!
# Runner: cycle detection is sound and complete (groups C and D)

`Path P a b` — `b` is reachable from `a` through at least one dependency edge (an unknown target has no edges:
it is never evaluated). Soundness (`Inv3`): every label on a walker's work list is reachable from the walker,
so a walker that meets itself lies on a cycle. Completeness (`Inv4`, ghost completion times): a target that
finishes without having been handed the cycle error finishes after all its dependencies, which is impossible
all the way round a cycle.
-/
namespace Dawn.Runner

def edges (P : Params) (l : Label) : List Label := if P.known l then P.deps l else []

inductive Path (P : Params) : Label → Label → Prop where
  | single {a b : Label} : b ∈ edges P a → Path P a b
  | cons {a b c : Label} : b ∈ edges P a → Path P b c → Path P a c

/-- reachable in zero or more steps -/
def ReachRT (P : Params) (a b : Label) : Prop := a = b ∨ Path P a b

theorem Path.snoc {P : Params} {a b c : Label} (h : Path P a b) (hc : c ∈ edges P b) : Path P a c := by
  induction h with
  | single h1 => exact .cons h1 (.single hc)
  | cons h1 _ ih => exact .cons h1 (ih hc)

theorem Path.trans {P : Params} {a b c : Label} (h : Path P a b) (h2 : Path P b c) : Path P a c := by
  induction h with
  | single h1 => exact .cons h1 h2
  | cons h1 _ ih => exact .cons h1 (ih h2)

theorem ReachRT.snoc {P : Params} {a b c : Label} (h : ReachRT P a b) (hc : c ∈ edges P b) : ReachRT P a c := by
  rcases h with rfl | h
  · exact Or.inr (.single hc)
  · exact Or.inr (h.snoc hc)

theorem mem_edges {P : Params} {l d : Label} (hk : P.known l = true) (hd : d ∈ P.deps l) : d ∈ edges P l := by
  simp [edges, hk, hd]

theorem known_of_mem_edges {P : Params} {l d : Label} (hd : d ∈ edges P l) : P.known l = true ∧ d ∈ P.deps l := by
  unfold edges at hd
  split at hd
  next h => exact ⟨h, hd⟩
  · cases hd

/-- the program counters of a thread whose `EvaluateTargets` found / returned the cycle error -/
def PC.cycFound : PC → Bool
  | .unpubCyc | .enter2 none | .evalRest none => true
  | _ => false

structure Inv3 (P : Params) (s : State) : Prop where
  reach : ∀ x, s.pc x ≠ none → ReachRT P P.root x
  walk  : ∀ x todo, s.pc x = some (.walk todo) → ∀ d ∈ todo, Path P x d
  found : ∀ x p, s.pc x = some p → p.cycFound = true → Path P x x
  cyc   : ∀ x, s.cyc x = true → Path P x x

theorem inv3_local {P : Params} {s s' : State} (i3 : Inv3 P s) (l : Label) (p' : PC)
    (hl : s.pc l ≠ none)
    (hpc : s'.pc = upd s.pc l (some p'))
    (hcyc : ∀ x, x ≠ l → s'.cyc x = s.cyc x)
    (hwalk : ∀ todo, p' = .walk todo → ∀ d ∈ todo, Path P l d)
    (hfound : p'.cycFound = true → Path P l l)
    (hcycl : s'.cyc l = true → Path P l l) : Inv3 P s' where
  reach := by
    intro x hx
    rw [hpc] at hx
    by_cases e : x = l
    · subst e; exact i3.reach x hl
    · simp [e] at hx; exact i3.reach x hx
  walk := by
    intro x todo hx
    rw [hpc] at hx
    by_cases e : x = l
    · subst e; simp at hx; exact hwalk todo hx
    · simp [e] at hx; exact i3.walk x todo hx
  found := by
    intro x p hx hp
    rw [hpc] at hx
    by_cases e : x = l
    · subst e; simp at hx; subst hx; exact hfound hp
    · simp [e] at hx; exact i3.found x p hx hp
  cyc := by
    intro x hx
    by_cases e : x = l
    · subst e; exact hcycl hx
    · rw [hcyc x e] at hx; exact i3.cyc x hx

theorem inv3_startTarget {P : Params} {s : State} (i3 : Inv3 P s) (d : Label) (hd : ReachRT P P.root d) :
    Inv3 P (startTarget s d) := by
  unfold startTarget
  split
  next hidle =>
    exact {
      reach := by
        intro x hx
        by_cases e : x = d
        · subst e; exact hd
        · simp [e] at hx; exact i3.reach x hx
      walk := by
        intro x todo hx
        by_cases e : x = d
        · subst e; simp at hx
        · simp [e] at hx; exact i3.walk x todo hx
      found := by
        intro x p hx hp
        by_cases e : x = d
        · subst e; simp at hx; subst hx; cases hp
        · simp [e] at hx; exact i3.found x p hx hp
      cyc := i3.cyc }
  · exact i3

theorem inv3_tstep {P : Params} {s s' : State} {l : Label} {p : PC} (inv : Inv P s) (inv2 : Inv2 P s)
    (i3 : Inv3 P s) (hp : s.pc l = some p) (h : TStep P s l p s') : Inv3 P s' := by
  have hl : s.pc l ≠ none := by rw [hp]; simp
  have hcy := inv.cyc l
  rw [hp] at hcy
  have hc0 : p.afterRest = false → s.cyc l = false := by
    intro hq
    cases hc : s.cyc l with
    | false => rfl
    | true => obtain ⟨q, h1, h2⟩ := hcy hc; cases h1; rw [hq] at h2; cases h2
  have keep : ∀ (p' : PC), (∀ todo, p' ≠ .walk todo) → p'.cycFound = false →
      ∀ s'' : State, s''.pc = upd s.pc l (some p') → s''.cyc = s.cyc → (p.afterRest = false ∨ p'.afterRest = true) →
      Inv3 P s'' := by
    intro p' hw hf s'' hpc hcyc hafter
    refine inv3_local i3 l p' hl hpc (fun x _ => by rw [hcyc]) (fun todo e => absurd e (hw todo))
      (fun e => by rw [hf] at e; cases e) ?_
    intro hc
    rw [hcyc] at hc
    exact i3.cyc l hc
  cases h with
  | enter1 hc => exact keep _ (by simp) rfl _ rfl rfl (Or.inl rfl)
  | load =>
    refine keep _ ?_ ?_ _ rfl rfl (Or.inl rfl)
    · intro todo; split <;> simp
    · split <;> rfl
  | evalStart => exact keep _ (by simp) rfl _ rfl rfl (Or.inl rfl)
  | exit1 => exact keep _ (by simp) rfl _ rfl rfl (Or.inl rfl)
  | start d rest =>
    have hk : P.known l = true := inv.known l _ hp rfl
    obtain ⟨pre, h1, _⟩ := inv2 l _ hp
    have hd : d ∈ P.deps l := by rw [h1]; simp
    have i3' := inv3_startTarget i3 d ((i3.reach l hl).snoc (mem_edges hk hd))
    have hl' : (startTarget s d).pc l ≠ none := by
      unfold startTarget; split
      · by_cases e : l = d
        · simp [e]
        · simp [e]; exact hl
      · exact hl
    refine inv3_local i3' l _ hl' rfl (fun _ _ => rfl) (fun todo e => by cases e) (fun e => by cases e) ?_
    intro hc
    have : (startTarget s d).cyc = s.cyc := by unfold startTarget; split <;> rfl
    rw [this] at hc
    exact i3.cyc l hc
  | publish =>
    have hk : P.known l = true := inv.known l _ hp rfl
    refine inv3_local i3 l _ hl rfl (fun _ _ => rfl) ?_ (fun e => by cases e) (fun hc => i3.cyc l hc)
    intro todo e d hd
    injection e with e; subst e
    exact .single (mem_edges hk hd)
  | found rest =>
    refine inv3_local i3 l _ hl rfl (fun _ _ => rfl) (fun todo e => by cases e) ?_ (fun hc => i3.cyc l hc)
    intro _
    exact i3.walk l _ hp l (by simp)
  | readPub d rest ds hdl hw =>
    have hwd := inv.waiting d
    rw [hw] at hwd
    -- `d` is published, so it is inside `Evaluate` (known) and its waiting set is its dependency list
    obtain ⟨q, hq, hpubq, hds⟩ : ∃ q, s.pc d = some q ∧ q.published = true ∧ ds = P.deps d := by
      cases hq : s.pc d with
      | none => rw [hq] at hwd; simp [expWaiting] at hwd
      | some q =>
        rw [hq] at hwd
        simp only [expWaiting] at hwd
        split at hwd
        next hpq => injection hwd with hwd; exact ⟨q, rfl, hpq, hwd⟩
        · cases hwd
    have hkd : P.known d = true := by
      apply inv.known d q hq
      cases q <;> simp_all [PC.published, PC.inEval]
    refine inv3_local i3 l _ hl rfl (fun _ _ => rfl) ?_ (fun e => by cases e) (fun hc => i3.cyc l hc)
    intro todo e y hy
    injection e with e; subst e
    have hpd : Path P l d := i3.walk l _ hp d (by simp)
    rcases List.mem_append.mp hy with hy | hy
    · subst hds; exact hpd.snoc (mem_edges hkd hy)
    · exact i3.walk l _ hp y (List.mem_cons_of_mem _ hy)
  | readNil d rest hdl hw =>
    refine inv3_local i3 l _ hl rfl (fun _ _ => rfl) ?_ (fun e => by cases e) (fun hc => i3.cyc l hc)
    intro todo e y hy
    injection e with e; subst e
    exact i3.walk l _ hp y (List.mem_cons_of_mem _ hy)
  | walked => exact keep _ (by simp) rfl _ rfl rfl (Or.inl rfl)
  | waited d rest hs hr => exact keep _ (by simp) rfl _ rfl rfl (Or.inl rfl)
  | unpub hs => exact keep _ (by simp) rfl _ rfl rfl (Or.inl rfl)
  | unpubCyc =>
    refine inv3_local i3 l _ hl rfl (fun _ _ => rfl) (fun todo e => by cases e) ?_ (fun hc => i3.cyc l hc)
    intro _; exact i3.found l _ hp rfl
  | enter2 res hc =>
    refine inv3_local i3 l _ hl rfl (fun _ _ => rfl) (fun todo e => by cases e) ?_ (fun hc => i3.cyc l hc)
    intro hf
    cases res with
    | none => exact i3.found l _ hp rfl
    | some hs => cases hf
  | evalRest res =>
    refine inv3_local i3 l _ hl rfl (fun x hx => by simp [upd, hx]) (fun todo e => by cases e)
      (fun e => by cases e) ?_
    intro hc
    simp at hc
    rcases hc with hc | hc
    · exact i3.cyc l hc
    · cases res with
      | none => exact i3.found l _ hp rfl
      | some hs => cases hc
  | finish st e => exact keep _ (by simp) rfl _ rfl rfl (Or.inr rfl)
  | exit2 => exact keep _ (by simp) rfl _ rfl rfl (Or.inr rfl)
  | wgDone => exact keep _ (by simp) rfl _ rfl rfl (Or.inr rfl)

theorem inv3_mstep {P : Params} {s s' : State} (i3 : Inv3 P s) (h : MStep P s s') : Inv3 P s' := by
  cases h with
  | start hm =>
    have := inv3_startTarget i3 P.root (Or.inl rfl)
    exact { reach := this.reach, walk := this.walk, found := this.found, cyc := this.cyc }
  | wait hm hr => exact { reach := i3.reach, walk := i3.walk, found := i3.found, cyc := i3.cyc }
  | waitAll e hm hl => exact { reach := i3.reach, walk := i3.walk, found := i3.found, cyc := i3.cyc }

theorem inv3_init (P : Params) : Inv3 P (init P) where
  reach := by intro x h; simp [init] at h
  walk := by intro x t h; simp [init] at h
  found := by intro x p h; simp [init] at h
  cyc := by intro x h; simp [init] at h

theorem Reachable.inv3 {P : Params} {s : State} (h : Reachable P s) : Inv3 P s := by
  induction h with
  | init => exact inv3_init P
  | step t hr hs ih =>
    rcases step_cases hs with ⟨_, hm⟩ | ⟨l, p, _, hp, ht⟩
    · exact inv3_mstep ih hm
    · exact inv3_tstep hr.inv hr.inv2 ih hp ht

/-! ## completeness: completion times -/

structure Inv4 (P : Params) (s : State) : Prop where
  bound : ∀ x, (s.status x).final = true → s.ftime x < s.fclock
  order : ∀ x, (s.status x).final = true → P.known x = true → s.cyc x = false →
            ∀ d ∈ P.deps x, (s.status d).final = true ∧ s.ftime d < s.ftime x

/-- steps that change neither status, completion times nor the cycle flag of a finished target -/
theorem inv4_frame {P : Params} {s s' : State} (i4 : Inv4 P s)
    (hst : ∀ x, (s'.status x).final = true → s'.status x = s.status x)
    (hst' : ∀ x, (s.status x).final = true → s'.status x = s.status x)
    (hft : s'.ftime = s.ftime) (hfc : s'.fclock = s.fclock)
    (hcyc : ∀ x, (s.status x).final = true → s'.cyc x = s.cyc x) : Inv4 P s' where
  bound := by
    intro x hx
    have h1 := hst x hx
    rw [h1] at hx
    rw [hft, hfc]; exact i4.bound x hx
  order := by
    intro x hx hk hc d hd
    have h1 := hst x hx
    rw [h1] at hx
    rw [hcyc x hx] at hc
    obtain ⟨h2, h3⟩ := i4.order x hx hk hc d hd
    rw [hft]
    exact ⟨by rw [hst' d h2]; exact h2, h3⟩

theorem inv4_startTarget {P : Params} {s : State} (i4 : Inv4 P s) (d : Label) : Inv4 P (startTarget s d) := by
  unfold startTarget
  split
  next hidle =>
    apply inv4_frame i4
    · intro x hx
      by_cases e : x = d
      · subst e; simp [Status.final] at hx
      · simp [e]
    · intro x hx
      have : x ≠ d := by intro c; subst c; rw [hidle] at hx; cases hx
      simp [this]
    · rfl
    · rfl
    · intro _ _; rfl
  · exact i4

theorem inv4_tstep {P : Params} {s s' : State} {l : Label} {p : PC} (inv : Inv P s) (inv2 : Inv2 P s)
    (i4 : Inv4 P s) (hp : s.pc l = some p) (h : TStep P s l p s') : Inv4 P s' := by
  have same : ∀ s'' : State, s''.status = s.status → s''.ftime = s.ftime → s''.fclock = s.fclock →
      (∀ x, (s.status x).final = true → s''.cyc x = s.cyc x) → Inv4 P s'' := by
    intro s'' h1 h2 h3 h4
    exact inv4_frame i4 (fun x _ => by rw [h1]) (fun x _ => by rw [h1]) h2 h3 h4
  cases h with
  | start d rest =>
    have := inv4_startTarget i4 d
    exact { bound := this.bound, order := this.order }
  | evalRest res =>
    refine same _ rfl rfl rfl ?_
    intro x hx
    have : x ≠ l := by
      intro c; subst c
      rw [inv.running_of hp rfl] at hx; cases hx
    simp [upd, this]
  | finish st e =>
    have hrun := inv.running_of hp rfl
    have hfin : st.final = true := inv.fin l st e hp
    have hspec : OutcomeSpec P s l st e := inv2 l _ hp
    exact {
      bound := by
        intro x hx
        by_cases c : x = l
        · subst c; simp
        · simp [c] at hx ⊢
          have := i4.bound x hx
          omega
      order := by
        intro x hx hk hc d hd
        by_cases c : x = l
        · subst c
          simp only [upd_same]
          -- the thread's own outcome: all its dependencies had finished when it was computed
          have hcy : s.cyc x = false := hc
          rcases hspec with ⟨h1, _⟩ | ⟨_, h2, _⟩ | ⟨_, _, h3, _⟩
          · rw [hk] at h1; cases h1
          · rw [hcy] at h2; cases h2
          · have hdf := h3 d hd
            have hdl : d ≠ x := by intro c; subst c; rw [hrun] at hdf; cases hdf
            simp [hdl]
            exact ⟨hdf, i4.bound d hdf⟩
        · simp [c] at hx hc ⊢
          obtain ⟨h2, h3⟩ := i4.order x hx hk hc d hd
          have hdl : d ≠ l := by intro c; subst c; rw [hrun] at h2; cases h2
          simp [hdl]
          exact ⟨h2, h3⟩ }
  | enter1 hc => exact same _ rfl rfl rfl (fun _ _ => rfl)
  | load => exact same _ rfl rfl rfl (fun _ _ => rfl)
  | evalStart => exact same _ rfl rfl rfl (fun _ _ => rfl)
  | exit1 => exact same _ rfl rfl rfl (fun _ _ => rfl)
  | publish => exact same _ rfl rfl rfl (fun _ _ => rfl)
  | found rest => exact same _ rfl rfl rfl (fun _ _ => rfl)
  | readPub d rest ds hdl hw => exact same _ rfl rfl rfl (fun _ _ => rfl)
  | readNil d rest hdl hw => exact same _ rfl rfl rfl (fun _ _ => rfl)
  | walked => exact same _ rfl rfl rfl (fun _ _ => rfl)
  | waited d rest hs hr => exact same _ rfl rfl rfl (fun _ _ => rfl)
  | unpub hs => exact same _ rfl rfl rfl (fun _ _ => rfl)
  | unpubCyc => exact same _ rfl rfl rfl (fun _ _ => rfl)
  | enter2 res hc => exact same _ rfl rfl rfl (fun _ _ => rfl)
  | exit2 => exact same _ rfl rfl rfl (fun _ _ => rfl)
  | wgDone => exact same _ rfl rfl rfl (fun _ _ => rfl)

theorem inv4_mstep {P : Params} {s s' : State} (i4 : Inv4 P s) (h : MStep P s s') : Inv4 P s' := by
  cases h with
  | start hm =>
    have := inv4_startTarget i4 P.root
    exact { bound := this.bound, order := this.order }
  | wait hm hr => exact { bound := i4.bound, order := i4.order }
  | waitAll e hm hl => exact { bound := i4.bound, order := i4.order }

theorem inv4_init (P : Params) : Inv4 P (init P) where
  bound := by intro x h; simp [init, Status.final] at h
  order := by intro x h; simp [init, Status.final] at h

theorem Reachable.inv4 {P : Params} {s : State} (h : Reachable P s) : Inv4 P s := by
  induction h with
  | init => exact inv4_init P
  | step t hr hs ih =>
    rcases step_cases hs with ⟨_, hm⟩ | ⟨l, p, _, hp, ht⟩
    · exact inv4_mstep ih hm
    · exact inv4_tstep hr.inv hr.inv2 ih hp ht

/-- a finished target's recorded outcome satisfies the outcome specification -/
theorem Reachable.outcome {P : Params} {s : State} (hr : Reachable P s) (x : Label)
    (hf : (s.status x).final = true) : OutcomeSpec P s x (s.status x) (s.err x) := by
  have inv := hr.inv
  obtain ⟨p, hp⟩ := inv.pc_of_not_idle (l := x) (by intro c; rw [c] at hf; cases hf)
  have hpf : p.final = true := by
    cases h : p.final with
    | true => rfl
    | false => rw [inv.running_of hp h] at hf; cases hf
  have := hr.inv2 x p hp
  cases p <;> simp_all [PC.final, DataOk]

/-- along a path that starts at a finished target, if no cycle error was ever handed out, everything has
    finished, each target strictly after its dependencies -/
theorem final_along_path {P : Params} {s : State} (i4 : Inv4 P s) (hnc : ∀ l, s.cyc l = false)
    {a b : Label} (hp : Path P a b) (ha : (s.status a).final = true) :
    (s.status b).final = true ∧ s.ftime b < s.ftime a := by
  induction hp with
  | single h1 =>
    obtain ⟨hk, hd⟩ := known_of_mem_edges h1
    exact i4.order _ ha hk (hnc _) _ hd
  | cons h1 _ ih =>
    obtain ⟨hk, hd⟩ := known_of_mem_edges h1
    obtain ⟨h2, h3⟩ := i4.order _ ha hk (hnc _) _ hd
    obtain ⟨h4, h5⟩ := ih h2
    exact ⟨h4, by omega⟩

theorem succeeded_of_final_none {P : Params} {s : State} (hr : Reachable P s) {x : Label}
    (hf : (s.status x).final = true) (he : s.err x = .none) :
    s.status x = .succeeded ∧ P.known x = true ∧ s.cyc x = false ∧
      ∀ d ∈ P.deps x, (s.status d).final = true ∧ s.err d = .none := by
  rcases hr.outcome x hf with ⟨_, _, h⟩ | ⟨_, _, _, h⟩ | ⟨hk, hc, hfin, ho⟩
  · rw [he] at h; cases h
  · rw [he] at h; cases h
  · rw [he] at ho
    simp only [localOutcome] at ho
    split at ho
    next hall =>
      split at ho
      · injection ho with h1 _
        refine ⟨h1, hk, hc, fun d hd => ⟨hfin d hd, ?_⟩⟩
        have := List.all_eq_true.mp hall (s.err d) (List.mem_map_of_mem hd)
        simpa using this
      · injection ho with _ h2; cases h2
    · injection ho with _ h2; cases h2

/-- a successful target's whole reachable subgraph has succeeded, each target after its dependencies -/
theorem succeeded_along_path {P : Params} {s : State} (hr : Reachable P s)
    {a b : Label} (hp : Path P a b) (ha : (s.status a).final = true) (hea : s.err a = .none) :
    (s.status b).final = true ∧ s.err b = .none ∧ s.ftime b < s.ftime a := by
  induction hp with
  | single h1 =>
    obtain ⟨hk, hd⟩ := known_of_mem_edges h1
    obtain ⟨_, _, hc, hall⟩ := succeeded_of_final_none hr ha hea
    exact ⟨(hall _ hd).1, (hall _ hd).2, (hr.inv4.order _ ha hk hc _ hd).2⟩
  | cons h1 _ ih =>
    obtain ⟨hk, hd⟩ := known_of_mem_edges h1
    obtain ⟨_, _, hc, hall⟩ := succeeded_of_final_none hr ha hea
    obtain ⟨h4, h5, h6⟩ := ih (hall _ hd).1 (hall _ hd).2
    have := (hr.inv4.order _ ha hk hc _ hd).2
    exact ⟨h4, h5, by omega⟩

end Dawn.Runner

import Dawn.Proofs.LabelPath
/-! `targetInfoPath` (C12): a left inverse of the model of `url.PathEscape`, and injectivity of the record path. -/
namespace Dawn.Label

/-! ## `targetInfoPath` is injective -/

theorem forall_byte (p : UInt8 → Bool) (h : ∀ n : Nat, n < 256 → p (UInt8.ofNat n) = true) (b : UInt8) : p b = true := by
  have := h b.toNat (UInt8.toNat_lt b)
  simpa using this

def hexDigitVal (c : UInt8) : UInt8 := if c < 58 then c - 48 else c - 55

/-- a left inverse of `pathEscape` -/
def pathUnescape : Bytes → Bytes
  | [] => []
  | [c] => [c]
  | [c, a] => c :: pathUnescape [a]
  | c :: a :: b :: rest =>
    if c = 37 then (hexDigitVal a * 16 + hexDigitVal b) :: pathUnescape rest else c :: pathUnescape (a :: b :: rest)

theorem pathUnescape_cons_ne (c : UInt8) (rest : Bytes) (h : c ≠ 37) : pathUnescape (c :: rest) = c :: pathUnescape rest := by
  match rest with
  | [] => simp [pathUnescape]
  | [a] => simp [pathUnescape]
  | a :: b :: r => simp [pathUnescape, h]

set_option maxRecDepth 100000 in
theorem escape_byte_ok (c : UInt8) :
    (pathEscapeKeeps c && c != 37 ||
      !pathEscapeKeeps c && (hexDigitVal (hexUpper (c.toNat / 16)) * 16 + hexDigitVal (hexUpper (c.toNat % 16)) == c)) = true :=
  forall_byte (fun c => pathEscapeKeeps c && c != 37 ||
      !pathEscapeKeeps c && (hexDigitVal (hexUpper (c.toNat / 16)) * 16 + hexDigitVal (hexUpper (c.toNat % 16)) == c)) (by decide) c

theorem pathUnescape_pathEscape (s : Bytes) : pathUnescape (pathEscape s) = s := by
  induction s with
  | nil => rfl
  | cons c s ih =>
    have hc := escape_byte_ok c
    unfold pathEscape at ih ⊢
    simp only [List.flatMap_cons]
    cases hk : pathEscapeKeeps c with
    | true =>
      simp only [hk, Bool.true_and, Bool.not_true, Bool.false_and, Bool.or_false, bne_iff_ne, ne_eq] at hc
      simp only [↓reduceIte, List.singleton_append]
      rw [pathUnescape_cons_ne _ _ hc, ih]
    | false =>
      simp only [hk, Bool.false_and, Bool.not_false, Bool.true_and, Bool.false_or, beq_iff_eq] at hc
      simp only [Bool.false_eq_true, ↓reduceIte, List.cons_append, List.nil_append, pathUnescape, hc, ih]

theorem pathEscape_injective {a b : Bytes} (h : pathEscape a = pathEscape b) : a = b := by
  have := congrArg pathUnescape h
  rwa [pathUnescape_pathEscape, pathUnescape_pathEscape] at this

set_option maxRecDepth 100000 in
theorem escape_byte_no_slash (c : UInt8) :
    ((if pathEscapeKeeps c then [c] else [37, hexUpper (c.toNat / 16), hexUpper (c.toNat % 16)]).all (· != slash)) = true :=
  forall_byte (fun c => (if pathEscapeKeeps c then [c] else [37, hexUpper (c.toNat / 16), hexUpper (c.toNat % 16)]).all (· != slash))
    (by decide) c

/-- an escaped segment is one path element: it contains no `/` -/
theorem pathEscape_no_slash (s : Bytes) : slash ∉ pathEscape s := by
  unfold pathEscape
  intro h
  obtain ⟨c, _, hc⟩ := List.mem_flatMap.mp h
  have := escape_byte_no_slash c
  simp only [List.all_eq_true, bne_iff_ne, ne_eq] at this
  exact this slash hc rfl

/-- The labels whose build records a project keeps (`saveTargetInfo`): its own labels (no project part), with a
kind that contains no `/` (what `New` accepts; every kind the system uses: `""`, `source`, `arg`) and is not
spelled `target` (the directory of the empty kind), an absolute package, and a non-empty name without `/`. -/
structure TipOK (l : Label) : Prop where
  project : l.project = []
  kindSlash : slash ∉ l.kind
  kindTarget : l.kind ≠ defaultKind
  pkgAbs : hasPrefixSS l.pkg = true
  name : l.name ≠ []
  nameSlash : slash ∉ l.name

def tipDir (l : Label) : Bytes := (if l.kind = [] then defaultKind else l.kind) ++ kindSuffix
def tipSeg (l : Label) : Bytes := pathEscape (l.pkg.drop 2 ++ [slash] ++ (if l.name = [] then defaultTarget else l.name))

theorem hasPrefixSS_length {s : Bytes} (h : hasPrefixSS s = true) : 2 ≤ s.length ∧ s = slash :: slash :: s.drop 2 := by
  match s with
  | [] => cases h
  | [_] => cases h
  | x :: y :: t =>
    simp only [hasPrefixSS, Bool.and_eq_true, decide_eq_true_eq] at h
    simp [h.1, h.2]

theorem tip_eq (work : Bytes) (l : Label) (h : hasPrefixSS l.pkg = true) :
    targetInfoPathGo work l = .ok (pathClean (work ++ [slash] ++ tipDir l ++ [slash] ++ tipSeg l)) := by
  unfold targetInfoPathGo
  rw [slice_drop2 _ (hasPrefixSS_length h).1]
  rfl

theorem tipDir_normal (l : Label) (h : slash ∉ l.kind) : Normal (tipDir l) ∧ slash ∉ tipDir l := by
  unfold tipDir kindSuffix
  generalize hk : (if l.kind = [] then defaultKind else l.kind) = k
  have hks : slash ∉ k := by
    rw [← hk]; split
    · decide
    · exact h
  refine ⟨⟨by simp, ?_, ?_⟩, ?_⟩
  · intro he
    have := congrArg List.getLast? he
    simp at this
    exact absurd this (by decide)
  · intro he
    have := congrArg List.getLast? he
    simp [dotdot] at this
    exact absurd this (by decide)
  · simp only [List.mem_append, List.mem_singleton, not_or]
    exact ⟨hks, by decide⟩

theorem percent_mem_escape (a b : Bytes) : (37 : UInt8) ∈ pathEscape (a ++ [slash] ++ b) := by
  unfold pathEscape
  apply List.mem_flatMap.mpr
  exact ⟨slash, by simp, by decide⟩

theorem tipSeg_normal (l : Label) : Normal (tipSeg l) ∧ slash ∉ tipSeg l := by
  unfold tipSeg
  have hm := percent_mem_escape (l.pkg.drop 2) (if l.name = [] then defaultTarget else l.name)
  refine ⟨⟨?_, ?_, ?_⟩, pathEscape_no_slash _⟩
  · intro he; rw [he] at hm; cases hm
  · intro he; rw [he] at hm; revert hm; decide
  · intro he; rw [he] at hm; revert hm; decide

/-- the stack of `path.Clean(work + "/" + dir + "/" + seg)` for two kept, slash-free elements: they sit on top of
a stack that depends on `work` only -/
theorem tip_stack (work dir seg : Bytes) (hd : Normal dir ∧ slash ∉ dir) (hs : Normal seg ∧ slash ∉ seg) :
    ∃ r stW, StackOK r (seg :: dir :: stW) ∧ (∀ e ∈ seg :: dir :: stW, slash ∉ e) ∧
      pathClean (work ++ [slash] ++ dir ++ [slash] ++ seg) = render r (seg :: dir :: stW) ∧
      r = decide ((work ++ [slash]).head? = some slash) ∧
      stW = (split slash work).foldl (pstep (decide ((work ++ [slash]).head? = some slash))) [] := by
  have hhead : (work ++ [slash] ++ dir ++ [slash] ++ seg).head? = (work ++ [slash]).head? := by
    cases work <;> rfl
  have hsplit : split slash (work ++ [slash] ++ dir ++ [slash] ++ seg) = split slash work ++ [dir] ++ [seg] := by
    have : work ++ [slash] ++ dir ++ [slash] ++ seg = work ++ slash :: (dir ++ slash :: seg) := by simp
    rw [this, split_append_general, split_append_general, split_no_sep _ _ hd.2, split_no_sep _ _ hs.2]
    simp
  refine ⟨_, _, ?_, ?_, ?_, rfl, rfl⟩
  · have h0 := stackOK_fold (decide ((work ++ [slash]).head? = some slash)) (split slash work) [] (stackOK_nil _)
    have h1 := stackOK_step _ _ dir h0
    rw [pstep_normal _ _ _ hd.1] at h1
    have h2 := stackOK_step _ _ seg h1
    rw [pstep_normal _ _ _ hs.1] at h2
    exact h2
  · intro e he
    rcases List.mem_cons.mp he with rfl | he
    · exact hs.2
    rcases List.mem_cons.mp he with rfl | he
    · exact hd.2
    rcases mem_fold _ _ _ _ he with h | h
    · cases h
    · exact mem_split_no_sep slash work e h
  · rw [pathClean_eq]
    unfold pathStack
    rw [hhead, hsplit, List.foldl_append, List.foldl_append]
    simp only [List.foldl_cons, List.foldl_nil, pstep_normal _ _ _ hd.1, pstep_normal _ _ _ hs.1]

theorem tip_injective_core (work : Bytes) (d₁ s₁ d₂ s₂ : Bytes)
    (hd₁ : Normal d₁ ∧ slash ∉ d₁) (hs₁ : Normal s₁ ∧ slash ∉ s₁) (hd₂ : Normal d₂ ∧ slash ∉ d₂) (hs₂ : Normal s₂ ∧ slash ∉ s₂)
    (h : pathClean (work ++ [slash] ++ d₁ ++ [slash] ++ s₁) = pathClean (work ++ [slash] ++ d₂ ++ [slash] ++ s₂)) :
    d₁ = d₂ ∧ s₁ = s₂ := by
  obtain ⟨r₁, w₁, ok₁, sl₁, e₁, hr₁, hw₁⟩ := tip_stack work d₁ s₁ hd₁ hs₁
  obtain ⟨r₂, w₂, ok₂, sl₂, e₂, hr₂, hw₂⟩ := tip_stack work d₂ s₂ hd₂ hs₂
  subst hr₁ hr₂ hw₁ hw₂
  rw [e₁, e₂] at h
  have := congrArg pathStack h
  rw [(pathClean_render _ _ ok₁ sl₁).2.1, (pathClean_render _ _ ok₂ sl₂).2.1] at this
  simp only [List.cons.injEq] at this
  exact ⟨this.2.1, this.1⟩

/-- `a ++ "/" ++ b` determines `a` and `b` when `b` has no `/` -/
theorem split_last_slash : ∀ {a a' b b' : Bytes}, slash ∉ b → slash ∉ b' → a ++ [slash] ++ b = a' ++ [slash] ++ b' → a = a' ∧ b = b'
  | [], [], b, b', _, _, h => by simpa using h
  | [], x :: a', b, b', hb, _, h => by
    simp only [List.nil_append, List.cons_append, List.cons.injEq] at h
    exact absurd (by rw [h.2]; simp) hb
  | x :: a, [], b, b', _, hb', h => by
    simp only [List.nil_append, List.cons_append, List.cons.injEq] at h
    exact absurd (by rw [← h.2]; simp) hb'
  | x :: a, y :: a', b, b', hb, hb', h => by
    simp only [List.cons_append, List.cons.injEq] at h
    obtain ⟨h1, h2⟩ := split_last_slash (a := a) (a' := a') hb hb' (by simpa using h.2)
    exact ⟨by rw [h.1, h1], h2⟩

theorem tip_injective (work : Bytes) (l₁ l₂ : Label) (h₁ : TipOK l₁) (h₂ : TipOK l₂)
    (h : targetInfoPathGo work l₁ = targetInfoPathGo work l₂) : l₁ = l₂ := by
  rw [tip_eq work l₁ h₁.pkgAbs, tip_eq work l₂ h₂.pkgAbs] at h
  simp only [Out.ok.injEq] at h
  obtain ⟨hd, hs⟩ := tip_injective_core work _ _ _ _ (tipDir_normal l₁ h₁.kindSlash) (tipSeg_normal l₁)
    (tipDir_normal l₂ h₂.kindSlash) (tipSeg_normal l₂) h
  -- kinds
  have hk : l₁.kind = l₂.kind := by
    unfold tipDir at hd
    have hd' := List.append_cancel_right hd
    by_cases e1 : l₁.kind = [] <;> by_cases e2 : l₂.kind = []
    · rw [e1, e2]
    · simp only [e1, ↓reduceIte, e2] at hd'; exact absurd hd'.symm h₂.kindTarget
    · simp only [e1, ↓reduceIte, e2] at hd'; exact absurd hd' h₁.kindTarget
    · simpa [e1, e2] using hd'
  -- package and name
  unfold tipSeg at hs
  simp only [h₁.name, h₂.name, ↓reduceIte] at hs
  obtain ⟨hp, hn⟩ := split_last_slash h₁.nameSlash h₂.nameSlash (pathEscape_injective hs)
  have hpkg : l₁.pkg = l₂.pkg := by
    rw [(hasPrefixSS_length h₁.pkgAbs).2, (hasPrefixSS_length h₂.pkgAbs).2, hp]
  obtain ⟨k1, p1, g1, n1⟩ := l₁
  obtain ⟨k2, p2, g2, n2⟩ := l₂
  have hp1 := h₁.project
  have hp2 := h₂.project
  simp only at hk hpkg hn hp1 hp2
  rw [hk, hpkg, hn, hp1, hp2]


/-- every record lies directly below the directory of its kind, which lies directly below the work directory:
the elements of the cleaned path are those of `work` followed by `kind+"s"` and the escaped segment -/
theorem tip_below (work : Bytes) : ∃ base, ∀ l, TipOK l →
    ∃ p, targetInfoPathGo work l = .ok p ∧ pathComps p = base ++ [tipDir l, tipSeg l] := by
  refine ⟨((split slash work).foldl (pstep (decide ((work ++ [slash]).head? = some slash))) []).reverse, ?_⟩
  intro l hl
  refine ⟨_, tip_eq work l hl.pkgAbs, ?_⟩
  obtain ⟨r, w, ok, sl, e, hr, hw⟩ := tip_stack work (tipDir l) (tipSeg l) (tipDir_normal l hl.kindSlash) (tipSeg_normal l)
  subst hr hw
  unfold pathComps
  rw [e, (pathClean_render _ _ ok sl).2.1]
  simp

end Dawn.Label

import Dawn.Proofs.LoaderStep
/-!
The condition variable of the fixed loader: `asleep d` (the notify list of `d.cond`) holds exactly the goroutines that
sleep in `d.cond.Wait()` and have not been woken, and it is empty once `d` is loaded — `done` sets `loaded` and
broadcasts in that order, and `wait` tests `!m.loaded` and joins the list in one critical section. Hence no wake-up is
lost: a goroutine that sleeps on a loaded module has been taken off the list and can run.
-/
namespace Dawn.Loader

structure InvA (s : State) : Prop where
  /-- on the list: asleep on that module, which is not loaded yet -/
  listed : ∀ d t, t ∈ s.asleep d → s.pc t = .sleep d ∧ s.loaded d = false
  /-- asleep and not on the list (woken): only after the module finished -/
  woken : ∀ t d, s.pc t = .sleep d → t ∈ s.asleep d ∨ s.loaded d = true

theorem invA_init (P : Project) : InvA (init P) := by
  constructor
  · intro d t h; simp [init] at h
  · intro t d h
    simp only [init] at h
    split at h <;> cases h

set_option maxHeartbeats 1000000 in
theorem invA_fstep {P : Project} {s s' : State} {t : Tid} (inv : InvA s) (st : FStep P s t s') : InvA s' := by
  have ⟨a1, a2⟩ := inv
  cases st <;> constructor <;> simp only [setPc, publish, goSleep, upd, List.contains_iff_mem, decide_eq_false_iff_not] at * <;>
    first | grind | skip

theorem invA_reachable {P : Project} {s : State} (h : Reachable .fixed P s) : InvA s :=
  reachable_induction (I := InvA) (invA_init P) (fun _ _ _ _ ih st => invA_fstep ih st) h

end Dawn.Loader
